/-
Gauge invariant for C05, part 1: the decimal arithmetic of `pullGauge`.

`ratioAt startT endT t` is the `sdk.Dec` the code computes as `1 − left/total` at block time `t`
(whole microseconds), `would … A = ratio·A` the amount that "should have been released by now".
Proved: the ratio is in [0,1] during the life of a gauge, it is 0 at the start, `would` is monotone
in `t`, and a gauge that has withdrawn at most `would` releases a non-negative amount that is at
most its balance and is again on schedule afterwards.
-/
import Canine.Proofs.RewardD
namespace Canine.Storage.GI
open Canine.Mint (chopRound_nonneg)

/-! ## rounding is monotone -/

theorem chopRoundNat_mono (x y : Int) (h : x ≤ y) : chopRoundNat x ≤ chopRoundNat y := by
  unfold chopRoundNat precision fivePrecision
  simp only
  split <;> split <;> (try split) <;> (try split) <;> (try split) <;> (try split) <;> (try split) <;> (try split) <;> omega

theorem chopRound_of_nonneg (x : Int) (h : 0 ≤ x) : chopRound x = chopRoundNat x := by
  unfold chopRound; split
  · omega
  · rfl

theorem chopRound_mono_nonneg (x y : Int) (hx : 0 ≤ x) (h : x ≤ y) : chopRound x ≤ chopRound y := by
  rw [chopRound_of_nonneg x hx, chopRound_of_nonneg y (by omega)]
  exact chopRoundNat_mono x y h

theorem chopRound_mul_precision (n : Int) : chopRound (n * precision) = n := by
  unfold chopRound chopRoundNat precision fivePrecision
  simp only
  split
  · split
    · omega
    · omega
  · split
    · omega
    · omega

theorem precision_pos : 0 < precision := by unfold precision; omega

/-! ## the ratio of `pullGauge` -/

/-- the quotient `left/total` as `Dec.quo?` computes it (raw 18-decimal value) -/
def quoRaw (L T : Int) : Int :=
  chopRound (tdiv ((Dec.ofInt L).raw * precision * precision) (Dec.ofInt T).raw)

/-- `ratio := 1 − left/total` of `pullGauge` at block time `t` for a gauge `[startT, endT]` -/
def ratioAt (startT endT t : Int) : Dec :=
  Dec.sub Dec.one ⟨quoRaw (Int.tdiv endT 1000 - Int.tdiv t 1000) (Int.tdiv endT 1000 - Int.tdiv startT 1000)⟩

/-- what `pullGauge` calls `would`: `ratio·A` -/
def would (startT endT t A : Int) : Dec := Dec.mul (ratioAt startT endT t) (Dec.ofInt A)

theorem quo_eq (L T : Int) (hT : T ≠ 0) :
    Dec.quo? (Dec.ofInt L) (Dec.ofInt T) = some ⟨quoRaw L T⟩ := by
  unfold Dec.quo? quoRaw
  have : ¬ ((Dec.ofInt T).raw = 0) := by
    unfold Dec.ofInt precision; simp only; omega
  simp only [this, if_false]

/-- the division of `pullGauge` is defined as soon as start and end are in different microseconds,
and `Dec.sub Dec.one q` is `ratioAt` -/
theorem quo_ratioAt (startT endT t : Int) (hT : Int.tdiv endT 1000 - Int.tdiv startT 1000 ≠ 0) :
    ∃ q, Dec.quo? (Dec.ofInt (Int.tdiv endT 1000 - Int.tdiv t 1000))
            (Dec.ofInt (Int.tdiv endT 1000 - Int.tdiv startT 1000)) = some q ∧
      Dec.sub Dec.one q = ratioAt startT endT t :=
  ⟨_, quo_eq _ _ hT, rfl⟩

theorem quoRaw_eq_div (L T : Int) (hL : 0 ≤ L) (hT : 0 < T) :
    quoRaw L T = chopRoundNat (L * precision * precision * precision / (T * precision)) := by
  unfold quoRaw Dec.ofInt
  simp only
  have hX : 0 ≤ L * precision * precision * precision := by unfold precision; omega
  have hY : 0 < T * precision := by unfold precision; omega
  have hdiv : tdiv (L * precision * precision * precision) (T * precision)
      = L * precision * precision * precision / (T * precision) := by
    unfold tdiv; simp only [hX, Int.le_of_lt hY, if_true]
  rw [hdiv, chopRound_of_nonneg _ (Int.ediv_nonneg hX (Int.le_of_lt hY))]

theorem quoRaw_mono (L1 L2 T : Int) (h0 : 0 ≤ L1) (h : L1 ≤ L2) (hT : 0 < T) : quoRaw L1 T ≤ quoRaw L2 T := by
  rw [quoRaw_eq_div L1 T h0 hT, quoRaw_eq_div L2 T (by omega) hT]
  apply chopRoundNat_mono
  apply Int.ediv_le_ediv (by unfold precision; omega)
  unfold precision; omega

theorem quoRaw_self (T : Int) (hT : 0 < T) : quoRaw T T = precision := by
  rw [quoRaw_eq_div T T (by omega) hT]
  have : T * precision * precision * precision / (T * precision) = precision * precision := by
    have e : T * precision * precision * precision = precision * precision * (T * precision) := by
      unfold precision; omega
    rw [e, Int.mul_ediv_cancel _ (by unfold precision; omega)]
  rw [this]
  have := chopRound_mul_precision precision
  rwa [chopRound_of_nonneg _ (by unfold precision; omega)] at this

theorem quoRaw_nonneg (L T : Int) (hL : 0 ≤ L) (hT : 0 < T) : 0 ≤ quoRaw L T := by
  rw [quoRaw_eq_div L T hL hT]
  have hX : 0 ≤ L * precision * precision * precision := by unfold precision; omega
  have hY : 0 < T * precision := by unfold precision; omega
  have := chopRound_nonneg _ (Int.ediv_nonneg hX (Int.le_of_lt hY))
  rwa [chopRound_of_nonneg _ (Int.ediv_nonneg hX (Int.le_of_lt hY))] at this

/-- the time facts used throughout: a gauge of at least two microseconds, seen during its life -/
structure Live (startT endT t : Int) : Prop where
  started : startT ≤ t
  notEnded : t ≤ endT
  long : startT + 1999 ≤ endT

theorem Live.us {startT endT t : Int} (h : Live startT endT t) :
    0 ≤ Int.tdiv endT 1000 - Int.tdiv t 1000 ∧
    Int.tdiv endT 1000 - Int.tdiv t 1000 ≤ Int.tdiv endT 1000 - Int.tdiv startT 1000 ∧
    0 < Int.tdiv endT 1000 - Int.tdiv startT 1000 := by
  have h1 := tdiv1000_mono h.notEnded
  have h2 := tdiv1000_mono h.started
  have h3 := tdiv1000_strict (a := startT) (b := endT) h.long
  omega

theorem ratioAt_raw (startT endT t : Int) :
    (ratioAt startT endT t).raw
      = precision - quoRaw (Int.tdiv endT 1000 - Int.tdiv t 1000) (Int.tdiv endT 1000 - Int.tdiv startT 1000) := by
  unfold ratioAt Dec.sub Dec.one Dec.ofInt
  simp only [Int.one_mul]

/-- `0 ≤ ratio ≤ 1` -/
theorem ratioAt_range {startT endT t : Int} (h : Live startT endT t) :
    0 ≤ (ratioAt startT endT t).raw ∧ (ratioAt startT endT t).raw ≤ precision := by
  obtain ⟨u1, u2, u3⟩ := h.us
  rw [ratioAt_raw]
  have a := quoRaw_nonneg _ _ u1 u3
  have b := quoRaw_mono _ _ _ u1 u2 u3
  rw [quoRaw_self _ u3] at b
  omega

/-- the ratio is 0 at the start -/
theorem ratioAt_start {startT endT : Int} (h : startT + 1999 ≤ endT) : (ratioAt startT endT startT).raw = 0 := by
  have hl : Live startT endT startT := ⟨Int.le_refl _, by omega, h⟩
  rw [ratioAt_raw, quoRaw_self _ hl.us.2.2]; omega

/-- the ratio grows with time -/
theorem ratioAt_mono {startT endT t1 t2 : Int} (_h1 : Live startT endT t1) (h2 : Live startT endT t2)
    (hle : t1 ≤ t2) : (ratioAt startT endT t1).raw ≤ (ratioAt startT endT t2).raw := by
  obtain ⟨u1, _, u3⟩ := h2.us
  rw [ratioAt_raw, ratioAt_raw]
  have := quoRaw_mono (Int.tdiv endT 1000 - Int.tdiv t2 1000) (Int.tdiv endT 1000 - Int.tdiv t1 1000) _ u1
    (by have := tdiv1000_mono hle; omega) u3
  omega

/-! ## `would = ratio·A` -/

theorem would_raw (startT endT t A : Int) :
    (would startT endT t A).raw = chopRound ((ratioAt startT endT t).raw * (A * precision)) := by
  unfold would Dec.mul Dec.ofInt
  simp only

theorem would_range {startT endT t A : Int} (h : Live startT endT t) (hA : 0 ≤ A) :
    0 ≤ (would startT endT t A).raw ∧ (would startT endT t A).raw ≤ A * precision := by
  obtain ⟨r0, r1⟩ := ratioAt_range h
  rw [would_raw]
  have hAP : 0 ≤ A * precision := by unfold precision; omega
  apply chopRound_bounds
  · exact Int.mul_nonneg r0 hAP
  · rw [Int.mul_comm (A * precision) precision]
    exact Int.mul_le_mul_of_nonneg_right r1 hAP

theorem would_mono {startT endT t1 t2 A : Int} (h1 : Live startT endT t1) (h2 : Live startT endT t2)
    (hle : t1 ≤ t2) (hA : 0 ≤ A) : (would startT endT t1 A).raw ≤ (would startT endT t2 A).raw := by
  rw [would_raw, would_raw]
  have hAP : 0 ≤ A * precision := by unfold precision; omega
  apply chopRound_mono_nonneg
  · exact Int.mul_nonneg (ratioAt_range h1).1 hAP
  · exact Int.mul_le_mul_of_nonneg_right (ratioAt_mono h1 h2 hle) hAP

theorem would_start {startT endT A : Int} (h : startT + 1999 ≤ endT) : (would startT endT startT A).raw = 0 := by
  rw [would_raw, ratioAt_start h]
  have := chopRound_mul_precision 0
  simp only [Int.zero_mul] at this ⊢
  exact this

/-! ## the released amount -/

/-- the amount `pullGauge` computes, in terms of `would` -/
theorem gaugeAmt_eq (startT endT t A bal : Int) :
    gaugeAmt (ratioAt startT endT t) A bal
      = tdiv ((would startT endT t A).raw - (A - bal) * precision) precision := by
  unfold gaugeAmt would Dec.trunc chopTrunc Dec.sub Dec.ofInt
  simp only

/-- **on schedule ⇒ safe and on schedule again.**  If what has left the escrow account, `A − bal`,
is at most `would` (in exact decimals), the amount computed is non-negative, at most the balance,
and after it has left the account the gauge is again on schedule at the same instant. -/
theorem amt_on_schedule {w A bal : Int} (hw : w ≤ A * precision) (hs : (A - bal) * precision ≤ w) :
    0 ≤ tdiv (w - (A - bal) * precision) precision ∧
    tdiv (w - (A - bal) * precision) precision ≤ bal ∧
    (A - (bal - tdiv (w - (A - bal) * precision) precision)) * precision ≤ w := by
  unfold tdiv precision at *
  have : (0:Int) ≤ w - (A - bal) * 1000000000000000000 := by omega
  simp only [this, show (0:Int) ≤ 1000000000000000000 by omega, if_true]
  omega

end Canine.Storage.GI
