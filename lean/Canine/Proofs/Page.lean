/-
Lemmas about the pagination model (Canine/Query/Page.lean): on a store whose keys are strictly
ascending (what an ordered key-value store is), a client that follows `NextKey` from the first
page to the last sees every value exactly once, in key order (forward) or in reverse key order.
Only irreflexivity of `<` on keys is used.
-/
import Canine.Query.Page
namespace Canine.Query

variable {V : Type}

/-- strictly ascending keys -/
def Sorted (entries : List (String × V)) : Prop := entries.Pairwise (fun a b => a.1 < b.1)

theorem effLimit_pos (limit : Nat) : 0 < (if limit = 0 then defaultLimit else limit) := by
  split
  · decide
  · omega

theorem dropWhile_lt_key (pre post : List (String × V)) (e : String × V)
    (h : Sorted (pre ++ e :: post)) :
    (pre ++ e :: post).dropWhile (fun x => decide (x.1 < e.1)) = e :: post := by
  induction pre with
  | nil =>
    simp only [List.nil_append, List.dropWhile_cons]
    have : ¬ e.1 < e.1 := String.lt_irrefl e.1
    simp [this]
  | cons p t ih =>
    have hp : p.1 < e.1 := by
      have := (List.pairwise_cons.mp h).1 e (by simp)
      exact this
    simp only [List.cons_append, List.dropWhile_cons, hp, decide_true, if_true]
    exact ih (List.pairwise_cons.mp h).2

theorem takeWhile_lt_key (pre post : List (String × V)) (e : String × V)
    (h : Sorted (pre ++ e :: post)) :
    (pre ++ e :: post).takeWhile (fun x => decide (x.1 < e.1)) = pre := by
  induction pre with
  | nil =>
    simp only [List.nil_append, List.takeWhile_cons]
    have : ¬ e.1 < e.1 := String.lt_irrefl e.1
    simp [this]
  | cons p t ih =>
    have hp : p.1 < e.1 := (List.pairwise_cons.mp h).1 e (by simp)
    simp only [List.cons_append, List.takeWhile_cons, hp, decide_true, if_true]
    rw [ih (List.pairwise_cons.mp h).2]

/-- a forward page positioned at the key of an entry: the next `limit` values from that entry on -/
theorem page_forward_at (pre post : List (String × V)) (e : String × V) (limit : Nat)
    (h : Sorted (pre ++ e :: post)) :
    paginate (pre ++ e :: post) { key := some e.1, limit := limit } =
      .ok { items := ((e :: post).take (if limit = 0 then defaultLimit else limit)).map (·.2),
            nextKey := ((e :: post).drop (if limit = 0 then defaultLimit else limit)).head?.map (·.1),
            total := 0 } := by
  simp only [paginate, iterFrom, dropWhile_lt_key pre post e h]
  simp

/-- a reverse page positioned at the key of an entry that is not the last one: the `limit` values
from that entry downwards -/
theorem page_reverse_at (pre post : List (String × V)) (e nxt : String × V) (limit : Nat)
    (h : Sorted (pre ++ e :: nxt :: post)) :
    paginate (pre ++ e :: nxt :: post) { key := some e.1, limit := limit, reverse := true } =
      .ok { items := ((e :: pre.reverse).take (if limit = 0 then defaultLimit else limit)).map (·.2),
            nextKey := ((e :: pre.reverse).drop (if limit = 0 then defaultLimit else limit)).head?.map (·.1),
            total := 0 } := by
  have h1 := dropWhile_lt_key pre (nxt :: post) e h
  have h2 : (pre ++ e :: nxt :: post).takeWhile (fun x => decide (x.1 < nxt.1)) = pre ++ [e] := by
    have := takeWhile_lt_key (pre ++ [e]) post nxt (by simpa [Sorted, List.append_assoc] using h)
    simpa [List.append_assoc] using this
  simp only [paginate, iterFrom, h1, h2]
  simp

/-- the reverse iterator positioned at the last key reads `Key()` of an exhausted iterator -/
theorem page_reverse_at_last_panics (pre : List (String × V)) (e : String × V) (limit : Nat)
    (h : Sorted (pre ++ [e])) :
    ∃ msg, paginate (pre ++ [e]) { key := some e.1, limit := limit, reverse := true } = .error msg := by
  have h1 := dropWhile_lt_key pre [] e h
  refine ⟨"panic: iterator invalid, cannot call Key()", ?_⟩
  simp only [paginate, iterFrom, h1]
  simp

/-- walking forward from the key of the first entry of a suffix lists exactly the suffix -/
theorem walk_forward_from (limit : Nat) :
    ∀ (n : Nat) (pre suf : List (String × V)) (e : String × V) (acc : List V) (fuel : Nat),
      (e :: suf).length ≤ n → n ≤ fuel → Sorted (pre ++ e :: suf) →
      walk (pre ++ e :: suf) limit false fuel (some e.1) acc = some (acc ++ (e :: suf).map (·.2)) := by
  intro n
  induction n with
  | zero => intro pre suf e acc fuel hl; simp at hl
  | succ n ih =>
    intro pre suf e acc fuel hl hf hs
    obtain ⟨fuel', rfl⟩ : ∃ f, fuel = f + 1 := ⟨fuel - 1, by omega⟩
    have hpos := effLimit_pos limit
    generalize hL : (if limit = 0 then defaultLimit else limit) = L at hpos
    simp only [walk, page_forward_at pre suf e limit hs, hL]
    cases hd : (e :: suf).drop L with
    | nil =>
      have htake : (e :: suf).take L = e :: suf := by
        have := List.take_append_drop L (e :: suf)
        rw [hd, List.append_nil] at this; exact this
      simp [htake]
    | cons e' suf' =>
      simp only [List.head?_cons, Option.map_some]
      have hsplit : e :: suf = (e :: suf).take L ++ e' :: suf' := by
        have := List.take_append_drop L (e :: suf)
        rw [hd] at this; exact this.symm
      have hlen' : (e' :: suf').length < (e :: suf).length := by
        have := congrArg List.length hd
        simp only [List.length_drop, List.length_cons] at this ⊢
        omega
      have hs' : Sorted ((pre ++ (e :: suf).take L) ++ e' :: suf') := by
        rw [List.append_assoc, ← hsplit]; exact hs
      have := ih (pre ++ (e :: suf).take L) suf' e' (acc ++ ((e :: suf).take L).map (·.2)) fuel'
        (by omega) (by omega) hs'
      rw [List.append_assoc, ← hsplit] at this
      rw [this, List.append_assoc, ← List.map_append, ← hsplit]

/-- **A forward walk through `NextKey` lists every value of the store exactly once, in key order.** -/
theorem walk_forward_complete (entries : List (String × V)) (limit fuel : Nat)
    (hs : Sorted entries) (hf : entries.length + 1 ≤ fuel) :
    walk entries limit false fuel none [] = some (entries.map (·.2)) := by
  obtain ⟨fuel', rfl⟩ : ∃ f, fuel = f + 1 := ⟨fuel - 1, by omega⟩
  have hpos := effLimit_pos limit
  generalize hL : (if limit = 0 then defaultLimit else limit) = L at hpos
  simp only [walk, paginate]
  simp only [Nat.lt_irrefl, false_and, if_false, Bool.false_eq_true, hL, List.drop_zero, Nat.zero_add,
    List.nil_append]
  cases hd : entries.drop L with
  | nil =>
    have htake : entries.take L = entries := by
      have := List.take_append_drop L entries
      rw [hd, List.append_nil] at this; exact this
    simp [htake]
  | cons e suf =>
    simp only [List.head?_cons, Option.map_some]
    have hsplit : entries = entries.take L ++ e :: suf := by
      have := List.take_append_drop L entries
      rw [hd] at this; exact this.symm
    have hlen : (e :: suf).length ≤ entries.length := by
      have := congrArg List.length hd
      simp only [List.length_drop] at this; omega
    have := walk_forward_from limit entries.length (entries.take L) suf e ((entries.take L).map (·.2)) fuel'
      hlen (by omega) (by rw [← hsplit]; exact hs)
    rw [← hsplit] at this
    rw [this, ← List.map_append, ← hsplit]

/-- walking backwards from the key of an entry that has a successor lists that entry and
everything before it, newest key first (`rpre` is the part before the entry, reversed) -/
theorem walk_reverse_from (limit : Nat) :
    ∀ (n : Nat) (rpre : List (String × V)) (e nxt : String × V) (post : List (String × V)) (acc : List V) (fuel : Nat),
      (e :: rpre).length ≤ n → n ≤ fuel → Sorted (rpre.reverse ++ e :: nxt :: post) →
      walk (rpre.reverse ++ e :: nxt :: post) limit true fuel (some e.1) acc = some (acc ++ (e :: rpre).map (·.2)) := by
  intro n
  induction n with
  | zero => intro rpre e nxt post acc fuel hl; simp at hl
  | succ n ih =>
    intro rpre e nxt post acc fuel hl hf hs
    obtain ⟨fuel', rfl⟩ : ∃ f, fuel = f + 1 := ⟨fuel - 1, by omega⟩
    have hpos := effLimit_pos limit
    generalize hL : (if limit = 0 then defaultLimit else limit) = L at hpos
    simp only [walk, page_reverse_at rpre.reverse post e nxt limit hs, hL, List.reverse_reverse]
    cases hd : (e :: rpre).drop L with
    | nil =>
      have htake : (e :: rpre).take L = e :: rpre := by
        have := List.take_append_drop L (e :: rpre)
        rw [hd, List.append_nil] at this; exact this
      simp [htake]
    | cons e' rpre' =>
      simp only [List.head?_cons, Option.map_some]
      have hsplit : e :: rpre = (e :: rpre).take L ++ e' :: rpre' := by
        have := List.take_append_drop L (e :: rpre)
        rw [hd] at this; exact this.symm
      have hlen' : (e' :: rpre').length < (e :: rpre).length := by
        have := congrArg List.length hd
        simp only [List.length_drop, List.length_cons] at this ⊢
        omega
      -- the entries, re-read around e'
      have hrev : rpre.reverse ++ e :: nxt :: post =
          rpre'.reverse ++ e' :: (((e :: rpre).take L).reverse ++ nxt :: post) := by
        have h1 : rpre.reverse ++ [e] = (e :: rpre).reverse := by simp
        have h2 : (e :: rpre).reverse = rpre'.reverse ++ e' :: ((e :: rpre).take L).reverse := by
          conv => lhs; rw [hsplit]
          simp
        calc rpre.reverse ++ e :: nxt :: post
            = (rpre.reverse ++ [e]) ++ nxt :: post := by simp
          _ = (rpre'.reverse ++ e' :: ((e :: rpre).take L).reverse) ++ nxt :: post := by rw [h1, h2]
          _ = _ := by simp
      cases hafter : ((e :: rpre).take L).reverse ++ nxt :: post with
      | nil => simp at hafter
      | cons nxt' post' =>
        rw [hafter] at hrev
        have := ih rpre' e' nxt' post' (acc ++ ((e :: rpre).take L).map (·.2)) fuel'
          (by omega) (by omega) (by rw [← hrev]; exact hs)
        rw [← hrev] at this
        rw [this, List.append_assoc, ← List.map_append, ← hsplit]

/-- **A reverse walk through `NextKey` lists every value of the store exactly once, newest key
first.**  (It never positions the iterator at the last key, the one request that panics.) -/
theorem walk_reverse_complete (entries : List (String × V)) (limit fuel : Nat)
    (hs : Sorted entries) (hf : entries.length + 1 ≤ fuel) :
    walk entries limit true fuel none [] = some (entries.reverse.map (·.2)) := by
  obtain ⟨fuel', rfl⟩ : ∃ f, fuel = f + 1 := ⟨fuel - 1, by omega⟩
  have hpos := effLimit_pos limit
  generalize hL : (if limit = 0 then defaultLimit else limit) = L at hpos
  simp only [walk, paginate]
  simp only [Nat.lt_irrefl, false_and, if_false, if_true, hL, List.drop_zero, Nat.zero_add, List.nil_append]
  cases hd : entries.reverse.drop L with
  | nil =>
    have htake : entries.reverse.take L = entries.reverse := by
      have := List.take_append_drop L entries.reverse
      rw [hd, List.append_nil] at this; exact this
    simp [htake]
  | cons e rpre =>
    simp only [List.head?_cons, Option.map_some]
    have hsplit : entries.reverse = entries.reverse.take L ++ e :: rpre := by
      have := List.take_append_drop L entries.reverse
      rw [hd] at this; exact this.symm
    have hlen : (e :: rpre).length ≤ entries.length := by
      have := congrArg List.length hd
      simp only [List.length_drop, List.length_reverse] at this; omega
    have hent : entries = rpre.reverse ++ e :: (entries.reverse.take L).reverse := by
      have := congrArg List.reverse hsplit
      simpa using this
    cases hafter : (entries.reverse.take L).reverse with
    | nil =>
      -- the first page is not empty: L > 0 and the reversed store has an element beyond it
      have : (entries.reverse.take L).length = 0 := by
        have := congrArg List.length hafter; simpa using this
      have h2 : entries.reverse.length = (entries.reverse.take L).length + (e :: rpre).length := by
        conv => lhs; rw [hsplit]
        simp
      simp only [List.length_take, List.length_reverse, List.length_cons] at this h2
      omega
    | cons nxt post =>
      rw [hafter] at hent
      have := walk_reverse_from limit entries.length rpre e nxt post ((entries.reverse.take L).map (·.2)) fuel'
        hlen (by omega) (by rw [← hent]; exact hs)
      rw [← hent] at this
      rw [this, ← List.map_append, ← hsplit]

end Canine.Query
