/-
Gauge invariant for C05, part 4: the reward block keeps `GaugeInv`.

After `pullGauge` at block time `now` the gauge is on schedule at `now` (its cumulative withdrawal is
`⌊ratio·A⌋`), the other gauges' escrow accounts are untouched, the payouts only credit, and the loop
over the files touches neither ledger nor gauges.
-/
import Canine.Proofs.GaugeInvDef
namespace Canine.Storage
open Bank GI

theorem amt_single (d : String) (x : Int) : amt d [(d, x)] = x := by simp [amt]

/-- one gauge of the store is pulled: the invariant is kept (at the block time), and the gauge store
is unchanged or has lost exactly this gauge -/
theorem pullGauge_inv {E : EscrowScheme} {st st' : State} {now : Int} {rel rel' : Coins} {kv : String × Gauge}
    (hinv : GaugeInv E st now) (hkv : kv ∈ st.gauges)
    (h : pullGauge st now rel kv.2 = .ok (st', rel')) :
    GaugeInv E st' now ∧ (st'.gauges = st.gauges ∨ st'.gauges = AMap.erase st.gauges kv.1) := by
  have hid := (hinv.ids kv hkv).1
  have hok := hinv.ok kv hkv
  have hne := hinv.accNe kv hkv
  obtain ⟨k, g⟩ := kv
  simp only at h hid hok hne
  have dead : pullGauge st now rel g = .ok ({ st with gauges := AMap.erase st.gauges g.id }, rel) →
      GaugeInv E st' now ∧ (st'.gauges = st.gauges ∨ st'.gauges = AMap.erase st.gauges k) := by
    intro e
    rw [e] at h
    simp only [Except.ok.injEq, Prod.mk.injEq] at h
    obtain ⟨h, _⟩ := h; subst h
    exact ⟨hinv.erase _, Or.inr (by rw [hid])⟩
  by_cases h1 : g.endT < now
  · apply dead; unfold pullGauge; simp only [h1, if_true]
  by_cases h2 : g.endT ≤ g.startT
  · apply dead; unfold pullGauge; simp only [h1, h2, if_true, if_false]
  cases h3 : acctEmpty st.bank g.account with
  | true =>
    apply dead
    unfold acctEmpty at h3
    unfold pullGauge; simp only [h1, h2, if_false, h3, if_true]
  | false =>
    have hl : Live g.startT g.endT now := ⟨hok.started, by omega, hok.long⟩
    obtain ⟨q, hq, hr⟩ := quo_ratioAt g.startT g.endT now (by have := hl.us.2.2; omega)
    rw [pullGauge_live (by omega) (by omega) h3 hq, hr] at h
    rcases hok.coins with e | ⟨A, hA, e⟩
    · rw [e] at h
      simp only [List.foldlM_nil, pure, Except.pure, Except.ok.injEq, Prod.mk.injEq] at h
      obtain ⟨h, _⟩ := h; subst h
      exact ⟨hinv, Or.inl rfl⟩
    · rw [e] at h
      simp only [List.foldlM_cons, List.foldlM_nil, bind, Except.bind] at h
      cases hcs : coinStep g (ratioAt g.startT g.endT now) (st, rel) ("ujkl", A) with
      | error _ => rw [hcs] at h; simp at h
      | ok v =>
        rw [hcs] at h
        simp only [pure, Except.pure, Except.ok.injEq] at h
        subst h
        unfold coinStep at hcs
        simp only at hcs
        split at hcs
        · simp at hcs
        split at hcs
        · simp only [Except.ok.injEq, Prod.mk.injEq] at hcs
          obtain ⟨hcs, _⟩ := hcs; subst hcs
          exact ⟨hinv, Or.inl rfl⟩
        split at hcs
        · simp at hcs
        split at hcs
        · rename_i b hsend
          simp only [Except.ok.injEq, Prod.mk.injEq] at hcs
          obtain ⟨hcs, _⟩ := hcs; subst hcs
          refine ⟨⟨hinv.wf, hinv.ids, hinv.accNe, ?_, hinv.bank.moves (Moves.of_send (P := fun _ => True) trivial hsend)⟩,
            Or.inl rfl⟩
          intro kv' hkv'
          by_cases ha : kv'.2.account = g.account
          · have := hinv.same_acc hkv' hkv ha
            subst this
            refine ⟨hok.started, hok.long, hok.coins, fun ht c hc => ?_⟩
            simp only at hc ⊢
            rw [e, List.mem_singleton] at hc
            subst hc
            simp only
            have hb := bal_send hsend g.account "ujkl"
            simp only [amt_single, if_true, Ne.symm hne.1, if_false] at hb
            have hs := hok.sched (by omega) ("ujkl", A) (by rw [e]; simp)
            simp only [ofInt_raw] at hs
            have hw := (would_range hl hA).2
            obtain ⟨_, _, a2⟩ := amt_on_schedule hw hs
            rw [gaugeAmt_eq] at hb
            rw [ofInt_raw, hb]
            have : bal st.bank g.account "ujkl" + 0 - tdiv ((would g.startT g.endT now A).raw - (A - bal st.bank g.account "ujkl") * precision) precision
              = bal st.bank g.account "ujkl" - tdiv ((would g.startT g.endT now A).raw - (A - bal st.bank g.account "ujkl") * precision) precision := by omega
            rw [this]
            exact a2
          · refine (hinv.ok kv' hkv').of_bal_ge (fun d => ?_)
            simp only
            rw [bal_send_other hsend (Ne.symm ha) (Ne.symm (hinv.accNe kv' hkv').1)]
            exact Int.le_refl _
        · simp only [Except.ok.injEq, Prod.mk.injEq] at hcs
          obtain ⟨hcs, _⟩ := hcs; subst hcs
          exact ⟨hinv, Or.inl rfl⟩

/-- the loop of `pullTokensFromGauges` over (a suffix of) the gauge store -/
theorem pullGauges_fold_inv {E : EscrowScheme} {now : Int} :
    ∀ (l : List (String × Gauge)) (st : State) (rel : Coins) (st' : State) (rel' : Coins),
      GaugeInv E st now → (l.map (·.1)).Nodup → (∀ kv ∈ l, kv ∈ st.gauges) →
      l.foldlM (fun (acc : State × Coins) kv => pullGauge acc.1 now acc.2 kv.2) (st, rel) = .ok (st', rel') →
      GaugeInv E st' now
  | [], st, rel, st', rel', hinv, _, _, h => by
    simp only [List.foldlM_nil, pure, Except.pure, Except.ok.injEq, Prod.mk.injEq] at h
    obtain ⟨h, _⟩ := h; subst h; exact hinv
  | kv :: l, st, rel, st', rel', hinv, hnd, hmem, h => by
    simp only [List.foldlM_cons, bind, Except.bind] at h
    cases hp : pullGauge st now rel kv.2 with
    | error _ => rw [hp] at h; simp at h
    | ok v =>
      obtain ⟨st1, rel1⟩ := v
      rw [hp] at h
      simp only at h
      obtain ⟨hinv1, hg⟩ := pullGauge_inv hinv (hmem kv (by simp)) hp
      simp only [List.map_cons, List.nodup_cons] at hnd
      refine pullGauges_fold_inv l st1 rel1 st' rel' hinv1 hnd.2 ?_ h
      intro kv' hkv'
      have hm := hmem kv' (List.mem_cons_of_mem _ hkv')
      rcases hg with e | e
      · rw [e]; exact hm
      · rw [e]
        apply mem_erase_of_ne hm
        intro ek
        apply hnd.1
        rw [← ek]
        exact List.mem_map_of_mem hkv'

theorem pullGauges_inv {E : EscrowScheme} {s s' : State} {now : Int} {rel : Coins} (hinv : GaugeInv E s now)
    (h : pullGauges s now = .ok (s', rel)) : GaugeInv E s' now :=
  pullGauges_fold_inv s.gauges s [] s' rel hinv hinv.wf (fun _ hkv => hkv) h

/-- paying a prover only moves coins out of the module account -/
theorem payProver_inv {E : EscrowScheme} {s s' : State} {now : Int} {total : Int} {coins : Coins} {p : String} {w : Int}
    (hinv : GaugeInv E s now) (h : payProver s total coins p w = .ok s') : GaugeInv E s' now := by
  unfold payProver at h
  split at h
  · simp at h
  split at h
  · simp only [Except.ok.injEq] at h; subst h; exact hinv
  · refine foldlM_except_inv (fun (st : State) => GaugeInv E st now) _ ?_ _ s s' hinv h
    intro b a b' hb hstep
    simp only at hstep
    split at hstep
    · simp at hstep
    split at hstep
    · rename_i bk hsend
      simp only [Except.ok.injEq] at hstep; subst hstep
      simp only [Option.bind_eq_some_iff] at hsend
      obtain ⟨c, _, hsend⟩ := hsend
      exact hb.frame (P := fun a => a = b.moduleAcc) rfl rfl rfl (Moves.of_sendFromModule rfl hsend)
        (fun kv hkv => (hb.accNe kv hkv).1)
    · simp only [Except.ok.injEq] at hstep; subst hstep; exact hb

/-! ### the loop over the files leaves the collateral account's name alone -/

theorem removeFile_cacc (s : State) (k : FKey) : (removeFile s k).collateralAcc = s.collateralAcc := by
  unfold removeFile; split <;> rfl

theorem removeProver_cacc (s : State) (f : File) (pk : PKey) :
    (removeProver s f pk).1.collateralAcc = s.collateralAcc := by
  unfold removeProver; split <;> rfl

theorem burnContract_cacc (s : State) (p : String) : (burnContract s p).collateralAcc = s.collateralAcc := by
  unfold burnContract
  split
  · rfl
  · split <;> rfl

theorem manageProof_cacc (s : State) (h : Int) (t : Tracker) (file : File) (pk : PKey) :
    (manageProof s h t file pk).1.collateralAcc = s.collateralAcc := by
  unfold manageProof
  simp only
  split
  · split
    · exact removeProver_cacc _ _ _
    · rfl
  · split
    · rw [burnContract_cacc]; exact removeProver_cacc _ _ _
    · rfl

theorem manageProofs_cacc (h : Int) : ∀ (pks : List PKey) (s : State) (t : Tracker) (cur : File),
    (pks.foldl (fun (acc : State × Tracker × File) pk => manageProof acc.1 h acc.2.1 acc.2.2 pk) (s, t, cur)).1.collateralAcc
      = s.collateralAcc
  | [], _, _, _ => rfl
  | pk :: pks, s, t, cur => by
    simp only [List.foldl_cons]
    rw [manageProofs_cacc h pks]
    exact manageProof_cacc _ _ _ _ _

theorem manageFile_cacc (s : State) (h : Int) (t : Tracker) (file : File) :
    (manageFile s h t file).1.collateralAcc = s.collateralAcc := by
  unfold manageFile
  simp only
  rw [manageProofs_cacc]
  split
  · exact removeFile_cacc _ _
  · rfl

theorem manageFiles_cacc (h : Int) : ∀ (l : AMap FKey File) (s : State) (t : Tracker),
    (l.foldl (fun (acc : State × Tracker) kv => manageFile acc.1 h acc.2 kv.2) (s, t)).1.collateralAcc = s.collateralAcc
  | [], _, _ => rfl
  | kv :: l, s, t => by
    simp only [List.foldl_cons]
    rw [manageFiles_cacc h l]
    exact manageFile_cacc _ _ _ _

/-- **The reward block keeps the gauge invariant** (at the block time). -/
theorem beginBlock_gaugeInv {E : EscrowScheme} {s s' : State} {h now : Int} (hs : SizesOkF s.files)
    (hinv : GaugeInv E s now) (hb : beginBlock s h now = .ok s') : GaugeInv E s' now := by
  unfold beginBlock at hb
  split at hb
  · simp at hb
  split at hb
  · simp only [Except.ok.injEq] at hb; subst hb; exact hinv
  unfold manageRewards at hb
  simp only [bind, Except.bind] at hb
  have h1 := (manageFiles_tracker h s.files s [] (fun kv hkv => by have := (hs kv hkv).1; omega)
    (fun _ hp => by simp at hp)).2.2
  have h2 := manageFiles_cacc h s.files s []
  generalize (s.files.foldl (fun (acc : State × Tracker) kv => manageFile acc.1 h acc.2 kv.2) (s, [])) = r at h1 h2 hb
  obtain ⟨s1, tr⟩ := r
  simp only at hb h1 h2
  obtain ⟨e1, e2, e3, _, _⟩ := h1
  have hinv1 : GaugeInv E s1 now :=
    hinv.frame (P := fun _ => False) e2 e3 h2 (Moves.of_eq e1) (fun _ _ hf => hf)
  split at hb
  · simp at hb
  rename_i v hpg
  obtain ⟨s2, coins⟩ := v
  simp only at hb
  have hinv2 := pullGauges_inv hinv1 hpg
  exact foldlM_except_inv (fun st : State => GaugeInv E st now) _
    (fun b a b' hb hstep => payProver_inv hb hstep) _ s2 s' hinv2 hb

end Canine.Storage
