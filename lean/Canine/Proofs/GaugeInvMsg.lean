/-
Gauge invariant for C05, part 5: every message keeps `GaugeInv`.

* messages that move no coins keep ledger, gauge store and module accounts (`SameCore`);
* `initProvider` / `shutdownProvider` move coins out of the signer's account / the collateral
  account, neither of which is an escrow account;
* `postFile` (pay-once) and `buyStorage` debit the signer, deposit into the (new or same-block)
  gauge exactly the amount they add to its record, and afterwards only pay out of the module account.
-/
import Canine.Proofs.GaugeInvBlock
namespace Canine.Storage
open Bank GI

/-! ## messages that move no coins -/

/-- ledger, gauge store and the two module-account names are as before -/
def SameCore (s s' : State) : Prop :=
  s'.bank = s.bank ∧ s'.gauges = s.gauges ∧ s'.moduleAcc = s.moduleAcc ∧ s'.collateralAcc = s.collateralAcc

theorem SameCore.refl (s : State) : SameCore s s := ⟨rfl, rfl, rfl, rfl⟩
theorem SameCore.trans {a b c : State} (h1 : SameCore a b) (h2 : SameCore b c) : SameCore a c :=
  ⟨h2.1.trans h1.1, h2.2.1.trans h1.2.1, h2.2.2.1.trans h1.2.2.1, h2.2.2.2.trans h1.2.2.2⟩

theorem GaugeInv.sameCore {E : EscrowScheme} {s s' : State} {t : Int} (h : GaugeInv E s t) (hc : SameCore s s') :
    GaugeInv E s' t :=
  h.frame (P := fun _ => False) hc.2.1 hc.2.2.1 hc.2.2.2 (Moves.of_eq hc.1) (fun _ _ hf => hf)

theorem sameCore_removeFile (s : State) (k : FKey) : SameCore s (removeFile s k) := by
  unfold removeFile
  split
  · exact SameCore.refl s
  · exact ⟨rfl, rfl, rfl, rfl⟩

theorem sameCore_setFile (s : State) (f : File) : SameCore s (setFile s f) := ⟨rfl, rfl, rfl, rfl⟩

theorem sameCore_removeProver (s : State) (f : File) (pk : PKey) : SameCore s (removeProver s f pk).1 := by
  unfold removeProver
  split
  · exact ⟨rfl, rfl, rfl, rfl⟩
  · exact SameCore.refl s

theorem sameCore_updProvider {s s' : State} {c : String} {f : Provider → Option Provider}
    (h : updProvider s c f = some s') : SameCore s s' := by
  simp only [updProvider, bind, Option.bind_eq_some_iff] at h
  obtain ⟨_, _, _, _, hs⟩ := h
  simp only [Option.some.injEq] at hs; subst hs
  exact ⟨rfl, rfl, rfl, rfl⟩

theorem sameCore_postProof (s : State) (h : Int) (c m o : String) (st tp : Int) (v : Bool) (nc : Int) :
    SameCore s (postProof s h c m o st tp v nc).state := by
  generalize hr : postProof s h c m o st tp v nc = r
  unfold postProof at hr
  split at hr
  · subst hr; exact SameCore.refl s
  · simp only at hr
    repeat' split at hr
    all_goals
      subst hr
      exact ⟨rfl, rfl, rfl, rfl⟩

theorem sameCore_attest (s : State) (h : Int) (c p m o : String) (st : Int) :
    SameCore s (attest s h c p m o st) := by
  unfold attest
  simp only
  repeat' split
  all_goals exact ⟨rfl, rfl, rfl, rfl⟩

theorem sameCore_report {s s' : State} {c p m o : String} {st : Int}
    (h : report s c p m o st = some s') : SameCore s s' := by
  simp only [report, bind, Option.bind_eq_some_iff, req_eq_some] at h
  obtain ⟨form, _, _, _, h⟩ := h
  split at h
  · simp only [Option.some.injEq] at h; subst h
    exact ⟨rfl, rfl, rfl, rfl⟩
  · simp only [Option.bind_eq_some_iff, Option.some.injEq] at h
    obtain ⟨f, _, hs⟩ := h
    subst hs
    exact SameCore.trans (b := { s with reports := AMap.erase s.reports (p, (m, o, st)) }) ⟨rfl, rfl, rfl, rfl⟩
      (sameCore_removeProver _ _ _)

/-! ## registration and shutdown of a provider -/

theorem initProvider_inv {E : EscrowScheme} {s s' : State} {t : Int} {c ip kb : String} {ts : Int} {iv : Bool}
    (hinv : GaugeInv E s t) (hc : ∀ kv ∈ s.gauges, acctOf s c ≠ kv.2.account)
    (h : initProvider s c ip kb ts iv = some s') : GaugeInv E s' t := by
  simp only [initProvider, bind, Option.bind_eq_some_iff, req_eq_some] at h
  obtain ⟨_, _, _, _, _, _, coins, _, b1, hb1, hs⟩ := h
  simp only [Option.some.injEq] at hs; subst hs
  exact hinv.frame (P := fun a => a = acctOf s c) rfl rfl rfl (Moves.of_send (P := fun a => a = acctOf s c) rfl hb1)
    (fun kv hkv e => hc kv hkv e.symm)

theorem shutdownProvider_inv {E : EscrowScheme} {s s' : State} {t : Int} {c : String}
    (hinv : GaugeInv E s t) (h : shutdownProvider s c = some s') : GaugeInv E s' t := by
  simp only [shutdownProvider, bind, Option.bind_eq_some_iff, req_eq_some] at h
  obtain ⟨_, _, h⟩ := h
  split at h
  · simp only [Option.bind_eq_some_iff, req_eq_some] at h
    obtain ⟨_, _, coins, _, b1, hb1, hs⟩ := h
    simp only [Option.some.injEq] at hs; subst hs
    exact hinv.frame (P := fun a => a = s.collateralAcc) rfl rfl rfl (Moves.of_sendFromModule (P := fun a => a = s.collateralAcc) rfl hb1)
      (fun kv hkv => (hinv.accNe kv hkv).2)
  · simp only [Option.some.injEq] at h; subst h
    exact hinv.sameCore ⟨rfl, rfl, rfl, rfl⟩

/-! ## a deposit into a gauge -/

theorem newCoins_cases {x : Int} {cs : Coins} (h : newCoins "ujkl" x = some cs) :
    0 ≤ x ∧ CoinsOk cs ∧ amt "ujkl" cs = x := by
  unfold newCoins at h
  split at h
  · simp at h
  · split at h
    · simp only [Option.some.injEq] at h; subst h
      exact ⟨by omega, Or.inl rfl, by simp [amt]; omega⟩
    · simp only [Option.some.injEq] at h; subst h
      exact ⟨by omega, Or.inr ⟨x, by omega, rfl⟩, by simp [amt]⟩

/-- a listed coin of a well-formed record is the recorded ujkl amount -/
theorem CoinsOk.mem {cs : Coins} (h : CoinsOk cs) {c : Coin} (hc : c ∈ cs) : c.1 = "ujkl" ∧ c.2 = amt "ujkl" cs := by
  rcases h with e | ⟨x, _, e⟩
  · subst e; simp at hc
  · subst e; simp only [List.mem_singleton] at hc; subst hc; simp [amt]

theorem CoinsOk.amt_nonneg {cs : Coins} (h : CoinsOk cs) : 0 ≤ amt "ujkl" cs := by
  rcases h with e | ⟨x, hx, e⟩
  · subst e; simp [amt]
  · subst e; simp [amt]; exact hx

/-- `sdk.Coins.Add` on the records the module builds: still well-formed, amounts add up -/
theorem addCoins_ok {a b : Coins} (ha : CoinsOk a) (hb : CoinsOk b) :
    CoinsOk (addCoins a b) ∧ amt "ujkl" (addCoins a b) = amt "ujkl" a + amt "ujkl" b := by
  rcases ha with e | ⟨x, hx, e⟩
  · subst e
    have : addCoins [] b = b := by unfold addCoins; rfl
    rw [this]; exact ⟨hb, by simp [amt]⟩
  · rcases hb with e' | ⟨y, hy, e'⟩
    · subst e e'
      have : addCoins [("ujkl", x)] [] = [("ujkl", x)] := by unfold addCoins; rfl
      rw [this]; exact ⟨Or.inr ⟨x, hx, rfl⟩, by simp [amt]⟩
    · subst e e'
      have : addCoins [("ujkl", x)] [("ujkl", y)] = [("ujkl", x + y)] := by simp [addCoins]
      rw [this]; exact ⟨Or.inr ⟨x + y, by omega, rfl⟩, by simp [amt]⟩

theorem mem_set_strong {K V : Type} [DecidableEq K] {m : AMap K V} (hwf : AMap.WF m) {k : K} {v : V} {p : K × V}
    (h : p ∈ AMap.set m k v) : p = (k, v) ∨ (p ∈ m ∧ p.1 ≠ k) := by
  induction m with
  | nil => simp [AMap.set] at h; exact Or.inl h
  | cons q t ih =>
    obtain ⟨k', v'⟩ := q
    simp only [AMap.WF, AMap.keys, List.map_cons, List.nodup_cons] at hwf
    by_cases hk : k' = k
    · simp only [AMap.set, hk, if_true, List.mem_cons] at h
      rcases h with h | h
      · exact Or.inl h
      · refine Or.inr ⟨List.mem_cons_of_mem _ h, fun e => hwf.1 ?_⟩
        rw [hk, ← e]
        exact List.mem_map_of_mem h
    · simp only [AMap.set, hk, if_false, List.mem_cons] at h
      rcases h with h | h
      · subst h; exact Or.inr ⟨by simp, hk⟩
      · rcases ih (by simpa [AMap.WF, AMap.keys] using hwf.2) h with h | ⟨h1, h2⟩
        · exact Or.inl h
        · exact Or.inr ⟨List.mem_cons_of_mem _ h1, h2⟩

/-- what the two gauge-creating messages do to ledger and gauge store: the signer pays the module
account, the module account deposits `x` ujkl into the escrow account while `NewGauge` records `x`
(adding to an existing record of the same id), later transfers leave the module account only -/
def Deposit (s s' : State) (now : Int) (creator gid gacc : String) : Prop :=
  ∃ (x endT : Int) (cs pay : Coins) (b1 b2 : Bank),
    newCoins "ujkl" x = some cs ∧ now + 1999 ≤ endT ∧
    send s.bank creator s.moduleAcc pay = some b1 ∧
    send b1 s.moduleAcc gacc cs = some b2 ∧
    Moves (fun a => a = s.moduleAcc) b2 s'.bank ∧
    s'.gauges = (newGauge' s now gid gacc cs endT).gauges ∧
    s'.moduleAcc = s.moduleAcc ∧ s'.collateralAcc = s.collateralAcc

/-- the record `NewGauge` writes -/
def mergedCoins (s : State) (gid : String) (cs : Coins) : Coins :=
  match AMap.get s.gauges gid with
  | some g => addCoins g.coins cs
  | none => cs

theorem newGauge'_gauges (s : State) (now : Int) (gid gacc : String) (cs : Coins) (endT : Int) :
    (newGauge' s now gid gacc cs endT).gauges
      = AMap.set s.gauges gid
          { id := gid, startT := now, endT := endT, coins := mergedCoins s gid cs, account := gacc } := rfl

/-- **A deposit keeps the invariant.**  The new (or same-block) gauge starts now, so it is on
schedule iff nothing is missing from escrow — and the deposit equals what is added to the record. -/
theorem deposit_inv {E : EscrowScheme} {s s' : State} {now : Int} {creator gid gacc : String}
    (hinv : GaugeInv E s now) (hd : Deposit s s' now creator gid gacc)
    (hacc : gacc = E.accOf gid) (hm : gacc ≠ s.moduleAcc) (hc : gacc ≠ s.collateralAcc)
    (hsame : ∀ g, AMap.get s.gauges gid = some g → g.startT = now)
    (hcr : ∀ kv ∈ s.gauges, creator ≠ kv.2.account) : GaugeInv E s' now := by
  obtain ⟨x, endT, cs, pay, b1, b2, hcs, hend, h1, h2, h3, hg, hma, hca⟩ := hd
  rw [newGauge'_gauges] at hg
  obtain ⟨hx, hcsok, hamt⟩ := newCoins_cases hcs
  have hb1ok : BankOk b1 := hinv.bank.moves (Moves.of_send (P := fun _ => True) trivial h1)
  have hb2ok : BankOk b2 := hb1ok.moves (Moves.of_send (P := fun _ => True) trivial h2)
  have hb3ok : BankOk s'.bank := hb2ok.moves h3
  -- the record is well formed and nothing is missing from escrow
  have hM : CoinsOk (mergedCoins s gid cs) ∧ amt "ujkl" (mergedCoins s gid cs) ≤ bal b1 gacc "ujkl" + x := by
    unfold mergedCoins
    cases hget : AMap.get s.gauges gid with
    | none =>
      simp only
      have := hb1ok.bal_nonneg gacc "ujkl"
      exact ⟨hcsok, by omega⟩
    | some g0 =>
      simp only
      have hmem := AMap.mem_of_get hget
      have ha0 : g0.account = gacc := by rw [hacc]; exact (hinv.ids _ hmem).2
      have hok0 := hinv.ok _ hmem
      simp only at hok0
      have hst := hsame g0 hget
      have hold : amt "ujkl" g0.coins ≤ bal s.bank gacc "ujkl" := by
        rcases hok0.coins with e | ⟨A0, hA0, e⟩
        · rw [e]; simp only [amt]; exact hinv.bank.bal_nonneg _ _
        · have hs := hok0.sched (by have := hok0.long; omega) ("ujkl", A0) (by rw [e]; simp)
          rw [← hst, would_start hok0.long, ofInt_raw, ha0] at hs
          simp only at hs
          rw [e]; simp only [amt, if_true]
          unfold precision at hs
          omega
      have hb1 : bal b1 gacc "ujkl" = bal s.bank gacc "ujkl" :=
        bal_send_other h1 (by rw [← ha0]; exact hcr _ hmem) (Ne.symm hm) _
      obtain ⟨c1, c2⟩ := addCoins_ok hok0.coins hcsok
      exact ⟨c1, by rw [c2, hamt]; omega⟩
  have hfinal : bal b1 gacc "ujkl" + x ≤ bal s'.bank gacc "ujkl" := by
    have e2 := bal_send h2 gacc "ujkl"
    simp only [if_true, Ne.symm hm, if_false, hamt] at e2
    have := h3.bal_ge gacc (fun e => hm e) "ujkl"
    omega
  have hall : Moves (fun a => a = creator ∨ a = s.moduleAcc) s.bank s'.bank :=
    ((Moves.of_send (P := fun a => a = creator ∨ a = s.moduleAcc) (Or.inl rfl) h1).trans
      (Moves.of_send (P := fun a => a = creator ∨ a = s.moduleAcc) (Or.inr rfl) h2)).trans
      (h3.mono (fun a ha => Or.inr ha))
  refine ⟨by rw [hg]; exact AMap.wf_set _ _ hinv.wf, ?_, ?_, ?_, hb3ok⟩
  · intro kv hkv
    rw [hg] at hkv
    rcases AMap.mem_of_mem_set hkv with e | hm'
    · subst e; exact ⟨rfl, hacc⟩
    · exact hinv.ids kv hm'
  · intro kv hkv
    rw [hg] at hkv
    rw [hma, hca]
    rcases AMap.mem_of_mem_set hkv with e | hm'
    · subst e; exact ⟨hm, hc⟩
    · exact hinv.accNe kv hm'
  · intro kv hkv
    rw [hg] at hkv
    rcases mem_set_strong hinv.wf hkv with e | ⟨hm', hne⟩
    · subst e
      refine ⟨Int.le_refl _, hend, hM.1, fun _ c hcm => ?_⟩
      simp only at hcm ⊢
      obtain ⟨e1, e2⟩ := hM.1.mem hcm
      rw [would_start hend, ofInt_raw, e1, e2]
      unfold precision
      omega
    · refine (hinv.ok kv hm').of_bal_ge (fun d => hall.bal_ge _ ?_ d)
      intro hP
      rcases hP with e | e
      · exact hcr kv hm' e.symm
      · exact (hinv.accNe kv hm').1 e

/-! ## the two gauge-creating messages -/


theorem send_of_sendFromModule {s : State} {src dst : String} {cs : Coins} {b' : Bank}
    (h : sendFromModule s src dst cs = some b') : Bank.send s.bank src dst cs = some b' := by
  unfold sendFromModule at h
  split at h
  · simp at h
  · exact h

theorem newGauge'_gauges_congr {s s1 : State} (e : s1.gauges = s.gauges) (now : Int) (gid gacc : String)
    (cs : Coins) (endT : Int) :
    (newGauge' s1 now gid gacc cs endT).gauges = (newGauge' s now gid gacc cs endT).gauges := by
  unfold newGauge'
  simp only [e]

theorem postFile_deposit {s s' : State} {h now : Int} {c m : String} {fs mp ex pt : Int} {note : String}
    {nv : Bool} {jp : Dec} {gid gacc : String}
    (hs : postFile s h now c m fs mp ex pt note nv jp gid gacc = some s') :
    SameCore s s' ∨ Deposit s s' now c gid gacc := by
  have hsc : ∀ f, SameCore s (setFile (removeFile s (m, c, h)) f) :=
    fun f => (sameCore_removeFile s _).trans (sameCore_setFile _ f)
  simp only [postFile, bind, Option.bind_eq_some_iff, req_eq_some] at hs
  obtain ⟨_, hnv, _, hsz, hs⟩ := hs
  generalize hs1 : setFile (removeFile s (m, c, h)) _ = s1 at hs
  have hsc1 : SameCore s s1 := hs1 ▸ hsc _
  clear hs1
  generalize (((I64.mul (ex - h) 6).tdiv 60).tdiv 60).tdiv 24 = days at hs
  obtain ⟨e1, e2, e3, e4⟩ := hsc1
  split at hs
  · right
    simp only [Option.bind_eq_some_iff, req_eq_some] at hs
    obtain ⟨_, hd, cost, hcost, _, hc0, spcT, hspc, payC, hpay, b1, hb1, b2, hb2, hs⟩ := hs
    simp only [Option.some.injEq] at hs
    have hb1' : Bank.send s1.bank c s1.moduleAcc payC = some b1 := hb1
    have hb2' : Bank.send b1 s1.moduleAcc gacc spcT = some b2 := send_of_sendFromModule hb2
    rw [e1, e3] at hb1'
    rw [e3] at hb2'
    subst hs
    refine ⟨_, now + days * dayNs, spcT, payC, b1, b2, hspc, ?_, hb1', hb2', Moves.refl _,
      newGauge'_gauges_congr e2 _ _ _ _ _, e3, e4⟩
    unfold dayNs; omega
  · left
    simp only [Option.bind_eq_some_iff, req_eq_some] at hs
    obtain ⟨pi, hpi, _, _, _, _, hs⟩ := hs
    simp only [Option.some.injEq] at hs
    subst hs
    exact ⟨e1, e2, e3, e4⟩

/-! ### `buyStorage` in two stages (price, then payments), as in the C04 helper file -/


namespace GI

/-- price part of `buyStorage`: (price before the referral discount, space already used) -/
def buyBase (s : State) (now : Int) (forAddress : String) (durationDays bytes : Int) (denom : String)
    (jklPrice : Dec) : Option (Int × Int) := do
  req (0 < durationDays)
  let durationNs := I64.mul durationDays dayNs
  req (durationNs ≥ timeMonthNs)
  let gbs := Int.tdiv bytes gb
  req (0 < gbs)
  req (denom = "ujkl")
  let durMs := Int.tdiv durationNs 1000000
  let hours := Dec.trunc ((Dec.quo? (Dec.ofInt durMs) (Dec.ofInt hourMs)).getD Dec.zero)
  let storageCostNew ← storageCost s.params.pricePerTbPerMonth gbs hours jklPrice
  req (0 ≤ storageCostNew)
  match AMap.get s.payinfo forAddress with
    | some pi =>
      if pi.spaceUsed > bytes then none
      else if pi.endT > now then
        (upgradeCost s now bytes durationNs storageCostNew pi jklPrice).map (fun p => (p, pi.spaceUsed))
      else some (storageCostNew, pi.spaceUsed)
    | none => some (storageCostNew, 0)

/-- payment part of `buyStorage`, verbatim -/
def buyPay (s : State) (now : Int) (creator forAddress : String) (durationDays bytes : Int)
    (denom : String) (referral : Option String) (gaugeId gaugeAcc : String) (toPay0 spaceUsed : Int) : Option State := do
  let durationNs := I64.mul durationDays dayNs
  let durMs := Int.tdiv durationNs 1000000
  let referred := match referral with
    | some r => decide (r ≠ creator)
    | none => false
  let pol0 := Dec.quoInt (Dec.ofInt s.params.polRatio) 100
  let long := decide (durMs > 365 * 24 * hourMs)
  let toPay := if referred then Dec.trunc (Dec.mul (Dec.ofInt toPay0) (if long then dec0_95 else dec0_90)) else toPay0
  let discount : Dec := if referred then (if long then Dec.quoInt (Dec.ofInt 5) 100 else Dec.quoInt (Dec.ofInt 10) 100) else Dec.zero
  let pol := if referred then Dec.sub pol0 (if long then dec0_05 else dec0_1) else pol0
  req (0 ≤ toPay)
  let payCoins ← Bank.newCoins denom toPay
  let b1 ← Bank.send s.bank creator s.moduleAcc payCoins
  let spi : PayInfo := { startT := now, endT := now + durationNs, spaceAvailable := bytes, spaceUsed := spaceUsed, address := forAddress }
  let s1 := { s with bank := b1, payinfo := AMap.set s.payinfo forAddress spi }
  let refDec := Dec.quoInt (Dec.ofInt s.params.referralCommission) 100
  let spr := Dec.sub (Dec.sub (Dec.sub Dec.one refDec) pol) discount
  let spcTokens ← Bank.newCoins denom (Dec.trunc (Dec.mul (Dec.ofInt toPay) spr))
  let s2 := newGauge' s1 now gaugeId gaugeAcc spcTokens spi.endT
  let b2 ← sendFromModule s2 s2.moduleAcc gaugeAcc spcTokens
  let polTokens ← Bank.newCoins denom (Dec.trunc (Dec.mul (Dec.ofInt toPay) pol))
  let b3 ← sendFromModule { s2 with bank := b2 } s2.moduleAcc s2.polAcc polTokens
  let refTokens ← Bank.newCoins denom (Dec.trunc (Dec.mul (Dec.ofInt toPay) refDec))
  let b4 ←
    match referral with
    | some r => if referred then sendFromModule { s2 with bank := b3 } s2.moduleAcc r refTokens
                else Bank.send b3 s2.moduleAcc s2.feeAcc refTokens
    | none => Bank.send b3 s2.moduleAcc s2.feeAcc refTokens
  some { s2 with bank := b4 }

theorem buyStorage_eq (s : State) (now : Int) (creator fa : String) (days bytes : Int) (denom : String)
    (referral : Option String) (jp : Dec) (gid gacc : String) :
    buyStorage s now creator fa days bytes denom referral jp gid gacc =
      (buyBase s now fa days bytes denom jp).bind
        (fun p => buyPay s now creator fa days bytes denom referral gid gacc p.1 p.2) := by
  unfold buyStorage buyBase
  simp only [bind, Option.bind_assoc]
  congr 1; funext _
  congr 1; funext _
  congr 1; funext _
  congr 1; funext _
  congr 1; funext _
  congr 1; funext _
  cases AMap.get s.payinfo fa with
  | none => rfl
  | some pi =>
    simp only
    by_cases h1 : pi.spaceUsed > bytes
    · simp only [h1, if_true, Option.bind_none]
    · simp only [h1, if_false]
      by_cases h2 : pi.endT > now
      · simp only [h2, if_true]
        cases upgradeCost s now bytes (I64.mul days dayNs) _ pi jp
        · rfl
        · rfl
      · simp only [h2, if_false]; rfl

end GI

theorem buyStorage_deposit {s s' : State} {now : Int} {c fa : String} {dd bytes : Int} {dn : String}
    {ref : Option String} {jp : Dec} {gid gacc : String}
    (hs : buyStorage s now c fa dd bytes dn ref jp gid gacc = some s') : Deposit s s' now c gid gacc := by
  rw [GI.buyStorage_eq, Option.bind_eq_some_iff] at hs
  obtain ⟨⟨tp0, su⟩, hbase, hpay⟩ := hs
  simp only [GI.buyBase, bind, Option.bind_eq_some_iff, req_eq_some] at hbase
  obtain ⟨_, _, _, hdur, _, _, _, hden, _⟩ := hbase
  subst hden
  have hend : now + 1999 ≤ now + I64.mul dd dayNs := by
    unfold timeMonthNs at hdur; omega
  cases ref with
  | none =>
    simp only [GI.buyPay, bind, Option.bind_eq_some_iff, req_eq_some] at hpay
    obtain ⟨_, _, payC, _, b1, hb1, spcT, hspc, b2, hb2, polT, _, b3, hb3, refT, _, b4, hb4, hs⟩ := hpay
    simp only [Option.some.injEq] at hs
    have hb2' : Bank.send b1 s.moduleAcc gacc spcT = some b2 := send_of_sendFromModule hb2
    have hb3' : Bank.send b2 s.moduleAcc s.polAcc polT = some b3 := send_of_sendFromModule hb3
    have hb4' : Bank.send b3 s.moduleAcc s.feeAcc refT = some b4 := hb4
    subst hs
    exact ⟨_, now + I64.mul dd dayNs, spcT, payC, b1, b2, hspc, hend, hb1, hb2',
      (Moves.of_send (P := fun a => a = s.moduleAcc) rfl hb3').trans (Moves.of_send (P := fun a => a = s.moduleAcc) rfl hb4'),
      rfl, rfl, rfl⟩
  | some r =>
    simp only [GI.buyPay, bind, Option.bind_eq_some_iff, req_eq_some] at hpay
    obtain ⟨_, _, payC, _, b1, hb1, spcT, hspc, b2, hb2, polT, _, b3, hb3, refT, _, hs⟩ := hpay
    have hb2' : Bank.send b1 s.moduleAcc gacc spcT = some b2 := send_of_sendFromModule hb2
    have hb3' : Bank.send b2 s.moduleAcc s.polAcc polT = some b3 := send_of_sendFromModule hb3
    split at hs
    · simp only [Option.bind_eq_some_iff, Option.some.injEq] at hs
      obtain ⟨b4, hb4, hs⟩ := hs
      have hb4' : Bank.send b3 s.moduleAcc r refT = some b4 := send_of_sendFromModule hb4
      subst hs
      exact ⟨_, now + I64.mul dd dayNs, spcT, payC, b1, b2, hspc, hend, hb1, hb2',
        (Moves.of_send (P := fun a => a = s.moduleAcc) rfl hb3').trans (Moves.of_send (P := fun a => a = s.moduleAcc) rfl hb4'),
        rfl, rfl, rfl⟩
    · simp only [Option.bind_eq_some_iff, Option.some.injEq] at hs
      obtain ⟨b4, hb4, hs⟩ := hs
      have hb4' : Bank.send b3 s.moduleAcc s.feeAcc refT = some b4 := hb4
      subst hs
      exact ⟨_, now + I64.mul dd dayNs, spcT, payC, b1, b2, hspc, hend, hb1, hb2',
        (Moves.of_send (P := fun a => a = s.moduleAcc) rfl hb3').trans (Moves.of_send (P := fun a => a = s.moduleAcc) rfl hb4'),
        rfl, rfl, rfl⟩

end Canine.Storage
