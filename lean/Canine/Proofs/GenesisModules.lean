/-
Helper lemmas for C19 on the concrete module models (Canine/Genesis/Modules.lean): store order,
`GetAll…` / `Set…` loops, duplicate-index validation; then one section per module.
-/
import Canine.Genesis.Modules
import Canine.Proofs.StorageE
import Canine.Proofs.Rns
namespace Canine.Genesis
open Canine.Query (sortByKey)

section Generic
variable {K V W : Type}

/-! ### the raw-key comparison is a total preorder -/

theorem keyLE_trans (a b c : String × W) :
    decide (a.1 ≤ b.1) = true → decide (b.1 ≤ c.1) = true → decide (a.1 ≤ c.1) = true := by
  simp only [decide_eq_true_eq]; exact String.le_trans

theorem keyLE_total (a b : String × W) : (decide (a.1 ≤ b.1) || decide (b.1 ≤ a.1)) = true := by
  simp only [Bool.or_eq_true, decide_eq_true_eq]; exact String.le_total _ _

theorem sortByKey_perm (e : List (String × W)) : (sortByKey e).Perm e := List.mergeSort_perm _ _

theorem sortByKey_pairwise (e : List (String × W)) :
    (sortByKey e).Pairwise (fun a b => decide (a.1 ≤ b.1) = true) :=
  List.pairwise_mergeSort keyLE_trans keyLE_total e

/-- in a list whose first components are distinct, an element is determined by its first component -/
theorem eq_of_fst_eq_of_nodup : ∀ {l : List (String × W)}, (l.map (·.1)).Nodup →
    ∀ {a b : String × W}, a ∈ l → b ∈ l → a.1 = b.1 → a = b
  | [], _, _, _, ha, _, _ => by simp at ha
  | x :: t, nd, a, b, ha, hb, h => by
    simp only [List.map_cons, List.nodup_cons, List.mem_map, not_exists, not_and] at nd
    rcases List.mem_cons.mp ha with rfl | ha' <;> rcases List.mem_cons.mp hb with rfl | hb'
    · rfl
    · exact absurd h.symm (nd.1 b hb')
    · exact absurd h (nd.1 a ha')
    · exact eq_of_fst_eq_of_nodup nd.2 ha' hb' h

/-- **the store order is canonical**: two listings of the same records (in any order) with distinct
raw keys sort to the same list -/
theorem sortByKey_eq_of_perm {e1 e2 : List (String × W)} (h : e1.Perm e2) (nd : (e1.map (·.1)).Nodup) :
    sortByKey e1 = sortByKey e2 := by
  have p : (sortByKey e1).Perm (sortByKey e2) :=
    ((sortByKey_perm e1).trans h).trans (sortByKey_perm e2).symm
  refine List.Perm.eq_of_pairwise (le := fun a b => decide (a.1 ≤ b.1) = true) ?_ (sortByKey_pairwise e1) (sortByKey_pairwise e2) p
  intro a b ha hb hab hba
  simp only [decide_eq_true_eq] at hab hba
  have ha1 : a ∈ e1 := (sortByKey_perm e1).subset ha
  have hb1 : b ∈ e1 := h.symm.subset ((sortByKey_perm e2).subset hb)
  exact eq_of_fst_eq_of_nodup nd ha1 hb1 (String.le_antisymm hab hba)

theorem nodup_of_nodup_map {α β : Type} (f : α → β) {l : List α} (h : (l.map f).Nodup) : l.Nodup :=
  List.Pairwise.of_map f (fun _ _ hne e => hne (congrArg f e)) h

theorem nodup_map_of_inj {α β : Type} (f : α → β) (inj : ∀ a b, f a = f b → a = b) {l : List α} (h : l.Nodup) :
    (l.map f).Nodup :=
  List.Pairwise.map f (fun _ _ hne e => hne (inj _ _ e)) h

/-- raw keys of the stored records are pairwise distinct (one chain record per model record) -/
def RawNodup (raw : K → String) (m : AMap K V) : Prop := (m.map (fun kv => raw kv.1)).Nodup

theorem RawNodup.wf [DecidableEq K] {raw : K → String} {m : AMap K V} (h : RawNodup raw m) : AMap.WF m := by
  have : m.map (fun kv => raw kv.1) = (AMap.keys m).map raw := by simp [AMap.keys, List.map_map]
  unfold RawNodup at h; rw [this] at h
  exact nodup_of_nodup_map raw h

theorem RawNodup.perm {raw : K → String} {m m' : AMap K V} (h : RawNodup raw m) (p : m.Perm m') :
    RawNodup raw m' := (p.map _).nodup h

/-- an injective key format gives distinct raw keys from distinct keys -/
theorem RawNodup.of_wf [DecidableEq K] {raw : K → String} (inj : ∀ a b, raw a = raw b → a = b) {m : AMap K V}
    (h : AMap.WF m) : RawNodup raw m := by
  have : m.map (fun kv => raw kv.1) = (AMap.keys m).map raw := by simp [AMap.keys, List.map_map]
  unfold RawNodup; rw [this]
  exact nodup_map_of_inj raw inj h

/-- listings built over a store (any payload `g`) agree for two orders of the same records -/
theorem entries_eq_of_perm (raw : K → String) (g : K × V → W) {m m' : AMap K V} (p : m.Perm m')
    (nd : RawNodup raw m) :
    sortByKey (m.map (fun kv => (raw kv.1, g kv))) = sortByKey (m'.map (fun kv => (raw kv.1, g kv))) := by
  apply sortByKey_eq_of_perm (p.map _)
  simpa [RawNodup, List.map_map, Function.comp_def] using nd

theorem inStoreOrder_perm (raw : K → String) (m : AMap K V) : (inStoreOrder raw m).Perm m := by
  have h := (sortByKey_perm (m.map (fun kv => (raw kv.1, kv)))).map (·.2)
  simpa [inStoreOrder, List.map_map, Function.comp_def] using h

theorem inStoreOrder_eq_of_perm (raw : K → String) {m m' : AMap K V} (p : m.Perm m') (nd : RawNodup raw m) :
    inStoreOrder raw m = inStoreOrder raw m' := by
  unfold inStoreOrder; rw [entries_eq_of_perm raw (fun kv => kv) p nd]

theorem getAllWith_eq_of_perm {R : Type} (raw : K → String) (mk : K × V → R) {m m' : AMap K V} (p : m.Perm m')
    (nd : RawNodup raw m) : getAllWith raw mk m = getAllWith raw mk m' := by
  unfold getAllWith; rw [inStoreOrder_eq_of_perm raw p nd]

theorem getAll_eq_of_perm (raw : K → String) {m m' : AMap K V} (p : m.Perm m') (nd : RawNodup raw m) :
    getAll raw m = getAll raw m' := getAllWith_eq_of_perm raw _ p nd

theorem inStoreOrder_idem (raw : K → String) (m : AMap K V) (nd : RawNodup raw m) :
    inStoreOrder raw (inStoreOrder raw m) = inStoreOrder raw m :=
  (inStoreOrder_eq_of_perm raw (inStoreOrder_perm raw m).symm nd).symm

/-! ### association lists up to order -/

theorem wf_of_perm [DecidableEq K] {a b : AMap K V} (p : a.Perm b) (h : AMap.WF a) : AMap.WF b :=
  have h' : (a.map (·.1)).Nodup := h
  show (b.map (·.1)).Nodup from (p.map (·.1)).nodup h'

theorem get_eq_of_perm [DecidableEq K] {a b : AMap K V} (p : a.Perm b) (h : AMap.WF a) (k : K) :
    AMap.get a k = AMap.get b k := by
  have hb := wf_of_perm p h
  cases hg : AMap.get a k with
  | some v => exact (AMap.get_of_mem_wf hb (p.subset (AMap.mem_of_get hg))).symm
  | none =>
    cases hg' : AMap.get b k with
    | none => rfl
    | some v =>
      have := AMap.get_of_mem_wf h (p.symm.subset (AMap.mem_of_get hg'))
      rw [hg] at this; cases this

theorem perm_of_get_eq [DecidableEq K] {a b : AMap K V} (ha : AMap.WF a) (hb : AMap.WF b)
    (h : ∀ k, AMap.get a k = AMap.get b k) : a.Perm b := by
  have nda : a.Nodup := nodup_of_nodup_map (·.1) (show (a.map (·.1)).Nodup from ha)
  have ndb : b.Nodup := nodup_of_nodup_map (·.1) (show (b.map (·.1)).Nodup from hb)
  rw [List.perm_ext_iff_of_nodup nda ndb]
  intro ⟨k, v⟩
  constructor
  · intro hm; exact AMap.mem_of_get (by rw [← h]; exact AMap.get_of_mem_wf ha hm)
  · intro hm; exact AMap.mem_of_get (by rw [h]; exact AMap.get_of_mem_wf hb hm)

theorem get_inStoreOrder [DecidableEq K] (raw : K → String) {m : AMap K V} (h : AMap.WF m) (k : K) :
    AMap.get (inStoreOrder raw m) k = AMap.get m k :=
  (get_eq_of_perm (inStoreOrder_perm raw m).symm h k).symm

/-! ### `Set…` loops -/

theorem set_fresh' [DecidableEq K] (m : AMap K V) (k : K) (v : V) (h : k ∉ AMap.keys m) :
    AMap.set m k v = m ++ [(k, v)] := by
  induction m with
  | nil => rfl
  | cons p t ih =>
    obtain ⟨k', v'⟩ := p
    simp only [AMap.keys, List.map_cons, List.mem_cons, not_or] at h
    have hne : ¬ k' = k := fun e => h.1 e.symm
    simp only [AMap.set, hne, if_false, List.cons_append]
    rw [ih (by simpa [AMap.keys] using h.2)]

/-- writing the records rebuilt from `l` into a store with other keys appends `l` -/
theorem setAllWith_map {R : Type} [DecidableEq K] (keyOf : R → K) (valOf : R → V) (mk : K × V → R) :
    ∀ (l acc : AMap K V), (∀ kv ∈ l, keyOf (mk kv) = kv.1 ∧ valOf (mk kv) = kv.2) → (AMap.keys (acc ++ l)).Nodup →
      setAllWith keyOf valOf (l.map mk) acc = acc ++ l
  | [], acc, _, _ => by simp [setAllWith]
  | (k, v) :: t, acc, hk, hnd => by
    have hkv := hk (k, v) (by simp)
    simp only [setAllWith, List.map_cons, List.foldl_cons, hkv.1, hkv.2]
    have hfresh : k ∉ AMap.keys acc := by
      simp only [AMap.keys, List.map_append, List.map_cons] at hnd
      rw [List.nodup_append] at hnd
      intro hin
      exact hnd.2.2 k hin k (by simp) rfl
    rw [set_fresh' acc k v hfresh]
    have := setAllWith_map keyOf valOf mk t (acc ++ [(k, v)]) (fun kv h => hk kv (List.mem_cons_of_mem _ h))
      (by simpa [List.append_assoc] using hnd)
    simpa [setAllWith, List.append_assoc] using this

/-- every record sits under the key built from its own fields -/
def Keyed (keyOf : V → K) (m : AMap K V) : Prop := ∀ kv ∈ m, keyOf kv.2 = kv.1

theorem Keyed.perm {keyOf : V → K} {m m' : AMap K V} (h : Keyed keyOf m) (p : m.Perm m') : Keyed keyOf m' :=
  fun kv hm => h kv (p.symm.subset hm)

theorem Keyed.of_get [DecidableEq K] {keyOf : V → K} {m : AMap K V} (wf : AMap.WF m)
    (h : ∀ k v, AMap.get m k = some v → keyOf v = k) : Keyed keyOf m :=
  fun kv hm => h kv.1 kv.2 (AMap.get_of_mem_wf wf hm)

/-- **one record kind, exported and imported into a store with other keys**: the same records,
appended in store order -/
theorem setAllWith_getAllWith_acc {R : Type} [DecidableEq K] (keyOf : R → K) (valOf : R → V) (mk : K × V → R)
    (raw : K → String) (m acc : AMap K V) (hnd : (AMap.keys (acc ++ m)).Nodup)
    (hk : ∀ kv ∈ m, keyOf (mk kv) = kv.1 ∧ valOf (mk kv) = kv.2) :
    setAllWith keyOf valOf (getAllWith raw mk m) acc = acc ++ inStoreOrder raw m := by
  have p := inStoreOrder_perm raw m
  apply setAllWith_map keyOf valOf mk (inStoreOrder raw m) acc (fun kv hm => hk kv (p.subset hm))
  have : (acc ++ inStoreOrder raw m).Perm (acc ++ m) := List.Perm.append_left acc p
  have hnd' : ((acc ++ m).map (·.1)).Nodup := hnd
  exact show ((acc ++ inStoreOrder raw m).map (·.1)).Nodup from (this.map (·.1)).symm.nodup hnd'

/-- … into an empty store: the same records, listed in store order -/
theorem setAllWith_getAllWith {R : Type} [DecidableEq K] (keyOf : R → K) (valOf : R → V) (mk : K × V → R)
    (raw : K → String) (m : AMap K V) (wf : AMap.WF m)
    (hk : ∀ kv ∈ m, keyOf (mk kv) = kv.1 ∧ valOf (mk kv) = kv.2) :
    setAllWith keyOf valOf (getAllWith raw mk m) [] = inStoreOrder raw m := by
  simpa using setAllWith_getAllWith_acc keyOf valOf mk raw m [] (by simpa [AMap.WF] using wf) hk

theorem setAll_getAll [DecidableEq K] (keyOf : V → K) (raw : K → String) (m : AMap K V)
    (wf : AMap.WF m) (hk : Keyed keyOf m) :
    setAll keyOf (getAll raw m) [] = inStoreOrder raw m :=
  setAllWith_getAllWith keyOf id (·.2) raw m wf (fun kv hm => ⟨hk kv hm, rfl⟩)

/-! ### the duplicate-index check -/

theorem noDup_iff (l : List String) : noDup l = true ↔ l.Nodup := by
  induction l with
  | nil => simp [noDup]
  | cons a t ih => simp [noDup, ih, List.nodup_cons]

/-- the raw keys `Validate` computes from the exported records are the raw keys of the store -/
theorem noDup_getAllWith {R : Type} (keyOf : R → K) (mk : K × V → R) (raw : K → String) (m : AMap K V)
    (hk : ∀ kv ∈ m, keyOf (mk kv) = kv.1) (nd : RawNodup raw m) :
    noDup ((getAllWith raw mk m).map (fun r => raw (keyOf r))) = true := by
  rw [noDup_iff]
  have p := inStoreOrder_perm raw m
  have : (getAllWith raw mk m).map (fun r => raw (keyOf r)) = (inStoreOrder raw m).map (fun kv => raw kv.1) := by
    simp only [getAllWith, List.map_map]
    apply List.map_congr_left
    intro kv hkv
    simp [Function.comp, hk kv (p.subset hkv)]
  rw [this]
  exact nd.perm p.symm

theorem noDup_getAll (keyOf : V → K) (raw : K → String) (m : AMap K V)
    (hk : Keyed keyOf m) (nd : RawNodup raw m) :
    noDup ((getAll raw m).map (fun v => raw (keyOf v))) = true :=
  noDup_getAllWith keyOf (·.2) raw m hk nd

/-- `index ++ "/"` (the key format of every single-index store) is injective -/
theorem append_suffix_inj (c a b : String) (h : a ++ c = b ++ c) : a = b := by
  have := congrArg String.toList h
  simp only [String.toList_append] at this
  exact String.ext (List.append_cancel_right this)

theorem append_slash_inj (a b : String) (h : a ++ "/" = b ++ "/") : a = b := append_suffix_inj "/" a b h

theorem mem_set_cases [DecidableEq K] (m : AMap K V) (k : K) (v : V) (kv : K × V) (h : kv ∈ AMap.set m k v) :
    kv = (k, v) ∨ kv ∈ m := by
  induction m with
  | nil => simp [AMap.set] at h; exact Or.inl h
  | cons p t ih =>
    obtain ⟨k', v'⟩ := p
    by_cases h1 : k' = k
    · simp only [AMap.set, h1, if_true, List.mem_cons] at h
      rcases h with h | h
      · exact Or.inl h
      · exact Or.inr (List.mem_cons_of_mem _ h)
    · simp only [AMap.set, h1, if_false, List.mem_cons] at h
      rcases h with h | h
      · exact Or.inr (by rw [h]; exact List.mem_cons_self)
      · rcases ih h with h | h
        · exact Or.inl h
        · exact Or.inr (List.mem_cons_of_mem _ h)

theorem mem_of_mem_erase [DecidableEq K] (m : AMap K V) (k : K) (kv : K × V) (h : kv ∈ AMap.erase m k) : kv ∈ m := by
  induction m with
  | nil => simp [AMap.erase] at h
  | cons p t ih =>
    obtain ⟨k', v'⟩ := p
    by_cases h1 : k' = k
    · simp only [AMap.erase, h1, if_true] at h
      exact List.mem_cons_of_mem _ (ih h)
    · simp only [AMap.erase, h1, if_false, List.mem_cons] at h
      rcases h with h | h
      · rw [h]; exact List.mem_cons_self
      · exact List.mem_cons_of_mem _ (ih h)

theorem Keyed.set [DecidableEq K] {keyOf : V → K} {m : AMap K V} (h : Keyed keyOf m) (k : K) (v : V)
    (hv : keyOf v = k) : Keyed keyOf (AMap.set m k v) := by
  intro kv hm
  rcases mem_set_cases m k v kv hm with e | hm'
  · rw [e]; exact hv
  · exact h kv hm'

theorem Keyed.erase [DecidableEq K] {keyOf : V → K} {m : AMap K V} (h : Keyed keyOf m) (k : K) :
    Keyed keyOf (AMap.erase m k) := fun kv hm => h kv (mem_of_mem_erase m k kv hm)

theorem Keyed.nil {keyOf : V → K} : Keyed keyOf ([] : AMap K V) := fun _ h => by simp at h

theorem wf_nil' [DecidableEq K] : AMap.WF ([] : AMap K V) := by simp [AMap.WF, AMap.keys]

end Generic

/-! ## x/oracle -/
namespace Oracle
open Canine.Oracle

/-- the feed store invariant: names distinct, every feed under its own name -/
def Inv (s : State) : Prop := AMap.WF s.feeds ∧ Keyed (fun f : Feed => f.name) s.feeds

/-- the state with its store listed in iterator order (the order of bindings in the association
list is the only thing that differs from `s`) -/
def storeOrdered (s : State) : State := { s with feeds := inStoreOrder feedRaw s.feeds }

theorem rawNodup {s : State} (h : Inv s) : RawNodup feedRaw s.feeds := RawNodup.of_wf append_slash_inj h.1

theorem roundtrip_eq (s : State) (h : Inv s) : initGenesis (blank s) (exportGenesis s) = storeOrdered s := by
  simp only [initGenesis, blank, exportGenesis, storeOrdered]
  rw [setAll_getAll _ _ _ h.1 h.2]

theorem export_storeOrdered (s : State) (h : Inv s) : exportGenesis (storeOrdered s) = exportGenesis s := by
  simp only [exportGenesis, storeOrdered]
  rw [getAll_eq_of_perm feedRaw (inStoreOrder_perm feedRaw s.feeds).symm (rawNodup h)]

theorem validate_export (s : State) (h : Inv s) : validate (exportGenesis s) = true := by
  simp only [validate, exportGenesis, paramsValid, Bool.and_true]
  exact noDup_getAll (fun f : Feed => f.name) feedRaw s.feeds h.2 (rawNodup h)

theorem feedEntries_storeOrdered (s : State) (h : Inv s) : Query.feedEntries (storeOrdered s) = Query.feedEntries s := by
  simp only [Query.feedEntries, storeOrdered]
  exact (entries_eq_of_perm feedRaw (fun kv => kv.2) (inStoreOrder_perm feedRaw s.feeds).symm (rawNodup h)).symm

theorem run_storeOrdered (s : State) (h : Inv s) (q : Query.Q) : Query.run (storeOrdered s) q = Query.run s q := by
  cases q with
  | feed n => simp only [Query.run, storeOrdered, get_inStoreOrder feedRaw h.1]
  | allFeeds p => simp only [Query.run, feedEntries_storeOrdered s h]

theorem inv_step (s s' : State) (now : Int) (op : Op) (h : Inv s) (hs : step s now op = some s') : Inv s' := by
  cases op with
  | createFeed c n =>
    simp only [step, bind, Option.bind_eq_some_iff, req_eq_some] at hs
    obtain ⟨_, _, b1, _, dep, _, _, _, b2, _, hs⟩ := hs
    simp only [Option.some.injEq] at hs; subst hs
    exact ⟨AMap.wf_set _ _ h.1, h.2.set _ _ rfl⟩
  | updateFeed c n d =>
    simp only [step, bind, Option.bind_eq_some_iff, req_eq_some] at hs
    obtain ⟨f, hf, _, _, hs⟩ := hs
    simp only [Option.some.injEq] at hs; subst hs
    have : f.name = n := h.2 (n, f) (AMap.mem_of_get hf)
    exact ⟨AMap.wf_set _ _ h.1, h.2.set _ _ this⟩

theorem inv_empty (b : Bank) (acc : String) (dep : Option String) (bl : List String) :
    Inv { feeds := [], bank := b, moduleAcc := acc, deposit := dep, blocked := bl } := ⟨wf_nil', Keyed.nil⟩

end Oracle

/-! ## x/filetree -/
namespace Filetree
open Canine.Filetree

/-- the store invariant: keys distinct, every entry under (its address, its owner) — C10's `StoreInv`
(Props/C10.lean, proved along histories there as `C10_storeInv_along_histories`) together with
distinctness of keys, restated here because property modules are not imported into one another -/
def Inv (s : State) : Prop :=
  AMap.WF s.files ∧ Keyed (fun e : Entry => (e.address, e.owner)) s.files ∧ AMap.WF s.pubkeys

/-- distinct stored (address, owner) pairs have distinct raw keys `address/owner/` — true when the
stored addresses contain no '/' (they are hex digests; `C10_filesKey_injective`); on the chain two
such records would be one -/
def RawInv (s : State) : Prop := RawNodup Query.rawKey s.files

def storeOrdered (s : State) : State :=
  { files := inStoreOrder Query.rawKey s.files, pubkeys := inStoreOrder pubkeyRaw s.pubkeys }

theorem pubkeys_rawNodup {s : State} (h : Inv s) : RawNodup pubkeyRaw s.pubkeys := RawNodup.of_wf append_slash_inj h.2.2

theorem roundtrip_eq (s : State) (h : Inv s) : initGenesis (blank s) (exportGenesis s) = storeOrdered s := by
  simp only [initGenesis, blank, exportGenesis, storeOrdered]
  rw [setAll_getAll _ _ _ h.1 h.2.1,
    setAllWith_getAllWith PubkeyRec.address PubkeyRec.key _ pubkeyRaw s.pubkeys h.2.2 (fun kv _ => ⟨rfl, rfl⟩)]

theorem export_storeOrdered (s : State) (h : Inv s) (hr : RawInv s) : exportGenesis (storeOrdered s) = exportGenesis s := by
  simp only [exportGenesis, storeOrdered]
  rw [getAll_eq_of_perm Query.rawKey (inStoreOrder_perm Query.rawKey s.files).symm hr,
    getAllWith_eq_of_perm pubkeyRaw _ (inStoreOrder_perm pubkeyRaw s.pubkeys).symm (pubkeys_rawNodup h)]

theorem validate_export (s : State) (h : Inv s) (hr : RawInv s) : validate (exportGenesis s) = true := by
  simp only [validate, exportGenesis, Bool.and_eq_true]
  exact ⟨noDup_getAll (fun e : Entry => (e.address, e.owner)) Query.rawKey s.files h.2.1 hr,
    noDup_getAllWith PubkeyRec.address _ pubkeyRaw s.pubkeys (fun _ _ => rfl) (pubkeys_rawNodup h)⟩

theorem fileEntries_storeOrdered (s : State) (hr : RawInv s) : Query.fileEntries (storeOrdered s) = Query.fileEntries s := by
  simp only [Query.fileEntries, storeOrdered]
  exact (entries_eq_of_perm Query.rawKey (fun kv => kv.2) (inStoreOrder_perm Query.rawKey s.files).symm hr).symm

theorem pubkeyEntries_storeOrdered (s : State) (h : Inv s) : Query.pubkeyEntries (storeOrdered s) = Query.pubkeyEntries s := by
  simp only [Query.pubkeyEntries, storeOrdered]
  exact (entries_eq_of_perm pubkeyRaw (fun kv => (kv.1, kv.2)) (inStoreOrder_perm pubkeyRaw s.pubkeys).symm (pubkeys_rawNodup h)).symm

theorem run_storeOrdered (s : State) (h : Inv s) (hr : RawInv s) (q : Query.Q) :
    Query.run (storeOrdered s) q = Query.run s q := by
  cases q with
  | file a o => simp only [Query.run, fileEntries_storeOrdered s hr]
  | allFiles p => simp only [Query.run, fileEntries_storeOrdered s hr]
  | pubKey a => simp only [Query.run, storeOrdered, get_inStoreOrder pubkeyRaw h.2.2]
  | allPubKeys p => simp only [Query.run, pubkeyEntries_storeOrdered s h]

/-! the invariant along histories (the `Keyed` part is C10's `C10_storeInv_along_histories`) -/

theorem inv_setFile {s : State} (h : Inv s) (e : Entry) :
    Inv { s with files := AMap.set s.files (e.address, e.owner) e } :=
  ⟨AMap.wf_set _ _ h.1, h.2.1.set _ _ rfl, h.2.2⟩

theorem inv_setFile' {s : State} (h : Inv s) (k : String × String) (e : Entry) (hk : (e.address, e.owner) = k) :
    Inv { s with files := AMap.set s.files k e } := by subst hk; exact inv_setFile h e

theorem inv_step (H : String → String) (s s' : State) (op : Op) (h : Inv s) (hs : step H s op = some s') : Inv s' := by
  unfold step at hs
  split at hs
  case isFalse => simp at hs
  cases op with
  | postFile c acc hp hc ct v e vr er tr =>
    simp only [handle, postFile, bind, Option.bind_eq_some_iff, req_eq_some] at hs
    obtain ⟨parent, _, ok, _, _, _, hs⟩ := hs
    simp only [Option.some.injEq] at hs; subst hs
    exact inv_setFile h { address := addToMerkleS H hp hc, owner := makeOwnerAddress H (addToMerkleS H hp hc) acc,
                          contents := ct, viewers := v, editors := e, tracking := tr }
  | deleteFile c hp acc =>
    simp only [handle, deleteFile, bind, Option.bind_eq_some_iff, req_eq_some] at hs
    obtain ⟨f, _, _, _, hs⟩ := hs
    simp only [Option.some.injEq] at hs; subst hs
    exact ⟨AMap.wf_erase _ h.1, h.2.1.erase _, h.2.2⟩
  | changeOwner c a fo no =>
    simp only [handle, changeOwner, bind, Option.bind_eq_some_iff, req_eq_some] at hs
    obtain ⟨f, _, _, _, _, _, hs⟩ := hs
    simp only [Option.some.injEq] at hs; subst hs
    have h1 := inv_setFile' h (f.address, makeOwnerAddress H a no) { f with owner := makeOwnerAddress H a no } rfl
    exact ⟨AMap.wf_erase _ h1.1, h1.2.1.erase _, h1.2.2⟩
  | addViewers c a fo ids keys =>
    simp only [handle, addViewers, bind, Option.bind_eq_some_iff, req_eq_some] at hs
    obtain ⟨f, _, _, _, m, _, _, _, m', _, hs⟩ := hs
    simp only [Option.some.injEq] at hs; subst hs
    exact inv_setFile h { f with viewers := .map m' }
  | removeViewers c a fo ids =>
    simp only [handle, removeViewers, bind, Option.bind_eq_some_iff, req_eq_some] at hs
    obtain ⟨f, _, _, _, m, _, hs⟩ := hs
    simp only [Option.some.injEq] at hs; subst hs
    exact inv_setFile h { f with viewers := aclRemove f.viewers m ids }
  | resetViewers c a fo =>
    simp only [handle, resetViewers, bind, Option.bind_eq_some_iff, req_eq_some] at hs
    obtain ⟨f, _, _, _, m, _, hs⟩ := hs
    simp only [Option.some.injEq] at hs; subst hs
    exact inv_setFile' h _ _ rfl
  | addEditors c a fo ids keys =>
    simp only [handle, addEditors, bind, Option.bind_eq_some_iff, req_eq_some] at hs
    obtain ⟨f, _, _, _, m, _, _, _, m', _, hs⟩ := hs
    simp only [Option.some.injEq] at hs; subst hs
    exact inv_setFile h { f with editors := .map m' }
  | removeEditors c a fo ids =>
    simp only [handle, removeEditors, bind, Option.bind_eq_some_iff, req_eq_some] at hs
    obtain ⟨f, _, _, _, m, _, hs⟩ := hs
    simp only [Option.some.injEq] at hs; subst hs
    exact inv_setFile h { f with editors := aclRemove f.editors m ids }
  | resetEditors c a fo =>
    simp only [handle, resetEditors, bind, Option.bind_eq_some_iff, req_eq_some] at hs
    obtain ⟨f, _, _, _, m, _, hs⟩ := hs
    simp only [Option.some.injEq] at hs; subst hs
    exact inv_setFile' h _ _ rfl
  | provision c v e vr er tr =>
    simp only [handle, provision, Option.some.injEq] at hs; subst hs
    exact inv_setFile h { address := rootAddress H, owner := makeOwnerAddress H (rootAddress H) (H c), contents := "",
                          viewers := v, editors := e, tracking := tr }
  | postKey c k =>
    simp only [handle, Option.some.injEq] at hs; subst hs
    exact ⟨h.1, h.2.1, AMap.wf_set _ _ h.2.2⟩

def runOps (H : String → String) (s : State) : List Op → State
  | [] => s
  | op :: rest => runOps H (stepT H s op) rest

theorem inv_run (H : String → String) (ops : List Op) : ∀ s, Inv s → Inv (runOps H s ops) := by
  induction ops with
  | nil => intro s h; exact h
  | cons op t ih =>
    intro s h
    simp only [runOps]
    apply ih
    unfold stepT
    cases hs : step H s op with
    | none => exact h
    | some s' => exact inv_step H s s' op h hs

theorem inv_empty : Inv { files := [], pubkeys := [] } := ⟨wf_nil', Keyed.nil, wf_nil'⟩

end Filetree

/-! ## x/rns -/
namespace Rns
open Canine.Rns

/-- the store invariant of the five rns stores: keys distinct; names under "name.tld", bids under
their index, listings under the listed string (inits and primary names are keyed by construction) -/
structure Inv (s : State) : Prop where
  wfNames : AMap.WF s.names
  wfBids : AMap.WF s.bids
  wfSale : AMap.WF s.forsale
  wfInits : AMap.WF s.inits
  wfPrimary : AMap.WF s.primary
  keyNames : Keyed (fun n : NameRec => nameKey n.name n.tld) s.names
  keyBids : Keyed (fun b : BidRec => b.index) s.bids
  keySale : Keyed (fun l : Listing => l.name) s.forsale

def storeOrdered (s : State) : State :=
  { s with names := inStoreOrder Query.rawKey s.names, bids := inStoreOrder Query.rawKey s.bids,
           forsale := inStoreOrder Query.rawKey s.forsale, inits := inStoreOrder Query.rawKey s.inits,
           primary := inStoreOrder Query.rawKey s.primary }

theorem rawKey_inj (a b : String) (h : Query.rawKey a = Query.rawKey b) : a = b := append_slash_inj a b h

theorem rawNodup {V : Type} {m : AMap String V} (h : AMap.WF m) : RawNodup Query.rawKey m := RawNodup.of_wf rawKey_inj h

theorem roundtrip_eq (s : State) (h : Inv s) : initGenesis (blank s) (exportGenesis s) = storeOrdered s := by
  simp only [initGenesis, blank, exportGenesis, storeOrdered]
  rw [setAll_getAll _ _ _ h.wfNames h.keyNames, setAll_getAll _ _ _ h.wfBids h.keyBids,
    setAll_getAll _ _ _ h.wfSale h.keySale,
    setAllWith_getAllWith InitRec.address InitRec.complete _ Query.rawKey s.inits h.wfInits (fun kv _ => ⟨rfl, rfl⟩),
    setAllWith_getAllWith PrimaryName.owner PrimaryName.name _ Query.rawKey s.primary h.wfPrimary (fun kv _ => ⟨rfl, rfl⟩)]

theorem export_storeOrdered (s : State) (h : Inv s) : exportGenesis (storeOrdered s) = exportGenesis s := by
  simp only [exportGenesis, storeOrdered]
  rw [getAll_eq_of_perm Query.rawKey (inStoreOrder_perm Query.rawKey s.names).symm (rawNodup h.wfNames),
    getAll_eq_of_perm Query.rawKey (inStoreOrder_perm Query.rawKey s.bids).symm (rawNodup h.wfBids),
    getAll_eq_of_perm Query.rawKey (inStoreOrder_perm Query.rawKey s.forsale).symm (rawNodup h.wfSale),
    getAllWith_eq_of_perm Query.rawKey _ (inStoreOrder_perm Query.rawKey s.inits).symm (rawNodup h.wfInits),
    getAllWith_eq_of_perm Query.rawKey _ (inStoreOrder_perm Query.rawKey s.primary).symm (rawNodup h.wfPrimary)]

theorem validate_export (s : State) (h : Inv s) : validate (exportGenesis s) = true := by
  simp only [validate, exportGenesis, Bool.and_eq_true]
  exact ⟨⟨⟨⟨rfl, noDup_getAll (fun n : NameRec => nameKey n.name n.tld) Query.rawKey s.names h.keyNames (rawNodup h.wfNames)⟩,
    noDup_getAll (fun b : BidRec => b.index) Query.rawKey s.bids h.keyBids (rawNodup h.wfBids)⟩,
    noDup_getAll (fun l : Listing => l.name) Query.rawKey s.forsale h.keySale (rawNodup h.wfSale)⟩,
    noDup_getAllWith InitRec.address _ Query.rawKey s.inits (fun _ _ => rfl) (rawNodup h.wfInits)⟩

/-- the query server reads the stores only through point lookups and raw-key-ordered listings -/
theorem run_congr (s s' : State) (hc : s'.canon = s.canon)
    (gn : AMap.get s'.names = AMap.get s.names) (gb : AMap.get s'.bids = AMap.get s.bids)
    (gf : AMap.get s'.forsale = AMap.get s.forsale) (gi : AMap.get s'.inits = AMap.get s.inits)
    (gp : AMap.get s'.primary = AMap.get s.primary)
    (en : Query.nameEntries s' = Query.nameEntries s) (eb : Query.bidEntries s' = Query.bidEntries s)
    (es : Query.saleEntries s' = Query.saleEntries s) (ei : Query.initEntries s' = Query.initEntries s)
    (q : Query.Q) : Query.run s' q = Query.run s q := by
  cases q <;>
    simp only [Query.run, Query.nameQuery, Query.primaryQuery, Query.listOwned, Query.resolve, acct, AMap.contains,
      hc, gn, gb, gf, gi, gp, en, eb, es, ei]

theorem entries_storeOrdered {V : Type} (m : AMap String V) (h : AMap.WF m) :
    sortByKey ((inStoreOrder Query.rawKey m).map (fun kv => (Query.rawKey kv.1, kv.2))) =
      sortByKey (m.map (fun kv => (Query.rawKey kv.1, kv.2))) :=
  (entries_eq_of_perm Query.rawKey (fun kv => kv.2) (inStoreOrder_perm Query.rawKey m).symm (rawNodup h)).symm

theorem run_storeOrdered (s : State) (h : Inv s) (q : Query.Q) : Query.run (storeOrdered s) q = Query.run s q := by
  apply run_congr
  · rfl
  · funext k; exact get_inStoreOrder Query.rawKey h.wfNames k
  · funext k; exact get_inStoreOrder Query.rawKey h.wfBids k
  · funext k; exact get_inStoreOrder Query.rawKey h.wfSale k
  · funext k; exact get_inStoreOrder Query.rawKey h.wfInits k
  · funext k; exact get_inStoreOrder Query.rawKey h.wfPrimary k
  · exact entries_storeOrdered s.names h.wfNames
  · exact entries_storeOrdered s.bids h.wfBids
  · exact entries_storeOrdered s.forsale h.wfSale
  · exact entries_storeOrdered s.inits h.wfInits

/-! the invariant along histories -/

theorem inv_setPrimaryIf {s : State} (h : Inv s) (c k : String) (f : Bool) : Inv (setPrimaryIf s c k f) := by
  unfold setPrimaryIf
  split
  · exact { h with wfPrimary := AMap.wf_set _ _ h.wfPrimary }
  · exact h

theorem nameKey_of_get {s : State} (h : Inv s) {k : String} {w : NameRec} (hg : AMap.get s.names k = some w) :
    nameKey w.name w.tld = k := h.keyNames (k, w) (AMap.mem_of_get hg)

theorem inv_step (s s' : State) (ht : Int) (op : Op) (h : Inv s) (hstep : step s ht op = some s') : Inv s' := by
  obtain ⟨cc, -, hcc, hstep⟩ := step_some hstep
  cases op with
  | register c raw n dta y p =>
    simp only [handle, register, bind, Option.bind_eq_some_iff, req_eq_some] at hstep
    obtain ⟨⟨nm, tld⟩, -, cost, -, _, -, ex, -, b1, hb1, b2, hb2, hs⟩ := hstep
    simp only [Option.some.injEq] at hs
    subst hs
    apply inv_setPrimaryIf
    exact { h with wfNames := AMap.wf_set _ _ h.wfNames, keyNames := h.keyNames.set _ _ rfl }
  | list c raw n pr p =>
    simp only [handle, list, bind, Option.bind_eq_some_iff, req_eq_some] at hstep
    obtain ⟨_, -, ⟨nm, tld⟩, -, w, -, _, -, _, -, _, -, hs⟩ := hstep
    simp only [Option.some.injEq] at hs; subst hs
    exact { h with wfSale := AMap.wf_set _ _ h.wfSale, keySale := h.keySale.set _ _ rfl }
  | delist c raw n =>
    simp only [handle, delist, bind, Option.bind_eq_some_iff, req_eq_some] at hstep
    obtain ⟨sale, -, ⟨nm, tld⟩, -, w, -, _, -, _, -, hs⟩ := hstep
    simp only [Option.some.injEq] at hs; subst hs
    exact { h with wfSale := AMap.wf_erase _ h.wfSale, keySale := h.keySale.erase _ }
  | buy c raw n =>
    simp only [handle, buy, bind, Option.bind_eq_some_iff, req_eq_some] at hstep
    obtain ⟨sale, -, ⟨nm, tld⟩, -, w, hw, _, -, _, -, _, -, seller, hseller, pr, -, coins, -, b1, hb1, b2, hb2, hs⟩ := hstep
    simp only [Option.some.injEq] at hs; subst hs
    exact { h with wfSale := AMap.wf_erase _ h.wfSale, keySale := h.keySale.erase _,
                   wfNames := AMap.wf_set _ _ h.wfNames, keyNames := h.keyNames.set _ _ (nameKey_of_get (w := w) h hw) }
  | bid c raw n pr p =>
    simp only [handle, bid, bind, Option.bind_eq_some_iff] at hstep
    obtain ⟨coins, hp, b0, hb0, b1, hb1, hs⟩ := hstep
    simp only [Option.some.injEq] at hs; subst hs
    exact { h with wfBids := AMap.wf_set _ _ h.wfBids, keyBids := h.keyBids.set _ _ rfl }
  | cancelBid c raw n =>
    simp only [handle, cancelBid, bind, Option.bind_eq_some_iff] at hstep
    obtain ⟨b, hb, coins, hcoins, b1, hb1, hs⟩ := hstep
    simp only [Option.some.injEq] at hs; subst hs
    exact { h with wfBids := AMap.wf_erase _ h.wfBids, keyBids := h.keyBids.erase _ }
  | acceptBid c raw n bidder =>
    simp only [handle, acceptBid, bind, Option.bind_eq_some_iff, req_eq_some] at hstep
    obtain ⟨⟨nm, tld⟩, -, w, hw, _, -, _, -, _, -, b, hb, coins, hcoins, b1, hb1, hs⟩ := hstep
    simp only [Option.some.injEq] at hs; subst hs
    exact { h with wfBids := AMap.wf_erase _ h.wfBids, keyBids := h.keyBids.erase _,
                   wfNames := AMap.wf_set _ _ h.wfNames, keyNames := h.keyNames.set _ _ (nameKey_of_get (w := w) h hw) }
  | transfer c raw n r =>
    simp only [handle, transfer, bind, Option.bind_eq_some_iff, req_eq_some] at hstep
    obtain ⟨⟨nm, tld⟩, -, w, hw, _, -, _, -, _, -, hs⟩ := hstep
    simp only [Option.some.injEq] at hs; subst hs
    exact { h with wfNames := AMap.wf_set _ _ h.wfNames, keyNames := h.keyNames.set _ _ (nameKey_of_get (w := w) h hw) }
  | update c raw n dta =>
    simp only [handle, update, bind, Option.bind_eq_some_iff, req_eq_some] at hstep
    obtain ⟨⟨nm, tld⟩, -, w, hw, _, -, _, -, hs⟩ := hstep
    simp only [Option.some.injEq] at hs; subst hs
    exact { h with wfNames := AMap.wf_set _ _ h.wfNames, keyNames := h.keyNames.set _ _ (nameKey_of_get (w := w) h hw) }
  | addRecord c raw n r rl v dta =>
    simp only [handle, addRecord, bind, Option.bind_eq_some_iff, req_eq_some] at hstep
    obtain ⟨⟨nm, tld⟩, -, w, hw, _, -, _, -, _, -, _, -, hs⟩ := hstep
    simp only [Option.some.injEq] at hs; subst hs
    exact { h with wfNames := AMap.wf_set _ _ h.wfNames, keyNames := h.keyNames.set _ _ (nameKey_of_get (w := w) h hw) }
  | delRecord c raw n =>
    simp only [handle, delRecord, bind, Option.bind_eq_some_iff, req_eq_some] at hstep
    obtain ⟨⟨nm, tld⟩, -, ⟨sub, n2⟩, -, w, hw, _, -, _, -, _, -, hs⟩ := hstep
    simp only [Option.some.injEq] at hs; subst hs
    exact { h with wfNames := AMap.wf_set _ _ h.wfNames, keyNames := h.keyNames.set _ _ (nameKey_of_get (w := w) h hw) }
  | init c g =>
    simp only [handle, init, bind, Option.bind_eq_some_iff, req_eq_some] at hstep
    obtain ⟨_, -, _, -, _, -, _, -, hs⟩ := hstep
    simp only [Option.some.injEq] at hs; subst hs
    exact { h with wfNames := AMap.wf_set _ _ h.wfNames, keyNames := h.keyNames.set _ _ rfl,
                   wfInits := AMap.wf_set _ _ h.wfInits }
  | makePrimary c raw n =>
    simp only [handle, makePrimary, bind, Option.bind_eq_some_iff] at hstep
    obtain ⟨⟨nm, tld⟩, -, hs⟩ := hstep
    simp only [Option.some.injEq] at hs; subst hs
    exact { h with wfPrimary := AMap.wf_set _ _ h.wfPrimary }

/-- the invariant holds along every history (`Canine.Rns.run`: failed messages leave the state as it was) -/
theorem inv_run (ops : List (Int × Op)) : ∀ s, Inv s → Inv (run s ops) := by
  induction ops with
  | nil => intro s h; exact h
  | cons x t ih =>
    intro s h
    obtain ⟨ht, op⟩ := x
    simp only [run]
    apply ih
    unfold stepT
    cases hs : step s ht op with
    | none => exact h
    | some s' => exact inv_step s s' ht op h hs

end Rns

/-! ## x/notifications -/
namespace Notif
open Canine.Notif

/-- every record of the shared store sits under the key built from its own fields (C18's `KeyInv`,
Props/C18.lean, restated: property modules are not imported into one another) -/
def KeyInv (s : State) : Prop :=
  ∀ kv ∈ s.store,
    (∃ n, kv.2 = .notif n ∧ kv.1 = notifKey n.to n.sender n.time) ∨ (∃ o b, kv.2 = .block o b ∧ kv.1 = blockKey o b)

/-- C18's `Inv` (proved along histories there: `C18_inv_along_histories`) -/
def Inv (s : State) : Prop := AMap.WF s.store ∧ KeyInv s

/-- distinct stored keys have distinct raw keys (segments joined by '/'): true when the address
segments contain no '/' and are not decimal numbers; on the chain two such records would be one -/
def RawInv (s : State) : Prop := RawNodup Query.rawKey s.store

/-- the store after the import: the notifications in iterator order, then the block entries in
iterator order (the two `InitGenesis` loops) -/
def storeOrdered (s : State) : State :=
  { store := (storeOrder s).filter (fun kv => isNotificationKey kv.1) ++
             (storeOrder s).filter (fun kv => !isNotificationKey kv.1) }

theorem storeOrdered_perm (s : State) : (storeOrdered s).store.Perm s.store :=
  (List.filter_append_perm _ _).trans (inStoreOrder_perm Query.rawKey s.store)

theorem keyInv_notif {s : State} (h : KeyInv s) (kv : Key × Entry) (hm : kv ∈ s.store)
    (hk : isNotificationKey kv.1 = true) :
    notifKey (asNotif kv.2).to (asNotif kv.2).sender (asNotif kv.2).time = kv.1 ∧ Entry.notif (asNotif kv.2) = kv.2 := by
  rcases h kv hm with ⟨n, e, k⟩ | ⟨o, b, e, k⟩
  · rw [e, k]; exact ⟨rfl, rfl⟩
  · rw [k] at hk; simp [isNotificationKey, blockKey] at hk

theorem keyInv_block {s : State} (h : KeyInv s) (kv : Key × Entry) (hm : kv ∈ s.store)
    (hk : isNotificationKey kv.1 = false) :
    blockKey (asBlock kv.2).address (asBlock kv.2).blockedAddress = kv.1 ∧
      Entry.block (asBlock kv.2).address (asBlock kv.2).blockedAddress = kv.2 := by
  rcases h kv hm with ⟨n, e, k⟩ | ⟨o, b, e, k⟩
  · rw [k] at hk; simp [isNotificationKey, notifKey] at hk
  · rw [e, k]; exact ⟨rfl, rfl⟩

theorem roundtrip_eq (s : State) (h : Inv s) : initGenesis (blank s) (exportGenesis s) = storeOrdered s := by
  have p := inStoreOrder_perm Query.rawKey s.store
  simp only [initGenesis, blank, exportGenesis, storeOrdered]
  have hnd : (AMap.keys ((storeOrder s).filter (fun kv => isNotificationKey kv.1) ++
      (storeOrder s).filter (fun kv => !isNotificationKey kv.1))).Nodup :=
    wf_of_perm (storeOrdered_perm s).symm h.1
  have hnd1 : (AMap.keys ([] ++ (storeOrder s).filter (fun kv => isNotificationKey kv.1))).Nodup := by
    simp only [AMap.keys, List.map_append, List.nil_append] at hnd ⊢
    exact (List.nodup_append.mp hnd).1
  rw [setAllWith_map (fun (n : Canine.Notif.Notif) => notifKey n.to n.sender n.time) Entry.notif (fun kv => asNotif kv.2) _ [] ?_ hnd1]
  · rw [List.nil_append,
      setAllWith_map (fun (b : BlockRec) => blockKey b.address b.blockedAddress)
        (fun b => Entry.block b.address b.blockedAddress) (fun kv => asBlock kv.2) _ _ ?_ hnd]
    intro kv hm
    rw [List.mem_filter] at hm
    exact keyInv_block h.2 kv (p.subset hm.1) (by simpa using hm.2)
  · intro kv hm
    rw [List.mem_filter] at hm
    exact keyInv_notif h.2 kv (p.subset hm.1) hm.2

theorem storeOrder_storeOrdered (s : State) (hr : RawInv s) : storeOrder (storeOrdered s) = storeOrder s :=
  (inStoreOrder_eq_of_perm Query.rawKey (storeOrdered_perm s).symm hr).symm

theorem export_storeOrdered (s : State) (hr : RawInv s) : exportGenesis (storeOrdered s) = exportGenesis s := by
  simp only [exportGenesis, storeOrder_storeOrdered s hr]

theorem validate_export (s : State) (h : Inv s) (hr : RawInv s) : validate (exportGenesis s) = true := by
  have p := inStoreOrder_perm Query.rawKey s.store
  have nd : ((storeOrder s).map (fun kv => Query.rawKey kv.1)).Nodup := hr.perm p.symm
  simp only [validate, exportGenesis, Bool.and_eq_true, noDup_iff, List.map_map]
  constructor
  · have : ((storeOrder s).filter (fun kv => isNotificationKey kv.1)).map (notifRaw ∘ fun kv => asNotif kv.2) =
        ((storeOrder s).filter (fun kv => isNotificationKey kv.1)).map (fun kv => Query.rawKey kv.1) := by
      apply List.map_congr_left
      intro kv hm
      rw [List.mem_filter] at hm
      simp [notifRaw, (keyInv_notif h.2 kv (p.subset hm.1) hm.2).1]
    rw [this]
    exact ((List.filter_sublist).map _).nodup nd
  · have : ((storeOrder s).filter (fun kv => !isNotificationKey kv.1)).map (blockRaw ∘ fun kv => asBlock kv.2) =
        ((storeOrder s).filter (fun kv => !isNotificationKey kv.1)).map (fun kv => Query.rawKey kv.1) := by
      apply List.map_congr_left
      intro kv hm
      rw [List.mem_filter] at hm
      simp [blockRaw, (keyInv_block h.2 kv (p.subset hm.1) (by simpa using hm.2)).1]
    rw [this]
    exact ((List.filter_sublist).map _).nodup nd

theorem entries_storeOrdered (s : State) (hr : RawInv s) : Query.entries (storeOrdered s) = Query.entries s := by
  simp only [Query.entries]
  exact (entries_eq_of_perm Query.rawKey (fun kv => (kv.1, kv.2)) (storeOrdered_perm s).symm hr).symm

theorem run_congr (s s' : State) (e : Query.entries s' = Query.entries s) (q : Query.Q) :
    Query.run s' q = Query.run s q := by
  cases q <;> simp only [Query.run, Query.inboxRaw, e] <;> rfl

/-! the invariant along histories (C18 proves the same for its own copy of the definition) -/

theorem inv_set_notif {s : State} (h : Inv s) (n : Canine.Notif.Notif) :
    Inv { s with store := AMap.set s.store (notifKey n.to n.sender n.time) (Entry.notif n) } := by
  refine ⟨AMap.wf_set _ _ h.1, ?_⟩
  intro kv hm
  rcases mem_set_cases _ _ _ kv hm with e | hm'
  · rw [e]; exact Or.inl ⟨n, rfl, rfl⟩
  · exact h.2 kv hm'

theorem inv_set_block {s : State} (h : Inv s) (o b : String) :
    Inv { s with store := AMap.set s.store (blockKey o b) (Entry.block o b) } := by
  refine ⟨AMap.wf_set _ _ h.1, ?_⟩
  intro kv hm
  rcases mem_set_cases _ _ _ kv hm with e | hm'
  · rw [e]; exact Or.inr ⟨o, b, rfl, rfl⟩
  · exact h.2 kv hm'

theorem inv_erase {s : State} (h : Inv s) (k : Key) : Inv { s with store := AMap.erase s.store k } :=
  ⟨AMap.wf_erase _ h.1, fun kv hm => h.2 kv (mem_of_mem_erase _ _ kv hm)⟩

theorem blockAll_inv (c : String) : ∀ (ts : List (String × Option String)) (s s' : State),
    blockAll s c ts = some s' → Inv s → Inv s'
  | [], s, s', hs, h => by simp only [blockAll, Option.some.injEq] at hs; subst hs; exact h
  | (_, none) :: _, s, s', hs, _ => by simp [blockAll] at hs
  | (_, some a) :: rest, s, s', hs, h => by
    simp only [blockAll] at hs
    exact blockAll_inv c rest _ s' hs (inv_set_block h c a)

theorem inv_step (s s' : State) (now : Int) (op : Op) (h : Inv s) (hs : step s now op = some s') : Inv s' := by
  cases op with
  | create c raw r ct p j =>
    simp only [step, create, bind, Option.bind_eq_some_iff, req_eq_some] at hs
    obtain ⟨_, _, to, _, _, _, _, _, hs⟩ := hs
    simp only [Option.some.injEq] at hs; subst hs
    exact inv_set_notif h { to := to, sender := c, time := now, contents := ct, priv := p }
  | delete c f t =>
    simp only [step, delete, Option.some.injEq] at hs; subst hs
    exact inv_erase h _
  | block c ts => exact blockAll_inv c ts s s' hs h

theorem inv_empty : Inv { store := [] } := ⟨wf_nil', fun _ hm => by simp at hm⟩

end Notif

/-! ## x/jklmint -/
namespace Mint
open Canine.Mint

/-- the emission-record store: keys distinct, every record under the key of its own height, heights
positive (`BlockMint` writes `minted_at_<ctx.BlockHeight()>` with `Height: ctx.BlockHeight()` at
heights ≥ 1 only) -/
structure Inv (c : Store) : Prop where
  wf : AMap.WF c.minted
  keyed : Keyed (fun b : MintedBlock => mintedKey b.height) c.minted
  pos : ∀ kv ∈ c.minted, 0 < kv.2.height

/-- the concrete import is the generic latest-only import of Canine/Genesis/Model.lean -/
theorem minted_roundtrip (c : Store) (h : Inv c) :
    (initGenesis (blank c) (exportGenesis c)).minted =
      importKind (fun b : MintedBlock => mintedKey b.height) (exportLatest c.minted (mintedKey c.height)) := by
  cases hg : AMap.get c.minted (mintedKey c.height) with
  | none => simp [initGenesis, blank, exportGenesis, exportLatest, importKind, hg, noRecord]
  | some b =>
    have hp : 0 < b.height := h.pos (mintedKey c.height, b) (AMap.mem_of_get hg)
    simp [initGenesis, blank, exportGenesis, exportLatest, importKind, hg, hp]

theorem params_roundtrip (c : Store) : (initGenesis (blank c) (exportGenesis c)).params = c.params := by
  simp only [initGenesis, blank, exportGenesis]

theorem height_roundtrip (c : Store) : (initGenesis (blank c) (exportGenesis c)).height = c.height := by
  simp only [initGenesis, blank, exportGenesis]

theorem last_key {c : Store} (h : Inv c) {b : MintedBlock} (hg : AMap.get c.minted (mintedKey c.height) = some b) :
    mintedKey b.height = mintedKey c.height := h.keyed (mintedKey c.height, b) (AMap.mem_of_get hg)

theorem get_last (c : Store) (h : Inv c) :
    AMap.get (initGenesis (blank c) (exportGenesis c)).minted (mintedKey c.height) =
      AMap.get c.minted (mintedKey c.height) := by
  rw [minted_roundtrip c h]
  cases hg : AMap.get c.minted (mintedKey c.height) with
  | none => simp [exportLatest, hg, importKind]
  | some b => simp [exportLatest, hg, importKind, AMap.set, AMap.get, last_key h hg]

theorem get_other (c : Store) (h : Inv c) (k : String) (hk : k ≠ mintedKey c.height) :
    AMap.get (initGenesis (blank c) (exportGenesis c)).minted k = none := by
  rw [minted_roundtrip c h]
  cases hg : AMap.get c.minted (mintedKey c.height) with
  | none => simp [exportLatest, hg, importKind]
  | some b =>
    simp only [exportLatest, hg, importKind, List.foldl_cons, List.foldl_nil, AMap.set, AMap.get, last_key h hg]
    have hk' : ¬ mintedKey c.height = k := fun e => hk e.symm
    simp [hk']

theorem export_idem (c : Store) (h : Inv c) :
    exportGenesis (initGenesis (blank c) (exportGenesis c)) = exportGenesis c := by
  have e1 := params_roundtrip c
  have e2 := height_roundtrip c
  have e3 := get_last c h
  simp only [exportGenesis] at *
  rw [e1, e2, e3]

theorem lastOf_roundtrip (c : Store) (h : Inv c) :
    lastOf (initGenesis (blank c) (exportGenesis c)) (c.height + 1) = lastOf c (c.height + 1) := by
  simp only [lastOf, Int.add_sub_cancel, get_last c h]

end Mint

/-! ## x/storage -/
namespace Storage
open Canine.Storage

/-- the store invariant: the C17 index invariant (`IndexInv`, Proofs/StorageE.lean — both file
indexes and the proof store have distinct keys, the two indexes hold the same files, every file sits
under its own key …; proved along histories in Props/C17.lean, `C17_along_histories`), distinct keys in
the other six stores, and every record of the remaining kinds under the key built from its own
fields -/
structure Inv (s : State) : Prop where
  idx : IndexInv s
  wfProviders : AMap.WF s.providers
  wfPayinfo : AMap.WF s.payinfo
  wfCollateral : AMap.WF s.collateral
  wfGauges : AMap.WF s.gauges
  wfAttests : AMap.WF s.attests
  wfReports : AMap.WF s.reports
  keyProofs : Keyed proofKeyOf s.proofs
  keyProviders : Keyed (fun p : Provider => p.address) s.providers
  keyPayinfo : Keyed (fun p : PayInfo => p.address) s.payinfo
  keyGauges : Keyed (fun g : Gauge => g.id) s.gauges
  keyAttests : Keyed formKeyOf s.attests
  keyReports : Keyed formKeyOf s.reports

/-- distinct stored keys have distinct raw keys in the stores whose key has several fields
("%x/%s/%d/" …): true when merkle (hex), owner and prover (bech32) strings contain no '/'
(`C17_primaryKey_injective_int`, `C17_secondaryKey_injective_int`); on the chain two such records
would be one -/
structure RawInv (s : State) : Prop where
  files : RawNodup Query.fileKeyStr s.files
  files2 : RawNodup Query.fileKey2Str s.files2
  proofs : RawNodup Query.proofKeyStr s.proofs
  attests : RawNodup Query.formKeyStr s.attests
  reports : RawNodup Query.formKeyStr s.reports

/-- the state after the import: every store in iterator order; the by-owner index holds the
files in the order `SetFile` wrote them — the iterator order of the *primary* index -/
def storeOrdered (s : State) : State :=
  { s with files := inStoreOrder Query.fileKeyStr s.files, files2 := inStoreOrder Query.fileKeyStr s.files,
           proofs := inStoreOrder Query.proofKeyStr s.proofs, providers := inStoreOrder Query.addrKeyStr s.providers,
           payinfo := inStoreOrder Query.addrKeyStr s.payinfo, collateral := inStoreOrder Query.addrKeyStr s.collateral,
           gauges := inStoreOrder Query.gaugeKeyStr s.gauges, attests := inStoreOrder Query.formKeyStr s.attests,
           reports := inStoreOrder Query.formKeyStr s.reports }

theorem addr_nodup {V : Type} {m : AMap String V} (h : AMap.WF m) : RawNodup Query.addrKeyStr m :=
  RawNodup.of_wf append_slash_inj h

theorem gauge_nodup {V : Type} {m : AMap String V} (h : AMap.WF m) : RawNodup Query.gaugeKeyStr m :=
  RawNodup.of_wf (append_suffix_inj "2f") h

theorem keyFiles {s : State} (h : Inv s) : Keyed File.key s.files :=
  Keyed.of_get h.idx.wfFiles (fun k f hg => (h.idx.ok k f hg).1)

theorem foldl_setFile (l : List File) : ∀ (s : State),
    l.foldl setFile s = { s with files := setAll File.key l s.files, files2 := setAll File.key l s.files2 } := by
  induction l with
  | nil => intro s; rfl
  | cons f t ih =>
    intro s
    simp only [List.foldl_cons, ih, setFile, setAll, setAllWith, id]

theorem roundtrip_eq (s : State) (h : Inv s) : initGenesis (blank s) (exportGenesis s) = storeOrdered s := by
  have e1 := setAll_getAll File.key Query.fileKeyStr s.files h.idx.wfFiles (keyFiles h)
  have e2 := setAll_getAll proofKeyOf Query.proofKeyStr s.proofs h.idx.wfProofs h.keyProofs
  have e3 := setAll_getAll (fun p : Provider => p.address) Query.addrKeyStr s.providers h.wfProviders h.keyProviders
  have e4 := setAll_getAll (fun p : PayInfo => p.address) Query.addrKeyStr s.payinfo h.wfPayinfo h.keyPayinfo
  have e5 := setAllWith_getAllWith CollateralRec.address CollateralRec.amount
    (fun kv : String × Int => ({ address := kv.1, amount := kv.2 } : CollateralRec)) Query.addrKeyStr s.collateral
    h.wfCollateral (fun kv _ => ⟨rfl, rfl⟩)
  have e6 := setAll_getAll formKeyOf Query.formKeyStr s.attests h.wfAttests h.keyAttests
  have e7 := setAll_getAll formKeyOf Query.formKeyStr s.reports h.wfReports h.keyReports
  have e8 := setAll_getAll (fun g : Gauge => g.id) Query.gaugeKeyStr s.gauges h.wfGauges h.keyGauges
  simp only [initGenesis, blank, exportGenesis, storeOrdered, foldl_setFile, e1, e2, e3, e4, e5, e6, e7, e8]

theorem proofEntries_storeOrdered (s : State) (hr : RawInv s) : Query.proofEntries (storeOrdered s) = Query.proofEntries s := by
  simp only [Query.proofEntries, storeOrdered]
  exact (entries_eq_of_perm Query.proofKeyStr (fun kv => kv.2) (inStoreOrder_perm _ s.proofs).symm hr.proofs).symm

theorem export_storeOrdered (s : State) (h : Inv s) (hr : RawInv s) : exportGenesis (storeOrdered s) = exportGenesis s := by
  have a1 := getAll_eq_of_perm Query.fileKeyStr (inStoreOrder_perm Query.fileKeyStr s.files).symm hr.files
  have a2 := getAll_eq_of_perm Query.proofKeyStr (inStoreOrder_perm Query.proofKeyStr s.proofs).symm hr.proofs
  have a3 := getAll_eq_of_perm Query.addrKeyStr (inStoreOrder_perm Query.addrKeyStr s.providers).symm (addr_nodup h.wfProviders)
  have a4 := getAll_eq_of_perm Query.addrKeyStr (inStoreOrder_perm Query.addrKeyStr s.payinfo).symm (addr_nodup h.wfPayinfo)
  have a5 := getAllWith_eq_of_perm Query.addrKeyStr (fun kv : String × Int => ({ address := kv.1, amount := kv.2 } : CollateralRec))
    (inStoreOrder_perm Query.addrKeyStr s.collateral).symm (addr_nodup h.wfCollateral)
  have a6 := getAll_eq_of_perm Query.formKeyStr (inStoreOrder_perm Query.formKeyStr s.reports).symm hr.reports
  have a7 := getAll_eq_of_perm Query.formKeyStr (inStoreOrder_perm Query.formKeyStr s.attests).symm hr.attests
  have a8 := getAll_eq_of_perm Query.gaugeKeyStr (inStoreOrder_perm Query.gaugeKeyStr s.gauges).symm (gauge_nodup h.wfGauges)
  have a9 : Query.activeProviders (storeOrdered s) = Query.activeProviders s := by
    have e4 : Query.providerEntries (storeOrdered s) = Query.providerEntries s :=
      (entries_eq_of_perm Query.addrKeyStr (fun kv => kv.2) (inStoreOrder_perm _ s.providers).symm (addr_nodup h.wfProviders)).symm
    simp only [Query.activeProviders, Query.proofsOf, proofEntries_storeOrdered s hr, e4] <;> rfl
  simp only [exportGenesis, a9]
  simp only [storeOrdered, ← a1, ← a2, ← a3, ← a4, ← a5, ← a6, ← a7, ← a8]

theorem validate_export (s : State) (h : Inv s) (hr : RawInv s) (hp : paramsValid s.params = true) :
    validate (exportGenesis s) = true := by
  simp only [validate, exportGenesis, Bool.and_eq_true]
  exact ⟨⟨⟨⟨noDup_getAll File.key Query.fileKeyStr s.files (keyFiles h) hr.files,
    noDup_getAll proofKeyOf Query.proofKeyStr s.proofs h.keyProofs hr.proofs⟩,
    noDup_getAll (fun p : Provider => p.address) Query.addrKeyStr s.providers h.keyProviders (addr_nodup h.wfProviders)⟩,
    noDup_getAll (fun p : PayInfo => p.address) Query.addrKeyStr s.payinfo h.keyPayinfo (addr_nodup h.wfPayinfo)⟩, hp⟩

/-- the query server reads the stores only through point lookups and raw-key-ordered listings -/
theorem run_congr (s s' : State) (now : Int) (hp : s'.params = s.params)
    (gF : AMap.get s'.files = AMap.get s.files) (gP : AMap.get s'.proofs = AMap.get s.proofs)
    (gV : AMap.get s'.providers = AMap.get s.providers) (gI : AMap.get s'.payinfo = AMap.get s.payinfo)
    (gA : AMap.get s'.attests = AMap.get s.attests) (gR : AMap.get s'.reports = AMap.get s.reports)
    (e1 : Query.primaryEntries s' = Query.primaryEntries s) (e2 : Query.secondaryEntries s' = Query.secondaryEntries s)
    (e3 : Query.proofEntries s' = Query.proofEntries s) (e4 : Query.providerEntries s' = Query.providerEntries s)
    (e5 : Query.payInfoEntries s' = Query.payInfoEntries s) (e6 : Query.gaugeEntries s' = Query.gaugeEntries s)
    (e7 : Query.attestEntries s' = Query.attestEntries s) (e8 : Query.reportEntries s' = Query.reportEntries s)
    (q : Query.Q) : Query.run s' now q = Query.run s now q := by
  cases q <;>
    simp only [Query.run, Query.openFiles, Query.findFile, Query.providerUsing, Query.proofsOf, Query.activeProviders,
      Query.networkSize, Query.availableSpace, Query.storageStats, Query.priceCheck,
      hp, gF, gP, gV, gI, gA, gR, e1, e2, e3, e4, e5, e6, e7, e8] <;> rfl

theorem files2_perm (s : State) (h : Inv s) : (inStoreOrder Query.fileKeyStr s.files).Perm s.files2 :=
  (inStoreOrder_perm Query.fileKeyStr s.files).trans (perm_of_get_eq h.idx.wfFiles h.idx.wfFiles2 h.idx.same)

theorem run_storeOrdered (s : State) (h : Inv s) (hr : RawInv s) (now : Int) (q : Query.Q) :
    Query.run (storeOrdered s) now q = Query.run s now q := by
  apply run_congr
  · rfl
  · funext k; exact get_inStoreOrder _ h.idx.wfFiles k
  · funext k; exact get_inStoreOrder _ h.idx.wfProofs k
  · funext k; exact get_inStoreOrder _ h.wfProviders k
  · funext k; exact get_inStoreOrder _ h.wfPayinfo k
  · funext k; exact get_inStoreOrder _ h.wfAttests k
  · funext k; exact get_inStoreOrder _ h.wfReports k
  · exact (entries_eq_of_perm Query.fileKeyStr (fun kv => kv.2) (inStoreOrder_perm _ s.files).symm hr.files).symm
  · exact (entries_eq_of_perm Query.fileKey2Str (fun kv => kv.2) (files2_perm s h).symm hr.files2).symm
  · exact proofEntries_storeOrdered s hr
  · exact (entries_eq_of_perm Query.addrKeyStr (fun kv => kv.2) (inStoreOrder_perm _ s.providers).symm (addr_nodup h.wfProviders)).symm
  · exact (entries_eq_of_perm Query.addrKeyStr (fun kv => kv.2) (inStoreOrder_perm _ s.payinfo).symm (addr_nodup h.wfPayinfo)).symm
  · exact (entries_eq_of_perm Query.gaugeKeyStr (fun kv => kv.2) (inStoreOrder_perm _ s.gauges).symm (gauge_nodup h.wfGauges)).symm
  · exact (entries_eq_of_perm Query.formKeyStr (fun kv => kv.2) (inStoreOrder_perm _ s.attests).symm hr.attests).symm
  · exact (entries_eq_of_perm Query.formKeyStr (fun kv => kv.2) (inStoreOrder_perm _ s.reports).symm hr.reports).symm

end Storage

end Canine.Genesis
