/-
Gauge exactness for C12, part 3: every message keeps `GaugeExact`, given `MsgOk` and the
no-outside-credit side condition `NoCredit` on the message.

Every place where a storage message credits an account:
* `initProvider`: signer → collateral account          (never an escrow account: `GaugeInv.accNe`);
* `shutdownProvider`: collateral account → signer      (never an escrow account: `MsgOk.signer`);
* `postFile` (pay-once): signer → module account → the escrow account of the gauge it creates/tops up;
* `buyStorage`: signer → module account → escrow account of its gauge, then module account → POL
  account, and module account → referrer (if one resolved and is not the signer) or fee account.
So the only recipients that `GaugeInv`/`MsgOk` do not already keep apart from escrow accounts are
`buyStorage`'s POL account, fee account and referrer: `NoCredit.payees`.  `NoCredit.fresh` is the
same hypothesis at creation time: the escrow account of a gauge that is not stored yet holds no ujkl
(nobody has pre-funded the hash-derived address, and an id is not re-used after its gauge was removed
with coins left in escrow), and is not the signer.
-/
import Canine.Proofs.GaugeExactBlock
namespace Canine.Storage
open Bank GI

/-- the accounts a message pays that are neither one of the two module accounts, nor its signer, nor
the escrow account of the gauge it funds -/
def Op.payees (s : State) : Op → List String
  | .buyStorage _ _ _ _ _ ref _ _ _ => [s.polAcc, s.feeAcc] ++ ref.toList
  | _ => []

/-- **No outside credit by a message.**
* `payees` — the POL account, the fee account and the referrer a `buyStorage` pays are not escrow
  accounts of stored gauges, nor of the gauge this message creates.
* `fresh` — the escrow account of a gauge that is about to be created is not the signer and holds no
  ujkl yet. -/
structure NoCredit (s : State) (op : Op) : Prop where
  payees : ∀ a ∈ op.payees s, (∀ kv ∈ s.gauges, a ≠ kv.2.account) ∧
    ∀ gid gacc, op.gaugeOf = some (gid, gacc) → a ≠ gacc
  fresh : ∀ gid gacc, op.gaugeOf = some (gid, gacc) → AMap.get s.gauges gid = none →
    op.creator ≠ gacc ∧ bal s.bank gacc "ujkl" = 0

/-- `Deposit` of Proofs/GaugeInvMsg.lean with the recipients of the later transfers made explicit:
after the deposit only the module account and `payees` are touched -/
def DepositX (s s' : State) (now : Int) (creator gid gacc : String) (payees : List String) : Prop :=
  ∃ (x endT : Int) (cs pay : Coins) (b1 b2 : Bank),
    newCoins "ujkl" x = some cs ∧ now + 1999 ≤ endT ∧
    send s.bank creator s.moduleAcc pay = some b1 ∧
    send b1 s.moduleAcc gacc cs = some b2 ∧
    (∀ a, a ≠ s.moduleAcc → a ∉ payees → ∀ d, bal s'.bank a d = bal b2 a d) ∧
    s'.gauges = (newGauge' s now gid gacc cs endT).gauges

theorem postFile_depositX {s s' : State} {h now : Int} {c m : String} {fs mp ex pt : Int} {note : String}
    {nv : Bool} {jp : Dec} {gid gacc : String}
    (hs : postFile s h now c m fs mp ex pt note nv jp gid gacc = some s') :
    SameCore s s' ∨ DepositX s s' now c gid gacc [] := by
  have hsc : ∀ f, SameCore s (setFile (removeFile s (m, c, h)) f) :=
    fun f => (sameCore_removeFile s _).trans (sameCore_setFile _ f)
  simp only [postFile, bind, Option.bind_eq_some_iff, req_eq_some] at hs
  obtain ⟨_, hnv, _, hsz, hs⟩ := hs
  generalize hs1 : setFile (removeFile s (m, c, h)) _ = s1 at hs
  have hsc1 : SameCore s s1 := hs1 ▸ hsc _
  clear hs1
  generalize (((I64.mul (ex - h) 6).tdiv 60).tdiv 60).tdiv 24 = days at hs
  obtain ⟨e1, e2, e3, e4⟩ := hsc1
  split at hs
  · right
    simp only [Option.bind_eq_some_iff, req_eq_some] at hs
    obtain ⟨_, hd, cost, hcost, _, hc0, spcT, hspc, payC, hpay, b1, hb1, b2, hb2, hs⟩ := hs
    simp only [Option.some.injEq] at hs
    have hb1' : Bank.send s1.bank c s1.moduleAcc payC = some b1 := hb1
    have hb2' : Bank.send b1 s1.moduleAcc gacc spcT = some b2 := send_of_sendFromModule hb2
    rw [e1, e3] at hb1'
    rw [e3] at hb2'
    subst hs
    refine ⟨_, now + days * dayNs, spcT, payC, b1, b2, hspc, ?_, hb1', hb2', fun _ _ _ _ => rfl,
      newGauge'_gauges_congr e2 _ _ _ _ _⟩
    unfold dayNs; omega
  · left
    simp only [Option.bind_eq_some_iff, req_eq_some] at hs
    obtain ⟨pi, hpi, _, _, _, _, hs⟩ := hs
    simp only [Option.some.injEq] at hs
    subst hs
    exact ⟨e1, e2, e3, e4⟩

theorem buyStorage_depositX {s s' : State} {now : Int} {c fa : String} {dd bytes : Int} {dn : String}
    {ref : Option String} {jp : Dec} {gid gacc : String}
    (hs : buyStorage s now c fa dd bytes dn ref jp gid gacc = some s') :
    DepositX s s' now c gid gacc ([s.polAcc, s.feeAcc] ++ ref.toList) := by
  rw [GI.buyStorage_eq, Option.bind_eq_some_iff] at hs
  obtain ⟨⟨tp0, su⟩, hbase, hpay⟩ := hs
  simp only [GI.buyBase, bind, Option.bind_eq_some_iff, req_eq_some] at hbase
  obtain ⟨_, _, _, hdur, _, _, _, hden, _⟩ := hbase
  subst hden
  have hend : now + 1999 ≤ now + I64.mul dd dayNs := by
    unfold timeMonthNs at hdur; omega
  cases ref with
  | none =>
    simp only [GI.buyPay, bind, Option.bind_eq_some_iff, req_eq_some] at hpay
    obtain ⟨_, _, payC, _, b1, hb1, spcT, hspc, b2, hb2, polT, _, b3, hb3, refT, _, b4, hb4, hs⟩ := hpay
    simp only [Option.some.injEq] at hs
    have hb2' : Bank.send b1 s.moduleAcc gacc spcT = some b2 := send_of_sendFromModule hb2
    have hb3' : Bank.send b2 s.moduleAcc s.polAcc polT = some b3 := send_of_sendFromModule hb3
    have hb4' : Bank.send b3 s.moduleAcc s.feeAcc refT = some b4 := hb4
    subst hs
    refine ⟨_, now + I64.mul dd dayNs, spcT, payC, b1, b2, hspc, hend, hb1, hb2', ?_, rfl⟩
    intro a h1 h2 d
    simp only [Option.toList, List.append_nil, List.mem_cons, List.not_mem_nil, or_false, not_or] at h2
    show bal b4 a d = bal b2 a d
    rw [bal_send_other hb4' (Ne.symm h1) (Ne.symm h2.2) d, bal_send_other hb3' (Ne.symm h1) (Ne.symm h2.1) d]
  | some r =>
    simp only [GI.buyPay, bind, Option.bind_eq_some_iff, req_eq_some] at hpay
    obtain ⟨_, _, payC, _, b1, hb1, spcT, hspc, b2, hb2, polT, _, b3, hb3, refT, _, hs⟩ := hpay
    have hb2' : Bank.send b1 s.moduleAcc gacc spcT = some b2 := send_of_sendFromModule hb2
    have hb3' : Bank.send b2 s.moduleAcc s.polAcc polT = some b3 := send_of_sendFromModule hb3
    split at hs
    · simp only [Option.bind_eq_some_iff, Option.some.injEq] at hs
      obtain ⟨b4, hb4, hs⟩ := hs
      have hb4' : Bank.send b3 s.moduleAcc r refT = some b4 := send_of_sendFromModule hb4
      subst hs
      refine ⟨_, now + I64.mul dd dayNs, spcT, payC, b1, b2, hspc, hend, hb1, hb2', ?_, rfl⟩
      intro a h1 h2 d
      simp only [Option.toList, List.mem_append, List.mem_cons, List.not_mem_nil, or_false, not_or] at h2
      show bal b4 a d = bal b2 a d
      rw [bal_send_other hb4' (Ne.symm h1) (Ne.symm h2.2) d, bal_send_other hb3' (Ne.symm h1) (Ne.symm h2.1.1) d]
    · simp only [Option.bind_eq_some_iff, Option.some.injEq] at hs
      obtain ⟨b4, hb4, hs⟩ := hs
      have hb4' : Bank.send b3 s.moduleAcc s.feeAcc refT = some b4 := hb4
      subst hs
      refine ⟨_, now + I64.mul dd dayNs, spcT, payC, b1, b2, hspc, hend, hb1, hb2', ?_, rfl⟩
      intro a h1 h2 d
      simp only [Option.toList, List.mem_append, List.mem_cons, List.not_mem_nil, or_false, not_or] at h2
      show bal b4 a d = bal b2 a d
      rw [bal_send_other hb4' (Ne.symm h1) (Ne.symm h2.1.2) d, bal_send_other hb3' (Ne.symm h1) (Ne.symm h2.1.1) d]

/-- **A deposit keeps exactness.**  The other gauges' escrow accounts are not touched; the new (or
same-block) gauge starts now and holds in escrow exactly what it records. -/
theorem deposit_fx {E : EscrowScheme} {s s' : State} {now : Int} {creator gid gacc : String} {payees : List String}
    (hex : GaugeExact E s now) (hd : DepositX s s' now creator gid gacc payees)
    (hacc : gacc = E.accOf gid) (hm : gacc ≠ s.moduleAcc)
    (hsame : ∀ g, AMap.get s.gauges gid = some g → g.startT = now)
    (hcr : ∀ kv ∈ s.gauges, creator ≠ kv.2.account)
    (hpay : ∀ a ∈ payees, (∀ kv ∈ s.gauges, a ≠ kv.2.account) ∧ a ≠ gacc)
    (hfresh : AMap.get s.gauges gid = none → creator ≠ gacc ∧ bal s.bank gacc "ujkl" = 0) :
    StepFx s s' now := by
  have hinv := hex.inv
  obtain ⟨x, endT, cs, pay, b1, b2, hcs, hend, h1, h2, h3, hg⟩ := hd
  rw [newGauge'_gauges] at hg
  obtain ⟨hx, hcsok, hamt⟩ := newCoins_cases hcs
  intro kv hkv
  rw [hg] at hkv
  rcases mem_set_strong hinv.wf hkv with e | ⟨hm', hne⟩
  · right
    subst e
    -- what the escrow account held before, and the record
    have hM : creator ≠ gacc ∧ CoinsOk (mergedCoins s gid cs) ∧
        amt "ujkl" (mergedCoins s gid cs) = bal s.bank gacc "ujkl" + x := by
      unfold mergedCoins
      cases hget : AMap.get s.gauges gid with
      | none =>
        obtain ⟨f1, f2⟩ := hfresh hget
        exact ⟨f1, hcsok, by simp only; omega⟩
      | some g0 =>
        simp only
        have hmem := AMap.mem_of_get hget
        have ha0 : g0.account = gacc := by rw [hacc]; exact (hinv.ids _ hmem).2
        have hok0 := hinv.ok _ hmem
        have hst := hsame g0 hget
        have hx0 := hex.exact _ hmem
        simp only at hok0 hx0
        rw [← hst] at hx0
        have hold := hx0.at_start hok0.long hok0.coins
        rw [ha0] at hold
        obtain ⟨c1, c2⟩ := addCoins_ok hok0.coins hcsok
        exact ⟨by rw [← ha0]; exact hcr _ hmem, c1, by rw [c2, hamt, hold]⟩
    obtain ⟨hcg, hMok, hMamt⟩ := hM
    have hbal : bal s'.bank gacc "ujkl" = amt "ujkl" (mergedCoins s gid cs) := by
      rw [h3 gacc hm (fun hp => (hpay gacc hp).2 rfl) "ujkl"]
      have e2 := bal_send h2 gacc "ujkl"
      simp only [if_true, Ne.symm hm, if_false, hamt] at e2
      rw [e2, bal_send_other h1 hcg (Ne.symm hm) "ujkl", hMamt]; omega
    refine ⟨rfl, hend, fun c hc => ?_, fun hc => ?_⟩
    · have hc' : c ∈ mergedCoins s gid cs := hc
      obtain ⟨e1, e2⟩ := hMok.mem hc'
      show c.2 - bal s'.bank gacc c.1 = 0
      rw [e1, hbal, e2]; omega
    · have hc' : mergedCoins s gid cs = [] := hc
      show bal s'.bank gacc "ujkl" = 0
      rw [hbal, hc']; rfl
  · left
    refine ⟨hm', fun d => ?_⟩
    have hid := hinv.ids kv hm'
    have hag : kv.2.account ≠ gacc := by
      rw [hid.2, hacc]
      intro e; exact hne (E.inj _ _ e)
    have ham := (hinv.accNe kv hm').1
    rw [h3 kv.2.account ham (fun hp => (hpay _ hp).1 kv hm' rfl) d,
      bal_send_other h2 (Ne.symm ham) (Ne.symm hag) d,
      bal_send_other h1 (hcr kv hm') (Ne.symm ham) d]

theorem initProvider_fx {E : EscrowScheme} {s s' : State} {t now : Int} {c ip kb : String} {ts : Int} {iv : Bool}
    (hinv : GaugeInv E s t) (hc : ∀ kv ∈ s.gauges, acctOf s c ≠ kv.2.account)
    (h : initProvider s c ip kb ts iv = some s') : StepFx s s' now := by
  simp only [initProvider, bind, Option.bind_eq_some_iff, req_eq_some] at h
  obtain ⟨_, _, _, _, _, _, coins, _, b1, hb1, hs⟩ := h
  simp only [Option.some.injEq] at hs; subst hs
  exact StepFx.of_same rfl (fun kv hkv d => bal_send_other hb1 (hc kv hkv) (Ne.symm (hinv.accNe kv hkv).2) d)

theorem shutdownProvider_fx {E : EscrowScheme} {s s' : State} {t now : Int} {c : String}
    (hinv : GaugeInv E s t) (hc : ∀ kv ∈ s.gauges, acctOf s c ≠ kv.2.account)
    (h : shutdownProvider s c = some s') : StepFx s s' now := by
  simp only [shutdownProvider, bind, Option.bind_eq_some_iff, req_eq_some] at h
  obtain ⟨_, _, h⟩ := h
  split at h
  · simp only [Option.bind_eq_some_iff, req_eq_some] at h
    obtain ⟨_, _, coins, _, b1, hb1, hs⟩ := h
    simp only [Option.some.injEq] at hs; subst hs
    exact StepFx.of_same rfl (fun kv hkv d =>
      bal_send_other (send_of_sendFromModule hb1) (Ne.symm (hinv.accNe kv hkv).2) (hc kv hkv) d)
  · simp only [Option.some.injEq] at h; subst h
    exact StepFx.of_sameCore ⟨rfl, rfl, rfl, rfl⟩

/-- what a successful message does to the gauges, as far as exactness is concerned -/
theorem step_fx {E : EscrowScheme} {s s' : State} {h now : Int} {op : Op}
    (hex : GaugeExact E s now) (hok : MsgOk E s now op) (hnc : NoCredit s op) (hstep : step s h now op = some s') :
    StepFx s s' now := by
  cases op with
  | postFile c m fs mp ex pt note nv jp gid gacc =>
    simp only [step] at hstep
    rcases postFile_depositX hstep with hc | hd
    · exact StepFx.of_sameCore hc
    · obtain ⟨o1, o2, _, o4⟩ := hok.oracle gid gacc rfl
      exact deposit_fx hex hd o1 o2 o4 (fun kv hkv => (hok.signer kv hkv).1) (fun a ha => by simp at ha)
        (hnc.fresh gid gacc rfl)
  | deleteFile c m st =>
    simp only [step, Option.some.injEq] at hstep; subst hstep
    exact StepFx.of_sameCore (sameCore_removeFile _ _)
  | buyStorage c fa dd b dn ref jp gid gacc =>
    simp only [step] at hstep
    obtain ⟨o1, o2, _, o4⟩ := hok.oracle gid gacc rfl
    exact deposit_fx hex (buyStorage_depositX hstep) o1 o2 o4 (fun kv hkv => (hok.signer kv hkv).1)
      (fun a ha => ⟨(hnc.payees a ha).1, (hnc.payees a ha).2 gid gacc rfl⟩) (hnc.fresh gid gacc rfl)
  | initProvider c ip kb ts iv =>
    simp only [step] at hstep
    exact initProvider_fx hex.inv (fun kv hkv => (hok.signer kv hkv).2) hstep
  | shutdownProvider c =>
    simp only [step] at hstep
    exact shutdownProvider_fx hex.inv (fun kv hkv => (hok.signer kv hkv).2) hstep
  | setProviderIP c ip iv =>
    simp only [step] at hstep
    split at hstep
    · exact StepFx.of_sameCore (sameCore_updProvider hstep)
    · simp at hstep
  | setProviderKeybase c kb => exact StepFx.of_sameCore (sameCore_updProvider hstep)
  | setProviderTotalSpace c sp => exact StepFx.of_sameCore (sameCore_updProvider hstep)
  | addClaimer c cl => exact StepFx.of_sameCore (sameCore_updProvider hstep)
  | removeClaimer c cl => exact StepFx.of_sameCore (sameCore_updProvider hstep)
  | postProof c m o st tp v nc =>
    simp only [step, Option.some.injEq] at hstep; subst hstep
    exact StepFx.of_sameCore (sameCore_postProof _ _ _ _ _ _ _ _ _)
  | requestAttest c m o st ec ch =>
    simp only [step, Option.some.injEq] at hstep; subst hstep
    split <;> exact StepFx.of_sameCore ⟨rfl, rfl, rfl, rfl⟩
  | attest c p m o st =>
    simp only [step, Option.some.injEq] at hstep; subst hstep
    exact StepFx.of_sameCore (sameCore_attest _ _ _ _ _ _ _)
  | requestReport c p m o st ec ch =>
    simp only [step, Option.some.injEq] at hstep; subst hstep
    split <;> exact StepFx.of_sameCore ⟨rfl, rfl, rfl, rfl⟩
  | report c p m o st =>
    simp only [step] at hstep
    exact StepFx.of_sameCore (sameCore_report hstep)

/-- a delivered message, failed or not -/
theorem stepT_fx {E : EscrowScheme} {s : State} {h now : Int} {op : Op}
    (hex : GaugeExact E s now) (hok : MsgOk E s now op) (hnc : NoCredit s op) : StepFx s (stepT s h now op) now := by
  unfold stepT
  cases hs : step s h now op with
  | none => simpa using StepFx.refl s now
  | some s1 => simpa using step_fx hex hok hnc hs

/-- **Every message keeps the exact gauge invariant.** -/
theorem stepT_gaugeExact {E : EscrowScheme} {s : State} {h now : Int} {op : Op}
    (hex : GaugeExact E s now) (hok : MsgOk E s now op) (hnc : NoCredit s op) :
    GaugeExact E (stepT s h now op) now :=
  ⟨stepT_gaugeInv hex.inv hok, (stepT_fx hex hok hnc).exact hex.exact⟩

end Canine.Storage
