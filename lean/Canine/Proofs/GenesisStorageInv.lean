/-
The storage genesis invariant (`Genesis.Storage.Inv`, Proofs/GenesisModules.lean) along histories:
every storage message, the reward block and parameter changes preserve it; `RawInv` follows from it
and slash-freeness of the string components of the stored keys (`SlashFree`), which is preserved as
well.  Used by Props/C19.lean.
-/
import Canine.Proofs.GenesisModules
namespace Canine.Genesis.SI
open Canine.Storage
open Canine.Genesis.Storage (Inv RawInv proofKeyOf formKeyOf)

/-! ## Part 1: `Inv` = `IndexInv` + the part about the other stores (`Rest`) -/

/-- distinct keys and every record under its own key -/
def Good {K V : Type} [DecidableEq K] (keyOf : V → K) (m : AMap K V) : Prop := AMap.WF m ∧ Keyed keyOf m

theorem Good.set {K V : Type} [DecidableEq K] {keyOf : V → K} {m : AMap K V} (h : Good keyOf m) (k : K) (v : V)
    (hv : keyOf v = k) : Good keyOf (AMap.set m k v) := ⟨AMap.wf_set _ _ h.1, h.2.set _ _ hv⟩

theorem Good.erase {K V : Type} [DecidableEq K] {keyOf : V → K} {m : AMap K V} (h : Good keyOf m) (k : K) :
    Good keyOf (AMap.erase m k) := ⟨AMap.wf_erase _ h.1, h.2.erase _⟩

theorem Good.get {K V : Type} [DecidableEq K] {keyOf : V → K} {m : AMap K V} (h : Good keyOf m) {k : K} {v : V}
    (hg : AMap.get m k = some v) : keyOf v = k := h.2 (k, v) (AMap.mem_of_get hg)

theorem Good.nil {K V : Type} [DecidableEq K] {keyOf : V → K} : Good keyOf ([] : AMap K V) := ⟨wf_nil', Keyed.nil⟩

theorem keyed_foldl_erase {K V : Type} [DecidableEq K] {keyOf : V → K} (l : List K) : ∀ (m : AMap K V),
    Keyed keyOf m → Keyed keyOf (l.foldl (fun m pk => AMap.erase m pk) m) := by
  induction l with
  | nil => intro m h; exact h
  | cons a t ih => intro m h; exact ih _ (h.erase a)

/-- what `Inv` says beyond `IndexInv` -/
structure Rest (s : State) : Prop where
  proofs : Keyed proofKeyOf s.proofs
  providers : Good (fun p : Provider => p.address) s.providers
  payinfo : Good (fun p : PayInfo => p.address) s.payinfo
  collateral : AMap.WF s.collateral
  gauges : Good (fun g : Gauge => g.id) s.gauges
  attests : Good formKeyOf s.attests
  reports : Good formKeyOf s.reports

theorem inv_iff (s : State) : Inv s ↔ IndexInv s ∧ Rest s := by
  constructor
  · intro h
    exact ⟨h.idx, h.keyProofs, ⟨h.wfProviders, h.keyProviders⟩, ⟨h.wfPayinfo, h.keyPayinfo⟩, h.wfCollateral,
      ⟨h.wfGauges, h.keyGauges⟩, ⟨h.wfAttests, h.keyAttests⟩, ⟨h.wfReports, h.keyReports⟩⟩
  · intro ⟨i, r⟩
    exact ⟨i, r.providers.1, r.payinfo.1, r.collateral, r.gauges.1, r.attests.1, r.reports.1, r.proofs,
      r.providers.2, r.payinfo.2, r.gauges.2, r.attests.2, r.reports.2⟩

/-- `Rest` reads seven stores only -/
theorem Rest.frame {s s' : State} (h : Rest s) (e1 : s'.proofs = s.proofs) (e2 : s'.providers = s.providers)
    (e3 : s'.payinfo = s.payinfo) (e4 : s'.collateral = s.collateral) (e5 : s'.gauges = s.gauges)
    (e6 : s'.attests = s.attests) (e7 : s'.reports = s.reports) : Rest s' := by
  obtain ⟨a, b, c, d, e, f, g⟩ := h
  exact ⟨by rw [e1]; exact a, by rw [e2]; exact b, by rw [e3]; exact c, by rw [e4]; exact d, by rw [e5]; exact e,
    by rw [e6]; exact f, by rw [e7]; exact g⟩

theorem rest_bank {s : State} (b : Bank) (h : Rest s) : Rest { s with bank := b } := h.frame rfl rfl rfl rfl rfl rfl rfl

theorem rest_params {s : State} (p : Params) (h : Rest s) : Rest { s with params := p } := h.frame rfl rfl rfl rfl rfl rfl rfl

theorem rest_setFile {s : State} (f : File) (h : Rest s) : Rest (setFile s f) := h.frame rfl rfl rfl rfl rfl rfl rfl

theorem rest_removeFile {s : State} (k : FKey) (h : Rest s) : Rest (removeFile s k) := by
  unfold removeFile
  split
  · exact h
  · rename_i f hf
    have hp : Keyed proofKeyOf (f.proofs.foldl (fun m pk => AMap.erase m pk) s.proofs) := keyed_foldl_erase _ _ h.proofs
    have hpi : Good (fun p : PayInfo => p.address)
        (if f.expires ≤ 0 then
          match AMap.get s.payinfo f.owner with
          | some pi =>
            let u := pi.spaceUsed - f.fileSize * f.maxProofs
            AMap.set s.payinfo pi.address { pi with spaceUsed := if u < 0 then 0 else u }
          | none => s.payinfo
        else s.payinfo) := by
      split
      · split
        · exact h.payinfo.set _ _ rfl
        · exact h.payinfo
      · exact h.payinfo
    exact ⟨hp, h.providers, hpi, h.collateral, h.gauges, h.attests, h.reports⟩

theorem rest_newGauge {s : State} (now : Int) (id acc : String) (coins : Coins) (endT : Int) (h : Rest s) :
    Rest (newGauge' s now id acc coins endT) := by
  unfold newGauge'
  exact ⟨h.proofs, h.providers, h.payinfo, h.collateral, h.gauges.set _ _ rfl, h.attests, h.reports⟩

theorem rest_postFile {s s' : State} {h now : Int} {c m : String} {fs mp ex pt : Int} {note : String}
    {nv : Bool} {jp : Dec} {gid gacc : String}
    (hs : postFile s h now c m fs mp ex pt note nv jp gid gacc = some s') (hr : Rest s) : Rest s' := by
  simp only [postFile, bind, Option.bind_eq_some_iff, req_eq_some] at hs
  obtain ⟨_, -, _, -, hs⟩ := hs
  have h1 : Rest (setFile (removeFile s (m, c, h))
      { merkle := m, owner := c, start := h, expires := ex, fileSize := fs,
        proofInterval := s.params.proofWindow, proofType := pt, proofs := [], maxProofs := mp, note := note }) :=
    rest_setFile _ (rest_removeFile _ hr)
  split at hs
  · simp only [Option.bind_eq_some_iff, req_eq_some] at hs
    obtain ⟨_, -, cost, -, _, -, spc, -, toPay, -, b1, -, b2, -, hs⟩ := hs
    simp only [Option.some.injEq] at hs; subst hs
    exact rest_bank _ (rest_newGauge _ _ _ _ _ h1)
  · simp only [Option.bind_eq_some_iff, req_eq_some] at hs
    obtain ⟨pi, -, _, -, _, -, hs⟩ := hs
    simp only [Option.some.injEq] at hs; subst hs
    exact ⟨h1.proofs, h1.providers, h1.payinfo.set _ _ rfl, h1.collateral, h1.gauges, h1.attests, h1.reports⟩

theorem rest_buyStorage {s s' : State} {now : Int} {c fa : String} {dd b : Int} {dn : String}
    {ref : Option String} {jp : Dec} {gid gacc : String}
    (hs : buyStorage s now c fa dd b dn ref jp gid gacc = some s') (hr : Rest s) : Rest s' := by
  simp only [buyStorage, bind, Option.bind_eq_some_iff, req_eq_some] at hs
  obtain ⟨_, -, _, -, _, -, _, -, cost, -, _, -, hs⟩ := hs
  repeat' (first
    | (subst hs
       exact rest_bank _ (rest_newGauge _ _ _ _ _
         ⟨hr.proofs, hr.providers, hr.payinfo.set _ _ rfl, hr.collateral, hr.gauges, hr.attests, hr.reports⟩))
    | (obtain ⟨_, -, hs⟩ := hs)
    | (simp only [Option.bind_eq_some_iff, req_eq_some, Option.some.injEq, Option.bind_none, Option.bind_some] at hs)
    | split at hs)

theorem rest_initProvider {s s' : State} {c ip kb : String} {ts : Int} {iv : Bool}
    (hs : initProvider s c ip kb ts iv = some s') (hr : Rest s) : Rest s' := by
  simp only [initProvider, bind, Option.bind_eq_some_iff, req_eq_some] at hs
  obtain ⟨_, -, _, -, _, -, coins, -, b1, -, hs⟩ := hs
  simp only [Option.some.injEq] at hs; subst hs
  exact ⟨hr.proofs, hr.providers.set _ _ rfl, hr.payinfo, AMap.wf_set _ _ hr.collateral, hr.gauges, hr.attests, hr.reports⟩

theorem rest_shutdownProvider {s s' : State} {c : String}
    (hs : shutdownProvider s c = some s') (hr : Rest s) : Rest s' := by
  simp only [shutdownProvider, bind, Option.bind_eq_some_iff, req_eq_some] at hs
  obtain ⟨_, -, hs⟩ := hs
  split at hs
  · simp only [Option.bind_eq_some_iff, req_eq_some] at hs
    obtain ⟨_, -, coins, -, b1, -, hs⟩ := hs
    simp only [Option.some.injEq] at hs; subst hs
    exact ⟨hr.proofs, hr.providers.erase _, hr.payinfo, AMap.wf_erase _ hr.collateral, hr.gauges, hr.attests, hr.reports⟩
  · simp only [Option.some.injEq] at hs; subst hs
    exact ⟨hr.proofs, hr.providers.erase _, hr.payinfo, hr.collateral, hr.gauges, hr.attests, hr.reports⟩

/-- `updProvider` with an update that keeps the address -/
theorem rest_updProvider {s s' : State} {c : String} {f : Provider → Option Provider}
    (hf : ∀ p p', f p = some p' → p'.address = p.address)
    (hs : updProvider s c f = some s') (hr : Rest s) : Rest s' := by
  simp only [updProvider, bind, Option.bind_eq_some_iff] at hs
  obtain ⟨p, hp, p', hp', hs⟩ := hs
  simp only [Option.some.injEq] at hs; subst hs
  have : p'.address = c := (hf p p' hp').trans (hr.providers.get hp)
  exact ⟨hr.proofs, hr.providers.set _ _ this, hr.payinfo, hr.collateral, hr.gauges, hr.attests, hr.reports⟩

theorem rest_postProof (s : State) (h : Int) (c m o : String) (st tp : Int) (v : Bool) (nc : Int)
    (hr : Rest s) : Rest (postProof s h c m o st tp v nc).state := by
  rcases postProof_cases s h c m o st tp v nc with e | ⟨f, p, x, hf, hl, hp, e⟩ | ⟨f, x, hf, hl, hlen, e⟩
  · rw [e]; exact hr
  · rw [e]
    have hk : proofKeyOf p = (c, f.key) := hr.proofs (_, p) (AMap.mem_of_get hp)
    exact ⟨hr.proofs.set _ _ hk, hr.providers, hr.payinfo, hr.collateral, hr.gauges, hr.attests, hr.reports⟩
  · rw [e]
    exact ⟨hr.proofs.set _ _ rfl, hr.providers, hr.payinfo, hr.collateral, hr.gauges, hr.attests, hr.reports⟩

/-- a successful form request writes a form under the key built from the form's own fields -/
theorem good_requestForm {forms forms' : AMap PKey Form} {s : State} {pr m o : String} {st ec : Int} {ch : List String}
    (hi : IndexInv s) (hg : Good formKeyOf forms) (hs : requestForm forms s pr m o st ec ch = some forms') :
    Good formKeyOf forms' := by
  simp only [requestForm, bind, Option.bind_eq_some_iff, req_eq_some] at hs
  obtain ⟨f, hf, _, -, _, -, _, -, _, -, _, -, hs⟩ := hs
  simp only [Option.some.injEq] at hs; subst hs
  have hk : f.key = (m, o, st) := (hi.ok _ _ hf).1
  exact hg.set _ _ (by rw [hk]; rfl)

theorem rest_attest (s : State) (h : Int) (c pr m o : String) (st : Int) (hr : Rest s) :
    Rest (attest s h c pr m o st) := by
  rcases attest_cases s h c pr m o st with ⟨e, -⟩ | ⟨form, hg, -, -, e⟩ | ⟨form, f, p, -, -, -, -, -, hp, e⟩
  · rw [e]; exact hr
  · rw [e]
    have hk : formKeyOf form = (pr, (m, o, st)) := hr.attests.get hg
    exact ⟨hr.proofs, hr.providers, hr.payinfo, hr.collateral, hr.gauges, hr.attests.set _ _ hk, hr.reports⟩
  · rw [e]
    have hk : proofKeyOf p = (form.prover, f.key) := hr.proofs (_, p) (AMap.mem_of_get hp)
    exact ⟨hr.proofs.set _ _ hk, hr.providers, hr.payinfo, hr.collateral, hr.gauges, hr.attests.erase _, hr.reports⟩

theorem rest_removeProver {s : State} (f : File) (pk : PKey) (hr : Rest s) : Rest (removeProver s f pk).1 := by
  unfold removeProver
  split
  · exact ⟨hr.proofs.erase _, hr.providers, hr.payinfo, hr.collateral, hr.gauges, hr.attests, hr.reports⟩
  · exact hr

theorem rest_report {s s' : State} {c pr m o : String} {st : Int}
    (hs : report s c pr m o st = some s') (hr : Rest s) : Rest s' := by
  obtain ⟨form, hg, -, ⟨-, e⟩ | ⟨-, f, -, e⟩⟩ := report_cases hs
  · rw [e]
    have hk : formKeyOf form = (pr, (m, o, st)) := hr.reports.get hg
    exact ⟨hr.proofs, hr.providers, hr.payinfo, hr.collateral, hr.gauges, hr.attests, hr.reports.set _ _ hk⟩
  · rw [e]
    apply rest_removeProver
    exact ⟨hr.proofs, hr.providers, hr.payinfo, hr.collateral, hr.gauges, hr.attests, hr.reports.erase _⟩

/-- **every message preserves the non-index part** (the form requests read the index invariant: the
form is stored under `(prover, f.key)` for the file found under `(merkle, owner, start)`) -/
theorem rest_step (s s' : State) (h now : Int) (op : Op) (hstep : step s h now op = some s')
    (hi : IndexInv s) (hr : Rest s) : Rest s' := by
  cases op with
  | postFile c m fs mp ex pt note nv jp gid gacc => exact rest_postFile hstep hr
  | deleteFile c m st =>
    simp only [step, deleteFile, Option.some.injEq] at hstep; subst hstep
    exact rest_removeFile _ hr
  | buyStorage c fa dd b dn ref jp gid gacc => exact rest_buyStorage hstep hr
  | initProvider c ip kb ts iv => exact rest_initProvider hstep hr
  | shutdownProvider c => exact rest_shutdownProvider hstep hr
  | setProviderIP c ip iv =>
    simp only [step] at hstep
    split at hstep
    · exact rest_updProvider (fun p p' e => by simp only [Option.some.injEq] at e; subst e; rfl) hstep hr
    · simp at hstep
  | setProviderKeybase c kb =>
    exact rest_updProvider (fun p p' e => by simp only [Option.some.injEq] at e; subst e; rfl) hstep hr
  | setProviderTotalSpace c sp =>
    exact rest_updProvider (fun p p' e => by simp only [Option.some.injEq] at e; subst e; rfl) hstep hr
  | addClaimer c cl =>
    refine rest_updProvider (fun p p' e => ?_) hstep hr
    split at e
    · simp at e
    · simp only [Option.some.injEq] at e; subst e; rfl
  | removeClaimer c cl =>
    refine rest_updProvider (fun p p' e => ?_) hstep hr
    split at e
    · simp only [Option.some.injEq] at e; subst e; rfl
    · simp at e
  | postProof c m o st tp v nc =>
    simp only [step, Option.some.injEq] at hstep; subst hstep
    exact rest_postProof _ _ _ _ _ _ _ _ _ hr
  | requestAttest c m o st ec ch =>
    simp only [step, Option.some.injEq] at hstep; subst hstep
    split
    · rename_i forms hf
      exact ⟨hr.proofs, hr.providers, hr.payinfo, hr.collateral, hr.gauges, good_requestForm hi hr.attests hf, hr.reports⟩
    · exact hr
  | attest c p m o st =>
    simp only [step, Option.some.injEq] at hstep; subst hstep
    exact rest_attest _ _ _ _ _ _ _ hr
  | requestReport c p m o st ec ch =>
    simp only [step, Option.some.injEq] at hstep; subst hstep
    split
    · rename_i forms hf
      exact ⟨hr.proofs, hr.providers, hr.payinfo, hr.collateral, hr.gauges, hr.attests, good_requestForm hi hr.reports hf⟩
    · exact hr
  | report c p m o st => exact rest_report hstep hr

/-- `IndexInv` is preserved by every message (the case analysis of `C17_invariant_preserved_by_messages`,
Props/C17.lean, over the step lemmas of Proofs/StorageE.lean; property modules are not imported here) -/
theorem indexInv_step (s s' : State) (h now : Int) (op : Op)
    (hstep : step s h now op = some s') (hinv : IndexInv s) : IndexInv s' := by
  cases op with
  | postFile c m fs mp ex pt note nv jp gid gacc => exact indexInv_postFile hstep hinv
  | deleteFile c m st =>
    simp only [step, deleteFile, Option.some.injEq] at hstep; subst hstep
    exact indexInv_removeFile _ hinv
  | buyStorage c fa dd b dn ref jp gid gacc => exact hinv.ofSame (sameIdx_buyStorage hstep)
  | initProvider c ip kb ts iv => exact hinv.ofSame (sameIdx_initProvider hstep)
  | shutdownProvider c => exact hinv.ofSame (sameIdx_shutdownProvider hstep)
  | setProviderIP c ip iv =>
    simp only [step] at hstep
    split at hstep
    · exact hinv.ofSame (sameIdx_updProvider hstep)
    · simp at hstep
  | setProviderKeybase c kb => exact hinv.ofSame (sameIdx_updProvider hstep)
  | setProviderTotalSpace c sp => exact hinv.ofSame (sameIdx_updProvider hstep)
  | addClaimer c cl => exact hinv.ofSame (sameIdx_updProvider hstep)
  | removeClaimer c cl => exact hinv.ofSame (sameIdx_updProvider hstep)
  | postProof c m o st tp v nc =>
    simp only [step, Option.some.injEq] at hstep; subst hstep
    exact indexInv_postProof _ _ _ _ _ _ _ _ _ hinv
  | requestAttest c m o st ec ch =>
    simp only [step, Option.some.injEq] at hstep; subst hstep
    split
    · exact hinv.frame rfl rfl rfl
    · exact hinv
  | attest c p m o st =>
    simp only [step, Option.some.injEq] at hstep; subst hstep
    exact indexInv_attest _ _ _ _ _ _ _ hinv
  | requestReport c p m o st ec ch =>
    simp only [step, Option.some.injEq] at hstep; subst hstep
    split
    · exact hinv.frame rfl rfl rfl
    · exact hinv
  | report c p m o st => exact indexInv_report hstep hinv

/-- **`Inv` is preserved by every storage message** — no side condition on the op -/
theorem inv_step (s s' : State) (h now : Int) (op : Op) (hstep : step s h now op = some s') (hinv : Inv s) : Inv s' := by
  rw [inv_iff] at hinv ⊢
  exact ⟨indexInv_step s s' h now op hstep hinv.1, rest_step s s' h now op hstep hinv.1 hinv.2⟩

/-- … including the failing case (`stepT`: a failed message commits nothing) -/
theorem inv_stepT (s : State) (h now : Int) (op : Op) (hinv : Inv s) : Inv (stepT s h now op) := by
  unfold stepT
  cases hs : step s h now op with
  | none => exact hinv
  | some s' => exact inv_step s s' h now op hs hinv

/-! ### the reward block -/

theorem rest_burnContract {s : State} (p : String) (hr : Rest s) : Rest (burnContract s p) := by
  unfold burnContract
  split
  · exact hr
  · rename_i pr hp
    split
    · exact hr
    · exact ⟨hr.proofs, hr.providers.set _ _ (hr.providers.get hp : pr.address = p), hr.payinfo, hr.collateral, hr.gauges, hr.attests, hr.reports⟩

theorem rest_manageProof {s : State} (h : Int) (t : Tracker) (f : File) (pk : PKey) (hr : Rest s) :
    Rest (manageProof s h t f pk).1 := by
  unfold manageProof
  simp only []
  split
  · split
    · exact rest_removeProver f pk hr
    · exact hr
  · split
    · exact rest_burnContract _ (rest_removeProver f pk hr)
    · exact hr

theorem rest_manageFile {s : State} (h : Int) (t : Tracker) (f : File) (hr : Rest s) :
    Rest (manageFile s h t f).1 := by
  unfold manageFile
  simp only []
  have h1 : Rest (if (f.proofs.isEmpty && !isYoung h f.start f.proofInterval) = true
      then removeFile s f.key else s) := by
    split
    · exact rest_removeFile _ hr
    · exact hr
  exact foldl_inv (fun (acc : State × Tracker × File) => Rest acc.1)
    (fun (acc : State × Tracker × File) pk => manageProof acc.1 h acc.2.1 acc.2.2 pk)
    (fun acc pk c => rest_manageProof h acc.2.1 acc.2.2 pk c) f.proofs _ h1

theorem rest_pullGauge {s s' : State} {now : Int} {rel rel' : Coins} {g : Gauge}
    (hs : pullGauge s now rel g = .ok (s', rel')) (hr : Rest s) : Rest s' := by
  have he : Rest { s with gauges := AMap.erase s.gauges g.id } :=
    ⟨hr.proofs, hr.providers, hr.payinfo, hr.collateral, hr.gauges.erase _, hr.attests, hr.reports⟩
  unfold pullGauge at hs
  split at hs
  · simp only [Except.ok.injEq, Prod.mk.injEq] at hs; rw [← hs.1]; exact he
  split at hs
  · simp only [Except.ok.injEq, Prod.mk.injEq] at hs; rw [← hs.1]; exact he
  simp only [] at hs
  split at hs
  · simp only [Except.ok.injEq, Prod.mk.injEq] at hs; rw [← hs.1]; exact he
  split at hs
  · simp at hs
  · refine foldlM_except_inv (fun (acc : State × Coins) => Rest acc.1) _ ?_ _ _ _ hs hr
    intro acc coin acc' hf hp
    obtain ⟨st, rl⟩ := acc
    obtain ⟨dn, am⟩ := coin
    simp only [] at hf
    split at hf
    · simp at hf
    split at hf
    · simp only [Except.ok.injEq] at hf; subst hf; exact hp
    split at hf
    · simp at hf
    split at hf
    · simp only [Except.ok.injEq] at hf; subst hf; exact rest_bank _ hp
    · simp only [Except.ok.injEq] at hf; subst hf; exact hp

theorem rest_pullGauges {s s' : State} {now : Int} {rel : Coins}
    (hs : pullGauges s now = .ok (s', rel)) (hr : Rest s) : Rest s' := by
  unfold pullGauges at hs
  refine foldlM_except_inv (fun (acc : State × Coins) => Rest acc.1) _ ?_ _ _ _ hs hr
  intro acc kv acc' hf hp
  obtain ⟨s2, r2⟩ := acc'
  exact rest_pullGauge hf hp

theorem rest_payProver {s s' : State} {total : Int} {coins : Coins} {pr : String} {w : Int}
    (hs : payProver s total coins pr w = .ok s') (hr : Rest s) : Rest s' := by
  unfold payProver at hs
  split at hs
  · simp at hs
  split at hs
  · simp only [Except.ok.injEq] at hs; subst hs; exact hr
  · refine foldlM_except_inv (fun (st : State) => Rest st) _ ?_ _ _ _ hs hr
    intro st coin st' hf hp
    simp only [] at hf
    split at hf
    · simp at hf
    split at hf
    · simp only [Except.ok.injEq] at hf; subst hf; exact rest_bank _ hp
    · simp only [Except.ok.injEq] at hf; subst hf; exact hp

theorem rest_manageRewards {s s' : State} {h now : Int}
    (hs : manageRewards s h now = .ok s') (hr : Rest s) : Rest s' := by
  unfold manageRewards at hs
  simp only [bind, Except.bind] at hs
  have h1 := foldl_inv (fun (acc : State × Tracker) => Rest acc.1)
    (fun (acc : State × Tracker) (kv : FKey × File) => manageFile acc.1 h acc.2 kv.2)
    (fun acc kv c => rest_manageFile h acc.2 kv.2 c) s.files (s, []) hr
  generalize (s.files.foldl (fun (acc : State × Tracker) kv => manageFile acc.1 h acc.2 kv.2) (s, [])) = r at hs h1
  obtain ⟨s1, tr⟩ := r
  simp only [] at hs h1
  split at hs
  · simp at hs
  · rename_i v hv
    obtain ⟨s2, coins⟩ := v
    simp only [] at hs
    have h2 := rest_pullGauges hv h1
    refine foldlM_except_inv (fun (st : State) => Rest st) _ ?_ _ _ _ hs h2
    intro st pw st' hf hp
    exact rest_payProver hf hp

theorem rest_beginBlock {s s' : State} {h now : Int}
    (hs : beginBlock s h now = .ok s') (hr : Rest s) : Rest s' := by
  unfold beginBlock at hs
  split at hs
  · simp at hs
  split at hs
  · simp only [Except.ok.injEq] at hs; subst hs; exact hr
  · exact rest_manageRewards hs hr

/-- **`Inv` is preserved by the reward block** -/
theorem inv_beginBlock {s s' : State} {h now : Int} (hs : beginBlock s h now = .ok s') (hinv : Inv s) : Inv s' := by
  rw [inv_iff] at hinv ⊢
  exact ⟨indexInv_beginBlock hs hinv.1, rest_beginBlock hs hinv.2⟩

/-- **… and by a parameter change** -/
theorem inv_params {s : State} (p : Params) (hinv : Inv s) : Inv { s with params := p } := by
  rw [inv_iff] at hinv ⊢
  exact ⟨hinv.1.frame rfl rfl rfl, rest_params p hinv.2⟩

/-- the nine storage stores are empty -/
def EmptyStores (s : State) : Prop :=
  s.files = [] ∧ s.files2 = [] ∧ s.proofs = [] ∧ s.providers = [] ∧ s.payinfo = [] ∧ s.collateral = [] ∧
    s.gauges = [] ∧ s.attests = [] ∧ s.reports = []

/-- **`Inv` holds for the empty stores** -/
theorem inv_empty {s : State} (h : EmptyStores s) : Inv s := by
  obtain ⟨a, b, c, d, e, f, g, i, j⟩ := h
  rw [inv_iff]
  refine ⟨indexInv_empty ⟨a, b, c⟩, ?_⟩
  exact ⟨by rw [c]; exact Keyed.nil, by rw [d]; exact Good.nil, by rw [e]; exact Good.nil, by rw [f]; exact wf_nil',
    by rw [g]; exact Good.nil, by rw [i]; exact Good.nil, by rw [j]; exact Good.nil⟩

theorem emptyStores_blank (s : State) : EmptyStores (Canine.Genesis.Storage.blank s) :=
  ⟨rfl, rfl, rfl, rfl, rfl, rfl, rfl, rfl, rfl⟩

/-! ### histories: the events of `C17_along_histories` (`Storage.Ev`: a delivered message or a block
boundary, `applyEv`) plus parameter changes -/

inductive HEv where
  | ev (e : Ev)
  | setParams (p : Params)
  deriving Repr

def applyH (s : State) : HEv → State
  | .ev e => applyEv s e
  | .setParams p => { s with params := p }

def runH (s : State) (evs : List HEv) : State := evs.foldl applyH s

theorem inv_applyEv (s : State) (e : Ev) (hinv : Inv s) : Inv (applyEv s e) := by
  cases e with
  | msg h now op => exact inv_stepT s h now op hinv
  | block h now =>
    simp only [applyEv]
    cases hs : beginBlock s h now with
    | error e => exact hinv
    | ok s' => exact inv_beginBlock hs hinv

theorem inv_applyH (s : State) (e : HEv) (hinv : Inv s) : Inv (applyH s e) := by
  cases e with
  | ev e => exact inv_applyEv s e hinv
  | setParams p => exact inv_params p hinv

theorem inv_runH (evs : List HEv) : ∀ s : State, Inv s → Inv (runH s evs) := by
  induction evs with
  | nil => intro s h; exact h
  | cons e t ih => intro s h; exact ih _ (inv_applyH s e h)

/-! ## Part 2: `RawInv` from slash-freeness of the stored keys -/

/-- the text contains no '/' (bech32 addresses and hex strings never do) -/
def NoSlash (x : String) : Prop := '/' ∉ x.toList

instance (x : String) : Decidable (NoSlash x) := by unfold NoSlash; infer_instance

/-- merkle (hex) and owner of a file key are slash-free -/
def FKeyOK (k : FKey) : Prop := NoSlash k.1 ∧ NoSlash k.2.1
/-- prover, merkle and owner of a proof / form key are slash-free -/
def PKeyOK (pk : PKey) : Prop := NoSlash pk.1 ∧ FKeyOK pk.2

/-- every key that has a binding satisfies `P` -/
def KeysOK {K V : Type} [DecidableEq K] (P : K → Prop) (m : AMap K V) : Prop := ∀ k v, AMap.get m k = some v → P k

section KeysOK
variable {K V : Type} [DecidableEq K] {P : K → Prop} {m : AMap K V}

theorem KeysOK.nil : KeysOK P ([] : AMap K V) := fun _ _ h => by simp at h

theorem KeysOK.set (h : KeysOK P m) (k : K) (v : V) (hk : P k) : KeysOK P (AMap.set m k v) := by
  intro k2 v2 hg
  rw [AMap.get_set] at hg
  split at hg
  · rename_i e; subst e; exact hk
  · exact h k2 v2 hg

/-- overwriting an existing binding -/
theorem KeysOK.set_bound (h : KeysOK P m) {k : K} {v0 : V} (hg : AMap.get m k = some v0) (v : V) :
    KeysOK P (AMap.set m k v) := h.set k v (h k v0 hg)

theorem KeysOK.erase (h : KeysOK P m) (k : K) : KeysOK P (AMap.erase m k) := by
  intro k2 v2 hg
  rw [AMap.get_erase] at hg
  split at hg
  · simp at hg
  · exact h k2 v2 hg

theorem KeysOK.foldl_erase (h : KeysOK P m) (l : List K) : KeysOK P (l.foldl (fun m pk => AMap.erase m pk) m) := by
  intro k2 v2 hg
  rw [AMap.get_foldl_erase] at hg
  split at hg
  · simp at hg
  · exact h k2 v2 hg

/-- a key format that is injective on the keys satisfying `P` gives distinct raw keys -/
theorem rawNodup_of_inj_on {raw : K → String} (inj : ∀ a b, P a → P b → raw a = raw b → a = b)
    (hwf : AMap.WF m) (hp : KeysOK P m) : RawNodup raw m := by
  have e : m.map (fun kv => raw kv.1) = (AMap.keys m).map raw := by simp [AMap.keys, List.map_map]
  unfold RawNodup; rw [e, List.Nodup, List.pairwise_map]
  have hwf' : (AMap.keys m).Pairwise (fun a b => a ≠ b) := hwf
  refine List.Pairwise.imp_of_mem ?_ hwf'
  intro a b ha hb hne e
  obtain ⟨va, hva⟩ := AMap.get_some_of_mem_keys ha
  obtain ⟨vb, hvb⟩ := AMap.get_some_of_mem_keys hb
  exact hne (inj a b (hp a va hva) (hp b vb hvb) e)

end KeysOK

/-! ### the raw key formats are injective on slash-free keys (technique of `C17_primaryKey_injective_int`,
Props/C17.lean; copied here because property modules are not imported) -/

theorem prefix_unique : ∀ (a a' r r' : List Char), '/' ∉ a → '/' ∉ a' →
    a ++ '/' :: r = a' ++ '/' :: r' → a = a' ∧ r = r'
  | [], [], r, r', _, _, h => by simpa using h
  | [], c :: cs, r, r', _, h2, h => by
    simp at h; exact absurd h.1 (fun e => h2 (by rw [← e]; simp))
  | c :: cs, [], r, r', h1, _, h => by
    simp at h; exact absurd h.1 (fun e => h1 (by rw [e]; simp))
  | c :: cs, c' :: cs', r, r', h1, h2, h => by
    simp only [List.cons_append, List.cons.injEq] at h
    have := prefix_unique cs cs' r r' (fun e => h1 (by simp [e])) (fun e => h2 (by simp [e])) h.2
    exact ⟨by rw [h.1, this.1], this.2⟩

/-- `%d` of an `int64` on character lists -/
def decChars : Int → List Char
  | .ofNat n => Nat.toDigits 10 n
  | .negSucc n => '-' :: Nat.toDigits 10 (n + 1)

theorem decChars_eq_toString (i : Int) : (toString i).toList = decChars i := by
  cases i with
  | ofNat n => simp [decChars, toString, Int.repr, Nat.toList_repr]
  | negSucc n => simp [decChars, toString, Int.repr, Nat.toList_repr]

theorem toDigits_inj {a b : Nat} (h : Nat.toDigits 10 a = Nat.toDigits 10 b) : a = b := by
  have := congrArg (fun l => Nat.ofDigitChars 10 l 0) h
  simpa [Nat.ofDigitChars_ten_toDigits] using this

theorem decChars_inj {i j : Int} (h : decChars i = decChars j) : i = j := by
  have minus : ∀ (a b : Nat), '-' :: Nat.toDigits 10 a ≠ Nat.toDigits 10 b := by
    intro a b e
    have hm : '-' ∈ Nat.toDigits 10 b := by rw [← e]; simp
    exact absurd (Nat.isDigit_of_mem_toDigits (by decide) (by decide) hm) (by decide)
  cases i with
  | ofNat a =>
    cases j with
    | ofNat b => simp only [decChars] at h; rw [toDigits_inj h]
    | negSucc b => simp only [decChars] at h; exact absurd h.symm (minus _ _)
  | negSucc a =>
    cases j with
    | ofNat b => simp only [decChars] at h; exact absurd h (minus _ _)
    | negSucc b =>
      simp only [decChars, List.cons.injEq, true_and] at h
      have := toDigits_inj h
      rw [show a = b by omega]

theorem toString_int_inj {i j : Int} (h : (toString i).toList = (toString j).toList) : i = j := by
  rw [decChars_eq_toString, decChars_eq_toString] at h; exact decChars_inj h

/-- "%x/%s/%d/" -/
theorem fileKeyStr_inj (a b : FKey) (ha : FKeyOK a) (hb : FKeyOK b) (h : Query.fileKeyStr a = Query.fileKeyStr b) : a = b := by
  obtain ⟨m, o, st⟩ := a
  obtain ⟨m', o', st'⟩ := b
  have h' := congrArg String.toList h
  simp only [Query.fileKeyStr, String.toList_append, List.append_assoc] at h'
  obtain ⟨e1, h1⟩ := prefix_unique _ _ _ _ ha.1 hb.1 h'
  obtain ⟨e2, h2⟩ := prefix_unique _ _ _ _ ha.2 hb.2 h1
  have e3 := toString_int_inj (List.append_cancel_right h2)
  have e1' : m = m' := String.ext e1
  have e2' : o = o' := String.ext e2
  subst e1' e2' e3; rfl

/-- "%s/%x/%d/" -/
theorem fileKey2Str_inj (a b : FKey) (ha : FKeyOK a) (hb : FKeyOK b) (h : Query.fileKey2Str a = Query.fileKey2Str b) : a = b := by
  obtain ⟨m, o, st⟩ := a
  obtain ⟨m', o', st'⟩ := b
  have h' := congrArg String.toList h
  simp only [Query.fileKey2Str, String.toList_append, List.append_assoc] at h'
  obtain ⟨e1, h1⟩ := prefix_unique _ _ _ _ ha.2 hb.2 h'
  obtain ⟨e2, h2⟩ := prefix_unique _ _ _ _ ha.1 hb.1 h1
  have e3 := toString_int_inj (List.append_cancel_right h2)
  have e1' : o = o' := String.ext e1
  have e2' : m = m' := String.ext e2
  subst e1' e2' e3; rfl

/-- "%s/%s/%x/%d/" (prover, owner, merkle, start) -/
theorem proofKeyStr_inj (a b : PKey) (ha : PKeyOK a) (hb : PKeyOK b) (h : Query.proofKeyStr a = Query.proofKeyStr b) : a = b := by
  obtain ⟨p, m, o, st⟩ := a
  obtain ⟨p', m', o', st'⟩ := b
  have h' := congrArg String.toList h
  simp only [Query.proofKeyStr, String.toList_append, List.append_assoc] at h'
  obtain ⟨e0, h0⟩ := prefix_unique _ _ _ _ ha.1 hb.1 h'
  obtain ⟨e1, h1⟩ := prefix_unique _ _ _ _ ha.2.2 hb.2.2 h0
  obtain ⟨e2, h2⟩ := prefix_unique _ _ _ _ ha.2.1 hb.2.1 h1
  have e3 := toString_int_inj (List.append_cancel_right h2)
  have e0' : p = p' := String.ext e0
  have e1' : o = o' := String.ext e1
  have e2' : m = m' := String.ext e2
  subst e0' e1' e2' e3; rfl

/-- the form keys (prover, merkle, owner, start; no trailing separator) -/
theorem formKeyStr_inj (a b : PKey) (ha : PKeyOK a) (hb : PKeyOK b) (h : Query.formKeyStr a = Query.formKeyStr b) : a = b := by
  obtain ⟨p, m, o, st⟩ := a
  obtain ⟨p', m', o', st'⟩ := b
  have h' := congrArg String.toList h
  simp only [Query.formKeyStr, String.toList_append, List.append_assoc] at h'
  obtain ⟨e0, h0⟩ := prefix_unique _ _ _ _ ha.1 hb.1 h'
  obtain ⟨e1, h1⟩ := prefix_unique _ _ _ _ ha.2.1 hb.2.1 h0
  obtain ⟨e2, h2⟩ := prefix_unique _ _ _ _ ha.2.2 hb.2.2 h1
  have e3 := toString_int_inj h2
  have e0' : p = p' := String.ext e0
  have e1' : m = m' := String.ext e1
  have e2' : o = o' := String.ext e2
  subst e0' e1' e2' e3; rfl

/-- **slash-freeness of the stored keys**: the string components (merkle, owner, prover) of every key
of the two file indexes, the proof store and the two form stores contain no '/' -/
structure SlashFree (s : State) : Prop where
  files : KeysOK FKeyOK s.files
  files2 : KeysOK FKeyOK s.files2
  proofs : KeysOK PKeyOK s.proofs
  attests : KeysOK PKeyOK s.attests
  reports : KeysOK PKeyOK s.reports

/-- **`SlashFree s → Inv s → RawInv s`** -/
theorem rawInv_of_slashFree {s : State} (hsf : SlashFree s) (h : Inv s) : RawInv s :=
  ⟨rawNodup_of_inj_on fileKeyStr_inj h.idx.wfFiles hsf.files,
   rawNodup_of_inj_on fileKey2Str_inj h.idx.wfFiles2 hsf.files2,
   rawNodup_of_inj_on proofKeyStr_inj h.idx.wfProofs hsf.proofs,
   rawNodup_of_inj_on formKeyStr_inj h.wfAttests hsf.attests,
   rawNodup_of_inj_on formKeyStr_inj h.wfReports hsf.reports⟩

/-! ### `SlashFree` along histories -/

theorem SlashFree.frame {s s' : State} (h : SlashFree s) (e1 : s'.files = s.files) (e2 : s'.files2 = s.files2)
    (e3 : s'.proofs = s.proofs) (e4 : s'.attests = s.attests) (e5 : s'.reports = s.reports) : SlashFree s' := by
  obtain ⟨a, b, c, d, e⟩ := h
  exact ⟨by rw [e1]; exact a, by rw [e2]; exact b, by rw [e3]; exact c, by rw [e4]; exact d, by rw [e5]; exact e⟩

theorem SlashFree.ofSame {s s' : State} (h : SlashFree s) (e : SameIdx s s') : SlashFree s' :=
  h.frame e.files e.files2 e.proofs e.attests e.reports

theorem slashFree_empty {s : State} (h : EmptyStores s) : SlashFree s := by
  obtain ⟨a, b, c, -, -, -, -, i, j⟩ := h
  exact ⟨by rw [a]; exact KeysOK.nil, by rw [b]; exact KeysOK.nil, by rw [c]; exact KeysOK.nil,
    by rw [i]; exact KeysOK.nil, by rw [j]; exact KeysOK.nil⟩

theorem slashFree_removeFile {s : State} (k : FKey) (h : SlashFree s) : SlashFree (removeFile s k) := by
  unfold removeFile
  split
  · exact h
  · exact ⟨h.files.erase _, h.files2.erase _, h.proofs.foldl_erase _, h.attests, h.reports⟩

theorem slashFree_setFile {s : State} (f : File) (hk : FKeyOK f.key) (h : SlashFree s) : SlashFree (setFile s f) :=
  ⟨h.files.set _ _ hk, h.files2.set _ _ hk, h.proofs, h.attests, h.reports⟩

theorem slashFree_postFile {s s' : State} {h now : Int} {c m : String} {fs mp ex pt : Int} {note : String}
    {nv : Bool} {jp : Dec} {gid gacc : String}
    (hs : postFile s h now c m fs mp ex pt note nv jp gid gacc = some s') (hc : NoSlash c) (hm : NoSlash m)
    (hsf : SlashFree s) : SlashFree s' := by
  simp only [postFile, bind, Option.bind_eq_some_iff, req_eq_some] at hs
  obtain ⟨_, -, _, -, hs⟩ := hs
  have h1 : SlashFree (setFile (removeFile s (m, c, h))
      { merkle := m, owner := c, start := h, expires := ex, fileSize := fs,
        proofInterval := s.params.proofWindow, proofType := pt, proofs := [], maxProofs := mp, note := note }) :=
    slashFree_setFile _ ⟨hm, hc⟩ (slashFree_removeFile _ hsf)
  split at hs
  · simp only [Option.bind_eq_some_iff, req_eq_some] at hs
    obtain ⟨_, -, cost, -, _, -, spc, -, toPay, -, b1, -, b2, -, hs⟩ := hs
    simp only [Option.some.injEq] at hs; subst hs
    exact h1.frame rfl rfl rfl rfl rfl
  · simp only [Option.bind_eq_some_iff, req_eq_some] at hs
    obtain ⟨pi, -, _, -, _, -, hs⟩ := hs
    simp only [Option.some.injEq] at hs; subst hs
    exact h1.frame rfl rfl rfl rfl rfl

theorem slashFree_postProof (s : State) (h : Int) (c m o : String) (st tp : Int) (v : Bool) (nc : Int)
    (hc : NoSlash c) (hi : IndexInv s) (hsf : SlashFree s) : SlashFree (postProof s h c m o st tp v nc).state := by
  rcases postProof_cases s h c m o st tp v nc with e | ⟨f, p, x, hf, hl, hp, e⟩ | ⟨f, x, hf, hl, hlen, e⟩
  · rw [e]; exact hsf
  · rw [e]; exact ⟨hsf.files, hsf.files2, hsf.proofs.set_bound hp _, hsf.attests, hsf.reports⟩
  · rw [e]
    have hk : FKeyOK f.key := by rw [(hi.ok _ _ hf).1]; exact hsf.files _ _ hf
    exact ⟨hsf.files.set _ _ hk, hsf.files2.set _ _ hk, hsf.proofs.set _ _ ⟨hc, hk⟩, hsf.attests, hsf.reports⟩

/-- a form is requested for a prover that has a proof record: the new form key is a key of the proof store -/
theorem keysOK_requestForm {forms forms' : AMap PKey Form} {s : State} {pr m o : String} {st ec : Int} {ch : List String}
    (hp : KeysOK PKeyOK s.proofs) (hg : KeysOK PKeyOK forms) (hs : requestForm forms s pr m o st ec ch = some forms') :
    KeysOK PKeyOK forms' := by
  simp only [requestForm, bind, Option.bind_eq_some_iff, req_eq_some] at hs
  obtain ⟨f, hf, _, ⟨-, hsome⟩, _, -, _, -, _, -, _, -, hs⟩ := hs
  simp only [Option.some.injEq] at hs; subst hs
  cases hq : AMap.get s.proofs (pr, f.key) with
  | none => rw [hq] at hsome; simp at hsome
  | some q => exact hg.set _ _ (hp _ _ hq)

theorem slashFree_attest (s : State) (h : Int) (c pr m o : String) (st : Int) (hsf : SlashFree s) :
    SlashFree (attest s h c pr m o st) := by
  rcases attest_cases s h c pr m o st with ⟨e, -⟩ | ⟨form, hg, -, -, e⟩ | ⟨form, f, p, -, -, -, -, -, hp, e⟩
  · rw [e]; exact hsf
  · rw [e]; exact ⟨hsf.files, hsf.files2, hsf.proofs, hsf.attests.set_bound hg _, hsf.reports⟩
  · rw [e]; exact ⟨hsf.files, hsf.files2, hsf.proofs.set_bound hp _, hsf.attests.erase _, hsf.reports⟩

theorem slashFree_removeProver {s : State} (f : File) (pk : PKey) (hk : FKeyOK f.key) (hsf : SlashFree s) :
    SlashFree (removeProver s f pk).1 := by
  unfold removeProver
  split
  · exact ⟨hsf.files.set _ _ hk, hsf.files2.set _ _ hk, hsf.proofs.erase _, hsf.attests, hsf.reports⟩
  · exact hsf

theorem removeProver_key (s : State) (f : File) (pk : PKey) : (removeProver s f pk).2.key = f.key := by
  unfold removeProver; split <;> rfl

theorem slashFree_report {s s' : State} {c pr m o : String} {st : Int}
    (hs : report s c pr m o st = some s') (hi : IndexInv s) (hsf : SlashFree s) : SlashFree s' := by
  obtain ⟨form, hg, -, ⟨-, e⟩ | ⟨-, f, hf, e⟩⟩ := report_cases hs
  · rw [e]; exact ⟨hsf.files, hsf.files2, hsf.proofs, hsf.attests, hsf.reports.set_bound hg _⟩
  · rw [e]
    have hk : FKeyOK f.key := by rw [(hi.ok _ _ hf).1]; exact hsf.files _ _ hf
    apply slashFree_removeProver _ _ hk
    exact ⟨hsf.files, hsf.files2, hsf.proofs, hsf.attests, hsf.reports.erase _⟩

/-- the strings of an op that become components of a *new* stored key are slash-free: the creator
and the merkle (hex) of `MsgPostFile`, the creator of `MsgPostProof` (`ValidateBasic` of every storage
message checks the creator with `AccAddressFromBech32`; the merkle root is rendered with `%x`).  Every
other key a message writes already is a key of some store (a form is requested for a prover with a
proof record; `attest`, `report` rewrite existing forms) -/
def OpSlashFree : Op → Prop
  | .postFile c m .. => NoSlash c ∧ NoSlash m
  | .postProof c .. => NoSlash c
  | _ => True

instance : DecidablePred OpSlashFree := by
  intro op; cases op <;> unfold OpSlashFree <;> infer_instance

/-- **every message with slash-free strings preserves `SlashFree`** (on states satisfying the index invariant) -/
theorem slashFree_step (s s' : State) (h now : Int) (op : Op) (hstep : step s h now op = some s')
    (hop : OpSlashFree op) (hi : IndexInv s) (hsf : SlashFree s) : SlashFree s' := by
  cases op with
  | postFile c m fs mp ex pt note nv jp gid gacc => exact slashFree_postFile hstep hop.1 hop.2 hsf
  | deleteFile c m st =>
    simp only [step, deleteFile, Option.some.injEq] at hstep; subst hstep
    exact slashFree_removeFile _ hsf
  | buyStorage c fa dd b dn ref jp gid gacc => exact hsf.ofSame (sameIdx_buyStorage hstep)
  | initProvider c ip kb ts iv => exact hsf.ofSame (sameIdx_initProvider hstep)
  | shutdownProvider c => exact hsf.ofSame (sameIdx_shutdownProvider hstep)
  | setProviderIP c ip iv =>
    simp only [step] at hstep
    split at hstep
    · exact hsf.ofSame (sameIdx_updProvider hstep)
    · simp at hstep
  | setProviderKeybase c kb => exact hsf.ofSame (sameIdx_updProvider hstep)
  | setProviderTotalSpace c sp => exact hsf.ofSame (sameIdx_updProvider hstep)
  | addClaimer c cl => exact hsf.ofSame (sameIdx_updProvider hstep)
  | removeClaimer c cl => exact hsf.ofSame (sameIdx_updProvider hstep)
  | postProof c m o st tp v nc =>
    simp only [step, Option.some.injEq] at hstep; subst hstep
    exact slashFree_postProof _ _ _ _ _ _ _ _ _ hop hi hsf
  | requestAttest c m o st ec ch =>
    simp only [step, Option.some.injEq] at hstep; subst hstep
    split
    · rename_i forms hf
      exact ⟨hsf.files, hsf.files2, hsf.proofs, keysOK_requestForm hsf.proofs hsf.attests hf, hsf.reports⟩
    · exact hsf
  | attest c p m o st =>
    simp only [step, Option.some.injEq] at hstep; subst hstep
    exact slashFree_attest _ _ _ _ _ _ _ hsf
  | requestReport c p m o st ec ch =>
    simp only [step, Option.some.injEq] at hstep; subst hstep
    split
    · rename_i forms hf
      exact ⟨hsf.files, hsf.files2, hsf.proofs, hsf.attests, keysOK_requestForm hsf.proofs hsf.reports hf⟩
    · exact hsf
  | report c p m o st => exact slashFree_report hstep hi hsf

/-! #### the reward block writes no new key -/

theorem foldl_inv_mem {α β : Type} (P : β → Prop) (f : β → α → β) :
    ∀ (l : List α), (∀ b a, a ∈ l → P b → P (f b a)) → ∀ b, P b → P (l.foldl f b) := by
  intro l
  induction l with
  | nil => intro _ b hp; exact hp
  | cons a t ih =>
    intro hf b hp
    exact ih (fun b' a' ha' => hf b' a' (List.mem_cons_of_mem _ ha')) _ (hf b a (List.mem_cons_self) hp)

theorem slashFree_manageProof {s : State} (h : Int) (t : Tracker) (f : File) (pk : PKey)
    (hc : SlashFree s ∧ FKeyOK f.key) :
    SlashFree (manageProof s h t f pk).1 ∧ FKeyOK (manageProof s h t f pk).2.2.key := by
  obtain ⟨hsf, hk⟩ := hc
  unfold manageProof
  simp only []
  split
  · split
    · exact ⟨slashFree_removeProver f pk hk hsf, by rw [removeProver_key]; exact hk⟩
    · exact ⟨hsf, hk⟩
  · split
    · exact ⟨(slashFree_removeProver f pk hk hsf).ofSame (sameIdx_burnContract _ _), by rw [removeProver_key]; exact hk⟩
    · exact ⟨hsf, hk⟩

theorem slashFree_manageFile {s : State} (h : Int) (t : Tracker) (f : File) (hk : FKeyOK f.key) (hsf : SlashFree s) :
    SlashFree (manageFile s h t f).1 := by
  unfold manageFile
  simp only []
  have h1 : SlashFree (if (f.proofs.isEmpty && !isYoung h f.start f.proofInterval) = true
      then removeFile s f.key else s) := by
    split
    · exact slashFree_removeFile _ hsf
    · exact hsf
  exact (foldl_inv (fun (acc : State × Tracker × File) => SlashFree acc.1 ∧ FKeyOK acc.2.2.key)
    (fun (acc : State × Tracker × File) pk => manageProof acc.1 h acc.2.1 acc.2.2 pk)
    (fun acc pk c => slashFree_manageProof h acc.2.1 acc.2.2 pk c) f.proofs _ ⟨h1, hk⟩).1

theorem slashFree_manageRewards {s s' : State} {h now : Int}
    (hs : manageRewards s h now = .ok s') (hi : IndexInv s) (hsf : SlashFree s) : SlashFree s' := by
  unfold manageRewards at hs
  simp only [bind, Except.bind] at hs
  have h1 := foldl_inv_mem (fun (acc : State × Tracker) => SlashFree acc.1)
    (fun (acc : State × Tracker) (kv : FKey × File) => manageFile acc.1 h acc.2 kv.2) s.files
    (fun acc kv hm c => by
      have hg := AMap.get_of_mem_wf hi.wfFiles hm
      have hk : FKeyOK kv.2.key := by rw [(hi.ok _ _ hg).1]; exact hsf.files _ _ hg
      exact slashFree_manageFile h acc.2 kv.2 hk c) (s, []) hsf
  generalize (s.files.foldl (fun (acc : State × Tracker) kv => manageFile acc.1 h acc.2 kv.2) (s, [])) = r at hs h1
  obtain ⟨s1, tr⟩ := r
  simp only [] at hs h1
  split at hs
  · simp at hs
  · rename_i v hv
    obtain ⟨s2, coins⟩ := v
    simp only [] at hs
    have h2 := h1.ofSame (sameIdx_pullGauges hv)
    refine foldlM_except_inv (fun (st : State) => SlashFree st) _ ?_ _ _ _ hs h2
    intro st pw st' hf hp
    exact hp.ofSame (sameIdx_payProver hf)

theorem slashFree_beginBlock {s s' : State} {h now : Int}
    (hs : beginBlock s h now = .ok s') (hi : IndexInv s) (hsf : SlashFree s) : SlashFree s' := by
  unfold beginBlock at hs
  split at hs
  · simp at hs
  split at hs
  · simp only [Except.ok.injEq] at hs; subst hs; exact hsf
  · exact slashFree_manageRewards hs hi hsf

/-- the ops of a history are slash-free -/
def HEvSlashFree : HEv → Prop
  | .ev (.msg _ _ op) => OpSlashFree op
  | _ => True

instance : DecidablePred HEvSlashFree := by
  intro e
  cases e with
  | ev e => cases e <;> unfold HEvSlashFree <;> infer_instance
  | setParams p => unfold HEvSlashFree; infer_instance

theorem both_applyH (s : State) (e : HEv) (he : HEvSlashFree e) (h : Inv s ∧ SlashFree s) :
    Inv (applyH s e) ∧ SlashFree (applyH s e) := by
  refine ⟨inv_applyH s e h.1, ?_⟩
  obtain ⟨hinv, hsf⟩ := h
  cases e with
  | ev e =>
    cases e with
    | msg ht now op =>
      simp only [applyH, applyEv]
      cases hs : step s ht now op with
      | none => exact hsf
      | some s' => exact slashFree_step s s' ht now op hs he hinv.idx hsf
    | block ht now =>
      simp only [applyH, applyEv]
      cases hs : beginBlock s ht now with
      | error e => exact hsf
      | ok s' => exact slashFree_beginBlock hs hinv.idx hsf
  | setParams p => exact hsf.frame rfl rfl rfl rfl rfl

theorem both_runH (evs : List HEv) : ∀ s : State, (∀ e ∈ evs, HEvSlashFree e) → Inv s ∧ SlashFree s →
    Inv (runH s evs) ∧ SlashFree (runH s evs) := by
  induction evs with
  | nil => intro s _ h; exact h
  | cons e t ih =>
    intro s he h
    exact ih _ (fun e' he' => he e' (List.mem_cons_of_mem _ he')) (both_applyH s e (he e List.mem_cons_self) h)

end Canine.Genesis.SI
