/-
Gauge exactness for C12, part 2: the reward block.

`pullGauge` at block time `now` on a gauge that is on schedule (`GaugeInv`) leaves it with
`A − bal = trunc(would(now))` exactly — whatever the balance was before: the amount it computes is
`trunc(would − (A − bal))`, and `(A − bal)` is a whole number of base units.  A gauge past its end, or
with an empty escrow account, is removed without any transfer.  The other gauges' pulls move coins
from their own escrow accounts to the module account only.  The payouts credit the tracker's provers;
`BlockNoCredit` says none of them is the escrow account of a stored gauge.
-/
import Canine.Proofs.GaugeExactDef
namespace Canine.Storage
open Bank GI

theorem not_mem_erase_self {K V : Type} [DecidableEq K] (m : AMap K V) (k : K) (v : V) : (k, v) ∉ AMap.erase m k := by
  induction m with
  | nil => simp [AMap.erase]
  | cons q t ih =>
    obtain ⟨k', v'⟩ := q
    by_cases h1 : k' = k
    · simp only [AMap.erase, h1, if_true]; exact ih
    · simp only [AMap.erase, h1, if_false, List.mem_cons, not_or]
      exact ⟨fun e => h1 (by cases e; rfl), ih⟩

theorem send_single_some {b : Bank} {src dst d : String} {x : Int} (h0 : 0 < x) (h1 : x ≤ bal b src d) :
    ∃ b', send b src dst [(d, x)] = some b' := by
  simp only [send, sendCoin]
  rw [if_neg (by omega), if_neg (by omega)]
  exact ⟨_, rfl⟩

/-- what pulling one stored gauge does -/
structure PullFx (st st' : State) (now : Int) (kv : String × Gauge) : Prop where
  gauges : st'.gauges = st.gauges ∨ st'.gauges = AMap.erase st.gauges kv.1
  macc : st'.moduleAcc = st.moduleAcc
  /-- only this gauge's escrow account and the module account are touched -/
  other : ∀ a, a ≠ kv.2.account → a ≠ st.moduleAcc → ∀ d, bal st'.bank a d = bal st.bank a d
  /-- a gauge past its end is removed and nothing is transferred -/
  dead : kv.2.endT < now → st'.bank = st.bank ∧ st'.gauges = AMap.erase st.gauges kv.1
  nocoins : kv.2.coins = [] → st'.bank = st.bank
  /-- if the gauge is still stored it has not ended and is exactly on schedule at `now` -/
  self : kv ∈ st'.gauges → now ≤ kv.2.endT ∧ ExactAt st'.bank now kv.2

theorem pullGauge_fx {E : EscrowScheme} {st st' : State} {now : Int} {rel rel' : Coins} {kv : String × Gauge}
    (hinv : GaugeInv E st now) (hkv : kv ∈ st.gauges)
    (h : pullGauge st now rel kv.2 = .ok (st', rel')) : PullFx st st' now kv := by
  have hid := (hinv.ids kv hkv).1
  have hok := hinv.ok kv hkv
  have hne := hinv.accNe kv hkv
  obtain ⟨k, g⟩ := kv
  simp only at h hid hok hne
  have dead : pullGauge st now rel g = .ok ({ st with gauges := AMap.erase st.gauges g.id }, rel) →
      PullFx st st' now (k, g) := by
    intro e
    rw [e] at h
    simp only [Except.ok.injEq, Prod.mk.injEq] at h
    obtain ⟨h, _⟩ := h; subst h
    refine ⟨Or.inr (by rw [hid]), rfl, fun _ _ _ _ => rfl, fun _ => ⟨rfl, by rw [hid]⟩, fun _ => rfl, fun hm => ?_⟩
    simp only [hid] at hm
    exact absurd hm (not_mem_erase_self _ _ _)
  by_cases h1 : g.endT < now
  · apply dead; unfold pullGauge; simp only [h1, if_true]
  by_cases h2 : g.endT ≤ g.startT
  · apply dead; unfold pullGauge; simp only [h1, h2, if_true, if_false]
  cases h3 : acctEmpty st.bank g.account with
  | true =>
    apply dead
    unfold acctEmpty at h3
    unfold pullGauge; simp only [h1, h2, if_false, h3, if_true]
  | false =>
    have hl : Live g.startT g.endT now := ⟨hok.started, by omega, hok.long⟩
    obtain ⟨q, hq, hr⟩ := quo_ratioAt g.startT g.endT now (by have := hl.us.2.2; omega)
    rw [pullGauge_live (by omega) (by omega) h3 hq, hr] at h
    -- the state is unchanged: fine as soon as the gauge is exact at `now` against the old ledger
    have same : st' = st → ExactAt st.bank now g → PullFx st st' now (k, g) := by
      intro e hx
      subst e
      exact ⟨Or.inl rfl, rfl, fun _ _ _ _ => rfl, fun hd => absurd hd h1, fun _ => rfl, fun _ => ⟨Int.not_lt.mp h1, hx⟩⟩
    rcases hok.coins with e | ⟨A, hA, e⟩
    · rw [e] at h
      simp only [List.foldlM_nil, pure, Except.pure, Except.ok.injEq, Prod.mk.injEq] at h
      obtain ⟨h, _⟩ := h
      apply same h.symm
      intro c hc
      have hc' : c ∈ g.coins := hc
      rw [e] at hc'; simp at hc'
    · rw [e] at h
      simp only [List.foldlM_cons, List.foldlM_nil, bind, Except.bind] at h
      have hs := hok.sched (by omega) ("ujkl", A) (by rw [e]; simp)
      simp only [ofInt_raw] at hs
      have hw := would_range hl hA
      obtain ⟨a0, a1, _⟩ := amt_on_schedule hw.2 hs
      have hrel := released_after_pull hs hw.1
      cases hcs : coinStep g (ratioAt g.startT g.endT now) (st, rel) ("ujkl", A) with
      | error _ => rw [hcs] at h; simp at h
      | ok v =>
        rw [hcs] at h
        simp only [pure, Except.pure, Except.ok.injEq] at h
        subst h
        unfold coinStep at hcs
        simp only [gaugeAmt_eq] at hcs
        split at hcs
        · simp at hcs
        split at hcs
        · rename_i hz
          simp only [Except.ok.injEq, Prod.mk.injEq] at hcs
          obtain ⟨hcs, _⟩ := hcs
          apply same hcs.symm
          intro c hc
          have hc' : c ∈ g.coins := hc
          rw [e, List.mem_singleton] at hc'
          subst hc'
          show A - bal st.bank g.account "ujkl" = Dec.trunc (would g.startT g.endT now A)
          rw [trunc_eq, ← hrel, hz]; omega
        split at hcs
        · simp at hcs
        rename_i hnz hnn
        split at hcs
        · rename_i b hsend
          simp only [Except.ok.injEq, Prod.mk.injEq] at hcs
          obtain ⟨hcs, _⟩ := hcs; subst hcs
          have hb := bal_send hsend g.account "ujkl"
          simp only [amt_single, if_true, Ne.symm hne.1, if_false] at hb
          refine ⟨Or.inl rfl, rfl, fun a x1 x2 d => bal_send_other hsend (Ne.symm x1) (Ne.symm x2) d,
            fun hd => absurd hd h1, fun hc => by rw [e] at hc; simp at hc, fun _ => ⟨Int.not_lt.mp h1, ?_⟩⟩
          intro c hc
          have hc' : c ∈ g.coins := hc
          rw [e, List.mem_singleton] at hc'
          subst hc'
          show A - bal b g.account "ujkl" = Dec.trunc (would g.startT g.endT now A)
          rw [hb, trunc_eq, ← hrel]; omega
        · rename_i hsend
          exfalso
          obtain ⟨b', hb'⟩ := send_single_some (b := st.bank) (src := g.account) (dst := st.moduleAcc) (d := "ujkl")
            (x := tdiv ((would g.startT g.endT now A).raw - (A - bal st.bank g.account "ujkl") * precision) precision)
            (by omega) a1
          rw [hb'] at hsend
          simp at hsend

/-- the loop of `pullTokensFromGauges` over (a suffix of) the gauge store: afterwards every stored
gauge has not ended and is exactly on schedule at the block time; accounts of gauges that ended
or record nothing, and every account that is neither a pulled escrow account nor the module account,
keep their balances -/
theorem pullGauges_fold_fx {E : EscrowScheme} {now : Int} :
    ∀ (l : List (String × Gauge)) (st : State) (rel : Coins) (st' : State) (rel' : Coins),
      GaugeInv E st now → (l.map (·.1)).Nodup → (∀ kv ∈ l, kv ∈ st.gauges) →
      (∀ kv ∈ st.gauges, kv ∉ l → now ≤ kv.2.endT ∧ ExactAt st.bank now kv.2) →
      l.foldlM (fun (acc : State × Coins) kv => pullGauge acc.1 now acc.2 kv.2) (st, rel) = .ok (st', rel') →
      GaugeInv E st' now ∧ st'.moduleAcc = st.moduleAcc ∧ (∀ kv ∈ st'.gauges, kv ∈ st.gauges) ∧
      (∀ kv ∈ st'.gauges, now ≤ kv.2.endT ∧ ExactAt st'.bank now kv.2) ∧
      (∀ a, a ≠ st.moduleAcc → (∀ kv ∈ l, kv.2.account = a → kv.2.endT < now ∨ kv.2.coins = []) →
        ∀ d, bal st'.bank a d = bal st.bank a d)
  | [], st, rel, st', rel', hinv, _, _, hdone, h => by
    simp only [List.foldlM_nil, pure, Except.pure, Except.ok.injEq, Prod.mk.injEq] at h
    obtain ⟨h, _⟩ := h; subst h
    exact ⟨hinv, rfl, fun _ hkv => hkv, fun kv hkv => hdone kv hkv (by simp), fun _ _ _ _ => rfl⟩
  | kv :: l, st, rel, st', rel', hinv, hnd, hmem, hdone, h => by
    simp only [List.foldlM_cons, bind, Except.bind] at h
    cases hp : pullGauge st now rel kv.2 with
    | error _ => rw [hp] at h; simp at h
    | ok v =>
      obtain ⟨st1, rel1⟩ := v
      rw [hp] at h
      simp only at h
      have hkv := hmem kv (by simp)
      obtain ⟨hinv1, hg⟩ := pullGauge_inv hinv hkv hp
      have fx := pullGauge_fx hinv hkv hp
      simp only [List.map_cons, List.nodup_cons] at hnd
      have hsub : ∀ kv' ∈ st1.gauges, kv' ∈ st.gauges := by
        intro kv' hkv'
        rcases hg with e | e
        · rw [e] at hkv'; exact hkv'
        · rw [e] at hkv'; exact AMap.mem_of_mem_erase hkv'
      have hmem1 : ∀ kv' ∈ l, kv' ∈ st1.gauges := by
        intro kv' hkv'
        have hm := hmem kv' (List.mem_cons_of_mem _ hkv')
        rcases hg with e | e
        · rw [e]; exact hm
        · rw [e]
          apply mem_erase_of_ne hm
          intro ek
          apply hnd.1
          rw [← ek]
          exact List.mem_map_of_mem hkv'
      have hdone1 : ∀ kv' ∈ st1.gauges, kv' ∉ l → now ≤ kv'.2.endT ∧ ExactAt st1.bank now kv'.2 := by
        intro kv' hkv' hnl
        by_cases ek : kv' = kv
        · subst ek; exact fx.self hkv'
        · have hm := hsub kv' hkv'
          obtain ⟨d1, d2⟩ := hdone kv' hm (by simp only [List.mem_cons, not_or]; exact ⟨ek, hnl⟩)
          refine ⟨d1, fun c hc => ?_⟩
          rw [fx.other _ (fun ha => ek (hinv.same_acc hm hkv ha)) (hinv.accNe kv' hm).1]
          exact d2 c hc
      obtain ⟨i1, i2, i3, i4, i5⟩ := pullGauges_fold_fx l st1 rel1 st' rel' hinv1 hnd.2 hmem1 hdone1 h
      refine ⟨i1, i2.trans fx.macc, fun kv' hkv' => hsub kv' (i3 kv' hkv'), i4, ?_⟩
      intro a ha hcond d
      rw [i5 a (by rw [fx.macc]; exact ha) (fun kv' hkv' => hcond kv' (List.mem_cons_of_mem _ hkv')) d]
      by_cases ea : kv.2.account = a
      · rcases hcond kv (by simp) ea with hd | hc
        · rw [(fx.dead hd).1]
        · rw [fx.nocoins hc]
      · exact fx.other a (Ne.symm ea) ha d

theorem pullGauges_fx {E : EscrowScheme} {s s' : State} {now : Int} {rel : Coins} (hinv : GaugeInv E s now)
    (h : pullGauges s now = .ok (s', rel)) :
    GaugeInv E s' now ∧ s'.moduleAcc = s.moduleAcc ∧ (∀ kv ∈ s'.gauges, kv ∈ s.gauges) ∧
    (∀ kv ∈ s'.gauges, now ≤ kv.2.endT ∧ ExactAt s'.bank now kv.2) ∧
    (∀ kv ∈ s.gauges, (kv.2.endT < now ∨ kv.2.coins = []) → ∀ d, bal s'.bank kv.2.account d = bal s.bank kv.2.account d) := by
  obtain ⟨i1, i2, i3, i4, i5⟩ :=
    pullGauges_fold_fx s.gauges s [] s' rel hinv hinv.wf (fun _ hkv => hkv) (fun kv hkv hn => absurd hkv hn) h
  refine ⟨i1, i2, i3, i4, fun kv hkv hc d => i5 _ (hinv.accNe kv hkv).1 ?_ d⟩
  intro kv' hkv' ha
  have := hinv.same_acc hkv' hkv ha
  subst this; exact hc

/-! ## the payouts -/

/-- invariants of a fold in `Except`, with access to list membership (copy of
`foldlM_except_inv_mem` of Proofs/StorageA.lean, which is not in this import family) -/
theorem foldlM_except_inv_memX {α β ε : Type} (P : β → Prop) (f : β → α → Except ε β)
    (l : List α) (hf : ∀ b a b', a ∈ l → P b → f b a = .ok b' → P b') :
    ∀ (b b' : β), P b → l.foldlM f b = .ok b' → P b' := by
  induction l with
  | nil =>
    intro b b' hb h
    simp only [List.foldlM_nil, pure, Except.pure, Except.ok.injEq] at h
    subst h; exact hb
  | cons a t ih =>
    intro b b' hb h
    simp only [List.foldlM_cons, bind, Except.bind] at h
    cases hfa : f b a with
    | error e => simp [hfa] at h
    | ok b1 =>
      simp only [hfa] at h
      exact ih (fun b a' b' ha => hf b a' b' (List.mem_cons_of_mem _ ha)) b1 b'
        (hf b a b1 (List.mem_cons_self) hb hfa) h

/-- paying a prover touches the module account and the prover's account only -/
theorem payProver_bal {s s' : State} {total : Int} {coins : Coins} {p : String} {w : Int}
    (h : payProver s total coins p w = .ok s') :
    s'.gauges = s.gauges ∧ s'.moduleAcc = s.moduleAcc ∧
    ∀ a, a ≠ s.moduleAcc → a ≠ p → ∀ d, bal s'.bank a d = bal s.bank a d := by
  unfold payProver at h
  split at h
  · simp at h
  split at h
  · simp only [Except.ok.injEq] at h; subst h; exact ⟨rfl, rfl, fun _ _ _ _ => rfl⟩
  · refine foldlM_except_inv (fun (st : State) => st.gauges = s.gauges ∧ st.moduleAcc = s.moduleAcc ∧
      ∀ a, a ≠ s.moduleAcc → a ≠ p → ∀ d, bal st.bank a d = bal s.bank a d) _ ?_ _ s s' ⟨rfl, rfl, fun _ _ _ _ => rfl⟩ h
    intro b a b' hb hstep
    simp only at hstep
    split at hstep
    · simp at hstep
    split at hstep
    · rename_i bk hsend
      simp only [Except.ok.injEq] at hstep; subst hstep
      simp only [Option.bind_eq_some_iff] at hsend
      obtain ⟨c, _, hsend⟩ := hsend
      have hsend' := send_of_sendFromModule hsend
      refine ⟨hb.1, hb.2.1, fun x x1 x2 d => ?_⟩
      simp only
      rw [bal_send_other hsend' (by rw [hb.2.1]; exact Ne.symm x1) (Ne.symm x2) d]
      exact hb.2.2 x x1 x2 d
    · simp only [Except.ok.injEq] at hstep; subst hstep; exact hb

/-- the size credited this block, per prover: the recipients of the block's payouts -/
def blockTracker (s : State) (h : Int) : Tracker :=
  (s.files.foldl (fun (acc : State × Tracker) kv => manageFile acc.1 h acc.2 kv.2) (s, [])).2

/-- **No outside credit by a reward block**: none of the provers the block pays is the escrow account
of a stored gauge.  (The provers are the signers of earlier `PostProof` messages; an escrow account
is the hash of a gauge id and signs nothing.) -/
def BlockNoCredit (s : State) (h : Int) : Prop :=
  ∀ pw ∈ blockTracker s h, ∀ kv ∈ s.gauges, pw.1 ≠ kv.2.account

/-- what a reward block that runs the reward path does to the gauges -/
structure BlockFx (s s' : State) (now : Int) : Prop where
  sub : ∀ kv ∈ s'.gauges, kv ∈ s.gauges
  live : ∀ kv ∈ s'.gauges, now ≤ kv.2.endT ∧ ExactAt s'.bank now kv.2
  frozen : ∀ kv ∈ s.gauges, (kv.2.endT < now ∨ kv.2.coins = []) →
    ∀ d, bal s'.bank kv.2.account d = bal s.bank kv.2.account d

theorem beginBlock_skip {s s' : State} {h now : Int} (hrun : Int.tmod h s.params.checkWindow > 0)
    (hb : beginBlock s h now = .ok s') : s' = s := by
  unfold beginBlock at hb
  split at hb
  · simp at hb
  · simp only [Except.ok.injEq] at hb; exact hb.symm

theorem beginBlock_fx {E : EscrowScheme} {s s' : State} {h now : Int} (hs : SizesOkF s.files)
    (hinv : GaugeInv E s now) (hnc : BlockNoCredit s h) (hrun : ¬ Int.tmod h s.params.checkWindow > 0)
    (hb : beginBlock s h now = .ok s') : BlockFx s s' now := by
  unfold beginBlock at hb
  split at hb
  · simp at hb
  unfold manageRewards at hb
  simp only [bind, Except.bind] at hb
  have h1 := (manageFiles_tracker h s.files s [] (fun kv hkv => by have := (hs kv hkv).1; omega)
    (fun _ hp => by simp at hp)).2.2
  have h2 := manageFiles_cacc h s.files s []
  unfold BlockNoCredit blockTracker at hnc
  generalize (s.files.foldl (fun (acc : State × Tracker) kv => manageFile acc.1 h acc.2 kv.2) (s, [])) = r at h1 h2 hb hnc
  obtain ⟨s1, tr⟩ := r
  simp only at hb h1 h2 hnc
  obtain ⟨e1, e2, e3, _, _⟩ := h1
  have hinv1 : GaugeInv E s1 now :=
    hinv.frame (P := fun _ => False) e2 e3 h2 (Moves.of_eq e1) (fun _ _ hf => hf)
  split at hb
  · simp at hb
  rename_i v hpg
  obtain ⟨s2, coins⟩ := v
  simp only at hb
  obtain ⟨_, p2, p3, p4, p5⟩ := pullGauges_fx hinv1 hpg
  -- the payouts
  have hpay : s'.gauges = s2.gauges ∧ s'.moduleAcc = s2.moduleAcc ∧
      ∀ a, a ≠ s2.moduleAcc → (∀ pw ∈ tr, pw.1 ≠ a) → ∀ d, bal s'.bank a d = bal s2.bank a d := by
    refine foldlM_except_inv_memX (fun (st : State) => st.gauges = s2.gauges ∧ st.moduleAcc = s2.moduleAcc ∧
      ∀ a, a ≠ s2.moduleAcc → (∀ pw ∈ tr, pw.1 ≠ a) → ∀ d, bal st.bank a d = bal s2.bank a d) _ _ ?_ s2 s'
      ⟨rfl, rfl, fun _ _ _ _ => rfl⟩ hb
    intro b a b' ha hP hstep
    obtain ⟨q1, q2, q3⟩ := payProver_bal hstep
    have ha' : a ∈ tr := by
      unfold sortedProvers at ha
      exact List.mem_mergeSort.mp ha
    refine ⟨q1.trans hP.1, q2.trans hP.2.1, fun x x1 x2 d => ?_⟩
    rw [q3 x (by rw [hP.2.1]; exact x1) (fun ex => x2 a ha' ex.symm) d]
    exact hP.2.2 x x1 x2 d
  obtain ⟨y1, _, y3⟩ := hpay
  have hesc : ∀ kv ∈ s.gauges, ∀ d, bal s'.bank kv.2.account d = bal s2.bank kv.2.account d := by
    intro kv hkv d
    exact y3 _ (by rw [p2, e3]; exact (hinv.accNe kv hkv).1) (fun pw hpw => hnc pw hpw kv hkv) d
  refine ⟨fun kv hkv => ?_, fun kv hkv => ?_, fun kv hkv hc d => ?_⟩
  · rw [y1] at hkv; rw [← e2]; exact p3 kv hkv
  · rw [y1] at hkv
    obtain ⟨l1, l2⟩ := p4 kv hkv
    refine ⟨l1, fun c hc => ?_⟩
    rw [hesc kv (by rw [← e2]; exact p3 kv hkv)]
    exact l2 c hc
  · rw [hesc kv hkv, p5 kv (by rw [e2]; exact hkv) hc d, e1]

/-- **The reward block keeps the exact gauge invariant** (at the block time), provided its payouts
credit no escrow account. -/
theorem beginBlock_gaugeExact {E : EscrowScheme} {s s' : State} {h now : Int} (hs : SizesOkF s.files)
    (hex : GaugeExact E s now) (hnc : BlockNoCredit s h) (hb : beginBlock s h now = .ok s') :
    GaugeExact E s' now := by
  by_cases hrun : Int.tmod h s.params.checkWindow > 0
  · rw [beginBlock_skip hrun hb]; exact hex
  · have fx := beginBlock_fx hs hex.inv hnc hrun hb
    have hinv' := beginBlock_gaugeInv hs hex.inv hb
    refine ⟨hinv', fun kv hkv => ?_⟩
    obtain ⟨l1, l2⟩ := fx.live kv hkv
    have hm := fx.sub kv hkv
    refine ⟨fun hc => ?_, now, (hinv'.ok kv hkv).started, Int.le_refl _, l1, l2⟩
    rw [fx.frozen kv hm (Or.inr hc)]
    exact (hex.exact kv hm).empty hc

/-- along a reward block the cumulative withdrawal of a gauge that stays stored does not decrease -/
theorem beginBlock_released_mono {E : EscrowScheme} {s s' : State} {h now : Int} (hs : SizesOkF s.files)
    (hex : GaugeExact E s now) (hnc : BlockNoCredit s h) (hb : beginBlock s h now = .ok s') :
    ∀ kv ∈ s'.gauges, kv ∈ s.gauges ∧
      ∀ c ∈ kv.2.coins, c.2 - bal s.bank kv.2.account c.1 ≤ c.2 - bal s'.bank kv.2.account c.1 := by
  by_cases hrun : Int.tmod h s.params.checkWindow > 0
  · rw [beginBlock_skip hrun hb]; exact fun kv hkv => ⟨hkv, fun _ _ => Int.le_refl _⟩
  · have fx := beginBlock_fx hs hex.inv hnc hrun hb
    intro kv hkv
    have hm := fx.sub kv hkv
    refine ⟨hm, fun c hc => ?_⟩
    obtain ⟨l1, l2⟩ := fx.live kv hkv
    obtain ⟨t', t1, t2, t3, t4⟩ := (hex.exact kv hm).at_
    have hok := hex.inv.ok kv hm
    rw [l2 c hc, t4 c hc]
    exact trunc_would_mono ⟨t1, t3, hok.long⟩ ⟨hok.started, l1, hok.long⟩ t2 (hok.coins.nonneg c hc)

end Canine.Storage
