/- Lemmas about the ledger: what a successful multi-coin `send` does to every balance. -/
import Canine.Basic.Bank
namespace Canine
namespace Bank

/-- total amount of denomination `d` in a coin list -/
def amt (d : String) : Coins → Int
  | [] => 0
  | (d', x) :: cs => (if d' = d then x else 0) + amt d cs

theorem bal_send {src dst : String} : ∀ {cs : Coins} {b b' : Bank},
    send b src dst cs = some b' → ∀ (a d : String),
    bal b' a d = bal b a d + (if dst = a then amt d cs else 0) - (if src = a then amt d cs else 0)
  | [], b, b', h, a, d => by
    simp [send] at h; subst h; simp [amt]
  | (d', x) :: cs, b, b', h, a, d => by
    simp only [send] at h
    cases h1 : sendCoin b src dst d' x with
    | none => simp [h1] at h
    | some b1 =>
      simp only [h1, Option.bind_some] at h
      have ih := bal_send h a d
      have hc := bal_sendCoin h1 a d
      rw [ih, hc]
      simp only [amt, Prod.mk.injEq]
      by_cases e1 : dst = a <;> by_cases e2 : src = a <;> by_cases e3 : d' = d <;> simp [e1, e2, e3] <;> omega

theorem amt_nonneg_of_send {src dst : String} : ∀ {cs : Coins} {b b' : Bank},
    send b src dst cs = some b' → ∀ d, 0 ≤ amt d cs
  | [], _, _, _, d => by simp [amt]
  | (d', x) :: cs, b, b', h, d => by
    simp only [send] at h
    cases h1 : sendCoin b src dst d' x with
    | none => simp [h1] at h
    | some b1 =>
      simp only [h1, Option.bind_some] at h
      have := amt_nonneg_of_send h d
      have hp := (sendCoin_pos h1).1
      simp only [amt]; split <;> omega

end Bank
end Canine
