/-
Helper lemmas for the storage-payment and provider-collateral properties (C04, C15).
Core Lean only.
-/
import Canine.Storage.Model
import Canine.Proofs.Bank
namespace Canine.Storage
open Bank

/-! ### ledger helpers -/

theorem sendFromModule_spec {s : State} {src dst : String} {c : Coins} {b' : Bank}
    (h : sendFromModule s src dst c = some b') :
    s.blocked.contains dst = false ∧ Bank.send s.bank src dst c = some b' := by
  unfold sendFromModule at h
  split at h
  · simp at h
  · rename_i hb; exact ⟨by simpa using hb, h⟩

theorem sendFromModule_not_blocked {s : State} {src dst : String} {c : Coins} {b' : Bank}
    (h : sendFromModule s src dst c = some b') : dst ∉ s.blocked := by
  have := (sendFromModule_spec h).1
  simpa using this

theorem sendFromModule_bal {s : State} {src dst : String} {c : Coins} {b' : Bank}
    (h : sendFromModule s src dst c = some b') (a d : String) :
    bal b' a d = bal s.bank a d + (if dst = a then amt d c else 0) - (if src = a then amt d c else 0) :=
  bal_send (sendFromModule_spec h).2 a d

/-- `sdk.NewCoins` of one coin succeeds exactly on non-negative amounts and carries that amount -/
theorem newCoins_spec {d : String} {x : Int} {cs : Coins} (h : newCoins d x = some cs) :
    0 ≤ x ∧ ∀ d', amt d' cs = if d = d' then x else 0 := by
  unfold newCoins at h
  split at h
  · simp at h
  · split at h
    · simp only [Option.some.injEq] at h; subst h
      refine ⟨by omega, fun d' => ?_⟩
      simp only [amt]; split <;> omega
    · simp only [Option.some.injEq] at h; subst h
      refine ⟨by omega, fun d' => ?_⟩
      simp only [amt]; split <;> simp

theorem newCoins_neg {d : String} {x : Int} (h : x < 0) : newCoins d x = none := by
  unfold newCoins; simp [h]

theorem newCoins_isSome {d : String} {x : Int} (h : 0 ≤ x) : ∃ cs, newCoins d x = some cs := by
  unfold newCoins
  split
  · omega
  · split <;> exact ⟨_, rfl⟩

/-! ### exact decimal arithmetic -/

theorem chopRound_mul_precision (y : Int) : chopRound (y * precision) = y := by
  unfold chopRound chopRoundNat precision fivePrecision
  simp only
  split
  · split <;> omega
  · split <;> omega

/-- multiplying a whole number by a decimal is exact (no rounding happens) -/
theorem mul_ofInt_exact (T : Int) (x : Dec) : (Dec.mul (Dec.ofInt T) x).raw = T * x.raw := by
  unfold Dec.mul Dec.ofInt
  simp only
  have : T * precision * x.raw = (T * x.raw) * precision := by
    rw [Int.mul_assoc, Int.mul_comm precision, ← Int.mul_assoc]
  rw [this, chopRound_mul_precision]

/-- the integer part of `T · x` for non-negative operands is the floor of the exact product -/
theorem trunc_mul_ofInt (T : Int) (x : Dec) (hT : 0 ≤ T) (hx : 0 ≤ x.raw) :
    Dec.trunc (Dec.mul (Dec.ofInt T) x) = T * x.raw / precision := by
  unfold Dec.trunc chopTrunc
  rw [mul_ofInt_exact]
  have := Int.mul_nonneg hT hx
  unfold tdiv precision
  simp [this]

theorem quoInt_ofInt_100 (r : Int) : (Dec.quoInt (Dec.ofInt r) 100).raw = r * 10000000000000000 := by
  unfold Dec.quoInt Dec.ofInt tdiv precision
  simp only
  split <;> simp only [show (0:Int) ≤ 100 by omega, if_true] <;> omega

/-- `⌊T · (r/100)⌋ = ⌊T·r/100⌋` -/
theorem floor_pct (T r : Int) : T * (r * 10000000000000000) / precision = T * r / 100 := by
  have : T * (r * 10000000000000000) = (T * r) * 10000000000000000 := by rw [Int.mul_assoc]
  rw [this]
  unfold precision
  generalize T * r = y
  omega

/-! ### `buyStorage` in two stages: the price, then the payments -/

/-- price part of `buyStorage`: (price before the referral discount, space already used) -/
def buyBase (s : State) (now : Int) (forAddress : String) (durationDays bytes : Int) (denom : String)
    (jklPrice : Dec) : Option (Int × Int) := do
  req (0 < durationDays)
  let durationNs := I64.mul durationDays dayNs
  req (durationNs ≥ timeMonthNs)
  let gbs := Int.tdiv bytes gb
  req (0 < gbs)
  req (denom = "ujkl")
  let durMs := Int.tdiv durationNs 1000000
  let hours := Dec.trunc ((Dec.quo? (Dec.ofInt durMs) (Dec.ofInt hourMs)).getD Dec.zero)
  let storageCostNew ← storageCost s.params.pricePerTbPerMonth gbs hours jklPrice
  req (0 ≤ storageCostNew)
  match AMap.get s.payinfo forAddress with
    | some pi =>
      if pi.spaceUsed > bytes then none
      else if pi.endT > now then
        (upgradeCost s now bytes durationNs storageCostNew pi jklPrice).map (fun p => (p, pi.spaceUsed))
      else some (storageCostNew, pi.spaceUsed)
    | none => some (storageCostNew, 0)

def buyReferred (creator : String) (referral : Option String) : Bool :=
  match referral with
  | some r => decide (r ≠ creator)
  | none => false

def buyLong (durationDays : Int) : Bool :=
  decide (Int.tdiv (I64.mul durationDays dayNs) 1000000 > 365 * 24 * hourMs)

def buyToPay (toPay0 : Int) (referred long : Bool) : Int :=
  if referred then Dec.trunc (Dec.mul (Dec.ofInt toPay0) (if long then dec0_95 else dec0_90)) else toPay0

def buyDiscount (referred long : Bool) : Dec :=
  if referred then (if long then Dec.quoInt (Dec.ofInt 5) 100 else Dec.quoInt (Dec.ofInt 10) 100) else Dec.zero

def buyPol (p : Params) (referred long : Bool) : Dec :=
  if referred then Dec.sub (Dec.quoInt (Dec.ofInt p.polRatio) 100) (if long then dec0_05 else dec0_1)
  else Dec.quoInt (Dec.ofInt p.polRatio) 100

def refDecOf (p : Params) : Dec := Dec.quoInt (Dec.ofInt p.referralCommission) 100

def buySpr (p : Params) (referred long : Bool) : Dec :=
  Dec.sub (Dec.sub (Dec.sub Dec.one (refDecOf p)) (buyPol p referred long)) (buyDiscount referred long)

/-- the gauge store after `newGauge'` -/
def gaugesAfter (gs : AMap String Gauge) (now : Int) (id acc : String) (coins : Coins) (endT : Int) :
    AMap String Gauge :=
  AMap.set gs id
    { id := id, startT := now, endT := endT,
      coins := (match AMap.get gs id with
                | some g => addCoins g.coins coins
                | none => coins),
      account := acc }

theorem newGauge'_eq (s : State) (now : Int) (id acc : String) (coins : Coins) (endT : Int) :
    newGauge' s now id acc coins endT = { s with gauges := gaugesAfter s.gauges now id acc coins endT } := rfl

/-- who receives the referral share: a distinct named referrer, otherwise the stakers' fee pool -/
def refTarget (s : State) (creator : String) (referral : Option String) : String :=
  match referral with
  | some r => if r ≠ creator then r else s.feeAcc
  | none => s.feeAcc

/-- the referral-share transfer of `buyStorage` -/
def payReferral (s : State) (creator : String) (referral : Option String) (refTokens : Coins) : Option Bank :=
  match referral with
  | some r => if buyReferred creator referral then sendFromModule s s.moduleAcc r refTokens
              else Bank.send s.bank s.moduleAcc s.feeAcc refTokens
  | none => Bank.send s.bank s.moduleAcc s.feeAcc refTokens

/-- payment part of `buyStorage` -/
def buyPay (s : State) (now : Int) (creator forAddress : String) (durationDays bytes : Int)
    (denom : String) (referral : Option String) (gaugeId gaugeAcc : String) (toPay0 spaceUsed : Int) : Option State := do
  let referred := buyReferred creator referral
  let long := buyLong durationDays
  let toPay := buyToPay toPay0 referred long
  req (0 ≤ toPay)
  let payCoins ← Bank.newCoins denom toPay
  let b1 ← Bank.send s.bank creator s.moduleAcc payCoins
  let spcTokens ← Bank.newCoins denom (Dec.trunc (Dec.mul (Dec.ofInt toPay) (buySpr s.params referred long)))
  let b2 ← sendFromModule { s with bank := b1 } s.moduleAcc gaugeAcc spcTokens
  let polTokens ← Bank.newCoins denom (Dec.trunc (Dec.mul (Dec.ofInt toPay) (buyPol s.params referred long)))
  let b3 ← sendFromModule { s with bank := b2 } s.moduleAcc s.polAcc polTokens
  let refTokens ← Bank.newCoins denom (Dec.trunc (Dec.mul (Dec.ofInt toPay) (refDecOf s.params)))
  let b4 ← payReferral { s with bank := b3 } creator referral refTokens
  some { s with
    bank := b4,
    payinfo := AMap.set s.payinfo forAddress
      { startT := now, endT := now + I64.mul durationDays dayNs, spaceAvailable := bytes,
        spaceUsed := spaceUsed, address := forAddress },
    gauges := gaugesAfter s.gauges now gaugeId gaugeAcc spcTokens (now + I64.mul durationDays dayNs) }

/-- payment part of `buyStorage`, verbatim -/
def buyPay0 (s : State) (now : Int) (creator forAddress : String) (durationDays bytes : Int)
    (denom : String) (referral : Option String) (gaugeId gaugeAcc : String) (toPay0 spaceUsed : Int) : Option State := do
  let referred := buyReferred creator referral
  let long := buyLong durationDays
  let toPay := buyToPay toPay0 referred long
  let pol := buyPol s.params referred long
  req (0 ≤ toPay)
  let payCoins ← Bank.newCoins denom toPay
  let b1 ← Bank.send s.bank creator s.moduleAcc payCoins
  let spi : PayInfo := { startT := now, endT := now + I64.mul durationDays dayNs, spaceAvailable := bytes, spaceUsed := spaceUsed, address := forAddress }
  let s1 := { s with bank := b1, payinfo := AMap.set s.payinfo forAddress spi }
  let spcTokens ← Bank.newCoins denom (Dec.trunc (Dec.mul (Dec.ofInt toPay) (buySpr s.params referred long)))
  let s2 := newGauge' s1 now gaugeId gaugeAcc spcTokens spi.endT
  let b2 ← sendFromModule s2 s2.moduleAcc gaugeAcc spcTokens
  let polTokens ← Bank.newCoins denom (Dec.trunc (Dec.mul (Dec.ofInt toPay) pol))
  let b3 ← sendFromModule { s2 with bank := b2 } s2.moduleAcc s2.polAcc polTokens
  let refTokens ← Bank.newCoins denom (Dec.trunc (Dec.mul (Dec.ofInt toPay) (refDecOf s.params)))
  let b4 ←
    match referral with
    | some r => if referred then sendFromModule { s2 with bank := b3 } s2.moduleAcc r refTokens
                else Bank.send b3 s2.moduleAcc s2.feeAcc refTokens
    | none => Bank.send b3 s2.moduleAcc s2.feeAcc refTokens
  some { s2 with bank := b4 }

theorem buyStorage_eq0 (s : State) (now : Int) (creator fa : String) (days bytes : Int) (denom : String)
    (referral : Option String) (jp : Dec) (gid gacc : String) :
    buyStorage s now creator fa days bytes denom referral jp gid gacc =
      (buyBase s now fa days bytes denom jp).bind
        (fun p => buyPay0 s now creator fa days bytes denom referral gid gacc p.1 p.2) := by
  unfold buyStorage buyBase
  simp only [bind, Option.bind_assoc]
  congr 1; funext _
  congr 1; funext _
  congr 1; funext _
  congr 1; funext _
  congr 1; funext _
  congr 1; funext _
  cases AMap.get s.payinfo fa with
  | none => rfl
  | some pi =>
    simp only
    by_cases h1 : pi.spaceUsed > bytes
    · simp only [h1, if_true, Option.bind_none]
    · simp only [h1, if_false]
      by_cases h2 : pi.endT > now
      · simp only [h2, if_true]
        cases upgradeCost s now bytes (I64.mul days dayNs) _ pi jp
        · rfl
        · rfl
      · simp only [h2, if_false]; rfl

theorem buyPay0_eq (s : State) (now : Int) (creator fa : String) (days bytes : Int) (denom : String)
    (referral : Option String) (gid gacc : String) (tp0 su : Int) :
    buyPay0 s now creator fa days bytes denom referral gid gacc tp0 su =
      buyPay s now creator fa days bytes denom referral gid gacc tp0 su := by
  simp only [buyPay0, buyPay, sendFromModule, newGauge'_eq, payReferral, bind]
  cases referral with
  | none => rfl
  | some r =>
    by_cases hr : buyReferred creator (some r) = true
    · simp only [hr, if_true]; rfl
    · simp only [hr]; rfl

theorem buyStorage_eq (s : State) (now : Int) (creator fa : String) (days bytes : Int) (denom : String)
    (referral : Option String) (jp : Dec) (gid gacc : String) :
    buyStorage s now creator fa days bytes denom referral jp gid gacc =
      (buyBase s now fa days bytes denom jp).bind
        (fun p => buyPay s now creator fa days bytes denom referral gid gacc p.1 p.2) := by
  rw [buyStorage_eq0]
  congr 1; funext p; exact buyPay0_eq ..


/-- the coin list `sdk.NewCoins` builds from a non-negative amount -/
def coinsOf (d : String) (x : Int) : Coins := if x = 0 then [] else [(d, x)]

theorem newCoins_eq_coinsOf {d : String} {x : Int} {cs : Coins} (h : newCoins d x = some cs) :
    cs = coinsOf d x := by
  unfold newCoins at h
  unfold coinsOf
  split at h
  · simp at h
  · split at h <;> simp_all

theorem payReferral_spec {s : State} {creator : String} {referral : Option String} {rt : Coins} {b' : Bank}
    (h : payReferral s creator referral rt = some b') :
    Bank.send s.bank s.moduleAcc (refTarget s creator referral) rt = some b' ∧
    (buyReferred creator referral = true → refTarget s creator referral ∉ s.blocked) := by
  unfold payReferral at h
  cases referral with
  | none => simp only at h; exact ⟨by simpa [refTarget] using h, by simp [buyReferred]⟩
  | some r =>
    simp only at h
    by_cases hr : r ≠ creator
    · have hb : buyReferred creator (some r) = true := by simp [buyReferred, hr]
      simp only [hb, if_true] at h
      have := sendFromModule_spec h
      simp only [refTarget, hr, if_true, ne_eq, not_false_eq_true]
      exact ⟨this.2, fun _ => sendFromModule_not_blocked h⟩
    · have hb : ¬ buyReferred creator (some r) = true := by simp [buyReferred] at hr ⊢; exact hr
      simp only [hb] at h
      simp only [refTarget, hr, if_false]
      exact ⟨h, fun e => absurd e hb⟩

/-- the amounts of a purchase: price charged, provider (gauge) share, liquidity share, referral share -/
def chargedOf (creator : String) (referral : Option String) (days tp0 : Int) : Int :=
  buyToPay tp0 (buyReferred creator referral) (buyLong days)
def spcOf (p : Params) (creator : String) (referral : Option String) (days toPay : Int) : Int :=
  Dec.trunc (Dec.mul (Dec.ofInt toPay) (buySpr p (buyReferred creator referral) (buyLong days)))
def polCutOf (p : Params) (creator : String) (referral : Option String) (days toPay : Int) : Int :=
  Dec.trunc (Dec.mul (Dec.ofInt toPay) (buyPol p (buyReferred creator referral) (buyLong days)))
def refCutOf (p : Params) (toPay : Int) : Int :=
  Dec.trunc (Dec.mul (Dec.ofInt toPay) (refDecOf p))

/-- What a successful payment stage did, transfer by transfer. -/
theorem buyPay_spec {s s' : State} {now : Int} {creator fa : String} {days bytes : Int} {denom : String}
    {referral : Option String} {gid gacc : String} {tp0 su : Int}
    (h : buyPay s now creator fa days bytes denom referral gid gacc tp0 su = some s') :
    ∃ b1 b2 b3 : Bank,
      let T := chargedOf creator referral days tp0
      let spc := spcOf s.params creator referral days T
      let polCut := polCutOf s.params creator referral days T
      let refCut := refCutOf s.params T
      0 ≤ T ∧ 0 ≤ spc ∧ 0 ≤ polCut ∧ 0 ≤ refCut ∧
      Bank.send s.bank creator s.moduleAcc (coinsOf denom T) = some b1 ∧
      Bank.send b1 s.moduleAcc gacc (coinsOf denom spc) = some b2 ∧ gacc ∉ s.blocked ∧
      Bank.send b2 s.moduleAcc s.polAcc (coinsOf denom polCut) = some b3 ∧ s.polAcc ∉ s.blocked ∧
      Bank.send b3 s.moduleAcc (refTarget s creator referral) (coinsOf denom refCut) = some s'.bank ∧
      (buyReferred creator referral = true → refTarget s creator referral ∉ s.blocked) ∧
      s' = { s with
        bank := s'.bank,
        payinfo := AMap.set s.payinfo fa
          { startT := now, endT := now + I64.mul days dayNs, spaceAvailable := bytes, spaceUsed := su, address := fa },
        gauges := gaugesAfter s.gauges now gid gacc (coinsOf denom spc) (now + I64.mul days dayNs) } := by
  simp only [buyPay, bind, Option.bind_eq_some_iff, req_eq_some] at h
  obtain ⟨_, hT, payCoins, hpay, b1, hb1, spcTokens, hspc, b2, hb2, polTokens, hpol, b3, hb3,
    refTokens, href, b4, hb4, hs⟩ := h
  simp only [Option.some.injEq] at hs
  have e1 := newCoins_eq_coinsOf hpay
  have e2 := newCoins_eq_coinsOf hspc
  have e3 := newCoins_eq_coinsOf hpol
  have e4 := newCoins_eq_coinsOf href
  subst e1 e2 e3 e4
  have h2 := sendFromModule_spec hb2
  have h3 := sendFromModule_spec hb3
  have h4 := payReferral_spec hb4
  have n2 := sendFromModule_not_blocked hb2
  have n3 := sendFromModule_not_blocked hb3
  refine ⟨b1, b2, b3, hT, (newCoins_spec hspc).1, (newCoins_spec hpol).1, (newCoins_spec href).1, hb1,
    h2.2, n2, h3.2, n3, ?_, ?_, ?_⟩
  · subst hs; exact h4.1
  · exact h4.2
  · subst hs; rfl

theorem buyStorage_spec {s s' : State} {now : Int} {creator fa : String} {days bytes : Int} {denom : String}
    {referral : Option String} {jp : Dec} {gid gacc : String}
    (h : buyStorage s now creator fa days bytes denom referral jp gid gacc = some s') :
    ∃ tp0 su, buyBase s now fa days bytes denom jp = some (tp0, su) ∧
      buyPay s now creator fa days bytes denom referral gid gacc tp0 su = some s' := by
  rw [buyStorage_eq, Option.bind_eq_some_iff] at h
  obtain ⟨⟨tp0, su⟩, hb, hp⟩ := h
  exact ⟨tp0, su, hb, hp⟩

theorem buyBase_denom {s : State} {now : Int} {fa : String} {days bytes : Int} {denom : String} {jp : Dec}
    {r : Int × Int} (h : buyBase s now fa days bytes denom jp = some r) :
    denom = "ujkl" ∧ 0 < days ∧ I64.mul days dayNs ≥ timeMonthNs ∧ 0 < Int.tdiv bytes gb := by
  simp only [buyBase, bind, Option.bind_eq_some_iff, req_eq_some] at h
  obtain ⟨_, h1, _, h2, _, h3, _, h4, _⟩ := h
  exact ⟨h4, h1, h2, h3⟩

theorem amt_coinsOf (d d' : String) (x : Int) : amt d' (coinsOf d x) = if d = d' then x else 0 := by
  unfold coinsOf
  split
  · simp [amt, *]
  · simp only [amt]; split <;> omega


/-! ### state changes that move no money -/

/-- `s'` has the ledger, collateral records, gauges and configuration of `s`, and every provider of
`s` is still a provider -/
structure SameMoney (s s' : State) : Prop where
  bank : s'.bank = s.bank
  coll : s'.collateral = s.collateral
  gauges : s'.gauges = s.gauges
  params : s'.params = s.params
  macc : s'.moduleAcc = s.moduleAcc
  cacc : s'.collateralAcc = s.collateralAcc
  pacc : s'.polAcc = s.polAcc
  facc : s'.feeAcc = s.feeAcc
  blk : s'.blocked = s.blocked
  prov : ∀ a, (AMap.get s.providers a).isSome → (AMap.get s'.providers a).isSome

theorem SameMoney.refl (s : State) : SameMoney s s :=
  ⟨rfl, rfl, rfl, rfl, rfl, rfl, rfl, rfl, rfl, fun _ h => h⟩

theorem SameMoney.trans {s s1 s2 : State} (h1 : SameMoney s s1) (h2 : SameMoney s1 s2) : SameMoney s s2 :=
  ⟨h2.bank.trans h1.bank, h2.coll.trans h1.coll, h2.gauges.trans h1.gauges, h2.params.trans h1.params,
   h2.macc.trans h1.macc, h2.cacc.trans h1.cacc, h2.pacc.trans h1.pacc, h2.facc.trans h1.facc,
   h2.blk.trans h1.blk, fun a h => h2.prov a (h1.prov a h)⟩

/-- same, when the provider store is untouched -/
theorem SameMoney.of_eq {s s' : State} (h1 : s'.bank = s.bank) (h2 : s'.collateral = s.collateral)
    (h3 : s'.gauges = s.gauges) (h4 : s'.params = s.params) (h5 : s'.moduleAcc = s.moduleAcc)
    (h6 : s'.collateralAcc = s.collateralAcc) (h7 : s'.polAcc = s.polAcc) (h8 : s'.feeAcc = s.feeAcc)
    (h9 : s'.blocked = s.blocked) (h10 : s'.providers = s.providers) : SameMoney s s' :=
  ⟨h1, h2, h3, h4, h5, h6, h7, h8, h9, fun a h => by rw [h10]; exact h⟩

theorem sameMoney_removeFile (s : State) (k : FKey) : SameMoney s (removeFile s k) := by
  unfold removeFile
  split
  · exact SameMoney.refl s
  · exact SameMoney.of_eq rfl rfl rfl rfl rfl rfl rfl rfl rfl rfl

theorem sameMoney_setFile (s : State) (f : File) : SameMoney s (setFile s f) :=
  SameMoney.of_eq rfl rfl rfl rfl rfl rfl rfl rfl rfl rfl

theorem sameMoney_removeProver (s : State) (f : File) (pk : PKey) : SameMoney s (removeProver s f pk).1 := by
  unfold removeProver
  split
  · exact SameMoney.of_eq rfl rfl rfl rfl rfl rfl rfl rfl rfl rfl
  · exact SameMoney.refl s

theorem isSome_get_set {K V : Type} [DecidableEq K] (m : AMap K V) (k a : K) (v : V)
    (h : (AMap.get m a).isSome) : (AMap.get (AMap.set m k v) a).isSome := by
  rw [AMap.get_set]; split <;> simp [h]

theorem sameMoney_burnContract (s : State) (p : String) : SameMoney s (burnContract s p) := by
  unfold burnContract
  split
  · exact SameMoney.refl s
  · split
    · exact SameMoney.refl s
    · exact ⟨rfl, rfl, rfl, rfl, rfl, rfl, rfl, rfl, rfl, fun a h => isSome_get_set _ _ _ _ h⟩

/-- `s'` has the collateral records and configuration of `s` and still all its providers
(ledger and gauges may differ) -/
structure SameCfg (s s' : State) : Prop where
  coll : s'.collateral = s.collateral
  params : s'.params = s.params
  macc : s'.moduleAcc = s.moduleAcc
  cacc : s'.collateralAcc = s.collateralAcc
  pacc : s'.polAcc = s.polAcc
  facc : s'.feeAcc = s.feeAcc
  blk : s'.blocked = s.blocked
  prov : ∀ a, (AMap.get s.providers a).isSome → (AMap.get s'.providers a).isSome

theorem SameMoney.cfg {s s' : State} (h : SameMoney s s') : SameCfg s s' :=
  ⟨h.coll, h.params, h.macc, h.cacc, h.pacc, h.facc, h.blk, h.prov⟩

theorem SameCfg.refl (s : State) : SameCfg s s := (SameMoney.refl s).cfg

theorem SameCfg.trans {s s1 s2 : State} (h1 : SameCfg s s1) (h2 : SameCfg s1 s2) : SameCfg s s2 :=
  ⟨h2.coll.trans h1.coll, h2.params.trans h1.params,
   h2.macc.trans h1.macc, h2.cacc.trans h1.cacc, h2.pacc.trans h1.pacc, h2.facc.trans h1.facc,
   h2.blk.trans h1.blk, fun a h => h2.prov a (h1.prov a h)⟩

/-! ### the pay-once `postFile` -/

/-- provider share of a one-time file payment -/
def postSpr (p : Params) : Dec :=
  Dec.sub (Dec.sub Dec.one (Dec.quoInt (Dec.ofInt p.referralCommission) 100)) (Dec.quoInt (Dec.ofInt p.polRatio) 100)

def postKbs (fileSize maxProofs : Int) : Int :=
  if Int.tdiv (fileSize * maxProofs) 1000 < 1024 then 1024 else Int.tdiv (fileSize * maxProofs) 1000
def postHours (h expires : Int) : Int := Int.tdiv (Int.tdiv (I64.mul (expires - h) 6) 60) 60
def postDays (h expires : Int) : Int := Int.tdiv (postHours h expires) 24

def postFileRec (s : State) (h : Int) (creator merkle : String) (fileSize maxProofs expires proofType : Int)
    (note : String) : File :=
  { merkle := merkle, owner := creator, start := h, expires := expires, fileSize := fileSize,
    proofInterval := s.params.proofWindow, proofType := proofType, proofs := [], maxProofs := maxProofs, note := note }

theorem postFile_payonce_spec {s s' : State} {h now : Int} {creator merkle : String} {fs mp ex pt : Int}
    {note : String} {nv : Bool} {jp : Dec} {gid gacc : String}
    (hs : postFile s h now creator merkle fs mp ex pt note nv jp gid gacc = some s') (hex : ex > 0) :
    ∃ (cost : Int) (b1 : Bank),
      storageCostKbs s.params.pricePerTbPerMonth (postKbs fs mp) (postHours h ex) jp = some cost ∧
      0 ≤ cost ∧ 0 < postDays h ex ∧
      0 ≤ Dec.trunc (Dec.mul (Dec.ofInt cost) (postSpr s.params)) ∧
      Bank.send s.bank creator s.moduleAcc (coinsOf "ujkl" cost) = some b1 ∧
      Bank.send b1 s.moduleAcc gacc (coinsOf "ujkl" (Dec.trunc (Dec.mul (Dec.ofInt cost) (postSpr s.params)))) = some s'.bank ∧
      gacc ∉ s.blocked ∧
      s'.gauges = gaugesAfter s.gauges now gid gacc
          (coinsOf "ujkl" (Dec.trunc (Dec.mul (Dec.ofInt cost) (postSpr s.params)))) (now + postDays h ex * dayNs) ∧
      SameCfg s s' := by
  simp only [postFile, bind, Option.bind_eq_some_iff, req_eq_some] at hs
  obtain ⟨_, hnv, _, hsz, hs⟩ := hs
  simp only [hex, if_true, Option.bind_eq_some_iff, req_eq_some] at hs
  obtain ⟨_, hd, cost, hcost, _, hc0, spcT, hspc, payC, hpay, b1, hb1, b2, hb2, hs⟩ := hs
  simp only [Option.some.injEq] at hs
  have e1 := newCoins_eq_coinsOf hspc
  have e2 := newCoins_eq_coinsOf hpay
  subst e1 e2
  have hsm : ∀ f, SameMoney s (setFile (removeFile s (merkle, creator, h)) f) := fun f =>
    (sameMoney_removeFile s (merkle, creator, h)).trans (sameMoney_setFile _ f)
  have m1 : ∀ f, (setFile (removeFile s (merkle, creator, h)) f).bank = s.bank := fun f => (hsm f).bank
  have m2 : ∀ f, (setFile (removeFile s (merkle, creator, h)) f).moduleAcc = s.moduleAcc := fun f => (hsm f).macc
  have m3 : ∀ f, (setFile (removeFile s (merkle, creator, h)) f).blocked = s.blocked := fun f => (hsm f).blk
  have m4 : ∀ f, (setFile (removeFile s (merkle, creator, h)) f).gauges = s.gauges := fun f => (hsm f).gauges
  have h2 := sendFromModule_spec hb2
  have n2 := sendFromModule_not_blocked hb2
  simp only [newGauge'_eq, m1, m2, m3, m4] at hb1 h2 n2
  subst hs
  refine ⟨cost, b1, hcost, hc0, hd.1, (newCoins_spec hspc).1, hb1, h2.2, n2, ?_, ?_⟩
  · simp only [newGauge'_eq, m4]; rfl
  · have c := (hsm (postFileRec s h creator merkle fs mp ex pt note)).cfg
    exact ⟨c.coll, c.params, c.macc, c.cacc, c.pacc, c.facc, c.blk, c.prov⟩

/-- the plan-paid branch leaves ledger, gauges, collateral and configuration alone -/
theorem postFile_plan_sameMoney {s s' : State} {h now : Int} {creator merkle : String} {fs mp ex pt : Int}
    {note : String} {nv : Bool} {jp : Dec} {gid gacc : String}
    (hs : postFile s h now creator merkle fs mp ex pt note nv jp gid gacc = some s') (hex : ¬ ex > 0) :
    SameMoney s s' := by
  simp only [postFile, bind, Option.bind_eq_some_iff, req_eq_some] at hs
  obtain ⟨_, hnv, _, hsz, hs⟩ := hs
  simp only [hex, if_false, Option.bind_eq_some_iff, req_eq_some] at hs
  obtain ⟨pi, hpi, _, _, _, _, hs⟩ := hs
  simp only [Option.some.injEq] at hs
  have hsm := (sameMoney_removeFile s (merkle, creator, h)).trans
    (sameMoney_setFile (removeFile s (merkle, creator, h)) (postFileRec s h creator merkle fs mp ex pt note))
  subst hs
  exact hsm.trans (SameMoney.of_eq rfl rfl rfl rfl rfl rfl rfl rfl rfl rfl)


/-! ### conservation over a set of accounts -/

theorem sum_indicator (x : String) (v : Int) : ∀ (l : List String), l.Nodup →
    (l.map (fun a => if x = a then v else 0)).sum = if x ∈ l then v else 0
  | [], _ => by simp
  | a :: l, hnd => by
    simp only [List.nodup_cons] at hnd
    have ih := sum_indicator x v l hnd.2
    simp only [List.map_cons, List.sum_cons, List.mem_cons, ih]
    by_cases h1 : x = a
    · subst h1; simp [hnd.1]
    · simp [h1]

theorem sum_map_add_sub (f g k : String → Int) : ∀ (l : List String),
    (l.map (fun a => f a + g a - k a)).sum = (l.map f).sum + (l.map g).sum - (l.map k).sum
  | [] => by simp
  | a :: l => by
    have ih := sum_map_add_sub f g k l
    simp only [List.map_cons, List.sum_cons, ih]; omega

/-- A transfer changes the total held by a duplicate-free set of accounts only by what crosses
its boundary; in particular a transfer between two members conserves the total. -/
theorem total_send {src dst : String} {cs : Coins} {b b' : Bank} (h : send b src dst cs = some b')
    (accts : List String) (hnd : accts.Nodup) (d : String) :
    total b' accts d = total b accts d + (if dst ∈ accts then amt d cs else 0)
      - (if src ∈ accts then amt d cs else 0) := by
  unfold total
  have e : (fun a => bal b' a d) = (fun a => bal b a d + (if dst = a then amt d cs else 0)
      - (if src = a then amt d cs else 0)) := by
    funext a; exact bal_send h a d
  rw [e, sum_map_add_sub (fun a => bal b a d), sum_indicator dst _ accts hnd, sum_indicator src _ accts hnd]

/-! ### the ratios of a purchase, in raw (10^-18) units -/

theorem refDecOf_raw (p : Params) : (refDecOf p).raw = p.referralCommission * 10000000000000000 :=
  quoInt_ofInt_100 _

/-- percentage points the referral discount takes off the liquidity share -/
def discountPts (referred long : Bool) : Int := if referred then (if long then 5 else 10) else 0

theorem buyPol_raw (p : Params) (referred long : Bool) :
    (buyPol p referred long).raw = (p.polRatio - discountPts referred long) * 10000000000000000 := by
  unfold buyPol discountPts
  cases referred <;> cases long <;>
    simp only [if_true, if_false, Bool.false_eq_true, Dec.sub, quoInt_ofInt_100, dec0_05, dec0_1] <;> omega

theorem buyDiscount_raw (referred long : Bool) :
    (buyDiscount referred long).raw = discountPts referred long * 10000000000000000 := by
  unfold buyDiscount discountPts
  cases referred <;> cases long <;>
    simp only [if_true, if_false, Bool.false_eq_true, quoInt_ofInt_100, Dec.zero] <;> omega

/-- the provider share is `100 − referralCommission − polRatio` percent whether or not the purchase
is referred: the discount is taken from the liquidity share and added back here -/
theorem buySpr_raw (p : Params) (referred long : Bool) :
    (buySpr p referred long).raw = (100 - p.referralCommission - p.polRatio) * 10000000000000000 := by
  unfold buySpr
  simp only [Dec.sub, buyPol_raw, buyDiscount_raw, refDecOf_raw]
  unfold Dec.one Dec.ofInt precision
  simp only
  omega

theorem postSpr_raw (p : Params) :
    (postSpr p).raw = (100 - p.referralCommission - p.polRatio) * 10000000000000000 := by
  unfold postSpr
  simp only [Dec.sub, quoInt_ofInt_100]
  unfold Dec.one Dec.ofInt precision
  simp only
  omega

/-- `⌊T·(r/100)⌋` for a whole `T ≥ 0` and a non-negative percentage `r` -/
theorem trunc_mul_pct (T r : Int) (x : Dec) (hx : x.raw = r * 10000000000000000) (hT : 0 ≤ T) (hr : 0 ≤ r) :
    Dec.trunc (Dec.mul (Dec.ofInt T) x) = T * r / 100 := by
  rw [trunc_mul_ofInt T x hT (by rw [hx]; omega), hx, floor_pct]

/-- the same for a negative percentage: truncation goes toward zero -/
theorem trunc_mul_pct_neg (T r : Int) (x : Dec) (hx : x.raw = r * 10000000000000000) (hT : 0 ≤ T) (hr : r ≤ 0) :
    Dec.trunc (Dec.mul (Dec.ofInt T) x) = -(T * (-r) / 100) := by
  unfold Dec.trunc chopTrunc
  rw [mul_ofInt_exact, hx]
  have e : T * (r * 10000000000000000) = -((T * (-r)) * 10000000000000000) := by
    rw [← Int.mul_assoc, Int.mul_neg]; omega
  have hn : 0 ≤ T * (-r) := Int.mul_nonneg hT (by omega)
  rw [e]
  generalize T * (-r) = y at *
  unfold tdiv precision
  split <;> simp only [show (0:Int) ≤ 1000000000000000000 by omega, if_true] <;> omega

end Canine.Storage
