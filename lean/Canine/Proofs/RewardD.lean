/-
Auxiliary lemmas for C05: every panicking primitive of the reward block is shown unreachable.
-/
import Canine.Proofs.StorageD
import Canine.Props.C13
import Canine.Proofs.Bank
namespace Canine.Storage
open Canine.Mint (chopRound_nonneg)

/-! ## generic: a monadic fold in `Except` succeeds when every step does -/

theorem foldlM_except_ok {α β ε : Type} (P : List α → β → Prop) (f : β → α → Except ε β)
    (hf : ∀ a rest b, P (a :: rest) b → ∃ b', f b a = .ok b' ∧ P rest b') :
    ∀ (l : List α) (b : β), P l b → ∃ b', l.foldlM f b = .ok b' ∧ P [] b'
  | [], b, hb => ⟨b, rfl, hb⟩
  | a :: l, b, hb => by
    obtain ⟨b1, h1, hp⟩ := hf a l b hb
    obtain ⟨b2, h2, hp2⟩ := foldlM_except_ok P f hf l b1 hp
    refine ⟨b2, ?_, hp2⟩
    simp only [List.foldlM_cons, bind, Except.bind, h1]
    exact h2

/-! ## signs of the decimal primitives -/

theorem tdiv_nonneg {a b : Int} (ha : 0 ≤ a) (hb : 0 ≤ b) : 0 ≤ tdiv a b := by
  unfold tdiv
  simp only [ha, hb, if_true]
  exact Int.ediv_nonneg ha hb

theorem trunc_nonneg {d : Dec} (h : 0 ≤ d.raw) : 0 ≤ Dec.trunc d := by
  unfold Dec.trunc chopTrunc
  exact tdiv_nonneg h (by unfold precision; omega)

theorem quo_ofInt_some (a b : Int) (hb : b ≠ 0) :
    ∃ q, Dec.quo? (Dec.ofInt a) (Dec.ofInt b) = some q ∧ (0 ≤ a → 0 < b → 0 ≤ q.raw) := by
  unfold Dec.quo? Dec.ofInt
  have : ¬ (b * precision = 0) := by unfold precision; omega
  simp only [this, if_false]
  refine ⟨_, rfl, ?_⟩
  intro ha hb'
  apply chopRound_nonneg
  apply tdiv_nonneg
  · unfold precision; omega
  · unfold precision; omega

theorem mul_ofInt_nonneg {r : Dec} {x : Int} (hr : 0 ≤ r.raw) (hx : 0 ≤ x) :
    0 ≤ (Dec.mul r (Dec.ofInt x)).raw := by
  unfold Dec.mul Dec.ofInt
  apply chopRound_nonneg
  apply Int.mul_nonneg hr
  simp only [precision]; omega

/-! ## (2) the payout -/

/-- paying one prover never panics when the credited total is positive, the prover's credited size
is non-negative and every released coin amount is non-negative -/
theorem payProver_ok (s : State) (total : Int) (coins : Coins) (prover : String)
    (worth : Int) (ht : 0 < total) (hw : 0 ≤ worth) (hc : ∀ c ∈ coins, 0 ≤ c.2) :
    ∃ s', payProver s total coins prover worth = .ok s' := by
  obtain ⟨share, hq, hnn⟩ := quo_ofInt_some worth total (by omega)
  have hs := hnn hw ht
  unfold payProver
  simp only [hq]
  split
  · exact ⟨s, rfl⟩
  · refine (fun ⟨s', h', _⟩ => ⟨s', h'⟩)
      (foldlM_except_ok (fun (l : Coins) (_ : State) => ∀ c ∈ l, 0 ≤ c.2) _ ?_ coins s hc)
    intro c rest st hP
    have h0 : 0 ≤ Dec.trunc (Dec.mul share (Dec.ofInt c.2)) :=
      trunc_nonneg (mul_ofInt_nonneg hs (hP c (by simp)))
    have hlt : ¬ Dec.trunc (Dec.mul share (Dec.ofInt c.2)) < 0 := by omega
    simp only [hlt, if_false]
    split
    · exact ⟨_, rfl, fun c' hc' => hP c' (List.mem_cons_of_mem _ hc')⟩
    · exact ⟨_, rfl, fun c' hc' => hP c' (List.mem_cons_of_mem _ hc')⟩

/-! ## the tracker -/

/-- every credited size is non-negative -/
def TrackerOk (t : Tracker) : Prop := ∀ p ∈ t, 0 ≤ p.2

theorem credit_ok {t : Tracker} (ht : TrackerOk t) (p : String) {sz : Int} (hsz : 0 ≤ sz) :
    TrackerOk (credit t p sz) := by
  intro q hq
  rcases AMap.mem_of_mem_set hq with e | hm
  · subst e
    simp only
    cases hg : AMap.get t p with
    | none => simpa using hsz
    | some v =>
      have := ht _ (AMap.mem_of_get hg)
      simp only at this
      simp only [Option.getD_some]; omega
  · exact ht q hm

theorem credits_ok {sz : Int} {t t' : Tracker} (hc : Credits sz t t') (hsz : 0 ≤ sz) (ht : TrackerOk t) :
    TrackerOk t' := by
  induction hc with
  | refl => exact ht
  | step p _ ih => exact credit_ok ih p hsz

theorem removeFile_sameRest (s : State) (k : FKey) : sameRest s (removeFile s k) := by
  unfold removeFile
  split
  · exact sameRest_refl _
  · exact ⟨rfl, rfl, rfl, rfl, rfl⟩

/-- the loop of `ManageRewards` over the files: the tracker only ever holds non-negative sizes, is
non-empty only if some file lists a prover, and the ledger, gauges and parameters are untouched -/
theorem manageFiles_tracker (h : Int) : ∀ (l : AMap FKey File) (s : State) (t : Tracker),
    (∀ kv ∈ l, 0 ≤ kv.2.fileSize) → TrackerOk t →
    let r := l.foldl (fun (acc : State × Tracker) kv => manageFile acc.1 h acc.2 kv.2) (s, t)
    TrackerOk r.2 ∧ (r.2 = t ∨ ∃ kv ∈ l, kv.2.proofs ≠ []) ∧ sameRest s r.1
  | [], s, t, _, ht => ⟨ht, Or.inl rfl, sameRest_refl _⟩
  | (k, f) :: l, s, t, hsz, ht => by
    simp only [List.foldl_cons]
    have hf : 0 ≤ f.fileSize := hsz (k, f) (by simp)
    have hl : ∀ kv ∈ l, 0 ≤ kv.2.fileSize := fun kv hkv => hsz kv (List.mem_cons_of_mem _ hkv)
    have key : TrackerOk (manageFile s h t f).2 ∧ ((manageFile s h t f).2 = t ∨ f.proofs ≠ []) ∧
        sameRest s (manageFile s h t f).1 := by
      rcases manageFile_shape s h t f with ⟨_, _, e⟩ | ⟨_, e2, _, e4, e5⟩
      · rw [e]; exact ⟨ht, Or.inl rfl, removeFile_sameRest _ _⟩
      · refine ⟨credits_ok e4 hf ht, ?_, e2⟩
        by_cases hp : f.proofs = []
        · exact Or.inl (e5 hp)
        · exact Or.inr hp
    obtain ⟨k1, k2, k3⟩ := key
    have ih := manageFiles_tracker h l (manageFile s h t f).1 (manageFile s h t f).2 hl k1
    simp only at ih
    obtain ⟨i1, i2, i3⟩ := ih
    refine ⟨i1, ?_, sameRest_trans k3 i3⟩
    rcases i2 with e | ⟨kv, hkv, hne⟩
    · rcases k2 with e' | hne
      · exact Or.inl (e.trans e')
      · exact Or.inr ⟨(k, f), by simp, hne⟩
    · exact Or.inr ⟨kv, List.mem_cons_of_mem _ hkv, hne⟩

/-- Σ fileSize·|proofs| ≥ 1 as soon as one file lists a prover (all sizes being ≥ 1) -/
theorem total_pos (l : AMap FKey File) (hsz : ∀ kv ∈ l, 1 ≤ kv.2.fileSize)
    (hex : ∃ kv ∈ l, kv.2.proofs ≠ []) :
    0 < (l.map (fun kv => kv.2.fileSize * (kv.2.proofs.length : Int))).sum := by
  have hnn : ∀ (l : AMap FKey File), (∀ kv ∈ l, 1 ≤ kv.2.fileSize) →
      0 ≤ (l.map (fun kv => kv.2.fileSize * (kv.2.proofs.length : Int))).sum := by
    intro l
    induction l with
    | nil => intro _; simp
    | cons p t ih =>
      intro h
      have h1 := h p (by simp)
      have h2 := ih (fun kv hkv => h kv (List.mem_cons_of_mem _ hkv))
      have : 0 ≤ p.2.fileSize * (p.2.proofs.length : Int) := Int.mul_nonneg (by omega) (by omega)
      simp only [List.map_cons, List.sum_cons]; omega
  induction l with
  | nil => obtain ⟨kv, hkv, _⟩ := hex; simp at hkv
  | cons p t ih =>
    have h1 := hsz p (by simp)
    have ht := fun kv hkv => hsz kv (List.mem_cons_of_mem _ hkv)
    have hpnn : 0 ≤ p.2.fileSize * (p.2.proofs.length : Int) := Int.mul_nonneg (by omega) (by omega)
    simp only [List.map_cons, List.sum_cons]
    obtain ⟨kv, hkv, hne⟩ := hex
    rcases List.mem_cons.mp hkv with e | hm
    · subst e
      have hlen : (1 : Int) ≤ (kv.2.proofs.length : Int) := by
        cases hp : kv.2.proofs with
        | nil => exact absurd hp hne
        | cons a b => simp; omega
      have := Int.mul_le_mul h1 hlen (by omega) (by omega)
      have := hnn t ht
      omega
    · have := ih ht ⟨kv, hm, hne⟩
      omega

open Bank

/-! ## gauges -/

/-- the emptiness test `pullGauge` applies to a gauge's escrow account -/
def acctEmpty (b : Bank) (a : String) : Bool := (b.filter (fun p => p.1.1 = a ∧ p.2 ≠ 0)).isEmpty

theorem acctEmpty_set_other (b : Bank) (k : String × String) (v : Int) (a : String) (h : k.1 ≠ a) :
    acctEmpty (AMap.set b k v) a = acctEmpty b a := by
  unfold acctEmpty
  congr 1
  induction b with
  | nil => simp [AMap.set, h]
  | cons p t ih =>
    obtain ⟨k', v'⟩ := p
    by_cases hk : k' = k
    · subst hk; simp [AMap.set, h]
    · simp only [AMap.set, hk, if_false, List.filter_cons, ih]

/-- two ledgers agree on account `a`: same balances, same emptiness -/
def Agree (b b' : Bank) (a : String) : Prop := acctEmpty b' a = acctEmpty b a ∧ ∀ d, bal b' a d = bal b a d

theorem Agree.refl (b : Bank) (a : String) : Agree b b a := ⟨rfl, fun _ => rfl⟩
theorem Agree.trans {b1 b2 b3 : Bank} {a : String} (h1 : Agree b1 b2 a) (h2 : Agree b2 b3 a) : Agree b1 b3 a :=
  ⟨h2.1.trans h1.1, fun d => (h2.2 d).trans (h1.2 d)⟩

theorem agree_credit (b : Bank) (a' d : String) (x : Int) (a : String) (h : a' ≠ a) :
    Agree b (Bank.credit b a' d x) a := by
  refine ⟨acctEmpty_set_other b (a', d) _ a h, fun d2 => ?_⟩
  rw [bal_credit_other]
  intro e; cases e; exact h rfl

theorem agree_sendCoin {b b' : Bank} {src dst d : String} {x : Int} (hs : sendCoin b src dst d x = some b')
    (a : String) (h1 : src ≠ a) (h2 : dst ≠ a) : Agree b b' a := by
  unfold sendCoin at hs
  split at hs; · simp at hs
  split at hs; · simp at hs
  simp only [Option.some.injEq] at hs; subst hs
  exact (agree_credit b src d (-x) a h1).trans (agree_credit _ dst d x a h2)

theorem agree_send {src dst : String} (a : String) (h1 : src ≠ a) (h2 : dst ≠ a) :
    ∀ {cs : Coins} {b b' : Bank}, send b src dst cs = some b' → Agree b b' a
  | [], b, b', h => by simp [send] at h; subst h; exact Agree.refl _ _
  | (d, x) :: cs, b, b', h => by
    simp only [send, Option.bind_eq_some_iff] at h
    obtain ⟨b1, hb1, hb2⟩ := h
    exact (agree_sendCoin hb1 a h1 h2).trans (agree_send a h1 h2 hb2)

/-- the amount `pullGauge` releases for one coin of a gauge -/
def gaugeAmt (ratio : Dec) (amount bal : Int) : Int :=
  Dec.trunc (Dec.sub (Dec.mul ratio (Dec.ofInt amount)) (Dec.ofInt (amount - bal)))

/-- no panic for this coin: the amount is non-negative and fits an int64 -/
def CoinSafe (ratio : Dec) (amount bal : Int) : Prop :=
  0 ≤ gaugeAmt ratio amount bal ∧ I64.inRange (gaugeAmt ratio amount bal) = true

/-- the body of the loop over a gauge's coins -/
def coinStep (g : Gauge) (ratio : Dec) (acc : State × Coins) (coin : Coin) : Except String (State × Coins) :=
  let amt := gaugeAmt ratio coin.2 (Bank.bal acc.1.bank g.account coin.1)
  if !(I64.inRange amt) then .error "Int64() out of bound"
  else if amt = 0 then .ok (acc.1, acc.2)
  else if amt < 0 then .error s!"negative coin amount: {amt}"
  else
    let rel' := pullGauge.addCoinTo acc.2 coin.1 amt
    match Bank.send acc.1.bank g.account acc.1.moduleAcc [(coin.1, amt)] with
    | some b => .ok ({ acc.1 with bank := b }, rel')
    | none => .ok (acc.1, rel')

theorem addCoinTo_nonneg {cs : Coins} (h : ∀ c ∈ cs, 0 ≤ c.2) (d : String) {x : Int} (hx : 0 ≤ x) :
    ∀ c ∈ pullGauge.addCoinTo cs d x, 0 ≤ c.2 := by
  intro c hc
  unfold pullGauge.addCoinTo at hc
  split at hc
  · simp only [List.mem_map] at hc
    obtain ⟨c0, hc0, e⟩ := hc
    have := h c0 hc0
    split at e
    · subst e; simp only; omega
    · subst e; exact this
  · simp only [List.mem_append, List.mem_singleton] at hc
    rcases hc with hc | e
    · exact h c hc
    · subst e; exact hx

theorem pullCoins_ok (g : Gauge) (ratio : Dec) (b0 : Bank) :
    ∀ (coins : Coins) (st : State) (rel : Coins),
      (coins.map (·.1)).Nodup →
      (∀ c ∈ coins, CoinSafe ratio c.2 (bal b0 g.account c.1)) →
      (∀ c ∈ coins, bal st.bank g.account c.1 = bal b0 g.account c.1) →
      (∀ c ∈ rel, 0 ≤ c.2) →
      ∃ st' rel', coins.foldlM (coinStep g ratio) (st, rel) = .ok (st', rel') ∧
        st'.gauges = st.gauges ∧ st'.moduleAcc = st.moduleAcc ∧ (∀ c ∈ rel', 0 ≤ c.2) ∧
        ∀ a, a ≠ g.account → a ≠ st.moduleAcc → Agree st.bank st'.bank a
  | [], st, rel, _, _, _, hrel => ⟨st, rel, rfl, rfl, rfl, hrel, fun a _ _ => Agree.refl _ a⟩
  | (d, A) :: coins, st, rel, hnd, hsafe, hbal, hrel => by
    simp only [List.map_cons, List.nodup_cons] at hnd
    obtain ⟨hd, hnd'⟩ := hnd
    have hsafe' : ∀ c ∈ coins, CoinSafe ratio c.2 (bal b0 g.account c.1) :=
      fun c hc => hsafe c (List.mem_cons_of_mem _ hc)
    obtain ⟨hnn, hin⟩ := hsafe (d, A) (by simp)
    have hb := hbal (d, A) (by simp)
    simp only at hnn hin hb
    simp only [List.foldlM_cons, bind, Except.bind]
    -- the step on the head coin
    have hstep : ∃ st1 rel1, coinStep g ratio (st, rel) (d, A) = .ok (st1, rel1) ∧
        st1.gauges = st.gauges ∧ st1.moduleAcc = st.moduleAcc ∧ (∀ c ∈ rel1, 0 ≤ c.2) ∧
        (∀ a, a ≠ g.account → a ≠ st.moduleAcc → Agree st.bank st1.bank a) ∧
        (∀ c ∈ coins, bal st1.bank g.account c.1 = bal b0 g.account c.1) := by
      unfold coinStep
      simp only [hb, hin, Bool.not_true, Bool.false_eq_true, if_false]
      have hbal' : ∀ c ∈ coins, bal st.bank g.account c.1 = bal b0 g.account c.1 :=
        fun c hc => hbal c (List.mem_cons_of_mem _ hc)
      split
      · exact ⟨st, rel, rfl, rfl, rfl, hrel, fun a _ _ => Agree.refl _ a, hbal'⟩
      · have hlt : ¬ gaugeAmt ratio A (bal b0 g.account d) < 0 := by omega
        simp only [hlt, if_false]
        have hrel1 := addCoinTo_nonneg hrel d hnn
        split
        · rename_i b hsend
          refine ⟨_, _, rfl, rfl, rfl, hrel1, fun a h1 h2 => agree_send a (Ne.symm h1) (Ne.symm h2) hsend, ?_⟩
          intro c hc
          have hne : d ≠ c.1 := by
            intro e; apply hd; rw [e]; exact List.mem_map_of_mem hc
          rw [bal_send hsend g.account c.1]
          simp only [amt, hne, if_false]
          have := hbal' c hc
          split <;> split <;> omega
        · exact ⟨st, _, rfl, rfl, rfl, hrel1, fun a _ _ => Agree.refl _ a, hbal'⟩
    obtain ⟨st1, rel1, e1, g1, m1, r1, a1, b1⟩ := hstep
    obtain ⟨st', rel', e2, g2, m2, r2, a2⟩ := pullCoins_ok g ratio b0 coins st1 rel1 hnd' hsafe' b1 r1
    refine ⟨st', rel', ?_, g2.trans g1, m2.trans m1, r2, ?_⟩
    · simp only [e1]; exact e2
    · intro a h1 h2
      exact (a1 a h1 h2).trans (a2 a h1 (by rw [m1]; exact h2))

/-- one gauge is safe against ledger `b` at block time `now`: if it is live and its escrow account
is funded, the duration is not zero microseconds and every coin's release is non-negative and in
int64 range -/
def GaugeSafe (b : Bank) (now : Int) (g : Gauge) : Prop :=
  g.startT < g.endT → now ≤ g.endT → acctEmpty b g.account = false →
    ∃ q, Dec.quo? (Dec.ofInt (Int.tdiv g.endT 1000 - Int.tdiv now 1000))
            (Dec.ofInt (Int.tdiv g.endT 1000 - Int.tdiv g.startT 1000)) = some q ∧
      ∀ c ∈ g.coins, CoinSafe (Dec.sub Dec.one q) c.2 (bal b g.account c.1)

theorem GaugeSafe.of_agree {b b' : Bank} {now : Int} {g : Gauge} (ha : Agree b b' g.account)
    (h : GaugeSafe b now g) : GaugeSafe b' now g := by
  intro h1 h2 h3
  rw [ha.1] at h3
  obtain ⟨q, hq, hc⟩ := h h1 h2 h3
  refine ⟨q, hq, fun c hcm => ?_⟩
  rw [ha.2]; exact hc c hcm

theorem pullGauge_live {s : State} {now : Int} {rel : Coins} {g : Gauge} {q : Dec}
    (h1 : g.startT < g.endT) (h2 : now ≤ g.endT) (h3 : acctEmpty s.bank g.account = false)
    (hq : Dec.quo? (Dec.ofInt (Int.tdiv g.endT 1000 - Int.tdiv now 1000))
            (Dec.ofInt (Int.tdiv g.endT 1000 - Int.tdiv g.startT 1000)) = some q) :
    pullGauge s now rel g = g.coins.foldlM (coinStep g (Dec.sub Dec.one q)) (s, rel) := by
  unfold pullGauge
  have c1 : ¬ g.endT < now := by omega
  have c2 : ¬ g.endT ≤ g.startT := by omega
  unfold acctEmpty at h3
  simp only [c1, c2, if_false, h3, hq]
  rfl

theorem pullGauge_ok (s : State) (now : Int) (rel : Coins) (g : Gauge)
    (hsafe : GaugeSafe s.bank now g) (hnd : (g.coins.map (·.1)).Nodup) (hrel : ∀ c ∈ rel, 0 ≤ c.2) :
    ∃ s' rel', pullGauge s now rel g = .ok (s', rel') ∧ s'.moduleAcc = s.moduleAcc ∧
      (∀ c ∈ rel', 0 ≤ c.2) ∧ ∀ a, a ≠ g.account → a ≠ s.moduleAcc → Agree s.bank s'.bank a := by
  by_cases h1 : g.endT < now
  · refine ⟨{ s with gauges := AMap.erase s.gauges g.id }, rel, ?_, rfl, hrel, fun a _ _ => Agree.refl _ a⟩
    unfold pullGauge; simp only [h1, if_true]
  by_cases h2 : g.endT ≤ g.startT
  · refine ⟨{ s with gauges := AMap.erase s.gauges g.id }, rel, ?_, rfl, hrel, fun a _ _ => Agree.refl _ a⟩
    unfold pullGauge; simp only [h1, h2, if_true, if_false]
  cases h3 : acctEmpty s.bank g.account with
  | true =>
    refine ⟨{ s with gauges := AMap.erase s.gauges g.id }, rel, ?_, rfl, hrel, fun a _ _ => Agree.refl _ a⟩
    unfold acctEmpty at h3
    unfold pullGauge; simp only [h1, h2, if_false, h3, if_true]
  | false =>
    obtain ⟨q, hq, hc⟩ := hsafe (by omega) (by omega) h3
    rw [pullGauge_live (by omega) (by omega) h3 hq]
    obtain ⟨st', rel', e, _, m, r, a⟩ := pullCoins_ok g (Dec.sub Dec.one q) s.bank g.coins s rel hnd hc
      (fun _ _ => rfl) hrel
    exact ⟨st', rel', e, m, r, a⟩

/-- **`GaugesSafe`** — the explicit hypothesis of C05 about the gauges at block time `now`:
every gauge is safe against the current ledger; escrow accounts are distinct from the module
account and from one another (each is derived from the gauge id), and a gauge records each
denomination once. -/
structure GaugesSafe (s : State) (now : Int) : Prop where
  safe : ∀ kv ∈ s.gauges, GaugeSafe s.bank now kv.2
  accNeMod : ∀ kv ∈ s.gauges, kv.2.account ≠ s.moduleAcc
  accDistinct : s.gauges.Pairwise (fun x y => x.2.account ≠ y.2.account)
  denomsDistinct : ∀ kv ∈ s.gauges, (kv.2.coins.map (·.1)).Nodup

theorem GaugesSafe.congr {s s' : State} {now : Int} (hb : s'.bank = s.bank) (hg : s'.gauges = s.gauges)
    (hm : s'.moduleAcc = s.moduleAcc) (h : GaugesSafe s now) : GaugesSafe s' now := by
  obtain ⟨a, b, c, d⟩ := h
  constructor
  · rw [hb, hg]; exact a
  · rw [hg, hm]; exact b
  · rw [hg]; exact c
  · rw [hg]; exact d

/-- releasing from every gauge never panics, and releases only non-negative amounts -/
theorem pullGauges_ok (s : State) (now : Int) (h : GaugesSafe s now) :
    ∃ s' rel, pullGauges s now = .ok (s', rel) ∧ ∀ c ∈ rel, 0 ≤ c.2 := by
  unfold pullGauges
  let P : List (String × Gauge) → State × Coins → Prop := fun rest acc =>
    acc.1.moduleAcc = s.moduleAcc ∧ (∀ c ∈ acc.2, 0 ≤ c.2) ∧
    (∀ kv ∈ rest, GaugeSafe acc.1.bank now kv.2 ∧ kv.2.account ≠ s.moduleAcc ∧
      (kv.2.coins.map (·.1)).Nodup) ∧
    rest.Pairwise (fun x y => x.2.account ≠ y.2.account)
  have := foldlM_except_ok P (fun (acc : State × Coins) kv => pullGauge acc.1 now acc.2 kv.2) ?_ s.gauges (s, [])
    ⟨rfl, by simp, fun kv hkv => ⟨h.safe kv hkv, h.accNeMod kv hkv, h.denomsDistinct kv hkv⟩, h.accDistinct⟩
  · obtain ⟨⟨s', rel⟩, e, _, hr, _⟩ := this
    exact ⟨s', rel, e, hr⟩
  · intro kv rest acc hP
    obtain ⟨st, rel⟩ := acc
    obtain ⟨p1, p2, p3, p4⟩ := hP
    simp only at p1 p2 p3
    obtain ⟨g1, g2, g3⟩ := p3 kv (by simp)
    obtain ⟨st', rel', e, m, r, a⟩ := pullGauge_ok st now rel kv.2 g1 g3 p2
    rw [List.pairwise_cons] at p4
    refine ⟨(st', rel'), e, m.trans p1, r, ?_, p4.2⟩
    intro kv' hkv'
    obtain ⟨q1, q2, q3⟩ := p3 kv' (List.mem_cons_of_mem _ hkv')
    refine ⟨GaugeSafe.of_agree (a _ (Ne.symm (p4.1 kv' hkv')) (by rw [p1]; exact q2)) q1, q2, q3⟩

/-! ## sizes of stored files through every writer -/

def SizesOkF (F : AMap FKey File) : Prop := ∀ kv ∈ F, 1 ≤ kv.2.fileSize ∧ 1 ≤ kv.2.maxProofs

theorem SizesOkF.set {F : AMap FKey File} (h : SizesOkF F) (k : FKey) {f : File}
    (hf : 1 ≤ f.fileSize ∧ 1 ≤ f.maxProofs) : SizesOkF (AMap.set F k f) := by
  intro kv hkv
  rcases AMap.mem_of_mem_set hkv with e | hm
  · subst e; exact hf
  · exact h kv hm

theorem SizesOkF.erase {F : AMap FKey File} (h : SizesOkF F) (k : FKey) : SizesOkF (AMap.erase F k) :=
  fun kv hkv => h kv (AMap.mem_of_mem_erase hkv)

theorem SizesOkF.of_get {F : AMap FKey File} (h : SizesOkF F) {k : FKey} {f : File}
    (hg : AMap.get F k = some f) : 1 ≤ f.fileSize ∧ 1 ≤ f.maxProofs := h (k, f) (AMap.mem_of_get hg)

theorem removeFile_sizes {s : State} (h : SizesOkF s.files) (k : FKey) : SizesOkF (removeFile s k).files := by
  unfold removeFile
  split
  · exact h
  · exact h.erase k

theorem SizesOkF.rewrites {F F' : AMap FKey File} {file : File} (h : SizesOkF F)
    (hf : 1 ≤ file.fileSize ∧ 1 ≤ file.maxProofs) (hr : Rewrites file F F') : SizesOkF F' := by
  induction hr with
  | refl => exact h
  | step g _ hg ih =>
    obtain ⟨_, _, _, a4, a5⟩ := acct_eq hg
    exact ih.set _ (by rw [a4, a5]; exact hf)

theorem manageFile_sizes {s : State} (h : Int) (t : Tracker) {file : File} (hs : SizesOkF s.files)
    (hf : 1 ≤ file.fileSize ∧ 1 ≤ file.maxProofs) : SizesOkF (manageFile s h t file).1.files := by
  rcases manageFile_shape s h t file with ⟨_, _, e⟩ | ⟨_, _, e3, _, _⟩
  · rw [e]; exact removeFile_sizes hs _
  · exact hs.rewrites hf e3

theorem manageFiles_sizes (h : Int) : ∀ (l : AMap FKey File) (s : State) (t : Tracker),
    SizesOkF s.files → SizesOkF l →
    SizesOkF (l.foldl (fun (acc : State × Tracker) kv => manageFile acc.1 h acc.2 kv.2) (s, t)).1.files
  | [], _, _, hs, _ => hs
  | (k, f) :: l, s, t, hs, hl => by
    simp only [List.foldl_cons]
    exact manageFiles_sizes h l _ _ (manageFile_sizes h t hs (hl (k, f) (by simp)))
      (fun kv hkv => hl kv (List.mem_cons_of_mem _ hkv))

theorem beginBlock_sizes {s s' : State} {h now : Int} (hs : SizesOkF s.files)
    (hb : beginBlock s h now = .ok s') : SizesOkF s'.files ∧ s'.params = s.params := by
  unfold beginBlock at hb
  split at hb
  · simp at hb
  split at hb
  · simp only [Except.ok.injEq] at hb; subst hb; exact ⟨hs, rfl⟩
  unfold manageRewards at hb
  simp only [bind, Except.bind] at hb
  have h1 := manageFiles_sizes h s.files s [] hs hs
  have h1' := (manageFiles_tracker h s.files s [] (fun kv hkv => by have := (hs kv hkv).1; omega)
    (fun _ hp => by simp at hp)).2.2
  generalize (s.files.foldl (fun (acc : State × Tracker) kv => manageFile acc.1 h acc.2 kv.2) (s, [])) = r at h1 h1' hb
  obtain ⟨s1, tr⟩ := r
  simp only at hb h1 h1'
  split at hb
  · simp at hb
  rename_i v hpg
  obtain ⟨s2, coins⟩ := v
  simp only at hb
  obtain ⟨f1, _, _, f4, _⟩ := pullGauges_stores hpg
  have := foldlM_except_inv (fun st : State => sameStores s2 st) _
    (fun b a b' hb hstep => payProver_stores hb hstep) _ s2 s' ⟨rfl, rfl, rfl, rfl, rfl⟩ hb
  refine ⟨?_, ?_⟩
  · rw [this.1, f1]; exact h1
  · rw [this.2.2.2.1, f4]; exact h1'.2.2.2.1

theorem removeProver_sizes {s : State} (hs : SizesOkF s.files) {f : File}
    (hf : 1 ≤ f.fileSize ∧ 1 ≤ f.maxProofs) (pk : PKey) : SizesOkF (removeProver s f pk).1.files := by
  unfold removeProver
  split
  · exact hs.set _ hf
  · exact hs

theorem postProof_sizes {s : State} (hs : SizesOkF s.files) (h : Int) (c m o : String) (st tp : Int) (v : Bool)
    (nc : Int) : SizesOkF (postProof s h c m o st tp v nc).state.files := by
  generalize hr : postProof s h c m o st tp v nc = r
  unfold postProof at hr
  split at hr
  · subst hr; exact hs
  · rename_i f hg
    have hf := hs.of_get hg
    simp only at hr
    repeat' split at hr
    all_goals
      subst hr
      first
      | exact hs
      | exact hs.set _ hf

theorem updProvider_files {s s' : State} {c : String} {f : Provider → Option Provider}
    (hs : updProvider s c f = some s') : s'.files = s.files ∧ s'.params = s.params := by
  simp only [updProvider, bind, Option.bind_eq_some_iff] at hs
  obtain ⟨_, _, _, _, hs⟩ := hs
  simp only [Option.some.injEq] at hs; subst hs
  exact ⟨rfl, rfl⟩

theorem attest_files (s : State) (h : Int) (c p m o : String) (st : Int) :
    (attest s h c p m o st).files = s.files ∧ (attest s h c p m o st).params = s.params := by
  unfold attest
  simp only
  repeat' split
  all_goals exact ⟨rfl, rfl⟩

theorem removeFile_params (s : State) (k : FKey) : (removeFile s k).params = s.params := by
  unfold removeFile; split <;> rfl

theorem removeProver_params (s : State) (f : File) (pk : PKey) : (removeProver s f pk).1.params = s.params := by
  unfold removeProver; split <;> rfl

theorem postProof_params (s : State) (h : Int) (c m o : String) (st tp : Int) (v : Bool) (nc : Int) :
    (postProof s h c m o st tp v nc).state.params = s.params := by
  generalize hr : postProof s h c m o st tp v nc = r
  unfold postProof at hr
  split at hr
  · subst hr; rfl
  · simp only at hr
    repeat' split at hr
    all_goals
      subst hr
      rfl

/-- every message keeps all stored sizes ≥ 1 and leaves the parameters alone -/
theorem step_sizes {s s' : State} {h now : Int} {op : Op} (hs : SizesOkF s.files)
    (hstep : step s h now op = some s') : SizesOkF s'.files ∧ s'.params = s.params := by
  cases op with
  | postFile c m fs mp ex pt note nv jp gid gacc =>
    simp only [step] at hstep
    obtain ⟨hp, h1, h2, hF, _⟩ := postFile_shape hstep
    refine ⟨?_, hp⟩
    rw [hF]
    exact (removeFile_sizes hs _).set _ ⟨h1, h2⟩
  | deleteFile c m st =>
    simp only [step, Option.some.injEq] at hstep; subst hstep
    exact ⟨removeFile_sizes hs _, removeFile_params _ _⟩
  | buyStorage c fa dd b dn ref jp gid gacc =>
    simp only [step] at hstep
    obtain ⟨_, _, hp, hF, _⟩ := buyStorage_shape hstep
    exact ⟨by rw [hF]; exact hs, hp⟩
  | initProvider c ip kb ts iv =>
    simp only [step, initProvider, bind, Option.bind_eq_some_iff, req_eq_some] at hstep
    obtain ⟨_, _, _, _, _, _, _, _, _, _, hs'⟩ := hstep
    simp only [Option.some.injEq] at hs'; subst hs'
    exact ⟨hs, rfl⟩
  | shutdownProvider c =>
    simp only [step, shutdownProvider, bind, Option.bind_eq_some_iff, req_eq_some] at hstep
    obtain ⟨_, _, hs'⟩ := hstep
    split at hs'
    · simp only [Option.bind_eq_some_iff, req_eq_some] at hs'
      obtain ⟨_, _, _, _, _, _, hs'⟩ := hs'
      simp only [Option.some.injEq] at hs'; subst hs'
      exact ⟨hs, rfl⟩
    · simp only [Option.some.injEq] at hs'; subst hs'
      exact ⟨hs, rfl⟩
  | setProviderIP c ip iv =>
    simp only [step] at hstep
    split at hstep
    · obtain ⟨e1, e2⟩ := updProvider_files hstep; exact ⟨by rw [e1]; exact hs, e2⟩
    · simp at hstep
  | setProviderKeybase c kb => obtain ⟨e1, e2⟩ := updProvider_files hstep; exact ⟨by rw [e1]; exact hs, e2⟩
  | setProviderTotalSpace c sp => obtain ⟨e1, e2⟩ := updProvider_files hstep; exact ⟨by rw [e1]; exact hs, e2⟩
  | addClaimer c cl => obtain ⟨e1, e2⟩ := updProvider_files hstep; exact ⟨by rw [e1]; exact hs, e2⟩
  | removeClaimer c cl => obtain ⟨e1, e2⟩ := updProvider_files hstep; exact ⟨by rw [e1]; exact hs, e2⟩
  | postProof c m o st tp v nc =>
    simp only [step, Option.some.injEq] at hstep; subst hstep
    exact ⟨postProof_sizes hs _ _ _ _ _ _ _ _, postProof_params _ _ _ _ _ _ _ _ _⟩
  | requestAttest c m o st ec ch =>
    simp only [step, Option.some.injEq] at hstep; subst hstep
    split <;> exact ⟨hs, rfl⟩
  | attest c p m o st =>
    simp only [step, Option.some.injEq] at hstep; subst hstep
    obtain ⟨e1, e2⟩ := attest_files s h c p m o st
    exact ⟨by rw [e1]; exact hs, e2⟩
  | requestReport c p m o st ec ch =>
    simp only [step, Option.some.injEq] at hstep; subst hstep
    split <;> exact ⟨hs, rfl⟩
  | report c p m o st =>
    simp only [step, report, bind, Option.bind_eq_some_iff, req_eq_some] at hstep
    obtain ⟨form, _, _, _, hs'⟩ := hstep
    split at hs'
    · simp only [Option.some.injEq] at hs'; subst hs'; exact ⟨hs, rfl⟩
    · simp only [Option.bind_eq_some_iff] at hs'
      obtain ⟨f, hf, hs'⟩ := hs'
      simp only [Option.some.injEq] at hs'; subst hs'
      exact ⟨removeProver_sizes (s := { s with reports := AMap.erase s.reports (p, (m, o, st)) }) hs
        (hs.of_get hf) _, removeProver_params _ _ _⟩

/-! ## a funded gauge is safe -/

theorem chopRoundNat_le_mul (z B : Int) (h1 : z ≤ B * precision) : chopRoundNat z ≤ B := by
  unfold chopRoundNat precision fivePrecision at *
  simp only
  split
  · omega
  · split
    · omega
    · split
      · omega
      · split <;> omega

theorem chopRound_bounds (z B : Int) (h0 : 0 ≤ z) (h1 : z ≤ B * precision) :
    0 ≤ chopRound z ∧ chopRound z ≤ B := by
  refine ⟨Canine.Mint.chopRound_nonneg z h0, ?_⟩
  unfold chopRound
  have : ¬ z < 0 := by omega
  simp only [this, if_false]
  exact chopRoundNat_le_mul z B h1

/-- the elapsed fraction of a gauge is a decimal in [0, 1] -/
theorem quo_le_one (L T : Int) (hL : 0 ≤ L) (hLT : L ≤ T) (hT : 0 < T) :
    ∃ q, Dec.quo? (Dec.ofInt L) (Dec.ofInt T) = some q ∧ 0 ≤ q.raw ∧ q.raw ≤ precision := by
  unfold Dec.quo? Dec.ofInt
  have hne : ¬ (T * precision = 0) := by unfold precision; omega
  simp only [hne, if_false]
  refine ⟨_, rfl, ?_⟩
  simp only
  have hX : 0 ≤ L * precision * precision * precision := by unfold precision; omega
  have hY : 0 < T * precision := by unfold precision; omega
  have hXY : L * precision * precision * precision ≤ precision * precision * (T * precision) := by
    unfold precision; omega
  have hdiv : tdiv (L * precision * precision * precision) (T * precision)
      = L * precision * precision * precision / (T * precision) := by
    unfold tdiv; simp only [hX, Int.le_of_lt hY, if_true]
  rw [hdiv]
  apply chopRound_bounds
  · exact Int.ediv_nonneg hX (Int.le_of_lt hY)
  · exact Int.ediv_le_of_le_mul hY hXY

theorem tdiv1000_mono {a b : Int} (h : a ≤ b) : Int.tdiv a 1000 ≤ Int.tdiv b 1000 := by
  rw [← tdiv_eq, ← tdiv_eq]; unfold tdiv
  simp only [show (0:Int) ≤ 1000 by omega, if_true]
  split <;> split <;> omega

theorem tdiv1000_strict {a b : Int} (h : a + 1999 ≤ b) : Int.tdiv a 1000 < Int.tdiv b 1000 := by
  rw [← tdiv_eq, ← tdiv_eq]; unfold tdiv
  simp only [show (0:Int) ≤ 1000 by omega, if_true]
  split <;> split <;> omega

/-- the release for one coin lies between 0 and the escrow balance whenever the recorded amount
is non-negative and at most the balance (nothing was withdrawn beyond the schedule) -/
theorem gaugeAmt_bounds (ratio : Dec) (A bal : Int) (hr0 : 0 ≤ ratio.raw) (hr1 : ratio.raw ≤ precision)
    (hA : 0 ≤ A) (hb : A ≤ bal) : 0 ≤ gaugeAmt ratio A bal ∧ gaugeAmt ratio A bal ≤ bal := by
  unfold gaugeAmt Dec.trunc chopTrunc Dec.sub Dec.mul Dec.ofInt
  simp only
  have hW0 : 0 ≤ ratio.raw * (A * precision) := Int.mul_nonneg hr0 (by unfold precision; omega)
  have hW1 : ratio.raw * (A * precision) ≤ precision * (A * precision) :=
    Int.mul_le_mul_of_nonneg_right hr1 (by unfold precision; omega)
  have hW1' : ratio.raw * (A * precision) ≤ (A * precision) * precision := by
    rw [Int.mul_comm (A * precision) precision]; exact hW1
  obtain ⟨c0, c1⟩ := chopRound_bounds _ (A * precision) hW0 hW1'
  generalize chopRound (ratio.raw * (A * precision)) = w at c0 c1
  unfold tdiv precision at *
  have : (0:Int) ≤ w - (A - bal) * 1000000000000000000 := by omega
  simp only [this, show (0:Int) ≤ 1000000000000000000 by omega, if_true]
  omega

/-- **`GaugeSafe` right after creation** (and, more generally, whenever nothing beyond the
recorded amount is missing from escrow): a gauge that started no later than `now`, lasts at least
a day — two microseconds would do (one, for non-negative Unix times) — and whose escrow holds at least every recorded non-negative
amount, below 2^62, is safe. -/
theorem gaugeSafe_of_funded (b : Bank) (now : Int) (g : Gauge)
    (hstart : g.startT ≤ now) (hdur : g.endT - g.startT ≥ 1999)
    (hcoins : ∀ c ∈ g.coins, 0 ≤ c.2 ∧ c.2 ≤ bal b g.account c.1 ∧ bal b g.account c.1 < 2 ^ 62) :
    GaugeSafe b now g := by
  intro _ hend _
  have hL : 0 ≤ Int.tdiv g.endT 1000 - Int.tdiv now 1000 := by have := tdiv1000_mono hend; omega
  have hLT : Int.tdiv g.endT 1000 - Int.tdiv now 1000 ≤ Int.tdiv g.endT 1000 - Int.tdiv g.startT 1000 := by
    have := tdiv1000_mono hstart; omega
  have hT : 0 < Int.tdiv g.endT 1000 - Int.tdiv g.startT 1000 := by
    have := tdiv1000_strict (a := g.startT) (b := g.endT) (by omega); omega
  obtain ⟨q, hq, q0, q1⟩ := quo_le_one _ _ hL hLT hT
  refine ⟨q, hq, ?_⟩
  intro c hc
  obtain ⟨a0, a1, a2⟩ := hcoins c hc
  have := gaugeAmt_bounds (Dec.sub Dec.one q) c.2 (bal b g.account c.1)
    (by unfold Dec.sub Dec.one Dec.ofInt precision at *; simp only; omega)
    (by unfold Dec.sub Dec.one Dec.ofInt precision at *; simp only; omega) a0 a1
  refine ⟨this.1, ?_⟩
  unfold I64.inRange I64.minV I64.maxV
  simp only [Bool.and_eq_true, decide_eq_true_eq]
  have h62 : (2:Int) ^ 62 = 4611686018427387904 := by decide
  omega

end Canine.Storage
