/-
Helper lemmas for the whole-block part of C03 (`Canine/Props/C03.lean`): the tracker built by the
file pass of `manageRewards` as a pure fold over the passing (file, proof key) pairs, the state after
the file pass, the payout loop as a log of the sends that went through, and the arithmetic that
bounds the sum paid by the amount released.  Imports only the `StorageB` family.  Core Lean only.
-/
import Canine.Proofs.StorageB
namespace Canine.Storage.RewardBlock
open Canine Canine.Storage

/-! ## 1. the tracker as a pure fold -/

/-- crediting a list of (name, size) entries, left to right -/
def creditAll (t : Tracker) (l : List (String × Int)) : Tracker :=
  l.foldl (fun t e => credit t e.1 e.2) t

/-- total size of the entries of `l` under the name `a` -/
def wsum (a : String) : List (String × Int) → Int
  | [] => 0
  | e :: l => (if e.1 = a then e.2 else 0) + wsum a l

theorem creditAll_nil (t : Tracker) : creditAll t [] = t := rfl
theorem creditAll_cons (t : Tracker) (e : String × Int) (l : List (String × Int)) :
    creditAll t (e :: l) = creditAll (credit t e.1 e.2) l := rfl

theorem creditAll_append (t : Tracker) (l1 l2 : List (String × Int)) :
    creditAll t (l1 ++ l2) = creditAll (creditAll t l1) l2 := by
  unfold creditAll; rw [List.foldl_append]

theorem wsum_append (a : String) (l1 l2 : List (String × Int)) :
    wsum a (l1 ++ l2) = wsum a l1 + wsum a l2 := by
  induction l1 with
  | nil => simp [wsum]
  | cons e l ih => simp only [List.cons_append, wsum, ih]; omega

/-- the credit of every name after `creditAll` -/
theorem creditAll_getD : ∀ (l : List (String × Int)) (t : Tracker) (a : String),
    (AMap.get (creditAll t l) a).getD 0 = (AMap.get t a).getD 0 + wsum a l
  | [], t, a => by simp [creditAll, wsum]
  | e :: l, t, a => by
    rw [creditAll_cons, creditAll_getD l, credit_getD]; simp only [wsum]; omega

theorem credit_keys (t : Tracker) (n : String) (x : Int) (a : String) :
    a ∈ AMap.keys (credit t n x) ↔ a ∈ AMap.keys t ∨ a = n := by
  unfold credit
  rw [AMap.keys_set]
  split
  · rename_i hn
    constructor
    · exact Or.inl
    · rintro (h | h)
      · exact h
      · subst h; exact hn
  · simp

/-- the keys of the tracker after `creditAll`: the old ones and the credited names, nothing else -/
theorem creditAll_keys : ∀ (l : List (String × Int)) (t : Tracker) (a : String),
    a ∈ AMap.keys (creditAll t l) ↔ a ∈ AMap.keys t ∨ a ∈ l.map (·.1)
  | [], t, a => by simp [creditAll]
  | e :: l, t, a => by
    rw [creditAll_cons, creditAll_keys l, credit_keys]
    simp only [List.map_cons, List.mem_cons]
    constructor
    · rintro ((h | h) | h)
      · exact Or.inl h
      · exact Or.inr (Or.inl h)
      · exact Or.inr (Or.inr h)
    · rintro (h | h | h)
      · exact Or.inl (Or.inl h)
      · exact Or.inl (Or.inr h)
      · exact Or.inr h

theorem credit_wf (t : Tracker) (n : String) (x : Int) (h : AMap.WF t) : AMap.WF (credit t n x) :=
  AMap.wf_set _ _ h

theorem creditAll_wf : ∀ (l : List (String × Int)) (t : Tracker), AMap.WF t → AMap.WF (creditAll t l)
  | [], _, h => h
  | e :: l, t, h => by
    rw [creditAll_cons]; exact creditAll_wf l _ (credit_wf _ _ _ h)

theorem credit_sumBy (t : Tracker) (n : String) (x : Int) (h : AMap.WF t) :
    AMap.sumBy id (credit t n x) = AMap.sumBy id t + x := by
  unfold credit
  rw [AMap.sumBy_set id n _ h]
  cases AMap.get t n <;> simp <;> omega

/-- the total weight of the tracker rises by the total size of the credited entries -/
theorem creditAll_sumBy : ∀ (l : List (String × Int)) (t : Tracker), AMap.WF t →
    AMap.sumBy id (creditAll t l) = AMap.sumBy id t + (l.map (·.2)).sum
  | [], t, _ => by simp [creditAll]
  | e :: l, t, h => by
    rw [creditAll_cons, creditAll_sumBy l _ (credit_wf _ _ _ h), credit_sumBy t _ _ h]
    simp only [List.map_cons, List.sum_cons]; omega

/-- every entry of the tracker after `creditAll` on the empty tracker is a sum of credited sizes -/
theorem creditAll_entry (l : List (String × Int)) (p : String) (w : Int)
    (hm : (p, w) ∈ creditAll [] l) : w = wsum p l := by
  have hwf : AMap.WF (creditAll [] l) := creditAll_wf l [] (by simp [AMap.WF, AMap.keys])
  have := creditAll_getD l [] p
  rw [AMap.get_of_mem_wf hwf hm] at this
  simpa using this

theorem wsum_nonneg (a : String) : ∀ (l : List (String × Int)), (∀ e ∈ l, 0 ≤ e.2) → 0 ≤ wsum a l
  | [], _ => by simp [wsum]
  | e :: l, h => by
    have := wsum_nonneg a l (fun x hx => h x (List.mem_cons_of_mem _ hx))
    have := h e (by simp)
    simp only [wsum]; split <;> omega

/-! ### the per-file loop credits exactly the passing keys, in list order -/

/-- the (credited name, size) entries of the passing keys of `l` -/
def passEntriesOf (s : State) (h : Int) (f : File) (l : List PKey) : List (String × Int) :=
  (l.filter (passes s h f)).map (fun pk => (creditName s pk, f.fileSize))

theorem passEntriesOf_congr {s s' : State} {h : Int} {f f' : File} {l : List PKey}
    (hp : ∀ q ∈ l, AMap.get s'.proofs q = AMap.get s.proofs q) (h2 : f'.start = f.start)
    (h3 : f'.proofInterval = f.proofInterval) (h4 : f'.fileSize = f.fileSize) :
    passEntriesOf s' h f' l = passEntriesOf s h f l := by
  unfold passEntriesOf
  have e1 : l.filter (passes s' h f') = l.filter (passes s h f) :=
    List.filter_congr (fun q hq => passes_congr (hp q hq) h2 h3)
  rw [e1, h4]
  apply List.map_congr_left
  intro q hq
  rw [creditName_congr (hp q (List.mem_filter.mp hq).1)]

theorem runProofs_tracker (h : Int) : ∀ (l : List PKey) (s : State) (t : Tracker) (f : File),
    l.Nodup → (∀ pk ∈ l, pk ∈ f.proofs) →
    (runProofs h l s t f).2.1 = creditAll t (passEntriesOf s h f l)
  | [], s, t, f, _, _ => by simp [runProofs, passEntriesOf, creditAll]
  | pk :: l, s, t, f, hnd, hsub => by
    have hpk : pk ∉ l := (List.nodup_cons.mp hnd).1
    have hnd' : l.Nodup := (List.nodup_cons.mp hnd).2
    have hm : pk ∈ f.proofs := hsub pk (by simp)
    rw [runProofs_cons]
    cases hp : passes s h f pk
    · rw [manageProof_fail s h t f pk hp hm]
      simp only
      obtain ⟨_, _, e3, _, _⟩ := failStep_facts s f pk
      generalize hs1 : (if (AMap.get s.proofs pk).isSome then burnContract (dropProver s f pk).1 pk.1 else (dropProver s f pk).1) = s1 at *
      have hf1 : (dropProver s f pk).2 = { f with proofs := f.proofs.filter (· ≠ pk) } := rfl
      generalize (dropProver s f pk).2 = f1 at *
      rw [runProofs_tracker h l s1 t f1 hnd'
        (by intro q hq; rw [hf1]; simp only [List.mem_filter]
            exact ⟨hsub q (List.mem_cons_of_mem _ hq), by simp; intro e; exact hpk (e ▸ hq)⟩)]
      have e : passEntriesOf s1 h f1 l = passEntriesOf s h f l :=
        passEntriesOf_congr
          (fun q hq => by
            have hne : q ≠ pk := fun e => hpk (e ▸ hq)
            rw [e3, AMap.get_erase_other _ _ _ (Ne.symm hne)])
          (by rw [hf1]) (by rw [hf1]) (by rw [hf1])
      rw [e]
      simp [passEntriesOf, hp]
    · rw [manageProof_pass s h t f pk hp]
      simp only
      rw [runProofs_tracker h l s _ f hnd' (fun q hq => hsub q (List.mem_cons_of_mem _ hq))]
      simp [passEntriesOf, hp, creditAll]


/-! ## 2. one file of the block -/

/-- the "no provers left and past the first window" test of `removeFileIfDeserved` -/
def emptyOld (h : Int) (f : File) : Bool := f.proofs.isEmpty && !(isYoung h f.start f.proofInterval)

/-- what is stored under the file's key after the block: nothing for an empty old file, otherwise
the file with exactly its passing provers, in order -/
def outcome (s : State) (h : Int) (f : File) : Option File :=
  if emptyOld h f then none else some { f with proofs := f.proofs.filter (passes s h f) }

/-- `SameRest` without the payment plans (dropping an empty old plan-paid file returns its footprint) -/
def SameRestB (s' s : State) : Prop :=
  s'.collateral = s.collateral ∧ s'.gauges = s.gauges ∧ s'.attests = s.attests ∧
  s'.reports = s.reports ∧ s'.bank = s.bank ∧ s'.params = s.params ∧ s'.moduleAcc = s.moduleAcc ∧
  s'.collateralAcc = s.collateralAcc ∧ s'.polAcc = s.polAcc ∧ s'.feeAcc = s.feeAcc ∧ s'.blocked = s.blocked

theorem SameRestB.refl (s : State) : SameRestB s s := by simp [SameRestB]
theorem SameRestB.trans {a b c : State} (h1 : SameRestB a b) (h2 : SameRestB b c) : SameRestB a c := by
  unfold SameRestB at *; grind
theorem SameRestB.of_sameRest {a b : State} (h : SameRest a b) : SameRestB a b := by
  unfold SameRest at h; unfold SameRestB; grind

theorem manageFile_eq' (s : State) (h : Int) (t : Tracker) (file : File) :
    manageFile s h t file =
      let s1 := if emptyOld h file then removeFile s file.key else s
      ((runProofs h file.proofs s1 t file).1, (runProofs h file.proofs s1 t file).2.1) := rfl

theorem removeFile_empty (s : State) (f : File) (hf : AMap.get s.files f.key = some f) (he : f.proofs = []) :
    (removeFile s f.key).files = AMap.erase s.files f.key ∧
    (removeFile s f.key).files2 = AMap.erase s.files2 f.key ∧
    (removeFile s f.key).proofs = s.proofs ∧ (removeFile s f.key).providers = s.providers ∧
    SameRestB (removeFile s f.key) s := by
  unfold removeFile
  rw [hf]
  simp [he, SameRestB]

structure FileSpec (h : Int) (c : State) (t : Tracker) (f : File) (r : State × Tracker) : Prop where
  tracker : r.2 = creditAll t (passEntriesOf c h f f.proofs)
  files : ∀ k, AMap.get r.1.files k = if k = f.key then outcome c h f else AMap.get c.files k
  files2 : ∀ k, AMap.get r.1.files2 k = if k = f.key then outcome c h f else AMap.get c.files2 k
  proofs : ∀ q, AMap.get r.1.proofs q = if q ∈ f.proofs ∧ passes c h f q = false then none else AMap.get c.proofs q
  providers : ∀ x, AMap.get r.1.providers x = (AMap.get c.providers x).map (bump (burnsOf c h f f.proofs x))
  rest : SameRestB r.1 c
  payinfo : emptyOld h f = false → r.1.payinfo = c.payinfo

theorem manageFile_spec (c : State) (h : Int) (t : Tracker) (f : File) (hnd : f.proofs.Nodup)
    (hf : AMap.get c.files f.key = some f) (hf2 : AMap.get c.files2 f.key = some f) :
    FileSpec h c t f (manageFile c h t f) := by
  rw [manageFile_eq']
  cases heo : emptyOld h f
  · -- the ordinary case
    simp only [Bool.false_eq_true, if_false]
    obtain ⟨i1, i2, i3, i4, i5, _, i7⟩ := runProofs_spec h f.proofs c t f hnd (fun _ hq => hq) hf hf2
    have hk : (runProofs h f.proofs c t f).2.2 = { f with proofs := f.proofs.filter (passes c h f) } := by
      rw [i1]; congr 1
      apply List.filter_congr
      intro q hq; simp [hq]
    have ho : outcome c h f = some (runProofs h f.proofs c t f).2.2 := by
      rw [hk]; simp [outcome, heo]
    refine ⟨runProofs_tracker h f.proofs c t f hnd (fun _ hq => hq), ?_, ?_, i4, i5,
      SameRestB.of_sameRest i7, fun _ => i7.1⟩
    · intro k; rw [i2 k, ho]
    · intro k; rw [i3 k, ho]
  · -- an empty file past its first window is dropped
    have he : f.proofs = [] := by
      unfold emptyOld at heo
      simp only [Bool.and_eq_true, List.isEmpty_iff] at heo
      exact heo.1
    obtain ⟨r1, r2, r3, r4, r5⟩ := removeFile_empty c f hf he
    simp only [if_true, he, runProofs, List.foldl_nil]
    refine ⟨by simp [passEntriesOf, creditAll, he], ?_, ?_, ?_, ?_, r5, fun h' => by rw [heo] at h'; exact absurd h' (by decide)⟩
    · intro k; rw [r1, AMap.get_erase]
      by_cases hk : k = f.key
      · simp [hk, outcome, heo]
      · simp [hk, Ne.symm hk]
    · intro k; rw [r2, AMap.get_erase]
      by_cases hk : k = f.key
      · simp [hk, outcome, heo]
      · simp [hk, Ne.symm hk]
    · intro q; rw [r3]; simp [he]
    · intro x; rw [r4]
      cases AMap.get c.providers x <;> simp [burnsOf, bump_zero, he]


/-! ## 3. the file pass of the whole block -/

/-- the file pass of `manageRewards` from an arbitrary point -/
def filePass (h : Int) (fs : List (FKey × File)) (c : State) (t : Tracker) : State × Tracker :=
  fs.foldl (fun (acc : State × Tracker) kv => manageFile acc.1 h acc.2 kv.2) (c, t)

theorem filePass_cons (h : Int) (kv : FKey × File) (fs : List (FKey × File)) (c : State) (t : Tracker) :
    filePass h (kv :: fs) c t = filePass h fs (manageFile c h t kv.2).1 (manageFile c h t kv.2).2 := rfl

/-- the (credited name, size) entry of every passing (file, listed proof key) pair, in store order -/
def blockEntries (s : State) (h : Int) (fs : List (FKey × File)) : List (String × Int) :=
  fs.flatMap (fun kv => passEntriesOf s h kv.2 kv.2.proofs)

/-- `q` is listed in some file of `fs` on which it fails -/
def failsIn (s : State) (h : Int) (fs : List (FKey × File)) (q : PKey) : Bool :=
  fs.any (fun kv => decide (q ∈ kv.2.proofs) && !passes s h kv.2 q)

/-- number of failing (file, key) pairs with a proof record under provider address `x` -/
def blockBurns (s : State) (h : Int) (fs : List (FKey × File)) (x : String) : Nat :=
  (fs.map (fun kv => burnsOf s h kv.2 kv.2.proofs x)).sum

/-- the store invariant, stated for the list of files the loop ranges over -/
structure FilesOK (fs : List (FKey × File)) (c : State) : Prop where
  nodupKeys : (fs.map (·.1)).Nodup
  ownKey : ∀ kv ∈ fs, kv.2.key = kv.1
  stored : ∀ kv ∈ fs, AMap.get c.files kv.1 = some kv.2
  stored2 : ∀ kv ∈ fs, AMap.get c.files2 kv.1 = some kv.2
  nodupProofs : ∀ kv ∈ fs, kv.2.proofs.Nodup
  listed : ∀ kv ∈ fs, ∀ pk ∈ kv.2.proofs, pk.2 = kv.1

structure BlockSpec (h : Int) (fs : List (FKey × File)) (c : State) (t : Tracker) (r : State × Tracker) : Prop where
  tracker : r.2 = creditAll t (blockEntries c h fs)
  files : ∀ kv ∈ fs, AMap.get r.1.files kv.1 = outcome c h kv.2
  filesOther : ∀ k, k ∉ fs.map (·.1) → AMap.get r.1.files k = AMap.get c.files k
  files2 : ∀ kv ∈ fs, AMap.get r.1.files2 kv.1 = outcome c h kv.2
  files2Other : ∀ k, k ∉ fs.map (·.1) → AMap.get r.1.files2 k = AMap.get c.files2 k
  proofs : ∀ q, AMap.get r.1.proofs q = if failsIn c h fs q then none else AMap.get c.proofs q
  providers : ∀ x, AMap.get r.1.providers x = (AMap.get c.providers x).map (bump (blockBurns c h fs x))
  rest : SameRestB r.1 c
  payinfo : (∀ kv ∈ fs, emptyOld h kv.2 = false) → r.1.payinfo = c.payinfo

section congr
variable {s s' : State} {h : Int} {fs : List (FKey × File)}
  (hsame : ∀ g ∈ fs, ∀ q ∈ g.2.proofs, AMap.get s'.proofs q = AMap.get s.proofs q)
include hsame

theorem blockEntries_congr : blockEntries s' h fs = blockEntries s h fs := by
  unfold blockEntries
  induction fs with
  | nil => rfl
  | cons g fs ih =>
    simp only [List.flatMap_cons]
    rw [ih (fun g' hg' => hsame g' (List.mem_cons_of_mem _ hg')),
      passEntriesOf_congr (hsame g (by simp)) rfl rfl rfl]

theorem outcome_congr (g : FKey × File) (hg : g ∈ fs) : outcome s' h g.2 = outcome s h g.2 := by
  unfold outcome
  have : g.2.proofs.filter (passes s' h g.2) = g.2.proofs.filter (passes s h g.2) :=
    List.filter_congr (fun q hq => passes_congr (hsame g hg q hq) rfl rfl)
  rw [this]

theorem failsIn_congr (q : PKey) : failsIn s' h fs q = failsIn s h fs q := by
  unfold failsIn
  induction fs with
  | nil => rfl
  | cons g fs ih =>
    simp only [List.any_cons]
    rw [ih (fun g' hg' => hsame g' (List.mem_cons_of_mem _ hg'))]
    by_cases hq : q ∈ g.2.proofs
    · rw [passes_congr (hsame g (by simp) q hq) rfl rfl]
    · simp [hq]

theorem blockBurns_congr (x : String) : blockBurns s' h fs x = blockBurns s h fs x := by
  unfold blockBurns
  induction fs with
  | nil => rfl
  | cons g fs ih =>
    simp only [List.map_cons, List.sum_cons]
    rw [ih (fun g' hg' => hsame g' (List.mem_cons_of_mem _ hg'))]
    congr 1
    unfold burnsOf
    apply List.countP_congr
    intro q hq
    rw [passes_congr (hsame g (by simp) q hq) rfl rfl, hsame g (by simp) q hq]

end congr

theorem filePass_spec (h : Int) : ∀ (fs : List (FKey × File)) (c : State) (t : Tracker),
    FilesOK fs c → BlockSpec h fs c t (filePass h fs c t)
  | [], c, t, _ => by
    refine ⟨rfl, by simp, fun _ _ => rfl, by simp, fun _ _ => rfl, by simp [failsIn, filePass], ?_,
      SameRestB.refl c, fun _ => rfl⟩
    intro x; simp only [filePass, List.foldl_nil, blockBurns, List.map_nil, List.sum_nil]
    cases AMap.get c.providers x <;> simp [bump_zero]
  | kv :: fs, c, t, ok => by
    obtain ⟨o1, o2, o3, o4, o5, o6⟩ := ok
    have hkey : kv.2.key = kv.1 := o2 kv (by simp)
    have hnk : kv.1 ∉ fs.map (·.1) := (List.nodup_cons.mp o1).1
    have FS := manageFile_spec c h t kv.2 (o5 kv (by simp)) (by rw [hkey]; exact o3 kv (by simp))
      (by rw [hkey]; exact o4 kv (by simp))
    rw [filePass_cons]
    obtain ⟨f1, f2, f3, f4, f5, f6, f7⟩ := FS
    generalize (manageFile c h t kv.2).1 = c1 at *
    generalize (manageFile c h t kv.2).2 = t1 at *
    rw [hkey] at f2 f3
    have hne : ∀ g ∈ fs, g.1 ≠ kv.1 := fun g hg e => hnk (e ▸ List.mem_map_of_mem (f := (·.1)) hg)
    have hsame : ∀ g ∈ fs, ∀ q ∈ g.2.proofs, AMap.get c1.proofs q = AMap.get c.proofs q := by
      intro g hg q hq
      rw [f4 q]
      have : q ∉ kv.2.proofs := by
        intro hq'
        have e1 := o6 kv (by simp) q hq'
        have e2 := o6 g (List.mem_cons_of_mem _ hg) q hq
        exact hne g hg (e2.symm.trans e1)
      simp [this]
    have ok1 : FilesOK fs c1 :=
      ⟨(List.nodup_cons.mp o1).2, fun g hg => o2 g (List.mem_cons_of_mem _ hg),
       fun g hg => by rw [f2 g.1, if_neg (hne g hg)]; exact o3 g (List.mem_cons_of_mem _ hg),
       fun g hg => by rw [f3 g.1, if_neg (hne g hg)]; exact o4 g (List.mem_cons_of_mem _ hg),
       fun g hg => o5 g (List.mem_cons_of_mem _ hg), fun g hg => o6 g (List.mem_cons_of_mem _ hg)⟩
    have ih := filePass_spec h fs c1 t1 ok1
    generalize filePass h fs c1 t1 = r at *
    obtain ⟨i1, i2, i3, i4, i5, i6, i7, i8, i9⟩ := ih
    refine ⟨?_, ?_, ?_, ?_, ?_, ?_, ?_, i8.trans f6, ?_⟩
    · rw [i1, f1, blockEntries_congr hsame, ← creditAll_append]; rfl
    · intro g hg
      rcases List.mem_cons.mp hg with e | hg'
      · subst e; rw [i3 _ hnk, f2]; simp
      · rw [i2 g hg', outcome_congr hsame g hg']
    · intro k hk
      simp only [List.map_cons, List.mem_cons, not_or] at hk
      rw [i3 k hk.2, f2 k, if_neg hk.1]
    · intro g hg
      rcases List.mem_cons.mp hg with e | hg'
      · subst e; rw [i5 _ hnk, f3]; simp
      · rw [i4 g hg', outcome_congr hsame g hg']
    · intro k hk
      simp only [List.map_cons, List.mem_cons, not_or] at hk
      rw [i5 k hk.2, f3 k, if_neg hk.1]
    · intro q
      rw [i6 q, failsIn_congr hsame q, f4 q]
      unfold failsIn
      simp only [List.any_cons]
      by_cases hfl : fs.any (fun kv => decide (q ∈ kv.2.proofs) && !passes c h kv.2 q) = true
      · simp [hfl]
      · by_cases hq : q ∈ kv.2.proofs <;> by_cases hp : passes c h kv.2 q = true <;> simp [hq, hp, hfl]
    · intro x
      rw [i7 x, blockBurns_congr hsame x, f5 x, Option.map_map]
      have : blockBurns c h (kv :: fs) x = burnsOf c h kv.2 kv.2.proofs x + blockBurns c h fs x := by
        simp [blockBurns]
      rw [this]
      cases AMap.get c.providers x with
      | none => rfl
      | some p => simp [bump_bump]
    · intro hall
      rw [i9 (fun g hg => hall g (List.mem_cons_of_mem _ hg)), f7 (hall kv (by simp))]


/-! ### what the entries add up to -/

theorem wsum_passEntriesOf (s : State) (h : Int) (f : File) (a : String) : ∀ (l : List PKey),
    wsum a (passEntriesOf s h f l) = f.fileSize * (creditsOf s h f l a : Int)
  | [] => by simp [passEntriesOf, wsum, creditsOf]
  | pk :: l => by
    have ih := wsum_passEntriesOf s h f a l
    unfold passEntriesOf creditsOf at *
    rw [List.filter_cons, List.countP_cons]
    cases hp : passes s h f pk
    · simpa using ih
    · simp only [if_true, List.map_cons, wsum, ih, Bool.true_and, decide_eq_true_eq]
      split
      · rw [Int.natCast_add, Int.mul_add]; simp; omega
      · simp

/-- the size credited to `a` by the block: `Σ fileSize` over the passing (file, key) pairs credited to `a` -/
def blockCredit (s : State) (h : Int) (fs : List (FKey × File)) (a : String) : Int :=
  (fs.map (fun kv => kv.2.fileSize * (creditsOf s h kv.2 kv.2.proofs a : Int))).sum

theorem wsum_blockEntries (s : State) (h : Int) (a : String) : ∀ (fs : List (FKey × File)),
    wsum a (blockEntries s h fs) = blockCredit s h fs a
  | [] => by simp [blockEntries, wsum, blockCredit]
  | kv :: fs => by
    have ih := wsum_blockEntries s h a fs
    unfold blockEntries blockCredit at *
    simp only [List.flatMap_cons, wsum_append, ih, wsum_passEntriesOf, List.map_cons, List.sum_cons]

theorem mem_passEntriesOf {s : State} {h : Int} {f : File} {l : List PKey} {e : String × Int} :
    e ∈ passEntriesOf s h f l ↔ ∃ pk ∈ l, passes s h f pk = true ∧ e = (creditName s pk, f.fileSize) := by
  unfold passEntriesOf
  simp only [List.mem_map, List.mem_filter]
  constructor
  · rintro ⟨pk, ⟨h1, h2⟩, rfl⟩; exact ⟨pk, h1, h2, rfl⟩
  · rintro ⟨pk, h1, h2, rfl⟩; exact ⟨pk, ⟨h1, h2⟩, rfl⟩

theorem mem_blockEntries {s : State} {h : Int} {fs : List (FKey × File)} {e : String × Int} :
    e ∈ blockEntries s h fs ↔
      ∃ kv ∈ fs, ∃ pk ∈ kv.2.proofs, passes s h kv.2 pk = true ∧ e = (creditName s pk, kv.2.fileSize) := by
  unfold blockEntries
  simp only [List.mem_flatMap, mem_passEntriesOf]

theorem sum_passEntriesOf (s : State) (h : Int) (f : File) (l : List PKey) :
    ((passEntriesOf s h f l).map (·.2)).sum = f.fileSize * ((l.filter (passes s h f)).length : Int) := by
  unfold passEntriesOf
  generalize l.filter (passes s h f) = m
  induction m with
  | nil => simp
  | cons x m ih =>
    simp only [List.map_cons, List.sum_cons, List.length_cons, ih]
    rw [Int.natCast_add, Int.mul_add]; simp; omega

/-- the total the block computes at its start -/
def blockTotal (fs : List (FKey × File)) : Int :=
  (fs.map (fun kv => kv.2.fileSize * (kv.2.proofs.length : Int))).sum

/-- every credited pair is a listed pair: the entries' total size is at most `Σ fileSize·|proofs|` -/
theorem sum_blockEntries_le (s : State) (h : Int) : ∀ (fs : List (FKey × File)),
    (∀ kv ∈ fs, 0 ≤ kv.2.fileSize) → ((blockEntries s h fs).map (·.2)).sum ≤ blockTotal fs
  | [], _ => by simp [blockEntries, blockTotal]
  | kv :: fs, hs => by
    have ih := sum_blockEntries_le s h fs (fun g hg => hs g (List.mem_cons_of_mem _ hg))
    unfold blockEntries blockTotal at *
    simp only [List.flatMap_cons, List.map_append, List.sum_append, sum_passEntriesOf, List.map_cons, List.sum_cons]
    have hl : ((kv.2.proofs.filter (passes s h kv.2)).length : Int) ≤ (kv.2.proofs.length : Int) := by
      have := List.length_filter_le (passes s h kv.2) kv.2.proofs
      omega
    have := Int.mul_le_mul_of_nonneg_left hl (hs kv (by simp))
    omega

theorem blockEntries_nonneg (s : State) (h : Int) (fs : List (FKey × File))
    (hs : ∀ kv ∈ fs, 0 ≤ kv.2.fileSize) : ∀ e ∈ blockEntries s h fs, 0 ≤ e.2 := by
  intro e he
  obtain ⟨kv, hkv, pk, _, _, rfl⟩ := mem_blockEntries.mp he
  exact hs kv hkv


/-! ## 4. the payout loop as a log of sends -/

/-- a send out of the module account that went through: recipient, denomination, amount -/
abbrev Pay := String × String × Int

/-- total of denomination `d` sent to `a` -/
def paidTo : List Pay → String → String → Int
  | [], _, _ => 0
  | e :: l, a, d => (if e.1 = a ∧ e.2.1 = d then e.2.2 else 0) + paidTo l a d

/-- total of denomination `d` sent -/
def paidOut : List Pay → String → Int
  | [], _ => 0
  | e :: l, d => (if e.2.1 = d then e.2.2 else 0) + paidOut l d

theorem paidTo_append (l1 l2 : List Pay) (a d : String) : paidTo (l1 ++ l2) a d = paidTo l1 a d + paidTo l2 a d := by
  induction l1 with
  | nil => simp [paidTo]
  | cons e l ih => simp only [List.cons_append, paidTo, ih]; omega

theorem paidOut_append (l1 l2 : List Pay) (d : String) : paidOut (l1 ++ l2) d = paidOut l1 d + paidOut l2 d := by
  induction l1 with
  | nil => simp [paidOut]
  | cons e l ih => simp only [List.cons_append, paidOut, ih]; omega

/-- the ledger of `b` is that of `a` after the sends of `lg` out of the module account; nothing else differs -/
def BalLog (a : State) (lg : List Pay) (b : State) : Prop :=
  b = { a with bank := b.bank } ∧
  ∀ x d, Bank.bal b.bank x d = Bank.bal a.bank x d + paidTo lg x d - (if x = a.moduleAcc then paidOut lg d else 0)

theorem BalLog.nil (a : State) : BalLog a [] a := ⟨rfl, fun _ _ => by simp [paidTo, paidOut]⟩

theorem BalLog.append {a b c : State} {l1 l2 : List Pay} (h1 : BalLog a l1 b) (h2 : BalLog b l2 c) :
    BalLog a (l1 ++ l2) c := by
  obtain ⟨e1, f1⟩ := h1
  obtain ⟨e2, f2⟩ := h2
  have hm : b.moduleAcc = a.moduleAcc := by rw [e1]
  refine ⟨by rw [e2, e1], ?_⟩
  intro x d
  rw [f2 x d, f1 x d, paidTo_append, paidOut_append, hm]
  split <;> omega

/-- the step of the inner loop of `payProver` -/
def payCoin (prover : String) (share : Dec) (st : State) (coin : Coin) : Except String State :=
  let owed := Dec.trunc (Dec.mul share (Dec.ofInt coin.2))
  if owed < 0 then .error s!"negative coin amount: {owed}"
  else
    match (Bank.newCoins coin.1 owed).bind (fun c => sendFromModule st st.moduleAcc prover c) with
    | some b => .ok { st with bank := b }
    | none => .ok st

theorem payProver_eq (s : State) (total : Int) (coins : Coins) (prover : String) (worth : Int) :
    payProver s total coins prover worth =
      match Dec.quo? (Dec.ofInt worth) (Dec.ofInt total) with
      | none => .error "division by zero"
      | some share => if prover = "" then .ok s else coins.foldlM (payCoin prover share) s := rfl

/-- the send of `owed` units of `d` to `p` goes through: the recipient is not blocked, the amount is
positive (a zero coin is an empty send) and the module account holds it -/
def goes (st : State) (p d : String) (owed : Int) : Bool :=
  !st.blocked.contains p && decide (0 < owed) && decide (owed ≤ Bank.bal st.bank st.moduleAcc d)

/-- one step of the inner loop: a non-negative amount never stops the loop; it is moved iff `goes` -/
theorem payCoin_spec (p : String) (share : Dec) (st : State) (coin : Coin)
    (h0 : 0 ≤ Dec.trunc (Dec.mul share (Dec.ofInt coin.2))) :
    ∃ b, payCoin p share st coin = .ok b ∧
      BalLog st (if goes st p coin.1 (Dec.trunc (Dec.mul share (Dec.ofInt coin.2))) then
        [(p, coin.1, Dec.trunc (Dec.mul share (Dec.ofInt coin.2)))] else []) b := by
  unfold payCoin goes
  generalize Dec.trunc (Dec.mul share (Dec.ofInt coin.2)) = owed at *
  simp only [show ¬ owed < 0 by omega, if_false]
  by_cases hb : st.blocked.contains p = true
  · have : (Bank.newCoins coin.1 owed).bind (fun c => sendFromModule st st.moduleAcc p c) = none := by
      unfold sendFromModule; simp only [hb, if_true]
      cases Bank.newCoins coin.1 owed <;> rfl
    rw [this]
    exact ⟨st, rfl, by simp only [hb, Bool.not_true, Bool.false_and]; exact BalLog.nil st⟩
  · have hb' : st.blocked.contains p = false := by simpa using hb
    by_cases hz : owed = 0
    · subst hz
      have hmem : ¬ p ∈ st.blocked := by simpa using hb'
      refine ⟨st, ?_, by simp; exact BalLog.nil st⟩
      simp [Bank.newCoins, sendFromModule, hmem, Bank.send]
    · have hpos : 0 < owed := by omega
      have hn : Bank.newCoins coin.1 owed = some [(coin.1, owed)] := by
        unfold Bank.newCoins; simp [show ¬ owed < 0 by omega, hz]
      simp only [hn, Option.bind_some, sendFromModule, hb', Bool.false_eq_true, if_false]
      by_cases hfund : owed ≤ Bank.bal st.bank st.moduleAcc coin.1
      · cases hs : Bank.send st.bank st.moduleAcc p [(coin.1, owed)] with
        | none =>
          exfalso
          simp [Bank.send, Bank.sendCoin, show ¬ owed ≤ 0 by omega, show ¬ Bank.bal st.bank st.moduleAcc coin.1 < owed by omega] at hs
        | some bk =>
          refine ⟨{ st with bank := bk }, rfl, rfl, ?_⟩
          intro x d
          have := Bank.bal_send hs x d
          simp only [hpos, hfund, Bool.not_false, decide_true, Bool.and_self, if_true]
          rw [this]
          simp only [Bank.amt, paidTo, paidOut, show (st.moduleAcc = x) = (x = st.moduleAcc) from propext eq_comm]
          by_cases e1 : p = x <;> by_cases e2 : x = st.moduleAcc <;> by_cases e3 : coin.1 = d <;>
            simp [e1, e2, e3] <;> omega
      · have hs : Bank.send st.bank st.moduleAcc p [(coin.1, owed)] = none := by
          simp [Bank.send, Bank.sendCoin, show ¬ owed ≤ 0 by omega, show Bank.bal st.bank st.moduleAcc coin.1 < owed by omega]
        rw [hs]
        exact ⟨st, rfl, by simp only [hfund, decide_false, Bool.and_false]; exact BalLog.nil st⟩


/-- generic rule for `List.foldlM` in `Except`: when every successful step is described by a sublist
of that element's candidates, the whole loop is described by a sublist of all candidates, in order -/
theorem foldlM_except_log {σ α ε β : Type} (f : σ → α → Except ε σ) (cand : α → List β)
    (Rel : σ → List β → σ → Prop) (hnil : ∀ s, Rel s [] s)
    (happ : ∀ a b c l1 l2, Rel a l1 b → Rel b l2 c → Rel a (l1 ++ l2) c) :
    ∀ (l : List α) (s s' : σ),
      (∀ x ∈ l, ∀ a b, f a x = .ok b → ∃ lg, lg.Sublist (cand x) ∧ Rel a lg b) →
      l.foldlM f s = .ok s' → ∃ lg, lg.Sublist (l.flatMap cand) ∧ Rel s lg s'
  | [], s, s', _, h => by
    simp only [List.foldlM_nil, pure, Except.pure] at h
    cases h; exact ⟨[], by simp, hnil s⟩
  | x :: l, s, s', hstep, h => by
    rw [List.foldlM_cons] at h
    cases hx : f s x with
    | error e => rw [hx] at h; simp [bind, Except.bind] at h
    | ok s1 =>
      rw [hx] at h
      simp only [bind, Except.bind] at h
      obtain ⟨l1, hs1, r1⟩ := hstep x (by simp) s s1 hx
      obtain ⟨l2, hs2, r2⟩ := foldlM_except_log f cand Rel hnil happ l s1 s'
        (fun y hy => hstep y (List.mem_cons_of_mem _ hy)) h
      exact ⟨l1 ++ l2, by rw [List.flatMap_cons]; exact hs1.append hs2, happ _ _ _ _ _ r1 r2⟩

/-- `BalLog` together with what is known of every logged send: a positive amount to a recipient
that is not blocked -/
def PaidLog (a : State) (lg : List Pay) (b : State) : Prop :=
  BalLog a lg b ∧ ∀ e ∈ lg, 0 < e.2.2 ∧ a.blocked.contains e.1 = false

theorem PaidLog.nil (a : State) : PaidLog a [] a := ⟨BalLog.nil a, by simp⟩

theorem PaidLog.append {a b c : State} {l1 l2 : List Pay} (h1 : PaidLog a l1 b) (h2 : PaidLog b l2 c) :
    PaidLog a (l1 ++ l2) c := by
  refine ⟨h1.1.append h2.1, ?_⟩
  have hb : b.blocked = a.blocked := by rw [h1.1.1]
  intro e he
  rcases List.mem_append.mp he with he | he
  · exact h1.2 e he
  · have := h2.2 e he; rw [hb] at this; exact this

/-- what the prover `pw.1` (credited `pw.2`) is owed of the released coins: one candidate send per coin -/
def proverPays (total : Int) (coins : Coins) (pw : String × Int) : List Pay :=
  if pw.1 = "" then [] else coins.map (fun c => (pw.1, c.1, payout total c.2 pw.2))

/-- all candidate sends of the payout loop over the list `l` of (prover, weight), in order -/
def blockPays (total : Int) (coins : Coins) (l : List (String × Int)) : List Pay :=
  l.flatMap (proverPays total coins)

theorem flatMap_singleton' {α β : Type} (g : α → β) : ∀ (l : List α), l.flatMap (fun c => [g c]) = l.map g
  | [] => rfl
  | x :: l => by simp [flatMap_singleton' g l]

/-- one prover of the payout loop: the sends that went through are a sublist of its candidates -/
theorem payProver_log (s s' : State) (total : Int) (coins : Coins) (p : String) (w : Int)
    (h : payProver s total coins p w = .ok s') :
    ∃ lg, lg.Sublist (proverPays total coins (p, w)) ∧ PaidLog s lg s' := by
  rw [payProver_eq] at h
  cases hq : Dec.quo? (Dec.ofInt w) (Dec.ofInt total) with
  | none => rw [hq] at h; cases h
  | some share =>
    rw [hq] at h
    simp only at h
    by_cases hp : p = ""
    · simp only [hp, if_true] at h
      cases h
      exact ⟨[], by simp, PaidLog.nil s⟩
    · simp only [hp, if_false] at h
      have key := foldlM_except_log (payCoin p share)
        (fun c => [((p, c.1, Dec.trunc (Dec.mul share (Dec.ofInt c.2))) : Pay)]) PaidLog PaidLog.nil
        (fun _ _ _ _ _ => PaidLog.append) coins s s' ?_ h
      · obtain ⟨lg, hsub, hl⟩ := key
        refine ⟨lg, ?_, hl⟩
        rw [flatMap_singleton'] at hsub
        unfold proverPays payout
        simp only [hp, if_false, hq, Option.getD_some]
        exact hsub
      · intro c _ a b hab
        by_cases h0 : 0 ≤ Dec.trunc (Dec.mul share (Dec.ofInt c.2))
        · obtain ⟨b', hb', hl⟩ := payCoin_spec p share a c h0
          rw [hb'] at hab; cases hab
          refine ⟨_, ?_, hl, ?_⟩
          · split
            · exact List.Sublist.refl _
            · simp
          · intro e he
            split at he
            · rename_i hg
              simp only [List.mem_singleton] at he
              subst he
              unfold goes at hg
              simp only [Bool.and_eq_true, Bool.not_eq_true', decide_eq_true_eq] at hg
              exact ⟨hg.1.2, hg.1.1⟩
            · simp at he
        · exfalso
          unfold payCoin at hab
          simp only [show Dec.trunc (Dec.mul share (Dec.ofInt c.2)) < 0 by omega, if_true] at hab
          cases hab

/-- the whole payout loop -/
theorem payLoop_log (total : Int) (coins : Coins) (l : List (String × Int)) (s s' : State)
    (h : l.foldlM (fun st pw => payProver st total coins pw.1 pw.2) s = .ok s') :
    ∃ lg, lg.Sublist (blockPays total coins l) ∧ PaidLog s lg s' :=
  foldlM_except_log (fun st (pw : String × Int) => payProver st total coins pw.1 pw.2)
    (proverPays total coins) PaidLog PaidLog.nil (fun _ _ _ _ _ => PaidLog.append) l s s'
    (fun pw _ a b hab => payProver_log a b total coins pw.1 pw.2 hab) h


/-! ### the funded case: every candidate send goes through -/

theorem paidTo_nonneg (a d : String) : ∀ (l : List Pay), (∀ e ∈ l, 0 ≤ e.2.2) → 0 ≤ paidTo l a d
  | [], _ => by simp [paidTo]
  | e :: l, h => by
    have := paidTo_nonneg a d l (fun x hx => h x (List.mem_cons_of_mem _ hx))
    have := h e (by simp)
    simp only [paidTo]; split <;> omega

theorem paidOut_nonneg (d : String) : ∀ (l : List Pay), (∀ e ∈ l, 0 ≤ e.2.2) → 0 ≤ paidOut l d
  | [], _ => by simp [paidOut]
  | e :: l, h => by
    have := paidOut_nonneg d l (fun x hx => h x (List.mem_cons_of_mem _ hx))
    have := h e (by simp)
    simp only [paidOut]; split <;> omega

theorem paidTo_le_paidOut (a d : String) : ∀ (l : List Pay), (∀ e ∈ l, 0 ≤ e.2.2) → paidTo l a d ≤ paidOut l d
  | [], _ => by simp [paidTo, paidOut]
  | e :: l, h => by
    have := paidTo_le_paidOut a d l (fun x hx => h x (List.mem_cons_of_mem _ hx))
    have := h e (by simp)
    simp only [paidTo, paidOut]
    by_cases h1 : e.2.1 = d <;> by_cases h2 : e.1 = a <;> simp [h1, h2] <;> omega

theorem BalLog.congr {a b : State} {l l' : List Pay} (h : BalLog a l b)
    (h1 : ∀ x d, paidTo l' x d = paidTo l x d) (h2 : ∀ d, paidOut l' d = paidOut l d) : BalLog a l' b :=
  ⟨h.1, fun x d => by rw [h.2 x d, h1, h2]⟩

/-- generic funded loop: when every step whose candidates the module account can cover performs
exactly its candidates, and the account covers all candidates of the list, so does the loop -/
theorem foldlM_funded {α : Type} (f : State → α → Except String State) (cand : α → List Pay)
    (good : State → α → Prop)
    (hgood : ∀ a b x, b = { a with bank := b.bank } → good a x → good b x)
    (hnn : ∀ x st, good st x → ∀ e ∈ cand x, 0 ≤ e.2.2)
    (hstep : ∀ x st, good st x → (∀ d, paidOut (cand x) d ≤ Bank.bal st.bank st.moduleAcc d) →
      ∃ st', f st x = .ok st' ∧ BalLog st (cand x) st') :
    ∀ (l : List α) (st : State), (∀ x ∈ l, good st x) →
      (∀ d, paidOut (l.flatMap cand) d ≤ Bank.bal st.bank st.moduleAcc d) →
      ∃ st', l.foldlM f st = .ok st' ∧ BalLog st (l.flatMap cand) st'
  | [], st, _, _ => ⟨st, rfl, BalLog.nil st⟩
  | x :: l, st, hg, hfund => by
    have hnnx := hnn x st (hg x (by simp))
    have hnnl : ∀ e ∈ l.flatMap cand, 0 ≤ e.2.2 := by
      intro e he
      obtain ⟨y, hy, hey⟩ := List.mem_flatMap.mp he
      exact hnn y st (hg y (List.mem_cons_of_mem _ hy)) e hey
    simp only [List.flatMap_cons, paidOut_append] at hfund
    obtain ⟨st1, h1, l1⟩ := hstep x st (hg x (by simp)) (fun d => by
      have := hfund d; have := paidOut_nonneg d _ hnnl; omega)
    have hm : st1.moduleAcc = st.moduleAcc := by rw [l1.1]
    obtain ⟨st', h2, l2⟩ := foldlM_funded f cand good hgood hnn hstep l st1
      (fun y hy => hgood st st1 y l1.1 (hg y (List.mem_cons_of_mem _ hy)))
      (fun d => by
        rw [hm, l1.2 st.moduleAcc d]
        have := hfund d; have := paidTo_nonneg st.moduleAcc d _ hnnx
        simp only [if_true]; omega)
    refine ⟨st', ?_, by rw [List.flatMap_cons]; exact l1.append l2⟩
    rw [List.foldlM_cons, h1]
    exact h2

/-- one prover, funded: all its candidate sends are performed -/
theorem payProver_funded (total : Int) (coins : Coins) (hT : 0 < total) (hc : ∀ c ∈ coins, 0 ≤ c.2)
    (p : String) (w : Int) (st : State) (hw : 0 ≤ w) (hb : st.blocked.contains p = false)
    (hfund : ∀ d, paidOut (proverPays total coins (p, w)) d ≤ Bank.bal st.bank st.moduleAcc d) :
    ∃ st', payProver st total coins p w = .ok st' ∧ BalLog st (proverPays total coins (p, w)) st' := by
  have hq := quo_ofInt_eq w total hw hT
  rw [payProver_eq, hq]
  simp only
  by_cases hp : p = ""
  · simp only [hp, if_true, proverPays]
    exact ⟨st, rfl, BalLog.nil st⟩
  · have hpay : ∀ c : Coin, Dec.trunc (Dec.mul ⟨rawShare total w⟩ (Dec.ofInt c.2)) = payout total c.2 w := by
      intro c; unfold payout; rw [hq]; rfl
    simp only [hp, if_false, proverPays] at hfund ⊢
    have key := foldlM_funded (payCoin p ⟨rawShare total w⟩)
      (fun c => [((p, c.1, payout total c.2 w) : Pay)])
      (fun st' c => 0 ≤ payout total c.2 w ∧ st'.blocked.contains p = false)
      (fun a b c e g => ⟨g.1, by rw [e]; exact g.2⟩)
      (fun c st' g e he => by simp only [List.mem_singleton] at he; subst he; exact g.1)
      (fun c st' g hf => by
        obtain ⟨b, hb1, hb2⟩ := payCoin_spec p ⟨rawShare total w⟩ st' c (by rw [hpay]; exact g.1)
        refine ⟨b, hb1, ?_⟩
        rw [hpay] at hb2
        by_cases hgo : goes st' p c.1 (payout total c.2 w) = true
        · simpa [hgo] using hb2
        · simp only [hgo] at hb2
          have hz : payout total c.2 w = 0 := by
            have := hf c.1
            simp only [paidOut, if_true] at this
            unfold goes at hgo
            simp only [g.2, Bool.not_false, Bool.true_and, Bool.and_eq_true, decide_eq_true_eq] at hgo
            have := g.1
            omega
          exact hb2.congr (by intro x d; simp [paidTo, hz]) (by intro d; simp [paidOut, hz]))
      coins st
      (fun c hcm => ⟨payout_nonneg total c.2 w hw hT (hc c hcm), hb⟩)
      (by rw [flatMap_singleton']; exact hfund)
    rw [flatMap_singleton'] at key
    exact key

/-- the whole payout loop, funded: the log is the complete candidate list -/
theorem payLoop_funded (total : Int) (coins : Coins) (hT : 0 < total) (hc : ∀ c ∈ coins, 0 ≤ c.2)
    (l : List (String × Int)) (st : State)
    (hl : ∀ pw ∈ l, 0 ≤ pw.2 ∧ st.blocked.contains pw.1 = false)
    (hfund : ∀ d, paidOut (blockPays total coins l) d ≤ Bank.bal st.bank st.moduleAcc d) :
    ∃ st', l.foldlM (fun st pw => payProver st total coins pw.1 pw.2) st = .ok st' ∧
      BalLog st (blockPays total coins l) st' :=
  foldlM_funded (fun st (pw : String × Int) => payProver st total coins pw.1 pw.2) (proverPays total coins)
    (fun st' pw => 0 ≤ pw.2 ∧ st'.blocked.contains pw.1 = false)
    (fun a b pw e g => ⟨g.1, by rw [e]; exact g.2⟩)
    (fun pw st' g e he => by
      unfold proverPays at he
      split at he
      · simp at he
      · obtain ⟨c, hcm, rfl⟩ := List.mem_map.mp he
        exact payout_nonneg total c.2 pw.2 g.1 hT (hc c hcm))
    (fun pw st' g hf => payProver_funded total coins hT hc pw.1 pw.2 st' g.1 g.2 hf)
    l st hl hfund


/-! ## 5. how much is paid -/

/-- what a weight `w` is paid of denomination `d`: one truncated share per released coin of `d` -/
def coinPay (total : Int) (d : String) (w : Int) : Coins → Int
  | [] => 0
  | c :: cs => (if c.1 = d then payout total c.2 w else 0) + coinPay total d w cs

theorem coinPay_nonneg (total : Int) (d : String) (w : Int) (hT : 0 < total) (hw : 0 ≤ w) :
    ∀ (coins : Coins), (∀ c ∈ coins, 0 ≤ c.2) → 0 ≤ coinPay total d w coins
  | [], _ => by simp [coinPay]
  | c :: cs, h => by
    have := coinPay_nonneg total d w hT hw cs (fun x hx => h x (List.mem_cons_of_mem _ hx))
    have := payout_nonneg total c.2 w hw hT (h c (by simp))
    simp only [coinPay]; split <;> omega

theorem paidOut_map_coins (total : Int) (p d : String) (w : Int) : ∀ (coins : Coins),
    paidOut (coins.map (fun c => ((p, c.1, payout total c.2 w) : Pay))) d = coinPay total d w coins
  | [] => rfl
  | c :: cs => by simp only [List.map_cons, paidOut, coinPay, paidOut_map_coins total p d w cs]

theorem paidTo_map_coins (total : Int) (p a d : String) (w : Int) : ∀ (coins : Coins),
    paidTo (coins.map (fun c => ((p, c.1, payout total c.2 w) : Pay))) a d =
      if p = a then coinPay total d w coins else 0
  | [] => by simp [paidTo, coinPay]
  | c :: cs => by
    simp only [List.map_cons, paidTo, coinPay, paidTo_map_coins total p a d w cs]
    by_cases h1 : p = a <;> by_cases h2 : c.1 = d <;> simp [h1, h2]

theorem paidOut_proverPays (total : Int) (coins : Coins) (pw : String × Int) (d : String) :
    paidOut (proverPays total coins pw) d = if pw.1 = "" then 0 else coinPay total d pw.2 coins := by
  unfold proverPays
  split
  · rfl
  · exact paidOut_map_coins total pw.1 d pw.2 coins

theorem paidTo_proverPays (total : Int) (coins : Coins) (pw : String × Int) (a d : String) :
    paidTo (proverPays total coins pw) a d = if pw.1 = "" then 0 else if pw.1 = a then coinPay total d pw.2 coins else 0 := by
  unfold proverPays
  split
  · rfl
  · exact paidTo_map_coins total pw.1 a d pw.2 coins

theorem blockPays_nonneg (total : Int) (coins : Coins) (l : List (String × Int)) (hT : 0 < total)
    (hc : ∀ c ∈ coins, 0 ≤ c.2) (hl : ∀ pw ∈ l, 0 ≤ pw.2) : ∀ e ∈ blockPays total coins l, 0 ≤ e.2.2 := by
  intro e he
  obtain ⟨pw, hpw, hepw⟩ := List.mem_flatMap.mp he
  unfold proverPays at hepw
  split at hepw
  · simp at hepw
  · obtain ⟨c, hcm, rfl⟩ := List.mem_map.mp hepw
    exact payout_nonneg total c.2 pw.2 (hl pw hpw) hT (hc c hcm)

/-- the candidates of denomination `d` add up to at most the per-prover amounts (the empty name is skipped) -/
theorem paidOut_blockPays_le (total : Int) (coins : Coins) (d : String) (hT : 0 < total) (hc : ∀ c ∈ coins, 0 ≤ c.2) :
    ∀ (l : List (String × Int)), (∀ pw ∈ l, 0 ≤ pw.2) →
      paidOut (blockPays total coins l) d ≤ (l.map (fun pw => coinPay total d pw.2 coins)).sum
  | [], _ => by simp [blockPays, paidOut]
  | pw :: l, hl => by
    have ih := paidOut_blockPays_le total coins d hT hc l (fun x hx => hl x (List.mem_cons_of_mem _ hx))
    have := coinPay_nonneg total d pw.2 hT (hl pw (by simp)) coins hc
    unfold blockPays at *
    simp only [List.flatMap_cons, paidOut_append, paidOut_proverPays, List.map_cons, List.sum_cons]
    split <;> omega

theorem sum_coinPay_cons (total : Int) (d : String) (c : Coin) (cs : Coins) : ∀ (l : List (String × Int)),
    (l.map (fun pw => coinPay total d pw.2 (c :: cs))).sum =
      (if c.1 = d then ((l.map (·.2)).map (payout total c.2)).sum else 0) + (l.map (fun pw => coinPay total d pw.2 cs)).sum
  | [] => by simp
  | pw :: l => by
    have ih := sum_coinPay_cons total d c cs l
    simp only [List.map_cons, List.sum_cons]
    rw [ih]
    simp only [coinPay]
    split <;> omega

theorem sum_coinPay_nil (total : Int) (d : String) : ∀ (l : List (String × Int)),
    (l.map (fun pw => coinPay total d pw.2 [])).sum = 0
  | [] => rfl
  | pw :: l => by
    have ih := sum_coinPay_nil total d l
    simp only [List.map_cons, List.sum_cons]
    rw [ih]; simp [coinPay]

/-- **the sum owed never exceeds what was released**, per denomination: weights (non-negative) summing
to at most `total`, and `n·R < 2·10^18` for every released coin -/
theorem sum_coinPay_le (total : Int) (d : String) (l : List (String × Int)) (hT : 0 < total)
    (hl : ∀ pw ∈ l, 0 ≤ pw.2) (hsum : (l.map (·.2)).sum ≤ total) :
    ∀ (coins : Coins), (∀ c ∈ coins, 0 ≤ c.2) → (∀ c ∈ coins, (l.length : Int) * c.2 < 2 * 1000000000000000000) →
      (l.map (fun pw => coinPay total d pw.2 coins)).sum ≤ Bank.amt d coins
  | [], _, _ => by rw [sum_coinPay_nil]; simp [Bank.amt]
  | c :: cs, hc, hside => by
    have ih := sum_coinPay_le total d l hT hl hsum cs (fun x hx => hc x (List.mem_cons_of_mem _ hx))
      (fun x hx => hside x (List.mem_cons_of_mem _ hx))
    rw [sum_coinPay_cons]
    have hb := payout_sum_le total c.2 (l.map (·.2)) hT (hc c (by simp))
      (by intro w hw; obtain ⟨pw, hpw, rfl⟩ := List.mem_map.mp hw; exact hl pw hpw) hsum
      (by rw [List.length_map]; unfold precision; exact hside c (by simp))
    obtain ⟨d', R⟩ := c
    simp only [Bank.amt] at *
    split <;> omega


/-! ### sublists of non-negative candidates pay no more -/

theorem paidOut_sublist (d : String) {lg full : List Pay} (h : lg.Sublist full) :
    (∀ e ∈ full, 0 ≤ e.2.2) → paidOut lg d ≤ paidOut full d := by
  induction h with
  | slnil => intro _; exact Int.le_refl _
  | cons a _ ih =>
    intro hn
    have := ih (fun e he => hn e (List.mem_cons_of_mem _ he))
    have := hn a (by simp)
    simp only [paidOut]; split <;> omega
  | cons_cons a _ ih =>
    intro hn
    have := ih (fun e he => hn e (List.mem_cons_of_mem _ he))
    simp only [paidOut]; omega

theorem paidTo_sublist (a d : String) {lg full : List Pay} (h : lg.Sublist full) :
    (∀ e ∈ full, 0 ≤ e.2.2) → paidTo lg a d ≤ paidTo full a d := by
  induction h with
  | slnil => intro _; exact Int.le_refl _
  | cons x _ ih =>
    intro hn
    have := ih (fun e he => hn e (List.mem_cons_of_mem _ he))
    have := hn x (by simp)
    simp only [paidTo]; split <;> omega
  | cons_cons x _ ih =>
    intro hn
    have := ih (fun e he => hn e (List.mem_cons_of_mem _ he))
    simp only [paidTo]; omega

/-- nothing is sent to an address that is no recipient in the log -/
theorem paidTo_eq_zero (a d : String) : ∀ (lg : List Pay), (∀ e ∈ lg, e.1 ≠ a) → paidTo lg a d = 0
  | [], _ => rfl
  | e :: l, h => by
    simp only [paidTo, paidTo_eq_zero a d l (fun x hx => h x (List.mem_cons_of_mem _ hx))]
    simp [h e (by simp)]

theorem blockPays_recipient {total : Int} {coins : Coins} {l : List (String × Int)} {e : Pay}
    (he : e ∈ blockPays total coins l) : e.1 ≠ "" ∧ e.1 ∈ l.map (·.1) := by
  obtain ⟨pw, hpw, hepw⟩ := List.mem_flatMap.mp he
  unfold proverPays at hepw
  split at hepw
  · simp at hepw
  · rename_i hne
    obtain ⟨c, _, rfl⟩ := List.mem_map.mp hepw
    exact ⟨hne, List.mem_map_of_mem (f := (·.1)) hpw⟩

/-! ### closed form of what one address is owed (tracker keys are distinct) -/

theorem paidTo_blockPays (total : Int) (coins : Coins) (a d : String) : ∀ (l : List (String × Int)),
    AMap.WF l → paidTo (blockPays total coins l) a d =
      if a = "" then 0 else ((AMap.get l a).map (fun w => coinPay total d w coins)).getD 0
  | [], _ => by simp [blockPays, paidTo]
  | (k, w) :: l, hwf => by
    simp only [AMap.WF, AMap.keys, List.map_cons, List.nodup_cons] at hwf
    have ih := paidTo_blockPays total coins a d l hwf.2
    unfold blockPays at *
    simp only [List.flatMap_cons, paidTo_append, paidTo_proverPays, ih, AMap.get]
    by_cases hka : k = a
    · subst hka
      have hn : AMap.get l k = none := AMap.get_none_of_not_mem hwf.1
      by_cases hk : k = "" <;> simp [hk, hn]
    · by_cases ha : a = "" <;> simp [hka, ha]
      intro h1 h2; exact absurd h2 h1

/-! ### the sorted tracker is the tracker -/

theorem perm_sum_int {l1 l2 : List Int} (h : l1.Perm l2) : l1.sum = l2.sum := by
  induction h with
  | nil => rfl
  | cons x _ ih => simp [ih]
  | swap x y l => simp only [List.sum_cons]; omega
  | trans _ _ ih1 ih2 => exact ih1.trans ih2

theorem sortedProvers_perm (t : Tracker) : (sortedProvers t).Perm t := List.mergeSort_perm _ _

theorem sortedProvers_wf (t : Tracker) (h : AMap.WF t) : AMap.WF (sortedProvers t) := by
  unfold AMap.WF AMap.keys at *
  exact ((sortedProvers_perm t).map (·.1)).nodup_iff.mpr h

theorem sortedProvers_get (t : Tracker) (h : AMap.WF t) (a : String) :
    AMap.get (sortedProvers t) a = AMap.get t a := by
  have hs := sortedProvers_wf t h
  cases hg : AMap.get t a with
  | some w =>
    exact AMap.get_of_mem_wf hs ((sortedProvers_perm t).mem_iff.mpr (AMap.mem_of_get hg))
  | none =>
    cases hg' : AMap.get (sortedProvers t) a with
    | none => rfl
    | some w =>
      have := AMap.get_of_mem_wf h ((sortedProvers_perm t).mem_iff.mp (AMap.mem_of_get hg'))
      rw [hg] at this; cases this

theorem sumBy_id_eq (t : Tracker) : AMap.sumBy id t = (t.map (·.2)).sum := by
  induction t with
  | nil => rfl
  | cons e t ih => obtain ⟨k, v⟩ := e; simp only [AMap.sumBy, List.map_cons, List.sum_cons, ih, id]

theorem sortedProvers_sum (t : Tracker) : ((sortedProvers t).map (·.2)).sum = AMap.sumBy id t := by
  rw [sumBy_id_eq]; exact perm_sum_int ((sortedProvers_perm t).map (·.2))

/-! ### conservation over a list of accounts -/

theorem sum_map_zero {α : Type} : ∀ (l : List α), (l.map (fun _ => (0 : Int))).sum = 0
  | [] => rfl
  | _ :: l => by simp only [List.map_cons, List.sum_cons, sum_map_zero l]; rfl

theorem sum_map_add {α : Type} (f g : α → Int) : ∀ (l : List α),
    (l.map (fun a => f a + g a)).sum = (l.map f).sum + (l.map g).sum
  | [] => by simp
  | _ :: l => by simp only [List.map_cons, List.sum_cons, sum_map_add f g l]; omega

theorem sum_ite_mem (p : String) (x : Int) : ∀ (accts : List String), accts.Nodup → p ∈ accts →
    (accts.map (fun a => if p = a then x else 0)).sum = x
  | [], _, hm => by simp at hm
  | b :: accts, hnd, hm => by
    obtain ⟨hb, hnd'⟩ := List.nodup_cons.mp hnd
    simp only [List.map_cons, List.sum_cons]
    by_cases hpb : p = b
    · subst hpb
      have : (accts.map (fun a => if p = a then x else 0)).sum = 0 := by
        have : ∀ a ∈ accts, (if p = a then x else 0) = 0 := fun a ha => by
          have : p ≠ a := fun e => hb (e ▸ ha)
          simp [this]
        rw [List.map_congr_left this]; exact sum_map_zero accts
      simp [this]
    · have hm' : p ∈ accts := by
        rcases List.mem_cons.mp hm with e | e
        · exact absurd e hpb
        · exact e
      simp [hpb, sum_ite_mem p x accts hnd' hm']

/-- summed over a duplicate-free list of accounts that contains every recipient, the amounts received
are the amounts sent -/
theorem sum_paidTo_accts (d : String) (accts : List String) (hnd : accts.Nodup) : ∀ (lg : List Pay),
    (∀ e ∈ lg, e.1 ∈ accts) → (accts.map (fun a => paidTo lg a d)).sum = paidOut lg d
  | [], _ => by simp only [paidTo, paidOut]; exact sum_map_zero accts
  | e :: lg, h => by
    have ih := sum_paidTo_accts d accts hnd lg (fun x hx => h x (List.mem_cons_of_mem _ hx))
    simp only [paidTo, paidOut]
    rw [sum_map_add, ih]
    congr 1
    by_cases hd : e.2.1 = d
    · simp only [hd, and_true, if_true]
      exact sum_ite_mem e.1 e.2.2 accts hnd (h e (by simp))
    · simp only [hd, and_false, if_false]; exact sum_map_zero accts


/-! ## 6. the gauge pass: what it leaves alone, and the released coins are positive -/

theorem addCoinTo_pos (cs : Coins) (d : String) (x : Int) (hcs : ∀ c ∈ cs, 0 < c.2) (hx : 0 < x) :
    ∀ c ∈ pullGauge.addCoinTo cs d x, 0 < c.2 := by
  intro c hc
  unfold pullGauge.addCoinTo at hc
  split at hc
  · obtain ⟨c', hc', rfl⟩ := List.mem_map.mp hc
    have := hcs c' hc'
    split
    · simp only; omega
    · exact this
  · rcases List.mem_append.mp hc with h | h
    · exact hcs c h
    · simp only [List.mem_singleton] at h; subst h; exact hx

theorem addCoinTo_denoms (cs : Coins) (d : String) (x : Int) (hcs : (cs.map (·.1)).Nodup) :
    ((pullGauge.addCoinTo cs d x).map (·.1)).Nodup := by
  unfold pullGauge.addCoinTo
  split
  · have : (cs.map (fun c => if c.1 = d then (c.1, c.2 + x) else c)).map (·.1) = cs.map (·.1) := by
      rw [List.map_map]
      apply List.map_congr_left
      intro c _
      simp only [Function.comp]
      split <;> rfl
    rw [this]; exact hcs
  · rename_i hany
    rw [List.map_append, List.nodup_append]
    refine ⟨hcs, by simp, ?_⟩
    intro a ha b hb
    simp only [List.map_cons, List.map_nil, List.mem_singleton] at hb
    subst hb
    intro e
    apply hany
    obtain ⟨c, hc, rfl⟩ := List.mem_map.mp ha
    rw [List.any_eq_true]
    exact ⟨c, hc, by simp [e]⟩

/-- any property of the released list that adding a positive coin preserves survives one gauge -/
theorem pullGauge_coins_inv (P : Coins → Prop)
    (hP : ∀ cs d x, P cs → 0 < x → P (pullGauge.addCoinTo cs d x))
    (s s' : State) (now : Int) (released rel' : Coins) (g : Gauge)
    (h : pullGauge s now released g = .ok (s', rel')) (hrel : P released) : P rel' := by
  unfold pullGauge at h
  split at h
  · cases h; exact hrel
  split at h
  · cases h; exact hrel
  simp only at h
  split at h
  · cases h; exact hrel
  split at h
  · cases h
  have key := foldlM_except_rel (σ := State × Coins) _
    (fun a b => P a.2 → P b.2)
    (fun _ h => h) (fun _ _ _ h1 h2 h => h2 (h1 h)) g.coins (s, released) (s', rel') ?_ h
  · exact key hrel
  · intro coin _ a b hab
    obtain ⟨st, rel⟩ := a
    obtain ⟨denom, amount⟩ := coin
    simp only at hab
    split at hab
    · cases hab
    split at hab
    · cases hab; exact fun h => h
    split at hab
    · cases hab
    rename_i hz hneg
    split at hab <;> (cases hab; exact fun hr => hP _ _ _ hr (by omega))

/-- the gauge pass only touches the gauge store and the ledger; every released coin is positive and
there is one entry per denomination -/
theorem pullGauges_frame (s s2 : State) (now : Int) (coins : Coins) (h : pullGauges s now = .ok (s2, coins)) :
    s2 = { s with gauges := s2.gauges, bank := s2.bank } ∧ (∀ c ∈ coins, 0 < c.2) ∧ (coins.map (·.1)).Nodup := by
  unfold pullGauges at h
  have key := foldlM_except_rel (σ := State × Coins) (fun acc (kv : String × Gauge) => pullGauge acc.1 now acc.2 kv.2)
    (fun a b => b.1 = { a.1 with gauges := b.1.gauges, bank := b.1.bank } ∧
      ((∀ c ∈ a.2, 0 < c.2) → ∀ c ∈ b.2, 0 < c.2) ∧
      ((a.2.map (fun (c : Coin) => c.1)).Nodup → (b.2.map (fun (c : Coin) => c.1)).Nodup))
    (fun _ => ⟨rfl, fun h => h, fun h => h⟩)
    (fun a b c h1 h2 => ⟨by rw [h2.1, h1.1], fun h => h2.2.1 (h1.2.1 h), fun h => h2.2.2 (h1.2.2 h)⟩)
    s.gauges (s, []) (s2, coins) ?_ h
  · exact ⟨key.1, key.2.1 (by simp), key.2.2 (by simp)⟩
  · intro kv _ a b hab
    obtain ⟨b1, b2⟩ := b
    refine ⟨?_, pullGauge_coins_inv (fun cs => ∀ c ∈ cs, 0 < c.2) addCoinTo_pos a.1 b1 now a.2 b2 kv.2 hab,
      pullGauge_coins_inv (fun cs => (cs.map (fun (c : Coin) => c.1)).Nodup) (fun cs d x h _ => addCoinTo_denoms cs d x h)
        a.1 b1 now a.2 b2 kv.2 hab⟩
    obtain ⟨⟨e, _, _⟩, _⟩ := pullGauge_frame a.1 b1 now a.2 b2 kv.2 hab
    simp only
    rw [e]

/-- with one entry per denomination, what a weight is paid of `d` is the single truncated share -/
theorem coinPay_of_nodup (total : Int) (d : String) (w R : Int) : ∀ (coins : Coins),
    (coins.map (·.1)).Nodup → (d, R) ∈ coins → coinPay total d w coins = payout total R w
  | [], _, hm => by simp at hm
  | c :: cs, hnd, hm => by
    have hnd2 : (c.1 :: cs.map (·.1)).Nodup := hnd
    obtain ⟨hc, hnd'⟩ := List.nodup_cons.mp hnd2
    have hzero : ∀ (l : Coins), d ∉ l.map (·.1) → coinPay total d w l = 0 := by
      intro l; induction l with
      | nil => intro _; rfl
      | cons x l ih =>
        intro hx
        simp only [List.map_cons, List.mem_cons, not_or] at hx
        simp only [coinPay, ih hx.2]
        simp [Ne.symm hx.1]
    simp only [coinPay]
    rcases List.mem_cons.mp hm with e | e
    · subst e
      simp only [if_true]
      rw [hzero cs hc]; omega
    · have hne : c.1 ≠ d := by
        intro e'
        apply hc
        rw [e']
        exact List.mem_map_of_mem (f := (·.1)) e
      simp only [hne, if_false]
      rw [coinPay_of_nodup total d w R cs hnd' e]; omega

/-! ## 7. `manageRewards` taken apart -/

theorem manageRewards_eq (s : State) (h now : Int) :
    manageRewards s h now =
      match pullGauges (filePass h s.files s []).1 now with
      | .error e => .error e
      | .ok r => (sortedProvers (filePass h s.files s []).2).foldlM
          (fun st pw => payProver st (blockTotal s.files) r.2 pw.1 pw.2) r.1 := by
  unfold manageRewards filePass blockTotal
  simp only [bind, Except.bind]
  cases pullGauges (List.foldl (fun (acc : State × Tracker) kv => manageFile acc.1 h acc.2 kv.2) (s, []) s.files).1 now <;> rfl

theorem manageRewards_split {s s' s2 : State} {h now : Int} {coins : Coins}
    (hok : manageRewards s h now = .ok s')
    (hg : pullGauges (filePass h s.files s []).1 now = .ok (s2, coins)) :
    (sortedProvers (filePass h s.files s []).2).foldlM
      (fun st pw => payProver st (blockTotal s.files) coins pw.1 pw.2) s2 = .ok s' := by
  rw [manageRewards_eq, hg] at hok
  exact hok

theorem manageRewards_ok_gauges {s s' : State} {h now : Int} (hok : manageRewards s h now = .ok s') :
    ∃ s2 coins, pullGauges (filePass h s.files s []).1 now = .ok (s2, coins) := by
  rw [manageRewards_eq] at hok
  cases hp : pullGauges (filePass h s.files s []).1 now with
  | error e => rw [hp] at hok; cases hok
  | ok r => exact ⟨r.1, r.2, rfl⟩

theorem payProver_ok_total_ne {s s' : State} {total : Int} {coins : Coins} {p : String} {w : Int}
    (h : payProver s total coins p w = .ok s') : total ≠ 0 := by
  intro e
  rw [payProver_eq] at h
  have : Dec.quo? (Dec.ofInt w) (Dec.ofInt total) = none := by
    unfold Dec.quo? Dec.ofInt; simp [e]
  rw [this] at h
  cases h

/-- a successful payout loop over a non-empty list means the total was not zero -/
theorem payLoop_ok_total_ne {total : Int} {coins : Coins} {l : List (String × Int)} {s s' : State}
    (h : l.foldlM (fun st pw => payProver st total coins pw.1 pw.2) s = .ok s') (hne : l ≠ []) : total ≠ 0 := by
  cases l with
  | nil => exact absurd rfl hne
  | cons pw l =>
    rw [List.foldlM_cons] at h
    cases hx : payProver s total coins pw.1 pw.2 with
    | error e => rw [hx] at h; simp [bind, Except.bind] at h
    | ok s1 => exact payProver_ok_total_ne hx

theorem amt_nonneg (d : String) : ∀ (coins : Coins), (∀ c ∈ coins, 0 ≤ c.2) → 0 ≤ Bank.amt d coins
  | [], _ => by simp [Bank.amt]
  | (d', x) :: cs, h => by
    have := amt_nonneg d cs (fun c hc => h c (List.mem_cons_of_mem _ hc))
    have := h (d', x) (by simp)
    simp only [Bank.amt]; split <;> omega


/-! ## 8. every send of the gauge pass goes through (escrow accounts other than the module account,
non-negative recorded amounts): the released coins arrive in the module account -/

theorem tdiv1000_mono (a b : Int) (h : a ≤ b) : Int.tdiv a 1000 ≤ Int.tdiv b 1000 := by
  rw [← tdiv_eq, ← tdiv_eq]; unfold tdiv
  simp only [show (0:Int) ≤ 1000 by omega, if_true]
  split <;> split <;> omega

/-- with an elapsed fraction of at most one, the amount released never exceeds the escrow balance -/
theorem release_le_bal (r : Dec) (A bal : Int) (hr : r.raw ≤ precision) (hA : 0 ≤ A) :
    Dec.trunc (Dec.sub (Dec.mul r (Dec.ofInt A)) (Dec.ofInt (A - bal))) ≤ bal := by
  have h1 : r.raw * A ≤ precision * A := Int.mul_le_mul_of_nonneg_right hr hA
  unfold Dec.trunc chopTrunc Dec.sub
  simp only [Dec.mul_ofInt_exact]
  unfold Dec.ofInt tdiv
  simp only
  generalize r.raw * A = y at *
  unfold precision at *
  simp only [show (0:Int) ≤ 1000000000000000000 by omega, if_true]
  split <;> omega

theorem amt_append (d : String) (l1 l2 : Coins) : Bank.amt d (l1 ++ l2) = Bank.amt d l1 + Bank.amt d l2 := by
  induction l1 with
  | nil => simp [Bank.amt]
  | cons c l ih => obtain ⟨k, v⟩ := c; simp only [List.cons_append, Bank.amt, ih]; omega

theorem amt_addCoinTo (d denom : String) (x : Int) (rel : Coins) (hnd : (rel.map (·.1)).Nodup) :
    Bank.amt d (pullGauge.addCoinTo rel denom x) = Bank.amt d rel + (if denom = d then x else 0) := by
  have aux2 : ∀ (l : Coins), denom ∉ l.map (·.1) →
      l.map (fun c => if c.1 = denom then (c.1, c.2 + x) else c) = l := by
    intro l hl
    have : ∀ c ∈ l, (if c.1 = denom then (c.1, c.2 + x) else c) = c := by
      intro c hc
      have : c.1 ≠ denom := fun e => hl (e ▸ List.mem_map_of_mem (f := (·.1)) hc)
      simp [this]
    rw [List.map_congr_left this]; simp
  have aux1 : ∀ (l : Coins), (l.map (·.1)).Nodup → denom ∈ l.map (·.1) →
      Bank.amt d (l.map (fun c => if c.1 = denom then (c.1, c.2 + x) else c)) =
        Bank.amt d l + (if denom = d then x else 0) := by
    intro l
    induction l with
    | nil => intro _ hm; simp at hm
    | cons c t ih =>
      intro hn hm
      obtain ⟨k, v⟩ := c
      have hn2 : (k :: t.map (·.1)).Nodup := hn
      obtain ⟨hk, hnt⟩ := List.nodup_cons.mp hn2
      by_cases hkd : k = denom
      · subst hkd
        simp only [List.map_cons, if_true, Bank.amt]
        rw [aux2 t hk]
        split <;> omega
      · have hm' : denom ∈ t.map (·.1) := by
          simp only [List.map_cons, List.mem_cons] at hm
          rcases hm with e | e
          · exact absurd e.symm hkd
          · exact e
        simp only [List.map_cons, hkd, if_false, Bank.amt]
        rw [ih hnt hm']; omega
  unfold pullGauge.addCoinTo
  split
  · rename_i hany
    apply aux1 rel hnd
    obtain ⟨c, hc, hcd⟩ := List.any_eq_true.mp hany
    simp only [decide_eq_true_eq] at hcd
    rw [← hcd]; exact List.mem_map_of_mem (f := (·.1)) hc
  · rw [amt_append]; simp [Bank.amt]

/-- what one gauge does to the module account, relative to the released list -/
def Arrives (M : String) (a b : State × Coins) : Prop :=
  a.1.moduleAcc = M → (a.2.map (fun (c : Coin) => c.1)).Nodup →
    b.1.moduleAcc = M ∧ (b.2.map (fun (c : Coin) => c.1)).Nodup ∧
    ∀ d, Bank.bal b.1.bank M d + Bank.amt d a.2 = Bank.bal a.1.bank M d + Bank.amt d b.2

theorem Arrives.refl (M : String) (a : State × Coins) : Arrives M a a := fun h1 h2 => ⟨h1, h2, fun _ => rfl⟩
theorem Arrives.trans {M : String} {a b c : State × Coins} (h1 : Arrives M a b) (h2 : Arrives M b c) :
    Arrives M a c := by
  intro hm hn
  obtain ⟨m1, n1, e1⟩ := h1 hm hn
  obtain ⟨m2, n2, e2⟩ := h2 m1 n1
  exact ⟨m2, n2, fun d => by have := e1 d; have := e2 d; omega⟩

theorem pullGauge_arrives (M : String) (s s' : State) (now : Int) (released rel' : Coins) (g : Gauge)
    (hacc : g.account ≠ M) (hcoins : ∀ c ∈ g.coins, 0 ≤ c.2)
    (h : pullGauge s now released g = .ok (s', rel')) : Arrives M (s, released) (s', rel') := by
  unfold pullGauge at h
  split at h
  · cases h; exact fun h1 h2 => ⟨h1, h2, fun _ => rfl⟩
  rename_i hend
  split at h
  · cases h; exact fun h1 h2 => ⟨h1, h2, fun _ => rfl⟩
  rename_i hstart
  simp only at h
  split at h
  · cases h; exact fun h1 h2 => ⟨h1, h2, fun _ => rfl⟩
  split at h
  · cases h
  rename_i q hq
  -- the elapsed fraction is at most one
  have hleft : 0 ≤ Int.tdiv g.endT 1000 - Int.tdiv now 1000 := by
    have := tdiv1000_mono now g.endT (by omega); omega
  have htot0 : 0 ≤ Int.tdiv g.endT 1000 - Int.tdiv g.startT 1000 := by
    have := tdiv1000_mono g.startT g.endT (by omega); omega
  have htot : 0 < Int.tdiv g.endT 1000 - Int.tdiv g.startT 1000 := by
    have hne : Int.tdiv g.endT 1000 - Int.tdiv g.startT 1000 ≠ 0 := by
      intro e
      rw [e] at hq
      simp [Dec.quo?, Dec.ofInt] at hq
    omega
  have hratio : (Dec.sub Dec.one q).raw ≤ precision := by
    rw [quo_ofInt_eq _ _ hleft htot] at hq
    cases hq
    have := rawShare_nonneg (Int.tdiv g.endT 1000 - Int.tdiv g.startT 1000)
      (Int.tdiv g.endT 1000 - Int.tdiv now 1000) hleft htot
    simp only [Dec.sub, Dec.one, Dec.ofInt]
    omega
  refine foldlM_except_rel (σ := State × Coins) _ (Arrives M) (Arrives.refl M) (fun _ _ _ => Arrives.trans)
    g.coins (s, released) (s', rel') ?_ h
  intro coin hcoin a b hab
  obtain ⟨st, rel⟩ := a
  obtain ⟨denom, amount⟩ := coin
  have hA : 0 ≤ amount := hcoins _ hcoin
  have hle := release_le_bal (Dec.sub Dec.one q) amount (Bank.bal st.bank g.account denom) hratio hA
  simp only at hab
  split at hab
  · cases hab
  split at hab
  · cases hab; exact Arrives.refl M _
  split at hab
  · cases hab
  rename_i hz hneg
  split at hab
  · rename_i bk hbk
    cases hab
    intro hm hn
    simp only at hm hn
    refine ⟨hm, addCoinTo_denoms _ _ _ hn, fun d => ?_⟩
    have hb := Bank.bal_send hbk M d
    simp only
    rw [hb, amt_addCoinTo d denom _ rel hn]
    simp only [hm, if_true, hacc, if_false, Bank.amt]
    split <;> omega
  · rename_i hbk
    exfalso
    simp [Bank.send, Bank.sendCoin] at hbk
    omega

/-- **the released coins arrive**: if no escrow account of a stored gauge is the module account and
the recorded amounts are non-negative, the module account gains exactly `coins` in the gauge pass -/
theorem pullGauges_arrive (s s2 : State) (now : Int) (coins : Coins)
    (hacc : ∀ kv ∈ s.gauges, kv.2.account ≠ s.moduleAcc) (hamt : ∀ kv ∈ s.gauges, ∀ c ∈ kv.2.coins, 0 ≤ c.2)
    (h : pullGauges s now = .ok (s2, coins)) :
    ∀ d, Bank.bal s2.bank s2.moduleAcc d = Bank.bal s.bank s.moduleAcc d + Bank.amt d coins := by
  unfold pullGauges at h
  have key := foldlM_except_rel (σ := State × Coins) (fun acc (kv : String × Gauge) => pullGauge acc.1 now acc.2 kv.2)
    (Arrives s.moduleAcc) (Arrives.refl _) (fun _ _ _ => Arrives.trans) s.gauges (s, []) (s2, coins)
    (fun kv hkv a b hab => pullGauge_arrives s.moduleAcc a.1 b.1 now a.2 b.2 kv.2 (hacc kv hkv) (hamt kv hkv) hab) h
  obtain ⟨hm, _, he⟩ := key rfl (by simp)
  intro d
  have := he d
  simp only [Bank.amt] at this
  rw [hm]; omega

end Canine.Storage.RewardBlock
