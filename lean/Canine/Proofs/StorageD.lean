/-
Auxiliary lemmas for C07 (plan space accounting) and C05 (the reward block never panics):
sums over association lists, membership through `set`/`erase`, and the frame facts of the
storage handlers (`removeFile`, `setFile`, `removeProver`, `manageProof`, `manageFile`).
-/
import Canine.Storage.Model
namespace Canine

namespace AMap
variable {K V : Type} [DecidableEq K]

omit [DecidableEq K] in
theorem sumBy_nonneg (f : V → Int) {m : AMap K V} (h : ∀ p ∈ m, 0 ≤ f p.2) : 0 ≤ sumBy f m := by
  induction m with
  | nil => simp [sumBy]
  | cons p t ih =>
    obtain ⟨k', v'⟩ := p
    have h1 : 0 ≤ f v' := h (k', v') (by simp)
    have h2 := ih (fun p hp => h p (List.mem_cons_of_mem _ hp))
    simp only [sumBy]; omega

theorem sumBy_ge_of_get (f : V → Int) {m : AMap K V} {k : K} {v : V}
    (h : ∀ p ∈ m, 0 ≤ f p.2) (hg : get m k = some v) : f v ≤ sumBy f m := by
  induction m with
  | nil => simp [get] at hg
  | cons p t ih =>
    obtain ⟨k', v'⟩ := p
    have h1 : 0 ≤ f v' := h (k', v') (by simp)
    have h2 := sumBy_nonneg f (fun p hp => h p (List.mem_cons_of_mem _ hp))
    by_cases hk : k' = k
    · simp [get, hk] at hg; subst hg
      simp only [sumBy]; omega
    · simp [get, hk] at hg
      have := ih (fun p hp => h p (List.mem_cons_of_mem _ hp)) hg
      simp only [sumBy]; omega

omit [DecidableEq K] in
theorem sumBy_eq_zero (f : V → Int) {m : AMap K V} (h : ∀ p ∈ m, f p.2 = 0) : sumBy f m = 0 := by
  induction m with
  | nil => simp [sumBy]
  | cons p t ih =>
    obtain ⟨k', v'⟩ := p
    have h1 : f v' = 0 := h (k', v') (by simp)
    have h2 := ih (fun p hp => h p (List.mem_cons_of_mem _ hp))
    simp only [sumBy]; omega

theorem mem_of_mem_set {m : AMap K V} {k : K} {v : V} {p : K × V} (h : p ∈ set m k v) :
    p = (k, v) ∨ p ∈ m := by
  induction m with
  | nil => simp [set] at h; exact Or.inl h
  | cons q t ih =>
    obtain ⟨k', v'⟩ := q
    by_cases hk : k' = k
    · simp only [set, hk, if_true, List.mem_cons] at h
      rcases h with h | h
      · exact Or.inl h
      · exact Or.inr (List.mem_cons_of_mem _ h)
    · simp only [set, hk, if_false, List.mem_cons] at h
      rcases h with h | h
      · exact Or.inr (by simp [h])
      · rcases ih h with h | h
        · exact Or.inl h
        · exact Or.inr (List.mem_cons_of_mem _ h)

theorem mem_of_mem_erase {m : AMap K V} {k : K} {p : K × V} (h : p ∈ erase m k) : p ∈ m := by
  induction m with
  | nil => simp [erase] at h
  | cons q t ih =>
    obtain ⟨k', v'⟩ := q
    by_cases hk : k' = k
    · simp only [erase, hk, if_true] at h
      exact List.mem_cons_of_mem _ (ih h)
    · simp only [erase, hk, if_false, List.mem_cons] at h
      rcases h with h | h
      · simp [h]
      · exact List.mem_cons_of_mem _ (ih h)

end AMap

namespace Storage

/-! ## C07 definitions: footprint, usage, the space invariant -/

/-- the bytes a file reserves in its owner's plan: `FileSize * MaxProofs` -/
def footprint (f : File) : Int := f.fileSize * f.maxProofs

/-- what file `f` counts against the plan of address `a`: its footprint if `a` owns it and it is
plan-paid (`Expires ≤ 0`), nothing otherwise -/
def planFoot (a : String) (f : File) : Int := if f.owner = a ∧ f.expires ≤ 0 then footprint f else 0

def usedIn (files : AMap FKey File) (a : String) : Int := AMap.sumBy (planFoot a) files

/-- total footprint of the plan-paid files `a` holds -/
def usedBy (s : State) (a : String) : Int := usedIn s.files a

/-- the invariant on the two stores it speaks about -/
structure SpaceInvFP (F : AMap FKey File) (P : AMap String PayInfo) : Prop where
  wfF : AMap.WF F
  wfP : AMap.WF P
  fileOk : ∀ k f, AMap.get F k = some f → k = f.key ∧ 1 ≤ f.fileSize ∧ 1 ≤ f.maxProofs
  planOk : ∀ a pi, AMap.get P a = some pi →
    pi.address = a ∧ pi.spaceUsed = usedIn F a ∧ 0 ≤ pi.spaceUsed ∧ pi.spaceUsed ≤ pi.spaceAvailable
  hasPlan : ∀ k f, AMap.get F k = some f → f.expires ≤ 0 → (AMap.get P f.owner).isSome = true

/-- C07's invariant: every plan record's `spaceUsed` is exactly the total footprint of the
plan-paid files its address holds (and fits in the plan); every plan-paid file has a plan record. -/
def SpaceInv (s : State) : Prop := SpaceInvFP s.files s.payinfo

theorem footprint_pos {f : File} (h1 : 1 ≤ f.fileSize) (h2 : 1 ≤ f.maxProofs) : 1 ≤ footprint f := by
  unfold footprint
  have := Int.mul_le_mul h1 h2 (by omega) (by omega)
  omega

theorem planFoot_nonneg_of {F : AMap FKey File} {P} (hinv : SpaceInvFP F P) (a : String) :
    ∀ p ∈ F, 0 ≤ planFoot a p.2 := by
  intro p hp
  obtain ⟨k, f⟩ := p
  have hg := AMap.get_of_mem_wf hinv.wfF hp
  obtain ⟨_, h1, h2⟩ := hinv.fileOk k f hg
  have := footprint_pos h1 h2
  simp only [planFoot]; split <;> omega

theorem usedIn_erase {F : AMap FKey File} (hwf : AMap.WF F) (k : FKey) (f : File)
    (hg : AMap.get F k = some f) (a : String) :
    usedIn (AMap.erase F k) a = usedIn F a - planFoot a f := by
  unfold usedIn
  rw [AMap.sumBy_erase _ _ hwf, hg]; simp

theorem usedIn_set_new {F : AMap FKey File} (hwf : AMap.WF F) (k : FKey) (f : File)
    (hg : AMap.get F k = none) (a : String) :
    usedIn (AMap.set F k f) a = usedIn F a + planFoot a f := by
  unfold usedIn
  rw [AMap.sumBy_set _ _ _ hwf, hg]; simp

theorem usedIn_set_same {F : AMap FKey File} (hwf : AMap.WF F) (k : FKey) (f f' : File)
    (hg : AMap.get F k = some f) (a : String) (he : planFoot a f' = planFoot a f) :
    usedIn (AMap.set F k f') a = usedIn F a := by
  unfold usedIn
  rw [AMap.sumBy_set _ _ _ hwf, hg, he]; simp

/-- removing a file and returning its footprint to the plan (exactly: no flooring is needed) -/
theorem SpaceInvFP.remove {F P} (hinv : SpaceInvFP F P) {k : FKey} {f : File}
    (hg : AMap.get F k = some f) :
    (0 < f.expires → SpaceInvFP (AMap.erase F k) P) ∧
    (f.expires ≤ 0 → ∃ pi, AMap.get P f.owner = some pi ∧ pi.address = f.owner ∧
        footprint f ≤ pi.spaceUsed ∧
        SpaceInvFP (AMap.erase F k)
          (AMap.set P f.owner { pi with spaceUsed := pi.spaceUsed - footprint f })) := by
  have hnn := fun a => planFoot_nonneg_of hinv a
  have hfile : ∀ k2 f2, AMap.get (AMap.erase F k) k2 = some f2 → AMap.get F k2 = some f2 := by
    intro k2 f2 h2
    rw [AMap.get_erase] at h2
    split at h2
    · simp at h2
    · exact h2
  constructor
  · intro hpos
    refine ⟨AMap.wf_erase _ hinv.wfF, hinv.wfP, fun k2 f2 h2 => hinv.fileOk k2 f2 (hfile k2 f2 h2), ?_,
      fun k2 f2 h2 => hinv.hasPlan k2 f2 (hfile k2 f2 h2)⟩
    intro a pi hpi
    obtain ⟨h1, h2, h3, h4⟩ := hinv.planOk a pi hpi
    refine ⟨h1, ?_, h3, h4⟩
    rw [usedIn_erase hinv.wfF k f hg, h2]
    have : planFoot a f = 0 := by simp only [planFoot]; split <;> omega
    omega
  · intro hle
    have hsome := hinv.hasPlan k f hg hle
    cases hpi : AMap.get P f.owner with
    | none => simp [hpi] at hsome
    | some pi =>
      obtain ⟨h1, h2, h3, h4⟩ := hinv.planOk _ pi hpi
      have hfp : 1 ≤ footprint f := by
        obtain ⟨_, q1, q2⟩ := hinv.fileOk k f hg
        exact footprint_pos q1 q2
      have hge : footprint f ≤ pi.spaceUsed := by
        rw [h2]
        have := AMap.sumBy_ge_of_get (planFoot f.owner) (hnn f.owner) hg
        simp only [planFoot, hle, and_self, if_true] at this
        exact this
      refine ⟨pi, rfl, h1, hge, AMap.wf_erase _ hinv.wfF, AMap.wf_set _ _ hinv.wfP,
        fun k2 f2 h2 => hinv.fileOk k2 f2 (hfile k2 f2 h2), ?_, ?_⟩
      · intro a pi2 hpi2
        rw [AMap.get_set] at hpi2
        rw [usedIn_erase hinv.wfF k f hg]
        split at hpi2
        · rename_i he
          simp only [Option.some.injEq] at hpi2
          subst hpi2; subst he
          simp only [planFoot, hle, and_self, if_true]
          exact ⟨h1, by omega, by omega, by omega⟩
        · rename_i he
          obtain ⟨g1, g2, g3, g4⟩ := hinv.planOk a pi2 hpi2
          have : planFoot a f = 0 := by simp only [planFoot, he, false_and, if_false]
          exact ⟨g1, by omega, g3, g4⟩
      · intro k2 f2 h2 hle2
        have := hinv.hasPlan k2 f2 (hfile k2 f2 h2) hle2
        rw [AMap.get_set]; split
        · rfl
        · exact this

/-- `removeFile` computes exactly that -/
theorem removeFile_eq_of_inv {s : State} (hinv : SpaceInv s) {k : FKey} {f : File}
    (hg : AMap.get s.files k = some f) :
    (removeFile s k).files = AMap.erase s.files k ∧
    (0 < f.expires → (removeFile s k).payinfo = s.payinfo) ∧
    (f.expires ≤ 0 → ∃ pi, AMap.get s.payinfo f.owner = some pi ∧
        (removeFile s k).payinfo =
          AMap.set s.payinfo f.owner { pi with spaceUsed := pi.spaceUsed - footprint f }) := by
  unfold removeFile
  simp only [hg]
  refine ⟨trivial, ?_, ?_⟩
  · intro hpos
    have : ¬ f.expires ≤ 0 := by omega
    simp only [this, if_false]
  · intro hle
    obtain ⟨pi, hpi, haddr, hge, -⟩ := (hinv.remove hg).2 hle
    refine ⟨pi, hpi, ?_⟩
    simp only [hle, if_true, hpi, haddr]
    have : ¬ (pi.spaceUsed - f.fileSize * f.maxProofs < 0) := by unfold footprint at hge; omega
    simp only [this, if_false, footprint]

theorem removeFile_none {s : State} {k : FKey} (hg : AMap.get s.files k = none) : removeFile s k = s := by
  unfold removeFile; simp only [hg]

/-- `removeFile` preserves the invariant -/
theorem removeFile_inv {s : State} (hinv : SpaceInv s) (k : FKey) : SpaceInv (removeFile s k) := by
  cases hg : AMap.get s.files k with
  | none => rw [removeFile_none hg]; exact hinv
  | some f =>
    obtain ⟨e1, e2, e3⟩ := removeFile_eq_of_inv hinv hg
    unfold SpaceInv
    rw [e1]
    by_cases hle : f.expires ≤ 0
    · obtain ⟨pi, hpi, e⟩ := e3 hle
      obtain ⟨pi', hpi', -, -, h⟩ := (hinv.remove hg).2 hle
      rw [hpi] at hpi'; cases hpi'
      rw [e]; exact h
    · rw [e2 (by omega)]; exact (hinv.remove hg).1 (by omega)

/-- adding a file under a fresh key: pay-once files leave the plans alone -/
theorem SpaceInvFP.add_payonce {F P} (hinv : SpaceInvFP F P) {f : File}
    (hg : AMap.get F f.key = none) (h1 : 1 ≤ f.fileSize) (h2 : 1 ≤ f.maxProofs) (hpos : 0 < f.expires) :
    SpaceInvFP (AMap.set F f.key f) P := by
  have hfile : ∀ k2 f2, AMap.get (AMap.set F f.key f) k2 = some f2 →
      (k2 = f.key ∧ f2 = f) ∨ AMap.get F k2 = some f2 := by
    intro k2 f2 h
    rw [AMap.get_set] at h
    split at h
    · rename_i he; simp at h; exact Or.inl ⟨he.symm, h.symm⟩
    · exact Or.inr h
  refine ⟨AMap.wf_set _ _ hinv.wfF, hinv.wfP, ?_, ?_, ?_⟩
  · intro k2 f2 h
    rcases hfile k2 f2 h with ⟨e1, e2⟩ | h
    · subst e1 e2; exact ⟨rfl, h1, h2⟩
    · exact hinv.fileOk k2 f2 h
  · intro a pi hpi
    obtain ⟨g1, g2, g3, g4⟩ := hinv.planOk a pi hpi
    refine ⟨g1, ?_, g3, g4⟩
    rw [usedIn_set_new hinv.wfF _ _ hg, g2]
    have : planFoot a f = 0 := by simp only [planFoot]; split <;> omega
    omega
  · intro k2 f2 h hle
    rcases hfile k2 f2 h with ⟨e1, e2⟩ | h
    · subst e2; omega
    · exact hinv.hasPlan k2 f2 h hle

/-- adding a plan-paid file under a fresh key, charging its footprint to the owner's plan -/
theorem SpaceInvFP.add_plan {F P} (hinv : SpaceInvFP F P) {f : File} {pi : PayInfo}
    (hg : AMap.get F f.key = none) (h1 : 1 ≤ f.fileSize) (h2 : 1 ≤ f.maxProofs) (hle : f.expires ≤ 0)
    (hpi : AMap.get P f.owner = some pi) (hfit : pi.spaceUsed + footprint f ≤ pi.spaceAvailable) :
    SpaceInvFP (AMap.set F f.key f)
      (AMap.set P f.owner { pi with spaceUsed := pi.spaceUsed + footprint f }) := by
  have hfile : ∀ k2 f2, AMap.get (AMap.set F f.key f) k2 = some f2 →
      (k2 = f.key ∧ f2 = f) ∨ AMap.get F k2 = some f2 := by
    intro k2 f2 h
    rw [AMap.get_set] at h
    split at h
    · rename_i he; simp at h; exact Or.inl ⟨he.symm, h.symm⟩
    · exact Or.inr h
  have hfp := footprint_pos h1 h2
  refine ⟨AMap.wf_set _ _ hinv.wfF, AMap.wf_set _ _ hinv.wfP, ?_, ?_, ?_⟩
  · intro k2 f2 h
    rcases hfile k2 f2 h with ⟨e1, e2⟩ | h
    · subst e1 e2; exact ⟨rfl, h1, h2⟩
    · exact hinv.fileOk k2 f2 h
  · intro a pi2 hpi2
    rw [usedIn_set_new hinv.wfF _ _ hg]
    rw [AMap.get_set] at hpi2
    split at hpi2
    · rename_i he
      simp only [Option.some.injEq] at hpi2
      subst hpi2; subst he
      obtain ⟨g1, g2, g3, g4⟩ := hinv.planOk _ pi hpi
      simp only [planFoot, hle, and_self, if_true]
      exact ⟨g1, by omega, by omega, hfit⟩
    · rename_i he
      obtain ⟨g1, g2, g3, g4⟩ := hinv.planOk a pi2 hpi2
      have : planFoot a f = 0 := by simp only [planFoot, he, false_and, if_false]
      exact ⟨g1, by omega, g3, g4⟩
  · intro k2 f2 h hle2
    rw [AMap.get_set]; split
    · rfl
    · rcases hfile k2 f2 h with ⟨e1, e2⟩ | h
      · subst e2; rename_i hne; exact absurd rfl hne
      · exact hinv.hasPlan k2 f2 h hle2

/-- rewriting a stored file keeping key, owner, expiry and sizes (the prover list may change) -/
theorem SpaceInvFP.rewrite {F P} (hinv : SpaceInvFP F P) {f f' : File}
    (hg : AMap.get F f.key = some f) (hk : f'.key = f.key) (ho : f'.owner = f.owner)
    (he : f'.expires = f.expires) (hs : f'.fileSize = f.fileSize) (hm : f'.maxProofs = f.maxProofs) :
    SpaceInvFP (AMap.set F f'.key f') P := by
  rw [hk]
  have hfile : ∀ k2 f2, AMap.get (AMap.set F f.key f') k2 = some f2 →
      (k2 = f.key ∧ f2 = f') ∨ AMap.get F k2 = some f2 := by
    intro k2 f2 h
    rw [AMap.get_set] at h
    split at h
    · rename_i he; simp at h; exact Or.inl ⟨he.symm, h.symm⟩
    · exact Or.inr h
  obtain ⟨_, h1, h2⟩ := hinv.fileOk _ f hg
  have hpf : ∀ a, planFoot a f' = planFoot a f := by
    intro a; simp only [planFoot, footprint, ho, he, hs, hm]
  refine ⟨AMap.wf_set _ _ hinv.wfF, hinv.wfP, ?_, ?_, ?_⟩
  · intro k2 f2 h
    rcases hfile k2 f2 h with ⟨e1, e2⟩ | h
    · subst e1 e2; exact ⟨hk.symm, by omega, by omega⟩
    · exact hinv.fileOk k2 f2 h
  · intro a pi hpi
    rw [usedIn_set_same hinv.wfF _ f f' hg a (hpf a)]
    exact hinv.planOk a pi hpi
  · intro k2 f2 h hle
    rcases hfile k2 f2 h with ⟨e1, e2⟩ | h
    · subst e2; rw [ho]; exact hinv.hasPlan _ f hg (by omega)
    · exact hinv.hasPlan k2 f2 h hle

/-- (re)writing the plan record of `a`, carrying the usage over -/
theorem SpaceInvFP.buy {F P} (hinv : SpaceInvFP F P) (a : String) (spi : PayInfo)
    (haddr : spi.address = a)
    (hused : spi.spaceUsed = ((AMap.get P a).map (·.spaceUsed)).getD 0)
    (hfit : spi.spaceUsed ≤ spi.spaceAvailable) :
    SpaceInvFP F (AMap.set P a spi) := by
  refine ⟨hinv.wfF, AMap.wf_set _ _ hinv.wfP, hinv.fileOk, ?_, ?_⟩
  · intro b pi hpi
    rw [AMap.get_set] at hpi
    split at hpi
    · rename_i he
      simp only [Option.some.injEq] at hpi
      subst hpi; subst he
      cases hold : AMap.get P spi.address with
      | none =>
        rw [haddr] at hold
        rw [hold] at hused
        simp only [Option.map_none, Option.getD_none] at hused
        have hz : usedIn F a = 0 := by
          unfold usedIn
          apply AMap.sumBy_eq_zero
          intro p hp
          obtain ⟨k, f⟩ := p
          have hg := AMap.get_of_mem_wf hinv.wfF hp
          simp only [planFoot]
          split
          · rename_i hc
            have := hinv.hasPlan k f hg hc.2
            rw [hc.1, hold] at this; simp at this
          · rfl
        rw [haddr]
        exact ⟨rfl, by omega, by omega, hfit⟩
      | some old =>
        rw [haddr] at hold
        obtain ⟨g1, g2, g3, g4⟩ := hinv.planOk _ old hold
        rw [hold] at hused
        simp only [Option.map_some, Option.getD_some] at hused
        rw [haddr]
        exact ⟨rfl, by omega, by omega, hfit⟩
    · exact hinv.planOk b pi hpi
  · intro k f hg hle
    have := hinv.hasPlan k f hg hle
    rw [AMap.get_set]; split
    · rfl
    · exact this

/-! ## handler shapes -/

/-- the record `postFile` stores -/
def postedFile (s : State) (h : Int) (c m : String) (fs mp ex pt : Int) (note : String) : File :=
  { merkle := m, owner := c, start := h, expires := ex, fileSize := fs,
    proofInterval := s.params.proofWindow, proofType := pt, proofs := [], maxProofs := mp, note := note }

theorem postFile_shape {s s' : State} {h now : Int} {c m : String} {fs mp ex pt : Int} {note : String}
    {nv : Bool} {jp : Dec} {gid gacc : String}
    (hs : postFile s h now c m fs mp ex pt note nv jp gid gacc = some s') :
    s'.params = s.params ∧ 1 ≤ fs ∧ 1 ≤ mp ∧
    s'.files = (setFile (removeFile s (m, c, h)) (postedFile s h c m fs mp ex pt note)).files ∧
    ((0 < ex ∧ s'.payinfo = (removeFile s (m, c, h)).payinfo) ∨
     (ex ≤ 0 ∧ ∃ pi, AMap.get (removeFile s (m, c, h)).payinfo c = some pi ∧ pi.endT ≥ now ∧
        pi.spaceUsed + fs * mp ≤ pi.spaceAvailable ∧
        s'.payinfo = AMap.set (removeFile s (m, c, h)).payinfo pi.address
                      { pi with spaceUsed := pi.spaceUsed + fs * mp })) := by
  simp only [postFile, bind, Option.bind_eq_some_iff, req_eq_some] at hs
  obtain ⟨_, hnv, _, ⟨h1, h2, h3⟩, hrest⟩ := hs
  have hrp : (removeFile s (m, c, h)).params = s.params := by
    unfold removeFile; split <;> rfl
  refine ⟨?_, h1, h2, ?_⟩
  · split at hrest
    · simp only [Option.bind_eq_some_iff, req_eq_some] at hrest
      obtain ⟨_, _, cost, _, _, _, spc, _, tp, _, b1, _, b2, _, hs⟩ := hrest
      simp only [Option.some.injEq] at hs; subst hs
      exact hrp
    · simp only [Option.bind_eq_some_iff, req_eq_some] at hrest
      obtain ⟨pi, hpi, _, hend, _, hfit, hs⟩ := hrest
      simp only [Option.some.injEq] at hs; subst hs
      exact hrp
  split at hrest
  · rename_i hpos
    simp only [Option.bind_eq_some_iff, req_eq_some] at hrest
    obtain ⟨_, _, cost, _, _, _, spc, _, tp, _, b1, _, b2, _, hs⟩ := hrest
    simp only [Option.some.injEq] at hs; subst hs
    exact ⟨rfl, Or.inl ⟨hpos, rfl⟩⟩
  · rename_i hpos
    simp only [Option.bind_eq_some_iff, req_eq_some] at hrest
    obtain ⟨pi, hpi, _, hend, _, hfit, hs⟩ := hrest
    simp only [Option.some.injEq] at hs; subst hs
    exact ⟨rfl, Or.inr ⟨by omega, pi, hpi, hend, hfit, rfl⟩⟩

set_option hygiene false in
local macro "buy_fin" : tactic => `(tactic| (
  try simp only [Option.bind_eq_some_iff] at hs
  obtain ⟨b4, _, hs⟩ := hs
  simp only [Option.some.injEq] at hs; subst hs
  exact ⟨rfl, rfl, rfl⟩))

set_option hygiene false in
local macro "buy_tail" h:ident : tactic => `(tactic| (
  obtain ⟨_, _, pc, _, b1, _, spc, _, b2, _, pol, _, b3, _, rt, _, hs⟩ := $h
  first
  | buy_fin
  | (split at hs <;> buy_fin)))

theorem buyStorage_shape {s s' : State} {now : Int} {c fa : String} {dd bytes : Int} {dn : String} {ref : Option String}
    {jp : Dec} {gid gacc : String}
    (hs : buyStorage s now c fa dd bytes dn ref jp gid gacc = some s') :
    0 < bytes ∧ (∀ pi, AMap.get s.payinfo fa = some pi → pi.spaceUsed ≤ bytes) ∧
    s'.params = s.params ∧ s'.files = s.files ∧
    s'.payinfo = AMap.set s.payinfo fa
      { startT := now, endT := now + I64.mul dd dayNs, spaceAvailable := bytes,
        spaceUsed := ((AMap.get s.payinfo fa).map (·.spaceUsed)).getD 0, address := fa } := by
  cases ref
  all_goals (
    simp only [buyStorage, bind, Option.bind_eq_some_iff, req_eq_some] at hs
    obtain ⟨_, _, _, _, _, hgb, _, _, cost, _, _, _, hrest⟩ := hs
    have hb : 0 < bytes := by
      rw [← tdiv_eq] at hgb
      unfold Canine.tdiv gb at hgb
      split at hgb <;> simp at hgb <;> omega
    refine ⟨hb, ?_⟩
    split at hrest
    · rename_i pi hpi
      split at hrest
      · simp at hrest
      · rename_i hle
        refine ⟨fun pi' h' => by rw [hpi] at h'; cases h'; omega, ?_⟩
        simp only [hpi, Option.map_some, Option.getD_some]
        split at hrest
        · simp only [Option.bind_eq_some_iff, req_eq_some, Option.map_eq_some_iff] at hrest
          obtain ⟨_, ⟨p, hup, rfl⟩, hrest⟩ := hrest
          buy_tail hrest
        · simp only [Option.bind_eq_some_iff, req_eq_some, Option.bind_some] at hrest
          buy_tail hrest
    · rename_i hpi
      refine ⟨fun pi' h' => by (rw [hpi] at h'; cases h'), ?_⟩
      simp only [hpi, Option.map_none, Option.getD_none]
      simp only [Option.bind_eq_some_iff, req_eq_some, Option.bind_some] at hrest
      buy_tail hrest)

/-! ## the reward block: what `manageProof` / `manageFile` can do to the stores -/

/-- the attributes of a file the accounting depends on -/
def acct (f : File) : FKey × Int × Int × Int := (f.key, f.expires, f.fileSize, f.maxProofs)

theorem acct_eq {f g : File} (h : acct g = acct f) :
    g.key = f.key ∧ g.owner = f.owner ∧ g.expires = f.expires ∧ g.fileSize = f.fileSize ∧
      g.maxProofs = f.maxProofs := by
  simp only [acct, File.key, Prod.mk.injEq] at h
  simp only [File.key, Prod.mk.injEq]
  obtain ⟨⟨a, b, c⟩, d, e, g⟩ := h
  exact ⟨⟨a, b, c⟩, b, d, e, g⟩

/-- the part of the state the reward loop over files never touches -/
def sameRest (s s' : State) : Prop :=
  s'.bank = s.bank ∧ s'.gauges = s.gauges ∧ s'.moduleAcc = s.moduleAcc ∧ s'.params = s.params ∧
  s'.blocked = s.blocked

theorem sameRest_refl (s : State) : sameRest s s := ⟨rfl, rfl, rfl, rfl, rfl⟩
theorem sameRest_trans {a b c : State} (h1 : sameRest a b) (h2 : sameRest b c) : sameRest a c := by
  obtain ⟨a1, a2, a3, a4, a5⟩ := h1
  obtain ⟨b1, b2, b3, b4, b5⟩ := h2
  exact ⟨b1.trans a1, b2.trans a2, b3.trans a3, b4.trans a4, b5.trans a5⟩

/-- `F'` is `F` with the entry of `file.key` rewritten any number of times by records that agree
with `file` on key, expiry and sizes -/
inductive Rewrites (file : File) : AMap FKey File → AMap FKey File → Prop
  | refl (F) : Rewrites file F F
  | step {F F'} (g : File) : Rewrites file F F' → acct g = acct file → Rewrites file F (AMap.set F' file.key g)

theorem Rewrites.trans {file : File} {A B C : AMap FKey File} (h1 : Rewrites file A B) (h2 : Rewrites file B C) :
    Rewrites file A C := by
  induction h2 with
  | refl => exact h1
  | step g _ hg ih => exact .step g ih hg

theorem removeProver_shape (s : State) (f : File) (pk : PKey) :
    let r := removeProver s f pk
    acct r.2 = acct f ∧ r.1.payinfo = s.payinfo ∧ sameRest s r.1 ∧
    (r.1.files = s.files ∨ r.1.files = AMap.set s.files f.key r.2) := by
  unfold removeProver
  split
  · exact ⟨rfl, rfl, sameRest_refl _, Or.inr rfl⟩
  · exact ⟨rfl, rfl, sameRest_refl _, Or.inl rfl⟩

theorem burnContract_shape (s : State) (p : String) :
    (burnContract s p).files = s.files ∧ (burnContract s p).payinfo = s.payinfo ∧ sameRest s (burnContract s p) := by
  unfold burnContract
  split
  · exact ⟨rfl, rfl, sameRest_refl _⟩
  · split
    · exact ⟨rfl, rfl, sameRest_refl _⟩
    · exact ⟨rfl, rfl, sameRest_refl _⟩

/-- one `manageProof`: the current file keeps its accounting attributes, plans are untouched, the
file store is unchanged or has the current file's entry rewritten, the tracker is unchanged or
one prover is credited the file's size -/
theorem manageProof_shape (s : State) (h : Int) (t : Tracker) (file : File) (pk : PKey) :
    let r := manageProof s h t file pk
    acct r.2.2 = acct file ∧ r.1.payinfo = s.payinfo ∧ sameRest s r.1 ∧
    (r.1.files = s.files ∨ r.1.files = AMap.set s.files file.key r.2.2) ∧
    (r.2.1 = t ∨ ∃ p, r.2.1 = credit t p file.fileSize) := by
  have hrp := removeProver_shape s file pk
  simp only at hrp
  obtain ⟨r1, r2, r3, r4⟩ := hrp
  unfold manageProof
  simp only
  split
  · split
    · exact ⟨r1, r2, r3, r4, Or.inl rfl⟩
    · exact ⟨rfl, rfl, sameRest_refl _, Or.inl rfl, Or.inr ⟨_, rfl⟩⟩
  · split
    · obtain ⟨b1, b2, b3⟩ := burnContract_shape (removeProver s file pk).1 pk.1
      refine ⟨r1, b2.trans r2, sameRest_trans r3 b3, ?_, Or.inl rfl⟩
      simp only [b1]; exact r4
    · exact ⟨rfl, rfl, sameRest_refl _, Or.inl rfl, Or.inr ⟨_, rfl⟩⟩

/-- `t'` is `t` after crediting provers `sz` bytes any number of times -/
inductive Credits (sz : Int) : Tracker → Tracker → Prop
  | refl (t) : Credits sz t t
  | step {t t'} (p : String) : Credits sz t t' → Credits sz t (credit t' p sz)

theorem Credits.trans {sz : Int} {a b c : Tracker} (h1 : Credits sz a b) (h2 : Credits sz b c) : Credits sz a c := by
  induction h2 with
  | refl => exact h1
  | step p _ ih => exact .step p ih

/-- the loop of `manageFile` over the listed provers -/
theorem manageProofs_shape (h : Int) (file : File) : ∀ (pks : List PKey) (s : State) (t : Tracker) (cur : File),
    acct cur = acct file →
    let r := pks.foldl (fun (acc : State × Tracker × File) pk => manageProof acc.1 h acc.2.1 acc.2.2 pk) (s, t, cur)
    acct r.2.2 = acct file ∧ r.1.payinfo = s.payinfo ∧ sameRest s r.1 ∧
    Rewrites file s.files r.1.files ∧ Credits file.fileSize t r.2.1
  | [], s, t, cur, hc => ⟨hc, rfl, sameRest_refl _, .refl _, .refl _⟩
  | pk :: pks, s, t, cur, hc => by
    have h1 := manageProof_shape s h t cur pk
    simp only at h1
    obtain ⟨a1, a2, a3, a4, a5⟩ := h1
    have hc' : acct (manageProof s h t cur pk).2.2 = acct file := a1.trans hc
    have ih := manageProofs_shape h file pks (manageProof s h t cur pk).1 (manageProof s h t cur pk).2.1
      (manageProof s h t cur pk).2.2 hc'
    simp only at ih
    obtain ⟨b1, b2, b3, b4, b5⟩ := ih
    simp only [List.foldl_cons]
    refine ⟨b1, b2.trans a2, sameRest_trans a3 b3, ?_, ?_⟩
    · refine Rewrites.trans ?_ b4
      rcases a4 with e | e
      · rw [e]; exact .refl _
      · rw [e, (acct_eq hc).1]; exact .step _ (.refl _) hc'
    · refine Credits.trans ?_ b5
      rcases a5 with e | ⟨p, e⟩
      · rw [e]; exact .refl _
      · rw [e, (acct_eq hc).2.2.2.1]; exact .step p (.refl _)

/-- one file of the reward block: either the file is dropped through `removeFile` (it has no
provers and is old; the tracker is untouched), or only its own entry is rewritten -/
theorem manageFile_shape (s : State) (h : Int) (t : Tracker) (file : File) :
    (file.proofs = [] ∧ isYoung h file.start file.proofInterval = false ∧
      manageFile s h t file = (removeFile s file.key, t)) ∨
    ((manageFile s h t file).1.payinfo = s.payinfo ∧ sameRest s (manageFile s h t file).1 ∧
      Rewrites file s.files (manageFile s h t file).1.files ∧
      Credits file.fileSize t (manageFile s h t file).2 ∧
      (file.proofs = [] → (manageFile s h t file).2 = t)) := by
  unfold manageFile
  by_cases hc : (file.proofs.isEmpty && !(isYoung h file.start file.proofInterval)) = true
  · left
    simp only [Bool.and_eq_true, List.isEmpty_iff, Bool.not_eq_true'] at hc
    obtain ⟨h1, h2⟩ := hc
    refine ⟨h1, h2, ?_⟩
    simp [h1, h2]
  · right
    simp only [hc]
    have := manageProofs_shape h file file.proofs s t file rfl
    simp only at this
    obtain ⟨_, b2, b3, b4, b5⟩ := this
    refine ⟨b2, b3, b4, b5, ?_⟩
    intro he; rw [he]; rfl

theorem foldlM_except_inv {α β ε : Type} (P : β → Prop) (f : β → α → Except ε β)
    (hf : ∀ b a b', P b → f b a = .ok b' → P b') :
    ∀ (l : List α) (b b' : β), P b → l.foldlM f b = .ok b' → P b'
  | [], b, b', hb, h => by
    simp only [List.foldlM_nil, pure, Except.pure, Except.ok.injEq] at h
    subst h; exact hb
  | a :: l, b, b', hb, h => by
    simp only [List.foldlM_cons, bind, Except.bind] at h
    cases hfa : f b a with
    | error e => simp [hfa] at h
    | ok b1 =>
      simp only [hfa] at h
      exact foldlM_except_inv P f hf l b1 b' (hf b a b1 hb hfa) h

/-- the gauge and payout phases touch only the ledger and the gauge store -/
def sameStores (s s' : State) : Prop :=
  s'.files = s.files ∧ s'.payinfo = s.payinfo ∧ s'.moduleAcc = s.moduleAcc ∧ s'.params = s.params ∧
  s'.blocked = s.blocked

theorem pullGauge_stores {s0 s s' : State} {now : Int} {rel rel' : Coins} {g : Gauge}
    (h0 : sameStores s0 s) (h : pullGauge s now rel g = .ok (s', rel')) : sameStores s0 s' := by
  unfold pullGauge at h
  split at h
  · simp only [Except.ok.injEq, Prod.mk.injEq] at h; obtain ⟨h, _⟩ := h; subst h; exact h0
  split at h
  · simp only [Except.ok.injEq, Prod.mk.injEq] at h; obtain ⟨h, _⟩ := h; subst h; exact h0
  simp only at h
  split at h
  · simp only [Except.ok.injEq, Prod.mk.injEq] at h; obtain ⟨h, _⟩ := h; subst h; exact h0
  split at h
  · simp at h
  · refine foldlM_except_inv (fun (acc : State × Coins) => sameStores s0 acc.1) _ ?_ _ (s, rel) (s', rel') h0 h
    intro b a b' hb hstep
    obtain ⟨st, rl⟩ := b
    obtain ⟨d, amount⟩ := a
    simp only at hstep
    split at hstep
    · simp at hstep
    split at hstep
    · simp only [Except.ok.injEq] at hstep; subst hstep; exact hb
    split at hstep
    · simp at hstep
    split at hstep
    · simp only [Except.ok.injEq] at hstep; subst hstep; exact hb
    · simp only [Except.ok.injEq] at hstep; subst hstep; exact hb

theorem pullGauges_stores {s s' : State} {now : Int} {rel : Coins}
    (h : pullGauges s now = .ok (s', rel)) : sameStores s s' := by
  unfold pullGauges at h
  refine foldlM_except_inv (fun (acc : State × Coins) => sameStores s acc.1) _ ?_ _ (s, []) (s', rel)
    ⟨rfl, rfl, rfl, rfl, rfl⟩ h
  intro b a b' hb hstep
  exact pullGauge_stores hb hstep

theorem payProver_stores {s0 s s' : State} {total : Int} {coins : Coins} {p : String} {w : Int}
    (h0 : sameStores s0 s) (h : payProver s total coins p w = .ok s') : sameStores s0 s' := by
  unfold payProver at h
  split at h
  · simp at h
  split at h
  · simp only [Except.ok.injEq] at h; subst h; exact h0
  · refine foldlM_except_inv (fun (st : State) => sameStores s0 st) _ ?_ _ s s' h0 h
    intro b a b' hb hstep
    simp only at hstep
    split at hstep
    · simp at hstep
    split at hstep
    · simp only [Except.ok.injEq] at hstep; subst hstep; exact hb
    · simp only [Except.ok.injEq] at hstep; subst hstep; exact hb

end Storage
end Canine
