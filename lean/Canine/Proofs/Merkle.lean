/-
Theorems about the Merkle tree model of `Canine.Storage.Merkle`:

(A) completeness: the proof `genProof` produces verifies against `root`, for every hash function;
(B) soundness in collision-extraction form: an accepted proof is a proof for the real leaf, or it
    exhibits a collision of `H` or a pre-image of the all-zero padding node;
(C) the chain-side leaf encoding `decimal(index) ‖ hex(item)` is injective for a fixed index and
    NOT injective across indices;
(D) corollaries for the chain's `verifyProof` / `verifyProofUnfixed`.

Core Lean only.
-/
import Canine.Storage.Merkle
namespace Canine.Storage.Merkle

/-! ## generic list facts -/

theorem getD_eq (l : List Bytes) (i : Nat) : l.getD i [] = (l[i]?).getD [] :=
  List.getD_eq_getElem?_getD

section
variable (H : Bytes → Bytes)

theorem verify_iff (rt d : Bytes) (i : Nat) (hs : List Bytes) :
    verify H rt d i hs = true ↔ proofHash H d i hs = rt := by
  unfold verify; exact decide_eq_true_iff

/-! ## (A) completeness -/

theorem le_two_pow_depthFor (n : Nat) : n ≤ 2 ^ depthFor n := by
  unfold depthFor
  split
  · simp; omega
  · have := @Nat.lt_log2_self (n - 1)
    omega

theorem length_leafLevel (hashLen : Nat) (data : List Bytes) :
    (leafLevel H hashLen data).length = 2 ^ depthFor data.length := by
  have := le_two_pow_depthFor data.length
  simp only [leafLevel, List.length_append, List.length_map, List.length_replicate]
  omega

theorem length_pathD : ∀ (d : Nat) (l : List Bytes) (i : Nat), (pathD H d l i).length = d
  | 0, _, _ => rfl
  | d + 1, l, i => by simp [pathD, length_pathD d]

theorem length_genProof (hashLen : Nat) (data : List Bytes) (i : Nat) :
    (genProof H hashLen data i).length = depthFor data.length :=
  length_pathD H _ _ _

theorem pairUp_length : ∀ (l : List Bytes) (n : Nat), l.length = 2 * n → (pairUp H l).length = n
  | [], n, h => by simp [pairUp] at *; omega
  | [_], n, h => by simp at h; omega
  | a :: b :: rest, n, h => by
      simp only [pairUp, List.length_cons] at *
      have := pairUp_length rest (n - 1) (by omega)
      omega

theorem pairUp_getD : ∀ (l : List Bytes) (j : Nat), 2 * j + 1 < l.length →
    (pairUp H l).getD j [] = h2 H (l.getD (2 * j) []) (l.getD (2 * j + 1) [])
  | [], j, h => by simp at h
  | [_], j, h => by simp at h
  | a :: b :: rest, 0, _ => by simp [pairUp]
  | a :: b :: rest, j + 1, h => by
      have ih := pairUp_getD rest j (by simp at h; omega)
      have e1 : 2 * (j + 1) = (2 * j) + 1 + 1 := by omega
      have e2 : 2 * (j + 1) + 1 = (2 * j + 1) + 1 + 1 := by omega
      simp only [pairUp, List.getD_cons_succ, e1]
      exact ih

/-- the verifier's fold only looks at the low `hs.length` bits of the index -/
theorem foldIdx_add_mul : ∀ (hs : List Bytes) (cur : Bytes) (i k m : Nat), hs.length ≤ k →
    foldIdx H cur (i + 2 ^ k * m) hs = foldIdx H cur i hs
  | [], _, _, _, _, _ => rfl
  | s :: rest, cur, i, 0, m, h => by simp at h
  | s :: rest, cur, i, k + 1, m, h => by
      have e1 : (i + 2 ^ (k + 1) * m) % 2 = i % 2 := by
        rw [Nat.pow_succ, Nat.mul_comm (2 ^ k) 2, Nat.mul_assoc]; omega
      have e2 : (i + 2 ^ (k + 1) * m) / 2 = i / 2 + 2 ^ k * m := by
        rw [Nat.pow_succ, Nat.mul_comm (2 ^ k) 2, Nat.mul_assoc]; omega
      simp only [foldIdx, e1, e2]
      exact foldIdx_add_mul rest _ _ k m (by simpa using h)

theorem foldIdx_add_pow (hs : List Bytes) (cur : Bytes) (i : Nat) :
    foldIdx H cur (i + 2 ^ hs.length) hs = foldIdx H cur i hs := by
  have := foldIdx_add_mul H hs cur i hs.length 1 (Nat.le_refl _)
  simpa using this

/-- the verifier's fold only looks at `idx % 2 ^ hs.length` -/
theorem foldIdx_mod (hs : List Bytes) (cur : Bytes) (i : Nat) :
    foldIdx H cur (i % 2 ^ hs.length) hs = foldIdx H cur i hs := by
  have := foldIdx_add_mul H hs cur (i % 2 ^ hs.length) hs.length (i / 2 ^ hs.length) (Nat.le_refl _)
  rw [Nat.mod_add_div] at this
  exact this.symm

theorem complete_aux : ∀ (d : Nat) (l : List Bytes) (i : Nat),
    l.length = 2 ^ d → i < 2 ^ d →
    foldIdx H (l.getD i []) i (pathD H d l i) = rootD H d l
  | 0, l, i, hl, hi => by
      have : i = 0 := by simpa using hi
      subst this; simp [pathD, foldIdx, rootD]
  | d + 1, l, i, hl, hi => by
      have hlen : l.length = 2 * 2 ^ d := by rw [hl, Nat.pow_succ]; omega
      have hp := pairUp_length H l (2 ^ d) hlen
      have hi2 : i / 2 < 2 ^ d := by rw [Nat.pow_succ] at hi; omega
      have ih := complete_aux d (pairUp H l) (i / 2) hp hi2
      have hg := pairUp_getD H l (i / 2) (by rw [Nat.pow_succ] at hi; omega)
      simp only [pathD, foldIdx, rootD]
      rw [← ih, hg]
      by_cases hpar : i % 2 = 0
      · have a : 2 * (i / 2) = i := by omega
        simp [hpar, a]
      · have a : 2 * (i / 2) + 1 = i := by omega
        have b : 2 * (i / 2) = i - 1 := by omega
        have c : i - 1 + 1 = i := by omega
        simp [hpar, b, c]

theorem leafLevel_getD_lt (hashLen : Nat) (data : List Bytes) (i : Nat) (hi : i < data.length) :
    (leafLevel H hashLen data).getD i [] = H (data.getD i []) := by
  rw [getD_eq, getD_eq, leafLevel, List.getElem?_append_left (by simpa using hi)]
  simp [List.getElem?_eq_getElem hi]

theorem leafLevel_getD_ge (hashLen : Nat) (data : List Bytes) (i : Nat) (hi : data.length ≤ i)
    (hi2 : i < 2 ^ depthFor data.length) :
    (leafLevel H hashLen data).getD i [] = zeroNode hashLen := by
  rw [getD_eq, leafLevel, List.getElem?_append_right (by simpa using hi)]
  rw [List.getElem?_replicate_of_lt (by simp; omega)]
  rfl

/-- (A) the generated proof verifies, for every hash function and every leaf -/
theorem merkle_complete (H : Bytes → Bytes) (hashLen : Nat) (data : List Bytes) (i : Nat)
    (hi : i < data.length) :
    verify H (root H hashLen data) (data.getD i []) i (genProof H hashLen data i) = true := by
  have hle := le_two_pow_depthFor data.length
  have hc := complete_aux H (depthFor data.length) (leafLevel H hashLen data) i
    (length_leafLevel H hashLen data) (by omega)
  rw [leafLevel_getD_lt H hashLen data i hi] at hc
  rw [verify_iff, proofHash, foldIdx_add_pow]
  exact hc

/-! ## (B) soundness -/

theorem getD_append_left' (l1 l2 : List Bytes) (i : Nat) (h : i < l1.length) :
    (l1 ++ l2).getD i [] = l1.getD i [] := by
  rw [getD_eq, getD_eq, List.getElem?_append_left h]

theorem getD_append_right' (l1 l2 : List Bytes) (i : Nat) :
    (l1 ++ l2).getD (l1.length + i) [] = l2.getD i [] := by
  rw [getD_eq, getD_eq, List.getElem?_append_right (by omega)]
  congr 2; omega

theorem pairUp_append : ∀ (a b : List Bytes) (n : Nat), a.length = 2 * n →
    pairUp H (a ++ b) = pairUp H a ++ pairUp H b
  | [], b, n, h => by simp [pairUp]
  | [_], b, n, h => by simp at h; omega
  | x :: y :: rest, b, n, h => by
      simp only [List.cons_append, pairUp]
      rw [pairUp_append rest b (n - 1) (by simp at h; omega)]

/-- top-down view of the tree: the root of `2^(D+1)` nodes hashes the roots of the two halves -/
theorem rootD_append : ∀ (D : Nat) (l1 l2 : List Bytes), l1.length = 2 ^ D → l2.length = 2 ^ D →
    rootD H (D + 1) (l1 ++ l2) = h2 H (rootD H D l1) (rootD H D l2)
  | 0, l1, l2, e1, e2 => by
      obtain ⟨a, rfl⟩ := List.length_eq_one_iff.mp (by simpa using e1)
      obtain ⟨b, rfl⟩ := List.length_eq_one_iff.mp (by simpa using e2)
      simp [rootD, pairUp]
  | D + 1, l1, l2, e1, e2 => by
      have e : 2 ^ (D + 1) = 2 * 2 ^ D := by rw [Nat.pow_succ]; omega
      rw [rootD, pairUp_append H l1 l2 (2 ^ D) (by omega)]
      rw [rootD_append D _ _ (pairUp_length H l1 _ (by omega)) (pairUp_length H l2 _ (by omega))]
      rfl

theorem split_pow (D : Nat) (l : List Bytes) (h : l.length = 2 ^ (D + 1)) :
    ∃ l1 l2, l = l1 ++ l2 ∧ l1.length = 2 ^ D ∧ l2.length = 2 ^ D := by
  have e : 2 ^ (D + 1) = 2 * 2 ^ D := by rw [Nat.pow_succ]; omega
  refine ⟨l.take (2 ^ D), l.drop (2 ^ D), (List.take_append_drop _ _).symm, ?_, ?_⟩
  · simp; omega
  · simp; omega

theorem foldIdx_append : ∀ (a b : List Bytes) (cur : Bytes) (idx : Nat),
    foldIdx H cur idx (a ++ b) = foldIdx H (foldIdx H cur idx a) (idx / 2 ^ a.length) b
  | [], b, cur, idx => by simp [foldIdx]
  | s :: rest, b, cur, idx => by
      simp only [List.cons_append, foldIdx, List.length_cons]
      rw [foldIdx_append rest b, Nat.div_div_eq_div_mul, Nat.pow_succ, Nat.mul_comm]

theorem foldIdx_concat (init : List Bytes) (s cur : Bytes) (idx : Nat) :
    foldIdx H cur idx (init ++ [s]) =
      if idx / 2 ^ init.length % 2 = 0 then h2 H (foldIdx H cur idx init) s
      else h2 H s (foldIdx H cur idx init) := by
  rw [foldIdx_append]; rfl

section sound
variable (hashLen : Nat) (hlen : ∀ x, (H x).length = hashLen)
include hlen

theorem foldIdx_length : ∀ (hs : List Bytes) (cur : Bytes) (idx : Nat), cur.length = hashLen →
    (foldIdx H cur idx hs).length = hashLen
  | [], _, _, h => h
  | s :: rest, cur, idx, h => by
      simp only [foldIdx]
      apply foldIdx_length
      split <;> simp [h2, hlen]

theorem rootD_length : ∀ (D : Nat) (l : List Bytes), l.length = 2 ^ D →
    (∀ x ∈ l, x.length = hashLen) → (rootD H D l).length = hashLen
  | 0, l, e, hl => by
      obtain ⟨a, rfl⟩ := List.length_eq_one_iff.mp (by simpa using e)
      simpa [rootD] using hl
  | D + 1, l, e, hl => by
      obtain ⟨l1, l2, rfl, e1, e2⟩ := split_pow D l e
      rw [rootD_append H D l1 l2 e1 e2]
      simp [h2, hlen]

/-- Walk the verifier's chain from the top of the tree downwards, comparing with the real tree.
Either the chain has exactly the depth of the tree and starts at the leaf selected by the low bits
of the index; or it is too short (then it starts at an internal node, the hash of `2*hashLen`
bytes); or it is too long (then some leaf-level node is the hash of at least `hashLen` bytes);
or we meet a collision on the way. -/
theorem sound_td : ∀ (D : Nat) (l : List Bytes) (hs : List Bytes) (cur : Bytes) (idx : Nat),
    l.length = 2 ^ D → (∀ x ∈ l, x.length = hashLen) → cur.length = hashLen →
    foldIdx H cur idx hs = rootD H D l →
    (hs.length = D ∧ cur = l.getD (idx % 2 ^ D) [])
    ∨ (hs.length < D ∧ ∃ y, y.length = 2 * hashLen ∧ cur = H y)
    ∨ (D < hs.length ∧ ∃ z ∈ l, ∃ y, hashLen ≤ y.length ∧ H y = z)
    ∨ (∃ x y, x ≠ y ∧ H x = H y)
  | 0, l, hs, cur, idx, e, hl, hc, h => by
      obtain ⟨a, rfl⟩ := List.length_eq_one_iff.mp (by simpa using e)
      rcases List.eq_nil_or_concat hs with rfl | ⟨init, s, rfl⟩
      · left
        refine ⟨rfl, ?_⟩
        simpa [foldIdx, rootD, Nat.mod_one] using h
      · right; right; left
        rw [List.concat_eq_append] at h ⊢
        have hv := foldIdx_length H hashLen hlen init cur idx hc
        rw [foldIdx_concat] at h
        refine ⟨by simp, a, by simp, ?_⟩
        simp only [rootD, List.getD_cons_zero] at h
        split at h
        · exact ⟨_, by simp [hv], h⟩
        · exact ⟨_, by simp [hv], h⟩
  | D + 1, l, hs, cur, idx, e, hl, hc, h => by
      obtain ⟨l1, l2, rfl, e1, e2⟩ := split_pow D l e
      have hl1 : ∀ x ∈ l1, x.length = hashLen := fun x hx => hl x (List.mem_append_left _ hx)
      have hl2 : ∀ x ∈ l2, x.length = hashLen := fun x hx => hl x (List.mem_append_right _ hx)
      have hr1 := rootD_length H hashLen hlen D l1 e1 hl1
      have hr2 := rootD_length H hashLen hlen D l2 e2 hl2
      rw [rootD_append H D l1 l2 e1 e2] at h
      rcases List.eq_nil_or_concat hs with rfl | ⟨init, s, rfl⟩
      · right; left
        refine ⟨by simp, _, ?_, h⟩
        simp [hr1, hr2]; omega
      · rw [List.concat_eq_append] at h ⊢
        have hv := foldIdx_length H hashLen hlen init cur idx hc
        rw [foldIdx_concat] at h
        have hmod := @Nat.mod_pow_succ idx 2 D
        have hlt : idx % 2 ^ D < 2 ^ D := Nat.mod_lt _ (Nat.pow_pos (by omega))
        split at h
        · rename_i hb
          by_cases heq : foldIdx H cur idx init ++ s = rootD H D l1 ++ rootD H D l2
          · have hv1 := (List.append_inj heq (hv.trans hr1.symm)).1
            rcases sound_td D l1 init cur idx e1 hl1 hc hv1 with ⟨h1, h2⟩ | ⟨h1, h2⟩ | ⟨h1, z, hz, h2⟩ | h1
            · left
              refine ⟨by simp [h1], ?_⟩
              rw [h1] at hb
              rw [hmod, hb, Nat.mul_zero, Nat.add_zero, getD_append_left' _ _ _ (by omega)]
              exact h2
            · right; left; exact ⟨by simp; omega, h2⟩
            · right; right; left
              exact ⟨by simp; omega, z, List.mem_append_left _ hz, h2⟩
            · right; right; right; exact h1
          · right; right; right; exact ⟨_, _, heq, h⟩
        · rename_i hb
          by_cases heq : s ++ foldIdx H cur idx init = rootD H D l1 ++ rootD H D l2
          · have hv1 := (List.append_inj' heq (hv.trans hr2.symm)).2
            rcases sound_td D l2 init cur idx e2 hl2 hc hv1 with ⟨h1, h2⟩ | ⟨h1, h2⟩ | ⟨h1, z, hz, h2⟩ | h1
            · left
              refine ⟨by simp [h1], ?_⟩
              rw [h1] at hb
              have hb1 : idx / 2 ^ D % 2 = 1 := by omega
              rw [hmod, hb1, Nat.mul_one, Nat.add_comm, ← e1, getD_append_right', e1]
              exact h2
            · right; left; exact ⟨by simp; omega, h2⟩
            · right; right; left
              exact ⟨by simp; omega, z, List.mem_append_right _ hz, h2⟩
            · right; right; right; exact h1
          · right; right; right; exact ⟨_, _, heq, h⟩

end sound

end

theorem leafLevel_lengths (H : Bytes → Bytes) (hashLen : Nat) (hlen : ∀ x, (H x).length = hashLen) (data : List Bytes) :
    ∀ x ∈ leafLevel H hashLen data, x.length = hashLen := by
  intro x hx
  rcases List.mem_append.mp hx with h | h
  · obtain ⟨y, _, rfl⟩ := List.mem_map.mp h
    exact hlen y
  · rw [(List.mem_replicate.mp h).2]
    simp [zeroNode]

/-- (B), general form, WITHOUT any assumption on the index: the verifier only looks at the low
`hs.length` bits of the index (`foldIdx_mod`), so what an accepted proof authenticates is leaf
`i % 2 ^ hs.length`.  (`data ≠ []` is not needed: the root of the empty tree is the zero node.) -/
theorem merkle_sound_gen (H : Bytes → Bytes) (hashLen : Nat) (hlen : ∀ x, (H x).length = hashLen)
    (data : List Bytes) (hdata : ∀ x ∈ data, x.length < hashLen)
    (d : Bytes) (hd : d.length < hashLen) (i : Nat) (hs : List Bytes)
    (hv : proofHash H d i hs = root H hashLen data) :
    (i % 2 ^ hs.length < data.length ∧ hs.length = depthFor data.length
        ∧ H d = H (data.getD (i % 2 ^ hs.length) []))
    ∨ (∃ x y, x ≠ y ∧ H x = H y)
    ∨ (∃ x, H x = zeroNode hashLen) := by
  unfold proofHash root at hv
  rcases sound_td H hashLen hlen (depthFor data.length) (leafLevel H hashLen data) hs (H d)
      (i + 2 ^ hs.length) (length_leafLevel H hashLen data) (leafLevel_lengths H hashLen hlen data)
      (hlen d) hv with ⟨h1, h2⟩ | ⟨_, y, hy, h2⟩ | ⟨_, z, hz, y, hy, h2⟩ | h1
  · rw [← h1, Nat.add_mod_right] at h2
    have hlt : i % 2 ^ hs.length < 2 ^ hs.length := Nat.mod_lt _ (Nat.pow_pos (by omega))
    by_cases hj : i % 2 ^ hs.length < data.length
    · left
      rw [leafLevel_getD_lt H hashLen data _ hj] at h2
      exact ⟨hj, h1, h2⟩
    · right; right
      rw [leafLevel_getD_ge H hashLen data _ (by omega) (by rw [← h1]; exact hlt)] at h2
      exact ⟨d, h2⟩
  · right; left
    refine ⟨d, y, ?_, h2⟩
    intro e; subst e; omega
  · rcases List.mem_append.mp hz with h | h
    · obtain ⟨x, hx, rfl⟩ := List.mem_map.mp h
      right; left
      refine ⟨y, x, ?_, h2⟩
      intro e; subst e
      have := hdata _ hx
      omega
    · right; right
      exact ⟨y, by rw [h2, (List.mem_replicate.mp h).2]⟩
  · right; left; exact h1

/-- (B) soundness, collision-extraction form.

The hypothesis `hi : i < 2 ^ hs.length` had to be ADDED: without it the statement is false for
every `H` (see `merkle_sound_needs_index_bound` below: in a two-leaf tree the honest proof of leaf 0
also verifies with index 2, because `2 + 2^1 = 4` has the same low bit as `0 + 2^1`).
`data ≠ []` is not needed. -/
theorem merkle_sound (H : Bytes → Bytes) (hashLen : Nat) (hlen : ∀ x, (H x).length = hashLen)
    (data : List Bytes) (hdata : ∀ x ∈ data, x.length < hashLen)
    (d : Bytes) (hd : d.length < hashLen) (i : Nat) (hs : List Bytes) (hi : i < 2 ^ hs.length)
    (hv : proofHash H d i hs = root H hashLen data) :
    (i < data.length ∧ hs.length = depthFor data.length ∧ H d = H (data.getD i []))
    ∨ (∃ x y, x ≠ y ∧ H x = H y)
    ∨ (∃ x, H x = zeroNode hashLen) := by
  have h := merkle_sound_gen H hashLen hlen data hdata d hd i hs hv
  rwa [Nat.mod_eq_of_lt hi] at h

/-- (B) with the alternative added hypothesis `i < data.length` (what the chain can establish:
the challenged chunk index is smaller than the number of chunks). -/
theorem merkle_sound_of_lt (H : Bytes → Bytes) (hashLen : Nat) (hlen : ∀ x, (H x).length = hashLen)
    (data : List Bytes) (hdata : ∀ x ∈ data, x.length < hashLen)
    (d : Bytes) (hd : d.length < hashLen) (i : Nat) (hs : List Bytes) (hi : i < data.length)
    (hv : proofHash H d i hs = root H hashLen data) :
    (hs.length = depthFor data.length ∧ H d = H (data.getD i []))
    ∨ (∃ x y, x ≠ y ∧ H x = H y)
    ∨ (∃ x, H x = zeroNode hashLen) := by
  rcases merkle_sound_gen H hashLen hlen data hdata d hd i hs hv with ⟨_, h2, h3⟩ | h | h
  · left
    have := le_two_pow_depthFor data.length
    rw [Nat.mod_eq_of_lt (by rw [h2]; omega)] at h3
    exact ⟨h2, h3⟩
  · right; left; exact h
  · right; right; exact h

/-- corollary of (B): the authenticated data itself is the real leaf -/
theorem merkle_sound' (H : Bytes → Bytes) (hashLen : Nat) (hlen : ∀ x, (H x).length = hashLen)
    (data : List Bytes) (hdata : ∀ x ∈ data, x.length < hashLen)
    (d : Bytes) (hd : d.length < hashLen) (i : Nat) (hs : List Bytes) (hi : i < 2 ^ hs.length)
    (hv : proofHash H d i hs = root H hashLen data) :
    (i < data.length ∧ d = data.getD i [])
    ∨ (∃ x y, x ≠ y ∧ H x = H y)
    ∨ (∃ x, H x = zeroNode hashLen) := by
  rcases merkle_sound H hashLen hlen data hdata d hd i hs hi hv with ⟨h1, _, h3⟩ | h | h
  · by_cases e : d = data.getD i []
    · left; exact ⟨h1, e⟩
    · right; left; exact ⟨_, _, e, h3⟩
  · right; left; exact h
  · right; right; exact h

theorem merkle_sound_of_lt' (H : Bytes → Bytes) (hashLen : Nat) (hlen : ∀ x, (H x).length = hashLen)
    (data : List Bytes) (hdata : ∀ x ∈ data, x.length < hashLen)
    (d : Bytes) (hd : d.length < hashLen) (i : Nat) (hs : List Bytes) (hi : i < data.length)
    (hv : proofHash H d i hs = root H hashLen data) :
    d = data.getD i []
    ∨ (∃ x y, x ≠ y ∧ H x = H y)
    ∨ (∃ x, H x = zeroNode hashLen) := by
  rcases merkle_sound_of_lt H hashLen hlen data hdata d hd i hs hi hv with ⟨_, h3⟩ | h | h
  · by_cases e : d = data.getD i []
    · left; exact e
    · right; left; exact ⟨_, _, e, h3⟩
  · right; left; exact h
  · right; right; exact h

/-- Why `merkle_sound` needs a bound on the index: for EVERY hash function, the honest proof of
leaf 0 of a two-leaf tree is also accepted for index 2 (and 2 is not a leaf index). -/
theorem merkle_sound_needs_index_bound (H : Bytes → Bytes) (hashLen : Nat) (a b : Bytes) :
    proofHash H a 2 (genProof H hashLen [a, b] 0) = root H hashLen [a, b]
    ∧ ¬ 2 < [a, b].length := by
  refine ⟨?_, by simp⟩
  have h := merkle_complete H hashLen [a, b] 0 (by simp)
  rw [verify_iff] at h
  rw [← h]
  unfold proofHash
  rw [foldIdx_add_pow, foldIdx_add_pow, ← foldIdx_mod H _ _ 2, length_genProof]
  have e : depthFor [a, b].length = 1 := (by decide : depthFor 2 = 1)
  rw [e]
  rfl

/-! ## (C) the chain-side leaf encoding -/

theorem hexDigit_toNat (n : UInt8) (h : n.toNat < 16) :
    (hexDigit n).toNat = if n.toNat < 10 then 48 + n.toNat else 87 + n.toNat := by
  unfold hexDigit
  by_cases h10 : n < 10
  · have : n.toNat < 10 := by simpa [UInt8.lt_iff_toNat_lt] using h10
    simp only [h10, this, if_true, UInt8.toNat_add]
    simp; omega
  · have : ¬ n.toNat < 10 := by simpa [UInt8.lt_iff_toNat_lt] using h10
    simp only [h10, this, if_false, UInt8.toNat_add]
    simp; omega

/-- the two hex digits of a byte determine the byte -/
theorem hexByte_inj (a b : UInt8) (h1 : hexDigit (a >>> 4) = hexDigit (b >>> 4))
    (h2 : hexDigit (a &&& 15) = hexDigit (b &&& 15)) : a = b := by
  have ha := a.toNat_lt
  have hb := b.toNat_lt
  have e1 : (a >>> 4).toNat = a.toNat / 16 := by
    simp [UInt8.toNat_shiftRight, Nat.shiftRight_eq_div_pow]
  have e2 : (b >>> 4).toNat = b.toNat / 16 := by
    simp [UInt8.toNat_shiftRight, Nat.shiftRight_eq_div_pow]
  have e3 : (a &&& 15).toNat = a.toNat % 16 := by
    rw [UInt8.toNat_and]; exact Nat.and_two_pow_sub_one_eq_mod _ 4
  have e4 : (b &&& 15).toNat = b.toNat % 16 := by
    rw [UInt8.toNat_and]; exact Nat.and_two_pow_sub_one_eq_mod _ 4
  have k1 := congrArg UInt8.toNat h1
  have k2 := congrArg UInt8.toNat h2
  rw [hexDigit_toNat _ (by omega), hexDigit_toNat _ (by omega)] at k1 k2
  rw [e1, e2] at k1
  rw [e3, e4] at k2
  apply UInt8.toNat_inj.mp
  split at k1 <;> split at k1 <;> split at k2 <;> split at k2 <;> omega

theorem hexBytes_injective : ∀ a b : Bytes, hexBytes a = hexBytes b → a = b
  | [], [], _ => rfl
  | [], _ :: _, h => by simp [hexBytes] at h
  | _ :: _, [], h => by simp [hexBytes] at h
  | x :: a, y :: b, h => by
      simp only [hexBytes, List.cons.injEq] at h
      rw [hexByte_inj x y h.1 h.2.1, hexBytes_injective a b h.2.2]

theorem leafPre_inj_same_index (i : Nat) (a b : Bytes) (h : leafPre i a = leafPre i b) : a = b :=
  hexBytes_injective a b (List.append_cancel_left h)

/-! `decBytes` goes through `String` and `ByteArray`; bring it back to lists so that concrete
values can be computed by the kernel. -/

theorem byteArray_toList_loop (bs : ByteArray) : ∀ (n i : Nat) (r : List UInt8), bs.size - i = n →
    ByteArray.toList.loop bs i r = r.reverse ++ bs.data.toList.drop i
  | 0, i, r, h => by
      rw [ByteArray.toList.loop]
      have : ¬ i < bs.size := by omega
      simp only [this, if_false]
      have hs : bs.data.toList.length = bs.size := by rw [Array.length_toList, ByteArray.size_data]
      rw [List.drop_of_length_le (by omega)]
      simp
  | n + 1, i, r, h => by
      rw [ByteArray.toList.loop]
      have hi : i < bs.size := by omega
      simp only [hi, if_true]
      rw [byteArray_toList_loop bs n (i + 1) _ (by omega)]
      have hs : bs.data.toList.length = bs.size := by rw [Array.length_toList, ByteArray.size_data]
      have hi' : i < bs.data.toList.length := by omega
      rw [List.drop_eq_getElem_cons hi']
      have hi2 : i < bs.data.size := by simpa using hi'
      simp [ByteArray.get!, getElem!_pos bs.data i hi2]

theorem byteArray_toList (bs : ByteArray) : bs.toList = bs.data.toList := by
  unfold ByteArray.toList
  rw [byteArray_toList_loop bs _ 0 [] rfl]; simp

theorem decBytes_eq (n : Nat) :
    decBytes n = (Nat.toDigits 10 n).flatMap String.utf8EncodeChar := by
  unfold decBytes
  rw [byteArray_toList]
  simp [Nat.repr_eq_ofList_toDigits, List.utf8Encode, List.data_toByteArray]

theorem decBytes_1 : decBytes 1 = [49] := by rw [decBytes_eq]; decide
theorem decBytes_123 : decBytes 123 = [49, 50, 51] := by rw [decBytes_eq]; decide
theorem decBytes_101 : decBytes 101 = [49, 48, 49] := by rw [decBytes_eq]; decide

/-- why the pre-fix verifier was unsound: `"1" ++ "23" ++ hex c = "123" ++ hex c` -/
theorem leafPre_not_injective_across_indices (c : Bytes) :
    leafPre 1 (0x23 :: c) = leafPre 123 c := by
  have e1 : hexDigit ((0x23 : UInt8) >>> 4) = 50 := by decide
  have e2 : hexDigit ((0x23 : UInt8) &&& 15) = 51 := by decide
  simp only [leafPre, hexBytes, decBytes_1, decBytes_123, e1, e2]
  rfl

/-- `"1" ++ "01" ++ hex c = "101" ++ hex c` -/
theorem leafPre_1_101 (c : Bytes) : leafPre 1 (0x01 :: c) = leafPre 101 c := by
  have e1 : hexDigit ((0x01 : UInt8) >>> 4) = 48 := by decide
  have e2 : hexDigit ((0x01 : UInt8) &&& 15) = 49 := by decide
  simp only [leafPre, hexBytes, decBytes_1, decBytes_101, e1, e2]
  rfl

/-! ## (D) the chain's `verifyProof` -/

theorem mapIdx_getD (f : Nat → Bytes → Bytes) (l : List Bytes) (i : Nat) (hi : i < l.length) :
    (l.mapIdx f).getD i [] = f i (l.getD i []) := by
  rw [getD_eq, getD_eq, List.getElem?_mapIdx, List.getElem?_eq_getElem hi]
  rfl

/-- an honest provider's proof for the challenged chunk is accepted -/
theorem honest_proof_accepted (H S : Bytes → Bytes) (hashLen : Nat) (chunks : List Bytes) (i : Nat)
    (hi : i < chunks.length) :
    verifyProof H S (fileRoot H S hashLen chunks) i (chunks.getD i []) i
      (genProof H hashLen (chunks.mapIdx (fun j c => leafData S j c)) i) = true := by
  have h := merkle_complete H hashLen (chunks.mapIdx (fun j c => leafData S j c)) i
    (by simpa using hi)
  rw [mapIdx_getD _ _ _ hi] at h
  simp only [verifyProof, fileRoot, decide_true, Bool.true_and]
  exact h

/-- An accepted proof is a proof for the challenged chunk (or breaks one of the hashes).

The hypothesis `hc : c < chunks.length` had to be ADDED (it replaces `chunks ≠ []`): without it the
statement is false for every `H`, `S` — see `verifyProof_needs_challenge_bound` below.  The chain
must therefore make sure that the challenged index is smaller than the number of chunks. -/
theorem accepted_proof_is_for_challenged_chunk (H S : Bytes → Bytes) (hashLen sLen : Nat)
    (hlen : ∀ x, (H x).length = hashLen) (hslen : ∀ x, (S x).length = sLen) (hlt : sLen < hashLen)
    (chunks : List Bytes) (c : Nat) (hc : c < chunks.length) (item : Bytes) (idx : Nat)
    (hs : List Bytes)
    (hv : verifyProof H S (fileRoot H S hashLen chunks) c item idx hs = true) :
    (c < chunks.length ∧ item = chunks.getD c [])
    ∨ (∃ x y, x ≠ y ∧ H x = H y) ∨ (∃ x y, x ≠ y ∧ S x = S y)
    ∨ (∃ x, H x = zeroNode hashLen) := by
  simp only [verifyProof, Bool.and_eq_true, decide_eq_true_eq] at hv
  obtain ⟨rfl, hv⟩ := hv
  rw [verify_iff] at hv
  have hdata : ∀ x ∈ chunks.mapIdx (fun j c => leafData S j c), x.length < hashLen := by
    intro x hx
    obtain ⟨j, _, rfl⟩ := List.mem_mapIdx.mp hx
    simp only [leafData, hslen]; exact hlt
  rcases merkle_sound_of_lt' H hashLen hlen _ hdata (leafData S idx item)
      (by simp only [leafData, hslen]; exact hlt) idx hs (by simpa using hc) hv with h | h | h
  · rw [mapIdx_getD _ _ _ hc] at h
    by_cases e : leafPre idx item = leafPre idx (chunks.getD idx [])
    · left; exact ⟨hc, leafPre_inj_same_index idx _ _ e⟩
    · right; right; left; exact ⟨_, _, e, h⟩
  · right; left; exact h
  · right; right; right; exact h

theorem depthFor_3 : depthFor 3 = 2 := by simp [depthFor, Nat.log2_eq_iff]
theorem depthFor_4 : depthFor 4 = 2 := by simp [depthFor, Nat.log2_eq_iff]

/-- Why `accepted_proof_is_for_challenged_chunk` needs `c < chunks.length`: for EVERY `H`, `S`, in a
file of 3 or 4 chunks whose chunk 1 is `0x01 :: item`, the (fixed) verifier accepts `item` for the
out-of-range challenge 101 with the honest path of chunk 1 — the path has length 2, the verifier
only looks at `101 % 4 = 1`, and `"101" ++ hex item = "1" ++ hex (0x01 :: item)`. -/
theorem verifyProof_needs_challenge_bound (H S : Bytes → Bytes) (hashLen : Nat)
    (chunks : List Bytes) (item : Bytes) (h3 : 2 < chunks.length) (h4 : chunks.length ≤ 4)
    (h1 : chunks.getD 1 [] = 0x01 :: item) :
    verifyProof H S (fileRoot H S hashLen chunks) 101 item 101
      (genProof H hashLen (chunks.mapIdx (fun j c => leafData S j c)) 1) = true
    ∧ ¬ 101 < chunks.length := by
  refine ⟨?_, by omega⟩
  have h := merkle_complete H hashLen (chunks.mapIdx (fun j c => leafData S j c)) 1
    (by simp; omega)
  rw [mapIdx_getD _ _ _ (by omega), h1] at h
  simp only [verifyProof, fileRoot, decide_true, Bool.true_and]
  rw [verify_iff] at h ⊢
  rw [← h]
  have hd : depthFor (chunks.mapIdx (fun j c => leafData S j c)).length = 2 := by
    rw [List.length_mapIdx]
    have : chunks.length = 3 ∨ chunks.length = 4 := by omega
    rcases this with e | e <;> rw [e]
    · exact depthFor_3
    · exact depthFor_4
  unfold proofHash
  rw [foldIdx_add_pow, foldIdx_add_pow, ← foldIdx_mod H _ _ 101, length_genProof, hd]
  simp only [leafData, leafPre_1_101]

/-- Regression witness for the unfixed verifier, for EVERY `H`, `S` and every file with more than
123 chunks: challenged for chunk 1, the provider answers with the item `0x23 :: chunk₁₂₃` and the
honest path of leaf 123, and is accepted. -/
theorem verifyProofUnfixed_accepts_wrong_chunk (H S : Bytes → Bytes) (hashLen : Nat)
    (chunks : List Bytes) (h : 123 < chunks.length) :
    verifyProofUnfixed H S (fileRoot H S hashLen chunks) 1 (0x23 :: chunks.getD 123 []) 123
      (genProof H hashLen (chunks.mapIdx (fun j c => leafData S j c)) 123) = true := by
  have hc := merkle_complete H hashLen (chunks.mapIdx (fun j c => leafData S j c)) 123
    (by simpa using h)
  rw [mapIdx_getD _ _ _ h] at hc
  simp only [verifyProofUnfixed, fileRoot, leafData, leafPre_not_injective_across_indices]
  exact hc

/-- the fixed verifier rejects that answer (the proof's index is not the challenge) -/
theorem verifyProof_rejects_wrong_index (H S : Bytes → Bytes) (merkle item : Bytes)
    (c idx : Nat) (hs : List Bytes) (hne : idx ≠ c) :
    verifyProof H S merkle c item idx hs = false := by
  simp [verifyProof, hne]

end Canine.Storage.Merkle
