/-
Gauge invariant for C05, part 2: the ledger.

`Moves P b b'`: ledger `b'` is reached from `b` by successful single-coin transfers whose senders all
satisfy `P`.  Every storage message and the reward block change the ledger only in this way, so
(1) an account that no `P`-sender is can only have been credited, and (2) the ledger stays
well-formed, non-negative, and keeps its total supply of every denomination (`BankOk`) — which
bounds every balance by the supply and so keeps `Int64()` in range.
-/
import Canine.Proofs.GaugeInvArith
namespace Canine.Storage.GI
open Bank

inductive Moves (P : String → Prop) : Bank → Bank → Prop
  | refl (b : Bank) : Moves P b b
  | step {b b1 b2 : Bank} {src dst d : String} {x : Int} :
      P src → sendCoin b src dst d x = some b1 → Moves P b1 b2 → Moves P b b2

theorem Moves.trans {P : String → Prop} {a b c : Bank} (h1 : Moves P a b) (h2 : Moves P b c) : Moves P a c := by
  induction h1 with
  | refl => exact h2
  | step hp hs _ ih => exact .step hp hs (ih h2)

theorem Moves.mono {P Q : String → Prop} (hpq : ∀ a, P a → Q a) {a b : Bank} (h : Moves P a b) : Moves Q a b := by
  induction h with
  | refl => exact .refl _
  | step hp hs _ ih => exact .step (hpq _ hp) hs ih

theorem Moves.of_eq {P : String → Prop} {a b : Bank} (h : b = a) : Moves P a b := by subst h; exact .refl _

theorem Moves.of_send {P : String → Prop} {src dst : String} (hp : P src) :
    ∀ {cs : Coins} {b b' : Bank}, send b src dst cs = some b' → Moves P b b'
  | [], b, b', h => by simp only [send, Option.some.injEq] at h; subst h; exact .refl _
  | (d, x) :: cs, b, b', h => by
    simp only [send, Option.bind_eq_some_iff] at h
    obtain ⟨b1, hb1, hb2⟩ := h
    exact .step hp hb1 (Moves.of_send hp hb2)

theorem Moves.of_sendFromModule {P : String → Prop} {s : State} {src dst : String} {cs : Coins} {b' : Bank}
    (hp : P src) (h : sendFromModule s src dst cs = some b') : Moves P s.bank b' := by
  unfold sendFromModule at h
  split at h
  · simp at h
  · exact Moves.of_send hp h

/-- an account none of the senders is has only been credited -/
theorem Moves.bal_ge {P : String → Prop} {b b' : Bank} (h : Moves P b b') (a : String) (ha : ¬ P a) (d : String) :
    bal b a d ≤ bal b' a d := by
  induction h with
  | refl => exact Int.le_refl _
  | @step b0 b1 b2 src dst d' x hp hs _ ih =>
    have h1 := bal_sendCoin hs a d
    have h2 := (sendCoin_pos hs).1
    have hne : ¬ ((src, d') = (a, d)) := by
      intro e; cases e; exact ha hp
    simp only [hne, if_false] at h1
    split at h1 <;> omega

/-- an account that neither sends nor receives is unchanged -/
theorem bal_send_other {src dst x : String} {cs : Coins} {b b' : Bank} (h : send b src dst cs = some b')
    (h1 : src ≠ x) (h2 : dst ≠ x) (d : String) : bal b' x d = bal b x d := by
  have := bal_send h x d
  simp only [h1, h2, if_false] at this
  rw [this]; omega

/-! ## supply -/

/-- the total of denomination `d` over the whole ledger -/
def supply : Bank → String → Int
  | [], _ => 0
  | ((_, d'), v) :: t, d => (if d' = d then v else 0) + supply t d

theorem bal_cons (k : String × String) (v : Int) (t : Bank) (a d : String) :
    bal ((k, v) :: t) a d = if k = (a, d) then v else bal t a d := by
  unfold bal
  simp only [AMap.get]
  split <;> simp

theorem supply_set (b : Bank) (a d' : String) (v : Int) (d : String) :
    supply (AMap.set b (a, d') v) d = supply b d + (if d' = d then v - bal b a d' else 0) := by
  induction b with
  | nil => simp [AMap.set, supply, bal]
  | cons p t ih =>
    obtain ⟨⟨a0, d0⟩, v0⟩ := p
    by_cases hk : (a0, d0) = (a, d')
    · cases hk
      simp only [AMap.set, if_true, supply, bal_cons]
      split <;> omega
    · simp only [AMap.set, hk, if_false, supply, bal_cons, ih]
      split <;> omega

structure BankOk (b : Bank) : Prop where
  nonneg : ∀ kv ∈ b, 0 ≤ kv.2
  supply : ∀ d, supply b d ≤ I64.maxV

theorem BankOk.bal_nonneg {b : Bank} (h : BankOk b) (a d : String) : 0 ≤ bal b a d := by
  unfold bal
  cases hg : AMap.get b (a, d) with
  | none => simp
  | some v => simpa using h.nonneg _ (AMap.mem_of_get hg)

theorem supply_nonneg {b : Bank} (h : ∀ kv ∈ b, 0 ≤ kv.2) (d : String) : 0 ≤ supply b d := by
  induction b with
  | nil => simp [supply]
  | cons p t ih =>
    obtain ⟨⟨a0, d0⟩, v0⟩ := p
    have h0 : 0 ≤ v0 := h ((a0, d0), v0) (by simp)
    have := ih (fun kv hkv => h kv (List.mem_cons_of_mem _ hkv))
    simp only [supply]; split <;> omega

theorem bal_le_supply {b : Bank} (h : ∀ kv ∈ b, 0 ≤ kv.2) (a d : String) : bal b a d ≤ supply b d := by
  induction b with
  | nil => simp [supply, bal]
  | cons p t ih =>
    obtain ⟨⟨a0, d0⟩, v0⟩ := p
    have h0 : 0 ≤ v0 := h ((a0, d0), v0) (by simp)
    have ht := fun kv hkv => h kv (List.mem_cons_of_mem _ hkv)
    have := ih ht
    have hs := supply_nonneg ht d
    rw [bal_cons]
    simp only [supply]
    by_cases hk : (a0, d0) = (a, d)
    · cases hk; simp only [if_true]; omega
    · simp only [hk, if_false]; split <;> omega

/-- every balance is within int64 -/
theorem BankOk.bal_le {b : Bank} (h : BankOk b) (a d : String) : bal b a d ≤ I64.maxV :=
  Int.le_trans (bal_le_supply h.nonneg a d) (h.supply d)

theorem nonneg_credit {b : Bank} (h : ∀ kv ∈ b, 0 ≤ kv.2) (a d : String) (x : Int) (hx : 0 ≤ bal b a d + x) :
    ∀ kv ∈ Bank.credit b a d x, 0 ≤ kv.2 := by
  intro kv hkv
  unfold Bank.credit at hkv
  rcases AMap.mem_of_mem_set hkv with e | hm
  · subst e; exact hx
  · exact h kv hm

theorem supply_credit (b : Bank) (a d' : String) (x : Int) (d : String) :
    supply (Bank.credit b a d' x) d = supply b d + (if d' = d then x else 0) := by
  unfold Bank.credit
  rw [supply_set]; split <;> omega

theorem BankOk.sendCoin {b b' : Bank} {src dst d : String} {x : Int} (h : BankOk b)
    (hs : sendCoin b src dst d x = some b') : BankOk b' := by
  have hp := sendCoin_pos hs
  unfold Bank.sendCoin at hs
  split at hs; · simp at hs
  split at hs; · simp at hs
  simp only [Option.some.injEq] at hs; subst hs
  have n1 := nonneg_credit h.nonneg src d (-x) (by omega)
  have b1 : 0 ≤ bal (Bank.credit b src d (-x)) dst d := by
    unfold bal
    cases hg : AMap.get (Bank.credit b src d (-x)) (dst, d) with
    | none => simp
    | some v => simpa using n1 _ (AMap.mem_of_get hg)
  refine ⟨nonneg_credit n1 dst d x (by omega), fun d2 => ?_⟩
  rw [supply_credit, supply_credit]
  have := h.supply d2
  split <;> omega

theorem BankOk.moves {P : String → Prop} {b b' : Bank} (hm : Moves P b b') (h : BankOk b) : BankOk b' := by
  induction hm with
  | refl => exact h
  | step _ hs _ ih => exact ih (h.sendCoin hs)

end Canine.Storage.GI
