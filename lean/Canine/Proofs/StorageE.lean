/-
Helper lemmas for C14 (attestation / report forms) and C17 (file indexes and prover lists).
Core Lean only.
-/
import Canine.Storage.Model
namespace Canine

/-! ### more facts about association-list maps -/
namespace AMap
variable {K V : Type} [DecidableEq K]

theorem set_set (m : AMap K V) (k : K) (v v' : V) : set (set m k v) k v' = set m k v' := by
  induction m with
  | nil => simp [set]
  | cons p t ih =>
    obtain ⟨k', w⟩ := p
    by_cases h : k' = k <;> simp [set, h, ih]

theorem get_foldl_erase (l : List K) : ∀ (m : AMap K V) (k : K),
    get (l.foldl (fun m pk => erase m pk) m) k = if k ∈ l then none else get m k := by
  induction l with
  | nil => intro m k; simp
  | cons a t ih =>
    intro m k
    simp only [List.foldl_cons, ih, get_erase, List.mem_cons]
    by_cases h1 : k ∈ t <;> by_cases h2 : a = k <;> simp [h1, h2]
    · intro e; exact absurd e.symm h2

theorem wf_foldl_erase (l : List K) : ∀ (m : AMap K V), WF m →
    WF (l.foldl (fun m pk => erase m pk) m) := by
  induction l with
  | nil => intro m h; exact h
  | cons a t ih => intro m h; exact ih _ (wf_erase a h)

omit [DecidableEq K] in
theorem wf_nil : WF ([] : AMap K V) := by simp [WF, keys]

theorem get_some_of_mem_keys {m : AMap K V} {k : K} (h : k ∈ keys m) : ∃ v, get m k = some v := by
  have := get_isSome_of_mem h
  cases hg : get m k with
  | none => simp [hg] at this
  | some v => exact ⟨v, rfl⟩

end AMap

/-- an invariant carried through an `Except`-valued `foldlM` -/
theorem foldlM_except_inv {α β ε : Type} (P : β → Prop) (f : β → α → Except ε β)
    (hf : ∀ b a b', f b a = .ok b' → P b → P b') :
    ∀ (l : List α) (b b' : β), l.foldlM f b = .ok b' → P b → P b' := by
  intro l
  induction l with
  | nil =>
    intro b b' h hp
    simp only [List.foldlM_nil, pure, Except.pure, Except.ok.injEq] at h
    subst h; exact hp
  | cons a t ih =>
    intro b b' h hp
    simp only [List.foldlM_cons, bind, Except.bind] at h
    cases hfa : f b a with
    | error e => simp [hfa] at h
    | ok b1 =>
      simp only [hfa] at h
      exact ih b1 b' h (hf b a b1 hfa hp)

/-- an invariant carried through a pure `foldl` -/
theorem foldl_inv {α β : Type} (P : β → Prop) (f : β → α → β)
    (hf : ∀ b a, P b → P (f b a)) : ∀ (l : List α) (b : β), P b → P (l.foldl f b) := by
  intro l
  induction l with
  | nil => intro b hp; exact hp
  | cons a t ih => intro b hp; exact ih _ (hf b a hp)


/-! ### C17: the index invariant -/
namespace Storage

/-- what the invariant says about one stored file `f` found under key `k`, relative to the
proof-record store `P` -/
def FileOK (P : AMap PKey Proof) (k : FKey) (f : File) : Prop :=
  f.key = k ∧ f.proofs.Nodup ∧ (f.proofs.length : Int) ≤ f.maxProofs ∧
    ∀ pk ∈ f.proofs, pk.2 = k ∧
      ∃ p, AMap.get P pk = some p ∧ p.prover = pk.1 ∧ (p.merkle, p.owner, p.start) = k

/-- the C17 invariant (unfolded verbatim in `C17_IndexInv_iff`) -/
structure IndexInv (s : State) : Prop where
  wfFiles : AMap.WF s.files
  wfFiles2 : AMap.WF s.files2
  wfProofs : AMap.WF s.proofs
  same : ∀ k, AMap.get s.files k = AMap.get s.files2 k
  ok : ∀ k f, AMap.get s.files k = some f → FileOK s.proofs k f

/-- a file's clause only looks at the records whose key points at that file -/
theorem FileOK.congr {P P' : AMap PKey Proof} {k : FKey} {f : File}
    (h : FileOK P k f) (hP : ∀ pk, pk.2 = k → pk ∈ f.proofs → AMap.get P' pk = AMap.get P pk) :
    FileOK P' k f := by
  obtain ⟨h1, h2, h3, h4⟩ := h
  refine ⟨h1, h2, h3, ?_⟩
  intro pk hpk
  obtain ⟨e, p, hp, r⟩ := h4 pk hpk
  exact ⟨e, p, by rw [hP pk e hpk]; exact hp, r⟩

/-- the invariant only reads the three stores -/
theorem IndexInv.frame {s s' : State} (h : IndexInv s) (e1 : s'.files = s.files)
    (e2 : s'.files2 = s.files2) (e3 : s'.proofs = s.proofs) : IndexInv s' := by
  obtain ⟨a, b, c, d, e⟩ := h
  exact ⟨by rw [e1]; exact a, by rw [e2]; exact b, by rw [e3]; exact c,
    by rw [e1, e2]; exact d, by rw [e1, e3]; exact e⟩

/-- the file/record stores, the forms and the parameters of two states coincide (what the
bank-, provider-, gauge- and plan-only code paths guarantee) -/
structure SameIdx (s s' : State) : Prop where
  files : s'.files = s.files
  files2 : s'.files2 = s.files2
  proofs : s'.proofs = s.proofs
  attests : s'.attests = s.attests
  reports : s'.reports = s.reports
  params : s'.params = s.params

theorem SameIdx.refl (s : State) : SameIdx s s := ⟨rfl, rfl, rfl, rfl, rfl, rfl⟩
theorem SameIdx.trans {a b c : State} (h1 : SameIdx a b) (h2 : SameIdx b c) : SameIdx a c :=
  ⟨h2.1.trans h1.1, h2.2.trans h1.2, h2.3.trans h1.3, h2.4.trans h1.4, h2.5.trans h1.5, h2.6.trans h1.6⟩
theorem IndexInv.ofSame {s s' : State} (h : IndexInv s) (e : SameIdx s s') : IndexInv s' :=
  h.frame e.1 e.2 e.3

/-! #### removeFile -/

theorem removeFile_files_get (s : State) (k k' : FKey) :
    AMap.get (removeFile s k).files k' = if k = k' then none else AMap.get s.files k' := by
  unfold removeFile
  cases hg : AMap.get s.files k with
  | none =>
    simp only []
    split
    · rename_i e; subst e; exact hg
    · rfl
  | some f => simp only [AMap.get_erase]

theorem indexInv_removeFile {s : State} (k : FKey) (h : IndexInv s) : IndexInv (removeFile s k) := by
  unfold removeFile
  cases hg : AMap.get s.files k with
  | none => exact h
  | some f =>
    obtain ⟨a, b, c, d, e⟩ := h
    refine ⟨AMap.wf_erase _ a, AMap.wf_erase _ b, AMap.wf_foldl_erase _ _ c, ?_, ?_⟩
    · intro k'; simp only [AMap.get_erase, d]
    · intro k' f' hf'
      simp only [AMap.get_erase] at hf'
      split at hf'
      · simp at hf'
      · rename_i hne
        apply (e k' f' hf').congr
        intro pk hpk _
        simp only [AMap.get_foldl_erase]
        split
        · rename_i hm
          exact absurd (((e k f hg).2.2.2 pk hm).1.symm.trans hpk) hne
        · rfl

/-! #### setFile with a new record store -/

theorem indexInv_setFile {s : State} (f : File) (P' : AMap PKey Proof) (h : IndexInv s)
    (hwf : AMap.WF P') (hf : FileOK P' f.key f)
    (hP : ∀ pk, pk.2 ≠ f.key → AMap.get P' pk = AMap.get s.proofs pk) :
    IndexInv { setFile s f with proofs := P' } := by
  obtain ⟨a, b, c, d, e⟩ := h
  refine ⟨AMap.wf_set _ _ a, AMap.wf_set _ _ b, hwf, ?_, ?_⟩
  · intro k; simp only [setFile, AMap.get_set, d]
  · intro k f' hf'
    simp only [setFile, AMap.get_set] at hf'
    split at hf'
    · rename_i hk
      simp only [Option.some.injEq] at hf'
      subst hf'; subst hk; exact hf
    · rename_i hne
      apply (e k f' hf').congr
      intro pk hpk _
      exact hP pk (by rw [hpk]; exact fun e => hne e.symm)

theorem setFile_files_get (s : State) (f : File) (k : FKey) :
    AMap.get (setFile s f).files k = if f.key = k then some f else AMap.get s.files k := by
  simp only [setFile, AMap.get_set]

/-! #### removeProver -/

theorem removeProver_spec {s : State} {f : File} (pk : PKey) (h : IndexInv s)
    (hf : AMap.get s.files f.key = some f) :
    IndexInv (removeProver s f pk).1 ∧
    AMap.get (removeProver s f pk).1.files f.key = some (removeProver s f pk).2 ∧
    (removeProver s f pk).2.key = f.key ∧
    (∀ k, k ≠ f.key → AMap.get (removeProver s f pk).1.files k = AMap.get s.files k) ∧
    (∀ x ∈ (removeProver s f pk).2.proofs, x ∈ f.proofs) := by
  unfold removeProver
  split
  · rename_i hc
    have hmem : pk ∈ f.proofs := by simpa using hc
    obtain ⟨k1, k2, k3, k4⟩ := h.ok _ _ hf
    have hpk2 : pk.2 = f.key := (k4 pk hmem).1
    refine ⟨?_, ?_, rfl, ?_, ?_⟩
    · apply indexInv_setFile _ _ h (AMap.wf_erase _ h.wfProofs)
      · refine ⟨rfl, k2.sublist List.filter_sublist, ?_, ?_⟩
        · have := List.length_filter_le (fun x => decide (x ≠ pk)) f.proofs
          show ((List.filter (fun x => decide (x ≠ pk)) f.proofs).length : Int) ≤ f.maxProofs
          omega
        · intro x hx
          simp only [List.mem_filter, decide_eq_true_eq] at hx
          obtain ⟨e, p, hp, r⟩ := k4 x hx.1
          refine ⟨e, p, ?_, r⟩
          rw [AMap.get_erase_other _ _ _ (fun e => hx.2 e.symm)]; exact hp
      · intro x hx
        apply AMap.get_erase_other
        intro e; subst e; exact hx hpk2
    · simp only [setFile, AMap.get_set]
      simp [File.key]
    · intro k hk
      exact AMap.get_set_other _ _ _ _ (fun e => hk e.symm)
    · intro x hx
      simp only [List.mem_filter] at hx; exact hx.1
  · exact ⟨h, hf, rfl, fun _ _ => rfl, fun _ hx => hx⟩

/-! #### postProof -/

theorem postProof_cases (s : State) (h : Int) (c m o : String) (st tp : Int) (v : Bool) (nc : Int) :
    (postProof s h c m o st tp v nc).state = s ∨
    (∃ f p x, AMap.get s.files (m, o, st) = some f ∧ (c, f.key) ∈ f.proofs ∧
        AMap.get s.proofs (c, f.key) = some p ∧
        (postProof s h c m o st tp v nc).state =
          { s with proofs := AMap.set s.proofs (c, f.key) { p with lastProven := h, chunkToProve := x } }) ∨
    (∃ f x, AMap.get s.files (m, o, st) = some f ∧ (c, f.key) ∉ f.proofs ∧
        (f.proofs.length : Int) < f.maxProofs ∧
        (postProof s h c m o st tp v nc).state =
          { setFile s { f with proofs := f.proofs ++ [(c, f.key)] } with
            proofs := AMap.set s.proofs (c, f.key)
              { prover := c, merkle := f.merkle, owner := f.owner, start := f.start,
                lastProven := h, chunkToProve := x } }) := by
  unfold postProof
  cases hf : AMap.get s.files (m, o, st) with
  | none => left; rfl
  | some f =>
    simp only []
    by_cases hl : (c, f.key) ∈ f.proofs
    · have hc : f.proofs.contains (c, f.key) = true := by simpa using hl
      simp only [hc, if_true, Bool.not_true, Bool.and_false, Bool.false_or, Bool.true_and]
      cases hp : AMap.get s.proofs (c, f.key) with
      | none => left; simp
      | some p =>
        simp only [Option.isNone_some, Bool.false_eq_true, if_false, Option.getD_some]
        split
        · left; rfl
        split
        · left; rfl
        right; left
        exact ⟨f, p, _, rfl, hl, hp, rfl⟩
    · have hc : f.proofs.contains (c, f.key) = false := by simpa using hl
      simp only [hc, Bool.false_eq_true, if_false, Bool.not_false, Bool.and_true, Bool.false_and, Bool.or_false,
        Option.getD_none]
      split
      · left; rfl
      split
      · left; rfl
      split
      · left; rfl
      split
      · left; rfl
      right; right
      rename_i h1 h2 h3 h4
      exact ⟨f, _, rfl, hl, by omega, rfl⟩

/-- rewriting one record while keeping its identity fields -/
theorem indexInv_setProof {s : State} (pk : PKey) (p p' : Proof) (h : IndexInv s)
    (hp : AMap.get s.proofs pk = some p) (e1 : p'.prover = p.prover) (e2 : p'.merkle = p.merkle)
    (e3 : p'.owner = p.owner) (e4 : p'.start = p.start) :
    IndexInv { s with proofs := AMap.set s.proofs pk p' } := by
  obtain ⟨a, b, c, d, e⟩ := h
  refine ⟨a, b, AMap.wf_set _ _ c, d, ?_⟩
  intro k f hf
  obtain ⟨k1, k2, k3, k4⟩ := e k f hf
  refine ⟨k1, k2, k3, ?_⟩
  intro x hx
  obtain ⟨ex, p0, hp0, r1, r2⟩ := k4 x hx
  refine ⟨ex, ?_⟩
  show ∃ q, AMap.get (AMap.set s.proofs pk p') x = some q ∧ _
  by_cases hxe : pk = x
  · subst hxe
    rw [hp] at hp0; simp only [Option.some.injEq] at hp0; subst hp0
    exact ⟨p', AMap.get_set_self _ _ _, by rw [e1]; exact r1, by rw [e2, e3, e4]; exact r2⟩
  · exact ⟨p0, by rw [AMap.get_set_other _ _ _ _ hxe]; exact hp0, r1, r2⟩

theorem indexInv_postProof (s : State) (h : Int) (c m o : String) (st tp : Int) (v : Bool) (nc : Int)
    (hinv : IndexInv s) : IndexInv (postProof s h c m o st tp v nc).state := by
  rcases postProof_cases s h c m o st tp v nc with e | ⟨f, p, x, hf, hl, hp, e⟩ | ⟨f, x, hf, hl, hlen, e⟩
  · rw [e]; exact hinv
  · rw [e]; exact indexInv_setProof _ p _ hinv hp rfl rfl rfl rfl
  · rw [e]
    obtain ⟨k1, k2, k3, k4⟩ := hinv.ok _ _ hf
    apply indexInv_setFile _ _ hinv (AMap.wf_set _ _ hinv.wfProofs)
    · refine ⟨rfl, ?_, ?_, ?_⟩
      · show (f.proofs ++ [(c, f.key)]).Nodup
        rw [List.nodup_append]
        refine ⟨k2, by simp, ?_⟩
        intro a ha b hb
        simp only [List.mem_singleton] at hb
        subst hb; intro e; subst e; exact hl ha
      · show (((f.proofs ++ [(c, f.key)]).length : Nat) : Int) ≤ f.maxProofs
        simp only [List.length_append, List.length_singleton]; omega
      · intro y hy
        have hy' : y ∈ f.proofs ∨ y = (c, f.key) := by
          simpa [List.mem_append] using hy
        rcases hy' with hy' | hy'
        · obtain ⟨ey, p0, hp0, r⟩ := k4 y hy'
          refine ⟨by rw [ey]; exact k1.symm, p0, ?_, r.1, by rw [r.2]; exact k1.symm⟩
          rw [AMap.get_set_other _ _ _ _ (fun e => hl (by rw [e]; exact hy'))]; exact hp0
        · subst hy'
          exact ⟨rfl, _, AMap.get_set_self _ _ _, rfl, rfl⟩
    · intro y hy
      apply AMap.get_set_other
      intro e; subst e; exact hy rfl

/-! #### attest -/

/-- the attestation list after `signer` signed -/
def signed (atts : List (String × Bool)) (signer : String) : List (String × Bool) :=
  atts.map (fun p => if p.1 = signer then (p.1, true) else p)

/-- number of complete entries -/
def completeCount (atts : List (String × Bool)) : Int := ((atts.filter (·.2)).length : Int)

theorem signForm_eq (atts : List (String × Bool)) (signer : String) :
    signForm atts signer = (signed atts signer, atts.any (fun p => p.1 = signer), completeCount (signed atts signer)) := rfl

/-- the outcomes of `attest`, one disjunct per way through the handler -/
theorem attest_cases (s : State) (h : Int) (c pr m o : String) (st : Int) :
    (attest s h c pr m o st = s ∧
      (AMap.get s.attests (pr, (m, o, st)) = none ∨
       ∃ form, AMap.get s.attests (pr, (m, o, st)) = some form ∧
        (form.attestations.any (fun p => p.1 = c) = false ∨
         (¬ completeCount (signed form.attestations c) < s.params.attestMinToPass ∧
           (AMap.get s.files (form.merkle, form.owner, form.start) = none ∨
            ∃ f, AMap.get s.files (form.merkle, form.owner, form.start) = some f ∧
              ((form.prover, f.key) ∉ f.proofs ∨ AMap.get s.proofs (form.prover, f.key) = none)))))) ∨
    (∃ form, AMap.get s.attests (pr, (m, o, st)) = some form ∧
        form.attestations.any (fun p => p.1 = c) = true ∧
        completeCount (signed form.attestations c) < s.params.attestMinToPass ∧
        attest s h c pr m o st =
          { s with attests := AMap.set s.attests (pr, (m, o, st)) { form with attestations := signed form.attestations c } }) ∨
    (∃ form f p, AMap.get s.attests (pr, (m, o, st)) = some form ∧
        form.attestations.any (fun p => p.1 = c) = true ∧
        ¬ completeCount (signed form.attestations c) < s.params.attestMinToPass ∧
        AMap.get s.files (form.merkle, form.owner, form.start) = some f ∧
        (form.prover, f.key) ∈ f.proofs ∧ AMap.get s.proofs (form.prover, f.key) = some p ∧
        attest s h c pr m o st =
          { s with proofs := AMap.set s.proofs (form.prover, f.key) { p with lastProven := h },
                   attests := AMap.erase s.attests (pr, (m, o, st)) }) := by
  unfold attest
  simp only []
  cases hform : AMap.get s.attests (pr, (m, o, st)) with
  | none => left; exact ⟨rfl, Or.inl rfl⟩
  | some form =>
    simp only [signForm_eq]
    rcases Bool.eq_false_or_eq_true (form.attestations.any (fun p => p.1 = c)) with hl | hl
    · simp only [hl, Bool.not_true, Bool.false_eq_true, if_false]
      by_cases hq : completeCount (signed form.attestations c) < s.params.attestMinToPass
      · right; left
        exact ⟨form, rfl, hl, hq, by simp [hq]⟩
      · simp only [hq, if_false]
        cases hf : AMap.get s.files (form.merkle, form.owner, form.start) with
        | none => left; exact ⟨rfl, Or.inr ⟨form, rfl, Or.inr ⟨hq, Or.inl hf⟩⟩⟩
        | some f =>
          simp only []
          by_cases hm : (form.prover, f.key) ∈ f.proofs
          · have hc : f.proofs.contains (form.prover, f.key) = true := by simpa using hm
            simp only [hc, Bool.not_true, Bool.false_eq_true, if_false]
            cases hp : AMap.get s.proofs (form.prover, f.key) with
            | none => left; exact ⟨rfl, Or.inr ⟨form, rfl, Or.inr ⟨hq, Or.inr ⟨f, hf, Or.inr hp⟩⟩⟩⟩
            | some p =>
              right; right
              exact ⟨form, f, p, rfl, hl, hq, hf, hm, hp, rfl⟩
          · have hc : f.proofs.contains (form.prover, f.key) = false := by simpa using hm
            left
            exact ⟨by simp [hm], Or.inr ⟨form, rfl, Or.inr ⟨hq, Or.inr ⟨f, hf, Or.inl hm⟩⟩⟩⟩
    · left; exact ⟨by simp [hl], Or.inr ⟨form, rfl, Or.inl hl⟩⟩

theorem indexInv_attest (s : State) (h : Int) (c pr m o : String) (st : Int)
    (hinv : IndexInv s) : IndexInv (attest s h c pr m o st) := by
  rcases attest_cases s h c pr m o st with ⟨e, -⟩ | ⟨form, -, -, -, e⟩ | ⟨form, f, p, -, -, -, -, -, hp, e⟩
  · rw [e]; exact hinv
  · rw [e]; exact hinv.frame rfl rfl rfl
  · rw [e]; exact (indexInv_setProof _ p { p with lastProven := h } hinv hp rfl rfl rfl rfl).frame rfl rfl rfl


/-! #### the remaining messages -/

theorem indexInv_postFile {s s' : State} {h now : Int} {c m : String} {fs mp ex pt : Int} {note : String}
    {nv : Bool} {jp : Dec} {gid gacc : String}
    (hs : postFile s h now c m fs mp ex pt note nv jp gid gacc = some s') (hinv : IndexInv s) :
    IndexInv s' := by
  simp only [postFile, bind, Option.bind_eq_some_iff, req_eq_some] at hs
  obtain ⟨_, -, _, ⟨-, hmp, -⟩, hs⟩ := hs
  have h1 : IndexInv (setFile (removeFile s (m, c, h))
      { merkle := m, owner := c, start := h, expires := ex, fileSize := fs,
        proofInterval := s.params.proofWindow, proofType := pt, proofs := [], maxProofs := mp, note := note }) := by
    have h0 := indexInv_removeFile (m, c, h) hinv
    refine (indexInv_setFile _ (removeFile s (m, c, h)).proofs h0 h0.wfProofs ?_ (fun _ _ => rfl)).frame rfl rfl rfl
    refine ⟨rfl, List.nodup_nil, ?_, ?_⟩
    · show ((0 : Nat) : Int) ≤ mp
      omega
    · intro pk hpk; simp at hpk
  split at hs
  · simp only [Option.bind_eq_some_iff, req_eq_some] at hs
    obtain ⟨_, -, cost, -, _, -, spc, -, toPay, -, b1, -, b2, -, hs⟩ := hs
    simp only [Option.some.injEq] at hs; subst hs
    exact h1.frame rfl rfl rfl
  · simp only [Option.bind_eq_some_iff, req_eq_some] at hs
    obtain ⟨pi, -, _, -, _, -, hs⟩ := hs
    simp only [Option.some.injEq] at hs; subst hs
    exact h1.frame rfl rfl rfl

theorem sameIdx_buyStorage {s s' : State} {now : Int} {c fa : String} {dd b : Int} {dn : String}
    {ref : Option String} {jp : Dec} {gid gacc : String}
    (hs : buyStorage s now c fa dd b dn ref jp gid gacc = some s') : SameIdx s s' := by
  simp only [buyStorage, bind, Option.bind_eq_some_iff, req_eq_some] at hs
  obtain ⟨_, -, _, -, _, -, _, -, cost, -, _, -, hs⟩ := hs
  repeat' (first
    | (subst hs; exact ⟨rfl, rfl, rfl, rfl, rfl, rfl⟩)
    | (obtain ⟨_, -, hs⟩ := hs)
    | (simp only [Option.bind_eq_some_iff, req_eq_some, Option.some.injEq, Option.bind_none, Option.bind_some] at hs)
    | split at hs)

theorem sameIdx_initProvider {s s' : State} {c ip kb : String} {ts : Int} {iv : Bool}
    (hs : initProvider s c ip kb ts iv = some s') : SameIdx s s' := by
  simp only [initProvider, bind, Option.bind_eq_some_iff, req_eq_some] at hs
  obtain ⟨_, -, _, -, _, -, coins, -, b1, -, hs⟩ := hs
  simp only [Option.some.injEq] at hs; subst hs
  exact ⟨rfl, rfl, rfl, rfl, rfl, rfl⟩

theorem sameIdx_shutdownProvider {s s' : State} {c : String}
    (hs : shutdownProvider s c = some s') : SameIdx s s' := by
  simp only [shutdownProvider, bind, Option.bind_eq_some_iff, req_eq_some] at hs
  obtain ⟨_, -, hs⟩ := hs
  split at hs
  · simp only [Option.bind_eq_some_iff, req_eq_some] at hs
    obtain ⟨_, -, coins, -, b1, -, hs⟩ := hs
    simp only [Option.some.injEq] at hs; subst hs
    exact ⟨rfl, rfl, rfl, rfl, rfl, rfl⟩
  · simp only [Option.some.injEq] at hs; subst hs
    exact ⟨rfl, rfl, rfl, rfl, rfl, rfl⟩

theorem sameIdx_updProvider {s s' : State} {c : String} {f : Provider → Option Provider}
    (hs : updProvider s c f = some s') : SameIdx s s' := by
  simp only [updProvider, bind, Option.bind_eq_some_iff] at hs
  obtain ⟨p, -, p', -, hs⟩ := hs
  simp only [Option.some.injEq] at hs; subst hs
  exact ⟨rfl, rfl, rfl, rfl, rfl, rfl⟩

/-- `report`, written without the monad -/
theorem report_eq (s : State) (c pr m o : String) (st : Int) :
    report s c pr m o st =
      match AMap.get s.reports (pr, (m, o, st)) with
      | none => none
      | some form =>
        if form.attestations.any (fun p => p.1 = c) = true then
          if completeCount (signed form.attestations c) < s.params.attestMinToPass then
            some { s with reports := AMap.set s.reports (pr, (m, o, st)) { form with attestations := signed form.attestations c } }
          else
            match AMap.get s.files (m, o, st) with
            | none => none
            | some f => some (removeProver { s with reports := AMap.erase s.reports (pr, (m, o, st)) } f (pr, f.key)).1
        else none := by
  unfold report
  simp only [bind, Option.bind]
  cases AMap.get s.reports (pr, (m, o, st)) with
  | none => rfl
  | some form =>
    simp only []
    rcases Bool.eq_false_or_eq_true (form.attestations.any (fun p => p.1 = c)) with hl | hl
    · have e : req ((signForm form.attestations c).2.1 = true) = some () := by
        rw [req_eq_some]; exact hl
      simp only [hl, if_true]
      rw [e]
      show (if completeCount (signed form.attestations c) < s.params.attestMinToPass then _ else _) = _
      by_cases hq : completeCount (signed form.attestations c) < s.params.attestMinToPass
      · rw [if_pos hq, if_pos hq]; rfl
      · rw [if_neg hq, if_neg hq]
        cases AMap.get s.files (m, o, st) <;> rfl
    · have e : req ((signForm form.attestations c).2.1 = true) = none := by
        unfold req; rw [if_neg]; show ¬ (form.attestations.any (fun p => p.1 = c)) = true; rw [hl]; simp
      rw [e]; simp [hl]

theorem indexInv_report {s s' : State} {c pr m o : String} {st : Int}
    (hs : report s c pr m o st = some s') (hinv : IndexInv s) : IndexInv s' := by
  rw [report_eq] at hs
  split at hs
  · simp at hs
  split at hs
  · split at hs
    · simp only [Option.some.injEq] at hs; subst hs
      exact hinv.frame rfl rfl rfl
    · split at hs
      · simp at hs
      · rename_i f hf
        simp only [Option.some.injEq] at hs; subst hs
        have hk : f.key = (m, o, st) := (hinv.ok _ _ hf).1
        have h1 : IndexInv { s with reports := AMap.erase s.reports (pr, (m, o, st)) } := hinv.frame rfl rfl rfl
        exact (removeProver_spec (f := f) (pr, f.key) h1 (by rw [hk]; exact hf)).1
  · simp at hs


/-! #### the reward block -/

theorem sameIdx_burnContract (s : State) (p : String) : SameIdx s (burnContract s p) := by
  unfold burnContract
  split
  · exact SameIdx.refl s
  · split
    · exact SameIdx.refl s
    · exact ⟨rfl, rfl, rfl, rfl, rfl, rfl⟩

/-- what one `manageProof` call keeps: the invariant, "the carried file is the stored one", and all
other files -/
structure Carried (k : FKey) (s0 : State) (s : State) (f : File) : Prop where
  inv : IndexInv s
  stored : AMap.get s.files k = some f
  key : f.key = k
  others : ∀ k', k' ≠ k → AMap.get s.files k' = AMap.get s0.files k'

theorem Carried.removeProver {k : FKey} {s0 s : State} {f : File} (c : Carried k s0 s f) (pk : PKey) :
    Carried k s0 (removeProver s f pk).1 (removeProver s f pk).2 := by
  obtain ⟨i, st, ky, ot⟩ := c
  subst ky
  obtain ⟨a, b, c, d, _⟩ := removeProver_spec pk i st
  exact ⟨a, b, c, fun k' hk' => (d k' hk').trans (ot k' hk')⟩

theorem Carried.same {k : FKey} {s0 s s' : State} {f : File} (c : Carried k s0 s f) (e : SameIdx s s') :
    Carried k s0 s' f :=
  ⟨c.inv.ofSame e, by rw [e.1]; exact c.stored, c.key, by rw [e.1]; exact c.others⟩

theorem carried_manageProof {k : FKey} {s0 s : State} {f : File} (h : Int) (t : Tracker) (pk : PKey)
    (c : Carried k s0 s f) :
    Carried k s0 (manageProof s h t f pk).1 (manageProof s h t f pk).2.2 := by
  unfold manageProof
  simp only []
  split
  · split
    · exact c.removeProver pk
    · exact c
  · split
    · exact (c.removeProver pk).same (sameIdx_burnContract _ _)
    · exact c

theorem manageFile_spec {s : State} (h : Int) (t : Tracker) (f : File) (hinv : IndexInv s)
    (hf : AMap.get s.files f.key = some f) :
    IndexInv (manageFile s h t f).1 ∧
      ∀ k', k' ≠ f.key → AMap.get (manageFile s h t f).1.files k' = AMap.get s.files k' := by
  unfold manageFile
  simp only []
  split
  · rename_i hc
    have he : f.proofs = [] := by
      simp only [Bool.and_eq_true, List.isEmpty_iff] at hc; exact hc.1
    rw [he]
    simp only [List.foldl_nil]
    refine ⟨indexInv_removeFile _ hinv, ?_⟩
    intro k' hk'
    rw [removeFile_files_get, if_neg (fun e => hk' e.symm)]
  · have := foldl_inv (fun (acc : State × Tracker × File) => Carried f.key s acc.1 acc.2.2)
      (fun (acc : State × Tracker × File) pk => manageProof acc.1 h acc.2.1 acc.2.2 pk)
      (fun acc pk c => carried_manageProof h acc.2.1 pk c) f.proofs (s, t, f)
      ⟨hinv, hf, rfl, fun _ _ => rfl⟩
    exact ⟨this.inv, this.others⟩

theorem indexInv_manageFiles (h : Int) : ∀ (l : List (FKey × File)) (acc : State × Tracker),
    (l.map (·.1)).Nodup → IndexInv acc.1 → (∀ kv ∈ l, AMap.get acc.1.files kv.1 = some kv.2) →
    IndexInv (l.foldl (fun (acc : State × Tracker) kv => manageFile acc.1 h acc.2 kv.2) acc).1 := by
  intro l
  induction l with
  | nil => intro acc _ hi _; exact hi
  | cons kv t ih =>
    intro acc hnd hi hall
    simp only [List.map_cons, List.nodup_cons] at hnd
    simp only [List.foldl_cons]
    have hkv := hall kv (by simp)
    have hk : kv.2.key = kv.1 := (hi.ok _ _ hkv).1
    obtain ⟨i1, o1⟩ := manageFile_spec h acc.2 kv.2 hi (by rw [hk]; exact hkv)
    apply ih _ hnd.2 i1
    intro kv' hkv'
    rw [o1 kv'.1]
    · exact hall kv' (List.mem_cons_of_mem _ hkv')
    · rw [hk]
      intro e
      exact hnd.1 (by rw [← e]; exact List.mem_map_of_mem hkv')

theorem sameIdx_pullGauge {s s' : State} {now : Int} {rel rel' : Coins} {g : Gauge}
    (hs : pullGauge s now rel g = .ok (s', rel')) : SameIdx s s' := by
  unfold pullGauge at hs
  split at hs
  · simp only [Except.ok.injEq, Prod.mk.injEq] at hs; rw [← hs.1]; exact ⟨rfl, rfl, rfl, rfl, rfl, rfl⟩
  split at hs
  · simp only [Except.ok.injEq, Prod.mk.injEq] at hs; rw [← hs.1]; exact ⟨rfl, rfl, rfl, rfl, rfl, rfl⟩
  simp only [] at hs
  split at hs
  · simp only [Except.ok.injEq, Prod.mk.injEq] at hs; rw [← hs.1]; exact ⟨rfl, rfl, rfl, rfl, rfl, rfl⟩
  split at hs
  · simp at hs
  · refine foldlM_except_inv (fun (acc : State × Coins) => SameIdx s acc.1) _ ?_ _ _ _ hs (SameIdx.refl s)
    intro acc coin acc' hf hp
    obtain ⟨st, rl⟩ := acc
    obtain ⟨dn, am⟩ := coin
    simp only [] at hf
    split at hf
    · simp at hf
    split at hf
    · simp only [Except.ok.injEq] at hf; subst hf; exact hp
    split at hf
    · simp at hf
    split at hf
    · simp only [Except.ok.injEq] at hf; subst hf; exact hp.trans ⟨rfl, rfl, rfl, rfl, rfl, rfl⟩
    · simp only [Except.ok.injEq] at hf; subst hf; exact hp

theorem sameIdx_pullGauges {s s' : State} {now : Int} {rel : Coins}
    (hs : pullGauges s now = .ok (s', rel)) : SameIdx s s' := by
  unfold pullGauges at hs
  refine foldlM_except_inv (fun (acc : State × Coins) => SameIdx s acc.1) _ ?_ _ _ _ hs (SameIdx.refl s)
  intro acc kv acc' hf hp
  obtain ⟨s2, r2⟩ := acc'
  exact hp.trans (sameIdx_pullGauge hf)

theorem sameIdx_payProver {s s' : State} {total : Int} {coins : Coins} {pr : String} {w : Int}
    (hs : payProver s total coins pr w = .ok s') : SameIdx s s' := by
  unfold payProver at hs
  split at hs
  · simp at hs
  split at hs
  · simp only [Except.ok.injEq] at hs; subst hs; exact SameIdx.refl s
  · refine foldlM_except_inv (fun (st : State) => SameIdx s st) _ ?_ _ _ _ hs (SameIdx.refl s)
    intro st coin st' hf hp
    simp only [] at hf
    split at hf
    · simp at hf
    split at hf
    · simp only [Except.ok.injEq] at hf; subst hf; exact hp.trans ⟨rfl, rfl, rfl, rfl, rfl, rfl⟩
    · simp only [Except.ok.injEq] at hf; subst hf; exact hp

theorem indexInv_manageRewards {s s' : State} {h now : Int}
    (hs : manageRewards s h now = .ok s') (hinv : IndexInv s) : IndexInv s' := by
  unfold manageRewards at hs
  simp only [bind, Except.bind] at hs
  have h1 := indexInv_manageFiles h s.files (s, []) hinv.wfFiles hinv
    (fun kv hkv => AMap.get_of_mem_wf hinv.wfFiles hkv)
  generalize (s.files.foldl (fun (acc : State × Tracker) kv => manageFile acc.1 h acc.2 kv.2) (s, [])) = r at hs h1
  obtain ⟨s1, tr⟩ := r
  simp only [] at hs h1
  split at hs
  · simp at hs
  · rename_i v hv
    obtain ⟨s2, coins⟩ := v
    simp only [] at hs
    have h2 := h1.ofSame (sameIdx_pullGauges hv)
    refine foldlM_except_inv (fun (st : State) => IndexInv st) _ ?_ _ _ _ hs h2
    intro st pw st' hf hp
    exact hp.ofSame (sameIdx_payProver hf)

theorem indexInv_beginBlock {s s' : State} {h now : Int}
    (hs : beginBlock s h now = .ok s') (hinv : IndexInv s) : IndexInv s' := by
  unfold beginBlock at hs
  split at hs
  · simp at hs
  split at hs
  · simp only [Except.ok.injEq] at hs; subst hs; exact hinv
  · exact indexInv_manageRewards hs hinv


/-! ### Histories -/

/-- one event of a chain history: a delivered storage message or a block boundary -/
inductive Ev where
  | msg (h now : Int) (op : Op)
  | block (h now : Int)
  deriving Repr

/-- a failed message commits nothing; a panicking block is not committed either -/
def applyEv (s : State) : Ev → State
  | .msg h now op => (step s h now op).getD s
  | .block h now =>
    match beginBlock s h now with
    | .ok s' => s'
    | .error _ => s

def runEvs (s : State) (evs : List Ev) : State := evs.foldl applyEv s

/-- a state without files and records -/
def emptyIdx (s : State) : Prop := s.files = [] ∧ s.files2 = [] ∧ s.proofs = []

theorem indexInv_empty {s : State} (h : emptyIdx s) : IndexInv s := by
  obtain ⟨a, b, c⟩ := h
  refine ⟨by rw [a]; exact AMap.wf_nil, by rw [b]; exact AMap.wf_nil, by rw [c]; exact AMap.wf_nil, ?_, ?_⟩
  · intro k; rw [a, b]
  · intro k f hf; rw [a] at hf; simp at hf


/-! #### facts about signing a form -/

theorem any_named (atts : List (String × Bool)) (c : String) :
    atts.any (fun p => p.1 = c) = true ↔ ∃ p ∈ atts, p.1 = c := by
  simp only [List.any_eq_true, decide_eq_true_eq]

theorem signed_length (atts : List (String × Bool)) (c : String) :
    (signed atts c).length = atts.length := by simp [signed]

theorem signed_names (atts : List (String × Bool)) (c : String) :
    (signed atts c).map (·.1) = atts.map (·.1) := by
  simp only [signed, List.map_map]
  apply List.map_congr_left
  intro p _
  simp only [Function.comp]
  split <;> rfl

theorem signed_getElem (atts : List (String × Bool)) (c : String) (i : Nat) (hi : i < (signed atts c).length) :
    (signed atts c)[i] =
      if (atts[i]'(by rw [signed_length] at hi; exact hi)).1 = c
      then ((atts[i]'(by rw [signed_length] at hi; exact hi)).1, true)
      else atts[i]'(by rw [signed_length] at hi; exact hi) := by
  simp only [signed, List.getElem_map]

theorem signed_signed (atts : List (String × Bool)) (c : String) :
    signed (signed atts c) c = signed atts c := by
  simp only [signed, List.map_map]
  apply List.map_congr_left
  intro p _
  simp only [Function.comp]
  by_cases h : p.1 = c <;> simp [h]

theorem any_signed (atts : List (String × Bool)) (c c' : String) :
    (signed atts c).any (fun p => p.1 = c') = atts.any (fun p => p.1 = c') := by
  have := signed_names atts c
  have e : ∀ l : List (String × Bool), l.any (fun p => p.1 = c') = (l.map (·.1)).any (fun a => a = c') := by
    intro l; simp [List.any_map, Function.comp_def]
  rw [e, e, this]

/-- the names of the complete entries -/
def completeNames (atts : List (String × Bool)) : List String := (atts.filter (·.2)).map (·.1)

theorem completeNames_length (atts : List (String × Bool)) :
    ((completeNames atts).length : Int) = completeCount atts := by
  simp [completeNames, completeCount]

theorem completeNames_nodup {atts : List (String × Bool)} (h : (atts.map (·.1)).Nodup) :
    (completeNames atts).Nodup :=
  h.sublist (List.Sublist.map _ List.filter_sublist)

theorem mem_completeNames {atts : List (String × Bool)} {a : String} :
    a ∈ completeNames atts ↔ (a, true) ∈ atts := by
  simp only [completeNames, List.mem_map, List.mem_filter]
  constructor
  · rintro ⟨⟨x, b⟩, ⟨hm, hb⟩, rfl⟩
    simp only at hb; subst hb; exact hm
  · intro h; exact ⟨(a, true), ⟨h, rfl⟩, rfl⟩

/-- `attest`, written without `signForm` -/
theorem attest_eq (s : State) (h : Int) (c pr m o : String) (st : Int) :
    attest s h c pr m o st =
      match AMap.get s.attests (pr, (m, o, st)) with
      | none => s
      | some form =>
        if form.attestations.any (fun p => p.1 = c) = true then
          if completeCount (signed form.attestations c) < s.params.attestMinToPass then
            { s with attests := AMap.set s.attests (pr, (m, o, st)) { form with attestations := signed form.attestations c } }
          else
            match AMap.get s.files (form.merkle, form.owner, form.start) with
            | none => s
            | some f =>
              if (form.prover, f.key) ∈ f.proofs then
                match AMap.get s.proofs (form.prover, f.key) with
                | none => s
                | some p =>
                  { s with proofs := AMap.set s.proofs (form.prover, f.key) { p with lastProven := h },
                           attests := AMap.erase s.attests (pr, (m, o, st)) }
              else s
        else s := by
  rcases attest_cases s h c pr m o st with
    ⟨e, hn | ⟨form, hg, hl | ⟨hq, hf | ⟨f, hf, hm | hp⟩⟩⟩⟩ | ⟨form, hg, hl, hq, e⟩ | ⟨form, f, p, hg, hl, hq, hf, hm, hp, e⟩
  · rw [e, hn]
  · rw [e, hg]; simp only [hl, Bool.false_eq_true, if_false]
  · rw [e, hg]; simp only [hq, hf, if_false]; split <;> rfl
  · rw [e, hg]; simp only [hq, hf, hm, if_false]; split <;> rfl
  · rw [e, hg]; simp only [hq, hf, hp, if_false]; split <;> (try split) <;> rfl
  · rw [e, hg]; simp only [hl, hq, if_true]
  · rw [e, hg]; simp only [hl, hq, hf, hm, hp, if_true, if_false]


theorem removeProver_reports (s : State) (f : File) (pk : PKey) :
    (removeProver s f pk).1.reports = s.reports ∧ (removeProver s f pk).1.attests = s.attests ∧
    (removeProver s f pk).1.params = s.params := by
  unfold removeProver; split <;> exact ⟨rfl, rfl, rfl⟩

/-- the two ways a `report` succeeds -/
theorem report_cases {s s' : State} {c pr m o : String} {st : Int}
    (h : report s c pr m o st = some s') :
    ∃ form, AMap.get s.reports (pr, (m, o, st)) = some form ∧
      form.attestations.any (fun p => p.1 = c) = true ∧
      ((completeCount (signed form.attestations c) < s.params.attestMinToPass ∧
          s' = { s with reports := AMap.set s.reports (pr, (m, o, st)) { form with attestations := signed form.attestations c } }) ∨
       (¬ completeCount (signed form.attestations c) < s.params.attestMinToPass ∧
          ∃ f, AMap.get s.files (m, o, st) = some f ∧
            s' = (removeProver { s with reports := AMap.erase s.reports (pr, (m, o, st)) } f (pr, f.key)).1)) := by
  rw [report_eq] at h
  split at h
  · simp at h
  · rename_i form hg
    split at h
    · rename_i hl
      refine ⟨form, hg, hl, ?_⟩
      split at h
      · rename_i hq
        simp only [Option.some.injEq] at h
        exact Or.inl ⟨hq, h.symm⟩
      · rename_i hq
        split at h
        · simp at h
        · rename_i f hf
          simp only [Option.some.injEq] at h
          exact Or.inr ⟨hq, f, hf, h.symm⟩
    · simp at h


/-! #### frame facts for the form stores -/

/-- forms and parameters coincide -/
structure SameForms (s s' : State) : Prop where
  attests : s'.attests = s.attests
  reports : s'.reports = s.reports
  params : s'.params = s.params

theorem SameForms.refl (s : State) : SameForms s s := ⟨rfl, rfl, rfl⟩
theorem SameForms.trans {a b c : State} (h1 : SameForms a b) (h2 : SameForms b c) : SameForms a c :=
  ⟨h2.1.trans h1.1, h2.2.trans h1.2, h2.3.trans h1.3⟩
theorem SameIdx.forms {s s' : State} (h : SameIdx s s') : SameForms s s' := ⟨h.attests, h.reports, h.params⟩

theorem sameForms_removeFile (s : State) (k : FKey) : SameForms s (removeFile s k) := by
  unfold removeFile; split <;> exact ⟨rfl, rfl, rfl⟩

theorem sameForms_removeProver (s : State) (f : File) (pk : PKey) : SameForms s (removeProver s f pk).1 := by
  unfold removeProver; split <;> exact ⟨rfl, rfl, rfl⟩

theorem sameForms_postFile {s s' : State} {h now : Int} {c m : String} {fs mp ex pt : Int} {note : String}
    {nv : Bool} {jp : Dec} {gid gacc : String}
    (hs : postFile s h now c m fs mp ex pt note nv jp gid gacc = some s') : SameForms s s' := by
  simp only [postFile, bind, Option.bind_eq_some_iff, req_eq_some] at hs
  obtain ⟨_, -, _, -, hs⟩ := hs
  have h1 := sameForms_removeFile s (m, c, h)
  split at hs
  · simp only [Option.bind_eq_some_iff, req_eq_some] at hs
    obtain ⟨_, -, cost, -, _, -, spc, -, toPay, -, b1, -, b2, -, hs⟩ := hs
    simp only [Option.some.injEq] at hs; subst hs
    exact h1.trans ⟨rfl, rfl, rfl⟩
  · simp only [Option.bind_eq_some_iff, req_eq_some] at hs
    obtain ⟨pi, -, _, -, _, -, hs⟩ := hs
    simp only [Option.some.injEq] at hs; subst hs
    exact h1.trans ⟨rfl, rfl, rfl⟩

theorem sameForms_postProof (s : State) (h : Int) (c m o : String) (st tp : Int) (v : Bool) (nc : Int) :
    SameForms s (postProof s h c m o st tp v nc).state := by
  rcases postProof_cases s h c m o st tp v nc with e | ⟨f, p, x, -, -, -, e⟩ | ⟨f, x, -, -, -, e⟩ <;>
    rw [e] <;> exact ⟨rfl, rfl, rfl⟩

theorem sameForms_manageProof (s : State) (h : Int) (t : Tracker) (f : File) (pk : PKey) :
    SameForms s (manageProof s h t f pk).1 := by
  unfold manageProof
  simp only []
  split
  · split
    · exact sameForms_removeProver s f pk
    · exact SameForms.refl s
  · split
    · exact (sameForms_removeProver s f pk).trans (sameIdx_burnContract _ _).forms
    · exact SameForms.refl s

theorem sameForms_manageFile (s : State) (h : Int) (t : Tracker) (f : File) :
    SameForms s (manageFile s h t f).1 := by
  unfold manageFile
  simp only []
  have h1 : SameForms s (if (f.proofs.isEmpty && !isYoung h f.start f.proofInterval) = true
      then removeFile s f.key else s) := by
    split
    · exact sameForms_removeFile s f.key
    · exact SameForms.refl s
  exact foldl_inv (fun (acc : State × Tracker × File) => SameForms s acc.1)
    (fun (acc : State × Tracker × File) pk => manageProof acc.1 h acc.2.1 acc.2.2 pk)
    (fun acc pk c => c.trans (sameForms_manageProof acc.1 h acc.2.1 acc.2.2 pk)) f.proofs _ h1

theorem sameForms_manageRewards {s s' : State} {h now : Int}
    (hs : manageRewards s h now = .ok s') : SameForms s s' := by
  unfold manageRewards at hs
  simp only [bind, Except.bind] at hs
  have h1 := foldl_inv (fun (acc : State × Tracker) => SameForms s acc.1)
    (fun (acc : State × Tracker) (kv : FKey × File) => manageFile acc.1 h acc.2 kv.2)
    (fun acc kv c => c.trans (sameForms_manageFile acc.1 h acc.2 kv.2)) s.files (s, []) (SameForms.refl s)
  generalize (s.files.foldl (fun (acc : State × Tracker) kv => manageFile acc.1 h acc.2 kv.2) (s, [])) = r at hs h1
  obtain ⟨s1, tr⟩ := r
  simp only [] at hs h1
  split at hs
  · simp at hs
  · rename_i v hv
    obtain ⟨s2, coins⟩ := v
    simp only [] at hs
    have h2 := h1.trans (sameIdx_pullGauges hv).forms
    refine foldlM_except_inv (fun (st : State) => SameForms s st) _ ?_ _ _ _ hs h2
    intro st pw st' hf hp
    exact hp.trans (sameIdx_payProver hf).forms

theorem sameForms_beginBlock {s s' : State} {h now : Int}
    (hs : beginBlock s h now = .ok s') : SameForms s s' := by
  unfold beginBlock at hs
  split at hs
  · simp at hs
  split at hs
  · simp only [Except.ok.injEq] at hs; subst hs; exact SameForms.refl s
  · exact sameForms_manageRewards hs

end Storage
end Canine
