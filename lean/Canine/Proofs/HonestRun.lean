/-
Helper lemmas for C02 along whole executions (`Canine/Props/C02.lean`, section 6).

* the run as a list of (state before the event, event) pairs (`runTrace`), the heights of the events,
  the heights at which a proof of prover `c` for file `k` was accepted (`acceptedAt`, `acceptedIn`);
* the events that can take a listed prover off a file other than the reward block
  (`removesOtherwise`: the owner's `deleteFile`, the owner's re-`postFile` of the same key in the
  file's start block, a `report` that reaches its quorum);
* what one delivered message does to the listing of `(c, k)` and to its proof record (`step_local`);
* what one begin-blocker does (`block_back`, `block_keeps_recent`);
* the two invariants along runs: `CondHeld` (if `(c, k)` is listed then its record exists and its
  `lastProven` dominates every accepted height so far) and `Listed`.
Core Lean only.
-/
import Canine.Proofs.StorageA
namespace Canine.Storage

/-! ### vocabulary -/

/-- the block height an event carries (`setParams` is a governance write, it has none) -/
def Event.height : Event → Option Int
  | .msg h _ _ => some h
  | .block h _ => some h
  | .setParams _ => none

/-- the run from `s` as the list of (state before the event, event); it stops after an event that
fails (a message returning an error, a panicking begin-blocker) -/
def runTrace : State → List Event → List (State × Event)
  | _, [] => []
  | s, e :: evs =>
    (s, e) :: (match applyEvent s e with
               | some s' => runTrace s' evs
               | none => [])

/-- `some h` iff the event is a `postProof` of `c` for the file key `k` delivered at height `h`
whose response says success (the chain accepted the proof) in the state it was delivered in -/
def acceptedAt (c : String) (k : FKey) : State × Event → Option Int
  | (s, .msg h _ (.postProof c' m o st tp v nc)) =>
    if c' = c ∧ (m, o, st) = k ∧ (postProof s h c' m o st tp v nc).success = true then some h else none
  | _ => none

/-- the heights of the accepted proofs of `c` for `k` in (a piece of) a trace, in order -/
def acceptedIn (c : String) (k : FKey) (tr : List (State × Event)) : List Int :=
  tr.filterMap (acceptedAt c k)

/-- the `report` of `cr` against proof key `pk` completes the quorum in state `s` -/
def reportQuorum (s : State) (cr : String) (pk : PKey) : Prop :=
  ∃ form, AMap.get s.reports pk = some form ∧
    ¬ (signForm form.attestations cr).2.2 < s.params.attestMinToPass

/-- The events other than a reward block that can take the listed prover `c` off the file `k` or
delete its proof record (enumerated from `Canine/Storage/Handlers.lean`; `step_local` proves that
there are no others):
* `deleteFile` of that very key (only the owner can name it: the owner is part of the key);
* `postFile` by the owner of the same Merkle root in the file's own start block (`(m, creator, h) = k`):
  `postFile` replaces a same-key file by a fresh one with no provers;
* a `report` against `(c, k)` that completes the quorum of its report form. -/
def removesOtherwise (c : String) (k : FKey) (s : State) : Event → Prop
  | .msg h _ (.postFile cr m _ _ _ _ _ _ _ _ _) => (m, cr, h) = k
  | .msg _ _ (.deleteFile cr m st) => (m, cr, st) = k
  | .msg _ _ (.report cr pr m o st) => pr = c ∧ (m, o, st) = k ∧ reportQuorum s cr (c, k)
  | _ => False

/-! ### `removeFile` away from the removed key -/

theorem removeFile_proofs_other {s : State} (hc : Consistent s) (k0 : FKey) (pk : PKey)
    (hne : pk.2 ≠ k0) : AMap.get (removeFile s k0).proofs pk = AMap.get s.proofs pk := by
  unfold removeFile
  cases hf : AMap.get s.files k0 with
  | none => rfl
  | some f0 =>
    dsimp only
    rw [AMap.get_foldl_erase, if_neg]
    intro hmem
    exact hne (hc.listed k0 f0 hf pk hmem)

theorem removeFile_files_other (s : State) (k0 k : FKey) (hne : k ≠ k0) :
    AMap.get (removeFile s k0).files k = AMap.get s.files k := by
  rw [removeFile_files_get, if_neg (fun e => hne e.symm)]

/-! ### `postProof` and `report` case by case -/

/-- `postProof` on a consistent state: rejected (nothing written), accepted from a listed prover
(only its record is rewritten, `lastProven := h`), or accepted from a newcomer (appended to the
file's list, fresh record with `lastProven := h`) -/
theorem postProof_cases {s : State} (hc : Consistent s) (h : Int) (c m o : String) (st tp : Int)
    (v : Bool) (nc : Int) :
    ((postProof s h c m o st tp v nc).success = false ∧ (postProof s h c m o st tp v nc).state = s) ∨
    ((postProof s h c m o st tp v nc).success = true ∧
      ∃ f, AMap.get s.files (m, o, st) = some f ∧
        (((c, (m, o, st)) ∈ f.proofs ∧ ∃ p, AMap.get s.proofs (c, (m, o, st)) = some p ∧
            (postProof s h c m o st tp v nc).state =
              { s with proofs := AMap.set s.proofs (c, (m, o, st)) (renewed s h nc f p) }) ∨
         ((c, (m, o, st)) ∉ f.proofs ∧
            (postProof s h c m o st tp v nc).state =
              { s with files := AMap.set s.files (m, o, st) { f with proofs := f.proofs ++ [(c, (m, o, st))] },
                       files2 := AMap.set s.files2 (m, o, st) { f with proofs := f.proofs ++ [(c, (m, o, st))] },
                       proofs := AMap.set s.proofs (c, (m, o, st)) (freshProof s h nc c f) }))) := by
  rw [postProof_eq_spec]
  unfold postProofSpec
  cases hf : AMap.get s.files (m, o, st) with
  | none => exact Or.inl ⟨rfl, rfl⟩
  | some f =>
    have hk : f.key = (m, o, st) := hc.key _ _ hf
    dsimp only
    rw [hk]
    by_cases hl : (c, (m, o, st)) ∈ f.proofs
    · rw [if_pos hl]
      cases hp : AMap.get s.proofs (c, (m, o, st)) with
      | none => exact Or.inl ⟨rfl, rfl⟩
      | some p =>
        dsimp only
        split
        · exact Or.inr ⟨rfl, f, rfl, Or.inl ⟨hl, p, rfl, rfl⟩⟩
        · exact Or.inl ⟨rfl, rfl⟩
    · rw [if_neg hl]
      split
      · refine Or.inr ⟨rfl, f, rfl, Or.inr ⟨hl, ?_⟩⟩
        have hk' : File.key { f with proofs := f.proofs ++ [(c, (m, o, st))] } = (m, o, st) := hk
        simp only [setFile, hk']
      · exact Or.inl ⟨rfl, rfl⟩

/-- a `report` that succeeds without completing the quorum only rewrites its report form -/
theorem report_no_quorum {s s' : State} {cr pr m o : String} {st : Int}
    (hs : report s cr pr m o st = some s') (hq : ¬ reportQuorum s cr (pr, (m, o, st))) :
    s'.files = s.files ∧ s'.proofs = s.proofs := by
  simp only [report, bind, Option.bind_eq_some_iff, req_eq_some] at hs
  obtain ⟨form, hform, _, -, hs⟩ := hs
  split at hs
  · simp only [Option.some.injEq] at hs; subst hs
    exact ⟨rfl, rfl⟩
  · rename_i hcount
    exact absurd ⟨form, hform, hcount⟩ hq

/-! ### one delivered message, seen from the proof key `(c, k)` -/

/-- what a step that leaves the file at `k` and the record of `(c, k)` alone implies -/
theorem local_of_same {s s' : State} {c : String} {k : FKey} {h : Int}
    (hfk : AMap.get s'.files k = AMap.get s.files k)
    (hpk : AMap.get s'.proofs (c, k) = AMap.get s.proofs (c, k)) :
    (∀ f', AMap.get s'.files k = some f' → (c, k) ∈ f'.proofs →
      ∃ f, AMap.get s.files k = some f ∧ (c, k) ∈ f.proofs ∧ f'.proofInterval = f.proofInterval ∧
        (AMap.get s'.proofs (c, k) = AMap.get s.proofs (c, k) ∨
          ∃ p', AMap.get s'.proofs (c, k) = some p' ∧ p'.lastProven = h)) ∧
    (∀ f, AMap.get s.files k = some f → (c, k) ∈ f.proofs →
      ∃ f', AMap.get s'.files k = some f' ∧ (c, k) ∈ f'.proofs ∧ f'.proofInterval = f.proofInterval) :=
  ⟨fun f' hf' hin => ⟨f', hfk ▸ hf', hin, rfl, Or.inl hpk⟩,
   fun f hf hin => ⟨f, hfk.symm ▸ hf, hin, rfl⟩⟩

/-- **One delivered message and the proof key `(c, k)`** (`s` before, `s'` after, height `h`).
1. If the message is an accepted proof of `c` for `k`, the record of `(c, k)` exists afterwards with
   `lastProven = h`.
2. If `(c, k)` is listed afterwards then either the message is such an accepted proof, or `(c, k)`
   was listed before (same proof interval) and its record is untouched or rewritten with
   `lastProven = h` (an attestation quorum).
3. If `(c, k)` was listed before and the message is none of `removesOtherwise`, it is listed
   afterwards (same proof interval). -/
def StepLocal (s s' : State) (h now : Int) (op : Op) (c : String) (k : FKey) : Prop :=
    (∀ x, acceptedAt c k (s, .msg h now op) = some x →
      x = h ∧ ∃ p', AMap.get s'.proofs (c, k) = some p' ∧ p'.lastProven = h) ∧
    (∀ f', AMap.get s'.files k = some f' → (c, k) ∈ f'.proofs →
      acceptedAt c k (s, .msg h now op) = some h ∨
      ∃ f, AMap.get s.files k = some f ∧ (c, k) ∈ f.proofs ∧ f'.proofInterval = f.proofInterval ∧
        (AMap.get s'.proofs (c, k) = AMap.get s.proofs (c, k) ∨
          ∃ p', AMap.get s'.proofs (c, k) = some p' ∧ p'.lastProven = h)) ∧
    (∀ f, AMap.get s.files k = some f → (c, k) ∈ f.proofs →
      ¬ removesOtherwise c k s (.msg h now op) →
      ∃ f', AMap.get s'.files k = some f' ∧ (c, k) ∈ f'.proofs ∧ f'.proofInterval = f.proofInterval)

/-- a message that is not an accepted proof of `c` for `k` and touches neither store entry -/
theorem StepLocal.same {s s' : State} {h now : Int} {op : Op} {c : String} {k : FKey}
    (hacc : ∀ x, acceptedAt c k (s, .msg h now op) = some x → False)
    (hfk : AMap.get s'.files k = AMap.get s.files k)
    (hpk : AMap.get s'.proofs (c, k) = AMap.get s.proofs (c, k)) : StepLocal s s' h now op c k :=
  ⟨fun x hx => (hacc x hx).elim,
   fun f' hf' hin => Or.inr ((local_of_same (h := h) hfk hpk).1 f' hf' hin),
   fun f hf hin _ => (local_of_same (h := h) hfk hpk).2 f hf hin⟩

theorem step_local {s s' : State} {h now : Int} {op : Op} (hc : Consistent s)
    (hs : step s h now op = some s') (c : String) (k : FKey) : StepLocal s s' h now op c k := by
  by_cases hop : op.isStoreOp = false
  · have e := step_sameStore hop hs
    apply StepLocal.same
    · intro x hx
      cases op <;> simp [Op.isStoreOp] at hop <;> simp [acceptedAt] at hx
    · rw [e.files]
    · rw [e.proofs]
  cases op <;> simp only [Op.isStoreOp, not_true_eq_false] at hop <;> simp only [step] at hs
  case postFile cr m fs mp ex pt note nv jp gid gacc =>
    obtain ⟨e1, _, e3, -⟩ := postFile_frame hs
    by_cases hk : k = (m, cr, h)
    · subst hk
      refine ⟨fun x hx => by simp [acceptedAt] at hx, ?_, ?_⟩
      · intro f' hf' hin
        rw [e1, AMap.get_set_self] at hf'
        cases hf'
        simp [newFile] at hin
      · intro f _ _ hno
        exact absurd rfl hno
    · apply StepLocal.same
      · intro x hx; simp [acceptedAt] at hx
      · rw [e1, AMap.get_set_other _ _ _ _ (fun e => hk e.symm), removeFile_files_other _ _ _ hk]
      · rw [e3, removeFile_proofs_other hc _ _ hk]
  case deleteFile cr m st =>
    simp only [Option.some.injEq] at hs; subst hs
    by_cases hk : k = (m, cr, st)
    · subst hk
      refine ⟨fun x hx => by simp [acceptedAt] at hx, ?_, ?_⟩
      · intro f' hf' hin
        simp only [deleteFile] at hf'
        rw [removeFile_files_get] at hf'
        simp at hf'
      · intro f _ _ hno
        exact absurd rfl hno
    · apply StepLocal.same
      · intro x hx; simp [acceptedAt] at hx
      · exact removeFile_files_other _ _ _ hk
      · exact removeFile_proofs_other hc _ _ hk
  case postProof c' m o st tp v nc =>
    simp only [Option.some.injEq] at hs; subst hs
    rcases postProof_cases hc h c' m o st tp v nc with ⟨hfail, est⟩ | ⟨hsucc, f0, hf0, hcase⟩
    · rw [est]
      apply StepLocal.same
      · intro x hx
        simp [acceptedAt, hfail] at hx
      · rfl
      · rfl
    · by_cases hme : c' = c ∧ (m, o, st) = k
      · obtain ⟨hc', hk⟩ := hme
        subst hc'; subst hk
        have hacc : acceptedAt c' (m, o, st) (s, .msg h now (.postProof c' m o st tp v nc)) = some h := by
          simp [acceptedAt, hsucc]
        have hrec : ∃ p', AMap.get (postProof s h c' m o st tp v nc).state.proofs (c', (m, o, st)) = some p' ∧
            p'.lastProven = h := by
          rcases hcase with ⟨_, p, _, est⟩ | ⟨_, est⟩
          · rw [est]; exact ⟨_, AMap.get_set_self _ _ _, rfl⟩
          · rw [est]; exact ⟨_, AMap.get_set_self _ _ _, rfl⟩
        refine ⟨?_, fun _ _ _ => Or.inl hacc, ?_⟩
        · intro x hx
          rw [hacc] at hx; cases hx
          exact ⟨rfl, hrec⟩
        · intro f hf hin _
          rw [hf0] at hf; cases hf
          rcases hcase with ⟨_, p, _, est⟩ | ⟨hnl, _⟩
          · rw [est]; exact ⟨_, hf0, hin, rfl⟩
          · exact absurd hin hnl
      · have hnacc : ∀ x, acceptedAt c k (s, .msg h now (.postProof c' m o st tp v nc)) = some x → False := by
          intro x hx
          simp only [acceptedAt] at hx
          split at hx
          · rename_i hh; exact hme ⟨hh.1, hh.2.1⟩
          · cases hx
        have hpk : (c', (m, o, st)) ≠ (c, k) := by
          intro e; cases e; exact hme ⟨rfl, rfl⟩
        rcases hcase with ⟨_, p, _, est⟩ | ⟨hnl, est⟩
        · rw [est]
          refine StepLocal.same hnacc ?_ ?_
          · rfl
          · exact AMap.get_set_other _ _ _ _ hpk
        · rw [est]
          have hprf : AMap.get (AMap.set s.proofs (c', (m, o, st)) (freshProof s h nc c' f0)) (c, k) =
              AMap.get s.proofs (c, k) := AMap.get_set_other _ _ _ _ hpk
          by_cases hk : k = (m, o, st)
          · subst hk
            refine ⟨fun x hx => (hnacc x hx).elim, ?_, ?_⟩
            · intro f' hf' hin
              change AMap.get (AMap.set s.files _ _) _ = some f' at hf'
              rw [AMap.get_set_self] at hf'
              cases hf'
              simp only [List.mem_append, List.mem_singleton] at hin
              rcases hin with hin | hin
              · exact Or.inr ⟨f0, hf0, hin, rfl, Or.inl hprf⟩
              · exact absurd hin.symm hpk
            · intro f hf hin _
              rw [hf0] at hf; cases hf
              exact ⟨{ f0 with proofs := f0.proofs ++ [(c', (m, o, st))] }, AMap.get_set_self _ _ _,
                List.mem_append_left _ hin, rfl⟩
          · apply StepLocal.same hnacc
            · exact AMap.get_set_other _ _ _ _ (fun e => hk e.symm)
            · exact hprf
  case requestAttest cr m o st ec ch =>
    obtain ⟨e1, _, e3, -⟩ := step_requestAttest (h := h) (now := now) hs
    apply StepLocal.same
    · intro x hx; simp [acceptedAt] at hx
    · rw [e1]
    · rw [e3]
  case attest cr pr m o st =>
    simp only [Option.some.injEq] at hs; subst hs
    obtain ⟨e1, _, _, _, hcase⟩ := attest_cases s h cr pr m o st
    have hnacc : ∀ x, acceptedAt c k (s, .msg h now (.attest cr pr m o st)) = some x → False := by
      intro x hx; simp [acceptedAt] at hx
    rcases hcase with ⟨e3, _⟩ | ⟨fm0, f, p0, _, _, _, hp0, e3, _⟩
    · apply StepLocal.same hnacc
      · rw [e1]
      · rw [e3]
    · by_cases hpk : (fm0.prover, f.key) = (c, k)
      · refine ⟨fun x hx => (hnacc x hx).elim, ?_, ?_⟩
        · intro f' hf' hin
          rw [e1] at hf'
          refine Or.inr ⟨f', hf', hin, rfl, Or.inr ⟨{ p0 with lastProven := h }, ?_, rfl⟩⟩
          rw [e3, hpk]; exact AMap.get_set_self _ _ _
        · intro f1 hf1 hin _
          exact ⟨f1, by rw [e1]; exact hf1, hin, rfl⟩
      · apply StepLocal.same hnacc
        · rw [e1]
        · rw [e3]; exact AMap.get_set_other _ _ _ _ hpk
  case requestReport cr pr m o st ec ch =>
    obtain ⟨e1, _, e3, -⟩ := step_requestReport (h := h) (now := now) (c := cr) hs
    apply StepLocal.same
    · intro x hx; simp [acceptedAt] at hx
    · rw [e1]
    · rw [e3]
  case report cr pr m o st =>
    have hnacc : ∀ x, acceptedAt c k (s, .msg h now (.report cr pr m o st)) = some x → False := by
      intro x hx; simp [acceptedAt] at hx
    rcases report_cases hs with ⟨e1, _, e3, _⟩ | ⟨f0, hf0, e⟩
    · apply StepLocal.same hnacc
      · rw [e1]
      · rw [e3]
    · have hk0 : f0.key = (m, o, st) := hc.key _ _ hf0
      obtain ⟨_, _, _, hcase⟩ := removeProver_cases
        { s with reports := AMap.erase s.reports (pr, (m, o, st)) } f0 (pr, f0.key)
      rcases hcase with ⟨_, e2⟩ | ⟨_, _, f1, _, f3⟩
      · rw [e, e2]
        exact StepLocal.same hnacc rfl rfl
      · rw [hk0] at e f1 f3
        have ef : s'.files = AMap.set s.files (m, o, st)
            { f0 with proofs := f0.proofs.filter (· ≠ (pr, (m, o, st))) } := by rw [e]; exact f1
        have ep : s'.proofs = AMap.erase s.proofs (pr, (m, o, st)) := by rw [e]; exact f3
        by_cases hpk : (pr, (m, o, st)) = (c, k)
        · cases hpk
          refine ⟨fun x hx => (hnacc x hx).elim, ?_, ?_⟩
          · intro f' hf' hin
            rw [ef, AMap.get_set_self] at hf'
            cases hf'
            simp at hin
          · intro f hf hin hno
            -- the report completed its quorum: excluded
            exfalso
            apply hno
            refine ⟨rfl, rfl, ?_⟩
            apply Classical.byContradiction
            intro hq
            obtain ⟨q1, _⟩ := report_no_quorum hs hq
            rw [ef] at q1
            have := congrArg (fun fs => AMap.get fs (m, o, st)) q1
            simp only [AMap.get_set_self] at this
            rw [hf] at this
            cases this
            simp at hin
        · have hprf : AMap.get s'.proofs (c, k) = AMap.get s.proofs (c, k) := by
            rw [ep]; exact AMap.get_erase_other _ _ _ hpk
          by_cases hk : k = (m, o, st)
          · subst hk
            refine ⟨fun x hx => (hnacc x hx).elim, ?_, ?_⟩
            · intro f' hf' hin
              rw [ef, AMap.get_set_self] at hf'
              cases hf'
              exact Or.inr ⟨f0, hf0, (List.mem_filter.mp hin).1, rfl, Or.inl hprf⟩
            · intro f hf hin _
              rw [hf0] at hf; cases hf
              refine ⟨{ f0 with proofs := f0.proofs.filter (· ≠ (pr, (m, o, st))) },
                by rw [ef]; exact AMap.get_set_self _ _ _, ?_, rfl⟩
              have hne : (c, (m, o, st)) ≠ (pr, (m, o, st)) := fun e => hpk e.symm
              exact List.mem_filter.mpr ⟨hin, decide_eq_true hne⟩
          · apply StepLocal.same hnacc
            · rw [ef]; exact AMap.get_set_other _ _ _ _ (fun e => hk e.symm)
            · exact hprf

/-! ### one begin-blocker, seen from a proof key -/

/-- the begin-blocker at height `h` runs the reward block (`beginBlock`: `h % checkWindow` is not
positive — for the non-negative heights of a chain: `h` is a multiple of the check window) -/
def rewardHeight (s : State) (h : Int) : Prop := ¬ Int.tmod h s.params.checkWindow > 0

theorem beginBlock_cases {s s' : State} {h now : Int} (hb : beginBlock s h now = .ok s') :
    (¬ rewardHeight s h ∧ s' = s) ∨ (rewardHeight s h ∧ manageRewards s h now = .ok s') := by
  unfold beginBlock at hb
  split at hb
  · cases hb
  split at hb
  · rename_i hpos
    cases hb
    exact Or.inl ⟨fun hn => hn hpos, rfl⟩
  · rename_i hpos
    exact Or.inr ⟨hpos, hb⟩

/-- the begin-blocker never lists anybody: a proof key listed afterwards was listed before, in the
same file (same proof interval) -/
theorem block_back {s s' : State} {h now : Int} (hc : Consistent s)
    (hb : beginBlock s h now = .ok s') (k : FKey) (f' : File) (pk : PKey)
    (hf' : AMap.get s'.files k = some f') (hin : pk ∈ f'.proofs) :
    ∃ f, AMap.get s.files k = some f ∧ pk ∈ f.proofs ∧ f'.proofInterval = f.proofInterval := by
  rcases beginBlock_cases hb with ⟨_, e⟩ | ⟨_, hm⟩
  · subst e; exact ⟨f', hf', hin, rfl⟩
  · obtain ⟨inv, rel, _⟩ := manageRewards_out hc hm
    rw [rel.files] at hf'
    obtain ⟨f, hf, hsh⟩ := inv.shrinks k f' hf'
    refine ⟨f, hf, hsh.2.subset hin, ?_⟩
    rw [hsh.1]

/-- a proof key that passes the window test (or whose file is young) whenever the begin-blocker runs
the reward block is still listed afterwards, in the same file, and its record is untouched -/
theorem block_keeps_recent {s s' : State} {h now : Int} (hc : Consistent s)
    (hb : beginBlock s h now = .ok s') (k : FKey) (f : File) (pk : PKey)
    (hf : AMap.get s.files k = some f) (hpk : pk ∈ f.proofs)
    (hr : rewardHeight s h → Recent s h f pk) :
    AMap.get s'.proofs pk = AMap.get s.proofs pk ∧
    ∃ f', AMap.get s'.files k = some f' ∧ pk ∈ f'.proofs ∧ f'.proofInterval = f.proofInterval := by
  rcases beginBlock_cases hb with ⟨_, e⟩ | ⟨hrh, hm⟩
  · subst e; exact ⟨rfl, f, hf, hpk, rfl⟩
  · obtain ⟨inv, rel, _⟩ := manageRewards_out hc hm
    obtain ⟨e, f', hf', hin⟩ := (filesLoop_keep s h hc).provers k f pk hf hpk (hr hrh)
    refine ⟨by rw [rel.proofs]; exact e, f', by rw [rel.files]; exact hf', hin, ?_⟩
    obtain ⟨f2, hf2, hsh⟩ := inv.shrinks k f' hf'
    rw [hf] at hf2; cases hf2
    rw [hsh.1]

/-- a provider all of whose listed proof keys pass the window test (or are on young files) whenever
the begin-blocker runs the reward block keeps its provider record, burn counter included -/
theorem block_keeps_provider {s s' : State} {h now : Int} (hc : Consistent s)
    (hb : beginBlock s h now = .ok s') (x : String)
    (hx : rewardHeight s h → HonestProvider s h x) :
    AMap.get s'.providers x = AMap.get s.providers x := by
  rcases beginBlock_cases hb with ⟨_, e⟩ | ⟨hrh, hm⟩
  · subst e; rfl
  · obtain ⟨_, rel, _⟩ := manageRewards_out hc hm
    rw [rel.providers]
    exact (filesLoop_keep s h hc).providers x (hx hrh)

theorem applyEvent_block {s s' : State} {h now : Int}
    (hs : applyEvent s (.block h now) = some s') : beginBlock s h now = .ok s' := by
  simp only [applyEvent] at hs
  split at hs
  · rename_i s2 hb; cases hs; exact hb
  · cases hs

theorem consistent_event {s s' : State} {e : Event} (hc : Consistent s)
    (hs : applyEvent s e = some s') : Consistent s' :=
  consistent_run [e] s s' hc (by simp [List.foldlM_cons, hs])

/-! ### the two invariants, one event at a time -/

/-- if `(c, k)` is listed then its record exists and its `lastProven` is at least every height in
`A` (the accepted heights so far), of which there is at least one -/
def CondHeld (c : String) (k : FKey) (s : State) (A : List Int) : Prop :=
  ∀ f, AMap.get s.files k = some f → (c, k) ∈ f.proofs →
    A ≠ [] ∧ ∃ p, AMap.get s.proofs (c, k) = some p ∧ ∀ x ∈ A, x ≤ p.lastProven

/-- `(c, k)` is listed on the file stored at `k`, whose proof interval is `W`, its record exists and
its `lastProven` is at least every height in `A` -/
def Held (c : String) (k : FKey) (W : Int) (s : State) (A : List Int) : Prop :=
  ∃ f p, AMap.get s.files k = some f ∧ (c, k) ∈ f.proofs ∧ f.proofInterval = W ∧
    AMap.get s.proofs (c, k) = some p ∧ ∀ x ∈ A, x ≤ p.lastProven

theorem Held.cond {c : String} {k : FKey} {W : Int} {s : State} {A : List Int}
    (h : Held c k W s A) (hne : A ≠ []) : CondHeld c k s A := by
  obtain ⟨f, p, _, _, _, hp, hb⟩ := h
  intro _ _ _
  exact ⟨hne, p, hp, hb⟩

/-- the window test as the reward block applies it to the file stored at `k` and a `lastProven` -/
def WindowOK (h : Int) (f : File) (lp : Int) : Prop :=
  isYoung h f.start f.proofInterval = true ∨ provenLastBlock h f.start f.proofInterval lp = true

theorem condHeld_event {s s' : State} {e : Event} (hc : Consistent s)
    (hs : applyEvent s e = some s') (c : String) (k : FKey) (A : List Int)
    (inv : CondHeld c k s A)
    (hA : ∀ h, e.height = some h → ∀ x ∈ A, x ≤ h)
    (hblock : ∀ h now, e = .block h now → rewardHeight s h →
      ∀ f p, AMap.get s.files k = some f → (c, k) ∈ f.proofs → AMap.get s.proofs (c, k) = some p →
        A ≠ [] → (∀ x ∈ A, x ≤ p.lastProven) → WindowOK h f p.lastProven) :
    CondHeld c k s' (A ++ (acceptedAt c k (s, e)).toList) := by
  cases e with
  | msg h now op =>
    simp only [applyEvent] at hs
    obtain ⟨hacc, hback, _⟩ := step_local hc hs c k
    have hAh := hA h rfl
    intro f' hf' hin
    cases ha : acceptedAt c k (s, .msg h now op) with
    | some x =>
      obtain ⟨hx, p', hp', hlp⟩ := hacc x ha
      subst hx
      refine ⟨by simp, p', hp', ?_⟩
      intro y hy
      simp only [Option.toList, List.mem_append, List.mem_singleton] at hy
      rw [hlp]
      rcases hy with hy | hy
      · exact hAh y hy
      · rw [hy]; exact Int.le_refl _
    | none =>
      rcases hback f' hf' hin with hacc' | ⟨f, hf, hl, _, hrec⟩
      · rw [ha] at hacc'; cases hacc'
      · obtain ⟨hne, p, hp, hb⟩ := inv f hf hl
        simp only [Option.toList, List.append_nil]
        refine ⟨hne, ?_⟩
        rcases hrec with e | ⟨p', hp', hlp⟩
        · exact ⟨p, by rw [e]; exact hp, hb⟩
        · exact ⟨p', hp', fun y hy => by rw [hlp]; exact hAh y hy⟩
  | block h now =>
    have hb := applyEvent_block hs
    have ha : acceptedAt c k (s, .block h now) = none := rfl
    rw [ha]
    simp only [Option.toList, List.append_nil]
    intro f' hf' hin
    obtain ⟨f, hf, hl, _⟩ := block_back hc hb k f' (c, k) hf' hin
    obtain ⟨hne, p, hp, hbd⟩ := inv f hf hl
    have hrec := (block_keeps_recent hc hb k f (c, k) hf hl
      (fun hrh => ⟨p, hp, hblock h now rfl hrh f p hf hl hp hne hbd⟩)).1
    exact ⟨hne, p, by rw [hrec]; exact hp, hbd⟩
  | setParams q =>
    simp only [applyEvent, Option.some.injEq] at hs
    subst hs
    have ha : acceptedAt c k (s, .setParams q) = none := rfl
    rw [ha]
    simp only [Option.toList, List.append_nil]
    exact inv

theorem held_event {s s' : State} {e : Event} (hc : Consistent s)
    (hs : applyEvent s e = some s') (c : String) (k : FKey) (W : Int) (A : List Int)
    (inv : Held c k W s A) (hne : A ≠ [])
    (hA : ∀ h, e.height = some h → ∀ x ∈ A, x ≤ h)
    (hno : ¬ removesOtherwise c k s e)
    (hblock : ∀ h now, e = .block h now → rewardHeight s h →
      ∀ f p, AMap.get s.files k = some f → AMap.get s.proofs (c, k) = some p →
        (∀ x ∈ A, x ≤ p.lastProven) → WindowOK h f p.lastProven) :
    Held c k W s' (A ++ (acceptedAt c k (s, e)).toList) := by
  have hcond := condHeld_event hc hs c k A (inv.cond hne) hA
    (fun h now he hrh f p hf _ hp _ hb => hblock h now he hrh f p hf hp hb)
  obtain ⟨f, p, hf, hl, hW, hp, hb⟩ := inv
  have fwd : ∃ f', AMap.get s'.files k = some f' ∧ (c, k) ∈ f'.proofs ∧
      f'.proofInterval = f.proofInterval := by
    cases e with
    | msg h now op =>
      simp only [applyEvent] at hs
      exact (step_local hc hs c k).2.2 f hf hl hno
    | block h now =>
      have hbb := applyEvent_block hs
      exact (block_keeps_recent hc hbb k f (c, k) hf hl
        (fun hrh => ⟨p, hp, hblock h now rfl hrh f p hf hp hb⟩)).2
    | setParams q =>
      simp only [applyEvent, Option.some.injEq] at hs
      subst hs
      exact ⟨f, hf, hl, rfl⟩
  obtain ⟨f', hf', hl', hW'⟩ := fwd
  obtain ⟨_, p', hp', hb'⟩ := hcond f' hf' hl'
  exact ⟨f', p', hf', hl', hW'.trans hW, hp', hb'⟩

/-! ### traces -/

theorem trace_cons {s s1 : State} {e : Event} (evs : List Event) (h1 : applyEvent s e = some s1) :
    runTrace s (e :: evs) = (s, e) :: runTrace s1 evs := by
  simp only [runTrace, h1]

/-- induction along a run: an invariant of (current state, trace so far) that holds at the start and
is preserved by every event of the run holds at the end and before every event -/
theorem trace_induct : ∀ (evs : List Event) (Q : State → List (State × Event) → Prop) (s0 s' : State),
    evs.foldlM applyEvent s0 = some s' → Q s0 [] →
    (∀ pre s e post s1, runTrace s0 evs = pre ++ (s, e) :: post → applyEvent s e = some s1 →
      Q s pre → Q s1 (pre ++ [(s, e)])) →
    Q s' (runTrace s0 evs) ∧ ∀ pre s e post, runTrace s0 evs = pre ++ (s, e) :: post → Q s pre := by
  intro evs
  induction evs with
  | nil =>
    intro Q s0 s' hrun h0 _
    simp only [List.foldlM_nil, pure, Option.some.injEq] at hrun
    subst hrun
    refine ⟨h0, ?_⟩
    intro pre s e post hsplit
    simp [runTrace] at hsplit
  | cons e evs ih =>
    intro Q s0 s' hrun h0 hstep
    simp only [List.foldlM_cons, bind, Option.bind_eq_some_iff] at hrun
    obtain ⟨s1, h1, h2⟩ := hrun
    have htr := trace_cons evs h1
    rw [htr] at hstep ⊢
    have h0' : Q s1 [(s0, e)] := hstep [] s0 e (runTrace s1 evs) s1 rfl h1 h0
    obtain ⟨r1, r2⟩ := ih (fun s pre => Q s ((s0, e) :: pre)) s1 s' h2 h0'
      (fun pre s e' post s2 hsplit hs hq =>
        hstep ((s0, e) :: pre) s e' post s2 (by rw [hsplit]; rfl) hs hq)
    refine ⟨r1, ?_⟩
    intro pre s e' post hsplit
    cases pre with
    | nil =>
      simp only [List.nil_append, List.cons.injEq, Prod.mk.injEq] at hsplit
      obtain ⟨⟨e1, _⟩, _⟩ := hsplit
      rw [← e1]; exact h0
    | cons x pre' =>
      simp only [List.cons_append, List.cons.injEq] at hsplit
      obtain ⟨e1, e2⟩ := hsplit
      rw [← e1]
      exact r2 pre' s e' post e2

/-- the events of the trace of a run that went through are the events of the run -/
theorem trace_events : ∀ (evs : List Event) (s0 s' : State), evs.foldlM applyEvent s0 = some s' →
    (runTrace s0 evs).map Prod.snd = evs := by
  intro evs
  induction evs with
  | nil => intro s0 s' _; rfl
  | cons e evs ih =>
    intro s0 s' hrun
    simp only [List.foldlM_cons, bind, Option.bind_eq_some_iff] at hrun
    obtain ⟨s1, h1, h2⟩ := hrun
    rw [trace_cons evs h1, List.map_cons, ih s1 s' h2]

theorem acceptedAt_height {c : String} {k : FKey} {se : State × Event} {x : Int}
    (h : acceptedAt c k se = some x) : se.2.height = some x := by
  obtain ⟨s, e⟩ := se
  cases e with
  | msg h1 now op =>
    cases op <;> simp [acceptedAt] at h
    obtain ⟨_, e⟩ := h
    rw [← e]; rfl
  | block h1 now => simp [acceptedAt] at h
  | setParams q => simp [acceptedAt] at h

theorem acceptedIn_append (c : String) (k : FKey) (a b : List (State × Event)) :
    acceptedIn c k (a ++ b) = acceptedIn c k a ++ acceptedIn c k b := by
  simp [acceptedIn, List.filterMap_append]

theorem acceptedIn_single (c : String) (k : FKey) (se : State × Event) :
    acceptedIn c k [se] = (acceptedAt c k se).toList := by
  simp only [acceptedIn, List.filterMap_cons, List.filterMap_nil]
  cases acceptedAt c k se <;> rfl

/-- with non-decreasing heights, every accepted height before an event is at most that event's
height -/
theorem accepted_le_of_split {evs : List Event} {s0 s' : State}
    (hrun : evs.foldlM applyEvent s0 = some s')
    (hmono : (evs.filterMap Event.height).Pairwise (· ≤ ·))
    {pre post : List (State × Event)} {s : State} {e : Event}
    (hsplit : runTrace s0 evs = pre ++ (s, e) :: post) (c : String) (k : FKey) (h : Int)
    (he : e.height = some h) : ∀ x ∈ acceptedIn c k pre, x ≤ h := by
  intro x hx
  have hev := trace_events evs s0 s' hrun
  rw [hsplit, List.map_append, List.map_cons] at hev
  rw [← hev, List.filterMap_append, List.filterMap_cons, he] at hmono
  have := (List.pairwise_append.mp hmono).2.2
  apply this x _ h List.mem_cons_self
  simp only [acceptedIn, List.mem_filterMap] at hx
  obtain ⟨se, hse, hacc⟩ := hx
  exact List.mem_filterMap.mpr ⟨se.2, List.mem_map_of_mem hse, acceptedAt_height hacc⟩

theorem event_mem_of_split {evs : List Event} {s0 s' : State}
    (hrun : evs.foldlM applyEvent s0 = some s')
    {pre post : List (State × Event)} {s : State} {e : Event}
    (hsplit : runTrace s0 evs = pre ++ (s, e) :: post) : e ∈ evs := by
  have hev := trace_events evs s0 s' hrun
  rw [hsplit, List.map_append, List.map_cons] at hev
  rw [← hev]
  simp

/-! ### the invariants along a run -/

/-- every state of a run: the state before each event, and the final state -/
def runStates (s0 : State) (evs : List Event) (s' : State) : List State :=
  (runTrace s0 evs).map Prod.fst ++ [s']

theorem runStates_cases {s0 s' s : State} {evs : List Event} (h : s ∈ runStates s0 evs s') :
    s = s' ∨ ∃ pre e post, runTrace s0 evs = pre ++ (s, e) :: post := by
  simp only [runStates, List.mem_append, List.mem_map, List.mem_singleton] at h
  rcases h with ⟨se, hse, e⟩ | h
  · obtain ⟨pre, post, hsplit⟩ := List.append_of_mem hse
    obtain ⟨s1, e1⟩ := se
    simp only at e; subst e
    exact Or.inr ⟨pre, e1, post, hsplit⟩
  · exact Or.inl h

/-- **One file, along a run.**  `(c, k)` is listed with a record in a consistent state; the run goes
through, heights do not decrease (and are at least the heights `A0` known at the start), no event
of `removesOtherwise` occurs, and at every reward block the window test holds for every `lastProven`
that dominates `A0` and the heights accepted before that block.  Then `(c, k)` is listed with a
record before every event and at the end, and its `lastProven` dominates the accepted heights. -/
theorem held_run (c : String) (k : FKey) (W : Int) (evs : List Event) (s0 s' : State) (A0 : List Int)
    (hc : Consistent s0) (h0 : Held c k W s0 A0) (hne : A0 ≠ [])
    (hrun : evs.foldlM applyEvent s0 = some s')
    (hmono : (evs.filterMap Event.height).Pairwise (· ≤ ·))
    (hA0 : ∀ x ∈ A0, ∀ h ∈ evs.filterMap Event.height, x ≤ h)
    (hno : ∀ se ∈ runTrace s0 evs, ¬ removesOtherwise c k se.1 se.2)
    (hwin : ∀ pre s h now post, runTrace s0 evs = pre ++ (s, .block h now) :: post → rewardHeight s h →
      Consistent s → ∀ f, AMap.get s.files k = some f → f.proofInterval = W →
        ∀ lp, (∀ x ∈ A0 ++ acceptedIn c k pre, x ≤ lp) → WindowOK h f lp) :
    (Consistent s' ∧ Held c k W s' (A0 ++ acceptedIn c k (runTrace s0 evs))) ∧
    ∀ pre s e post, runTrace s0 evs = pre ++ (s, e) :: post →
      Consistent s ∧ Held c k W s (A0 ++ acceptedIn c k pre) := by
  apply trace_induct evs (fun s pre => Consistent s ∧ Held c k W s (A0 ++ acceptedIn c k pre)) s0 s' hrun
  · refine ⟨hc, ?_⟩
    simpa [acceptedIn] using h0
  · intro pre s e post s1 hsplit hs ⟨hcs, hheld⟩
    refine ⟨consistent_event hcs hs, ?_⟩
    rw [acceptedIn_append, acceptedIn_single, ← List.append_assoc]
    apply held_event hcs hs c k W _ hheld
    · intro e0
      exact hne (List.append_eq_nil_iff.mp e0).1
    · intro h he x hx
      rcases List.mem_append.mp hx with hx | hx
      · apply hA0 x hx h
        exact List.mem_filterMap.mpr ⟨e, event_mem_of_split hrun hsplit, he⟩
      · exact accepted_le_of_split hrun hmono hsplit c k h he x hx
    · apply hno (s, e)
      rw [hsplit]; simp
    · intro h now he hrh f p hf hp hb
      subst he
      obtain ⟨f1, _, hf1, _, hW1, _, _⟩ := hheld
      rw [hf] at hf1; cases hf1
      exact hwin pre s h now post hsplit hrh hcs f hf hW1 p.lastProven hb

/-- **Every file of a prover, along a run.**  For every file key: if `c` is listed there, its record
exists and dominates the accepted heights — provided that at every reward block the window test
holds, for every file `c` is then listed on, for every `lastProven` that dominates the accepted
heights so far.  No exclusion of other removals is needed: a prover that is taken off a file is no
longer judged on it. -/
theorem condHeld_run (c : String) (evs : List Event) (s0 s' : State) (A0 : FKey → List Int)
    (hc : Consistent s0) (h0 : ∀ k, CondHeld c k s0 (A0 k))
    (hrun : evs.foldlM applyEvent s0 = some s')
    (hmono : (evs.filterMap Event.height).Pairwise (· ≤ ·))
    (hA0 : ∀ k, ∀ x ∈ A0 k, ∀ h ∈ evs.filterMap Event.height, x ≤ h)
    (hwin : ∀ pre s h now post, runTrace s0 evs = pre ++ (s, .block h now) :: post → rewardHeight s h →
      Consistent s → ∀ k f, AMap.get s.files k = some f → (c, k) ∈ f.proofs →
        ∀ lp, A0 k ++ acceptedIn c k pre ≠ [] → (∀ x ∈ A0 k ++ acceptedIn c k pre, x ≤ lp) →
          WindowOK h f lp) :
    (Consistent s' ∧ ∀ k, CondHeld c k s' (A0 k ++ acceptedIn c k (runTrace s0 evs))) ∧
    ∀ pre s e post, runTrace s0 evs = pre ++ (s, e) :: post →
      Consistent s ∧ ∀ k, CondHeld c k s (A0 k ++ acceptedIn c k pre) := by
  apply trace_induct evs
    (fun s pre => Consistent s ∧ ∀ k, CondHeld c k s (A0 k ++ acceptedIn c k pre)) s0 s' hrun
  · refine ⟨hc, fun k => ?_⟩
    simpa [acceptedIn] using h0 k
  · intro pre s e post s1 hsplit hs ⟨hcs, hheld⟩
    refine ⟨consistent_event hcs hs, fun k => ?_⟩
    rw [acceptedIn_append, acceptedIn_single, ← List.append_assoc]
    apply condHeld_event hcs hs c k _ (hheld k)
    · intro h he x hx
      rcases List.mem_append.mp hx with hx | hx
      · apply hA0 k x hx h
        exact List.mem_filterMap.mpr ⟨e, event_mem_of_split hrun hsplit, he⟩
      · exact accepted_le_of_split hrun hmono hsplit c k h he x hx
    · intro h now he hrh f p hf hl _ hne hb
      subst he
      exact hwin pre s h now post hsplit hrh hcs k f hf hl p.lastProven hne hb

/-- from the conditional invariant of every file to `HonestProvider` at a reward block -/
theorem honestProvider_of_condHeld {s : State} (hc : Consistent s) (c : String) (h : Int)
    (A : FKey → List Int) (inv : ∀ k, CondHeld c k s (A k))
    (hwin : ∀ k f, AMap.get s.files k = some f → (c, k) ∈ f.proofs →
      ∀ lp, A k ≠ [] → (∀ x ∈ A k, x ≤ lp) → WindowOK h f lp) :
    HonestProvider s h c := by
  intro k f hf pk hpk hpc
  have hk : pk.2 = k := hc.listed k f hf pk hpk
  have e : pk = (c, k) := by
    obtain ⟨a, b⟩ := pk
    simp only at hpc hk
    rw [hpc, hk]
  subst e
  obtain ⟨hne, p, hp, hb⟩ := inv k f hf hpk
  exact ⟨p, hp, hwin k f hf hpk p.lastProven hne hb⟩

/-! ### hypotheses quantified over the splits of a trace, in checkable form -/

/-- `P pre x` for every element `x` of the list with the elements `pre` before it -/
def ForallSplits {α : Type} (P : List α → α → Prop) : List α → List α → Prop
  | _, [] => True
  | acc, x :: rest => P acc x ∧ ForallSplits P (acc ++ [x]) rest

theorem forallSplits_imp {α : Type} (P : List α → α → Prop) :
    ∀ (l acc : List α), ForallSplits P acc l →
      ∀ pre x post, l = pre ++ x :: post → P (acc ++ pre) x := by
  intro l
  induction l with
  | nil => intro acc _ pre x post h; simp at h
  | cons y rest ih =>
    intro acc hfs pre x post h
    obtain ⟨h1, h2⟩ := hfs
    cases pre with
    | nil =>
      simp only [List.nil_append, List.cons.injEq] at h
      rw [← h.1, List.append_nil]; exact h1
    | cons z pre' =>
      simp only [List.cons_append, List.cons.injEq] at h
      have := ih (acc ++ [y]) h2 pre' x post h.2
      rw [List.append_assoc] at this
      rw [← h.1]; exact this

/-! ### the burn counter and the messages -/

/-- the messages that create or delete the provider record of `c` (`initProvider` starts the burn
counter at 0, `shutdownProvider` deletes the record); every other message keeps the counter -/
def touchesProviderRecord (c : String) : Event → Prop
  | .msg _ _ (.initProvider cr _ _ _ _) => cr = c
  | .msg _ _ (.shutdownProvider cr) => cr = c
  | _ => False

theorem updProvider_burned {s s' : State} {cr : String} {f : Provider → Option Provider}
    (hs : updProvider s cr f = some s') (hf : ∀ p p', f p = some p' → p'.burned = p.burned)
    (c : String) :
    (AMap.get s'.providers c).map (·.burned) = (AMap.get s.providers c).map (·.burned) := by
  simp only [updProvider, bind, Option.bind_eq_some_iff] at hs
  obtain ⟨p, hp, p', hp', hs⟩ := hs
  simp only [Option.some.injEq] at hs; subst hs
  show (AMap.get (AMap.set s.providers cr p') c).map (·.burned) = _
  rw [AMap.get_set]
  split
  · rename_i e; subst e
    rw [hp]; simp only [Option.map_some]; rw [hf p p' hp']
  · rfl

/-- no message other than `initProvider`/`shutdownProvider` of `c` itself changes the burn counter of
`c`'s provider record (only the reward block's `burnContract` does) -/
theorem step_burned {s s' : State} {h now : Int} {op : Op} (hc : Consistent s)
    (hs : step s h now op = some s') (c : String)
    (hno : ¬ touchesProviderRecord c (.msg h now op)) :
    (AMap.get s'.providers c).map (·.burned) = (AMap.get s.providers c).map (·.burned) := by
  cases op <;> simp only [step] at hs
  case postFile cr m fs mp ex pt note nv jp gid gacc =>
    rw [(postFile_frame hs).2.2.2.2.2]
  case deleteFile cr m st =>
    simp only [Option.some.injEq] at hs; subst hs
    simp only [deleteFile]
    rw [(removeFile_frame s _).2.2]
  case buyStorage =>
    rw [(buyStorage_frame hs).2]
  case initProvider cr ip kb ts iv =>
    have hne : cr ≠ c := fun e => hno e
    simp only [initProvider, bind, Option.bind_eq_some_iff, req_eq_some] at hs
    obtain ⟨_, -, _, -, _, -, coins, -, b1, -, hs⟩ := hs
    simp only [Option.some.injEq] at hs; subst hs
    show (AMap.get (AMap.set s.providers cr _) c).map (·.burned) = _
    rw [AMap.get_set_other _ _ _ _ hne]
  case shutdownProvider cr =>
    have hne : cr ≠ c := fun e => hno e
    simp only [shutdownProvider, bind, Option.bind_eq_some_iff, req_eq_some] at hs
    obtain ⟨_, -, hs⟩ := hs
    split at hs
    · simp only [Option.bind_eq_some_iff, req_eq_some] at hs
      obtain ⟨_, -, coins, -, b1, -, hs⟩ := hs
      simp only [Option.some.injEq] at hs; subst hs
      show (AMap.get (AMap.erase s.providers cr) c).map (·.burned) = _
      rw [AMap.get_erase_other _ _ _ hne]
    · simp only [Option.some.injEq] at hs; subst hs
      show (AMap.get (AMap.erase s.providers cr) c).map (·.burned) = _
      rw [AMap.get_erase_other _ _ _ hne]
  case setProviderIP cr ip iv =>
    split at hs
    · exact updProvider_burned hs (fun p p' e => by cases e; rfl) c
    · cases hs
  case setProviderKeybase cr kb =>
    exact updProvider_burned hs (fun p p' e => by cases e; rfl) c
  case setProviderTotalSpace cr sp =>
    exact updProvider_burned hs (fun p p' e => by cases e; rfl) c
  case addClaimer cr cl =>
    refine updProvider_burned hs (fun p p' e => ?_) c
    split at e
    · cases e
    · cases e; rfl
  case removeClaimer cr cl =>
    refine updProvider_burned hs (fun p p' e => ?_) c
    split at e
    · cases e; rfl
    · cases e
  case postProof cr m o st tp v nc =>
    simp only [Option.some.injEq] at hs; subst hs
    rcases postProof_cases hc h cr m o st tp v nc with ⟨_, est⟩ | ⟨_, f0, _, ⟨_, p, _, est⟩ | ⟨_, est⟩⟩ <;>
      rw [est]
  case requestAttest cr m o st ec ch =>
    rw [(step_requestAttest (h := h) (now := now) hs).2.2.2.2.1]
  case attest cr pr m o st =>
    simp only [Option.some.injEq] at hs; subst hs
    rw [(attest_cases s h cr pr m o st).2.2.2.1]
  case requestReport cr pr m o st ec ch =>
    rw [(step_requestReport (h := h) (now := now) (c := cr) hs).2.2.2.2]
  case report cr pr m o st =>
    simp only [report, bind, Option.bind_eq_some_iff, req_eq_some] at hs
    obtain ⟨form, -, _, -, hs⟩ := hs
    split at hs
    · simp only [Option.some.injEq] at hs; subst hs; rfl
    · simp only [Option.bind_eq_some_iff] at hs
      obtain ⟨f, _, hs⟩ := hs
      simp only [Option.some.injEq] at hs; subst hs
      rw [(removeProver_cases _ f (pr, f.key)).2.2.1]

/-- with non-decreasing heights, every accepted height from an event on is at least that event's
height -/
theorem accepted_ge_of_split {evs : List Event} {s0 s' : State}
    (hrun : evs.foldlM applyEvent s0 = some s')
    (hmono : (evs.filterMap Event.height).Pairwise (· ≤ ·))
    {pre post : List (State × Event)} {s : State} {e : Event}
    (hsplit : runTrace s0 evs = pre ++ (s, e) :: post) (c : String) (k : FKey) (h : Int)
    (he : e.height = some h) : ∀ x ∈ acceptedIn c k ((s, e) :: post), h ≤ x := by
  intro x hx
  have hev := trace_events evs s0 s' hrun
  rw [hsplit, List.map_append, List.map_cons] at hev
  rw [← hev, List.filterMap_append, List.filterMap_cons, he] at hmono
  have hp := (List.pairwise_cons.mp (List.pairwise_append.mp hmono).2.1).1
  simp only [acceptedIn, List.mem_filterMap, List.mem_cons] at hx
  obtain ⟨se, hse, hacc⟩ := hx
  have hh := acceptedAt_height hacc
  rcases hse with rfl | hse
  · simp only at hh
    rw [he] at hh; cases hh; exact Int.le_refl _
  · exact hp x (List.mem_filterMap.mpr ⟨se.2, List.mem_map_of_mem hse, hh⟩)

/-- every state of a run from a consistent state is consistent -/
theorem consistent_of_split {evs : List Event} {s0 s' : State} (hc : Consistent s0)
    (hrun : evs.foldlM applyEvent s0 = some s')
    {pre post : List (State × Event)} {s : State} {e : Event}
    (hsplit : runTrace s0 evs = pre ++ (s, e) :: post) : Consistent s :=
  (trace_induct evs (fun s _ => Consistent s) s0 s' hrun hc
    (fun _ _ _ _ _ _ hs hq => consistent_event hq hs)).2 pre s e post hsplit

end Canine.Storage
