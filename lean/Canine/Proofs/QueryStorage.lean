/-
Lemmas tying the query model of x/storage (Canine/Query/Storage.lean) to the store the message
model maintains: the listing a client obtains by following `NextKey` through `AllFiles`,
`AllFilesByOwner`, `AllFilesByMerkle`, `AllProofs` … is exactly the content of the corresponding
index.  The only assumption is the physical one: the raw keys of a store are distinct.
-/
import Canine.Proofs.Page
import Canine.Query.Storage
namespace Canine.Query

variable {V : Type}

theorem sortByKey_perm (l : List (String × V)) : (sortByKey l).Perm l :=
  List.mergeSort_perm l _

theorem mem_sortByKey (l : List (String × V)) (x : String × V) : x ∈ sortByKey l ↔ x ∈ l :=
  (sortByKey_perm l).mem_iff

/-- sorting a store with distinct raw keys gives strictly ascending keys -/
theorem sortByKey_sorted (l : List (String × V)) (hnd : (l.map (·.1)).Nodup) : Sorted (sortByKey l) := by
  have hp : (sortByKey l).Pairwise (fun a b => decide (a.1 ≤ b.1) = true) := by
    apply List.pairwise_mergeSort
    · intro a b c h1 h2
      simp only [decide_eq_true_eq] at *
      exact String.le_trans h1 h2
    · intro a b
      simp only [Bool.or_eq_true, decide_eq_true_eq]
      exact String.le_total a.1 b.1
  have hnd' : ((sortByKey l).map (·.1)).Nodup := ((sortByKey_perm l).map _).nodup_iff.mpr hnd
  have hne : (sortByKey l).Pairwise (fun a b => a.1 ≠ b.1) := by
    simpa [List.Nodup, List.pairwise_map] using hnd'
  refine (hp.and hne).imp ?_
  intro a b ⟨h1, h2⟩
  simp only [decide_eq_true_eq] at h1
  apply Classical.byContradiction
  intro hlt
  exact h2 (String.le_antisymm h1 (String.not_lt.mp hlt))

theorem sortByKey_length (l : List (String × V)) : (sortByKey l).length = l.length :=
  (sortByKey_perm l).length_eq

/-- the entries of a store (decoded key ↦ value) under a key rendering with distinct raw keys -/
theorem entries_sorted {K : Type} (m : List (K × V)) (kf : K → String)
    (hraw : (m.map (fun kv => kf kv.1)).Nodup) :
    Sorted (sortByKey (m.map (fun kv => (kf kv.1, kv.2)))) := by
  apply sortByKey_sorted
  rw [List.map_map]
  exact hraw

theorem entries_length {K : Type} (m : List (K × V)) (kf : K → String) :
    (sortByKey (m.map (fun kv => (kf kv.1, kv.2)))).length = m.length := by
  rw [sortByKey_length, List.length_map]

/-- **A walk through any listing built on `query.Paginate` returns the store's records, each once**
(as a permutation of the store's values), whatever the page size. -/
theorem walk_entries_perm {K : Type} (m : List (K × V)) (kf : K → String) (limit fuel : Nat)
    (hraw : (m.map (fun kv => kf kv.1)).Nodup) (hf : m.length + 1 ≤ fuel) :
    ∃ l, walk (sortByKey (m.map (fun kv => (kf kv.1, kv.2)))) limit false fuel none [] = some l ∧
      l.Perm (m.map (·.2)) := by
  refine ⟨_, walk_forward_complete _ limit fuel (entries_sorted m kf hraw) (by rw [entries_length]; exact hf), ?_⟩
  have := (sortByKey_perm (m.map (fun kv => (kf kv.1, kv.2)))).map (·.2)
  rw [List.map_map] at this
  exact this

theorem underPrefix_sorted (l : List (String × V)) (p : String) (h : Sorted l) : Sorted (underPrefix l p) :=
  List.Pairwise.sublist List.filter_sublist h

/-- the text `p` is a prefix of `p ++ rest` -/
theorem hasPrefix_append (p rest : String) : hasPrefix p (p ++ rest) = true := by
  simp [hasPrefix, String.toList_append]

end Canine.Query

namespace Canine.Storage.Query
open Canine.Query

/-- **Walking `AllFiles` lists exactly the by-content index.** -/
theorem walk_allFiles (s : State) (limit fuel : Nat)
    (hraw : (s.files.map (fun kv => fileKeyStr kv.1)).Nodup) (hf : s.files.length + 1 ≤ fuel) :
    ∃ l, walk (primaryEntries s) limit false fuel none [] = some l ∧ ∀ f, f ∈ l ↔ f ∈ s.files.map (·.2) := by
  have hs : Sorted (primaryEntries s) := entries_sorted _ _ hraw
  have hlen : (primaryEntries s).length = s.files.length := entries_length s.files fileKeyStr
  refine ⟨_, walk_forward_complete _ limit fuel hs (by omega), ?_⟩
  intro f
  simp only [primaryEntries, List.mem_map]
  constructor
  · rintro ⟨x, hx, rfl⟩
    rw [mem_sortByKey] at hx
    obtain ⟨kv, hkv, rfl⟩ := List.mem_map.mp hx
    exact ⟨kv, hkv, rfl⟩
  · rintro ⟨kv, hkv, rfl⟩
    exact ⟨(fileKeyStr kv.1, kv.2), (mem_sortByKey _ _).mpr (List.mem_map.mpr ⟨kv, hkv, rfl⟩), rfl⟩

/-- the same in reverse order -/
theorem walk_allFiles_reverse (s : State) (limit fuel : Nat)
    (hraw : (s.files.map (fun kv => fileKeyStr kv.1)).Nodup) (hf : s.files.length + 1 ≤ fuel) :
    walk (primaryEntries s) limit true fuel none [] = some ((primaryEntries s).reverse.map (·.2)) := by
  have hs : Sorted (primaryEntries s) := entries_sorted _ _ hraw
  have hlen : (primaryEntries s).length = s.files.length := entries_length s.files fileKeyStr
  exact walk_reverse_complete _ limit fuel hs (by omega)

/-- **Walking `AllFilesByOwner` for an owner lists every file stored under that owner in the
by-owner index** (and, the scan having no terminator, those of owners whose address merely starts
with it — nothing else). -/
theorem walk_allFilesByOwner (s : State) (owner : String) (limit fuel : Nat)
    (hraw : (s.files2.map (fun kv => fileKey2Str kv.1)).Nodup) (hf : s.files2.length + 1 ≤ fuel) :
    ∃ l, walk (underPrefix (secondaryEntries s) owner) limit false fuel none [] = some l ∧
      (∀ k f, (k, f) ∈ s.files2 → k.2.1 = owner → f ∈ l) ∧
      (∀ f, f ∈ l → ∃ k, (k, f) ∈ s.files2 ∧ hasPrefix owner (fileKey2Str k) = true) := by
  have hs : Sorted (secondaryEntries s) := entries_sorted _ _ hraw
  have hsub := underPrefix_sorted (secondaryEntries s) owner hs
  have hlen : (underPrefix (secondaryEntries s) owner).length ≤ s.files2.length := by
    have h1 : (underPrefix (secondaryEntries s) owner).length ≤ (secondaryEntries s).length := List.length_filter_le _ _
    have h2 : (secondaryEntries s).length = s.files2.length := entries_length s.files2 fileKey2Str
    omega
  refine ⟨_, walk_forward_complete _ limit fuel hsub (by omega), ?_, ?_⟩
  · intro k f hkf hown
    simp only [List.mem_map]
    refine ⟨(fileKey2Str k, f), ?_, rfl⟩
    simp only [underPrefix, List.mem_filter]
    refine ⟨(mem_sortByKey _ _).mpr (List.mem_map.mpr ⟨(k, f), hkf, rfl⟩), ?_⟩
    subst hown
    simp only [fileKey2Str, String.append_assoc]
    exact hasPrefix_append _ _
  · intro f hf'
    obtain ⟨x, hx, rfl⟩ := List.mem_map.mp hf'
    simp only [underPrefix, List.mem_filter] at hx
    obtain ⟨kv, hkv, rfl⟩ := List.mem_map.mp ((mem_sortByKey _ _).mp hx.1)
    exact ⟨kv.1, hkv, hx.2⟩

/-- **Walking `AllFilesByMerkle` for a merkle root lists every file stored under that root.** -/
theorem walk_allFilesByMerkle (s : State) (merkle : String) (limit fuel : Nat)
    (hraw : (s.files.map (fun kv => fileKeyStr kv.1)).Nodup) (hf : s.files.length + 1 ≤ fuel) :
    ∃ l, walk (underPrefix (primaryEntries s) merkle) limit false fuel none [] = some l ∧
      (∀ k f, (k, f) ∈ s.files → k.1 = merkle → f ∈ l) ∧
      (∀ f, f ∈ l → ∃ k, (k, f) ∈ s.files ∧ hasPrefix merkle (fileKeyStr k) = true) := by
  have hs : Sorted (primaryEntries s) := entries_sorted _ _ hraw
  have hsub := underPrefix_sorted (primaryEntries s) merkle hs
  have hlen : (underPrefix (primaryEntries s) merkle).length ≤ s.files.length := by
    have h1 : (underPrefix (primaryEntries s) merkle).length ≤ (primaryEntries s).length := List.length_filter_le _ _
    have h2 : (primaryEntries s).length = s.files.length := entries_length s.files fileKeyStr
    omega
  refine ⟨_, walk_forward_complete _ limit fuel hsub (by omega), ?_, ?_⟩
  · intro k f hkf hm
    simp only [List.mem_map]
    refine ⟨(fileKeyStr k, f), ?_, rfl⟩
    simp only [underPrefix, List.mem_filter]
    refine ⟨(mem_sortByKey _ _).mpr (List.mem_map.mpr ⟨(k, f), hkf, rfl⟩), ?_⟩
    subst hm
    simp only [fileKeyStr, String.append_assoc]
    exact hasPrefix_append _ _
  · intro f hf'
    obtain ⟨x, hx, rfl⟩ := List.mem_map.mp hf'
    simp only [underPrefix, List.mem_filter] at hx
    obtain ⟨kv, hkv, rfl⟩ := List.mem_map.mp ((mem_sortByKey _ _).mp hx.1)
    exact ⟨kv.1, hkv, hx.2⟩

/-- **Walking `ProofsByAddress` lists every proof record of the prover.** -/
theorem walk_proofsByAddress (s : State) (prover : String) (limit fuel : Nat)
    (hraw : (s.proofs.map (fun kv => proofKeyStr kv.1)).Nodup) (hf : s.proofs.length + 1 ≤ fuel) :
    ∃ l, walk (underPrefix (proofEntries s) prover) limit false fuel none [] = some l ∧
      (∀ k p, (k, p) ∈ s.proofs → k.1 = prover → p ∈ l) := by
  have hs : Sorted (proofEntries s) := entries_sorted _ _ hraw
  have hsub := underPrefix_sorted (proofEntries s) prover hs
  have hlen : (underPrefix (proofEntries s) prover).length ≤ s.proofs.length := by
    have h1 : (underPrefix (proofEntries s) prover).length ≤ (proofEntries s).length := List.length_filter_le _ _
    have h2 : (proofEntries s).length = s.proofs.length := entries_length s.proofs proofKeyStr
    omega
  refine ⟨_, walk_forward_complete _ limit fuel hsub (by omega), ?_⟩
  intro k p hkp hpr
  simp only [List.mem_map]
  refine ⟨(proofKeyStr k, p), ?_, rfl⟩
  simp only [underPrefix, List.mem_filter]
  refine ⟨(mem_sortByKey _ _).mpr (List.mem_map.mpr ⟨(k, p), hkp, rfl⟩), ?_⟩
  subst hpr
  simp only [proofKeyStr, String.append_assoc]
  exact hasPrefix_append _ _

/-- the single-record queries read the index the messages maintain -/
theorem run_file (s : State) (now : Int) (m o : String) (st : Int) :
    run s now (.file m o st) = (match AMap.get s.files (m, o, st) with | some f => .file f | none => .err) := rfl

/-- **What the plan queries report is the plan record itself**: `StoragePaymentInfo` returns it,
`GetClientFreeSpace` its available minus used space, `GetPayData` its purchased space. -/
theorem run_payInfo (s : State) (now : Int) (a : String) (p : PayInfo) (h : AMap.get s.payinfo a = some p) :
    run s now (.payInfo a) = .payInfo p ∧
    run s now (.clientFreeSpace a) = .num (I64.wrap (p.spaceAvailable - p.spaceUsed)) ∧
    run s now (.payData a) = .payData (unixSec p.endT - unixSec now) p.spaceAvailable := by
  simp [run, h]

end Canine.Storage.Query
