/-
Gauge invariant for C05, part 6: every message keeps `GaugeInv`, given the benign side conditions
`MsgOk` on the message (who signed it, what the id/escrow-account oracle returned).
-/
import Canine.Proofs.GaugeInvMsg
namespace Canine.Storage
open Bank GI

/-- the gauge id and escrow account the chain derived for a gauge-creating message (oracle inputs
of the model) -/
def Op.gaugeOf : Op → Option (String × String)
  | .postFile _ _ _ _ _ _ _ _ _ gid gacc => some (gid, gacc)
  | .buyStorage _ _ _ _ _ _ _ gid gacc => some (gid, gacc)
  | _ => none

/-- **Side conditions on one delivered message** (no gauge arithmetic):
* `signer` — the message is not signed by the escrow account of a stored gauge, neither as the
  string sent nor as the account that string denotes (the payer of `initProvider`).  Escrow accounts
  are derived by hashing the gauge id; nobody holds a key for them (C15 assumes the same of the
  collateral account, `signedAlong`).
* `oracle` — for the two gauge-creating messages: the escrow account is `E.accOf` of the gauge id (the
  chain's fixed derivation), it is neither the storage module account nor the collateral account
  (module accounts are derived from their names, escrow accounts from gauge ids), and if a gauge
  with this id is already stored it was created at this same block time (the id is the hash of
  block height, end and coins, so an equal id means an equal height, hence an equal block time —
  `IdScheme` in Props/C12.lean). -/
structure MsgOk (E : EscrowScheme) (s : State) (now : Int) (op : Op) : Prop where
  signer : ∀ kv ∈ s.gauges, op.creator ≠ kv.2.account ∧ acctOf s op.creator ≠ kv.2.account
  oracle : ∀ gid gacc, op.gaugeOf = some (gid, gacc) →
    gacc = E.accOf gid ∧ gacc ≠ s.moduleAcc ∧ gacc ≠ s.collateralAcc ∧
    ∀ g, AMap.get s.gauges gid = some g → g.startT = now

/-- **Every message keeps the gauge invariant.** -/
theorem step_gaugeInv {E : EscrowScheme} {s s' : State} {h now : Int} {op : Op}
    (hinv : GaugeInv E s now) (hok : MsgOk E s now op) (hstep : step s h now op = some s') :
    GaugeInv E s' now := by
  cases op with
  | postFile c m fs mp ex pt note nv jp gid gacc =>
    simp only [step] at hstep
    rcases postFile_deposit hstep with hc | hd
    · exact hinv.sameCore hc
    · obtain ⟨o1, o2, o3, o4⟩ := hok.oracle gid gacc rfl
      exact deposit_inv hinv hd o1 o2 o3 o4 (fun kv hkv => (hok.signer kv hkv).1)
  | deleteFile c m st =>
    simp only [step, Option.some.injEq] at hstep; subst hstep
    exact hinv.sameCore (sameCore_removeFile _ _)
  | buyStorage c fa dd b dn ref jp gid gacc =>
    simp only [step] at hstep
    obtain ⟨o1, o2, o3, o4⟩ := hok.oracle gid gacc rfl
    exact deposit_inv hinv (buyStorage_deposit hstep) o1 o2 o3 o4 (fun kv hkv => (hok.signer kv hkv).1)
  | initProvider c ip kb ts iv =>
    simp only [step] at hstep
    exact initProvider_inv hinv (fun kv hkv => (hok.signer kv hkv).2) hstep
  | shutdownProvider c =>
    simp only [step] at hstep
    exact shutdownProvider_inv hinv hstep
  | setProviderIP c ip iv =>
    simp only [step] at hstep
    split at hstep
    · exact hinv.sameCore (sameCore_updProvider hstep)
    · simp at hstep
  | setProviderKeybase c kb => exact hinv.sameCore (sameCore_updProvider hstep)
  | setProviderTotalSpace c sp => exact hinv.sameCore (sameCore_updProvider hstep)
  | addClaimer c cl => exact hinv.sameCore (sameCore_updProvider hstep)
  | removeClaimer c cl => exact hinv.sameCore (sameCore_updProvider hstep)
  | postProof c m o st tp v nc =>
    simp only [step, Option.some.injEq] at hstep; subst hstep
    exact hinv.sameCore (sameCore_postProof _ _ _ _ _ _ _ _ _)
  | requestAttest c m o st ec ch =>
    simp only [step, Option.some.injEq] at hstep; subst hstep
    split <;> exact hinv.sameCore ⟨rfl, rfl, rfl, rfl⟩
  | attest c p m o st =>
    simp only [step, Option.some.injEq] at hstep; subst hstep
    exact hinv.sameCore (sameCore_attest _ _ _ _ _ _ _)
  | requestReport c p m o st ec ch =>
    simp only [step, Option.some.injEq] at hstep; subst hstep
    split <;> exact hinv.sameCore ⟨rfl, rfl, rfl, rfl⟩
  | report c p m o st =>
    simp only [step] at hstep
    exact hinv.sameCore (sameCore_report hstep)

/-- a delivered message, failed or not (`stepT` commits nothing on failure) -/
theorem stepT_gaugeInv {E : EscrowScheme} {s : State} {h now : Int} {op : Op}
    (hinv : GaugeInv E s now) (hok : MsgOk E s now op) : GaugeInv E (stepT s h now op) now := by
  unfold stepT
  cases hs : step s h now op with
  | none => simpa using hinv
  | some s1 => simpa using step_gaugeInv hinv hok hs

end Canine.Storage
