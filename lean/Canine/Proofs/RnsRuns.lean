/-
The name service along whole executions (helpers for C08 and C16).

A run is a list of events `(height, Op)` applied from a state with the chain's commit rule: a
message whose handler fails commits nothing (`stepT`, `run` of `Rns/Model.lean` — the same `run`
C09 uses).  Heights of a run are non-decreasing (`Mono`); the theorems that do not need that are
stated for every list of events (hence in particular for every run).

Positions in a run are addressed by splitting it: `evs = pre ++ (h, op) :: post` — the state
immediately before the event is `run s₀ pre`, immediately after it `run s₀ (pre ++ [(h, op)])`
(`run_snoc`), the final state `run s₀ evs` (`run_append`).

A *ghost* runs along with the state (`ghostStep`, `ghostRun`): for every listing key the
observations made when the last successful `List` message for that key was delivered — who signed,
which account that string denotes, the height, and the name record as it was at that moment.
The ghost only records; that the recorded observations say "the signer owned the live name" is the
invariant `ListingInv`, proved along runs (`listingInv_run`).
-/
import Canine.Proofs.Rns
namespace Canine.Rns
open Bank

/-! ## Runs -/

/-- heights never go down along the list of events -/
def Mono (evs : List (Int × Op)) : Prop := evs.Pairwise (fun a b => a.1 ≤ b.1)

instance (evs : List (Int × Op)) : Decidable (Mono evs) :=
  inferInstanceAs (Decidable (evs.Pairwise (fun a b => a.1 ≤ b.1)))

theorem Mono.tail {e : Int × Op} {evs : List (Int × Op)} (h : Mono (e :: evs)) : Mono evs :=
  (List.pairwise_cons.mp h).2

theorem Mono.right {a b : List (Int × Op)} (h : Mono (a ++ b)) : Mono b :=
  (List.pairwise_append.mp h).2.1

theorem Mono.left {a b : List (Int × Op)} (h : Mono (a ++ b)) : Mono a :=
  (List.pairwise_append.mp h).1

/-- in a run whose last event is delivered at a height `≤ T`, every event is -/
theorem Mono.all_le_of_last_le {evs : List (Int × Op)} (hm : Mono evs) {T : Int}
    (hlast : ∀ e, evs.getLast? = some e → e.1 ≤ T) : ∀ e ∈ evs, e.1 ≤ T := by
  induction evs with
  | nil => intro e he; simp at he
  | cons a rest ih =>
    intro e he
    cases rest with
    | nil =>
      simp only [List.mem_cons, List.not_mem_nil, or_false] at he
      subst he; exact hlast _ (by simp)
    | cons b rest' =>
      have hlast' : ∀ e, (b :: rest').getLast? = some e → e.1 ≤ T := by
        intro e he'; apply hlast; rw [List.getLast?_cons_cons]; exact he'
      have hall := ih hm.tail hlast'
      rcases List.mem_cons.mp he with rfl | he
      · have hb := hall b (by simp)
        have hab := (List.pairwise_cons.mp hm).1 b (by simp)
        exact Int.le_trans hab hb
      · exact hall e he

theorem run_append (s : State) (a b : List (Int × Op)) : run s (a ++ b) = run (run s a) b := by
  induction a generalizing s with
  | nil => rfl
  | cons e rest ih => obtain ⟨h, op⟩ := e; simp only [List.cons_append, run]; exact ih _

theorem run_snoc (s : State) (pre : List (Int × Op)) (h : Int) (op : Op) :
    run s (pre ++ [(h, op)]) = stepT (run s pre) h op := by
  rw [run_append]; rfl

/-- the configuration part of the state (module accounts, blocked list, address table) is the same
in every state of a run -/
theorem run_cfg (s : State) (evs : List (Int × Op)) :
    (run s evs).moduleAcc = s.moduleAcc ∧ (run s evs).polAcc = s.polAcc ∧
    (run s evs).blocked = s.blocked ∧ (run s evs).canon = s.canon := by
  induction evs generalizing s with
  | nil => simp [run]
  | cons e rest ih =>
    obtain ⟨h, op⟩ := e
    simp only [run]
    obtain ⟨a, b, c, d⟩ := ih (stepT s h op)
    obtain ⟨a', b', c', d'⟩ := stepT_cfg s h op
    exact ⟨a.trans a', b.trans b', c.trans c', d.trans d'⟩

theorem acct_run (s : State) (evs : List (Int × Op)) (x : String) : acct (run s evs) x = acct s x := by
  unfold acct; rw [(run_cfg s evs).2.2.2]

theorem acct_step {s s' : State} {h : Int} {op : Op} (hstep : step s h op = some s') (x : String) :
    acct s' x = acct s x := by
  unfold acct; rw [(step_cfg hstep).2.2.2]

theorem acct_stepT (s : State) (h : Int) (op : Op) (x : String) : acct (stepT s h op) x = acct s x := by
  unfold acct; rw [(stepT_cfg s h op).2.2.2]

/-- a message that passes `ValidateBasic` and whose signer parses is its handler -/
theorem step_eq_handle {s : State} {h : Int} {op : Op} {cc : String} (hv : validateBasic op = true)
    (ho : otherAddrsValid s op = true) (hc : acct s op.creator = some cc) :
    step s h op = handle s h cc op := by
  simp [step, hv, ho, hc]

/-- the address table is idempotent: a canonical spelling is its own canonical spelling
(`AccAddressFromBech32(a.String()).String() = a.String()`); `CanonOK` of Props/C08 is this. -/
def CanonIdem (s : State) : Prop := ∀ x y, acct s x = some y → acct s y = some y

theorem canonIdem_run {s : State} (hc : CanonIdem s) (evs : List (Int × Op)) : CanonIdem (run s evs) := by
  intro x y h
  rw [acct_run] at h ⊢
  exact hc x y h

/-- the store key of the name record a message argument (lower-cased) refers to -/
def keyOf (n : String) : Option String := (nameAndTLD n).map (fun p => nameKey p.1 p.2)

theorem keyOf_of {n nm tld key : String} (hnt : nameAndTLD n = some (nm, tld)) (hk : nameKey nm tld = key) :
    keyOf n = some key := by
  simp [keyOf, hnt, hk]

/-! ## What one successful message does to the record of a live name (all 13 messages) -/

/-- A live name's record after any successful message: either exactly as it was; or sold through a
stored listing carrying the owner's string (owner := buyer string, data reset); or transferred /
handed to an accepted bidder by a message whose signer's canonical address is the recorded owner;
or rewritten by the owner (renewal, update, add / delete record) with the same owner string and an
expiry that is not smaller. -/
theorem step_live_name {s s' : State} {h : Int} {op : Op} {key : String} {w : NameRec}
    (hw : AMap.get s.names key = some w) (hlive : h ≤ w.expires) (hstep : step s h op = some s') :
    AMap.get s'.names key = some w ∨
    (∃ c raw n sale, op = .buy c raw n ∧ keyOf n = some key ∧ AMap.get s.forsale n = some sale ∧
        sale.owner = w.value ∧ c ≠ w.value ∧
        AMap.get s'.names key = some { w with value := c, data := "{}" }) ∨
    (∃ c raw n r, op = .transfer c raw n r ∧ keyOf n = some key ∧ acct s c = some w.value ∧
        AMap.get s'.names key = some { w with value := r, data := "{}" }) ∨
    (∃ c raw n b bd, op = .acceptBid c raw n b ∧ keyOf n = some key ∧ acct s c = some w.value ∧
        AMap.get s.bids (b ++ n) = some bd ∧
        AMap.get s'.names key = some { w with value := bd.bidder, data := "{}" }) ∨
    (∃ w', AMap.get s'.names key = some w' ∧ w'.value = w.value ∧ w.expires ≤ w'.expires ∧
        (acct s op.creator = some w.value ∨ op.creator = w.value)) := by
  obtain ⟨cc, -, hcc, hstep⟩ := step_some hstep
  cases op with
  | register c raw n dta y p =>
    simp only [handle, register, bind, Option.bind_eq_some_iff, req_eq_some] at hstep
    obtain ⟨⟨nm, tld⟩, -, cost, -, _, hy, ex, hex, b1, hb1, b2, hb2, hs⟩ := hstep
    simp only [Option.some.injEq] at hs
    have hn : s'.names = AMap.set s.names (nameKey nm tld)
        { name := nm, tld := tld, expires := ex, value := cc, data := dta, locked := 0, subs := [] } := by
      subst hs; unfold setPrimaryIf; split <;> rfl
    by_cases hk : nameKey nm tld = key
    · right; right; right; right
      rw [hk] at hex
      simp only [regExpiry, hw, hlive, if_true] at hex
      by_cases e : w.value = cc
      · simp only [e, if_true, Option.some.injEq] at hex
        refine ⟨_, by rw [hn, hk]; exact AMap.get_set_self _ _ _, e.symm, ?_, Or.inl ?_⟩
        · have hyb : yearBlocks = 5484530 := rfl
          rw [hyb] at hex
          show w.expires ≤ ex
          omega
        · rw [e]; exact hcc
      · simp [e] at hex
    · left; rw [hn, AMap.get_set_other _ _ _ _ hk]; exact hw
  | list c raw n pr p =>
    simp only [handle, list, bind, Option.bind_eq_some_iff, req_eq_some] at hstep
    obtain ⟨_, -, ⟨nm, tld⟩, -, w2, -, _, -, _, -, _, -, hs⟩ := hstep
    simp only [Option.some.injEq] at hs; subst hs
    left; exact hw
  | delist c raw n =>
    simp only [handle, delist, bind, Option.bind_eq_some_iff, req_eq_some] at hstep
    obtain ⟨sale, -, ⟨nm, tld⟩, -, w2, -, _, -, _, -, hs⟩ := hstep
    simp only [Option.some.injEq] at hs; subst hs
    left; exact hw
  | buy c raw n =>
    simp only [handle, buy, bind, Option.bind_eq_some_iff, req_eq_some] at hstep
    obtain ⟨sale, hsale, ⟨nm, tld⟩, hnt, w2, hw2, _, -, _, hnotown, _, hown, seller, hseller, pr, -, coins, -, b1, hb1, b2, hb2, hs⟩ := hstep
    simp only [Option.some.injEq] at hs; subst hs
    simp only
    by_cases hk : nameKey nm tld = key
    · right; left
      rw [hk, hw] at hw2; cases hw2
      exact ⟨c, raw, n, sale, rfl, keyOf_of hnt hk, hsale, hown.symm, fun e => hnotown e.symm,
        by rw [hk]; exact AMap.get_set_self _ _ _⟩
    · left; rw [AMap.get_set_other _ _ _ _ hk]; exact hw
  | bid c raw n pr p =>
    simp only [handle, bid, bind, Option.bind_eq_some_iff] at hstep
    obtain ⟨coins, hp, b0, hb0, b1, hb1, hs⟩ := hstep
    simp only [Option.some.injEq] at hs; subst hs
    left; exact hw
  | cancelBid c raw n =>
    simp only [handle, cancelBid, bind, Option.bind_eq_some_iff] at hstep
    obtain ⟨b, hb, coins, hcoins, b1, hb1, hs⟩ := hstep
    simp only [Option.some.injEq] at hs; subst hs
    left; exact hw
  | acceptBid c raw n bidder =>
    simp only [handle, acceptBid, bind, Option.bind_eq_some_iff, req_eq_some] at hstep
    obtain ⟨⟨nm, tld⟩, hnt, w2, hw2, _, -, _, hown, _, -, b, hb, coins, hcoins, b1, hb1, hs⟩ := hstep
    simp only [Option.some.injEq] at hs; subst hs
    simp only
    by_cases hk : nameKey nm tld = key
    · right; right; right; left
      rw [hk, hw] at hw2; cases hw2
      exact ⟨c, raw, n, bidder, b, rfl, keyOf_of hnt hk, by rw [hown]; exact hcc, hb,
        by rw [hk]; exact AMap.get_set_self _ _ _⟩
    · left; rw [AMap.get_set_other _ _ _ _ hk]; exact hw
  | transfer c raw n r =>
    simp only [handle, transfer, bind, Option.bind_eq_some_iff, req_eq_some] at hstep
    obtain ⟨⟨nm, tld⟩, hnt, w2, hw2, _, -, _, hown, _, -, hs⟩ := hstep
    simp only [Option.some.injEq] at hs; subst hs
    simp only
    by_cases hk : nameKey nm tld = key
    · right; right; left
      rw [hk, hw] at hw2; cases hw2
      exact ⟨c, raw, n, r, rfl, keyOf_of hnt hk, by rw [hown]; exact hcc,
        by rw [hk]; exact AMap.get_set_self _ _ _⟩
    · left; rw [AMap.get_set_other _ _ _ _ hk]; exact hw
  | update c raw n dta =>
    simp only [handle, update, bind, Option.bind_eq_some_iff, req_eq_some] at hstep
    obtain ⟨⟨nm, tld⟩, -, w2, hw2, _, hown, _, -, hs⟩ := hstep
    simp only [Option.some.injEq] at hs; subst hs
    simp only
    by_cases hk : nameKey nm tld = key
    · right; right; right; right
      rw [hk, hw] at hw2; cases hw2
      refine ⟨{ w with data := dta }, ?_, ?_, ?_, Or.inl (by rw [hown]; exact hcc)⟩
      · rw [hk]; exact AMap.get_set_self _ _ _
      · rfl
      · exact Int.le_refl _
    · left; rw [AMap.get_set_other _ _ _ _ hk]; exact hw
  | addRecord c raw n r rl v dta =>
    simp only [handle, addRecord, bind, Option.bind_eq_some_iff, req_eq_some] at hstep
    obtain ⟨⟨nm, tld⟩, -, w2, hw2, _, -, _, hown, _, -, _, -, hs⟩ := hstep
    simp only [Option.some.injEq] at hs; subst hs
    simp only
    by_cases hk : nameKey nm tld = key
    · right; right; right; right
      rw [hk, hw] at hw2; cases hw2
      refine ⟨{ w with subs := w.subs ++ [{ name := rl, value := v, data := dta, tld := w.tld, expires := w.expires }] }, ?_, ?_, ?_, Or.inr hown⟩
      · rw [hk]; exact AMap.get_set_self _ _ _
      · rfl
      · exact Int.le_refl _
    · left; rw [AMap.get_set_other _ _ _ _ hk]; exact hw
  | delRecord c raw n =>
    simp only [handle, delRecord, bind, Option.bind_eq_some_iff, req_eq_some] at hstep
    obtain ⟨⟨nm, tld⟩, -, ⟨sub, n2⟩, -, w2, hw2, _, -, _, hown, _, -, hs⟩ := hstep
    simp only [Option.some.injEq] at hs; subst hs
    simp only
    by_cases hk : nameKey n2 tld = key
    · right; right; right; right
      rw [hk, hw] at hw2; cases hw2
      refine ⟨{ w with subs := w.subs.filter (fun sd => sd.name ≠ sub) }, ?_, ?_, ?_, Or.inr hown⟩
      · rw [hk]; exact AMap.get_set_self _ _ _
      · rfl
      · exact Int.le_refl _
    · left; rw [AMap.get_set_other _ _ _ _ hk]; exact hw
  | init c g =>
    simp only [handle, init, bind, Option.bind_eq_some_iff, req_eq_some] at hstep
    obtain ⟨_, -, _, -, _, -, _, hnl, hs⟩ := hstep
    simp only [Option.some.injEq] at hs; subst hs
    left
    simp only
    by_cases hk : nameKey g "jkl" = key
    · rw [hk] at hnl
      simp [isLive, hw, hlive] at hnl
    · rw [AMap.get_set_other _ _ _ _ hk]; exact hw
  | makePrimary c raw n =>
    simp only [handle, makePrimary, bind, Option.bind_eq_some_iff] at hstep
    obtain ⟨⟨nm, tld⟩, -, hs⟩ := hstep
    simp only [Option.some.injEq] at hs; subst hs
    left; exact hw

end Canine.Rns

namespace Canine.Rns
open Bank

/-! ## What one successful message does to the listings (all 13 messages) -/

/-- No message but `List` writes a listing (let alone its `owner` field): a listing stored under
`k` after a successful message either was stored there, identically, before — or the message was
`List` for `k`, `k` carried no listing, the new listing names the signer string as owner, and the
name it refers to was live and carried that very string as its owner. -/
theorem step_forsale_frame {s s' : State} {h : Int} {op : Op} (hstep : step s h op = some s')
    {k : String} {l : Listing} (hl : AMap.get s'.forsale k = some l) :
    AMap.get s.forsale k = some l ∨
    (∃ c raw pr p key w, op = .list c raw k pr p ∧ AMap.get s.forsale k = none ∧
        l = { name := k, owner := c, priceRaw := pr, price := p } ∧
        keyOf k = some key ∧ AMap.get s.names key = some w ∧ w.value = c ∧ h ≤ w.expires) := by
  obtain ⟨cc, -, hcc, hstep⟩ := step_some hstep
  cases op with
  | list c raw n pr p =>
    simp only [handle, list, bind, Option.bind_eq_some_iff, req_eq_some] at hstep
    obtain ⟨_, hfree, ⟨nm, tld⟩, hnt, w2, hw2, _, hown, _, -, _, hlive, hs⟩ := hstep
    simp only [Option.some.injEq] at hs; subst hs
    simp only at hl
    by_cases hk : n = k
    · subst hk
      right
      rw [AMap.get_set_self] at hl
      simp only [Option.some.injEq] at hl
      refine ⟨c, raw, pr, p, _, w2, rfl, ?_, hl.symm, keyOf_of hnt rfl, hw2, hown, hlive⟩
      simp only [AMap.contains] at hfree
      cases hg : AMap.get s.forsale n with
      | none => rfl
      | some x => simp [hg] at hfree
    · left; rw [AMap.get_set_other _ _ _ _ hk] at hl; exact hl
  | register c raw n dta y p =>
    simp only [handle, register, bind, Option.bind_eq_some_iff, req_eq_some] at hstep
    obtain ⟨⟨nm, tld⟩, -, cost, -, _, -, ex, hex, b1, hb1, b2, hb2, hs⟩ := hstep
    simp only [Option.some.injEq] at hs
    have : s'.forsale = s.forsale := by subst hs; unfold setPrimaryIf; split <;> rfl
    left; rw [this] at hl; exact hl
  | delist c raw n =>
    simp only [handle, delist, bind, Option.bind_eq_some_iff, req_eq_some] at hstep
    obtain ⟨sale, -, ⟨nm, tld⟩, -, w2, -, _, -, _, -, hs⟩ := hstep
    simp only [Option.some.injEq] at hs; subst hs
    simp only at hl
    rw [AMap.get_erase] at hl
    split at hl
    · simp at hl
    · left; exact hl
  | buy c raw n =>
    simp only [handle, buy, bind, Option.bind_eq_some_iff, req_eq_some] at hstep
    obtain ⟨sale, hsale, ⟨nm, tld⟩, -, w2, hw2, _, -, _, -, _, -, seller, hseller, pr, -, coins, -, b1, hb1, b2, hb2, hs⟩ := hstep
    simp only [Option.some.injEq] at hs; subst hs
    simp only at hl
    rw [AMap.get_erase] at hl
    split at hl
    · simp at hl
    · left; exact hl
  | bid c raw n pr p =>
    simp only [handle, bid, bind, Option.bind_eq_some_iff] at hstep
    obtain ⟨coins, hp, b0, hb0, b1, hb1, hs⟩ := hstep
    simp only [Option.some.injEq] at hs; subst hs; left; exact hl
  | cancelBid c raw n =>
    simp only [handle, cancelBid, bind, Option.bind_eq_some_iff] at hstep
    obtain ⟨b, hb, coins, hcoins, b1, hb1, hs⟩ := hstep
    simp only [Option.some.injEq] at hs; subst hs; left; exact hl
  | acceptBid c raw n bidder =>
    simp only [handle, acceptBid, bind, Option.bind_eq_some_iff, req_eq_some] at hstep
    obtain ⟨⟨nm, tld⟩, -, w2, hw2, _, -, _, hown, _, -, b, hb, coins, hcoins, b1, hb1, hs⟩ := hstep
    simp only [Option.some.injEq] at hs; subst hs; left; exact hl
  | transfer c raw n r =>
    simp only [handle, transfer, bind, Option.bind_eq_some_iff, req_eq_some] at hstep
    obtain ⟨⟨nm, tld⟩, -, w2, hw2, _, -, _, hown, _, -, hs⟩ := hstep
    simp only [Option.some.injEq] at hs; subst hs; left; exact hl
  | update c raw n dta =>
    simp only [handle, update, bind, Option.bind_eq_some_iff, req_eq_some] at hstep
    obtain ⟨⟨nm, tld⟩, -, w2, hw2, _, hown, _, -, hs⟩ := hstep
    simp only [Option.some.injEq] at hs; subst hs; left; exact hl
  | addRecord c raw n r rl v dta =>
    simp only [handle, addRecord, bind, Option.bind_eq_some_iff, req_eq_some] at hstep
    obtain ⟨⟨nm, tld⟩, -, w2, hw2, _, -, _, hown, _, -, _, -, hs⟩ := hstep
    simp only [Option.some.injEq] at hs; subst hs; left; exact hl
  | delRecord c raw n =>
    simp only [handle, delRecord, bind, Option.bind_eq_some_iff, req_eq_some] at hstep
    obtain ⟨⟨nm, tld⟩, -, ⟨sub, n2⟩, -, w2, hw2, _, -, _, hown, _, -, hs⟩ := hstep
    simp only [Option.some.injEq] at hs; subst hs; left; exact hl
  | init c g =>
    simp only [handle, init, bind, Option.bind_eq_some_iff, req_eq_some] at hstep
    obtain ⟨_, -, _, -, _, -, _, hnl, hs⟩ := hstep
    simp only [Option.some.injEq] at hs; subst hs; left; exact hl
  | makePrimary c raw n =>
    simp only [handle, makePrimary, bind, Option.bind_eq_some_iff] at hstep
    obtain ⟨⟨nm, tld⟩, -, hs⟩ := hstep
    simp only [Option.some.injEq] at hs; subst hs; left; exact hl

/-! ## The ghost: where every listing comes from -/

/-- What was observed when a `List` message succeeded. -/
structure ListingOrigin where
  /-- the signer string of the `List` message, as sent -/
  signer : String
  /-- the account that string denotes (`AccAddressFromBech32(signer).String()`) -/
  account : Option String
  /-- the height the message was delivered at -/
  height : Int
  /-- the record of the name the listing key refers to, as it was at that moment -/
  nameThen : Option NameRec
  deriving DecidableEq, Repr, Inhabited

/-- listing key ↦ the last successful `List` for that key -/
abbrev Ghost := AMap String ListingOrigin

/-- The ghost is written by successful `List` messages and by nothing else; it only records what
is in front of it (it never looks at the listing store). -/
def ghostStep (s : State) (g : Ghost) (h : Int) (op : Op) : Ghost :=
  match op with
  | .list c _ n _ _ =>
    if (step s h op).isSome then
      AMap.set g n { signer := c, account := acct s c, height := h,
                     nameThen := (keyOf n).bind (AMap.get s.names) }
    else g
  | _ => g

/-- the ghost after a list of events (runs alongside `run`) -/
def ghostRun (s : State) (g : Ghost) : List (Int × Op) → Ghost
  | [] => g
  | (h, op) :: rest => ghostRun (stepT s h op) (ghostStep s g h op) rest

theorem ghostRun_append (s : State) (g : Ghost) (a b : List (Int × Op)) :
    ghostRun s g (a ++ b) = ghostRun (run s a) (ghostRun s g a) b := by
  induction a generalizing s g with
  | nil => rfl
  | cons e rest ih => obtain ⟨h, op⟩ := e; simp only [List.cons_append, run, ghostRun]; exact ih _ _

/-- The listing `l` was created by the account recorded in `o`, which owned the then live name:
the listing's `owner` field is the signer string of the `List` message recorded in `o`, that string
denotes an account (the one recorded), and the name record at that moment was live and carried that
string as its owner. -/
def CreatedByOwner (s : State) (l : Listing) (o : ListingOrigin) : Prop :=
  o.signer = l.owner ∧
  (∃ a, o.account = some a ∧ acct s l.owner = some a) ∧
  (∃ w, o.nameThen = some w ∧ w.value = o.signer ∧ o.height ≤ w.expires)

/-- **The listing invariant**: every stored listing has a recorded origin, and was created by the
account recorded there, which owned the (then live) name at that moment. -/
def ListingInv (s : State) (g : Ghost) : Prop :=
  ∀ k l, AMap.get s.forsale k = some l → ∃ o, AMap.get g k = some o ∧ CreatedByOwner s l o

/-- a state without listings satisfies the invariant, whatever the ghost -/
theorem listingInv_of_no_listings (s : State) (g : Ghost) (h : s.forsale = []) : ListingInv s g := by
  intro k l hl; rw [h] at hl; simp at hl

/-- One successful message keeps the listing invariant. -/
theorem listingInv_step {s s' : State} {g : Ghost} {h : Int} {op : Op}
    (hinv : ListingInv s g) (hstep : step s h op = some s') : ListingInv s' (ghostStep s g h op) := by
  intro k l hl
  have hacct : ∀ x, acct s' x = acct s x := acct_step hstep
  rcases step_forsale_frame hstep hl with hold | ⟨c, raw, pr, p, key, w, hop, hnone, hlis, hkey, hw, hown, hlive⟩
  · -- the listing was there: its origin is untouched (a `List` for an occupied key fails)
    obtain ⟨o, ho, h1, ⟨a, ha, ha'⟩, h3⟩ := hinv k l hold
    refine ⟨o, ?_, h1, ⟨a, ha, by rw [hacct]; exact ha'⟩, h3⟩
    cases op with
    | list c raw n pr p =>
      simp only [ghostStep, hstep, Option.isSome_some, if_true]
      have hnk : n ≠ k := by
        intro e; subst e
        obtain ⟨cc, -, -, hh⟩ := step_some hstep
        simp only [handle, list, bind, Option.bind_eq_some_iff, req_eq_some] at hh
        obtain ⟨_, hfree, -⟩ := hh
        simp [AMap.contains, hold] at hfree
      rw [AMap.get_set_other _ _ _ _ hnk]; exact ho
    | _ => exact ho
  · -- a new listing: the ghost records exactly this message
    subst hop
    obtain ⟨cc, -, hcc, -⟩ := step_some hstep
    simp only [Op.creator] at hcc
    refine ⟨{ signer := c, account := acct s c, height := h,
              nameThen := (keyOf k).bind (AMap.get s.names) }, ?_, ?_⟩
    · simp only [ghostStep, hstep, Option.isSome_some, if_true]
      exact AMap.get_set_self _ _ _
    · subst hlis
      refine ⟨rfl, ⟨cc, hcc, by rw [hacct]; exact hcc⟩, w, ?_, hown, hlive⟩
      simp [hkey, hw]

/-- any message, successful or not (a failed one commits nothing and leaves the ghost alone) -/
theorem listingInv_stepT {s : State} {g : Ghost} (hinv : ListingInv s g) (h : Int) (op : Op) :
    ListingInv (stepT s h op) (ghostStep s g h op) := by
  unfold stepT
  cases hs : step s h op with
  | some s' => simpa using listingInv_step hinv hs
  | none =>
    have : ghostStep s g h op = g := by
      cases op <;> simp [ghostStep, hs]
    simpa [this] using hinv

/-- **The listing invariant holds along every run.** -/
theorem listingInv_run {s : State} {g : Ghost} (hinv : ListingInv s g) (evs : List (Int × Op)) :
    ListingInv (run s evs) (ghostRun s g evs) := by
  induction evs generalizing s g with
  | nil => exact hinv
  | cons e rest ih =>
    obtain ⟨h, op⟩ := e
    simp only [run, ghostRun]
    exact ih (listingInv_stepT hinv h op)

end Canine.Rns

namespace Canine.Rns
open Bank

/-! ## Expiry of a live name never decreases; its record is never removed -/

/-- One successful message, any of the 13: a live name's record is still there afterwards and its
`expires` is at least what it was. -/
theorem step_live_expiry_mono {s s' : State} {h : Int} {op : Op} {key : String} {w : NameRec}
    (hw : AMap.get s.names key = some w) (hlive : h ≤ w.expires) (hstep : step s h op = some s') :
    ∃ w', AMap.get s'.names key = some w' ∧ w.expires ≤ w'.expires := by
  rcases step_live_name hw hlive hstep with h1 | ⟨c, raw, n, sale, -, -, -, -, -, h2⟩ |
      ⟨c, raw, n, r, -, -, -, h3⟩ | ⟨c, raw, n, b, bd, -, -, -, -, h4⟩ | ⟨w', h5, -, hle, -⟩
  · exact ⟨w, h1, Int.le_refl _⟩
  · exact ⟨_, h2, Int.le_refl _⟩
  · exact ⟨_, h3, Int.le_refl _⟩
  · exact ⟨_, h4, Int.le_refl _⟩
  · exact ⟨w', h5, hle⟩

/-- the same for a delivered message that may fail (a failed message commits nothing) -/
theorem stepT_live_expiry_mono {s : State} {h : Int} {key : String} {w : NameRec}
    (hw : AMap.get s.names key = some w) (hlive : h ≤ w.expires) (op : Op) :
    ∃ w', AMap.get (stepT s h op).names key = some w' ∧ w.expires ≤ w'.expires := by
  unfold stepT
  cases hs : step s h op with
  | none => exact ⟨w, by simpa using hw, Int.le_refl _⟩
  | some s' => simpa using step_live_expiry_mono hw hlive hs

/-- Along a list of events all delivered at heights `≤ E`, a name whose expiry is at least `E`
keeps a record with expiry at least `E` (so it stays live all along). -/
theorem run_live_expiry_ge {E : Int} (evs : List (Int × Op)) :
    ∀ (s : State) (key : String) (w : NameRec), AMap.get s.names key = some w → E ≤ w.expires →
      (∀ e ∈ evs, e.1 ≤ E) →
      ∃ w', AMap.get (run s evs).names key = some w' ∧ E ≤ w'.expires := by
  induction evs with
  | nil => intro s key w hw hE _; exact ⟨w, hw, hE⟩
  | cons e rest ih =>
    intro s key w hw hE hall
    obtain ⟨h, op⟩ := e
    have hh : h ≤ E := hall (h, op) (by simp)
    obtain ⟨w1, hw1, hle⟩ := stepT_live_expiry_mono hw (Int.le_trans hh hE) op
    simp only [run]
    exact ih _ key w1 hw1 (Int.le_trans hE hle) (fun e he => hall e (List.mem_cons_of_mem _ he))

/-! ## Who owns a name, and how an owner lets go of it -/

/-- the name `key` is registered, belongs to the account `a` and does not expire before `T` -/
def OwnedFor (s : State) (key a : String) (T : Int) : Prop :=
  ∃ w, AMap.get s.names key = some w ∧ acct s w.value = some a ∧ T ≤ w.expires

/-- The successful event by which the account `a` lets go of the name `key`: a transfer or a bid
acceptance signed by (a spelling of) `a`, or somebody's purchase through a stored listing that `a`
created (origin recorded in the ghost). -/
def GaveAway (s : State) (g : Ghost) (a key : String) (h : Int) (op : Op) : Prop :=
  (step s h op).isSome ∧
  ((∃ c raw n r, op = .transfer c raw n r ∧ keyOf n = some key ∧ acct s c = some a) ∨
   (∃ c raw n b, op = .acceptBid c raw n b ∧ keyOf n = some key ∧ acct s c = some a) ∨
   (∃ c raw n sale o, op = .buy c raw n ∧ keyOf n = some key ∧ AMap.get s.forsale n = some sale ∧
      AMap.get g n = some o ∧ CreatedByOwner s sale o ∧ o.account = some a))

/-- One delivered message at a height within the term: the name is still `a`'s with the term
intact — or this very message is `a` giving it away. -/
theorem owned_stepT {s : State} {g : Ghost} (hcan : CanonIdem s) (hinv : ListingInv s g)
    {key a : String} {T : Int} (hown : OwnedFor s key a T) {h : Int} (hT : h ≤ T) (op : Op) :
    OwnedFor (stepT s h op) key a T ∨ GaveAway s g a key h op := by
  obtain ⟨w, hw, ha, hTw⟩ := hown
  have hlive : h ≤ w.expires := Int.le_trans hT hTw
  unfold stepT
  cases hs : step s h op with
  | none => left; exact ⟨w, by simpa using hw, ha, hTw⟩
  | some s' =>
    have hacct : ∀ x, acct s' x = acct s x := acct_step hs
    have hwa : ∀ c, acct s c = some w.value → acct s c = some a := by
      intro c hc
      have := hcan _ _ hc
      rw [this] at ha; rw [hc]; exact ha
    simp only [Option.getD_some]
    rcases step_live_name hw hlive hs with h1 | ⟨c, raw, n, sale, hop, hkey, hsale, hso, -, -⟩ |
        ⟨c, raw, n, r, hop, hkey, hc, -⟩ | ⟨c, raw, n, b, bd, hop, hkey, hc, -, -⟩ | ⟨w', h5, hv, hle, -⟩
    · left; exact ⟨w, h1, by rw [hacct]; exact ha, hTw⟩
    · right
      obtain ⟨o, ho, hcr⟩ := hinv n sale hsale
      refine ⟨by simp [hs], Or.inr (Or.inr ⟨c, raw, n, sale, o, hop, hkey, hsale, ho, hcr, ?_⟩)⟩
      obtain ⟨-, ⟨a', ha1, ha2⟩, -⟩ := hcr
      rw [hso, ha] at ha2
      rw [ha1, ha2]
    · right; exact ⟨by simp [hs], Or.inl ⟨c, raw, n, r, hop, hkey, hwa c hc⟩⟩
    · right; exact ⟨by simp [hs], Or.inr (Or.inl ⟨c, raw, n, b, hop, hkey, hwa c hc⟩)⟩
    · left; exact ⟨w', h5, by rw [hacct, hv]; exact ha, Int.le_trans hTw hle⟩

theorem canonIdem_stepT {s : State} (hc : CanonIdem s) (h : Int) (op : Op) : CanonIdem (stepT s h op) := by
  intro x y hxy
  rw [acct_stepT] at hxy ⊢
  exact hc x y hxy

/-- Along a list of events all delivered within the term: at the end the name is still `a`'s with
the term intact — or at some point of the run, up to which it was, `a` gave it away. -/
theorem owned_run (evs : List (Int × Op)) :
    ∀ (s : State) (g : Ghost), CanonIdem s → ListingInv s g →
      ∀ (key a : String) (T : Int), OwnedFor s key a T → (∀ e ∈ evs, e.1 ≤ T) →
      OwnedFor (run s evs) key a T ∨
      ∃ pre e post, evs = pre ++ e :: post ∧ OwnedFor (run s pre) key a T ∧
        GaveAway (run s pre) (ghostRun s g pre) a key e.1 e.2 := by
  induction evs with
  | nil => intro s g _ _ key a T hown _; left; exact hown
  | cons e rest ih =>
    intro s g hcan hinv key a T hown hall
    obtain ⟨h, op⟩ := e
    rcases owned_stepT hcan hinv hown (hall (h, op) (by simp)) op with hkeep | hgone
    · rcases ih (stepT s h op) (ghostStep s g h op) (canonIdem_stepT hcan h op)
          (listingInv_stepT hinv h op) key a T hkeep
          (fun e he => hall e (List.mem_cons_of_mem _ he)) with hfin | ⟨pre, e, post, hsplit, hpre, hg⟩
      · left; exact hfin
      · right
        exact ⟨(h, op) :: pre, e, post, by rw [hsplit]; rfl, hpre, hg⟩
    · right; exact ⟨[], (h, op), rest, rfl, hown, hgone⟩

/-- what a message must look like to be a way for `a` to let go of `key` (read off the message
alone): a transfer or bid acceptance of that name signed by a spelling of `a`, or any purchase of it -/
def MayGiveAway (s : State) (a key : String) : Op → Prop
  | .transfer c _ n _ => acct s c = some a ∧ keyOf n = some key
  | .acceptBid c _ n _ => acct s c = some a ∧ keyOf n = some key
  | .buy _ _ n => keyOf n = some key
  | _ => False

theorem GaveAway.may {s s0 : State} {g : Ghost} {a key : String} {h : Int} {op : Op}
    (hg : GaveAway s g a key h op) (hacct : ∀ x, acct s x = acct s0 x) : MayGiveAway s0 a key op := by
  obtain ⟨-, ⟨c, raw, n, r, rfl, hk, hc⟩ | ⟨c, raw, n, b, rfl, hk, hc⟩ | ⟨c, raw, n, sale, o, rfl, hk, -⟩⟩ := hg
  · exact ⟨by rw [← hacct]; exact hc, hk⟩
  · exact ⟨by rw [← hacct]; exact hc, hk⟩
  · exact hk

end Canine.Rns
