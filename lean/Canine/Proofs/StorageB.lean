/-
Helper lemmas for C03 (reward block) and C12 (payment gauges): integer facts about the exact
`sdk.Dec` operations (`chopRound`, `Quo` of two whole numbers, `Mul` by a whole number, `Truncate`),
a generic invariant lemma for `List.foldlM` in `Except`, and frame lemmas for `manageProof`.
Core Lean only.
-/
import Canine.Storage.Reward
import Canine.Proofs.Bank
namespace Canine

/-! ### `chopRound` -/

theorem chopRoundNat_nonneg' (x : Int) (h : 0 ≤ x) : 0 ≤ chopRoundNat x := by
  unfold chopRoundNat precision fivePrecision
  simp only
  split
  · omega
  · split
    · omega
    · split
      · omega
      · split <;> omega

/-- `chopRoundNat x` is `x / 10^18` rounded to nearest: within half a unit. -/
theorem chopRoundNat_bounds (x : Int) :
    2 * chopRoundNat x * precision ≤ 2 * x + precision ∧ 2 * x - precision ≤ 2 * chopRoundNat x * precision := by
  unfold chopRoundNat precision fivePrecision
  simp only
  split
  · omega
  · split
    · omega
    · split
      · omega
      · split <;> omega

/-- banker's rounding is monotone -/
theorem chopRoundNat_mono (x y : Int) (h : x ≤ y) : chopRoundNat x ≤ chopRoundNat y := by
  unfold chopRoundNat precision fivePrecision
  simp only
  split <;> split <;> (try split) <;> (try split) <;> (try split) <;> (try split) <;> (try split) <;> (try split) <;> omega

theorem chopRound_of_nonneg (x : Int) (h : 0 ≤ x) : chopRound x = chopRoundNat x := by
  unfold chopRound; split
  · omega
  · rfl

theorem chopRound_mono_nonneg (x y : Int) (hx : 0 ≤ x) (h : x ≤ y) : chopRound x ≤ chopRound y := by
  rw [chopRound_of_nonneg x hx, chopRound_of_nonneg y (by omega)]
  exact chopRoundNat_mono x y h

/-- rounding a whole number of units is exact (any sign) -/
theorem chopRound_mul_precision (n : Int) : chopRound (n * precision) = n := by
  unfold chopRound chopRoundNat precision fivePrecision
  simp only
  split
  · split
    · omega
    · omega
  · split
    · omega
    · omega

theorem precision_pos : 0 < precision := by unfold precision; omega
theorem precision_ge_two : 2 ≤ precision := by unfold precision; omega

namespace Dec

/-- `Mul` by a whole number is exact (no rounding happens), for every sign -/
theorem mul_ofInt_exact (a : Dec) (R : Int) : (Dec.mul a (Dec.ofInt R)).raw = a.raw * R := by
  unfold Dec.mul Dec.ofInt
  simp only
  rw [← Int.mul_assoc]
  exact chopRound_mul_precision _

theorem trunc_of_nonneg (a : Dec) (h : 0 ≤ a.raw) : Dec.trunc a = a.raw / precision := by
  unfold Dec.trunc chopTrunc tdiv
  have := precision_pos
  simp only [h, if_true, show (0:Int) ≤ precision by omega]

/-- `Truncate` of a non-negative decimal is the floor, characterised by multiplication -/
theorem trunc_bounds (a : Dec) (h : 0 ≤ a.raw) :
    Dec.trunc a * precision ≤ a.raw ∧ a.raw < Dec.trunc a * precision + precision := by
  rw [trunc_of_nonneg a h]
  unfold precision; omega

/-- subtracting a whole number commutes with truncation (for non-negative results) -/
theorem trunc_sub_ofInt (x : Dec) (W : Int) (hW : 0 ≤ W) (h : W * precision ≤ x.raw) :
    Dec.trunc (Dec.sub x (Dec.ofInt W)) = Dec.trunc x - W := by
  have hp := precision_pos
  have hx : 0 ≤ x.raw := Int.le_trans (Int.mul_nonneg hW (by omega)) h
  rw [trunc_of_nonneg x hx, trunc_of_nonneg _ (by simp only [Dec.sub, Dec.ofInt]; omega)]
  simp only [Dec.sub, Dec.ofInt]
  unfold precision at *; omega

/-- the quotient of two whole numbers (non-negative over positive) -/
theorem quo_ofInt (w T : Int) (hw : 0 ≤ w) (hT : 0 < T) :
    Dec.quo? (Dec.ofInt w) (Dec.ofInt T) = some ⟨chopRoundNat (w * precision * precision / T)⟩ := by
  have hp := precision_pos
  have h1 : T * precision ≠ 0 := Int.ne_of_gt (Int.mul_pos hT hp)
  have h2 : 0 ≤ w * precision * precision * precision :=
    Int.mul_nonneg (Int.mul_nonneg (Int.mul_nonneg hw (by omega)) (by omega)) (by omega)
  have h3 : 0 ≤ T * precision := Int.le_of_lt (Int.mul_pos hT hp)
  unfold Dec.quo? Dec.ofInt
  simp only [h1, if_false]
  unfold tdiv
  simp only [h2, h3, if_true]
  rw [Int.mul_ediv_mul_of_pos_left _ _ hp]
  rw [chopRound_of_nonneg _ (Int.ediv_nonneg (Int.mul_nonneg (Int.mul_nonneg hw (by omega)) (by omega)) (by omega))]

end Dec


/-! ### pure integer facts (the scale `P` is abstract so that products stay symbolic) -/

/-- rounding `X = ⌊w·P²/T⌋` to the nearest multiple of `P`: `q·T` is within `T/2` (+ a sliver) of `w·P` -/
theorem round_div_bounds (P q X w T : Int) (hP : 0 < P) (hT : 0 < T)
    (h1 : 2 * q * P ≤ 2 * X + P) (h2 : 2 * X - P ≤ 2 * q * P)
    (h3 : X * T ≤ w * P * P) (h4 : w * P * P < X * T + T) :
    2 * (q * T) ≤ 2 * w * P + T ∧ (2 * w * P - T) * P - 2 * T < 2 * (q * T) * P := by
  have hT0 : (0:Int) ≤ T := by omega
  have f1 := Int.mul_le_mul_of_nonneg_right h1 hT0
  have f2 := Int.mul_le_mul_of_nonneg_right h2 hT0
  constructor
  · have : 2 * (q * T) * P ≤ (2 * w * P + T) * P := by
      clear h2 h4 f2; grind
    exact Int.le_of_mul_le_mul_right this hP
  · clear h1 h3 f1; grind

theorem floor_close_upper (P q w T R F pay : Int) (hP : 2 ≤ P) (hT : 0 < T) (hR0 : 0 ≤ R) (hR : R ≤ P)
    (hi : 2*(q*T)*P < (2*w*P+T)*P + 2*T)
    (hF : w*R < F*T + T)
    (hp : pay*P ≤ q*R) : pay ≤ F + 1 := by
  apply Classical.byContradiction
  intro hc
  have hc : F + 2 ≤ pay := by omega
  have hTP : (0:Int) ≤ T*P := by apply Int.mul_nonneg <;> omega
  have s1 : (F+2)*P ≤ q*R := Int.le_trans (Int.mul_le_mul_of_nonneg_right hc (by omega)) hp
  have f1 := Int.mul_le_mul_of_nonneg_right (show 2*(q*T)*P ≤ (2*w*P+T)*P + 2*T - 1 by omega) hR0
  have f2 := Int.mul_le_mul_of_nonneg_right s1 hTP
  have f3 := Int.mul_le_mul_of_nonneg_left hR hTP
  have f4 := Int.mul_le_mul_of_nonneg_right (show w*R ≤ F*T + T - 1 by omega) (show (0:Int) ≤ P*P by apply Int.mul_nonneg <;> omega)
  have f5 := Int.mul_le_mul_of_nonneg_left hR (show (0:Int) ≤ T by omega)
  have f6 := Int.mul_le_mul_of_nonneg_left hP hTP
  have f7 : 0 < P * P := by apply Int.mul_pos <;> omega
  clear hi hF hp hc s1 hR hP
  grind

theorem floor_close_lower (P q w T R F pay : Int) (hP : 2 ≤ P) (hT : 0 < T) (hR0 : 0 ≤ R) (hR : R ≤ P)
    (hi : (2*w*P-T)*P - 2*T < 2*(q*T)*P)
    (hF : F*T ≤ w*R)
    (hp : q*R < pay*P + P) : F - 1 ≤ pay := by
  apply Classical.byContradiction
  intro hc
  have hc : pay + 1 ≤ F - 1 := by omega
  have hTP : (0:Int) ≤ T*P := by apply Int.mul_nonneg <;> omega
  have s1 : q*R ≤ (F-1)*P - 1 := by
    have := Int.mul_le_mul_of_nonneg_right hc (show (0:Int) ≤ P by omega)
    have e : (pay + 1) * P = pay * P + P := by rw [Int.add_mul]; omega
    omega
  have g1 := Int.mul_le_mul_of_nonneg_right (show (2*w*P-T)*P - 2*T + 1 ≤ 2*(q*T)*P by omega) hR0
  have g2 := Int.mul_le_mul_of_nonneg_right s1 hTP
  have g3 := Int.mul_le_mul_of_nonneg_right hF (show (0:Int) ≤ P*P by apply Int.mul_nonneg <;> omega)
  have g4 := Int.mul_le_mul_of_nonneg_left hR hTP
  have g5 := Int.mul_le_mul_of_nonneg_left hR (show (0:Int) ≤ T by omega)
  have g6 : 0 < T * (P * P) := by apply Int.mul_pos; omega; apply Int.mul_pos <;> omega
  clear hi hF hp hc s1 hR hP
  grind


/-- raw value (units of 10^-18) of the share `w / T` as `sdk.Dec` computes it -/
def rawShare (T w : Int) : Int := chopRoundNat (w * precision * precision / T)

theorem rawShare_nonneg (T w : Int) (hw : 0 ≤ w) (hT : 0 < T) : 0 ≤ rawShare T w := by
  have hp := precision_pos
  exact chopRoundNat_nonneg' _ (Int.ediv_nonneg (Int.mul_nonneg (Int.mul_nonneg hw (by omega)) (by omega)) (by omega))

/-- `quo_ofInt_bounds`: the share's raw value times `T` is within `T/2` (plus a sliver on the low
side, from the inner truncated division) of `w·10^18` -/
theorem quo_ofInt_bounds (w T : Int) (hT : 0 < T) :
    2 * (rawShare T w * T) ≤ 2 * w * precision + T ∧
    (2 * w * precision - T) * precision - 2 * T < 2 * (rawShare T w * T) * precision := by
  have hb := chopRoundNat_bounds (w * precision * precision / T)
  have h3 : w * precision * precision / T * T ≤ w * precision * precision := Int.ediv_mul_le _ (by omega)
  have h4 : w * precision * precision < w * precision * precision / T * T + T := by
    have h := Int.lt_ediv_add_one_mul_self (w * precision * precision) hT
    rw [Int.add_mul] at h; omega
  exact round_div_bounds precision _ _ w T precision_pos hT hb.1 hb.2 h3 h4

theorem rawShare_mono (T w1 w2 : Int) (hT : 0 < T) (h : w1 ≤ w2) : rawShare T w1 ≤ rawShare T w2 := by
  have hp := precision_pos
  apply chopRoundNat_mono
  apply Int.ediv_le_ediv hT
  apply Int.mul_le_mul_of_nonneg_right _ (by omega)
  apply Int.mul_le_mul_of_nonneg_right h (by omega)

theorem rawShare_self (T : Int) (hT : 0 < T) : rawShare T T = precision := by
  unfold rawShare
  have : T * precision * precision / T = precision * precision := by
    rw [Int.mul_assoc, Int.mul_comm, Int.mul_ediv_cancel _ (by omega)]
  rw [this]
  have := chopRound_mul_precision precision
  rwa [chopRound_of_nonneg _ (Int.mul_nonneg (Int.le_of_lt precision_pos) (Int.le_of_lt precision_pos))] at this

theorem rawShare_zero (T : Int) : rawShare T 0 = 0 := by
  unfold rawShare; simp; decide

theorem rawShare_le_one (T w : Int) (hT : 0 < T) (h : w ≤ T) : rawShare T w ≤ precision := by
  rw [← rawShare_self T hT]; exact rawShare_mono T w T hT h



theorem quo_ofInt_eq (w T : Int) (hw : 0 ≤ w) (hT : 0 < T) :
    Dec.quo? (Dec.ofInt w) (Dec.ofInt T) = some ⟨rawShare T w⟩ := Dec.quo_ofInt w T hw hT

/-- what one prover is paid of a released amount `R` for weight `w` out of `T` -/
def payout (T R w : Int) : Int :=
  Dec.trunc (Dec.mul ((Dec.quo? (Dec.ofInt w) (Dec.ofInt T)).getD Dec.zero) (Dec.ofInt R))

theorem payout_bounds (T R w : Int) (hw : 0 ≤ w) (hT : 0 < T) (hR : 0 ≤ R) :
    payout T R w * precision ≤ rawShare T w * R ∧ rawShare T w * R < payout T R w * precision + precision := by
  unfold payout
  rw [quo_ofInt_eq w T hw hT]
  simp only [Option.getD_some]
  have h := Dec.trunc_bounds (Dec.mul ⟨rawShare T w⟩ (Dec.ofInt R))
    (by rw [Dec.mul_ofInt_exact]; exact Int.mul_nonneg (rawShare_nonneg T w hw hT) hR)
  rw [Dec.mul_ofInt_exact] at h
  exact h

theorem payout_nonneg (T R w : Int) (hw : 0 ≤ w) (hT : 0 < T) (hR : 0 ≤ R) : 0 ≤ payout T R w := by
  have h := (payout_bounds T R w hw hT hR).2
  have h2 := Int.mul_nonneg (rawShare_nonneg T w hw hT) hR
  have hp := precision_pos
  apply Classical.byContradiction; intro hc
  have : payout T R w + 1 ≤ 0 := by omega
  have := Int.mul_le_mul_of_nonneg_right this (show (0:Int) ≤ precision by omega)
  rw [Int.add_mul] at this
  omega

theorem payout_close (T R w : Int) (hw : 0 ≤ w) (hT : 0 < T) (hR0 : 0 ≤ R) (hR : R ≤ precision) :
    payout T R w ≤ w * R / T + 1 ∧ w * R / T - 1 ≤ payout T R w := by
  obtain ⟨b1, b2⟩ := quo_ofInt_bounds w T hT
  obtain ⟨p1, p2⟩ := payout_bounds T R w hw hT hR0
  have hF1 : w * R / T * T ≤ w * R := Int.ediv_mul_le _ (by omega)
  have hF2 : w * R < w * R / T * T + T := by
    have h := Int.lt_ediv_add_one_mul_self (w * R) hT
    rw [Int.add_mul] at h; omega
  have hp := precision_pos
  constructor
  · refine floor_close_upper precision (rawShare T w) w T R _ _ precision_ge_two hT hR0 hR ?_ hF2 p1
    have := Int.mul_le_mul_of_nonneg_right b1 (show (0:Int) ≤ precision by omega)
    omega
  · exact floor_close_lower precision (rawShare T w) w T R _ _ precision_ge_two hT hR0 hR b2 hF1 p2

/-- sums over a list of weights -/
theorem payout_sums (T R : Int) (hT : 0 < T) (hR : 0 ≤ R) : ∀ (ws : List Int), (∀ w ∈ ws, 0 ≤ w) →
    (ws.map (payout T R)).sum * precision ≤ (ws.map (rawShare T)).sum * R ∧
    2 * ((ws.map (rawShare T)).sum * T) ≤ 2 * ws.sum * precision + (ws.length : Int) * T
  | [], _ => by simp
  | w :: ws, h => by
    obtain ⟨i1, i2⟩ := payout_sums T R hT hR ws (fun x hx => h x (List.mem_cons_of_mem _ hx))
    obtain ⟨p1, _⟩ := payout_bounds T R w (h w (by simp)) hT hR
    obtain ⟨b1, _⟩ := quo_ofInt_bounds w T hT
    simp only [List.map_cons, List.sum_cons, List.length_cons]
    constructor
    · rw [Int.add_mul, Int.add_mul]; omega
    · grind

theorem payout_sum_le (T R : Int) (ws : List Int) (hT : 0 < T) (hR : 0 ≤ R) (hws : ∀ w ∈ ws, 0 ≤ w)
    (hsum : ws.sum ≤ T) (hside : (ws.length : Int) * R < 2 * precision) :
    (ws.map (payout T R)).sum ≤ R := by
  obtain ⟨i1, i2⟩ := payout_sums T R hT hR ws hws
  generalize (ws.map (payout T R)).sum = S at *
  generalize (ws.map (rawShare T)).sum = Q at *
  generalize ws.sum = W at *
  generalize (ws.length : Int) = n at *
  have hp := precision_pos
  apply Classical.byContradiction; intro hc
  have hc : R + 1 ≤ S := by omega
  have hPT : (0:Int) ≤ precision * T := Int.mul_nonneg (by omega) (by omega)
  have a0 := Int.mul_le_mul_of_nonneg_right hc hPT
  have a1 := Int.mul_le_mul_of_nonneg_right i1 (show (0:Int) ≤ T by omega)
  have a2 := Int.mul_le_mul_of_nonneg_right i2 hR
  have a3 := Int.mul_le_mul_of_nonneg_right hsum (Int.mul_nonneg (show (0:Int) ≤ precision by omega) hR)
  have a4 := Int.mul_le_mul_of_nonneg_right (show n * R + 1 ≤ 2 * precision by omega) (show (0:Int) ≤ T by omega)
  have a5 : 0 < precision * T := Int.mul_pos hp hT
  clear i1 i2 hc hsum hside
  generalize precision = P at *
  grind



end Canine

namespace Canine.Storage

/-! ### `manageProof`: what one step of the per-file loop does -/

/-- the prover listed under `pk` met its obligation at the reward block of height `h` -/
def passes (s : State) (h : Int) (file : File) (pk : PKey) : Bool :=
  match AMap.get s.proofs pk with
  | some p => isYoung h file.start file.proofInterval || provenLastBlock h file.start file.proofInterval p.lastProven
  | none => isYoung h file.start file.proofInterval

/-- the tracker name credited for `pk`: the record's prover, or "" (the zero-valued proof) -/
def creditName (s : State) (pk : PKey) : String :=
  match AMap.get s.proofs pk with
  | some p => p.prover
  | none => ""

theorem passes_congr {s s' : State} {h : Int} {f f' : File} {pk : PKey}
    (h1 : AMap.get s'.proofs pk = AMap.get s.proofs pk) (h2 : f'.start = f.start)
    (h3 : f'.proofInterval = f.proofInterval) : passes s' h f' pk = passes s h f pk := by
  unfold passes; rw [h1, h2, h3]

theorem creditName_congr {s s' : State} {pk : PKey}
    (h1 : AMap.get s'.proofs pk = AMap.get s.proofs pk) : creditName s' pk = creditName s pk := by
  unfold creditName; rw [h1]

theorem manageProof_pass (s : State) (h : Int) (t : Tracker) (f : File) (pk : PKey)
    (hp : passes s h f pk = true) :
    manageProof s h t f pk = (s, credit t (creditName s pk) f.fileSize, f) := by
  unfold passes at hp
  unfold manageProof creditName
  cases hg : AMap.get s.proofs pk with
  | none => simp only [hg] at hp ⊢; simp [hp]
  | some p =>
    simp only [hg] at hp ⊢
    have : (!provenLastBlock h f.start f.proofInterval p.lastProven && !isYoung h f.start f.proofInterval) = false := by
      cases h1 : provenLastBlock h f.start f.proofInterval p.lastProven <;> cases h2 : isYoung h f.start f.proofInterval <;> simp_all
    simp [this]

/-- the state after `RemoveProverWithKey` + `Save` for a listed key -/
def dropProver (s : State) (f : File) (pk : PKey) : State × File :=
  let f' := { f with proofs := f.proofs.filter (· ≠ pk) }
  ({ setFile s f' with proofs := AMap.erase s.proofs pk }, f')

theorem removeProver_mem (s : State) (f : File) (pk : PKey) (hm : pk ∈ f.proofs) :
    removeProver s f pk = dropProver s f pk := by
  unfold removeProver dropProver
  simp [hm]

theorem manageProof_fail (s : State) (h : Int) (t : Tracker) (f : File) (pk : PKey)
    (hp : passes s h f pk = false) (hm : pk ∈ f.proofs) :
    manageProof s h t f pk =
      (if (AMap.get s.proofs pk).isSome then burnContract (dropProver s f pk).1 pk.1 else (dropProver s f pk).1,
       t, (dropProver s f pk).2) := by
  unfold passes at hp
  unfold manageProof
  rw [removeProver_mem s f pk hm]
  cases hg : AMap.get s.proofs pk with
  | none => simp only [hg] at hp ⊢; simp [hp]
  | some p =>
    simp only [hg] at hp ⊢
    have : (!provenLastBlock h f.start f.proofInterval p.lastProven && !isYoung h f.start f.proofInterval) = true := by
      cases h1 : provenLastBlock h f.start f.proofInterval p.lastProven <;> cases h2 : isYoung h f.start f.proofInterval <;> simp_all
    simp [this]

/-- `n` more burned contracts -/
def bump (n : Int) (p : Provider) : Provider := { p with burned := p.burned.map (· + n) }

theorem bump_zero (p : Provider) : bump 0 p = p := by
  cases p; simp [bump]

theorem bump_bump (n m : Int) (p : Provider) : bump m (bump n p) = bump (n + m) p := by
  cases p with
  | mk a b c d e f g => cases d <;> simp [bump, Int.add_assoc]

theorem burnContract_providers (s : State) (x y : String) :
    AMap.get (burnContract s x).providers y = (AMap.get s.providers y).map (bump (if x = y then 1 else 0)) := by
  unfold burnContract
  by_cases hxy : x = y
  · subst hxy
    simp only [if_true]
    cases hg : AMap.get s.providers x with
    | none => simp [hg]
    | some p =>
      simp only
      cases hb : p.burned with
      | none => simp only [hg, Option.map_some]; cases p; simp_all [bump]
      | some b => simp only [AMap.get_set_self, Option.map_some]; cases p; simp_all [bump]
  · simp only [hxy, if_false]
    have hz : (AMap.get s.providers y).map (bump 0) = AMap.get s.providers y := by
      cases AMap.get s.providers y <;> simp [bump_zero]
    rw [hz]
    cases hg : AMap.get s.providers x with
    | none => rfl
    | some p =>
      simp only
      cases hb : p.burned with
      | none => rfl
      | some b => simp only [AMap.get_set_other _ _ _ _ hxy]

/-- the fields of the state that the per-file loop never touches -/
def SameRest (s' s : State) : Prop :=
  s'.payinfo = s.payinfo ∧ s'.collateral = s.collateral ∧ s'.gauges = s.gauges ∧ s'.attests = s.attests ∧
  s'.reports = s.reports ∧ s'.bank = s.bank ∧ s'.params = s.params ∧ s'.moduleAcc = s.moduleAcc ∧
  s'.collateralAcc = s.collateralAcc ∧ s'.polAcc = s.polAcc ∧ s'.feeAcc = s.feeAcc ∧ s'.blocked = s.blocked

theorem SameRest.refl (s : State) : SameRest s s := by simp [SameRest]
theorem SameRest.trans {a b c : State} (h1 : SameRest a b) (h2 : SameRest b c) : SameRest a c := by
  unfold SameRest at *; grind

theorem burnContract_rest (s : State) (x : String) :
    SameRest (burnContract s x) s ∧ (burnContract s x).files = s.files ∧ (burnContract s x).files2 = s.files2 ∧
    (burnContract s x).proofs = s.proofs := by
  unfold burnContract
  split
  · simp [SameRest]
  · split <;> simp [SameRest]



/-- failing keys of `l` that have a proof record and sit under provider address `x` -/
def burnsOf (s : State) (h : Int) (f : File) (l : List PKey) (x : String) : Nat :=
  l.countP (fun pk => !passes s h f pk && (AMap.get s.proofs pk).isSome && decide (pk.1 = x))

/-- passing keys of `l` whose credited name is `a` -/
def creditsOf (s : State) (h : Int) (f : File) (l : List PKey) (a : String) : Nat :=
  l.countP (fun pk => passes s h f pk && decide (creditName s pk = a))

theorem credit_getD (t : Tracker) (n a : String) (x : Int) :
    (AMap.get (credit t n x) a).getD 0 = (AMap.get t a).getD 0 + (if n = a then x else 0) := by
  unfold credit
  rw [AMap.get_set]
  by_cases hna : n = a
  · subst hna; simp
  · simp [hna]

/-- the loop of `manageFile` from an arbitrary intermediate point -/
def runProofs (h : Int) (l : List PKey) (s : State) (t : Tracker) (f : File) : State × Tracker × File :=
  l.foldl (fun (acc : State × Tracker × File) pk => manageProof acc.1 h acc.2.1 acc.2.2 pk) (s, t, f)

theorem runProofs_cons (h : Int) (pk : PKey) (l : List PKey) (s : State) (t : Tracker) (f : File) :
    runProofs h (pk :: l) s t f =
      runProofs h l (manageProof s h t f pk).1 (manageProof s h t f pk).2.1 (manageProof s h t f pk).2.2 := rfl

structure LoopSpec (h : Int) (l : List PKey) (s : State) (t : Tracker) (f : File)
    (r : State × Tracker × File) : Prop where
  file : r.2.2 = { f with proofs := f.proofs.filter (fun q => !decide (q ∈ l) || passes s h f q) }
  files : ∀ k, AMap.get r.1.files k = if k = f.key then some r.2.2 else AMap.get s.files k
  files2 : ∀ k, AMap.get r.1.files2 k = if k = f.key then some r.2.2 else AMap.get s.files2 k
  proofs : ∀ q, AMap.get r.1.proofs q = if q ∈ l ∧ passes s h f q = false then none else AMap.get s.proofs q
  providers : ∀ x, AMap.get r.1.providers x = (AMap.get s.providers x).map (bump (burnsOf s h f l x))
  tracker : ∀ a, (AMap.get r.2.1 a).getD 0 = (AMap.get t a).getD 0 + f.fileSize * (creditsOf s h f l a)
  rest : SameRest r.1 s

/-- facts about the state after a failing step -/
theorem failStep_facts (s : State) (f : File) (pk : PKey) :
    let s1 := if (AMap.get s.proofs pk).isSome then burnContract (dropProver s f pk).1 pk.1 else (dropProver s f pk).1
    let f1 := (dropProver s f pk).2
    s1.files = AMap.set s.files f.key f1 ∧ s1.files2 = AMap.set s.files2 f.key f1 ∧
    s1.proofs = AMap.erase s.proofs pk ∧
    (∀ x, AMap.get s1.providers x =
      (AMap.get s.providers x).map (bump (if (AMap.get s.proofs pk).isSome ∧ pk.1 = x then 1 else 0))) ∧
    SameRest s1 s := by
  intro s1 f1
  have hd : (dropProver s f pk).1.files = AMap.set s.files f.key f1 ∧
      (dropProver s f pk).1.files2 = AMap.set s.files2 f.key f1 ∧
      (dropProver s f pk).1.proofs = AMap.erase s.proofs pk ∧
      (dropProver s f pk).1.providers = s.providers ∧ SameRest (dropProver s f pk).1 s := by
    simp [dropProver, setFile, SameRest, File.key, f1]
  obtain ⟨d1, d2, d3, d4, d5⟩ := hd
  cases hr : (AMap.get s.proofs pk).isSome
  · have : s1 = (dropProver s f pk).1 := by simp [s1, hr]
    rw [this]
    refine ⟨d1, d2, d3, ?_, d5⟩
    intro x; rw [d4]
    cases AMap.get s.providers x <;> simp [bump_zero]
  · have : s1 = burnContract (dropProver s f pk).1 pk.1 := by simp [s1, hr]
    rw [this]
    obtain ⟨b1, b2, b3, b4⟩ := burnContract_rest (dropProver s f pk).1 pk.1
    refine ⟨by rw [b2, d1], by rw [b3, d2], by rw [b4, d3], ?_, b1.trans d5⟩
    intro x
    rw [burnContract_providers, d4]
    simp

theorem runProofs_spec (h : Int) : ∀ (l : List PKey) (s : State) (t : Tracker) (f : File),
    l.Nodup → (∀ pk ∈ l, pk ∈ f.proofs) →
    AMap.get s.files f.key = some f → AMap.get s.files2 f.key = some f →
    LoopSpec h l s t f (runProofs h l s t f)
  | [], s, t, f, _, _, hf, hf2 => by
    have e : ({ f with proofs := f.proofs.filter (fun q => !decide (q ∈ ([] : List PKey)) || passes s h f q) } : File) = f := by
      cases f; simp
    refine ⟨by simp only [runProofs, List.foldl_nil]; exact e.symm, ?_, ?_, by simp [runProofs], ?_, by simp [runProofs, creditsOf], SameRest.refl s⟩
    · intro k; simp only [runProofs, List.foldl_nil]
      split
      · rename_i hk; rw [hk, hf]
      · rfl
    · intro k; simp only [runProofs, List.foldl_nil]
      split
      · rename_i hk; rw [hk, hf2]
      · rfl
    · intro x; simp only [runProofs, List.foldl_nil, burnsOf, List.countP_nil]
      cases AMap.get s.providers x <;> simp [bump_zero]
  | pk :: l, s, t, f, hnd, hsub, hf, hf2 => by
    have hpk : pk ∉ l := (List.nodup_cons.mp hnd).1
    have hnd' : l.Nodup := (List.nodup_cons.mp hnd).2
    have hm : pk ∈ f.proofs := hsub pk (by simp)
    rw [runProofs_cons]
    cases hp : passes s h f pk
    · -- failing prover
      rw [manageProof_fail s h t f pk hp hm]
      simp only
      obtain ⟨e1, e2, e3, e4, e5⟩ := failStep_facts s f pk
      generalize hs1 : (if (AMap.get s.proofs pk).isSome then burnContract (dropProver s f pk).1 pk.1 else (dropProver s f pk).1) = s1 at *
      have hf1 : (dropProver s f pk).2 = { f with proofs := f.proofs.filter (· ≠ pk) } := rfl
      generalize (dropProver s f pk).2 = f1 at *
      have hk1 : f1.key = f.key := by rw [hf1]; rfl
      have ih := runProofs_spec h l s1 t f1 hnd'
        (by intro q hq; rw [hf1]; simp only [List.mem_filter]
            exact ⟨hsub q (List.mem_cons_of_mem _ hq), by simp; intro e; exact hpk (e ▸ hq)⟩)
        (by rw [hk1, e1]; simp) (by rw [hk1, e2]; simp)
      have hpass : ∀ q, q ≠ pk → passes s1 h f1 q = passes s h f q := fun q hq =>
        passes_congr (by rw [e3, AMap.get_erase_other _ _ _ (Ne.symm hq)]) (by rw [hf1]) (by rw [hf1])
      have hname : ∀ q, q ≠ pk → creditName s1 q = creditName s q := fun q hq =>
        creditName_congr (by rw [e3, AMap.get_erase_other _ _ _ (Ne.symm hq)])
      have hget : ∀ q, q ≠ pk → AMap.get s1.proofs q = AMap.get s.proofs q := fun q hq => by
        rw [e3, AMap.get_erase_other _ _ _ (Ne.symm hq)]
      generalize runProofs h l s1 t f1 = r at *
      obtain ⟨i1, i2, i3, i4, i5, i6, i7⟩ := ih
      have hfile : r.2.2 = { f with proofs := f.proofs.filter (fun q => !decide (q ∈ pk :: l) || passes s h f q) } := by
        rw [i1]
        subst hf1
        simp only [List.filter_filter]
        congr 1
        apply List.filter_congr
        intro q _
        by_cases hq : q = pk
        · subst hq; simp [hp]
        · rw [hpass q hq]; simp [hq]
      refine ⟨hfile, ?_, ?_, ?_, ?_, ?_, i7.trans e5⟩
      · intro k; rw [i2 k, hk1, e1, AMap.get_set]
        by_cases hk : k = f.key
        · simp [hk]
        · simp [hk, Ne.symm hk]
      · intro k; rw [i3 k, hk1, e2, AMap.get_set]
        by_cases hk : k = f.key
        · simp [hk]
        · simp [hk, Ne.symm hk]
      · intro q; rw [i4 q]
        by_cases hq : q = pk
        · subst hq; simp [hpk, hp, e3]
        · simp [hq, hpass q hq, hget q hq]
      · intro x; rw [i5 x, e4 x, Option.map_map]
        have hc : burnsOf s1 h f1 l x = burnsOf s h f l x := by
          unfold burnsOf
          apply List.countP_congr
          intro q hq
          have hne : q ≠ pk := fun e => hpk (e ▸ hq)
          rw [hpass q hne, hget q hne]
        rw [hc]
        have hb : (burnsOf s h f (pk :: l) x : Int) =
            (if (AMap.get s.proofs pk).isSome = true ∧ pk.1 = x then 1 else 0) + (burnsOf s h f l x : Int) := by
          unfold burnsOf
          rw [List.countP_cons]
          simp only [hp, Bool.not_false, Bool.true_and, Bool.and_eq_true, decide_eq_true_eq]
          split <;> simp <;> omega
        rw [hb]
        cases AMap.get s.providers x with
        | none => rfl
        | some p => simp [bump_bump]
      · intro a
        have hsz : f1.fileSize = f.fileSize := by rw [hf1]
        rw [i6 a, hsz]
        have hc : creditsOf s1 h f1 l a = creditsOf s h f l a := by
          unfold creditsOf
          apply List.countP_congr
          intro q hq
          have hne : q ≠ pk := fun e => hpk (e ▸ hq)
          rw [hpass q hne, hname q hne]
        rw [hc]
        have hb : creditsOf s h f (pk :: l) a = creditsOf s h f l a := by
          unfold creditsOf; rw [List.countP_cons]; simp [hp]
        rw [hb]
    · -- passing prover
      rw [manageProof_pass s h t f pk hp]
      simp only
      have ih := runProofs_spec h l s (credit t (creditName s pk) f.fileSize) f hnd'
        (fun q hq => hsub q (List.mem_cons_of_mem _ hq)) hf hf2
      generalize runProofs h l s (credit t (creditName s pk) f.fileSize) f = r at *
      obtain ⟨i1, i2, i3, i4, i5, i6, i7⟩ := ih
      refine ⟨?_, i2, i3, ?_, ?_, ?_, i7⟩
      · rw [i1]; congr 1
        apply List.filter_congr
        intro q _
        by_cases hq : q = pk
        · subst hq; simp [hp]
        · simp [hq]
      · intro q; rw [i4 q]
        by_cases hq : q = pk
        · subst hq; simp [hpk, hp]
        · simp [hq]
      · intro x; rw [i5 x]
        have hb : burnsOf s h f (pk :: l) x = burnsOf s h f l x := by
          unfold burnsOf; rw [List.countP_cons]; simp [hp]
        rw [hb]
      · intro a; rw [i6 a, credit_getD]
        have hb : (creditsOf s h f (pk :: l) a : Int) = creditsOf s h f l a + (if creditName s pk = a then 1 else 0) := by
          unfold creditsOf
          rw [List.countP_cons]
          simp only [hp, Bool.true_and, decide_eq_true_eq]
          split <;> simp
        rw [hb, Int.mul_add]
        split <;> simp <;> omega



/-! ## Part B: the payout -/

/-- generic invariant rule for `List.foldlM` in `Except`: a reflexive, transitive relation that
every successful step establishes holds between the initial and the final state -/
theorem foldlM_except_rel {σ α ε : Type} (f : σ → α → Except ε σ) (Rel : σ → σ → Prop)
    (hrefl : ∀ s, Rel s s) (htrans : ∀ a b c, Rel a b → Rel b c → Rel a c) :
    ∀ (l : List α) (s s' : σ), (∀ x ∈ l, ∀ a b, f a x = .ok b → Rel a b) → l.foldlM f s = .ok s' → Rel s s'
  | [], s, s', _, h => by
    simp only [List.foldlM_nil, pure, Except.pure] at h
    cases h; exact hrefl s
  | x :: l, s, s', hstep, h => by
    rw [List.foldlM_cons] at h
    cases hx : f s x with
    | error e => rw [hx] at h; simp [bind, Except.bind] at h
    | ok s1 =>
      rw [hx] at h
      simp only [bind, Except.bind] at h
      exact htrans _ _ _ (hstep x (by simp) s s1 hx)
        (foldlM_except_rel f Rel hrefl htrans l s1 s' (fun y hy => hstep y (List.mem_cons_of_mem _ hy)) h)

/-- what `payProver` may do to the ledger: the module account name is kept, no account other than
the paid prover gains, and the module account never gains -/
def PaidOnly (prover : String) (s s' : State) : Prop :=
  s'.moduleAcc = s.moduleAcc ∧ s'.blocked = s.blocked ∧
  (∀ a d, a ≠ prover → Bank.bal s'.bank a d ≤ Bank.bal s.bank a d) ∧
  (∀ d, Bank.bal s'.bank s.moduleAcc d ≤ Bank.bal s.bank s.moduleAcc d)

theorem payProver_paidOnly (s s' : State) (total : Int) (coins : Coins) (prover : String) (worth : Int)
    (h : payProver s total coins prover worth = .ok s') : PaidOnly prover s s' := by
  unfold payProver at h
  split at h
  · cases h
  · rename_i share _
    split at h
    · cases h; exact ⟨rfl, rfl, fun _ _ _ => Int.le_refl _, fun _ => Int.le_refl _⟩
    · refine foldlM_except_rel _ (PaidOnly prover)
        (fun s => ⟨rfl, rfl, fun _ _ _ => Int.le_refl _, fun _ => Int.le_refl _⟩) ?_ coins s s' ?_ h
      · intro a b c ⟨h1, h2, h3, h4⟩ ⟨g1, g2, g3, g4⟩
        refine ⟨g1.trans h1, g2.trans h2, fun x d hx => Int.le_trans (g3 x d hx) (h3 x d hx), fun d => ?_⟩
        have := g4 d; rw [h1] at this
        exact Int.le_trans this (h4 d)
      · intro coin _ a b hab
        simp only at hab
        split at hab
        · cases hab
        · split at hab
          · rename_i bk hbk
            cases hab
            simp only [Option.bind_eq_some_iff] at hbk
            obtain ⟨c, _, hc⟩ := hbk
            unfold sendFromModule at hc
            split at hc
            · cases hc
            · have hb := Bank.bal_send hc
              have hn := Bank.amt_nonneg_of_send hc
              refine ⟨rfl, rfl, ?_, ?_⟩
              · intro x d hx
                rw [hb x d]
                have := hn d
                simp only [Ne.symm hx, if_false]
                split <;> omega
              · intro d
                rw [hb a.moduleAcc d]
                have := hn d
                simp only [if_true]
                split <;> omega
          · cases hab; exact ⟨rfl, rfl, fun _ _ _ => Int.le_refl _, fun _ => Int.le_refl _⟩



/-- whole microseconds of the gauge's life (difference of the `UnixMicro` of the two instants) -/
def totalUs (startT endT : Int) : Int := Int.tdiv endT 1000 - Int.tdiv startT 1000
/-- whole microseconds left at `now` -/
def leftUs (endT now : Int) : Int := Int.tdiv endT 1000 - Int.tdiv now 1000
/-- the elapsed fraction `1 - left/total` as `pullGauge` computes it -/
def ratioAt (startT endT now : Int) : Dec :=
  Dec.sub Dec.one ((Dec.quo? (Dec.ofInt (leftUs endT now)) (Dec.ofInt (totalUs startT endT))).getD Dec.zero)
/-- the cumulative amount a gauge of `A` units has released by `now` -/
def cumulative (startT endT now A : Int) : Int := Dec.trunc (Dec.mul (ratioAt startT endT now) (Dec.ofInt A))

/-- `now` lies in the life of a gauge (Unix nanoseconds, non-negative) whose start and end fall
into different whole microseconds (`endT ≥ startT + 1000` is enough) -/
structure InLife (startT endT now : Int) : Prop where
  epoch : 0 ≤ startT
  started : startT ≤ now
  notEnded : now ≤ endT
  long : startT / 1000 < endT / 1000

theorem totalUs_eq {startT endT now : Int} (h : InLife startT endT now) :
    totalUs startT endT = endT / 1000 - startT / 1000 ∧ 1 ≤ totalUs startT endT := by
  obtain ⟨h0, h1, h2, h3⟩ := h
  unfold totalUs
  rw [Int.tdiv_eq_ediv_of_nonneg (by omega), Int.tdiv_eq_ediv_of_nonneg (by omega)]
  omega

theorem leftUs_eq {startT endT now : Int} (h : InLife startT endT now) :
    leftUs endT now = endT / 1000 - now / 1000 ∧ 0 ≤ leftUs endT now ∧ leftUs endT now ≤ totalUs startT endT ∧
    totalUs startT endT - leftUs endT now = now / 1000 - startT / 1000 := by
  have ht := (totalUs_eq h).1
  obtain ⟨h0, h1, h2, h3⟩ := h
  unfold leftUs
  rw [ht, Int.tdiv_eq_ediv_of_nonneg (by omega), Int.tdiv_eq_ediv_of_nonneg (by omega)]
  omega

theorem ratioAt_raw {startT endT now : Int} (h : InLife startT endT now) :
    Dec.quo? (Dec.ofInt (leftUs endT now)) (Dec.ofInt (totalUs startT endT))
      = some ⟨rawShare (totalUs startT endT) (leftUs endT now)⟩ ∧
    (ratioAt startT endT now).raw = precision - rawShare (totalUs startT endT) (leftUs endT now) := by
  have ht := (totalUs_eq h).2
  have hl := (leftUs_eq h).2.1
  have hq := quo_ofInt_eq (leftUs endT now) (totalUs startT endT) hl (by omega)
  refine ⟨hq, ?_⟩
  unfold ratioAt
  rw [hq]
  simp [Dec.sub, Dec.one, Dec.ofInt]

/-- the released fraction is between 0 and 1 -/
theorem ratioAt_range {startT endT now : Int} (h : InLife startT endT now) :
    0 ≤ (ratioAt startT endT now).raw ∧ (ratioAt startT endT now).raw ≤ precision := by
  rw [(ratioAt_raw h).2]
  have ht := (totalUs_eq h).2
  obtain ⟨_, hl0, hl, _⟩ := leftUs_eq h
  have := rawShare_le_one (totalUs startT endT) (leftUs endT now) (by omega) hl
  have := rawShare_nonneg (totalUs startT endT) (leftUs endT now) hl0 (by omega)
  omega

theorem cumulative_eq {startT endT now : Int} (A : Int) (hA : 0 ≤ A) (h : InLife startT endT now) :
    cumulative startT endT now A = (ratioAt startT endT now).raw * A / precision ∧
    cumulative startT endT now A * precision ≤ (ratioAt startT endT now).raw * A ∧
    (ratioAt startT endT now).raw * A < cumulative startT endT now A * precision + precision := by
  have hr := (ratioAt_range h).1
  have hnn : 0 ≤ (Dec.mul (ratioAt startT endT now) (Dec.ofInt A)).raw := by
    rw [Dec.mul_ofInt_exact]; exact Int.mul_nonneg hr hA
  have hb := Dec.trunc_bounds _ hnn
  unfold cumulative
  rw [Dec.trunc_of_nonneg _ hnn] at *
  rw [Dec.mul_ofInt_exact] at *
  exact ⟨rfl, hb⟩



/-- the gauge account holds something (the emptiness test of `pullGauge`) -/
def accountNonEmpty (s : State) (g : Gauge) : Prop :=
  (s.bank.filter (fun p => p.1.1 = g.account ∧ p.2 ≠ 0)).isEmpty = false

theorem accountNonEmpty_of_bal (s : State) (g : Gauge) (d : String) (h : Bank.bal s.bank g.account d ≠ 0) :
    accountNonEmpty s g := by
  unfold Bank.bal at h
  cases hg : AMap.get s.bank (g.account, d) with
  | none => simp [hg] at h
  | some v =>
    simp [hg] at h
    have hm := AMap.mem_of_get hg
    unfold accountNonEmpty
    rw [List.isEmpty_eq_false_iff]
    intro he
    have : ((g.account, d), v) ∈ s.bank.filter (fun p => p.1.1 = g.account ∧ p.2 ≠ 0) := by
      rw [List.mem_filter]; exact ⟨hm, by simp [h]⟩
    rw [he] at this; simp at this

/-- one release step of a live single-coin gauge, written out -/
theorem pullGauge_live (s : State) (now : Int) (released : Coins) (g : Gauge) (d : String) (A : Int)
    (hc : g.coins = [(d, A)]) (hl : InLife g.startT g.endT now) (hne : accountNonEmpty s g) :
    pullGauge s now released g =
      (let amt := Dec.trunc (Dec.sub (Dec.mul (ratioAt g.startT g.endT now) (Dec.ofInt A))
                    (Dec.ofInt (A - Bank.bal s.bank g.account d)))
       if !(I64.inRange amt) then .error "Int64() out of bound"
       else if amt = 0 then .ok (s, released)
       else if amt < 0 then .error s!"negative coin amount: {amt}"
       else match Bank.send s.bank g.account s.moduleAcc [(d, amt)] with
            | some b => .ok ({ s with bank := b }, pullGauge.addCoinTo released d amt)
            | none => .ok (s, pullGauge.addCoinTo released d amt)) := by
  obtain ⟨hq, hr⟩ := ratioAt_raw hl
  have h1 : ¬ g.endT < now := by have := hl.notEnded; omega
  have h2 : ¬ g.endT ≤ g.startT := by have := hl.long; omega
  unfold accountNonEmpty at hne
  have hrat : Dec.sub Dec.one ⟨rawShare (totalUs g.startT g.endT) (leftUs g.endT now)⟩ = ratioAt g.startT g.endT now := by
    unfold ratioAt; rw [hq]; rfl
  unfold pullGauge
  simp only [h1, h2, if_false, hne]
  unfold totalUs leftUs at hq
  simp only [hq, hc, List.foldlM_cons, List.foldlM_nil]
  unfold totalUs leftUs at hrat
  rw [hrat]
  simp only [Bool.false_eq_true, if_false, bind_pure]
  rfl



/-- the gauge is deleted and nothing is released when it is over, degenerate, or its account is empty -/
theorem pullGauge_dead (s : State) (now : Int) (released : Coins) (g : Gauge)
    (h : g.endT < now ∨ g.endT ≤ g.startT ∨ ¬ accountNonEmpty s g) :
    pullGauge s now released g = .ok ({ s with gauges := AMap.erase s.gauges g.id }, released) := by
  unfold pullGauge
  split
  · rfl
  · split
    · rfl
    · rename_i h1 h2
      rcases h with h | h | h
      · exact absurd h h1
      · exact absurd h h2
      · unfold accountNonEmpty at h
        simp only [Bool.not_eq_false] at h
        simp only [h, if_true]

/-- only ledger entries of the gauge account and of the module account move, by the same amount -/
def GaugeToModule (acc : String) (a b : State) : Prop :=
  b = { a with bank := b.bank } ∧
  (∀ x d, x ≠ acc → x ≠ a.moduleAcc → Bank.bal b.bank x d = Bank.bal a.bank x d) ∧
  (acc ≠ a.moduleAcc → ∀ d, Bank.bal b.bank acc d ≤ Bank.bal a.bank acc d ∧
    Bank.bal b.bank acc d + Bank.bal b.bank a.moduleAcc d = Bank.bal a.bank acc d + Bank.bal a.bank a.moduleAcc d)

theorem GaugeToModule.refl (acc : String) (a : State) : GaugeToModule acc a a :=
  ⟨rfl, fun _ _ _ _ => rfl, fun _ _ => ⟨Int.le_refl _, rfl⟩⟩

theorem GaugeToModule.trans {acc : String} {a b c : State} (h1 : GaugeToModule acc a b) (h2 : GaugeToModule acc b c) :
    GaugeToModule acc a c := by
  obtain ⟨e1, f1, g1⟩ := h1
  obtain ⟨e2, f2, g2⟩ := h2
  have hm : b.moduleAcc = a.moduleAcc := by rw [e1]
  refine ⟨by rw [e2, e1], ?_, ?_⟩
  · intro x d hx hy
    rw [f2 x d hx (by rw [hm]; exact hy), f1 x d hx hy]
  · intro hne d
    have := g1 hne d
    have := g2 (by rw [hm]; exact hne) d
    rw [hm] at this
    omega

theorem pullGauge_frame (s s' : State) (now : Int) (released rel' : Coins) (g : Gauge)
    (h : pullGauge s now released g = .ok (s', rel')) :
    GaugeToModule g.account { s with gauges := s'.gauges } s' ∧
    (s'.gauges = s.gauges ∨ s'.gauges = AMap.erase s.gauges g.id) := by
  unfold pullGauge at h
  split at h
  · cases h; exact ⟨GaugeToModule.refl _ _, Or.inr rfl⟩
  split at h
  · cases h; exact ⟨GaugeToModule.refl _ _, Or.inr rfl⟩
  simp only at h
  split at h
  · cases h; exact ⟨GaugeToModule.refl _ _, Or.inr rfl⟩
  split at h
  · cases h
  rename_i q _
  have key := foldlM_except_rel (σ := State × Coins) _
    (fun a b => GaugeToModule g.account a.1 b.1)
    (fun a => GaugeToModule.refl _ _) (fun a b c => GaugeToModule.trans) g.coins (s, released) (s', rel') ?_ h
  · simp only at key
    have hg : s'.gauges = s.gauges := by rw [key.1]
    rw [hg]
    exact ⟨key, Or.inl rfl⟩
  · intro coin _ a b hab
    obtain ⟨st, rel⟩ := a
    obtain ⟨denom, amount⟩ := coin
    simp only at hab
    split at hab
    · cases hab
    split at hab
    · cases hab; exact GaugeToModule.refl _ _
    split at hab
    · cases hab
    split at hab
    · rename_i bk hbk
      cases hab
      have hb := Bank.bal_send hbk
      have hn := Bank.amt_nonneg_of_send hbk
      refine ⟨rfl, ?_, ?_⟩
      · intro x d hx hy
        rw [hb x d]; simp [Ne.symm hx, Ne.symm hy]
      · intro hne d
        have := hn d
        rw [hb g.account d, hb st.moduleAcc d]
        simp only [if_true, Ne.symm hne, hne, if_false]
        omega
    · cases hab; exact GaugeToModule.refl _ _



/-- bounds of `r = P - q` (elapsed fraction) from those of `q` (fraction left), `e = T - l` -/
theorem mirror_bounds (P q l T : Int) (hP : 0 < P) (hT : 0 < T)
    (b1 : 2 * (q * T) ≤ 2 * l * P + T) (b2 : (2 * l * P - T) * P - 2 * T < 2 * (q * T) * P) :
    (2 * (T - l) * P - T) * P - 2 * T < 2 * ((P - q) * T) * P ∧
    2 * ((P - q) * T) * P < (2 * (T - l) * P + T) * P + 2 * T := by
  have f1 := Int.mul_le_mul_of_nonneg_right b1 (show (0:Int) ≤ P by omega)
  constructor
  · clear b2; grind
  · clear b1 f1; grind

/-- **linearity**: the cumulative release is within one unit of `⌊elapsed·A/total⌋` -/
theorem cumulative_linear {startT endT now : Int} (A : Int) (hA : 0 ≤ A) (hA' : A ≤ precision)
    (h : InLife startT endT now) :
    let e := now / 1000 - startT / 1000
    let T := endT / 1000 - startT / 1000
    cumulative startT endT now A ≤ e * A / T + 1 ∧ e * A / T - 1 ≤ cumulative startT endT now A := by
  intro e T
  obtain ⟨hT, hT1⟩ := totalUs_eq h
  obtain ⟨_, hl0, hl, he⟩ := leftUs_eq h
  obtain ⟨_, c1, c2⟩ := cumulative_eq A hA h
  rw [(ratioAt_raw h).2] at c1 c2
  have hTe : T = totalUs startT endT := hT.symm
  have hee : e = totalUs startT endT - leftUs endT now := he.symm
  rw [hTe, hee]
  generalize totalUs startT endT = T' at *
  generalize leftUs endT now = l at *
  obtain ⟨b1, b2⟩ := quo_ofInt_bounds l T' (by omega)
  obtain ⟨m1, m2⟩ := mirror_bounds precision (rawShare T' l) l T' precision_pos (by omega) b1 b2
  have hF1 : (T' - l) * A / T' * T' ≤ (T' - l) * A := Int.ediv_mul_le _ (by omega)
  have hF2 : (T' - l) * A < (T' - l) * A / T' * T' + T' := by
    have h := Int.lt_ediv_add_one_mul_self ((T' - l) * A) (show 0 < T' by omega)
    rw [Int.add_mul] at h; omega
  exact ⟨floor_close_upper precision _ (T' - l) T' A _ _ precision_ge_two (by omega) hA hA' m2 hF2 c1,
         floor_close_lower precision _ (T' - l) T' A _ _ precision_ge_two (by omega) hA hA' m1 hF1 c2⟩

/-- **monotonicity** of the cumulative release in `now` -/
theorem cumulative_mono {startT endT now1 now2 : Int} (A : Int) (hA : 0 ≤ A)
    (h1 : InLife startT endT now1) (h2 : InLife startT endT now2) (hle : now1 ≤ now2) :
    cumulative startT endT now1 A ≤ cumulative startT endT now2 A := by
  obtain ⟨e1, _, _⟩ := cumulative_eq A hA h1
  obtain ⟨e2, _, _⟩ := cumulative_eq A hA h2
  rw [e1, e2, (ratioAt_raw h1).2, (ratioAt_raw h2).2]
  apply Int.ediv_le_ediv precision_pos
  apply Int.mul_le_mul_of_nonneg_right _ hA
  have hT := (totalUs_eq h1).2
  have hl1 := (leftUs_eq h1).1
  have hl2 := (leftUs_eq h2).1
  have : leftUs endT now2 ≤ leftUs endT now1 := by
    rw [hl1, hl2]
    have := h1.epoch; have := h1.started
    omega
  have := rawShare_mono (totalUs startT endT) _ _ (by omega) this
  omega

/-- **never more than the deposit** -/
theorem cumulative_range {startT endT now : Int} (A : Int) (hA : 0 ≤ A) (h : InLife startT endT now) :
    0 ≤ cumulative startT endT now A ∧ cumulative startT endT now A ≤ A := by
  obtain ⟨e1, _, _⟩ := cumulative_eq A hA h
  obtain ⟨r0, r1⟩ := ratioAt_range h
  have hp := precision_pos
  rw [e1]
  constructor
  · exact Int.ediv_nonneg (Int.mul_nonneg r0 hA) (by omega)
  · have h1 : (ratioAt startT endT now).raw * A ≤ precision * A := Int.mul_le_mul_of_nonneg_right r1 hA
    have h2 := Int.ediv_le_ediv hp h1
    rwa [Int.mul_ediv_cancel_left _ (by omega)] at h2

/-- at the end everything has been released, at the very start nothing -/
theorem cumulative_at_end {startT endT : Int} (A : Int) (hA : 0 ≤ A) (h : InLife startT endT endT) :
    cumulative startT endT endT A = A := by
  obtain ⟨e1, _, _⟩ := cumulative_eq A hA h
  have hl : leftUs endT endT = 0 := by unfold leftUs; omega
  rw [e1, (ratioAt_raw h).2, hl, rawShare_zero, Int.sub_zero, Int.mul_ediv_cancel_left _ (by have := precision_pos; omega)]

theorem cumulative_at_start {startT endT : Int} (A : Int) (hA : 0 ≤ A) (h : InLife startT endT startT) :
    cumulative startT endT startT A = 0 := by
  obtain ⟨e1, _, _⟩ := cumulative_eq A hA h
  have hl : leftUs endT startT = totalUs startT endT := rfl
  rw [e1, (ratioAt_raw h).2, hl, rawShare_self _ (by have := (totalUs_eq h).2; omega)]
  simp

/-- the amount the release step computes, when `W` was withdrawn before -/
theorem release_amount {startT endT now : Int} (A W : Int) (hA : 0 ≤ A) (h : InLife startT endT now)
    (hW0 : 0 ≤ W) (hW : W ≤ cumulative startT endT now A) :
    Dec.trunc (Dec.sub (Dec.mul (ratioAt startT endT now) (Dec.ofInt A)) (Dec.ofInt W))
      = cumulative startT endT now A - W := by
  obtain ⟨_, c1, _⟩ := cumulative_eq A hA h
  have hp := precision_pos
  apply Dec.trunc_sub_ofInt _ _ hW0
  rw [Dec.mul_ofInt_exact]
  exact Int.le_trans (Int.mul_le_mul_of_nonneg_right hW (by omega)) c1


end Canine.Storage
