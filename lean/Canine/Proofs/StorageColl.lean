/-
Helper lemmas for C15: the collateral-escrow invariant, the frame relation used to carry it
through every message and the reward block.  Core Lean only.
-/
import Canine.Proofs.StorageC
namespace Canine.Storage
open Bank

/-- The collateral escrow is fully backed.  Besides the balance equation the invariant carries the
configuration facts it rests on: the escrow account is a blocked recipient (`app.BlockedAddrs`), it
is neither the storage module account nor the fee pool, no gauge pays out of it, only registered
providers have a collateral record, and the records are non-negative. -/
structure CollInv (s : State) : Prop where
  wf : AMap.WF s.collateral
  escBlocked : s.collateralAcc ∈ s.blocked
  modNe : s.moduleAcc ≠ s.collateralAcc
  feeNe : s.feeAcc ≠ s.collateralAcc
  gaugeNe : ∀ kv ∈ s.gauges, kv.2.account ≠ s.collateralAcc
  provided : ∀ a v, AMap.get s.collateral a = some v → (AMap.get s.providers a).isSome
  nonneg : ∀ a v, AMap.get s.collateral a = some v → 0 ≤ v
  backed : bal s.bank s.collateralAcc "ujkl" = AMap.sumBy id s.collateral

/-- what a step that is neither a registration nor a shutdown does, as far as the escrow is
concerned: records, configuration and escrow balance (every denomination) stay, providers are not
removed, and gauge accounts stay away from the escrow account -/
structure CollFrame (s s' : State) : Prop where
  cfg : SameCfg s s'
  esc : ∀ d, bal s'.bank s.collateralAcc d = bal s.bank s.collateralAcc d
  gaugeNe : (∀ kv ∈ s.gauges, kv.2.account ≠ s.collateralAcc) →
    ∀ kv ∈ s'.gauges, kv.2.account ≠ s.collateralAcc

theorem CollFrame.refl (s : State) : CollFrame s s := ⟨SameCfg.refl s, fun _ => rfl, fun h => h⟩

theorem CollFrame.trans {s s1 s2 : State} (h1 : CollFrame s s1) (h2 : CollFrame s1 s2) : CollFrame s s2 := by
  refine ⟨h1.cfg.trans h2.cfg, fun d => ?_, fun hg => ?_⟩
  · have := h2.esc d; rw [h1.cfg.cacc] at this; rw [this, h1.esc d]
  · have := h2.gaugeNe; rw [h1.cfg.cacc] at this; exact this (h1.gaugeNe hg)

theorem SameMoney.frame {s s' : State} (h : SameMoney s s') : CollFrame s s' :=
  ⟨h.cfg, fun d => by rw [h.bank], fun hg => by rw [h.gauges]; exact hg⟩

theorem CollInv.frame {s s' : State} (hinv : CollInv s) (hf : CollFrame s s') : CollInv s' := by
  obtain ⟨c, e, g⟩ := hf
  refine ⟨by rw [c.coll]; exact hinv.wf, by rw [c.cacc, c.blk]; exact hinv.escBlocked,
    by rw [c.macc, c.cacc]; exact hinv.modNe, by rw [c.facc, c.cacc]; exact hinv.feeNe,
    by rw [c.cacc]; exact g hinv.gaugeNe, ?_, by rw [c.coll]; exact hinv.nonneg,
    by rw [c.cacc, c.coll, e]; exact hinv.backed⟩
  intro a v hv
  rw [c.coll] at hv
  exact c.prov a (hinv.provided a v hv)

/-- a transfer that neither leaves nor enters `x` does not change `x`'s balances -/
theorem bal_send_other {src dst x : String} {cs : Coins} {b b' : Bank} (h : send b src dst cs = some b')
    (h1 : src ≠ x) (h2 : dst ≠ x) (d : String) : bal b' x d = bal b x d := by
  have := bal_send h x d
  simp only [h1, h2, if_false] at this
  rw [this]; omega

theorem mem_set {K V : Type} [DecidableEq K] (m : AMap K V) (k : K) (v : V) (kv : K × V)
    (h : kv ∈ AMap.set m k v) : kv = (k, v) ∨ kv ∈ m := by
  induction m with
  | nil => simp [AMap.set] at h; exact Or.inl h
  | cons p t ih =>
    obtain ⟨k', v'⟩ := p
    by_cases h1 : k' = k
    · simp only [AMap.set, h1, if_true, List.mem_cons] at h
      rcases h with h | h
      · exact Or.inl h
      · exact Or.inr (List.mem_cons_of_mem _ h)
    · simp only [AMap.set, h1, if_false, List.mem_cons] at h
      rcases h with h | h
      · exact Or.inr (by simp [h])
      · rcases ih h with h | h
        · exact Or.inl h
        · exact Or.inr (List.mem_cons_of_mem _ h)

theorem mem_erase {K V : Type} [DecidableEq K] (m : AMap K V) (k : K) (kv : K × V)
    (h : kv ∈ AMap.erase m k) : kv ∈ m := by
  induction m with
  | nil => simp [AMap.erase] at h
  | cons p t ih =>
    obtain ⟨k', v'⟩ := p
    by_cases h1 : k' = k
    · simp only [AMap.erase, h1, if_true] at h
      exact List.mem_cons_of_mem _ (ih h)
    · simp only [AMap.erase, h1, if_false, List.mem_cons] at h
      rcases h with h | h
      · simp [h]
      · exact List.mem_cons_of_mem _ (ih h)

theorem gaugesAfter_ok {gs : AMap String Gauge} {now : Int} {id acc : String} {coins : Coins} {endT : Int}
    {x : String} (hacc : acc ≠ x) (hg : ∀ kv ∈ gs, kv.2.account ≠ x) :
    ∀ kv ∈ gaugesAfter gs now id acc coins endT, kv.2.account ≠ x := by
  intro kv hkv
  unfold gaugesAfter at hkv
  rcases mem_set _ _ _ _ hkv with h | h
  · rw [h]; exact hacc
  · exact hg kv h

theorem ne_of_not_blocked {s : State} {a : String} (hb : s.collateralAcc ∈ s.blocked) (ha : a ∉ s.blocked) :
    a ≠ s.collateralAcc := fun e => ha (e ▸ hb)

/-! ### the two paying messages -/

theorem buyStorage_frame {s s' : State} {now : Int} {creator fa : String} {days bytes : Int} {denom : String}
    {referral : Option String} {jp : Dec} {gid gacc : String}
    (hinv : CollInv s) (hc : creator ≠ s.collateralAcc)
    (h : buyStorage s now creator fa days bytes denom referral jp gid gacc = some s') : CollFrame s s' := by
  obtain ⟨tp0, su, hb, hp⟩ := buyStorage_spec h
  obtain ⟨b1, b2, b3, -, -, -, -, h1, h2, n2, h3, n3, h4, n4, hs⟩ := buyPay_spec hp
  have hm := hinv.modNe
  have g2 := ne_of_not_blocked hinv.escBlocked n2
  have g3 := ne_of_not_blocked hinv.escBlocked n3
  have g4 : refTarget s creator referral ≠ s.collateralAcc := by
    cases hr : buyReferred creator referral with
    | true => exact ne_of_not_blocked hinv.escBlocked (n4 hr)
    | false =>
      have : refTarget s creator referral = s.feeAcc := by
        cases referral with
        | none => rfl
        | some r =>
          simp only [buyReferred, decide_eq_false_iff_not, ne_eq, Decidable.not_not] at hr
          simp [refTarget, hr]
      rw [this]; exact hinv.feeNe
  refine ⟨?_, fun d => ?_, fun hg => ?_⟩
  · rw [hs]; exact ⟨rfl, rfl, rfl, rfl, rfl, rfl, rfl, fun _ h => h⟩
  · rw [bal_send_other h4 hm g4, bal_send_other h3 hm g3, bal_send_other h2 hm g2, bal_send_other h1 hc hm]
  · rw [hs]; exact gaugesAfter_ok g2 hg

theorem postFile_frame {s s' : State} {h now : Int} {creator merkle : String} {fs mp ex pt : Int}
    {note : String} {nv : Bool} {jp : Dec} {gid gacc : String}
    (hinv : CollInv s) (hc : creator ≠ s.collateralAcc)
    (hs : postFile s h now creator merkle fs mp ex pt note nv jp gid gacc = some s') : CollFrame s s' := by
  by_cases hex : ex > 0
  · obtain ⟨cost, b1, -, -, -, -, h1, h2, n2, hg, hcfg⟩ := postFile_payonce_spec hs hex
    have hm := hinv.modNe
    have g2 := ne_of_not_blocked hinv.escBlocked n2
    refine ⟨hcfg, fun d => ?_, fun hgo => ?_⟩
    · rw [bal_send_other h2 hm g2, bal_send_other h1 hc hm]
    · rw [hg]; exact gaugesAfter_ok g2 hgo
  · exact (postFile_plan_sameMoney hs hex).frame


/-! ### messages that move no money -/

theorem sameMoney_updProvider {s s' : State} {c : String} {f : Provider → Option Provider}
    (h : updProvider s c f = some s') : SameMoney s s' := by
  simp only [updProvider, bind, Option.bind_eq_some_iff] at h
  obtain ⟨p, _, p', _, hs⟩ := h
  simp only [Option.some.injEq] at hs; subst hs
  exact ⟨rfl, rfl, rfl, rfl, rfl, rfl, rfl, rfl, rfl, fun a h => isSome_get_set _ _ _ _ h⟩

theorem sameMoney_postProof (s : State) (h : Int) (c m o : String) (st tp : Int) (v : Bool) (nc : Int) :
    SameMoney s (postProof s h c m o st tp v nc).state := by
  unfold postProof
  repeat' (first
    | exact SameMoney.refl s
    | exact SameMoney.of_eq rfl rfl rfl rfl rfl rfl rfl rfl rfl rfl
    | split
    | simp only [])

theorem sameMoney_attest (s : State) (h : Int) (c p m o : String) (st : Int) :
    SameMoney s (attest s h c p m o st) := by
  unfold attest
  repeat' (first
    | exact SameMoney.refl s
    | exact SameMoney.of_eq rfl rfl rfl rfl rfl rfl rfl rfl rfl rfl
    | split
    | simp only [])

theorem sameMoney_report {s s' : State} {c p m o : String} {st : Int}
    (h : report s c p m o st = some s') : SameMoney s s' := by
  simp only [report, bind, Option.bind_eq_some_iff, req_eq_some] at h
  obtain ⟨form, _, _, _, h⟩ := h
  split at h
  · simp only [Option.some.injEq] at h; subst h
    exact SameMoney.of_eq rfl rfl rfl rfl rfl rfl rfl rfl rfl rfl
  · simp only [Option.bind_eq_some_iff, Option.some.injEq] at h
    obtain ⟨f, _, hs⟩ := h
    subst hs
    have a : SameMoney s { s with reports := AMap.erase s.reports (p, (m, o, st)) } :=
      SameMoney.of_eq rfl rfl rfl rfl rfl rfl rfl rfl rfl rfl
    exact a.trans (sameMoney_removeProver _ _ _)


/-! ### registration and shutdown -/

theorem initProvider_spec {s s' : State} {c ip kb : String} {ts : Int} {iv : Bool}
    (h : initProvider s c ip kb ts iv = some s') :
    AMap.get s.providers c = none ∧ 0 ≤ s.params.collateralPrice ∧
    Bank.send s.bank (acctOf s c) s.collateralAcc (coinsOf "ujkl" s.params.collateralPrice) = some s'.bank ∧
    s' = { s with
      bank := s'.bank,
      collateral := AMap.set s.collateral c s.params.collateralPrice,
      providers := AMap.set s.providers c
        { address := c, ip := ip, totalspace := toString ts, burned := some 0,
          creator := c, keybase := kb, claimers := [] } } := by
  simp only [initProvider, bind, Option.bind_eq_some_iff, req_eq_some] at h
  obtain ⟨_, _, _, hno, _, hp, coins, hcoins, b1, hb1, hs⟩ := h
  simp only [Option.some.injEq] at hs
  have e := newCoins_eq_coinsOf hcoins
  subst e
  refine ⟨?_, hp, by subst hs; exact hb1, by subst hs; rfl⟩
  simp only [AMap.contains] at hno
  cases hg : AMap.get s.providers c with
  | none => rfl
  | some p => simp [hg] at hno

theorem shutdownProvider_spec {s s' : State} {c : String} (h : shutdownProvider s c = some s') :
    (AMap.get s.providers c).isSome ∧
    ((∃ amt, AMap.get s.collateral c = some amt ∧ 0 ≤ amt ∧ acctOf s c ∉ s.blocked ∧
        Bank.send s.bank s.collateralAcc (acctOf s c) (coinsOf "ujkl" amt) = some s'.bank ∧
        s' = { s with bank := s'.bank, collateral := AMap.erase s.collateral c,
                      providers := AMap.erase s.providers c }) ∨
     (AMap.get s.collateral c = none ∧ s' = { s with providers := AMap.erase s.providers c })) := by
  simp only [shutdownProvider, bind, Option.bind_eq_some_iff, req_eq_some] at h
  obtain ⟨_, hpr, h⟩ := h
  refine ⟨by simpa [AMap.contains] using hpr, ?_⟩
  cases hg : AMap.get s.collateral c with
  | none =>
    simp only [hg, Option.some.injEq] at h
    exact Or.inr ⟨rfl, h.symm⟩
  | some amt =>
    simp only [hg, Option.bind_eq_some_iff, req_eq_some] at h
    obtain ⟨_, h0, coins, hcoins, b1, hb1, hs⟩ := h
    simp only [Option.some.injEq] at hs
    have e := newCoins_eq_coinsOf hcoins
    subst e
    refine Or.inl ⟨amt, rfl, h0, sendFromModule_not_blocked hb1, ?_, ?_⟩
    · subst hs; exact (sendFromModule_spec hb1).2
    · subst hs; rfl

theorem collInv_initProvider {s s' : State} {c ip kb : String} {ts : Int} {iv : Bool}
    (hinv : CollInv s) (hc : acctOf s c ≠ s.collateralAcc)
    (h : initProvider s c ip kb ts iv = some s') : CollInv s' := by
  obtain ⟨hnone, hp, hsend, hs⟩ := initProvider_spec h
  have hb := bal_send hsend s.collateralAcc "ujkl"
  simp only [amt_coinsOf, if_true, hc, if_false] at hb
  have hcn : AMap.get s.collateral c = none := by
    cases hg : AMap.get s.collateral c with
    | none => rfl
    | some v => have := hinv.provided c v hg; rw [hnone] at this; simp at this
  rw [hs]
  refine ⟨AMap.wf_set _ _ hinv.wf, hinv.escBlocked, hinv.modNe, hinv.feeNe, hinv.gaugeNe, ?_, ?_, ?_⟩
  · intro a v hv
    simp only at hv ⊢
    rw [AMap.get_set] at hv ⊢
    by_cases e : c = a
    · simp [e]
    · simp only [e, if_false] at hv ⊢; exact hinv.provided a v hv
  · intro a v hv
    simp only at hv
    rw [AMap.get_set] at hv
    by_cases e : c = a
    · simp only [e, if_true, Option.some.injEq] at hv; omega
    · simp only [e, if_false] at hv; exact hinv.nonneg a v hv
  · simp only
    rw [AMap.sumBy_set _ _ _ hinv.wf, hcn, hb, hinv.backed]; simp

theorem collInv_shutdownProvider {s s' : State} {c : String}
    (hinv : CollInv s) (hc : acctOf s c ≠ s.collateralAcc)
    (h : shutdownProvider s c = some s') : CollInv s' := by
  obtain ⟨hpr, hcase⟩ := shutdownProvider_spec h
  rcases hcase with ⟨amt, hrec, h0, hnb, hsend, hs⟩ | ⟨hrec, hs⟩
  · have hb := bal_send hsend s.collateralAcc "ujkl"
    simp only [amt_coinsOf, if_true, hc, if_false] at hb
    rw [hs]
    refine ⟨AMap.wf_erase _ hinv.wf, hinv.escBlocked, hinv.modNe, hinv.feeNe, hinv.gaugeNe, ?_, ?_, ?_⟩
    · intro a v hv
      simp only at hv ⊢
      rw [AMap.get_erase] at hv ⊢
      by_cases e : c = a
      · simp [e] at hv
      · simp only [e, if_false] at hv ⊢; exact hinv.provided a v hv
    · intro a v hv
      simp only at hv
      rw [AMap.get_erase] at hv
      by_cases e : c = a
      · simp [e] at hv
      · simp only [e, if_false] at hv; exact hinv.nonneg a v hv
    · simp only
      rw [AMap.sumBy_erase _ _ hinv.wf, hrec, hb, hinv.backed]; simp
  · rw [hs]
    refine ⟨hinv.wf, hinv.escBlocked, hinv.modNe, hinv.feeNe, hinv.gaugeNe, ?_, hinv.nonneg, hinv.backed⟩
    intro a v hv
    simp only at hv ⊢
    rw [AMap.get_erase]
    by_cases e : c = a
    · subst e; rw [hrec] at hv; cases hv
    · simp only [e, if_false]; exact hinv.provided a v hv

/-- the two messages that write collateral records -/
def Op.touchesCollateral : Op → Bool
  | .initProvider .. => true
  | .shutdownProvider .. => true
  | _ => false

/-- **Frame.** A successful message other than a registration or a shutdown, signed by anyone but
the escrow account, leaves the collateral records, the configuration and every balance of the
escrow account unchanged, removes no provider and creates no gauge on the escrow account. -/
theorem step_frame {s s' : State} {h now : Int} {op : Op} (hinv : CollInv s)
    (hc : op.creator ≠ s.collateralAcc) (hop : op.touchesCollateral = false)
    (hstep : step s h now op = some s') : CollFrame s s' := by
  cases op with
  | postFile c m fs mp ex pt note nv jp gid gacc => exact postFile_frame hinv hc hstep
  | deleteFile c m st =>
    simp only [step, Option.some.injEq] at hstep; subst hstep
    exact (sameMoney_removeFile _ _).frame
  | buyStorage c fa dd b dn ref jp gid gacc => exact buyStorage_frame hinv hc hstep
  | initProvider c ip kb ts iv => simp [Op.touchesCollateral] at hop
  | shutdownProvider c => simp [Op.touchesCollateral] at hop
  | setProviderIP c ip iv =>
    simp only [step] at hstep
    split at hstep
    · exact (sameMoney_updProvider hstep).frame
    · cases hstep
  | setProviderKeybase c kb => exact (sameMoney_updProvider hstep).frame
  | setProviderTotalSpace c sp => exact (sameMoney_updProvider hstep).frame
  | addClaimer c cl => exact (sameMoney_updProvider hstep).frame
  | removeClaimer c cl => exact (sameMoney_updProvider hstep).frame
  | postProof c m o st tp v nc =>
    simp only [step, Option.some.injEq] at hstep; subst hstep
    exact (sameMoney_postProof ..).frame
  | requestAttest c m o st ec ch =>
    simp only [step, Option.some.injEq] at hstep; subst hstep
    split
    · refine SameMoney.frame ?_
      exact SameMoney.of_eq rfl rfl rfl rfl rfl rfl rfl rfl rfl rfl
    · exact CollFrame.refl s
  | attest c p m o st =>
    simp only [step, Option.some.injEq] at hstep; subst hstep
    exact (sameMoney_attest ..).frame
  | requestReport c p m o st ec ch =>
    simp only [step, Option.some.injEq] at hstep; subst hstep
    split
    · refine SameMoney.frame ?_
      exact SameMoney.of_eq rfl rfl rfl rfl rfl rfl rfl rfl rfl rfl
    · exact CollFrame.refl s
  | report c p m o st => exact (sameMoney_report hstep).frame

/-- **One message.** Every message of the module signed by anyone but the escrow account itself
(which has no key) keeps the escrow fully backed, and does not move the escrow account. -/
theorem collInv_step {s s' : State} {h now : Int} {op : Op} (hinv : CollInv s)
    (hc : op.creator ≠ s.collateralAcc) (hca : acctOf s op.creator ≠ s.collateralAcc)
    (hstep : step s h now op = some s') :
    CollInv s' ∧ s'.collateralAcc = s.collateralAcc := by
  cases hop : op.touchesCollateral with
  | false =>
    have f := step_frame hinv hc hop hstep
    exact ⟨hinv.frame f, f.cfg.cacc⟩
  | true =>
    cases op with
    | initProvider c ip kb ts iv =>
      exact ⟨collInv_initProvider hinv hca hstep, by rw [(initProvider_spec hstep).2.2.2]⟩
    | shutdownProvider c =>
      refine ⟨collInv_shutdownProvider hinv hca hstep, ?_⟩
      rcases (shutdownProvider_spec hstep).2 with ⟨_, _, _, _, _, hs⟩ | ⟨_, hs⟩ <;> rw [hs]
    | _ => simp [Op.touchesCollateral] at hop

/-! ### the reward block -/

theorem sameMoney_manageProof (s : State) (h : Int) (t : Tracker) (file : File) (pk : PKey) :
    SameMoney s (manageProof s h t file pk).1 := by
  unfold manageProof
  simp only []
  split
  · split
    · exact sameMoney_removeProver s file pk
    · exact SameMoney.refl s
  · split
    · exact (sameMoney_removeProver s file pk).trans (sameMoney_burnContract _ _)
    · exact SameMoney.refl s

theorem sameMoney_foldProofs (h : Int) : ∀ (pks : List PKey) (acc : State × Tracker × File),
    SameMoney acc.1
      (pks.foldl (fun (acc : State × Tracker × File) pk => manageProof acc.1 h acc.2.1 acc.2.2 pk) acc).1
  | [], acc => SameMoney.refl _
  | pk :: pks, acc => by
    simp only [List.foldl_cons]
    exact (sameMoney_manageProof acc.1 h acc.2.1 acc.2.2 pk).trans (sameMoney_foldProofs h pks _)

theorem sameMoney_manageFile (s : State) (h : Int) (t : Tracker) (file : File) :
    SameMoney s (manageFile s h t file).1 := by
  unfold manageFile
  simp only []
  have h1 : SameMoney s (if (file.proofs.isEmpty && !(isYoung h file.start file.proofInterval)) = true
      then removeFile s file.key else s) := by
    split
    · exact sameMoney_removeFile _ _
    · exact SameMoney.refl s
  exact h1.trans (sameMoney_foldProofs h file.proofs (_, t, file))

theorem sameMoney_foldFiles (h : Int) : ∀ (fs : List (FKey × File)) (acc : State × Tracker),
    SameMoney acc.1 (fs.foldl (fun (acc : State × Tracker) kv => manageFile acc.1 h acc.2 kv.2) acc).1
  | [], acc => SameMoney.refl _
  | kv :: fs, acc => by
    simp only [List.foldl_cons]
    exact (sameMoney_manageFile acc.1 h acc.2 kv.2).trans (sameMoney_foldFiles h fs _)

/-- one coin of one gauge: the only transfer is gauge account → module account -/
theorem pullCoins_frame (g : Gauge) (ratio : Dec) : ∀ (coins : Coins) (s s' : State) (rel rel' : Coins),
    s.moduleAcc ≠ s.collateralAcc → g.account ≠ s.collateralAcc →
    coins.foldlM (fun (acc : State × Coins) coin =>
          let (st, rel) := acc
          let (denom, amount) := coin
          let bal := Bank.bal st.bank g.account denom
          let would := Dec.mul ratio (Dec.ofInt amount)
          let amt := Dec.trunc (Dec.sub would (Dec.ofInt (amount - bal)))
          if !(I64.inRange amt) then (.error "Int64() out of bound" : Except String (State × Coins))
          else if amt = 0 then .ok (st, rel)
          else if amt < 0 then .error s!"negative coin amount: {amt}"
          else
            let rel' := pullGauge.addCoinTo rel denom amt
            match Bank.send st.bank g.account st.moduleAcc [(denom, amt)] with
            | some b => .ok ({ st with bank := b }, rel')
            | none => .ok (st, rel'))
          (s, rel) = .ok (s', rel') → CollFrame s s'
  | [], s, s', rel, rel', _, _, h => by
    simp only [List.foldlM_nil, pure, Except.pure, Except.ok.injEq, Prod.mk.injEq] at h
    rw [← h.1]; exact CollFrame.refl s
  | (denom, amount) :: coins, s, s', rel, rel', hm, hg, h => by
    simp only [List.foldlM_cons] at h
    split at h
    · simp [bind, Except.bind] at h
    · split at h
      · simp only [bind, Except.bind] at h
        exact pullCoins_frame g ratio coins s s' _ rel' hm hg h
      · split at h
        · simp [bind, Except.bind] at h
        · split at h
          · rename_i b hb
            simp only [bind, Except.bind] at h
            have f1 : CollFrame s { s with bank := b } :=
              ⟨⟨rfl, rfl, rfl, rfl, rfl, rfl, rfl, fun _ h => h⟩, fun d => bal_send_other hb hg hm d, fun hgo => hgo⟩
            exact f1.trans (pullCoins_frame g ratio coins _ s' _ rel' hm hg h)
          · simp only [bind, Except.bind] at h
            exact pullCoins_frame g ratio coins s s' _ rel' hm hg h


theorem eraseGauge_frame (s : State) (id : String) :
    CollFrame s { s with gauges := AMap.erase s.gauges id } :=
  ⟨⟨rfl, rfl, rfl, rfl, rfl, rfl, rfl, fun _ h => h⟩, fun _ => rfl,
   fun hg kv hkv => hg kv (mem_erase _ _ _ hkv)⟩

theorem pullGauge_frame {s s' : State} {now : Int} {rel rel' : Coins} {g : Gauge}
    (hm : s.moduleAcc ≠ s.collateralAcc) (hg : g.account ≠ s.collateralAcc)
    (h : pullGauge s now rel g = .ok (s', rel')) : CollFrame s s' := by
  unfold pullGauge at h
  split at h
  · simp only [Except.ok.injEq, Prod.mk.injEq] at h; rw [← h.1]; exact eraseGauge_frame s g.id
  · split at h
    · simp only [Except.ok.injEq, Prod.mk.injEq] at h; rw [← h.1]; exact eraseGauge_frame s g.id
    · simp only [] at h
      split at h
      · simp only [Except.ok.injEq, Prod.mk.injEq] at h; rw [← h.1]; exact eraseGauge_frame s g.id
      · split at h
        · cases h
        · exact pullCoins_frame g _ _ _ _ _ _ hm hg h

theorem pullGauges_frame (now : Int) : ∀ (gs : List (String × Gauge)) (s s' : State) (rel rel' : Coins),
    s.moduleAcc ≠ s.collateralAcc → (∀ kv ∈ gs, kv.2.account ≠ s.collateralAcc) →
    gs.foldlM (fun (acc : State × Coins) kv => pullGauge acc.1 now acc.2 kv.2) (s, rel) = .ok (s', rel') →
    CollFrame s s'
  | [], s, s', rel, rel', _, _, h => by
    simp only [List.foldlM_nil, pure, Except.pure, Except.ok.injEq, Prod.mk.injEq] at h
    rw [← h.1]; exact CollFrame.refl s
  | kv :: gs, s, s', rel, rel', hm, hg, h => by
    simp only [List.foldlM_cons, bind, Except.bind] at h
    split at h
    · cases h
    · rename_i v hv
      obtain ⟨s1, rel1⟩ := v
      have f1 := pullGauge_frame hm (hg kv (by simp)) hv
      have hm1 : s1.moduleAcc ≠ s1.collateralAcc := by rw [f1.cfg.macc, f1.cfg.cacc]; exact hm
      have hg1 : ∀ kv ∈ gs, kv.2.account ≠ s1.collateralAcc := by
        rw [f1.cfg.cacc]; exact fun kv' hk => hg kv' (List.mem_cons_of_mem _ hk)
      exact f1.trans (pullGauges_frame now gs s1 s' rel1 rel' hm1 hg1 h)

theorem payCoins_frame (share : Dec) (prover : String) : ∀ (coins : Coins) (s s' : State),
    s.moduleAcc ≠ s.collateralAcc → s.collateralAcc ∈ s.blocked →
    coins.foldlM (fun (st : State) coin =>
        let owed := Dec.trunc (Dec.mul share (Dec.ofInt coin.2))
        if owed < 0 then (.error s!"negative coin amount: {owed}" : Except String State)
        else
          match (Bank.newCoins coin.1 owed).bind (fun c => sendFromModule st st.moduleAcc prover c) with
          | some b => .ok { st with bank := b }
          | none => .ok st) s = .ok s' → CollFrame s s'
  | [], s, s', _, _, h => by
    simp only [List.foldlM_nil, pure, Except.pure, Except.ok.injEq] at h
    rw [← h]; exact CollFrame.refl s
  | coin :: coins, s, s', hm, hb, h => by
    simp only [List.foldlM_cons] at h
    split at h
    · simp [bind, Except.bind] at h
    · split at h
      · rename_i b hbk
        simp only [bind, Except.bind] at h
        simp only [Option.bind_eq_some_iff] at hbk
        obtain ⟨c, _, hsend⟩ := hbk
        have hne := ne_of_not_blocked hb (sendFromModule_not_blocked hsend)
        have f1 : CollFrame s { s with bank := b } :=
          ⟨⟨rfl, rfl, rfl, rfl, rfl, rfl, rfl, fun _ h => h⟩,
           fun d => bal_send_other (sendFromModule_spec hsend).2 hm hne d, fun hgo => hgo⟩
        exact f1.trans (payCoins_frame share prover coins _ s' hm hb h)
      · simp only [bind, Except.bind] at h
        exact payCoins_frame share prover coins s s' hm hb h

theorem payProver_frame {s s' : State} {total : Int} {coins : Coins} {prover : String} {worth : Int}
    (hm : s.moduleAcc ≠ s.collateralAcc) (hb : s.collateralAcc ∈ s.blocked)
    (h : payProver s total coins prover worth = .ok s') : CollFrame s s' := by
  unfold payProver at h
  split at h
  · cases h
  · split at h
    · simp only [Except.ok.injEq] at h; rw [← h]; exact CollFrame.refl s
    · exact payCoins_frame _ prover coins s s' hm hb h

theorem payProvers_frame (total : Int) (coins : Coins) : ∀ (ps : List (String × Int)) (s s' : State),
    s.moduleAcc ≠ s.collateralAcc → s.collateralAcc ∈ s.blocked →
    ps.foldlM (fun st pw => payProver st total coins pw.1 pw.2) s = .ok s' → CollFrame s s'
  | [], s, s', _, _, h => by
    simp only [List.foldlM_nil, pure, Except.pure, Except.ok.injEq] at h
    rw [← h]; exact CollFrame.refl s
  | pw :: ps, s, s', hm, hb, h => by
    simp only [List.foldlM_cons, bind, Except.bind] at h
    split at h
    · cases h
    · rename_i s1 hv
      have f1 := payProver_frame hm hb hv
      have hm1 : s1.moduleAcc ≠ s1.collateralAcc := by rw [f1.cfg.macc, f1.cfg.cacc]; exact hm
      have hb1 : s1.collateralAcc ∈ s1.blocked := by rw [f1.cfg.cacc, f1.cfg.blk]; exact hb
      exact f1.trans (payProvers_frame total coins ps s1 s' hm1 hb1 h)

theorem manageRewards_frame {s s' : State} {h now : Int} (hinv : CollInv s)
    (hr : manageRewards s h now = .ok s') : CollFrame s s' := by
  unfold manageRewards at hr
  simp only [bind, Except.bind] at hr
  have f0 := (sameMoney_foldFiles h s.files (s, [])).frame
  generalize (s.files.foldl (fun (acc : State × Tracker) kv => manageFile acc.1 h acc.2 kv.2) (s, [])) = r at hr f0
  obtain ⟨s1, tracker⟩ := r
  simp only at hr f0
  have i1 := hinv.frame f0
  split at hr
  · cases hr
  · rename_i v hv
    obtain ⟨s2, coins⟩ := v
    simp only at hr
    unfold pullGauges at hv
    have f1 := pullGauges_frame now s1.gauges s1 s2 [] coins i1.modNe i1.gaugeNe hv
    have i2 := i1.frame f1
    exact f0.trans (f1.trans (payProvers_frame _ coins _ s2 s' i2.modNe i2.escBlocked hr))

/-- **The reward block** keeps the escrow fully backed: provers are paid by the module account out
of what the gauges release; the escrow account is a blocked recipient and never a payer there. -/
theorem beginBlock_frame {s s' : State} {h now : Int} (hinv : CollInv s)
    (hb : beginBlock s h now = .ok s') : CollFrame s s' := by
  unfold beginBlock at hb
  split at hb
  · cases hb
  · split at hb
    · simp only [Except.ok.injEq] at hb; rw [← hb]; exact CollFrame.refl s
    · exact manageRewards_frame hinv hb

end Canine.Storage
