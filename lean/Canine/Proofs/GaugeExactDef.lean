/-
Gauge exactness for C12, part 1: the strengthened invariant `GaugeExact`.

`GaugeInv` (Proofs/GaugeInvDef.lean) bounds what has left a gauge's escrow account from above:
`(A − bal)·10^18 ≤ would(t).raw`.  The inequality is all one can say when third parties may credit an
escrow account.  `GaugeExact` adds the equality that holds when nobody does: for every stored gauge
there is an instant `t'` with `startT ≤ t' ≤ t`, `t' ≤ endT` — the time of the last reward block that
visited the gauge, or its start time if none did — such that, per recorded coin,

    A − bal(escrow, denom) = Dec.trunc (would startT endT t' A)     (= ⌊ratio(t')·A⌋),

and a gauge that records no coin (a zero deposit) has an empty ujkl balance.  (The second clause is
what makes the equality survive a later same-block deposit into such a gauge.)

This file: the definition, the arithmetic of one release, time passing, and the frame lemma (a step
that keeps the gauge store and the escrow balances keeps the exact part).
-/
import Canine.Proofs.GaugeInvStep
namespace Canine.Storage
open Bank GI

/-! ## arithmetic of one release -/

theorem trunc_eq (d : Dec) : Dec.trunc d = tdiv d.raw precision := rfl

/-- after `amt = trunc(would − (A − bal))` has left the escrow account, the cumulative withdrawal is
exactly `trunc(would)` -/
theorem released_after_pull {w A bal : Int} (hs : (A - bal) * precision ≤ w) (h0 : 0 ≤ w) :
    A - (bal - tdiv (w - (A - bal) * precision) precision) = tdiv w precision := by
  unfold tdiv precision at *
  have : (0:Int) ≤ w - (A - bal) * 1000000000000000000 := by omega
  simp only [this, h0, show (0:Int) ≤ 1000000000000000000 by omega, if_true]
  omega

theorem tdiv_precision_mono {w1 w2 : Int} (h0 : 0 ≤ w1) (h : w1 ≤ w2) : tdiv w1 precision ≤ tdiv w2 precision := by
  unfold tdiv precision
  have : (0:Int) ≤ w2 := by omega
  simp only [this, h0, show (0:Int) ≤ 1000000000000000000 by omega, if_true]
  omega

theorem tdiv_precision_nonneg {w : Int} (h0 : 0 ≤ w) : 0 ≤ tdiv w precision := by
  unfold tdiv precision
  simp only [h0, show (0:Int) ≤ 1000000000000000000 by omega, if_true]
  omega

theorem tdiv_precision_zero : tdiv 0 precision = 0 := by
  unfold tdiv precision; simp

/-- the schedule value, in whole base units, grows with time -/
theorem trunc_would_mono {startT endT t1 t2 A : Int} (h1 : Live startT endT t1) (h2 : Live startT endT t2)
    (hle : t1 ≤ t2) (hA : 0 ≤ A) :
    Dec.trunc (would startT endT t1 A) ≤ Dec.trunc (would startT endT t2 A) := by
  rw [trunc_eq, trunc_eq]
  exact tdiv_precision_mono (would_range h1 hA).1 (would_mono h1 h2 hle hA)

theorem trunc_would_nonneg {startT endT t A : Int} (h : Live startT endT t) (hA : 0 ≤ A) :
    0 ≤ Dec.trunc (would startT endT t A) := by
  rw [trunc_eq]; exact tdiv_precision_nonneg (would_range h hA).1

theorem trunc_would_le {startT endT t A : Int} (h : Live startT endT t) (hA : 0 ≤ A) :
    Dec.trunc (would startT endT t A) ≤ A := by
  rw [trunc_eq]
  have := (would_range h hA).2
  have h0 := (would_range h hA).1
  unfold tdiv precision at *
  simp only [h0, show (0:Int) ≤ 1000000000000000000 by omega, if_true]
  omega

theorem trunc_would_start {startT endT A : Int} (h : startT + 1999 ≤ endT) :
    Dec.trunc (would startT endT startT A) = 0 := by
  rw [trunc_eq, would_start h]; exact tdiv_precision_zero

/-! ## the exact invariant -/

/-- the per-coin equality at instant `t'`: what has left escrow is the truncated schedule value -/
def ExactAt (b : Bank) (t' : Int) (g : Gauge) : Prop :=
  ∀ c ∈ g.coins, c.2 - bal b g.account c.1 = Dec.trunc (would g.startT g.endT t' c.2)

/-- one gauge against ledger `b` at time `t`: exact at some earlier instant of its life, and an empty
record goes with an empty ujkl balance -/
structure GaugeExactOk (b : Bank) (t : Int) (g : Gauge) : Prop where
  empty : g.coins = [] → bal b g.account "ujkl" = 0
  at_ : ∃ t', g.startT ≤ t' ∧ t' ≤ t ∧ t' ≤ g.endT ∧ ExactAt b t' g

/-- **The exact gauge invariant** at time `t`. -/
structure GaugeExact (E : EscrowScheme) (s : State) (t : Int) : Prop where
  inv : GaugeInv E s t
  exact : ∀ kv ∈ s.gauges, GaugeExactOk s.bank t kv.2

theorem GaugeExactOk.advance {b : Bank} {t t2 : Int} {g : Gauge} (h : GaugeExactOk b t g) (htt : t ≤ t2) :
    GaugeExactOk b t2 g := by
  obtain ⟨t', h1, h2, h3, h4⟩ := h.at_
  exact ⟨h.empty, t', h1, Int.le_trans h2 htt, h3, h4⟩

theorem GaugeExact.advance {E : EscrowScheme} {s : State} {t t2 : Int} (h : GaugeExact E s t) (htt : t ≤ t2) :
    GaugeExact E s t2 :=
  ⟨h.inv.advance htt, fun kv hkv => (h.exact kv hkv).advance htt⟩

/-- the exact part depends on the ledger only through the gauge's escrow balances -/
theorem GaugeExactOk.of_bal_eq {b b' : Bank} {t : Int} {g : Gauge} (h : GaugeExactOk b t g)
    (hb : ∀ d, bal b' g.account d = bal b g.account d) : GaugeExactOk b' t g := by
  obtain ⟨t', h1, h2, h3, h4⟩ := h.at_
  refine ⟨fun e => by rw [hb]; exact h.empty e, t', h1, h2, h3, fun c hc => ?_⟩
  rw [hb]; exact h4 c hc

/-- genesis: no gauges -/
theorem GaugeExact.init (E : EscrowScheme) (s : State) (t : Int) (hg : s.gauges = []) (hb : BankOk s.bank) :
    GaugeExact E s t :=
  ⟨GaugeInv.init E s t hg hb, fun kv hkv => by rw [hg] at hkv; simp at hkv⟩

/-- a gauge seen at its own start time has released nothing and holds exactly its record -/
theorem GaugeExactOk.at_start {b : Bank} {g : Gauge} (h : GaugeExactOk b g.startT g) (hl : g.startT + 1999 ≤ g.endT)
    (hc : CoinsOk g.coins) : bal b g.account "ujkl" = amt "ujkl" g.coins := by
  rcases hc with e | ⟨A, _, e⟩
  · rw [e]; simp only [amt]; exact h.empty e
  · obtain ⟨t', h1, h2, _, h4⟩ := h.at_
    have : t' = g.startT := by omega
    subst this
    have := h4 ("ujkl", A) (by rw [e]; simp)
    rw [trunc_would_start hl] at this
    simp only at this
    rw [e]; simp only [amt, if_true]; omega

/-- what a step does to the stored gauges, as far as exactness is concerned: every gauge stored
afterwards either was stored before with the same escrow balances, or starts now and holds in escrow
exactly what it records -/
def StepFx (s s' : State) (now : Int) : Prop :=
  ∀ kv ∈ s'.gauges,
    (kv ∈ s.gauges ∧ ∀ d, bal s'.bank kv.2.account d = bal s.bank kv.2.account d) ∨
    (kv.2.startT = now ∧ now + 1999 ≤ kv.2.endT ∧
      (∀ c ∈ kv.2.coins, c.2 - bal s'.bank kv.2.account c.1 = 0) ∧
      (kv.2.coins = [] → bal s'.bank kv.2.account "ujkl" = 0))

theorem StepFx.exact {s s' : State} {now : Int} (h : StepFx s s' now)
    (hex : ∀ kv ∈ s.gauges, GaugeExactOk s.bank now kv.2) :
    ∀ kv ∈ s'.gauges, GaugeExactOk s'.bank now kv.2 := by
  intro kv hkv
  rcases h kv hkv with ⟨hm, hb⟩ | ⟨h1, h2, h3, h4⟩
  · exact (hex kv hm).of_bal_eq hb
  · refine ⟨h4, now, by omega, Int.le_refl _, by omega, fun c hc => ?_⟩
    rw [h3 c hc, ← h1, trunc_would_start (by omega)]

theorem StepFx.of_same {s s' : State} {now : Int} (hg : s'.gauges = s.gauges)
    (hb : ∀ kv ∈ s.gauges, ∀ d, bal s'.bank kv.2.account d = bal s.bank kv.2.account d) : StepFx s s' now := by
  intro kv hkv
  rw [hg] at hkv
  exact Or.inl ⟨hkv, hb kv hkv⟩

theorem StepFx.of_sameCore {s s' : State} {now : Int} (h : SameCore s s') : StepFx s s' now :=
  StepFx.of_same h.2.1 (fun _ _ d => by rw [h.1])

theorem StepFx.refl (s : State) (now : Int) : StepFx s s now := StepFx.of_same rfl (fun _ _ _ => rfl)

end Canine.Storage
