/-
Executable model of x/rns (names, listings, bids, init, primary names) as the handlers are written
after the three "fix:" commits (Buy compares the lister with the owner; Register/Init treat
height = Expires as live and date fresh/expired names from the current height; Bid refunds the bid
it replaces).  A handler is `State → Option State`; `none` is "returned an error", which baseapp
turns into "no state change".  Names arrive lower-cased (and, for Register, space-stripped) —
`strings.ToLower`/`ReplaceAll` are applied by the harness with Go's own functions; coin strings
arrive together with the result of the chain's own parser (an oracle input the theorems quantify over).
Address strings: the same account has several valid bech32 spellings (lower and upper case); some
handlers compare / key by the string as sent, others by `AccAddress.String()` — the model keeps
that distinction: `State.canon` maps every address string in play to its canonical spelling
(absent = not a valid address), handlers receive the signer as sent (`c`) and canonical (`cc`).
Core Lean only.
-/
import Canine.Basic.Bank
namespace Canine.Rns

structure SubRec where
  name : String
  value : String
  data : String
  tld : String
  expires : Int
  deriving DecidableEq, Repr, Inhabited

structure NameRec where
  name : String
  tld : String
  expires : Int
  value : String      -- owner (bech32)
  data : String
  locked : Int
  subs : List SubRec
  deriving DecidableEq, Repr, Inhabited

structure Listing where
  name : String           -- the lower-cased string it was listed under (= key)
  owner : String
  priceRaw : String
  price : Option Coin     -- `sdk.ParseCoinNormalized priceRaw`
  deriving DecidableEq, Repr, Inhabited

structure BidRec where
  index : String
  name : String
  bidder : String
  priceRaw : String
  price : Option Coins    -- `sdk.ParseCoinsNormalized priceRaw`
  deriving DecidableEq, Repr, Inhabited

structure State where
  names : AMap String NameRec      -- key "name.tld"
  forsale : AMap String Listing    -- key = listed string
  bids : AMap String BidRec        -- key = bidder ++ name string
  inits : AMap String Bool
  primary : AMap String String     -- owner ↦ "name.tld"
  bank : Bank
  blocked : List String            -- addresses SendCoinsFromModuleToAccount refuses
  moduleAcc : String               -- rns module account address
  polAcc : String                  -- protocol-owned-liquidity account
  canon : AMap String String       -- address string ↦ canonical bech32 (`AccAddressFromBech32(x).String()`)
  deriving DecidableEq, Repr, Inhabited

inductive Op where
  | register (creator rawName lname data : String) (years : Int) (setPrimary : Bool)
  | list (creator rawName lname priceRaw : String) (price : Option Coin)
  | delist (creator rawName lname : String)
  | buy (creator rawName lname : String)
  | bid (creator rawName lname priceRaw : String) (price : Option Coins)
  | cancelBid (creator rawName lname : String)
  | acceptBid (creator rawName lname bidder : String)
  | transfer (creator rawName lname receiver : String)
  | update (creator rawName lname data : String)
  | addRecord (creator rawName lname record recordLower value data : String)
  | delRecord (creator rawName lname : String)
  | init (creator genName : String)
  | makePrimary (creator rawName lname : String)
  deriving DecidableEq, Repr, Inhabited

def yearBlocks : Int := 5484530
def initBlocks : Int := 5733818
def maxYears : Int := 1000000

/-- `GetTLD`: the first of ["ibc","jkl"] equal to the last three characters; fails when len ≤ 4. -/
def getTLD (s : String) : Option String :=
  if s.length ≤ 4 then none
  else if (s.drop (s.length - 3)).toString = "ibc" then some "ibc"
  else if (s.drop (s.length - 3)).toString = "jkl" then some "jkl"
  else none

/-- `GetNameAndTLD`: the TLD and everything before it minus one more character. -/
def nameAndTLD (s : String) : Option (String × String) :=
  match getTLD s with
  | none => none
  | some tld => some ((s.take (s.length - 4)).toString, tld)

def tldCost (tld : String) : Int := if tld = "ibc" then 50000000 else if tld = "jkl" then 10000000 else 0

/-- `GetCostOfName` -/
def costOfName (name tld : String) : Option Int :=
  match name.length with
  | 0 => none
  | 1 => some (tldCost tld * 24)
  | 2 => some (tldCost tld * 12)
  | 3 => some (tldCost tld * 6)
  | 4 => some (tldCost tld * 3)
  | _ => some (tldCost tld)

def nameKey (name tld : String) : String := name ++ "." ++ tld


/-- a name is live while it is registered and `height ≤ Expires` -/
def isLive (s : State) (key : String) (h : Int) : Bool :=
  match AMap.get s.names key with
  | some w => decide (h ≤ w.expires)
  | none => false

/-- `sdk.AccAddressFromBech32(x)` followed by `.String()`; `none` = not a valid address -/
def acct (s : State) (x : String) : Option String := AMap.get s.canon x

/-- `SendCoinsFromModuleToAccount`: refuses blocked recipients. -/
def sendFromModule (s : State) (dst : String) (c : Coins) : Option Bank :=
  if s.blocked.contains dst then none else Bank.send s.bank s.moduleAcc dst c

def sendToModule (s : State) (src : String) (c : Coins) : Option Bank :=
  Bank.send s.bank src s.moduleAcc c

/-- `GetPrimaryName` found-flag: the stored "name.tld" is split on "." and looked up. -/
def hasPrimary (s : State) (owner : String) : Bool :=
  match AMap.get s.primary owner with
  | none => false
  | some p =>
    match p.splitOn "." with
    | a :: b :: _ => AMap.contains s.names (nameKey a b)
    | _ => false

/-- Expiry a successful registration writes: a live name may only be extended by its owner (term
added to the current expiry); a fresh or expired name runs from the current height. -/
def regExpiry (s : State) (key creator : String) (h term : Int) : Option Int :=
  match AMap.get s.names key with
  | some w =>
    if h ≤ w.expires then (if w.value = creator then some (term + w.expires) else none)
    else some (term + h)
  | none => some (term + h)

def setPrimaryIf (s : State) (creator key : String) (flag : Bool) : State :=
  if flag || !(hasPrimary s creator) then { s with primary := AMap.set s.primary creator key } else s

/-- `RegisterRNSName`: everything is done in the name of `owner.String()` — `creator` here is the
canonical spelling of the signer -/
def register (s : State) (h : Int) (creator lname data : String) (years : Int) (setPrimary : Bool) :
    Option State := do
  let (name, tld) ← nameAndTLD lname
  let cost ← costOfName name tld
  req (1 ≤ years ∧ years ≤ maxYears)
  let price : Coins := [("ujkl", cost * years)]
  let expires ← regExpiry s (nameKey name tld) creator h (years * yearBlocks)
  let b1 ← Bank.send s.bank creator s.moduleAcc price
  let b2 ← sendFromModule { s with bank := b1 } s.polAcc price
  let rec' : NameRec :=
    { name := name, tld := tld, expires := expires, value := creator, data := data, locked := 0, subs := [] }
  some (setPrimaryIf { s with bank := b2, names := AMap.set s.names (nameKey name tld) rec' }
          creator (nameKey name tld) setPrimary)

def list (s : State) (h : Int) (creator lname priceRaw : String) (price : Option Coin) : Option State := do
  req (¬ (AMap.contains s.forsale lname))
  let (n, tld) ← nameAndTLD lname
  let w ← AMap.get s.names (nameKey n tld)
  req (w.value = creator)
  req (w.locked ≤ h)
  req (h ≤ w.expires)
  some { s with forsale := AMap.set s.forsale lname
                  { name := lname, owner := creator, priceRaw := priceRaw, price := price } }

def delist (s : State) (creator lname : String) : Option State := do
  let sale ← AMap.get s.forsale lname
  let (n, tld) ← nameAndTLD lname
  let w ← AMap.get s.names (nameKey n tld)
  req (sale.owner = creator)
  req (w.value = sale.owner)
  some { s with forsale := AMap.erase s.forsale lname }

/-- `BuyName`: the own-name test and the stored owner use the signer string as sent (`creator`),
the payment comes from the parsed account (`cc`) and goes to the parsed lister -/
def buy (s : State) (h : Int) (creator cc lname : String) : Option State := do
  let sale ← AMap.get s.forsale lname
  let (n, tld) ← nameAndTLD lname
  let w ← AMap.get s.names (nameKey n tld)
  req (h ≤ w.expires)
  req (w.value ≠ creator)
  req (w.value = sale.owner)
  let seller ← acct s sale.owner
  let (d, amt) ← sale.price
  let coins ← Bank.newCoins d amt
  let b1 ← Bank.send s.bank cc s.moduleAcc coins
  let b2 ← sendFromModule { s with bank := b1 } seller coins
  some { s with bank := b2,
                forsale := AMap.erase s.forsale sale.name,
                names := AMap.set s.names (nameKey n tld) { w with value := creator, data := "{}" } }

/-- Bid first returns the escrow of the bid it replaces (same bidder ++ name index), if any,
to the parsed recorded bidder. -/
def refundOld (s : State) (index : String) : Option Bank :=
  match AMap.get s.bids index with
  | some old => (acct s old.bidder).bind (fun ob => old.price.bind (fun oldCoins => sendFromModule s ob oldCoins))
  | none => some s.bank

/-- `AddBid`: index and recorded bidder are the canonical spelling (`creator` here is canonical) -/
def bid (s : State) (creator lname priceRaw : String) (price : Option Coins) : Option State := do
  let coins ← price
  let index := creator ++ lname
  let b0 ← refundOld s index
  let b1 ← Bank.send b0 creator s.moduleAcc coins
  some { s with bank := b1,
                bids := AMap.set s.bids index
                  { index := index, name := lname, bidder := creator, priceRaw := priceRaw, price := price } }

/-- `CancelOneBid`: the bid is looked up and removed under the signer string as sent (`creator`),
the refund goes to the parsed account (`cc`) -/
def cancelBid (s : State) (creator cc lname : String) : Option State := do
  let index := creator ++ lname
  let b ← AMap.get s.bids index
  let coins ← b.price
  let b1 ← sendFromModule s cc coins
  some { s with bank := b1, bids := AMap.erase s.bids index }

def acceptBid (s : State) (h : Int) (creator lname bidder : String) : Option State := do
  let (n, tld) ← nameAndTLD lname
  let w ← AMap.get s.names (nameKey n tld)
  req (h ≤ w.expires)
  req (w.value = creator)
  req (w.locked ≤ h)
  let index := bidder ++ lname
  let b ← AMap.get s.bids index
  let coins ← b.price
  let b1 ← sendFromModule s creator coins
  some { s with bank := b1, bids := AMap.erase s.bids index,
                names := AMap.set s.names (nameKey n tld) { w with value := b.bidder, data := "{}" } }

def transfer (s : State) (h : Int) (creator lname receiver : String) : Option State := do
  let (n, tld) ← nameAndTLD lname
  let w ← AMap.get s.names (nameKey n tld)
  req (h ≤ w.expires)
  req (w.value = creator)
  req (w.locked ≤ h)
  some { s with names := AMap.set s.names (nameKey n tld) { w with value := receiver, data := "{}" } }

def update (s : State) (h : Int) (creator lname data : String) : Option State := do
  let (n, tld) ← nameAndTLD lname
  let w ← AMap.get s.names (nameKey n tld)
  req (w.value = creator)
  req (h ≤ w.expires)
  some { s with names := AMap.set s.names (nameKey n tld) { w with data := data } }

def addRecord (s : State) (h : Int) (creator lname record recordLower value data : String) :
    Option State := do
  let (n, tld) ← nameAndTLD lname
  let w ← AMap.get s.names (nameKey n tld)
  req (h ≤ w.expires)
  req (creator = w.value)
  req (¬ (value.contains '.'))
  req (¬ (w.subs.any (fun sd => sd.name = record)))
  let sub : SubRec := { name := recordLower, value := value, data := data, tld := w.tld, expires := w.expires }
  some { s with names := AMap.set s.names (nameKey n tld) { w with subs := w.subs ++ [sub] } }

/-- `GetSubdomain`: needs a "."; sub = first piece, name = second piece -/
def subdomainOf (n0 : String) : Option (String × String) :=
  match n0.splitOn "." with
  | a :: b :: _ => some (a, b)
  | _ => none

def delRecord (s : State) (h : Int) (creator lname : String) : Option State := do
  let (n0, tld) ← nameAndTLD lname
  let (sub, n) ← subdomainOf n0
  let w ← AMap.get s.names (nameKey n tld)
  req (h ≤ w.expires)
  req (creator = w.value)
  req (w.subs.any (fun sd => sd.name = sub))
  some { s with names := AMap.set s.names (nameKey n tld)
                  { w with subs := w.subs.filter (fun sd => sd.name ≠ sub) } }

def init (s : State) (h : Int) (creator genName : String) : Option State := do
  req (¬ (AMap.contains s.inits creator))
  req (¬ (genName.contains '.'))
  req (6 ≤ genName.length)
  req (¬ isLive s (nameKey genName "jkl") h)
  let t := initBlocks + h
  let rec' : NameRec :=
    { name := genName, tld := "jkl", expires := t, value := creator, data := "{}", locked := t, subs := [] }
  some { s with inits := AMap.set s.inits creator true,
                names := AMap.set s.names (nameKey genName "jkl") rec' }

def makePrimary (s : State) (creator lname : String) : Option State := do
  let (n, tld) ← nameAndTLD lname
  some { s with primary := AMap.set s.primary creator (nameKey n tld) }

def Op.creator : Op → String
  | .register c .. | .list c .. | .delist c .. | .buy c .. | .bid c .. | .cancelBid c ..
  | .acceptBid c .. | .transfer c .. | .update c .. | .addRecord c .. | .delRecord c ..
  | .init c .. | .makePrimary c .. => c


/-- `IsValidName`: the regular expression `^[\\w-]+$` (ASCII word characters and '-'). -/
def isValidName (s : String) : Bool :=
  !s.isEmpty && s.all (fun c => c.isAlphanum || c = '_' || c = '-')

/-- `ValidateBasic`, the stateless gate in front of every handler, on the name exactly as sent
(not lower-cased): a recognisable TLD, and for Register/RegisterName/MakePrimary/AddRecord a valid name part.
Address well-formedness is checked in `step` through the `canon` table. -/
def validateBasic : Op → Bool
  | .register _ raw .. | .makePrimary _ raw .. | .addRecord _ raw .. => match nameAndTLD raw with
      | some (n, _) => isValidName n
      | none => false
  | .list _ raw .. | .delist _ raw .. | .buy _ raw .. | .bid _ raw .. | .cancelBid _ raw ..
  | .acceptBid _ raw .. | .transfer _ raw .. | .update _ raw ..
  | .delRecord _ raw .. => (nameAndTLD raw).isSome
  | .init .. => true

/-- the handler of each message; `cc` is the canonical spelling of the signer (`creator` as sent
is inside the op).  Register, Bid, AcceptBid, Transfer and Update work with `owner.String()`;
List, Delist, AddRecord, DelRecord, Init and MakePrimary with the string as sent; Buy and
CancelBid mix the two. -/
def handle (s : State) (h : Int) (cc : String) : Op → Option State
  | .register _ _ n d y p => register s h cc n d y p
  | .list c _ n pr p => list s h c n pr p
  | .delist c _ n => delist s c n
  | .buy c _ n => buy s h c cc n
  | .bid _ _ n pr p => bid s cc n pr p
  | .cancelBid c _ n => cancelBid s c cc n
  | .acceptBid _ _ n b => acceptBid s h cc n b
  | .transfer _ _ n r => transfer s h cc n r
  | .update _ _ n d => update s h cc n d
  | .addRecord c _ n r rl v d => addRecord s h c n r rl v d
  | .delRecord c _ n => delRecord s h c n
  | .init c g => init s h c g
  | .makePrimary c _ n => makePrimary s c n

/-- further address fields `ValidateBasic` parses -/
def otherAddrsValid (s : State) : Op → Bool
  | .transfer _ _ _ r => (acct s r).isSome
  | .acceptBid _ _ _ b => (acct s b).isSome
  | _ => true

/-- A delivered message: `ValidateBasic` (name shape, address well-formedness), then the handler
with the signer's canonical address. -/
def step (s : State) (h : Int) (op : Op) : Option State :=
  if validateBasic op && otherAddrsValid s op then
    (acct s op.creator).bind (fun cc => handle s h cc op)
  else none

/-- Total step: a failed message leaves the state as it was (baseapp discards the cache). -/
def stepT (s : State) (h : Int) (op : Op) : State := (step s h op).getD s

end Canine.Rns

namespace Canine.Rns
/-- A history: messages with the block height each was delivered at. -/
def run (s : State) : List (Int × Op) → State
  | [] => s
  | (h, op) :: rest => run (stepT s h op) rest
end Canine.Rns
