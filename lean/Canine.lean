-- Root of the `Canine` library: the executable models.  Property modules (Canine/Props/Cxx.lean)
-- are separate build targets (`lake build Canine.Props.Cxx`): their helper-lemma files were
-- written independently and are not meant to be imported together.
import Canine.Rns.Model
import Canine.Notif.Model
import Canine.Mint.Model
import Canine.Filetree.Model
import Canine.Filetree.Path
import Canine.Storage.Model
import Canine.Storage.Merkle
import Canine.Storage.Wasm
import Canine.Oracle.Model
import Canine.Genesis.Model
import Canine.Genesis.Modules
import Canine.Crypto.Sha256
import Canine.Crypto.Sha3
