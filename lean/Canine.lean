-- This module serves as the root of the `Canine` library.
-- Import modules here that should be built as part of the library.
import Canine.Basic
