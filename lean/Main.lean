import Driver.Rns
import Driver.Notif
import Driver.Mint
import Driver.Filetree
import Driver.Storage
import Driver.Genesis
import Driver.Msgs
import Driver.Query
open Lean (Json)

/-- Line protocol: one JSON step record per line on stdin; one verdict line per record on stdout:
`ok <mod>` | `DIFF <mod> hist=<h> i=<i> <what>` | `BAD <reason>`; a final `SUMMARY` line. -/
def checkLine (line : String) : String :=
  match Json.parse line with
  | .error e => s!"BAD parse: {e}"
  | .ok j =>
    let modName := (j.getObjValAs? String "mod").toOption.getD "?"
    let hist := (j.getObjValAs? Int "hist").toOption.getD 0
    let idx := (j.getObjValAs? Int "i").toOption.getD 0
    let res : Except String (Option String) :=
      match modName with
      | "rns" => Driver.Rns.check j
      | "notif" => Driver.Notif.check j
      | "mint" => Driver.Mint.check j
      | "filetree" => Driver.Filetree.check j
      | "storage" => Driver.Storage.check j
      | "genesis" => Driver.Genesis.check j
      | "query" => Driver.Query.check j
      | "oracle" => Driver.Msgs.checkOracle j
      | "wasm" => Driver.Msgs.checkWasm j
      | "msgtable" => Driver.Msgs.checkTable j
      | "path" => Driver.Filetree.checkPath j
      | "panic" => .ok (some s!"panic {(j.getObjValAs? String "where").toOption.getD ""}: {(j.getObjValAs? String "panic").toOption.getD ""}")
      | m => .error s!"unknown mod {m}"
    match res with
    | .error e => s!"BAD {modName} hist={hist} i={idx} {e}"
    | .ok none => s!"ok {modName}"
    | .ok (some d) =>
      let kind := match j.getObjVal? "op" with
        | .ok o => Driver.opKind o
        | .error _ => match j.getObjVal? "q" with
          | .ok q => (j.getObjValAs? String "sub").toOption.getD "?" ++ "." ++ Driver.opKind q
          | .error _ => "?"
      s!"DIFF {modName} hist={hist} i={idx} op={kind} {d}"

partial def loop (h : IO.FS.Stream) (out : IO.FS.Stream) (n ok diff bad : Nat) : IO (Nat × Nat × Nat × Nat) := do
  let line ← h.getLine
  if line.isEmpty then return (n, ok, diff, bad)
  let l := line.trimAscii.toString
  if l.isEmpty then loop h out n ok diff bad
  else
    let v := checkLine l
    if v.startsWith "ok" then loop h out (n+1) (ok+1) diff bad
    else
      out.putStrLn v
      if v.startsWith "DIFF" then loop h out (n+1) ok (diff+1) bad
      else loop h out (n+1) ok diff (bad+1)

def main : IO UInt32 := do
  let stdin ← IO.getStdin
  let stdout ← IO.getStdout
  let (n, ok, diff, bad) ← loop stdin stdout 0 0 0 0
  stdout.putStrLn s!"SUMMARY records={n} ok={ok} diff={diff} bad={bad}"
  return (if diff + bad == 0 then 0 else 1)
