import Driver.Storage
import Driver.Rns
import Driver.Notif
import Driver.Filetree
import Driver.Msgs
import Canine.Query.Storage
import Canine.Query.Rns
import Canine.Query.Notif
import Canine.Query.Filetree
import Canine.Query.Oracle
open Lean (Json FromJson ToJson fromJson? toJson)
namespace Canine
namespace Query
deriving instance FromJson, ToJson for PageReq
end Query
namespace Storage.Query
deriving instance FromJson, ToJson for Q
deriving instance FromJson, ToJson for Resp
end Storage.Query
namespace Rns.Query
deriving instance FromJson, ToJson for Q
deriving instance FromJson, ToJson for Resp
end Rns.Query
namespace Notif.Query
deriving instance FromJson, ToJson for Q
deriving instance FromJson, ToJson for Resp
end Notif.Query
namespace Oracle.Query
deriving instance FromJson, ToJson for Q
deriving instance FromJson, ToJson for Resp
end Oracle.Query
namespace Filetree.Query
deriving instance FromJson, ToJson for Q
deriving instance FromJson, ToJson for Resp
end Filetree.Query
end Canine

namespace Driver.Query
open Canine Driver

/-- a query record: recompute the response from the recorded state and compare -/
def checkStorage (j : Json) : Except String (Option String) := do
  let st : Storage.State ← getField j "state" >>= fromJson?
  let now : Int ← getField j "now" >>= fromJson?
  let q : Storage.Query.Q ← getField j "q" >>= fromJson?
  let rj ← getField j "resp"
  if let .ok m := rj.getObjVal? "malformed" then
    return some s!"field=keyshape response carries malformed proof keys: {m.compress}"
  let impl : Storage.Query.Resp ← fromJson? rj
  let model := Storage.Query.run st now q
  return cmpField "resp" model impl

def checkRns (j : Json) : Except String (Option String) := do
  let st : Rns.State ← getField j "state" >>= fromJson?
  let q : Rns.Query.Q ← getField j "q" >>= fromJson?
  let impl : Rns.Query.Resp ← getField j "resp" >>= fromJson?
  return cmpField "resp" (Rns.Query.run st q) impl

def checkNotif (j : Json) : Except String (Option String) := do
  let st : Notif.State ← getField j "state" >>= fromJson?
  let q : Notif.Query.Q ← getField j "q" >>= fromJson?
  let impl : Notif.Query.Resp ← getField j "resp" >>= fromJson?
  return cmpField "resp" (Notif.Query.run st q) impl

def checkFiletree (j : Json) : Except String (Option String) := do
  let st : Filetree.State ← getField j "state" >>= fromJson?
  let q : Filetree.Query.Q ← getField j "q" >>= fromJson?
  let impl : Filetree.Query.Resp ← getField j "resp" >>= fromJson?
  return cmpField "resp" (Filetree.Query.run st q) impl

def checkOracle (j : Json) : Except String (Option String) := do
  let st : Oracle.State ← getField j "state" >>= fromJson?
  let q : Oracle.Query.Q ← getField j "q" >>= fromJson?
  let impl : Oracle.Query.Resp ← getField j "resp" >>= fromJson?
  return cmpField "resp" (Oracle.Query.run st q) impl

def check (j : Json) : Except String (Option String) := do
  let sub : String ← getField j "sub" >>= fromJson?
  match sub with
  | "storage" => checkStorage j
  | "rns" => checkRns j
  | "notif" => checkNotif j
  | "filetree" => checkFiletree j
  | "oracle" => checkOracle j
  | s => throw s!"unknown query module {s}"

end Driver.Query
