import Lean.Data.Json
import Lean.Elab.Deriving.FromToJson
import Canine.Rns.Model
open Lean (Json FromJson ToJson fromJson? toJson)
namespace Canine.Rns
deriving instance FromJson, ToJson for SubRec
deriving instance FromJson, ToJson for NameRec
deriving instance FromJson, ToJson for Listing
deriving instance FromJson, ToJson for BidRec
deriving instance FromJson, ToJson for State
deriving instance FromJson, ToJson for Op
end Canine.Rns
