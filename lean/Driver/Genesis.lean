import Driver.Common
import Canine.Genesis.Model
open Lean (Json FromJson ToJson fromJson? toJson)
namespace Driver.Genesis
open Canine Canine.Genesis Driver

/-- one (module) record of a real export → validate → import: compare, kind by kind, with what the
model's table predicts (carried kinds preserved exactly, omitted kinds lost entirely) -/
def check (j : Json) : Except String (Option String) := do
  if let .ok (p : String) := j.getObjValAs? String "initPanic" then
    return some s!"field=init importing the exported genesis panicked: {p}"
  let module : String ← getField j "module" >>= fromJson?
  let kinds : List (String × Json) ← getField j "kinds" >>= fromJson?
  let res ← kinds.mapM (fun (kind, e) => do
    let before : Nat ← e.getObjValAs? Nat "before"
    let after : Nat ← e.getObjValAs? Nat "after"
    let lost : Nat ← e.getObjValAs? Nat "lost"
    let changed : Nat ← e.getObjValAs? Nat "changed"
    let extra : Nat ← e.getObjValAs? Nat "extra"
    match predict module kind with
    | .preserved =>
      pure (if lost = 0 ∧ changed = 0 ∧ extra = 0 then none
        else some s!"field=kind:{module}.{kind} model=preserved impl=lost:{lost},changed:{changed},extra:{extra}")
    | .lost =>
      pure (if after = 0 then none else some s!"field=kind:{module}.{kind} model=lost impl=present-after-import:{after}")
    | .latestOnly =>
      pure (if after = min before 1 ∧ changed = 0 ∧ extra = 0 then none
        else some s!"field=kind:{module}.{kind} model=newest-record-only impl=before:{before},after:{after},changed:{changed},extra:{extra}")
    | .derived => pure none
    | .unknown =>
      pure (if before = 0 ∧ after = 0 then none
        else some s!"field=kind:{module}.{kind} model=unknown-record-kind impl=before:{before},after:{after}"))
  return allSome res

end Driver.Genesis
