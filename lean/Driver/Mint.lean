import Driver.Common
import Lean.Elab.Deriving.FromToJson
import Canine.Mint.Model
import Canine.Query.Mint
open Lean (Json FromJson ToJson fromJson? toJson)
namespace Canine.Mint
deriving instance FromJson, ToJson for Params
deriving instance FromJson, ToJson for State
end Canine.Mint

namespace Driver.Mint
open Canine Canine.Mint Driver

def check (j : Json) : Except String (Option String) := do
  let pre : State ← getField j "pre" >>= fromJson?
  let post : State ← getField j "post" >>= fromJson?
  let p : Params ← getField j "params" >>= fromJson?
  let (m, _) := blockMint p pre
  -- the query server, asked inside this block (when the record carries its answers)
  let qd : Option String :=
    match j.getObjVal? "queries" with
    | .ok qj =>
      let infl := (qj.getObjValAs? Int "inflation").toOption
      let atH := (qj.getObjValAs? Int "mintedAtH").toOption
      let atPrev := (qj.getObjValAs? Int "mintedPrev").toOption
      allSome [
        (match infl with
          | some v => cmpField "query.inflation" (Query.inflation p pre.last post.supply).raw v
          | none => some "field=query.inflation impl=error"),
        (match atH with | some v => cmpField "query.mintedTokens" (Query.mintedTokens post.last) v | none => none),
        (match atPrev with | some v => cmpField "query.mintedTokensPrev" (Query.mintedTokens pre.last) v | none => none)]
    | .error _ => none
  return allSome [qd, cmpField "last" m.last post.last, cmpField "supply" m.supply post.supply,
    cmpField "stakers" m.stakers post.stakers, cmpField "dev" m.dev post.dev,
    cmpField "stipend" m.stipend post.stipend, cmpField "modBal" m.modBal post.modBal]

end Driver.Mint
