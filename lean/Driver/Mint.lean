import Driver.Common
import Lean.Elab.Deriving.FromToJson
import Canine.Mint.Model
open Lean (Json FromJson ToJson fromJson? toJson)
namespace Canine.Mint
deriving instance FromJson, ToJson for Params
deriving instance FromJson, ToJson for State
end Canine.Mint

namespace Driver.Mint
open Canine Canine.Mint Driver

def check (j : Json) : Except String (Option String) := do
  let pre : State ← getField j "pre" >>= fromJson?
  let post : State ← getField j "post" >>= fromJson?
  let p : Params ← getField j "params" >>= fromJson?
  let (m, _) := blockMint p pre
  return allSome [cmpField "last" m.last post.last, cmpField "supply" m.supply post.supply,
    cmpField "stakers" m.stakers post.stakers, cmpField "dev" m.dev post.dev,
    cmpField "stipend" m.stipend post.stipend, cmpField "modBal" m.modBal post.modBal]

end Driver.Mint
