import Lean.Data.Json
import Canine.Basic.Bank
open Lean (Json FromJson ToJson fromJson? toJson)
namespace Driver
open Canine

def sortMap {V : Type} (m : AMap String V) : AMap String V :=
  m.mergeSort (fun a b => a.1 ≤ b.1)

def pairLe (a b : String × String) : Bool := a.1 < b.1 || (a.1 == b.1 && a.2 ≤ b.2)

/-- canonical bank: zero balances dropped, sorted by (address, denom) -/
def canonBank (b : Bank) : Bank :=
  (b.filter (fun p => p.2 != 0)).mergeSort (fun a b => pairLe a.1 b.1)

def keysNodup {K V : Type} [DecidableEq K] (m : AMap K V) : Bool := decide (m.map (·.1)).Nodup

def getField (j : Json) (k : String) : Except String Json := j.getObjVal? k

/-- compare two values through their JSON rendering, returning a short description on mismatch -/
def cmpField {α : Type} [ToJson α] (name : String) (model impl : α) : Option String :=
  let a := (toJson model).compress
  let b := (toJson impl).compress
  if a == b then none else some s!"field={name} model={a} impl={b}"

/-- compare two canonical maps (lists of (rendered key, value)) and report only the differing keys -/
def cmpMap {V : Type} [ToJson V] (name : String) (model impl : List (String × V)) : Option String :=
  let render (v : V) := (toJson v).compress
  let keys := ((model.map (·.1)) ++ (impl.map (·.1))).eraseDups
  let diffs := keys.filterMap (fun k =>
    let a := (model.find? (·.1 == k)).map (fun p => render p.2)
    let b := (impl.find? (·.1 == k)).map (fun p => render p.2)
    if a == b then none else some s!"{k}: model={a.getD "∅"} impl={b.getD "∅"}")
  if diffs.isEmpty then none else some s!"field={name} {" | ".intercalate (diffs.take 6)}"

def firstSome : List (Option String) → Option String
  | [] => none
  | some s :: _ => some s
  | none :: t => firstSome t

/-- all mismatching fields, joined with " ;; " (so a check can filter by field) -/
def allSome (l : List (Option String)) : Option String :=
  match l.filterMap id with
  | [] => none
  | xs => some (" ;; ".intercalate xs)

/-- the constructor name of a derived-JSON inductive value: the single key of the object -/
def opKind (j : Lean.Json) : String :=
  match j with
  | .obj kvs => match kvs.toList with
    | [(k, _)] => k
    | _ => "?"
  | .str s => s
  | _ => "?"

end Driver
