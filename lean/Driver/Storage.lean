import Driver.Common
import Lean.Elab.Deriving.FromToJson
import Canine.Storage.Model
import Canine.Storage.Merkle
import Canine.Genesis.Modules
import Canine.Crypto.Sha256
import Canine.Crypto.Sha3
open Lean (Json FromJson ToJson fromJson? toJson)
namespace Canine
deriving instance FromJson, ToJson for Dec
namespace Storage
deriving instance FromJson, ToJson for File
deriving instance FromJson, ToJson for Proof
deriving instance FromJson, ToJson for Provider
deriving instance FromJson, ToJson for PayInfo
deriving instance FromJson, ToJson for Gauge
deriving instance FromJson, ToJson for Form
deriving instance FromJson, ToJson for Params
deriving instance FromJson, ToJson for State
deriving instance FromJson, ToJson for Op
end Storage
namespace Genesis.Storage
deriving instance FromJson, ToJson for CollateralRec
deriving instance FromJson, ToJson for GenesisState
end Genesis.Storage
end Canine

namespace Driver.Storage
open Canine Canine.Storage Driver

/-- sort any map by the JSON rendering of its key -/
def canonMap {K V : Type} [ToJson K] (m : AMap K V) : List (String × V) :=
  (m.map (fun p => ((toJson p.1).compress, p.2))).mergeSort (fun a b => a.1 ≤ b.1)

def hexVal (c : Char) : Option UInt8 :=
  if '0' ≤ c ∧ c ≤ '9' then some (c.toNat - 48).toUInt8
  else if 'a' ≤ c ∧ c ≤ 'f' then some (c.toNat - 87).toUInt8
  else if 'A' ≤ c ∧ c ≤ 'F' then some (c.toNat - 55).toUInt8 else none

def unhex (s : String) : Option (List UInt8) :=
  let rec go : List Char → Option (List UInt8)
    | [] => some []
    | [_] => none
    | a :: b :: rest => do
      let x ← hexVal a
      let y ← hexVal b
      let r ← go rest
      some ((x <<< 4 ||| y) :: r)
  go s.toList

def sha3L (l : List UInt8) : List UInt8 := (Crypto.sha3_512 (ByteArray.mk l.toArray)).toList
def sha256L (l : List UInt8) : List UInt8 := (Crypto.sha256 (ByteArray.mk l.toArray)).toList

/-- the ledger modulo address spelling: the model credits the string it is given (a prover key as
sent), the chain credits the account that string denotes; balances of all spellings of one account
are summed before the comparison -/
def byAccount (s : State) (b : Bank) : Bank :=
  b.foldl (fun acc kv =>
    let k := (acctOf s kv.1.1, kv.1.2)
    AMap.set acc k ((AMap.get acc k).getD 0 + kv.2)) []

def diff (m i : State) : Option String :=
  allSome [cmpMap "files" (canonMap m.files) (canonMap i.files),
    cmpMap "files2" (canonMap m.files2) (canonMap i.files2),
    cmpMap "proofs" (canonMap m.proofs) (canonMap i.proofs),
    cmpMap "providers" (canonMap m.providers) (canonMap i.providers),
    cmpMap "payinfo" (canonMap m.payinfo) (canonMap i.payinfo),
    cmpMap "collateral" (canonMap m.collateral) (canonMap i.collateral),
    cmpMap "gauges" (canonMap m.gauges) (canonMap i.gauges),
    cmpMap "attests" (canonMap m.attests) (canonMap i.attests),
    cmpMap "reports" (canonMap m.reports) (canonMap i.reports),
    cmpMap "bank" (canonMap (canonBank (byAccount i m.bank))) (canonMap (canonBank (byAccount i i.bank)))]

def wellFormed (s : State) : Bool :=
  keysNodup s.files && keysNodup s.files2 && keysNodup s.proofs && keysNodup s.providers &&
  keysNodup s.payinfo && keysNodup s.collateral && keysNodup s.gauges && keysNodup s.attests &&
  keysNodup s.reports && keysNodup s.bank

/-- tie of the Merkle model to the chain's VerifyProof on this very submission -/
def checkProof (j : Json) (verified : Bool) : Except String (Option String) := do
  let opj ← getField j "op" >>= (·.getObjVal? "postProof")
  let pj ← opj.getObjVal? "proof"
  if pj.isNull then
    return if verified then some "field=verify undecodable proof accepted" else none
  let index : Nat ← pj.getObjValAs? Nat "index"
  let hashesHex : List String ← pj.getObjValAs? (List String) "hashes"
  let itemHex : String ← opj.getObjValAs? String "item"
  let rootHex : String ← opj.getObjValAs? String "root"
  let challenge : Int ← opj.getObjValAs? Int "challenge"
  match unhex itemHex, unhex rootHex, hashesHex.mapM unhex with
  | some item, some root, some hashes =>
    let model := decide (0 ≤ challenge) &&
      Merkle.verifyProof sha3L sha256L root challenge.toNat item index hashes
    return if model == verified then none
      else some s!"field=verify model={model} impl={verified} challenge={challenge} index={index}"
  | _, _, _ => throw "bad hex in postProof record"

def check (j : Json) : Except String (Option String) := do
  let pre : State ← getField j "pre" >>= fromJson?
  let post : State ← getField j "post" >>= fromJson?
  let h : Int ← getField j "h" >>= fromJson?
  let now : Int ← getField j "now" >>= fromJson?
  let ok : Bool ← getField j "ok" >>= fromJson?
  let bad : List String ← getField j "badKeys" >>= fromJson?
  if !wellFormed pre then throw "pre-state has duplicate keys"
  if !bad.isEmpty then return some s!"field=keyshape impl has malformed store keys: {bad}"
  let opj ← getField j "op"
  if let .str "block" := opj then
    match beginBlock pre h now with
    | .error e => return some s!"field=panic model predicts a BeginBlock panic ({e}) impl=ok"
    | .ok s' => return diff s' post
  -- a restart of the network from its own exported genesis changes nothing the module holds
  if let .str "restart" := opj then
    -- the concrete genesis model (Canine/Genesis/Modules.lean) against the real export: every list of the
    -- exported genesis, in order, must be what `exportGenesis` computes from the state before the restart, and
    -- importing the real genesis into blank stores must give the state after it
    let gd : Option String ←
      match j.getObjVal? "genesis" with
      | .ok gj =>
        if gj.isNull then pure none else do
        let g : Genesis.Storage.GenesisState ← fromJson? gj
        let m := Genesis.Storage.exportGenesis pre
        let imported := Genesis.Storage.initGenesis (Genesis.Storage.blank pre) g
        pure (allSome [cmpField "genesis.params" m.params g.params, cmpField "genesis.fileList" m.fileList g.fileList,
          cmpField "genesis.providersList" m.providersList g.providersList, cmpField "genesis.paymentInfoList" m.paymentInfoList g.paymentInfoList,
          cmpField "genesis.collateralList" m.collateralList g.collateralList, cmpField "genesis.activeProvidersList" m.activeProvidersList g.activeProvidersList,
          cmpField "genesis.reportForms" m.reportForms g.reportForms, cmpField "genesis.attestForms" m.attestForms g.attestForms,
          cmpField "genesis.paymentGauges" m.paymentGauges g.paymentGauges, cmpField "genesis.proofList" m.proofList g.proofList,
          cmpField "genesis.validate" (Genesis.Storage.validate g) ((gj.getObjValAs? Bool "validateOk").toOption.getD true),
          (diff imported post).map (fun d => "genesis.import " ++ d), cmpField "genesis.import.params" imported.params post.params])
      | .error _ => pure none
    return allSome [diff pre post, gd]
  if let .ok pj := opj.getObjVal? "setParams" then
    -- a governance parameter change: only the parameters move (`Event.setParams` of C15)
    let p : Params ← fromJson? pj
    if !ok then return (diff pre post).map (fun d => "failed-message-changed-state " ++ d)
    return allSome [diff { pre with params := p } post, cmpField "params" p post.params]
  let op : Op ← fromJson? opj
  match step pre h now op with
  | none =>
    if ok then return some "field=outcome model=failed impl=ok"
    return (diff pre post).map (fun d => "failed-message-changed-state " ++ d)
  | some s' =>
    if !ok then return some "field=outcome model=ok impl=failed"
    let succ : Option Bool := (j.getObjValAs? Bool "success").toOption
    let succD := match reportedSuccess pre h op, succ with
      | some m, some i => if m == i then none else some s!"field=success model={m} impl={i}"
      | _, _ => none
    let proofD ← match op with
      | .postProof _ _ _ _ _ v nc =>
        let c1 ← checkProof j v
        -- the drawn challenge must designate an existing piece
        let c2 := match AMap.get post.files (match op with | .postProof _ m o st .. => (m, o, st) | _ => ("", "", 0)) with
          | some f =>
            let p := pieces f.fileSize pre.params.chunkSize
            if (reportedSuccess pre h op) == some true && !(0 ≤ nc && (nc < p || (p ≤ 0 && nc = 0))) then
              some s!"field=challenge drawn {nc} outside [0,{p})" else none
          | none => none
        pure (allSome [c1, c2])
      | _ => pure none
    return allSome [diff s' post, succD, proofD]

end Driver.Storage
