import Driver.Common
import Driver.RnsCodec
import Canine.Genesis.Modules
open Lean (Json FromJson ToJson fromJson? toJson)
namespace Canine.Genesis.Rns
deriving instance FromJson, ToJson for Whois
deriving instance FromJson, ToJson for InitRec
deriving instance FromJson, ToJson for PrimaryName
deriving instance FromJson, ToJson for GenesisState
end Canine.Genesis.Rns
namespace Driver.Rns
open Canine Canine.Rns Driver

def canon (s : State) : State :=
  { s with names := sortMap s.names, forsale := sortMap s.forsale, bids := sortMap s.bids,
           inits := sortMap s.inits, primary := sortMap s.primary, bank := canonBank s.bank, canon := sortMap s.canon }

def wellFormed (s : State) : Bool :=
  keysNodup s.names && keysNodup s.forsale && keysNodup s.bids && keysNodup s.inits &&
  keysNodup s.primary && keysNodup s.bank

def diff (m i : State) : Option String :=
  let m := canon m; let i := canon i
  allSome [cmpField "names" m.names i.names, cmpField "forsale" m.forsale i.forsale,
    cmpField "bids" m.bids i.bids, cmpField "inits" m.inits i.inits,
    cmpField "primary" m.primary i.primary, cmpField "bank" m.bank i.bank]

/-- check one step record; `none` = the model reproduces the implementation's step -/
def check (j : Json) : Except String (Option String) := do
  let pre : State ← getField j "pre" >>= fromJson?
  let post : State ← getField j "post" >>= fromJson?
  -- a restart of the network from its own exported genesis changes nothing the module holds
  if let .ok (.str "restart") := getField j "op" then
    -- the concrete genesis model against the real export (each list, in order), and the import of the real genesis
    let gd : Option String ←
      match j.getObjVal? "genesis" with
      | .ok gj =>
        if gj.isNull then pure none else do
        let g : Genesis.Rns.GenesisState ← fromJson? gj
        let m := Genesis.Rns.exportGenesis pre
        let imported := Genesis.Rns.initGenesis (Genesis.Rns.blank pre) g
        pure (allSome [cmpField "genesis.whoIsList" m.whoIsList g.whoIsList, cmpField "genesis.namesList" m.namesList g.namesList,
          cmpField "genesis.bidsList" m.bidsList g.bidsList, cmpField "genesis.forSaleList" m.forSaleList g.forSaleList,
          cmpField "genesis.initList" m.initList g.initList, cmpField "genesis.primaryNameList" m.primaryNameList g.primaryNameList,
          cmpField "genesis.validate" (Genesis.Rns.validate g) ((gj.getObjValAs? Bool "validateOk").toOption.getD true),
          (diff imported post).map (fun d => "genesis.import " ++ d)])
      | .error _ => pure none
    return allSome [diff pre post, gd]
  let op : Op ← getField j "op" >>= fromJson?
  let h : Int ← getField j "h" >>= fromJson?
  let ok : Bool ← getField j "ok" >>= fromJson?
  if !wellFormed pre then throw "pre-state has duplicate keys"
  match step pre h op with
  | none =>
    if ok then return some "field=outcome model=failed impl=ok"
    return (diff pre post).map (fun d => "failed-message-changed-state " ++ d)
  | some s' =>
    if !ok then return some "field=outcome model=ok impl=failed"
    return diff s' post

end Driver.Rns
