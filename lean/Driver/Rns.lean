import Driver.Common
import Driver.RnsCodec
open Lean (Json FromJson ToJson fromJson? toJson)
namespace Driver.Rns
open Canine Canine.Rns Driver

def canon (s : State) : State :=
  { s with names := sortMap s.names, forsale := sortMap s.forsale, bids := sortMap s.bids,
           inits := sortMap s.inits, primary := sortMap s.primary, bank := canonBank s.bank, canon := sortMap s.canon }

def wellFormed (s : State) : Bool :=
  keysNodup s.names && keysNodup s.forsale && keysNodup s.bids && keysNodup s.inits &&
  keysNodup s.primary && keysNodup s.bank

def diff (m i : State) : Option String :=
  let m := canon m; let i := canon i
  allSome [cmpField "names" m.names i.names, cmpField "forsale" m.forsale i.forsale,
    cmpField "bids" m.bids i.bids, cmpField "inits" m.inits i.inits,
    cmpField "primary" m.primary i.primary, cmpField "bank" m.bank i.bank]

/-- check one step record; `none` = the model reproduces the implementation's step -/
def check (j : Json) : Except String (Option String) := do
  let pre : State ← getField j "pre" >>= fromJson?
  let post : State ← getField j "post" >>= fromJson?
  -- a restart of the network from its own exported genesis changes nothing the module holds
  if let .ok (.str "restart") := getField j "op" then return diff pre post
  let op : Op ← getField j "op" >>= fromJson?
  let h : Int ← getField j "h" >>= fromJson?
  let ok : Bool ← getField j "ok" >>= fromJson?
  if !wellFormed pre then throw "pre-state has duplicate keys"
  match step pre h op with
  | none =>
    if ok then return some "field=outcome model=failed impl=ok"
    return (diff pre post).map (fun d => "failed-message-changed-state " ++ d)
  | some s' =>
    if !ok then return some "field=outcome model=ok impl=failed"
    return diff s' post

end Driver.Rns
