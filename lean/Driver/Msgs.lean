import Driver.Common
import Driver.Storage
import Lean.Elab.Deriving.FromToJson
import Canine.Oracle.Model
import Canine.Storage.Wasm
import Canine.Genesis.Modules
open Lean (Json FromJson ToJson fromJson? toJson)
namespace Canine.Oracle
deriving instance FromJson, ToJson for Feed
deriving instance FromJson, ToJson for State
deriving instance FromJson, ToJson for Op
end Canine.Oracle
namespace Canine.Genesis.Oracle
deriving instance FromJson, ToJson for Params
deriving instance FromJson, ToJson for GenesisState
end Canine.Genesis.Oracle

namespace Driver.Msgs
open Canine Driver

def checkOracle (j : Json) : Except String (Option String) := do
  let pre : Oracle.State ← getField j "pre" >>= fromJson?
  let post : Oracle.State ← getField j "post" >>= fromJson?
  let diff (m i : Oracle.State) := allSome [cmpMap "feeds" (Storage.canonMap m.feeds) (Storage.canonMap i.feeds),
    cmpMap "bank" (Storage.canonMap (canonBank m.bank)) (Storage.canonMap (canonBank i.bank))]
  if let .ok (.str "restart") := getField j "op" then
    -- nothing the module holds may change; the oracle genesis model must export what the chain exported
    let gd : Option String ←
      match j.getObjVal? "genesis" with
      | .ok gj =>
        if gj.isNull then pure none else do
        let g : Genesis.Oracle.GenesisState ← fromJson? gj
        let m := Genesis.Oracle.exportGenesis pre
        let imported := Genesis.Oracle.initGenesis (Genesis.Oracle.blank pre) g
        pure (allSome [cmpField "genesis.params" m.params g.params, cmpField "genesis.feedList" m.feedList g.feedList,
          cmpField "genesis.validate" (Genesis.Oracle.validate g) ((gj.getObjValAs? Bool "validateOk").toOption.getD true),
          (diff imported post).map (fun d => "genesis.import " ++ d), cmpField "genesis.import.deposit" imported.deposit post.deposit])
      | .error _ => pure none
    return allSome [diff pre post, cmpField "deposit" pre.deposit post.deposit, gd]
  let op : Oracle.Op ← getField j "op" >>= fromJson?
  let now : Int ← getField j "now" >>= fromJson?
  let ok : Bool ← getField j "ok" >>= fromJson?
  match Oracle.step pre now op with
  | none =>
    if ok then return some "field=outcome model=failed impl=ok"
    return (diff pre post).map (fun d => "failed-message-changed-state " ++ d)
  | some s' =>
    if !ok then return some "field=outcome model=ok impl=failed"
    return diff s' post

def checkWasm (j : Json) : Except String (Option String) := do
  let pre : Storage.State ← getField j "pre" >>= fromJson?
  let post : Storage.State ← getField j "post" >>= fromJson?
  let op : Storage.Op ← getField j "op" >>= fromJson?
  let h : Int ← getField j "h" >>= fromJson?
  let now : Int ← getField j "now" >>= fromJson?
  let ok : Bool ← getField j "ok" >>= fromJson?
  let contract : String ← getField j "contract" >>= fromJson?
  match Storage.wasmPostFile pre h now contract op with
  | none =>
    if ok then return some "field=outcome model=failed impl=ok"
    return (Storage.diff pre post).map (fun d => "failed-message-changed-state " ++ d)
  | some s' =>
    if !ok then return some "field=outcome model=ok impl=failed"
    return Storage.diff s' post

/-- one row of the live message table: exactly one signer, the Creator field; routable; and, when
real signed transactions were sent, accepted from the creator's key and rejected from another's -/
def checkTable (j : Json) : Except String (Option String) := do
  let url : String ← getField j "url" >>= fromJson?
  if let .ok (e : String) := j.getObjValAs? String "error" then
    return some s!"field=table {url}: {e}"
  let n : Nat ← getField j "nSigners" >>= fromJson?
  let sf : List String ← getField j "signerFields" >>= fromJson?
  let routable : Bool ← getField j "routable" >>= fromJson?
  let signed : Option String :=
    match j.getObjVal? "signedByCreator", j.getObjVal? "signedByOther" with
    | .ok a, .ok b =>
      let ea := (a.getObjValAs? Bool "sigError").toOption.getD true
      let eb := (b.getObjValAs? Bool "sigError").toOption.getD false
      if ea then some s!"field=signed {url}: the creator's own signature was rejected"
      else if !eb then some s!"field=signed {url}: a transaction signed by another key was not rejected by signature verification"
      else none
    | _, _ => none
  return allSome [
    if n == 1 && sf == ["Creator"] then none else some s!"field=signers {url}: {n} signers {sf}",
    if routable then none else some s!"field=routable {url}: no handler",
    signed]

end Driver.Msgs
