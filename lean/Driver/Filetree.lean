import Driver.Common
import Lean.Elab.Deriving.FromToJson
import Canine.Filetree.Model
import Canine.Filetree.Path
import Canine.Genesis.Modules
import Canine.Crypto.Sha256
open Lean (Json FromJson ToJson fromJson? toJson)
namespace Canine.Filetree
deriving instance FromJson, ToJson for Acl
deriving instance FromJson, ToJson for Entry
deriving instance FromJson, ToJson for State
deriving instance FromJson, ToJson for Op
end Canine.Filetree
namespace Canine.Genesis.Filetree
deriving instance FromJson, ToJson for PubkeyRec
deriving instance FromJson, ToJson for GenesisState
end Canine.Genesis.Filetree

namespace Driver.Filetree
open Canine Canine.Filetree Driver

def H (s : String) : String := Crypto.sha256Hex s
def HL (l : Str) : Str := (Crypto.sha256Hex (String.ofList l)).toList

def canonAcl : Acl → Acl
  | .map m => .map (sortMap m)
  | .null => .null
  | .raw s => .raw s

def canonFiles (m : AMap (String × String) Entry) : List (String × Entry) :=
  (m.map (fun p => (p.1.1 ++ "/" ++ p.1.2, { p.2 with viewers := canonAcl p.2.viewers, editors := canonAcl p.2.editors }))).mergeSort
    (fun a b => a.1 ≤ b.1)

def diff (m i : State) : Option String :=
  allSome [cmpField "files" (canonFiles m.files) (canonFiles i.files),
           cmpField "pubkeys" (sortMap m.pubkeys) (sortMap i.pubkeys)]

def check (j : Json) : Except String (Option String) := do
  let pre : State ← getField j "pre" >>= fromJson?
  let post : State ← getField j "post" >>= fromJson?
  let bad : List String ← getField j "badKeys" >>= fromJson?
  if !keysNodup pre.files then throw "pre-state has duplicate keys"
  if !bad.isEmpty then return some s!"field=keyshape impl has keys not of the form address/owner/: {bad}"
  -- a restart of the network from its own exported genesis changes nothing the module holds
  if let .ok (.str "restart") := getField j "op" then
    let gd : Option String ←
      match j.getObjVal? "genesis" with
      | .ok gj =>
        if gj.isNull then pure none else do
        let g : Genesis.Filetree.GenesisState ← fromJson? gj
        let m := Genesis.Filetree.exportGenesis pre
        let imported := Genesis.Filetree.initGenesis (Genesis.Filetree.blank pre) g
        pure (allSome [cmpField "genesis.filesList" m.filesList g.filesList, cmpField "genesis.pubKeyList" m.pubKeyList g.pubKeyList,
          cmpField "genesis.validate" (Genesis.Filetree.validate g) ((gj.getObjValAs? Bool "validateOk").toOption.getD true),
          (diff imported post).map (fun d => "genesis.import " ++ d)])
      | .error _ => pure none
    return allSome [diff pre post, gd]
  let op : Op ← getField j "op" >>= fromJson?
  let ok : Bool ← getField j "ok" >>= fromJson?
  let resp : String ← getField j "respPath" >>= fromJson?
  match step H pre op with
  | none =>
    if ok then return some "field=outcome model=failed impl=ok"
    return (diff pre post).map (fun d => "failed-message-changed-state " ++ d)
  | some s' =>
    if !ok then return some "field=outcome model=ok impl=failed"
    let respD := match op with
      | .postFile _ _ hp hc .. => cmpField "response" (addToMerkleS H hp hc) resp
      | _ => none
    return allSome [diff s' post, respD]

/-- pure path record: MerklePath / AddToMerkle computed by the model with the real SHA-256 -/
def checkPath (j : Json) : Except String (Option String) := do
  let path : String ← getField j "path" >>= fromJson?
  let child : String ← getField j "child" >>= fromJson?
  let mp : String ← getField j "merklePath" >>= fromJson?
  let ch : String ← getField j "childHash" >>= fromJson?
  let added : String ← getField j "added" >>= fromJson?
  let joined : String ← getField j "joined" >>= fromJson?
  let trailing : String ← getField j "trailing" >>= fromJson?
  let p := path.toList
  let c := child.toList
  let m := merklePath HL p
  -- the client-side derivation for the path, the path with a child, and with a trailing slash
  let helpers : List (List String) := (j.getObjValAs? (List (List String)) "helpers").toOption.getD []
  let want := [p, p ++ '/' :: c, p ++ ['/']].map (fun q =>
    let r := merkleHelper HL q
    [String.ofList r.1, String.ofList r.2])
  let helperD := if helpers == want then none else some s!"field=merkleHelper model={want} impl={helpers}"
  -- the message the client-side builder (`CreateMsgPostFile`) makes for the same plain paths
  let client : List (List String) := (j.getObjValAs? (List (List String)) "client").toOption.getD want
  let clientD := if client == want then none else some s!"field=clientMessage model={want} impl={client}"
  return allSome [
    cmpField "merklePath" (String.ofList m) mp,
    cmpField "childHash" (String.ofList (HL c)) ch,
    cmpField "addToMerkle" (String.ofList (addToMerkle HL m (HL c))) added,
    cmpField "joined" (String.ofList (merklePath HL (p ++ '/' :: c))) joined,
    cmpField "trailing" (String.ofList (merklePath HL (p ++ ['/']))) trailing,
    helperD, clientD]

end Driver.Filetree
