import Driver.Common
import Lean.Elab.Deriving.FromToJson
import Canine.Notif.Model
import Canine.Genesis.Modules
open Lean (Json FromJson ToJson fromJson? toJson)
namespace Canine.Notif
deriving instance FromJson, ToJson for Seg
deriving instance FromJson, ToJson for Notif
deriving instance FromJson, ToJson for Entry
deriving instance FromJson, ToJson for State
deriving instance FromJson, ToJson for Op
end Canine.Notif
namespace Canine.Genesis.Notif
deriving instance FromJson, ToJson for BlockRec
deriving instance FromJson, ToJson for GenesisState
end Canine.Genesis.Notif

namespace Driver.Notif
open Canine Canine.Notif Driver

def keyStr (k : Key) : String := (toJson k).compress

def canonStore (m : AMap Key Entry) : List (String × Entry) :=
  (m.map (fun p => (keyStr p.1, p.2))).mergeSort (fun a b => a.1 ≤ b.1)

def canonNotifs (l : List Notif) : List String :=
  (l.map (fun n => (toJson n).compress)).mergeSort (fun a b => a ≤ b)

def check (j : Json) : Except String (Option String) := do
  let pre : State ← getField j "pre" >>= fromJson?
  let post : State ← getField j "post" >>= fromJson?
  let inboxes : List (String × List Notif) ← getField j "inboxes" >>= fromJson?
  let all : List Notif ← getField j "all" >>= fromJson?
  if !keysNodup pre.store then throw "pre-state has duplicate keys"
  -- the listing functions, evaluated by the model on the implementation's own post-state
  let listing := allSome (
    (inboxes.map (fun (a, l) => cmpField s!"inbox" (canonNotifs (inbox post a)) (canonNotifs l))) ++
    [cmpField "allNotifications" (canonNotifs (allNotifications post)) (canonNotifs all)])
  -- a restart of the network from its own exported genesis changes nothing the module holds
  if let .ok (.str "restart") := getField j "op" then
    let gd : Option String ←
      match j.getObjVal? "genesis" with
      | .ok gj =>
        if gj.isNull then pure none else do
        let g : Genesis.Notif.GenesisState ← fromJson? gj
        let m := Genesis.Notif.exportGenesis pre
        let imported := Genesis.Notif.initGenesis (Genesis.Notif.blank pre) g
        pure (allSome [cmpField "genesis.notifications" m.notifications g.notifications, cmpField "genesis.blocks" m.blocks g.blocks,
          cmpField "genesis.validate" (Genesis.Notif.validate g) ((gj.getObjValAs? Bool "validateOk").toOption.getD true),
          (cmpField "store" (canonStore imported.store) (canonStore post.store)).map (fun d => "genesis.import " ++ d)])
      | .error _ => pure none
    return allSome [cmpField "store" (canonStore pre.store) (canonStore post.store), listing, gd]
  let op : Op ← getField j "op" >>= fromJson?
  let now : Int ← getField j "now" >>= fromJson?
  let ok : Bool ← getField j "ok" >>= fromJson?
  match step pre now op with
  | none =>
    if ok then return some "field=outcome model=failed impl=ok"
    match cmpField "store" (canonStore pre.store) (canonStore post.store) with
    | some d => return some ("failed-message-changed-state " ++ d)
    | none => return listing
  | some s' =>
    if !ok then return some "field=outcome model=ok impl=failed"
    return allSome [cmpField "store" (canonStore s'.store) (canonStore post.store), listing]

end Driver.Notif
