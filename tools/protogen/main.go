// protogen regenerates a *.pb.go of canine-chain without protoc/buf (neither is installed in this
// sandbox): the FileDescriptorProto of the target .proto file and of everything it imports are
// taken from the descriptors the compiled packages register, an edit (new fields) is applied to
// the target's descriptor, and the gocosmos code generator (regen-network/cosmos-proto's
// protoc-gen-gocosmos = gogo/protobuf generator + interfacetype plugin, the generator the
// repository's scripts/protocgen.sh uses) is run in process on the resulting CodeGeneratorRequest.
// With no edit the output reproduces the committed file (modulo the comments protoc copies from
// the .proto source, which a compiled descriptor does not carry) — that is the check that the
// tool does what buf generate does.
//
// usage: protogen <file.proto as registered> [-add Message:name:number:TYPE_NAME[:repeated][:nonnull]]...
package main

import (
	"bytes"
	"compress/gzip"
	"fmt"
	"io"
	"os"
	"strings"

	gogoproto "github.com/gogo/protobuf/gogoproto"
	"github.com/gogo/protobuf/proto"
	descriptor "github.com/gogo/protobuf/protoc-gen-gogo/descriptor"
	plugin "github.com/gogo/protobuf/protoc-gen-gogo/plugin"
	"github.com/gogo/protobuf/vanity"
	"github.com/gogo/protobuf/vanity/command"
	_ "github.com/gogo/protobuf/types"
	_ "github.com/regen-network/cosmos-proto/interfacetype"

	_ "github.com/jackalLabs/canine-chain/v4/x/filetree/types"
	_ "github.com/jackalLabs/canine-chain/v4/x/jklmint/types"
	_ "github.com/jackalLabs/canine-chain/v4/x/notifications/types"
	_ "github.com/jackalLabs/canine-chain/v4/x/oracle/types"
	_ "github.com/jackalLabs/canine-chain/v4/x/rns/types"
	_ "github.com/jackalLabs/canine-chain/v4/x/storage/types"
)

func load(name string) *descriptor.FileDescriptorProto {
	gz := proto.FileDescriptor(name)
	if gz == nil {
		// gogo/protobuf registers gogo.proto and descriptor.proto under their base names
		gz = proto.FileDescriptor(name[strings.LastIndex(name, "/")+1:])
	}
	if gz == nil {
		panic("descriptor not registered: " + name)
	}
	r, err := gzip.NewReader(bytes.NewReader(gz))
	if err != nil {
		panic(err)
	}
	b, _ := io.ReadAll(r)
	fd := &descriptor.FileDescriptorProto{}
	if err := proto.Unmarshal(b, fd); err != nil {
		panic(err)
	}
	fd.Name = proto.String(name)
	for i, d := range fd.Dependency {
		if d == "descriptor.proto" {
			fd.Dependency[i] = "google/protobuf/descriptor.proto"
		}
	}
	return fd
}

func main() {
	target := os.Args[1]
	seen := map[string]bool{}
	var order []*descriptor.FileDescriptorProto
	var visit func(string)
	visit = func(n string) {
		if seen[n] {
			return
		}
		seen[n] = true
		fd := load(n)
		for _, d := range fd.Dependency {
			visit(d)
		}
		order = append(order, fd)
	}
	visit(target)
	tfd := order[len(order)-1]
	// -newmsg Name:field:number:type,field:number:type  appends a message of scalar fields to the target file
	for i := 2; i < len(os.Args); i++ {
		if os.Args[i] != "-newmsg" {
			continue
		}
		i++
		p := strings.SplitN(os.Args[i], ":", 2)
		m := &descriptor.DescriptorProto{Name: proto.String(p[0])}
		for _, fs := range strings.Split(p[1], ",") {
			q := strings.Split(fs, ":")
			var num int32
			fmt.Sscan(q[1], &num)
			lbl := descriptor.FieldDescriptorProto_LABEL_OPTIONAL
			t := descriptor.FieldDescriptorProto_TYPE_STRING
			if q[2] == "int64" {
				t = descriptor.FieldDescriptorProto_TYPE_INT64
			}
			m.Field = append(m.Field, &descriptor.FieldDescriptorProto{Name: proto.String(q[0]), Number: proto.Int32(num), JsonName: proto.String(jsonName(q[0])), Label: &lbl, Type: &t})
		}
		tfd.MessageType = append(tfd.MessageType, m)
	}
	for i := 2; i < len(os.Args); i++ {
		if os.Args[i] != "-add" {
			continue
		}
		i++
		p := strings.Split(os.Args[i], ":")
		msgName, fname, typ := p[0], p[1], p[3]
		var num int32
		fmt.Sscan(p[2], &num)
		var msg *descriptor.DescriptorProto
		for _, m := range tfd.MessageType {
			if m.GetName() == msgName {
				msg = m
			}
		}
		if msg == nil {
			panic("no message " + msgName)
		}
		f := &descriptor.FieldDescriptorProto{Name: proto.String(fname), Number: proto.Int32(num), JsonName: proto.String(jsonName(fname))}
		lbl := descriptor.FieldDescriptorProto_LABEL_OPTIONAL
		nonnull := false
		for _, o := range p[4:] {
			if o == "repeated" {
				lbl = descriptor.FieldDescriptorProto_LABEL_REPEATED
			}
			if o == "nonnull" {
				nonnull = true
			}
		}
		f.Label = &lbl
		switch typ {
		case "string":
			t := descriptor.FieldDescriptorProto_TYPE_STRING
			f.Type = &t
		case "int64":
			t := descriptor.FieldDescriptorProto_TYPE_INT64
			f.Type = &t
		default:
			t := descriptor.FieldDescriptorProto_TYPE_MESSAGE
			f.Type = &t
			f.TypeName = proto.String(typ)
		}
		if nonnull {
			f.Options = &descriptor.FieldOptions{}
			if err := proto.SetExtension(f.Options, gogoproto.E_Nullable, proto.Bool(false)); err != nil {
				panic(err)
			}
		}
		msg.Field = append(msg.Field, f)
	}
	for i := 2; i < len(os.Args); i++ {
		if os.Args[i] == "-import" {
			i++
			visit(os.Args[i])
			// keep the target last
			var rest []*descriptor.FileDescriptorProto
			for _, fd := range order {
				if fd != tfd {
					rest = append(rest, fd)
				}
			}
			order = append(rest, tfd)
			tfd.Dependency = append(tfd.Dependency, os.Args[i])
		}
	}
	param := "plugins=grpc,Mgoogle/protobuf/duration.proto=github.com/gogo/protobuf/types,Mgoogle/protobuf/struct.proto=github.com/gogo/protobuf/types,Mgoogle/protobuf/timestamp.proto=github.com/gogo/protobuf/types,Mgoogle/protobuf/wrappers.proto=github.com/gogo/protobuf/types,Mgoogle/protobuf/any.proto=github.com/cosmos/cosmos-sdk/codec/types,Mcosmos/orm/v1beta1/orm.proto=github.com/cosmos/cosmos-sdk/api/cosmos/orm/v1beta1"
	req := &plugin.CodeGeneratorRequest{FileToGenerate: []string{target}, Parameter: &param, ProtoFile: order}
	files := req.GetProtoFile()
	files = vanity.FilterFiles(files, vanity.NotGoogleProtobufDescriptorProto)
	vanity.ForEachFile(files, vanity.TurnOnMarshalerAll)
	vanity.ForEachFile(files, vanity.TurnOnSizerAll)
	vanity.ForEachFile(files, vanity.TurnOnUnmarshalerAll)
	vanity.ForEachFieldInFilesExcludingExtensions(vanity.OnlyProto2(files), vanity.TurnOffNullableForNativeTypesWithoutDefaultsOnly)
	vanity.ForEachFile(files, vanity.TurnOffGoUnrecognizedAll)
	vanity.ForEachFile(files, vanity.TurnOffGoUnkeyedAll)
	vanity.ForEachFile(files, vanity.TurnOffGoSizecacheAll)
	resp := command.Generate(req)
	if resp.Error != nil {
		fmt.Fprintln(os.Stderr, "generator error:", *resp.Error)
		os.Exit(1)
	}
	for _, f := range resp.File {
		fmt.Fprintln(os.Stderr, "generated", f.GetName())
		os.Stdout.WriteString(f.GetContent())
	}
}

func jsonName(s string) string {
	out := ""
	up := false
	for _, c := range s {
		if c == '_' {
			up = true
			continue
		}
		if up {
			out += strings.ToUpper(string(c))
			up = false
		} else {
			out += string(c)
		}
	}
	return out
}
