"""Model-free oracle of C18 over notif step records: a ghost inbox per address is maintained from
the messages the real app accepted, and compared with what the app lists after every step."""


def opk(rec):
    (k, v), = (rec["op"].items() if isinstance(rec["op"], dict) else [(rec["op"], {})])
    return k, v


class C18:
    def __init__(self):
        self.hist = None
        self.ghost = {}
        self.blocked = {}   # recipient -> senders it named in BlockSenders messages the chain accepted

    def __call__(self, rec):
        if rec.get("mod") != "notif":
            return []
        if rec["hist"] != self.hist:
            self.hist = rec["hist"]
            self.ghost = {}
            self.blocked = {}
            # what the chain started with (genesis records) was sent before the history began
            for key, e in rec["pre"]["store"]:
                if "notif" in e:
                    n = e["notif"]["n"]
                    self.ghost.setdefault(n["to"], set()).add((n["to"], n["sender"], n["time"], n["contents"], n["priv"]))
                elif "block" in e:
                    self.blocked.setdefault(e["block"]["owner"], set()).add(e["block"]["blocked"])
        out = []
        k, v = opk(rec)
        if not rec["ok"] and rec["pre"] != rec["post"]:
            out.append({"sig": {"prop": "C18", "kind": "failed-message-changed-state", "op": k}, "what": f"failed {k} changed the store"})
        if rec["ok"] and k == "create":
            to = v["resolved"]
            # blocked at send time?
            for key, e in rec["pre"]["store"]:
                if "block" in e and e["block"]["owner"] == to and e["block"]["blocked"] == v["creator"]:
                    out.append({"sig": {"prop": "C18", "kind": "blocked-sender-delivered"}, "what": f"{v['creator']} is blocked by {to} but its notification was accepted"})
            if v["creator"] in self.blocked.get(to, set()):
                out.append({"sig": {"prop": "C18", "kind": "blocked-sender-delivered", "by": "accepted-block-messages"},
                            "what": f"{to} named {v['creator']} in a BlockSenders message the chain accepted, yet {v['creator']}'s notification was delivered"})
            n = (to, v["creator"], rec["now"], v["contents"], v["priv"])
            self.ghost.setdefault(to, set())
            same = [g for g in self.ghost[to] if g[1] == n[1] and g[2] == n[2]]
            if same:
                out.append({"sig": {"prop": "C18", "kind": "second-send-accepted-same-key"},
                            "what": f"two sends {v['creator']} -> {to} at time {rec['now']} both reported delivered; the inbox can hold one"})
            self.ghost[to].add(n)
        if rec["ok"] and k == "block":
            for t in v.get("targets", []):
                res = t[1] if isinstance(t, list) and len(t) > 1 else None
                if isinstance(res, str) and res:
                    self.blocked.setdefault(v["creator"], set()).add(res)
        if rec["ok"] and k == "delete":
            c = v["creator"]
            frm = "/".join(v["senderSegs"])
            self.ghost[c] = {g for g in self.ghost.get(c, set()) if not (g[1] == frm and g[2] == v["time"])}
        for a, lst in rec["inboxes"]:
            got = {(n["to"], n["sender"], n["time"], n["contents"], n["priv"]) for n in lst}
            want = self.ghost.get(a, set())
            if got != want or len(lst) != len(got):
                extra = sorted(got - want)[:2]
                missing = sorted(want - got)[:2]
                kind = "phantom-entry" if extra else ("lost-entry" if missing else "duplicate-entry")
                out.append({"sig": {"prop": "C18", "kind": kind, "op": k},
                            "what": f"after {k}: inbox of {a} lists {len(lst)} entries, {len(want)} were sent and not deleted; extra={extra} missing={missing}"})
        return out
