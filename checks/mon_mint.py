"""Model-free oracle of C13 over per-block mint records (integer arithmetic only)."""


def c13(rec):
    if rec.get("mod") != "mint":
        return []
    out = []
    pre, post, p = rec["pre"], rec["post"], rec["params"]
    m = post["supply"] - pre["supply"]
    prev = pre["last"] if pre["last"] is not None else p["tokensPerBlock"]
    h = rec["h"]

    def v(kind, what):
        out.append({"sig": {"prop": "C13", "kind": kind}, "what": f"block {h}: {what} (params {p})"})
    if m < 0:
        v("negative-emission", f"supply fell by {-m}")
    if m > prev:
        v("emission-increased", f"emission {m} exceeds the previous block's {prev}")
    if post["last"] != m:
        v("recorded-emission-differs", f"MintedBlock records {post['last']}, supply grew by {m}")
    ssum = p["stakerRatio"] + p["devGrantsRatio"] + p["providerRatio"]
    if m >= 0 and ssum <= 100:
        exp = {"stakers": p["stakerRatio"] * m // 100, "dev": p["devGrantsRatio"] * m // 100, "stipend": p["providerRatio"] * m // 100}
        for k, e in exp.items():
            if post[k] - pre[k] != e:
                v("share-wrong", f"{k} received {post[k] - pre[k]}, its percentage rounded down is {e} of {m}")
        kept = post["modBal"] - pre["modBal"]
        if kept != m - sum(exp.values()):
            v("module-retained-wrong", f"mint module kept {kept}, emission minus the three shares is {m - sum(exp.values())}")
        unalloc = (100 - ssum) * m // 100
        if not (0 <= kept - unalloc <= 3) or (ssum == 100 and not (0 <= kept < 3)):
            v("retained-not-remainder", f"mint module kept {kept} of {m} with ratios summing to {ssum}")
    return out
