#!/usr/bin/env python3
"""Regenerates MANIFEST.json from checks/registry.py + checks/manifest_text.py."""
import json, os, sys
sys.path.insert(0, os.path.dirname(os.path.abspath(__file__)))
from registry import PROPS
from manifest_text import TEXT, NOT_YET

ALL = [f"C{i:02d}" for i in range(1, 21)]
hook_commits = os.popen("git -C /repo log --reverse --format=%H -- app/verif_hooks.go").read().split()
m = {
    "version": 1,
    "setup_cmd": "bin/setup",
    "hooks": {
        "guard": "verif",
        "enable": "go build -tags verif (the harness module in /verif/harness replaces canine-chain by /repo and is always built with -tags verif)",
        "baseline_off_cmd": "bin/baseline",
        "source_commits": hook_commits,
        "add_only": True,
    },
    "engines": [
        {"name": "lean-model", "path": "lean", "serves_properties": sorted(PROPS), "kind_free_text": "Lean 4 executable models + property theorems (Canine/Props) + compiled driver that re-runs the model on implementation step records"},
        {"name": "go-harness", "path": "harness", "serves_properties": sorted(PROPS), "kind_free_text": "drives the assembled JackalApp (real keepers, baseapp commit rule) through generated histories and emits abstract pre/op/post step records"},
        {"name": "monitors", "path": "checks", "serves_properties": sorted(PROPS), "kind_free_text": "model-free oracles of each property statement over implementation traces: the search for a concrete failing input when an obligation or the correspondence breaks"},
    ],
    "checks": [],
    "not_applicable": [],
    "notes": "Technique family: machine-checked proof in Lean 4. Every claimed property = theorems about an executable model (lake build + #print axioms audit on every run) + a per-step correspondence check of that model against the real app, rebuilt from /repo's working tree on every run. See DESIGN.md.",
}
for pid in ALL:
    if pid in PROPS:
        t = TEXT[pid]
        m["checks"].append({
            "property_id": pid,
            "quick_cmd": f"bin/check {pid} --tier quick",
            "thorough_cmd": f"bin/check {pid} --tier thorough",
            "evidence_file": f"evidence/{pid}.json",
            "replay_cmd_template": f"bin/check {pid} --replay {{path}}",
            "engine": "lean-model",
            "level_claimed": {"category": "proof", "text": t["level"], "design_ref": t.get("ref", f"DESIGN.md section 4, {pid}")},
            "level_note": t["note"],
            "technique": t["technique"],
        })
    else:
        m["not_applicable"].append({"property_id": pid, "reason": NOT_YET.get(pid, "not claimed yet: model, theorems and correspondence for this property are not built in this revision (planned, see DESIGN.md section 4)")})
json.dump(m, open(os.path.join(os.path.dirname(os.path.abspath(__file__)), "..", "MANIFEST.json"), "w"), indent=1)
print("checks:", [c["property_id"] for c in m["checks"]])
