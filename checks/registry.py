"""Per-property configuration of bin/check: which harness profile produces the histories, which
differences between model and implementation concern the property, the model-free monitor."""
import mon_rns
import mon_notif
import mon_mint
import mon_filetree
import mon_genesis

BASE_TRUST = [
    "Lean 4.33 kernel; axioms limited to propext, Classical.choice, Quot.sound (audited per theorem with #print axioms)",
    "correspondence check: Go harness (verif/harness) + abs() + JSON line protocol + Lean driver decoding; generator reach is measured (op_histogram), not proven",
    "modelled, not verified: cosmos-sdk bank/auth keepers as a ledger, IAVL/cachekv store as a map, protobuf codecs, sdk coin parsers (oracle input), strings.ToLower (applied by the harness)",
]


def rns_runs(tier, seed):
    if tier == "quick":
        return [{"profile": "rns", "args": ["rns", "-seed", str(seed * 10 + k), "-hist", "6", "-steps", "300"]} for k in range(2)]
    return [{"profile": "rns", "args": ["rns", "-seed", str(seed * 100 + k), "-hist", "12", "-steps", "600"]} for k in range(16)]


def replay_runs(rep):
    run = rep.get("run")
    return [run] if run else []


RNS_ASSUME = [
    "addresses are sent in canonical lower-case bech32 (an upper-case spelling of the same account is not modelled)",
    "name strings are ASCII (Go slices bytes, the model counts characters)",
    "module accounts never sign; the rns module account is a blocked recipient and differs from the POL account",
]

def notif_runs(tier, seed):
    if tier == "quick":
        return [{"profile": "notif", "args": ["notif", "-seed", str(seed * 10 + k), "-hist", "6", "-steps", "300"]} for k in range(2)]
    return [{"profile": "notif", "args": ["notif", "-seed", str(seed * 100 + k), "-hist", "12", "-steps", "600"]} for k in range(16)]


def mint_runs(tier, seed):
    if tier == "quick":
        return [{"profile": "mint", "args": ["mint", "-seed", str(seed * 10 + k), "-hist", "5", "-steps", "220"]} for k in range(2)]
    return [{"profile": "mint", "args": ["mint", "-seed", str(seed * 100 + k), "-hist", "5", "-steps", "2000"]} for k in range(16)]


def ft_runs(tier, seed):
    if tier == "quick":
        return [{"profile": "filetree", "args": ["filetree", "-seed", str(seed * 10 + k), "-hist", "5", "-steps", "300"]} for k in range(2)]
    return [{"profile": "filetree", "args": ["filetree", "-seed", str(seed * 100 + k), "-hist", "10", "-steps", "700"]} for k in range(16)]


FT_TRUST = BASE_TRUST + ["SHA-256 is re-implemented in Lean for execution only (Canine/Crypto/Sha256.lean); every theorem takes the hash as an arbitrary function",
                         "encoding/json: access lists are compared as decoded map[string]string (decoded by the harness with the chain's own json.Unmarshal)"]

def genesis_runs(tier, seed):
    profs = ["storage", "forms", "rns", "notif", "filetree"]
    if tier == "quick":
        return [{"profile": p, "args": [p, "-seed", str(seed * 10 + k), "-hist", "2", "-steps", "250", "-genesis"]} for k, p in enumerate(profs)]
    return [{"profile": p, "args": [p, "-seed", str(seed * 100 + k * 7 + j), "-hist", "4", "-steps", "400", "-genesis"]} for k, p in enumerate(profs) for j in range(3)]


PROPS = {
    "C19": {
        "runs": genesis_runs, "replay_runs": replay_runs, "monitor": mon_genesis.c19,
        "diff_relevant": lambda d: d["mod"] == "genesis",
        "trusted_base": BASE_TRUST + ["the table of record kinds each genesis carries (Canine/Genesis/Model.lean) is hand-written from x/*/genesis.go and compared with a real export/validate/import round trip of every module on every run"],
        "assumptions": ["record kinds are identified by their store-key prefix", "oracle feeds are only populated when a history happens to create them (module covered by the same round trip)"],
    },
    "C10": {
        "runs": ft_runs, "replay_runs": replay_runs, "monitor": mon_filetree.c10,
        "diff_relevant": lambda d: d["mod"] == "filetree",
        "trusted_base": FT_TRUST,
        "assumptions": ["ownership is the chain's own predicate H('o'+address+H(signer)) = entry.owner (hash collisions out of scope)", "signers are well-formed bech32 addresses"],
    },
    "C20": {
        "runs": ft_runs, "replay_runs": replay_runs, "monitor": mon_filetree.c20,
        "diff_relevant": lambda d: d["mod"] == "path" or (d["mod"] == "filetree" and "response" in d["fields"]),
        "trusted_base": FT_TRUST,
        "assumptions": ["domain: '/'-free segments, last segment non-empty (or the single empty segment); parent strings not ending in '/'", "distinctness is stated in collision-extraction form (no injectivity of SHA-256 is assumed)"],
    },
    "C13": {
        "runs": mint_runs, "replay_runs": replay_runs, "monitor": mon_mint.c13, "panic_relevant": True,
        "diff_relevant": lambda d: d["mod"] == "mint",
        "trusted_base": BASE_TRUST + ["sdk.Dec arithmetic re-modelled exactly (Canine/Basic/Dec.lean: chopPrecisionAndRound, truncated big.Int.Quo) and exercised by the correspondence",
                                      "distribution's BeginBlocker only moves fee_collector funds into the distribution module account (observed together as 'stakers')"],
        "assumptions": ["parameters pass their validators (non-negative) and the three ratios sum to at most 100", "the stipend address is a valid, unblocked account and the mint denom is valid"],
    },
    "C18": {
        "runs": notif_runs, "replay_runs": replay_runs, "monitor": mon_notif.C18, "stateful": True,
        "diff_relevant": lambda d: d["mod"] == "notif",
        "trusted_base": BASE_TRUST + ["rns.Resolve and json.Valid are oracle inputs of the model (their results are recorded by the harness)",
                                      "raw store keys are split on '/' by the harness; addresses are bech32 and contain no '/'"],
        "assumptions": ["recipient addresses are '/'-free (bech32)", "block time is strictly increasing between blocks"],
    },
    "C08": {
        "runs": rns_runs, "replay_runs": replay_runs, "monitor": mon_rns.c08,
        "diff_relevant": lambda d: d["mod"] == "rns" and d["op"] not in ("bid", "cancelBid", "makePrimary") and
            (bool(set(d["fields"]) & {"names", "forsale", "outcome"}) or (d["op"] in ("buy", "acceptBid") and "bank" in d["fields"])),
        "trusted_base": BASE_TRUST, "assumptions": RNS_ASSUME,
    },
    "C09": {
        "runs": rns_runs, "replay_runs": replay_runs, "monitor": mon_rns.c09,
        "diff_relevant": lambda d: d["mod"] == "rns" and
            (bool(set(d["fields"]) & {"bids", "bank"}) or ("outcome" in d["fields"] and d["op"] in ("bid", "cancelBid", "acceptBid", "buy", "register"))),
        "trusted_base": BASE_TRUST, "assumptions": RNS_ASSUME,
    },
    "C16": {
        "runs": rns_runs, "replay_runs": replay_runs, "monitor": mon_rns.c16,
        "diff_relevant": lambda d: d["mod"] == "rns" and d["op"] in ("register", "init"),
        "trusted_base": BASE_TRUST, "assumptions": RNS_ASSUME,
    },
}
