"""Per-property configuration of bin/check: which harness profile produces the histories, which
differences between model and implementation concern the property, the model-free monitor."""
import mon_rns
import mon_notif
import mon_mint
import mon_filetree
import mon_genesis
import mon_storage
import mon_msgs
import facts
import os

BASE_TRUST = [
    "Lean 4.33 kernel; axioms limited to propext, Classical.choice, Quot.sound (audited per theorem with #print axioms)",
    "correspondence check: Go harness (verif/harness) + abs() + JSON line protocol + Lean driver decoding; generator reach is measured (op_histogram), not proven",
    "where a property has `*_generated_*` theorems: the Go->Lean translator verif/gen (go/ast; int64 as Z, sdk.Dec methods as Canine/Basic/Dec.lean, Quo partial) that regenerates Canine/Generated/PureFns.lean from /repo on every run",
    "modelled, not verified: cosmos-sdk bank/auth keepers as a ledger, IAVL/cachekv store as a map, protobuf codecs, sdk coin parsers (oracle input), strings.ToLower (applied by the harness)",
]


def rns_runs(tier, seed):
    if tier == "quick":
        return [{"profile": "rns", "args": ["rns", "-seed", str(seed * 10 + k), "-hist", "6", "-steps", "300"]} for k in range(2)]
    return [{"profile": "rns", "args": ["rns", "-seed", str(seed * 100 + k), "-hist", "12", "-steps", "600"]} for k in range(16)]


def replay_runs(rep):
    run = rep.get("run")
    return [run] if run else []


RNS_ASSUME = [
    "addresses are sent in canonical lower-case bech32 (an upper-case spelling of the same account is not modelled)",
    "name strings are ASCII (Go slices bytes, the model counts characters)",
    "module accounts never sign; the rns module account is a blocked recipient and differs from the POL account",
]

def notif_runs(tier, seed):
    # the rns profile rides along: who a name-addressed notification (or block) reaches is decided by rns.Resolve,
    # which the notifications model takes from the chain; Resolve itself is modelled and compared in the rns profile
    if tier == "quick":
        return [{"profile": "notif", "args": ["notif", "-seed", str(seed * 10 + k), "-hist", "6", "-steps", "300"]} for k in range(2)] + \
               [{"profile": "rns", "args": ["rns", "-seed", str(seed * 10 + 7), "-hist", "4", "-steps", "300"]}]
    return [{"profile": "notif", "args": ["notif", "-seed", str(seed * 100 + k), "-hist", "12", "-steps", "600"]} for k in range(16)] + \
           [{"profile": "rns", "args": ["rns", "-seed", str(seed * 100 + 90 + k), "-hist", "8", "-steps", "500"]} for k in range(3)]


def mint_runs(tier, seed):
    if tier == "quick":
        return [{"profile": "mint", "args": ["mint", "-seed", str(seed * 10 + k), "-hist", "5", "-steps", "220"]} for k in range(2)]
    return [{"profile": "mint", "args": ["mint", "-seed", str(seed * 100 + k), "-hist", "5", "-steps", "2000"]} for k in range(16)]


def ft_runs(tier, seed):
    if tier == "quick":
        return [{"profile": "filetree", "args": ["filetree", "-seed", str(seed * 10 + k), "-hist", "5", "-steps", "300"]} for k in range(2)]
    return [{"profile": "filetree", "args": ["filetree", "-seed", str(seed * 100 + k), "-hist", "10", "-steps", "700"]} for k in range(16)]


FT_TRUST = BASE_TRUST + ["SHA-256 is re-implemented in Lean for execution only (Canine/Crypto/Sha256.lean); every theorem takes the hash as an arbitrary function",
                         "encoding/json: access lists are compared as decoded map[string]string (decoded by the harness with the chain's own json.Unmarshal)"]

def genesis_runs(tier, seed):
    profs = ["storage", "plans", "forms", "rns", "notif", "filetree", "msgs"]  # msgs: the oracle feeds, restarted once per history
    if tier == "quick":
        return [{"profile": p, "args": [p, "-seed", str(seed * 10 + k), "-hist", "3", "-steps", "300", "-genesis"]} for k, p in enumerate(profs)]
    return [{"profile": p, "args": [p, "-seed", str(seed * 100 + k * 7 + j), "-hist", "4", "-steps", "400", "-genesis"]} for k, p in enumerate(profs) for j in range(3)]


def msgs_runs(tier, seed):
    if tier == "quick":
        return [{"profile": "msgs", "args": ["msgs", "-seed", str(seed * 10 + 1), "-hist", "3", "-steps", "150", "-signed"]},
                {"profile": "collateral", "args": ["collateral", "-seed", str(seed * 10 + 2), "-hist", "2", "-steps", "250"]},
                {"profile": "plans", "args": ["plans", "-seed", str(seed * 10 + 5), "-hist", "3", "-steps", "300"]},
                {"profile": "rns", "args": ["rns", "-seed", str(seed * 10 + 3), "-hist", "4", "-steps", "300"]},
                {"profile": "notif", "args": ["notif", "-seed", str(seed * 10 + 4), "-hist", "3", "-steps", "300"]}]
    return [{"profile": "rns", "args": ["rns", "-seed", str(seed * 100 + 70 + k), "-hist", "8", "-steps", "500"]} for k in range(3)] + \
           [{"profile": "notif", "args": ["notif", "-seed", str(seed * 100 + 80 + k), "-hist", "6", "-steps", "500"]} for k in range(2)] + \
           [{"profile": "msgs", "args": ["msgs", "-seed", str(seed * 100 + k), "-hist", "6", "-steps", "400", "-signed"]} for k in range(8)] + \
           [{"profile": "collateral", "args": ["collateral", "-seed", str(seed * 100 + 50 + k), "-hist", "4", "-steps", "500"]} for k in range(4)] + \
           [{"profile": "plans", "args": ["plans", "-seed", str(seed * 100 + 60 + k), "-hist", "4", "-steps", "500"]} for k in range(3)]


def det_runs(tier, seed):
    if tier == "quick":
        return [{"profile": "det", "args": ["det", "-seed", str(seed * 10 + k), "-hist", "1", "-steps", "700"]} for k in range(2)]
    return [{"profile": "det", "args": ["det", "-seed", str(seed * 100 + k), "-hist", "2", "-steps", "1500"]} for k in range(16)]


PROPS = {
    "C06": {
        "runs": det_runs, "replay_runs": replay_runs, "monitor": (lambda rec: []), "model": False, "facts": facts.gen_nondet_facts,
        "replicas": [{"GOMAXPROCS": "1", "TZ": "America/New_York"}, {"GOMAXPROCS": "16", "GOGC": "20", "TZ": "Australia/Lord_Howe", "VERIF_NODE_RESTART": "1"}],
        "diff_relevant": lambda d: False,
        "trusted_base": BASE_TRUST + ["the nondeterminism-site scanner (verif/scan, go/types based: range over map-typed expressions, time.Now/Since, rand packages, go, select) over x/*, wasmbinding, types",
                                      "the two/three-process replay uses real signed transactions through DeliverTx and compares code, gas, ordered events and AppHash"],
        "assumptions": ["partial by nature: the theorems cover the modelled drain site and the reviewed allow-list; scheduler- or SDK-internal nondeterminism can only be exhibited by the multi-process replay, not excluded"],
    },
    "C11": {
        "runs": msgs_runs, "replay_runs": replay_runs, "monitor": mon_msgs.c11, "facts": facts.gen_msg_facts,
        "diff_relevant": lambda d: d["mod"] in ("msgtable", "oracle", "wasm") or (d["mod"] == "query" and d["op"].startswith("oracle.")) or
            (d["mod"] == "rns" and (d["op"] == "makePrimary" or "primary" in d["fields"])) or
            (d["mod"] == "notif" and d["op"] in ("block", "delete")) or
            (d["mod"] == "storage" and (d["op"] in ("initProvider", "shutdownProvider", "setProviderIP", "setProviderKeybase", "setProviderTotalSpace", "addClaimer", "removeClaimer", "deleteFile") or "providers" in d["fields"])),
        "trusted_base": BASE_TRUST + ["the message table is read from the running app's interface registry by reflection (every string field set to a distinct address) and rewritten to Canine/Generated/MsgFacts.lean on every run",
                                      "signature verification itself is the SDK ante handler's: exercised with real signed transactions (creator key accepted, other key rejected), not modelled"],
        "assumptions": ["frame theorems for inbox / block list / primary name / rns / filetree messages are proved in the respective module models (C08, C10, C18) and tied by their own correspondence runs"],
    },
    "C19": {
        "runs": genesis_runs, "replay_runs": replay_runs, "monitor": mon_genesis.c19,
        # the round trip at the end of a history (mod "genesis") and every restart step inside one: the state may not
        # change, and the concrete genesis model (Canine/Genesis/Modules.lean) must export what the chain exported
        "diff_relevant": lambda d: d["mod"] == "genesis" or d["op"] == "restart",
        "trusted_base": BASE_TRUST + ["the table of record kinds each genesis carries (Canine/Genesis/Model.lean) is hand-written from x/*/genesis.go and compared with a real export/validate/import round trip of every module on every run"],
        "assumptions": ["record kinds are identified by their store-key prefix", "oracle feeds are only populated when a history happens to create them (module covered by the same round trip)"],
    },
    "C10": {
        "facts": facts.gen_pure_fns, "runs": ft_runs, "replay_runs": replay_runs, "monitor": mon_filetree.c10,
        "diff_relevant": lambda d: d["mod"] == "filetree" or (d["mod"] == "query" and d["op"].startswith("filetree.")),
        "trusted_base": FT_TRUST,
        "assumptions": ["ownership is the chain's own predicate H('o'+address+H(signer)) = entry.owner (hash collisions out of scope)", "signers are well-formed bech32 addresses"],
    },
    "C20": {
        "facts": facts.gen_pure_fns, "runs": ft_runs, "replay_runs": replay_runs, "monitor": mon_filetree.c20,
        "diff_relevant": lambda d: d["mod"] == "path" or (d["mod"] == "filetree" and "response" in d["fields"]),
        "trusted_base": FT_TRUST,
        "assumptions": ["domain: '/'-free segments, last segment non-empty (or the single empty segment); parent strings not ending in '/'", "distinctness is stated in collision-extraction form (no injectivity of SHA-256 is assumed)"],
    },
    "C13": {
        "runs": mint_runs, "replay_runs": replay_runs, "monitor": mon_mint.c13, "panic_relevant": True, "facts": facts.gen_pure_fns,
        "diff_relevant": lambda d: d["mod"] == "mint",
        "trusted_base": BASE_TRUST + ["sdk.Dec arithmetic re-modelled exactly (Canine/Basic/Dec.lean: chopPrecisionAndRound, truncated big.Int.Quo) and exercised by the correspondence",
                                      "distribution's BeginBlocker only moves fee_collector funds into the distribution module account (observed together as 'stakers')"],
        "assumptions": ["parameters pass their validators (non-negative) and the three ratios sum to at most 100", "the stipend address is a valid, unblocked account and the mint denom is valid"],
    },
    "C18": {
        "facts": facts.gen_pure_fns, "runs": notif_runs, "replay_runs": replay_runs, "monitor": mon_notif.C18, "stateful": True,
        "diff_relevant": lambda d: d["mod"] == "notif" or (d["mod"] == "query" and (d["op"].startswith("notif.") or d["op"] == "rns.resolve")),
        "trusted_base": BASE_TRUST + ["rns.Resolve and json.Valid are oracle inputs of the model (their results are recorded by the harness)",
                                      "raw store keys are split on '/' by the harness; addresses are bech32 and contain no '/'"],
        "assumptions": ["recipient addresses are '/'-free (bech32)", "block time is strictly increasing between blocks"],
    },
    "C08": {
        "runs": rns_runs, "replay_runs": replay_runs, "monitor": mon_rns.c08,
        "diff_relevant": lambda d: (d["mod"] == "query" and d["op"] in ("rns.name", "rns.forSale", "rns.allForSale", "rns.listOwnedNames", "rns.allNames")) or
            d["mod"] == "rns" and d["op"] not in ("bid", "cancelBid", "makePrimary") and
            (bool(set(d["fields"]) & {"names", "forsale", "outcome"}) or (d["op"] in ("buy", "acceptBid") and "bank" in d["fields"])),
        "trusted_base": BASE_TRUST, "assumptions": RNS_ASSUME,
    },
    "C09": {
        "facts": facts.gen_pure_fns, "runs": rns_runs, "replay_runs": replay_runs, "monitor": mon_rns.c09,
        "diff_relevant": lambda d: (d["mod"] == "query" and d["op"] in ("rns.bid", "rns.allBids")) or d["mod"] == "rns" and
            (bool(set(d["fields"]) & {"bids", "bank"}) or ("outcome" in d["fields"] and d["op"] in ("bid", "cancelBid", "acceptBid", "buy", "register"))),
        "trusted_base": BASE_TRUST, "assumptions": RNS_ASSUME,
    },
    "C16": {
        "runs": rns_runs, "replay_runs": replay_runs, "monitor": mon_rns.c16, "facts": facts.gen_pure_fns,
        "diff_relevant": lambda d: (d["mod"] == "query" and d["op"] in ("rns.name", "rns.listOwnedNames", "rns.primaryName", "rns.resolve")) or
            (d["mod"] == "rns" and d["op"] in ("register", "init")) or
            (d["mod"] == "rns" and d["op"] == "restart" and "names" in d["fields"]),  # "unexpired for at least Y years": a name may not vanish in a restart
        "trusted_base": BASE_TRUST, "assumptions": RNS_ASSUME,
    },
}


# ---------------------------------------------------------------- storage properties

def storage_runs(main, extra=()):
    def runs(tier, seed):
        if tier == "quick":
            return [{"profile": main, "args": [main, "-seed", str(seed * 10 + 1), "-hist", "4", "-steps", "300"]},
                    {"profile": main, "args": [main, "-seed", str(seed * 10 + 3), "-hist", "4", "-steps", "300"]},
                    {"profile": "storage", "args": ["storage", "-seed", str(seed * 10 + 2), "-hist", "3", "-steps", "300"]}] + \
                   [{"profile": e, "args": [e, "-seed", str(seed * 10 + 4 + k), "-hist", "4", "-steps", "300"]} for k, e in enumerate(extra)]
        out = []
        for k, e in enumerate(extra):
            for j in range(4):
                out.append({"profile": e, "args": [e, "-seed", str(seed * 100 + 70 + 4 * k + j), "-hist", "6", "-steps", "600"]})
        for k in range(10):
            out.append({"profile": main, "args": [main, "-seed", str(seed * 100 + k), "-hist", "6", "-steps", "600"]})
        for k in range(6):
            out.append({"profile": "storage", "args": ["storage", "-seed", str(seed * 100 + 50 + k), "-hist", "6", "-steps", "600"]})
        return out
    return runs


ST_TRUST = BASE_TRUST + [
    "oracle inputs of the storage model, recorded by the harness from the running chain: rns.Resolve results, the JKL price, json.Valid(note), the drawn next challenge, the shuffled provider list of a form, the id/escrow account of a new gauge",
    "sdk.Dec arithmetic re-modelled exactly (Canine/Basic/Dec.lean); SHA-256 / SHA3-512 re-implemented in Lean for execution only (theorems take the hashes as parameters)",
    "wealdtech/go-merkletree re-modelled (Canine/Storage/Merkle.lean) and compared with the chain's VerifyProof on every submitted proof",
]
ST_ASSUME = ["module accounts never sign; signers are canonical bech32 addresses",
             "parameters satisfy their validators (windows > 1, chunk size >= 1, ratios >= 0)",
             "block time is non-decreasing; third-party bank transfers into gauge or escrow accounts are outside the quantifier"]


def st(fields=None, ops=None, opfields=None, queries=None, wasm=False):
    """relevance filter over driver DIFF lines of the storage model; `queries`: the query-server
    answers (mod "query", op "storage.<query>") the property's statement speaks about"""
    fields = set(fields or [])
    ops = set(ops or [])
    opfields = opfields or {}
    queries = set((q if "." in q else "storage." + q) for q in (queries or []))

    def rel(d):
        if d["mod"] == "query":
            return d["op"] in queries
        if d["mod"] == "wasm":
            # the contract route into the storage message server (wasmbinding.PerformPostFile): it must behave like the
            # same MsgPostFile delivered directly, signed by the contract
            return wasm
        if d["mod"] == "panic":
            # a panicking Begin/EndBlock ends the history: for a property that constrains block
            # transitions the correspondence (the model predicts no panic) no longer checks
            return "block" in ops or "block" in opfields
        if d["mod"] != "storage":
            return False
        fs = set(d["fields"])
        if fs & fields:
            return True
        if d["op"] in ops:
            return True
        if d["op"] in opfields and (fs & set(opfields[d["op"]])):
            return True
        return False
    return rel


STORAGE_PROPS = {
    "C01": dict(main="proofs", extra=("forms",), monitor=mon_storage.C01, stateful=True,
                rel=st(fields=["verify", "success"], ops=["postProof"], opfields={"block": ["files", "files2", "proofs", "bank"], "attest": ["proofs"], "postFile": ["files", "proofs"],
                                                                                  # a restart that rewrites proof records extends (or ends) a prover's credit without a proof
                                                                                  "restart": ["proofs", "files", "genesis"]},
                       queries=["proof", "proofsByAddress"])),
    "C02": dict(main="proofs", monitor=mon_storage.C02, stateful=True, facts=facts.gen_pure_fns,
                rel=st(fields=["verify", "challenge"], ops=["postProof"], opfields={"block": ["files", "files2", "proofs", "providers"], "restart": ["proofs", "files", "providers"]})),
    "C03": dict(main="proofs", monitor=mon_storage.C03, stateful=True, facts=facts.gen_pure_fns,
                rel=st(opfields={"block": ["files", "files2", "proofs", "providers", "bank", "panic"]})),
    "C04": dict(main="payments", extra=("rns", "msgs"), monitor=mon_storage.c04, facts=facts.gen_pure_fns,
                rel=st(ops=["buyStorage", "setParams"], opfields={"postFile": ["bank", "gauges", "outcome"]}, queries=["rns.resolve", "priceCheck"], wasm=True)),
    "C05": dict(main="storage", extra=("payments", "forms", "mint", "rns", "notif", "filetree", "msgs"), monitor=mon_storage.c05, panic=True,
                # wasm: C05_history_never_panics_unconditional assumes that no message is signed by an escrow account; for
                # contract-originated posts that is what the binding's creator check provides
                rel=st(fields=["panic"], ops=["block"], opfields={"postFile": ["outcome", "files"]}, wasm=True)),
    "C07": dict(main="plans", extra=("msgs",), monitor=mon_storage.c07,
                rel=st(fields=["payinfo"], ops=["postFile", "deleteFile"], opfields={"buyStorage": ["outcome"], "block": ["files", "files2"]}, wasm=True,
                       queries=["payInfo", "allPayInfo", "payData", "clientFreeSpace", "fileUploadCheck", "storageStats", "networkSize"])),
    "C12": dict(main="payments", monitor=mon_storage.C12, stateful=True, facts=facts.gen_pure_fns,
                rel=st(fields=["gauges"], opfields={"block": ["bank", "panic"], "postFile": ["bank"], "buyStorage": ["bank"]}, queries=["gauges"])),
    "C14": dict(main="forms", monitor=mon_storage.c14,
                rel=st(fields=["attests", "reports"], ops=["attest", "report", "requestAttest", "requestReport", "setParams"],
                       queries=["attestation", "allAttestations", "report", "allReports", "activeProviders"])),
    "C15": dict(main="collateral", monitor=mon_storage.c15,
                rel=st(fields=["collateral", "params"], ops=["initProvider", "shutdownProvider", "setParams"], queries=["provider", "allProviders"])),
    "C17": dict(main="storage", monitor=mon_storage.c17, facts=facts.gen_pure_fns,
                rel=st(fields=["files", "files2", "proofs", "keyshape"], opfields={"block": ["files", "files2", "proofs"]},
                       queries=["file", "allFiles", "allFilesByMerkle", "allFilesByOwner", "openFiles", "proof", "allProofs", "proofsByAddress", "findFile", "storeCount", "freeSpace", "activeProviders", "availableSpace"])),
}

for _pid, _c in STORAGE_PROPS.items():
    if os.path.exists(os.path.join(os.path.dirname(os.path.abspath(__file__)), "..", "lean", "Canine", "Props", _pid + ".lean")):
        PROPS[_pid] = {
            "runs": storage_runs(_c["main"], _c.get("extra", ())), "replay_runs": replay_runs, "monitor": _c["monitor"],
            "stateful": _c.get("stateful", False), "panic_relevant": _c.get("panic", False),
            "diff_relevant": _c["rel"], "trusted_base": ST_TRUST, "assumptions": ST_ASSUME,
        }
        if _c.get("facts"):
            PROPS[_pid]["facts"] = _c["facts"]
