"""Model-free oracles for C10 (file-tree authorisation and frame) and C20 (hashed paths), computed
with Python's hashlib from the statement of the properties."""
import hashlib


def hx(s):
    return hashlib.sha256(s.encode("utf-8", "surrogatepass")).hexdigest()


def opk(rec):
    (k, v), = (rec["op"].items() if isinstance(rec["op"], dict) else [(rec["op"], {})])
    return k, v


def files(st):
    return {tuple(k): e for k, e in st["files"]}


def acl(e, which):
    a = e[which]
    if a == "null":
        return {}
    return dict(a["map"]["m"]) if "map" in a else None


def is_owner(e, user):
    return hx("o" + e["address"] + hx(user)) == e["owner"]


OWNER_OPS = ("deleteFile", "changeOwner", "addViewers", "removeViewers", "resetViewers", "addEditors", "removeEditors", "resetEditors")


def c10(rec):
    if rec.get("mod") != "filetree":
        return []
    out = []
    k, v = opk(rec)
    pre, post = files(rec["pre"]), files(rec["post"])

    def viol(kind, what):
        out.append({"sig": {"prop": "C10", "kind": kind, "op": k}, "what": f"{k}: {what}"})
    if rec.get("badKeys"):
        viol("store-key-shape", f"keys not of the form address/owner/: {rec['badKeys'][:2]}")
    for key, e in post.items():
        if (e["address"], e["owner"]) != key:
            viol("entry-under-foreign-key", f"entry ({e['address'][:8]}…,{e['owner'][:8]}…) stored under {key}")
    changed = {key for key in set(pre) | set(post) if pre.get(key) != post.get(key)}
    if not rec["ok"]:
        if changed or rec["pre"]["pubkeys"] != rec["post"]["pubkeys"]:
            viol("failed-message-changed-state", "failed message changed the tree")
        return out
    c = v["creator"]
    if k == "postFile":
        full = hx(v["hashParent"] + v["hashChild"])
        okey = (full, hx("o" + full + v["account"]))
        pkey = (v["hashParent"], hx("o" + v["hashParent"] + v["account"]))
        parent = pre.get(pkey)
        if parent is None:
            viol("post-without-parent", "accepted although the parent folder does not exist")
        else:
            ed = acl(parent, "editors")
            if ed is None or hx("e" + parent["tracking"] + c) not in ed:
                viol("post-without-edit-access", f"signer {c} has no edit access to the folder")
        if changed - {okey}:
            viol("touched-other-entry", f"changed {len(changed - {okey})} entries other than the posted child")
        e = post.get(okey)
        if e is None or e["owner"] != okey[1] or e["address"] != full:
            viol("posted-entry-wrong-owner", "posted entry missing or not owned by the folder's account")
        if rec.get("respPath") != full:
            out.append({"sig": {"prop": "C20", "kind": "post-returned-other-address"}, "what": f"postFile returned {rec.get('respPath')} expected {full}"})
    elif k in OWNER_OPS:
        if k in ("deleteFile",):
            akey = (v["hashPath"], hx("o" + v["hashPath"] + v["account"]))
            allowed = {akey}
        elif k == "changeOwner":
            akey = (v["address"], hx("o" + v["address"] + v["fileOwner"]))
            nkey = (v["address"], hx("o" + v["address"] + v["newOwner"]))
            allowed = {akey, nkey}
        else:
            akey = (v["address"], v["fileOwner"])
            allowed = {akey}
        f = pre.get(akey)
        if f is None:
            viol("acted-on-missing-entry", "accepted although the named entry does not exist")
            return out
        if not is_owner(f, c):
            viol("non-owner-accepted", f"signer {c} is not the owner of the entry")
        if changed - allowed:
            viol("touched-other-entry", f"changed {len(changed - allowed)} entries other than the named one")
        if k == "deleteFile" and akey in post:
            viol("delete-kept-entry", "entry still present")
        if k == "changeOwner":
            if akey in post or post.get(nkey) != {**f, "owner": nkey[1]}:
                viol("change-owner-wrong-result", "entry not moved intact to the new owner key")
        if k in ("addViewers", "removeViewers", "resetViewers", "addEditors", "removeEditors", "resetEditors"):
            which = "viewers" if "Viewers" in k else "editors"
            g = post.get(akey)
            if g is None:
                viol("acl-op-removed-entry", "entry disappeared")
                return out
            rest_f = {kk: vv for kk, vv in f.items() if kk != which}
            rest_g = {kk: vv for kk, vv in g.items() if kk != which}
            if rest_f != rest_g:
                viol("acl-op-changed-other-field", f"fields other than {which} changed")
            m0, m1 = acl(f, which), acl(g, which)
            if m0 is None or m1 is None:
                viol("acl-undecodable", "list not a JSON object of strings but the message succeeded")
                return out
            if k.startswith("reset"):
                oid = hx(("v" if which == "viewers" else "e") + f["tracking"] + c)
                if m1 != {oid: m0.get(oid, "")}:
                    viol("reset-left-extra-ids", f"after reset the list has {len(m1)} ids, expected exactly the owner's")
            else:
                ids = set(v["ids"])
                for i in set(m0) | set(m1):
                    if i not in ids and m0.get(i) != m1.get(i):
                        viol("unnamed-id-changed", f"id {i[:10]}… not named in the message changed")
                if k.startswith("remove"):
                    for i in ids:
                        if i in m1:
                            viol("named-id-not-removed", f"id {i[:10]}… still present")
    elif k == "provision":
        root = hx(hx("s"))
        okey = (root, hx("o" + root + hx(c)))
        if changed - {okey}:
            viol("touched-other-entry", "provisioning changed an entry other than the signer's root")
    elif k == "postKey":
        if changed:
            viol("touched-other-entry", "postKey changed the tree")
    return out


def merkle_path(p):
    if p.endswith("/"):
        p = p[:-1]
    total = ""
    for chunk in p.split("/"):
        total = hx(total + hx(chunk))
    return total


def c20(rec):
    if rec.get("mod") == "filetree":
        return [x for x in c10(rec) if x["sig"]["prop"] == "C20"]
    if rec.get("mod") != "path":
        return []
    out = []
    p, ch = rec["path"], rec["child"]

    def viol(kind, what):
        out.append({"sig": {"prop": "C20", "kind": kind}, "what": f"path {p!r} child {ch!r}: {what}"})
    if rec["merklePath"] != merkle_path(p):
        viol("merklepath-not-the-fold", f"MerklePath = {rec['merklePath'][:12]}…, fold over segments = {merkle_path(p)[:12]}…")
    if rec["added"] != hx(rec["merklePath"] + hx(ch)):
        viol("addtomerkle-not-one-step", "AddToMerkle(parent, H(child)) is not H(parent ‖ H(child))")
    if not p.endswith("/") and ch != "" and "/" not in ch and rec["joined"] != rec["added"]:
        viol("child-address-mismatch", "MerklePath(parent/child) differs from AddToMerkle(MerklePath(parent), H(child))")
    if not p.endswith("/") and rec["trailing"] != rec["merklePath"]:
        viol("trailing-slash-not-neutral", "MerklePath(path/) differs from MerklePath(path)")
    # the client-side derivation (MerkleHelper) must recombine to the path's own address wherever the
    # plain path has at least two segments and the last-but-one is non-empty
    for q, (par, chh) in zip([p, p + "/" + ch, p + "/"], rec.get("helpers") or []):
        t = q[:-1] if q.endswith("/") else q
        segs = t.split("/")
        if len(segs) >= 2 and segs[-2] != "" and hx(par + chh) != merkle_path(q):
            viol("helper-does-not-recombine", f"MerkleHelper({q!r}) recombines to {hx(par + chh)[:12]}…, the path's address is {merkle_path(q)[:12]}…")
    # the message the client-side builder makes for a plain path must post to the path's own address
    for q, (par, chh) in zip([p, p + "/" + ch, p + "/"], rec.get("client") or []):
        t = q[:-1] if q.endswith("/") else q
        segs = t.split("/")
        if len(segs) >= 2 and segs[-2] != "" and hx(par + chh) != merkle_path(q):
            viol("client-message-posts-elsewhere", f"CreateMsgPostFile({q!r}) posts to {hx(par + chh)[:12]}…, the plain path's address is {merkle_path(q)[:12]}…")
    return out
