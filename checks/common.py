"""Shared machinery of /verif/bin/check: build the Lean obligations, audit axioms, build the Go
harness against /repo's working tree, run the correspondence, decide the verdict, write evidence."""
import json, os, re, subprocess, sys, time, hashlib, shutil

VERIF = os.path.dirname(os.path.dirname(os.path.abspath(__file__)))
LEAN = os.path.join(VERIF, "lean")
HARNESS = os.path.join(VERIF, "harness")
BUILD = os.path.join(VERIF, ".build")
REPO = os.environ.get("VERIF_REPO", "/repo")  # another checkout can be named for experiments; the registered checks use /repo
ALLOWED_AXIOMS = {"propext", "Classical.choice", "Quot.sound"}
FORBIDDEN = re.compile(r"\b(sorry|admit|native_decide|bv_decide|implemented_by|unsafe)\b|^\s*axiom\s|maxHeartbeats\s+0")

GOENV = dict(os.environ, GOFLAGS="-mod=mod", GOPROXY="off", GOSUMDB="off", GOTOOLCHAIN="local")


def sh(cmd, cwd=None, env=None, timeout=None, stdin=None):
    p = subprocess.run(cmd, cwd=cwd, env=env, timeout=timeout, stdin=stdin,
                       stdout=subprocess.PIPE, stderr=subprocess.STDOUT, text=True)
    return p.returncode, p.stdout


def strip_comments(src):
    # remove /- ... -/ (nested not needed for our sources) and -- line comments
    src = re.sub(r"/-.*?-/", "", src, flags=re.S)
    src = re.sub(r"--.*", "", src)
    return src


def lean_sources():
    out = []
    for root, _, files in os.walk(LEAN):
        if ".lake" in root:
            continue
        for f in files:
            if f.endswith(".lean"):
                out.append(os.path.join(root, f))
    return sorted(out)


def scan_forbidden():
    hits = []
    for p in lean_sources():
        body = strip_comments(open(p).read())
        for n, line in enumerate(body.splitlines(), 1):
            if FORBIDDEN.search(line):
                hits.append(f"{os.path.relpath(p, VERIF)}: {line.strip()[:120]}")
    return hits


def prop_modules(prop_id):
    """Lean modules holding the property's theorems: Canine/Props/Cxx.lean and supplementary modules
    Canine/Props/Cxx_*.lean (a supplementary module exists where the helper-lemma family it needs cannot be
    imported together with the family Cxx.lean uses; each is built and audited on its own)."""
    d = os.path.join(LEAN, "Canine", "Props")
    mods = [f"Canine.Props.{prop_id}"]
    for f in sorted(os.listdir(d)):
        if f.startswith(prop_id + "_") and f.endswith(".lean"):
            mods.append("Canine.Props." + f[:-5])
    return mods


THEOREM_MODULE = {}


def theorems_of(prop_id, extra_modules=()):
    """Property theorems: every `theorem Cxx_*` in Canine/Props/Cxx.lean and Canine/Props/Cxx_*.lean (with its namespace)."""
    names = []
    for mod in prop_modules(prop_id):
        path = os.path.join(LEAN, *mod.split(".")) + ".lean"
        src = strip_comments(open(path).read())
        ns = []
        for line in src.splitlines():
            m = re.match(r"\s*namespace\s+(\S+)", line)
            if m:
                ns.append(m.group(1))
                continue
            m = re.match(r"\s*end\s+(\S+)", line)
            if m and ns and ns[-1] == m.group(1):
                ns.pop()
                continue
            m = re.match(r"\s*(?:private\s+)?theorem\s+(" + prop_id + r"_\w+)", line)
            if m:
                n = ".".join(ns + [m.group(1)])
                names.append(n)
                THEOREM_MODULE[n] = mod
    return names


def build_lean(prop_id, log):
    """lake build of the property's theorems and the driver. Returns (ok, output)."""
    t = time.time()
    mods = prop_modules(prop_id)
    rc, out = sh(["lake", "build"] + mods + ["driver"], cwd=LEAN)
    log(f"lake build {' '.join(mods)} driver: rc={rc} ({time.time()-t:.1f}s)")
    return rc == 0, out


def failing_theorems(build_output):
    """Names of declarations lake reported errors in (best effort, from 'error: file:line:col')."""
    errs = []
    for m in re.finditer(r"error: (\S+\.lean):(\d+):(\d+)", build_output):
        f, line = m.group(1), int(m.group(2))
        path = os.path.join(LEAN, f)
        decl = "?"
        try:
            lines = open(path).read().splitlines()
            for i in range(min(line, len(lines)) - 1, -1, -1):
                mm = re.match(r"\s*(?:private\s+)?(?:theorem|def|example|lemma)\s*(\S*)", lines[i])
                if mm:
                    decl = mm.group(1) or "example"
                    break
        except OSError:
            pass
        errs.append(f"{f}:{line} ({decl})")
    return errs


def audit_axioms(prop_id, names, log):
    """`#print axioms` for every property theorem (one audit file per module); returns {name: [axioms]} and raw output."""
    work = os.path.join(VERIF, ".work", prop_id)
    os.makedirs(work, exist_ok=True)
    res = {}
    outs = []
    rcs = []
    for i, mod in enumerate(prop_modules(prop_id)):
        mine = [n for n in names if THEOREM_MODULE.get(n, f"Canine.Props.{prop_id}") == mod]
        if not mine:
            continue
        f = os.path.join(work, "Audit.lean" if i == 0 else f"Audit_{i}.lean")
        with open(f, "w") as fh:
            fh.write(f"import {mod}\n")
            for n in mine:
                fh.write(f"#print axioms {n}\n")
        rc, out = sh(["lake", "env", "lean", f], cwd=LEAN)
        rcs.append(rc)
        outs.append(out)
        # output: "'Name' depends on axioms: [a, b]" or "'Name' does not depend on any axioms"
        for m in re.finditer(r"'([^']+)' depends on axioms: \[([^\]]*)\]", out):
            res[m.group(1)] = [a.strip() for a in m.group(2).replace("\n", " ").split(",") if a.strip()]
        for m in re.finditer(r"'([^']+)' does not depend on any axioms", out):
            res[m.group(1)] = []
    log(f"axiom audit: {len(res)}/{len(names)} theorems reported, rc={rcs}")
    return res, "\n".join(outs)


def leanchecker(prop_id, log):
    t = time.time()
    ok, outs = True, []
    for mod in prop_modules(prop_id):
        rc, out = sh(["lake", "env", "leanchecker", mod], cwd=LEAN, timeout=1800)
        log(f"leanchecker {mod}: rc={rc} ({time.time()-t:.1f}s)")
        ok = ok and rc == 0
        outs.append(out)
    return ok, "\n".join(outs)


def build_harness(log):
    os.makedirs(BUILD, exist_ok=True)
    # go.sum follows /repo's; the harness module replaces canine-chain by /repo's working tree
    shutil.copyfile(os.path.join(REPO, "go.sum"), os.path.join(HARNESS, "go.sum"))
    t = time.time()
    rc, out = sh(["go", "build", "-tags", "verif", "-o", os.path.join(BUILD, "harness"), "."], cwd=HARNESS, env=GOENV)
    log(f"go build -tags verif harness: rc={rc} ({time.time()-t:.1f}s)")
    return rc == 0, out


def run_harness(args, out_path, stats_path, log, timeout=3000, extra_env=None):
    t = time.time()
    cmd = [os.path.join(BUILD, "harness")] + args + ["-out", out_path, "-stats", stats_path]
    env = dict(os.environ, GOMEMLIMIT="6GiB")
    env.update(extra_env or {})
    rc, out = sh(cmd, env=env, timeout=timeout)
    log(f"harness {' '.join(args)}: rc={rc} ({time.time()-t:.1f}s)")
    return rc, out


def run_driver(trace_path, log):
    """Pipe a trace through the Lean driver. Returns (summary dict, list of non-ok lines)."""
    t = time.time()
    exe = os.path.join(LEAN, ".lake", "build", "bin", "driver")
    with open(trace_path) as fh:
        p = subprocess.run([exe], stdin=fh, stdout=subprocess.PIPE, stderr=subprocess.STDOUT, text=True)
    lines = p.stdout.splitlines()
    summ = {}
    bad = []
    for l in lines:
        if l.startswith("SUMMARY"):
            for kv in l.split()[1:]:
                k, v = kv.split("=")
                summ[k] = int(v)
        elif l.strip():
            bad.append(l)
    log(f"driver {os.path.basename(trace_path)}: {summ} ({time.time()-t:.1f}s)")
    return summ, bad


def parse_diff(line):
    """'DIFF rns hist=0 i=16 op=bid field=outcome model=.. impl=.. ;; field=..' -> dict"""
    m = re.match(r"(DIFF|BAD) (\S+) hist=(-?\d+) i=(-?\d+)(?: op=(\S+))? ?(.*)", line)
    if not m:
        return {"kind": "BAD", "mod": "?", "hist": 0, "i": 0, "op": "?", "fields": [], "text": line}
    fields = re.findall(r"field=(\w+)", m.group(6))
    return {"kind": m.group(1), "mod": m.group(2), "hist": int(m.group(3)), "i": int(m.group(4)),
            "op": m.group(5) or "?", "fields": fields, "text": line[:2000],
            "failed_changed": "failed-message-changed-state" in m.group(6)}


def load_known_findings():
    p = os.path.join(VERIF, "known_findings.jsonl")
    out = []
    if os.path.exists(p):
        for line in open(p):
            line = line.strip()
            if line:
                out.append(json.loads(line))
    return out


def iter_trace(path):
    with open(path) as fh:
        for line in fh:
            line = line.strip()
            if line:
                yield json.loads(line)


def tree_fingerprint():
    """Short fingerprint of /repo's working tree state (HEAD + diff) for the evidence file."""
    rc, head = sh(["git", "-C", REPO, "rev-parse", "--short", "HEAD"])
    rc2, diff = sh(["git", "-C", REPO, "diff", "HEAD", "--", "x", "app", "types", "wasmbinding"])
    return head.strip() + ("+dirty:" + hashlib.sha1(diff.encode()).hexdigest()[:8] if diff.strip() else "")
