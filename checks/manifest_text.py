NOT_YET = {}
_RNS_NOTE = ("Trusted: Lean kernel (+ propext, Classical.choice, Quot.sound), the Go harness/abs/driver tie, cosmos-sdk bank keeper modelled as a ledger, "
             "sdk coin parsers and strings.ToLower taken as oracle inputs. Assumes canonical lower-case bech32 signers, ASCII names, module accounts never sign.")
TEXT = {
    "C08": {
        "level": "Theorems over every state, height and message of the x/rns model: a non-owner's message leaves a live name's record untouched except a purchase through a listing recorded in the owner's name (C08_non_owner_messages_frame); every owner change is a transfer/accept signed by the owner or such a purchase (C08_owner_change_characterisation); the purchase pays the previous owner the full price (C08_buy_pays_previous_owner); listings are only written by List signed by their recorded owner. The model is tied to the code by a per-step correspondence run against the assembled app on every check.",
        "note": _RNS_NOTE,
        "technique": "Lean 4 theorems (one-step characterisations for all states) + per-step model/implementation correspondence",
    },
    "C09": {
        "level": "Invariant proved by induction over arbitrary message histories of the x/rns model: for every denomination the module account balance equals the sum of open bids (C09_step_preserves_escrow, C09_escrow_conserved_along_histories), with exact-refund/exact-payout/rebid-refund theorems. Tied to the code by the per-step correspondence on every check.",
        "note": _RNS_NOTE,
        "technique": "Lean 4 invariant by induction over histories + per-step model/implementation correspondence",
    },
    "C16": {
        "level": "Theorems for every state/height/name/year count: exact debit = years x table price, all of it to POL, nothing else moves (C16_register_charges_exactly); resulting record owned by the registrant with expiry height+term (fresh/expired) or old expiry+term (live renewal) hence live for the term; a live name is not registrable by others; price table theorem. Tied to the code by the per-step correspondence on every check.",
        "note": _RNS_NOTE,
        "technique": "Lean 4 theorems over the register handler model + per-step model/implementation correspondence",
    },
    "C18": {
        "level": "Theorems over the notifications model (one store holding both record kinds, prefix scan and key-shape filter as in the code): the listing of an address is exactly the stored notifications addressed to it (C18_inbox_membership, under the store invariant proved for every history from the empty store); a successful send adds exactly one entry with the given sender/time/contents to the resolved recipient only; a blocked sender cannot deliver; delete removes only the signer's own matching entry; block changes no inbox. Tied to the code by the per-step correspondence (store and the chain's own listings) on every check.",
        "note": "Trusted: Lean kernel (+3 standard axioms), harness/abs/driver tie, rns.Resolve and json.Valid as oracle inputs, '/'-splitting of raw keys (bech32 addresses are '/'-free).",
        "technique": "Lean 4 invariant + one-step inbox characterisations + per-step model/implementation correspondence",
    },
    "C13": {
        "level": "Theorems over an exact model of sdk.Dec and of BlockMint, for every state, every valid parameter set and every run length: the emission is non-negative and at most the previous block's (C13_next_nonneg, C13_next_le_prev, C13_emissions_nonincreasing also across parameter changes), supply grows by exactly the emission, each sink receives its percentage rounded down, the module keeps emission minus the three floors which is < 3 units when ratios sum to 100 (C13_blockMint_spec, C13_retained_bound, C13_supply_grows_by_emissions). Tied to the code by a per-block correspondence on the assembled app's full BeginBlock.",
        "note": "Trusted: Lean kernel (+3 standard axioms), harness/abs/driver tie, bank keeper as ledger, distribution BeginBlocker only sweeping the fee collector. Assumes validator-accepted parameters with ratio sum <= 100, a valid unblocked stipend address.",
        "technique": "Lean 4 theorems over an exact sdk.Dec/BlockMint model, induction over block runs + per-block model/implementation correspondence",
    },
    "C10": {
        "level": "Theorems for every hash function, state and message of the x/filetree model: a successful delete/change-owner/viewer/editor message found the named entry and its signer is the owner, a successful post found the folder and its signer has edit access (C10_success_requires_right); nothing but the named entry changes (C10_touches_only_named_entry); add/remove change only the named ids, reset leaves exactly the owner's id; the posted child is owned by the folder's account; store invariant along all histories; the raw key address/owner/ cannot be aliased by crafted strings (C10_filesKey_injective). Tied to the code by the per-step correspondence with crafted separator-containing inputs.",
        "note": "Trusted: Lean kernel (+3 standard axioms), harness/abs/driver tie, SHA-256 in Lean for execution only, encoding/json (lists compared as decoded maps). Hash collisions out of scope (ownership is the chain's predicate).",
        "technique": "Lean 4 authorisation + frame theorems for all hash functions + per-step model/implementation correspondence",
    },
    "C20": {
        "level": "Theorems for every hash function and every path, unbounded in segments and lengths: MerklePath of the joined segments is the fold (C20_merklePath_eq_fold), parent/child relation (C20_child_address), trailing slash neutrality, distinct segment lists give distinct addresses in collision-extraction form, over a character-level model of strings.Split/TrimSuffix. Tied to the code by differential evaluation of MerklePath/AddToMerkle/PostFile's returned address with SHA-256 executed in Lean.",
        "note": "Trusted: Lean kernel (+3 standard axioms), the Lean SHA-256 used only for execution, harness/driver tie. Domain restrictions are explicit hypotheses (last segment non-empty, parent not ending in '/').",
        "technique": "Lean 4 theorems over a character-level model of the path functions + differential evaluation against the Go functions",
    },
    "C19": {
        "level": "Theorem for any store of any record kind whose entries sit under the key built from their own fields: export then import gives back the identical store, exporting again gives the same list, the exported list passes the duplicate-key validation (C19_roundtrip_kind, C19_export_idempotent, C19_validate_accepts_export); kinds no genesis carries are lost (C19_omitted_kind_lost). The full property is FALSE on this tree for four record kinds (known findings, not repairable without protoc); the check runs a real ExportGenesis -> ValidateGenesis -> InitGenesis -> raw store comparison for all six modules and compares it with the model's table.",
        "note": "Trusted: Lean kernel (+3 standard axioms), the hand-written table of exported kinds (validated against the real round trip each run), harness raw-store dump. Known findings: storage.FileProof, rns.PrimaryName, notification.Block, jklmint.MintedBlock are not exported.",
        "technique": "Lean 4 round-trip theorem per record kind + real export/import round trip compared with the model's table",
    },
    "C04": {
        "level": "Theorems for every state and input of the buyStorage / pay-once postFile models (exact sdk.Dec arithmetic): the payer is debited exactly the computed price, the gauge account receives exactly what the gauge records, POL and referrer (or the stakers' pool) receive their percentages as exact floors (POL lowered by the referral discount), the module keeps a non-negative remainder, credits never exceed the debit under ref+pol <= 100, no other balance changes, the sum over the involved accounts is conserved, failed purchases change nothing (C04_buy_accounting, C04_shares_closed_form, C04_credits_le_debit, C04_supply_unchanged, C04_postFile_payonce_accounting ...). Tied to the code by the per-step correspondence (price formula included) on every run.",
        "note": "Trusted: Lean kernel (+3 standard axioms), harness/abs/driver tie, bank keeper as ledger, JKL price and rns.Resolve as oracle inputs. Assumes payer, module, gauge, POL, fee-pool and referrer accounts are pairwise distinct where stated.",
        "technique": "Lean 4 theorems over exact sdk.Dec handler models + per-step model/implementation correspondence",
    },
    "C15": {
        "level": "Invariant proved for every message of the storage model, the reward block and parameter changes, lifted by induction to all histories: escrow balance = sum of recorded collaterals (C15_escrow_invariant_step/_block/_params, C15_escrow_invariant); init locks exactly the current price, shutdown returns exactly the recorded amount whatever the price is now, no second claim, no foreign claim. Tied to the code by the per-step correspondence on every run.",
        "note": "Trusted: Lean kernel (+3 standard axioms), harness/abs/driver tie, bank keeper as ledger. Assumes the escrow module account is a blocked recipient (app.BlockedAddrs, observed by the harness) and differs from the storage module and fee-pool accounts.",
        "technique": "Lean 4 invariant by induction over histories + per-step model/implementation correspondence",
    },
    "C03": {
        "level": "Specification theorem of the reward loop for every file with a duplicate-free prover list, every failing subset and order (C03_each_prover_handled_once: stored list = filter of passing provers, each credited the file size exactly once, each failing one with a record removed and its provider burned exactly once, nothing else touched); exact payout bounds over sdk.Dec: |pay - floor(w*R/T)| <= 1 for R <= 10^18, sum of payouts <= released under n*R < 2*10^18 (with a decide-checked counterexample outside it), uncounted accounts and the module never gain. The pre-fix aliased loop is kept as a witness (skips and double counts). Tied to the code by per-block correspondence on the assembled app.",
        "note": "Trusted: Lean kernel (+3 standard axioms), harness/abs/driver tie, bank keeper as ledger. Side conditions: amounts released per block <= 10^18 base units and provers x released < 2*10^18 (rounding bounds), sizes summed in arbitrary precision (as the repaired code does).",
        "technique": "Lean 4 specification theorem of the reward loop + exact Dec rounding bounds + per-block model/implementation correspondence",
    },
    "C12": {
        "level": "Theorems for every gauge (any amount, any length): after any reward time in the interval the cumulative release is trunc(ratio*A) independent of earlier reward blocks (C12_release_formula), within one unit of the linear schedule elapsed*A/total in whole microseconds for A <= 10^18 (C12_cumulative_is_linear), monotone in time (C12_monotone), between 0 and the deposit (C12_le_deposit, 0 at start, A at end), nothing outside the interval, released tokens go to the module account only, equal-id deposits merge into one gauge; pre-fix overwrite and duration-saturation witnesses by decide. Tied to the code by per-block correspondence.",
        "note": "Trusted: Lean kernel (+3 standard axioms), harness/abs/driver tie, bank keeper as ledger. Deposits are what NewGauge callers put in; third-party transfers into a gauge account are outside the quantifier. What accrued after the last in-interval reward block stays in the gauge account (the statement releases nothing after End).",
        "technique": "Lean 4 theorems over exact sdk.Dec gauge arithmetic + per-block model/implementation correspondence",
    },
    "C11": {
        "level": "Regenerated obligations: the table of all registered message types of the custom modules (45 today, extracted from the running app on every run) is checked in Lean to have exactly one signer taken from the Creator field and a handler for every row (C11_signers_are_creator, C11_registered_and_routable, by decide over the regenerated table). Frame theorems over the models: provider messages touch only the creator's record and need it to exist, feed updates need feed.owner = creator and touch one feed, creations never overwrite, delete/block write only keys starting with the signer, MakePrimary sets only the signer's record, storage DeleteFile removes only files whose owner is the signer, a contract posts only in its own name. Real signed DeliverTx for every type: creator's key accepted, another key rejected.",
        "note": "Trusted: Lean kernel (+3 standard axioms), the reflection-based table extraction, harness/driver tie. Signature verification is the SDK's (observed, not modelled).",
        "technique": "Lean 4 obligations over a table regenerated from the running app + frame theorems over the module models + real signed transactions",
    },
    "C05": {
        "level": "BeginBlock is modelled as Except String State with every panicking primitive of the Go code explicit (division by zero, negative coin amount, Int64 out of range, zero check window). Proved: the sizes invariant (every stored file has FileSize >= 1 and MaxProofs >= 1, check window != 0) is established by PostFile's validation and preserved by every message, by the block and along all histories; under it the reward payout never panics (total > 0 whenever someone is credited, all credited sizes and owed amounts non-negative) and the whole beginBlock returns ok given the explicit gauge-safety hypothesis, which is proved to hold for funded gauges of at least a day with amounts below 2^62 (C05_beginBlock_never_panics, C05_gauges_safe_after_creation, C05_history_never_panics); the mint emission and its three shares are non-negative (C05_mint_never_panics); no custom module has an EndBlocker. Pre-fix witnesses (zero / negative size, sub-microsecond gauge) by decide. The correspondence runs the full app BeginBlock/EndBlock with recover around it on adversarial histories.",
        "note": "Partial by nature: panics inside unmodelled SDK modules' BeginBlockers are only observed by the harness, not excluded by a theorem; the gauge-safety hypothesis at later blocks (withdrawals stay on schedule) is assumed at each block and observed by the correspondence, not derived. Trusted: Lean kernel (+3 standard axioms), harness tie.",
        "technique": "Lean 4 no-panic theorem over an Except-valued BeginBlock model under a proved invariant + adversarial correspondence on the assembled app",
    },
    "C07": {
        "level": "Invariant proved for every message, the reward block and all histories from the empty state: for every plan, SpaceUsed = sum of FileSize*MaxProofs over the account's live plan-paid files, 0 <= used <= available (C07_step_preserves, C07_block_preserves, C07_space_invariant); posting without a plan / with an expired plan / beyond the remaining space fails and changes nothing; delete and the chain's drop of a prover-less file return exactly the footprint; buying carries the usage over and refuses plans below it. Pre-fix witness (delete leaks) by decide. Tied to the code by the per-step correspondence (including int64 boundary sizes) on every run.",
        "note": "Trusted: Lean kernel (+3 standard axioms), harness/abs/driver tie. Plan-paid = Expires <= 0 (as PostFile treats it).",
        "technique": "Lean 4 invariant by induction over histories + per-step model/implementation correspondence",
    },
    "C14": {
        "level": "Theorems over the form handlers for every state: an attestation refreshes a deadline (a report removes a prover) only if the form exists, the signer is named on it and the number of complete entries reaches the minimum — a quorum of distinct named providers since form names are distinct (invariant along histories); only the signer's own entries flip; outsiders, repeated signatures and signatures on consumed forms change nothing (idempotence proved unconditionally); a new form names exactly the chosen providers, all incomplete, and the eligible set (for any host parser) contains only registered providers holding proofs and never the prover itself; every complete entry on an open form is backed by a message signed by that provider (history theorem). Tied to the code by the per-step correspondence, the shuffled provider list being an oracle input checked against these constraints by the monitor.",
        "note": "Trusted: Lean kernel (+3 standard axioms), harness/abs/driver tie, net/url hostname parsing and the height-seeded shuffle as oracle inputs (any function / any duplicate-free selection).",
        "technique": "Lean 4 theorems over the form handlers + history invariants + per-step model/implementation correspondence",
    },
    "C17": {
        "level": "Invariant proved for all 15 messages, the full reward block and every history from the empty state: the by-content and by-owner indexes are equal as maps, every file sits under its own key, prover lists are duplicate-free and never longer than MaxProofs, every listed prover has a proof record whose fields refer back to that file (C17_invariant_preserved_by_messages, _by_reward_block, C17_along_histories) plus injectivity of both raw key encodings on '/'-free components. Tied to the code by the per-step correspondence reading both indexes and the proof store raw.",
        "note": "Trusted: Lean kernel (+3 standard axioms), harness/abs/driver tie (raw keys are parsed and checked against the key the record's own fields produce).",
        "technique": "Lean 4 invariant by induction over histories + per-step model/implementation correspondence",
    },
}
