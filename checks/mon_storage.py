"""Model-free oracles of the storage properties over step records of the real app.  They restate each
property directly over observed states (Python integers, hashlib for the Merkle check) and are the
search for a concrete failing input when a proof obligation or the correspondence breaks."""
import hashlib


def opk(rec):
    if rec["op"] == "block":
        return "block", {}
    (k, v), = (rec["op"].items() if isinstance(rec["op"], dict) else [(rec["op"], {})])
    return k, v


def fk(k):  # [merkle,[owner,start]] -> tuple
    return (k[0], k[1][0], k[1][1])


def pk(k):  # [prover,[merkle,[owner,start]]]
    return (k[0],) + fk(k[1])


def files(st, which="files"):
    return {fk(k): f for k, f in st[which]}


def proofs(st):
    return {pk(k): p for k, p in st["proofs"]}


def bank(st):
    return {tuple(k): v for k, v in st["bank"]}


def bal(b, a, d="ujkl"):
    return b.get((a, d), 0)


def V(prop, kind, what, **extra):
    sig = {"prop": prop, "kind": kind}
    sig.update(extra)
    return {"sig": sig, "what": what}


def is_reward(rec):
    return rec["op"] == "block" and rec["h"] % rec["pre"]["params"]["checkWindow"] == 0


def unchanged_if_failed(rec, prop):
    k, v = opk(rec)
    if k != "block" and not rec["ok"] and rec["pre"] != rec["post"]:
        return [V(prop, "failed-message-changed-state", f"failed {k} changed state", op=k)]
    return []


# ---------------------------------------------------------------- Merkle check (independent of the chain)

def merkle_valid(v):
    """the chain-side predicate, recomputed: proof.index == challenge and the path hashes to the root"""
    p = v.get("proof")
    if p is None:
        return False
    try:
        item = bytes.fromhex(v["item"])
        root = bytes.fromhex(v["root"])
        hashes = [bytes.fromhex(x) for x in p["hashes"]]
    except ValueError:
        return False
    c = v["challenge"]
    if c < 0 or p["index"] != c:
        return False
    data = hashlib.sha256((str(c) + item.hex()).encode()).digest()
    cur = hashlib.sha3_512(data).digest()
    idx = p["index"] + (1 << len(hashes))
    for h in hashes:
        cur = hashlib.sha3_512(cur + h).digest() if idx % 2 == 0 else hashlib.sha3_512(h + cur).digest()
        idx >>= 1
    return cur == root


def rounded(h, start, w):
    k = h - start
    # Go's % truncates; operands are non-negative on reachable states
    r = abs(k) % w
    if k < 0:
        r = -r
    return k - r + start


def passes(h, f, p):
    young = f["start"] + f["proofInterval"] >= h
    if p is None:
        return young
    return young or p["lastProven"] >= rounded(h, f["start"], f["proofInterval"]) - f["proofInterval"]


# ---------------------------------------------------------------- C01

class C01:
    def __init__(self):
        self.hist = None
        self.proven = set()   # (prover, filekey) that ever had a valid proof accepted (or an attestation quorum)
        self.window = {}      # filekey -> the chain's ProofWindow parameter when the file was posted
        self.last = {}        # (prover key) -> height of its last accepted proof / attestation quorum

    def __call__(self, rec):
        if rec.get("mod") != "storage":
            return []
        if rec["hist"] != self.hist:
            self.hist, self.proven, self.window, self.last = rec["hist"], set(), {}, {}
        out = []
        k, v = opk(rec)
        pre, post = rec["pre"], rec["post"]
        f0, f1 = files(pre), files(post)
        p0, p1 = proofs(pre), proofs(post)
        if k == "postFile" and rec.get("ok"):
            self.window[(v["merkle"], v["creator"], rec["h"])] = pre["params"]["proofWindow"]
        if k == "postProof" and rec.get("success"):
            self.last[(v["creator"], v["merkle"], v["owner"], v["start"])] = rec["h"]
        if is_reward(rec):
            # "stays credited as a prover only by submitting a proof": how long one accepted proof lasts is
            # the chain's proof window (the parameter in force when the file was posted), not a figure of
            # the poster's choosing
            for key, f in f1.items():
                w = self.window.get(key)
                if w is None:
                    continue
                for x in f["proofs"]:
                    x = pk(x)
                    at = self.last.get(x)
                    if at is not None and x in p1 and p1[x]["lastProven"] == at and rec["h"] - at > 2 * w + pre["params"]["checkWindow"] and rec["h"] - key[2] > 2 * w + pre["params"]["checkWindow"]:
                        out.append(V("C01", "stale-prover-kept", f"{x[0]} last had a proof accepted at {at}; at reward block {rec['h']} (proof window {w}) it is still counted as a prover of the file posted at {key[2]}"))
        if k == "postProof":
            key = (v["merkle"], v["owner"], v["start"])
            me = (v["creator"],) + key
            valid = merkle_valid(v)
            succ = rec.get("success")
            if succ:
                f = f0.get(key)
                stored = p0.get(me)
                challenge = stored["chunkToProve"] if stored else 0
                if f is None:
                    out.append(V("C01", "proof-accepted-for-unknown-file", "PostProof succeeded for a file that does not exist"))
                elif not valid or v["challenge"] != challenge:
                    out.append(V("C01", "invalid-proof-accepted", f"PostProof by {v['creator']} accepted although the submitted proof does not verify for the challenged chunk {challenge}"))
                elif v["toProve"] != challenge:
                    out.append(V("C01", "wrong-chunk-accepted", f"PostProof claiming chunk {v['toProve']} accepted, challenge was {challenge}"))
                else:
                    self.proven.add(me)
            else:
                if pre != post:
                    out.append(V("C01", "rejected-proof-changed-state", f"PostProof by {v['creator']} was rejected (success=false) but the state changed (e.g. prover registered)"))
        if k == "attest":
            # an attestation quorum also refreshes the deadline: counted as "completed attestation quorum"
            target = (v["prover"], v["merkle"], v["owner"], v["start"])
            for key, p in p1.items():
                if key in p0 and p0[key]["lastProven"] != p["lastProven"]:
                    if key != target:
                        out.append(V("C01", "attestation-credited-another-account",
                                     f"attestation for the claim of {v['prover']} refreshed the proof deadline of {key[0]} instead"))
                    else:
                        form = {pk(kk): f for kk, f in pre["attests"]}.get(target)
                        named = form is not None and any(a == v["creator"] for a, _ in form["attestations"])
                        done = ({a for a, c in form["attestations"] if c} | {v["creator"]}) if named else set()
                        if not named or len(done) < pre["params"]["attestMinToPass"]:
                            out.append(V("C01", "deadline-refreshed-without-quorum",
                                         f"attest signed by {v['creator']} refreshed the proof deadline of {key[0]} without a completed quorum of the providers named on its form "
                                         f"({'not named on the form' if not named else str(len(done)) + ' signatures'}, minimum {pre['params']['attestMinToPass']})"))
                        else:
                            self.proven.add(key)
        # prover status appears only through a successful PostProof by that account
        for key, f in f1.items():
            before = set(pk(x) for x in f0[key]["proofs"]) if key in f0 else set()
            for x in f["proofs"]:
                x = pk(x)
                if x not in before:
                    if not (k == "postProof" and rec.get("success") and x[0] == v["creator"]):
                        out.append(V("C01", "prover-listed-without-proof", f"{x[0]} became a prover of a file during {k} without an accepted proof"))
        for key, p in p1.items():
            if key in p0 and p0[key]["lastProven"] != p["lastProven"]:
                if not ((k == "postProof" and rec.get("success") and key[0] == v["creator"]) or k == "attest"):
                    out.append(V("C01", "deadline-refreshed-without-proof", f"LastProven of {key[0]} moved during {k}"))
        if is_reward(rec):
            b0, b1 = bank(pre), bank(post)
            listed = {}
            acc = dict(pre.get("canon") or []).get
            for key, f in f0.items():
                for x in f["proofs"]:
                    listed.setdefault(acc(pk(x)[0], pk(x)[0]), []).append(pk(x))
            for u in rec["users"]:
                gain = bal(b1, u) - bal(b0, u)
                if gain > 0:
                    mine = listed.get(u, [])
                    if not mine:
                        out.append(V("C01", "paid-without-being-prover", f"{u} was paid {gain} at reward block {rec['h']} without being a listed prover"))
                    elif not any(x in self.proven for x in mine):
                        out.append(V("C01", "paid-without-valid-proof", f"{u} was paid {gain} at reward block {rec['h']} but never had a valid proof accepted for any file it is listed on"))
        return out


# ---------------------------------------------------------------- C02

def c02(rec):
    if rec.get("mod") != "storage":
        return []
    out = []
    k, v = opk(rec)
    pre, post = rec["pre"], rec["post"]
    if k == "postProof":
        f0 = files(pre)
        key = (v["merkle"], v["owner"], v["start"])
        f = f0.get(key)
        if f is not None:
            me = (v["creator"],) + key
            stored = proofs(pre).get(me)
            challenge = stored["chunkToProve"] if stored else 0
            listed = any(pk(x) == me for x in f["proofs"])
            room = len(f["proofs"]) < f["maxProofs"]
            should = merkle_valid(v) and v["challenge"] == challenge and v["toProve"] == challenge and ((listed and stored is not None) or (not listed and room))
            if should and not rec.get("success"):
                out.append(V("C02", "honest-proof-rejected", f"a proof that verifies for the challenged chunk {challenge} was rejected"))
            if rec.get("success"):
                chunk = pre["params"]["chunkSize"]
                size = f["fileSize"]
                n = -(-size // chunk)
                nc = proofs(post).get(me, {}).get("chunkToProve", 0)
                if size >= 1 and not (0 <= nc < max(n, 1)):
                    out.append(V("C02", "challenge-out-of-range", f"next challenge {nc} for a file of {size} bytes in chunks of {chunk}"))
    if is_reward(rec):
        h = rec["h"]
        f0, f1 = files(pre), files(post)
        p0 = proofs(pre)
        prov0, prov1 = dict(pre["providers"]), dict(post["providers"])
        for key, f in f0.items():
            for x in f["proofs"]:
                x = pk(x)
                p = p0.get(x)
                if p is not None and passes(h, f, p):
                    still = key in f1 and any(pk(y) == x for y in f1[key]["proofs"])
                    if not still:
                        out.append(V("C02", "recent-prover-dropped", f"{x[0]} proved at {p['lastProven']} (file start {f['start']}, window {f['proofInterval']}) but was removed at reward block {h}"))
        # burn counters rise only for provers that missed
        for a, pr in prov0.items():
            if a in prov1 and pr["burned"] is not None and prov1[a]["burned"] is not None and prov1[a]["burned"] > pr["burned"]:
                missed = 0
                for key, f in f0.items():
                    for x in f["proofs"]:
                        x = pk(x)
                        if x[0] == a and x in p0 and not passes(h, f, p0[x]):
                            missed += 1
                if prov1[a]["burned"] - pr["burned"] > missed:
                    out.append(V("C02", "burned-without-missing", f"burn counter of {a} rose by {prov1[a]['burned'] - pr['burned']} but it missed {missed} proofs"))
    return out


# ---------------------------------------------------------------- C03

def c03(rec):
    if rec.get("mod") != "storage" or not is_reward(rec):
        return []
    out = []
    h = rec["h"]
    pre, post = rec["pre"], rec["post"]
    f0, f1 = files(pre), files(post)
    p0 = proofs(pre)
    prov0, prov1 = dict(pre["providers"]), dict(post["providers"])
    total = sum(f["fileSize"] * len(f["proofs"]) for f in f0.values())
    tracker = {}
    burns = {}
    for key, f in f0.items():
        dropped = len(f["proofs"]) == 0 and not (f["start"] + f["proofInterval"] >= h)
        keep = []
        for x in f["proofs"]:
            x = pk(x)
            p = p0.get(x)
            if passes(h, f, p):
                keep.append(x)
                name = p["prover"] if p else ""
                tracker[name] = tracker.get(name, 0) + f["fileSize"]
            elif p is not None:
                burns[x[0]] = burns.get(x[0], 0) + 1
        if dropped:
            if key in f1:
                out.append(V("C03", "old-empty-file-kept", f"file without provers past its first window still present after reward block {h}"))
            continue
        if key not in f1:
            out.append(V("C03", "file-lost-at-reward-block", f"a file with provers disappeared at reward block {h}"))
            continue
        got = [pk(y) for y in f1[key]["proofs"]]
        if got != keep:
            missing = [x[0] for x in keep if x not in got]
            extra = [x[0] for x in got if x not in keep]
            out.append(V("C03", "prover-list-wrong-after-reward-block", f"reward block {h}: provers that met their obligation but were removed {missing}; provers that missed it but were kept {extra}"))
    for a, n in burns.items():
        if a in prov0 and a in prov1 and prov0[a]["burned"] is not None:
            if prov1[a]["burned"] != prov0[a]["burned"] + n:
                out.append(V("C03", "burn-count-wrong", f"provider {a} missed {n} proofs, burn counter went {prov0[a]['burned']} -> {prov1[a]['burned']}"))
    for a in prov0:
        if a in prov1 and a not in burns and prov0[a]["burned"] != prov1[a]["burned"]:
            out.append(V("C03", "burn-count-wrong", f"provider {a} missed nothing but its burn counter changed"))
    # payouts
    b0, b1 = bank(pre), bank(post)
    gauge_accs = {g["account"] for _, g in pre["gauges"]}
    denoms = {d for (_, d) in list(b0) + list(b1)}
    for d in denoms:
        released = sum(bal(b0, a, d) - bal(b1, a, d) for a in gauge_accs)
        paid = 0
        acc = dict(pre.get("canon") or []).get
        for u in rec["users"]:
            gain = bal(b1, u, d) - bal(b0, u, d)
            # every spelling of this account that is counted is paid separately, to the one account
            ws = [x for name, x in tracker.items() if acc(name, name) == u]
            w = sum(ws)
            if u in gauge_accs:
                continue
            paid += gain
            if w == 0 and gain != 0:
                out.append(V("C03", "uncounted-account-paid", f"{u} was not counted at reward block {h} but its {d} balance moved by {gain}"))
            if w > 0 and total > 0 and released >= 0:
                exp = sum(x * released // total for x in ws)
                if abs(gain - exp) > len(ws):
                    out.append(V("C03", "share-off", f"reward block {h}: {u} counted for {w} of {total} received {gain}{d}, its share of the {released} released is {exp}"))
        if paid > released:
            out.append(V("C03", "paid-more-than-released", f"reward block {h}: {paid}{d} paid out, {released}{d} released from gauges"))
    return out



# ---------------------------------------------------------------- ghost of accepted proofs (C02, C03)

class AcceptedProofs:
    """Model-free memory of what the chain itself accepted: per (account, file) the height of the
    last PostProof answered Success=true (or of a completed attestation quorum).  At a reward block
    an account whose last accepted proof passes the window test must still be among the file's
    provers afterwards -- whatever the store's own proof records say (a prover listed under one key
    and recorded under another is exactly what this sees and the records do not)."""

    def __init__(self, prop):
        self.prop = prop
        self.hist = None
        self.last = {}

    def __call__(self, rec):
        if rec.get("mod") != "storage":
            return []
        if rec["hist"] != self.hist:
            self.hist, self.last = rec["hist"], {}
        out = []
        k, v = opk(rec)
        pre, post = rec["pre"], rec["post"]
        acc = dict(pre.get("canon") or []).get
        if k == "postProof" and rec.get("success"):
            key = (v["merkle"], v["owner"], v["start"])
            self.last[(acc(v["creator"], v["creator"]), key)] = rec["h"]
        if k == "attest":
            p0, p1 = proofs(pre), proofs(post)
            for key, p in p1.items():
                if key in p0 and p0[key]["lastProven"] != p["lastProven"]:
                    self.last[(acc(key[0], key[0]), key[1:])] = rec["h"]
        if k in ("deleteFile", "postFile", "report") or (k == "block"):
            # files that ceased to exist (deleted, replaced, dropped) and provers removed by a report
            f1 = files(post)
            for (a, key) in list(self.last):
                f = f1.get(key)
                if f is None:
                    if k != "block":
                        del self.last[(a, key)]
                elif k == "report" and not any(acc(pk(x)[0], pk(x)[0]) == a for x in f["proofs"]):
                    del self.last[(a, key)]
        if is_reward(rec):
            h = rec["h"]
            f0, f1 = files(pre), files(post)
            for (a, key), at in list(self.last.items()):
                f = f0.get(key)
                if f is None:
                    del self.last[(a, key)]
                    continue
                listed0 = any(acc(pk(x)[0], pk(x)[0]) == a for x in f["proofs"])
                if not listed0:
                    del self.last[(a, key)]
                    continue
                if passes(h, f, {"lastProven": at}):
                    still = key in f1 and any(acc(pk(x)[0], pk(x)[0]) == a for x in f1[key]["proofs"])
                    if not still:
                        out.append(V(self.prop, "accepted-prover-dropped",
                                     f"{a} had a proof accepted at {at} (file start {f['start']}, window {f['proofInterval']}) and was removed at reward block {h}"))
                        del self.last[(a, key)]
                else:
                    # it lapsed: the chain removes it (or keeps it through a record the ghost does not see)
                    if not (key in f1 and any(acc(pk(x)[0], pk(x)[0]) == a for x in f1[key]["proofs"])):
                        del self.last[(a, key)]
        return out


class C02:
    def __init__(self):
        self.ghost = AcceptedProofs("C02")

    def __call__(self, rec):
        return c02(rec) + self.ghost(rec)


class C03:
    def __init__(self):
        self.ghost = AcceptedProofs("C03")

    def __call__(self, rec):
        return c03(rec) + self.ghost(rec)

# ---------------------------------------------------------------- C04

def c04(rec):
    if rec.get("mod") == "wasm":
        # a file posted through the contract binding is a MsgPostFile in the contract's name: same accounting
        if not isinstance(rec.get("op"), dict) or "postFile" not in rec["op"]:
            return []
        if rec["ok"] and rec["op"]["postFile"]["creator"] != rec.get("contract"):
            return [V("C04", "contract-posted-for-another-account", f"a contract ({rec.get('contract')}) posted a file that {rec['op']['postFile']['creator']} pays for", op="postFile")]
    elif rec.get("mod") != "storage":
        return []
    k, v = opk(rec)
    if k == "setParams":
        return gov_params(rec, "C04", ["polRatio", "referralCommission", "pricePerTbPerMonth"])
    if k not in ("buyStorage", "postFile"):
        return []
    out = unchanged_if_failed(rec, "C04")
    if v.get("jklPriceExpected") is not None and v.get("jklPrice") != v.get("jklPriceExpected"):
        # "the price the chain computes": the JKL quote it prices with must be the one the price feed carries
        out.append(V("C04", "price-feed-misread", f"{k}: the chain prices with {v.get('jklPrice')}e-18 USD/JKL, the price feed says {v.get('jklPriceExpected')}e-18", op=k))
    if not rec["ok"]:
        return out
    pre, post = rec["pre"], rec["post"]
    b0, b1 = bank(pre), bank(post)
    payer = v["creator"]
    delta = {key: b1.get(key, 0) - b0.get(key, 0) for key in set(b0) | set(b1) if b1.get(key, 0) != b0.get(key, 0)}
    if sum(delta.values()) != 0:
        out.append(V("C04", "supply-changed", f"{k}: tracked balances changed by {sum(delta.values())} in total", op=k))
    debit = -delta.get((payer, "ujkl"), 0)
    g0, g1 = dict(pre["gauges"]), dict(post["gauges"])
    grew = 0
    gacc = None
    for gid, g in g1.items():
        old = dict((d, a) for d, a in g0[gid]["coins"]) if gid in g0 else {}
        new = dict((d, a) for d, a in g["coins"])
        inc = new.get("ujkl", 0) - old.get("ujkl", 0)
        if inc != 0 or gid not in g0:
            grew += inc
            gacc = g["account"]
    mod, pol, fee = pre["moduleAcc"], pre["polAcc"], pre["feeAcc"]
    allowed = {payer, mod, pol, fee}
    if gacc:
        allowed.add(gacc)
        if delta.get((gacc, "ujkl"), 0) != grew:
            out.append(V("C04", "gauge-funding-differs-from-record", f"{k}: gauge account received {delta.get((gacc, 'ujkl'), 0)}, gauge records {grew}", op=k))
    ref = v.get("referral") if k == "buyStorage" else None
    referred = ref is not None and ref != payer
    if referred:
        allowed.add(ref)
    for (a, d), x in delta.items():
        if a not in allowed:
            out.append(V("C04", "unrelated-account-changed", f"{k}: balance of {a} moved by {x}{d}", op=k))
        if d != "ujkl":
            out.append(V("C04", "other-denom-moved", f"{k}: {d} moved", op=k))
    if debit < 0:
        out.append(V("C04", "payer-credited", f"{k}: payer gained {-debit}", op=k))
    # exact price: recomputed here from the message, the parameters, the price feed and the
    # existing plan, independently of both the implementation and the Lean model
    want = None
    if k == "buyStorage" and isinstance(v.get("jklPrice"), int):
        want = expected_buy_price(pre, rec["now"], v, referred)
    elif k == "postFile" and v["expires"] > 0 and isinstance(v.get("jklPrice"), int):
        want = expected_post_price(pre, rec["h"], v)
    elif k == "postFile":
        want = 0
    if want is not None and payer != mod and debit != want:
        out.append(V("C04", "debit-differs-from-price", f"{k}: payer debited {debit}ujkl, the price is {want}ujkl", op=k))
    credits = sum(x for (a, d), x in delta.items() if a != payer and a != mod and x > 0)
    if credits > debit:
        out.append(V("C04", "credits-exceed-debit", f"{k}: {credits} credited, {debit} debited", op=k))
    if delta.get((mod, "ujkl"), 0) < 0:
        out.append(V("C04", "module-account-drained", f"{k}: storage module account lost {-delta[(mod, 'ujkl')]}", op=k))
    if k == "buyStorage" and debit > 0:
        p = pre["params"]
        refpct, polpct = p["referralCommission"], p["polRatio"]
        if refpct + polpct <= 100:
            long_ = v["durationDays"] * 86400 * 1000 > 365 * 24 * 3600 * 1000
            disc = (5 if long_ else 10) if referred else 0
            exp_ref = debit * refpct // 100
            exp_pol = debit * (polpct - disc) // 100
            got_pol = delta.get((pol, "ujkl"), 0)
            who = ref if referred else fee
            got_ref = delta.get((who, "ujkl"), 0)
            if who == pol:
                got_ref, got_pol = got_ref - exp_pol, exp_pol
            if abs(got_pol - exp_pol) > 1:
                out.append(V("C04", "pol-share-off", f"buyStorage: POL received {got_pol}, {polpct - disc}% of {debit} is {exp_pol}"))
            if abs(got_ref - exp_ref) > 1:
                out.append(V("C04", "referral-share-off", f"buyStorage: {'referrer' if referred else 'stakers pool'} received {got_ref}, {refpct}% of {debit} is {exp_ref}", referred=referred))
            if referred and delta.get((fee, "ujkl"), 0) != 0 and fee != ref:
                out.append(V("C04", "fee-pool-paid-despite-referrer", "buyStorage with a referrer also paid the stakers pool"))
            if not referred and ref is not None and ref != payer and delta.get((ref, "ujkl"), 0) != 0:
                out.append(V("C04", "referrer-paid-unexpectedly", "referrer paid"))
    return out



# ---- independent re-computation of the price formulas (exact sdk.Dec arithmetic, 18 decimals,
# banker's rounding in Mul/Quo, truncation in QuoInt64/TruncateInt) for the C04 "exact price" clause
PREC = 10 ** 18


def _tdiv(a, b):
    q = abs(a) // abs(b)
    return q if (a >= 0) == (b >= 0) else -q


def _chop_round(x):
    neg, x = x < 0, abs(x)
    q, r = divmod(x, PREC)
    if r * 2 > PREC or (r * 2 == PREC and q % 2 == 1):
        q += 1
    return -q if neg else q


def _mul(a, b):
    return _chop_round(a * b)


def _quo(a, b):
    return None if b == 0 else _chop_round(_tdiv(a * PREC * PREC, b))


def _trunc(a):
    return _tdiv(a, PREC)


def storage_cost(price_tb_month, gbs, hours, jkl):
    base = price_tb_month * PREC
    d12_5 = 12_500_000_000_000_000_000
    yearly = _mul(base, _tdiv(d12_5, 15))
    if hours < 365 * 24:
        final = yearly if gbs >= 20000 else (_mul(base, _tdiv(14 * PREC, 15)) if gbs >= 5000 else base)
    else:
        if gbs >= 20000:
            final = _mul(yearly, _quo(10_420_000_000_000_000_000, d12_5))
        elif gbs >= 5000:
            final = _mul(yearly, _quo(11_670_000_000_000_000_000, d12_5))
        else:
            final = yearly
    per = _tdiv(_tdiv(_tdiv(final, 3), 1000), 720)
    j = _quo(per * gbs * hours, jkl)
    return None if j is None else _trunc(j * 1_000_000)


def storage_cost_kbs(price_tb_month, kbs, hours, jkl):
    per = price_tb_month * PREC
    for dv in (3, 1000, 1000, 1000, 720):
        per = _tdiv(per, dv)
    j = _quo(per * kbs * hours, jkl)
    return None if j is None else _trunc(j * 1_000_000)


def expected_buy_price(pre, now, v, referred):
    """what MsgBuyStorage must debit: the full price of the new plan, minus the unused remainder of
    a still-running plan, minus the referral discount (10%, or 5% for plans above one year)"""
    GB, HOUR_MS = 10 ** 9, 3_600_000
    dur_ns = v["durationDays"] * 86_400_000_000_000
    if not (-2 ** 63 <= dur_ns < 2 ** 63):
        return None
    dur_ms = _tdiv(dur_ns, 10 ** 6)
    hours = _trunc(_quo(dur_ms * PREC, HOUR_MS * PREC))
    p = pre["params"]["pricePerTbPerMonth"]
    cost = storage_cost(p, _tdiv(v["bytes"], GB), hours, v["jklPrice"])
    if cost is None:
        return None
    pi = dict(pre["payinfo"]).get(v["forAddress"])
    if pi is not None and pi["endT"] > now:
        left = max(-2 ** 63, min(2 ** 63 - 1, pi["endT"] - now))
        left_hours = _trunc(_quo(_tdiv(left, 10 ** 6) * PREC, HOUR_MS * PREC))
        old = storage_cost(p, _tdiv(pi["spaceAvailable"], GB), left_hours, v["jklPrice"])
        if old is None:
            return None
        cost -= old
    if referred:
        long_ = dur_ms > 365 * 24 * HOUR_MS
        cost = _trunc(_mul(cost * PREC, 950_000_000_000_000_000 if long_ else 900_000_000_000_000_000))
    return cost


def expected_post_price(pre, h, v):
    total = v["fileSize"] * v["maxProofs"]
    kbs = max(1024, _tdiv(total, 1000)) if _tdiv(total, 1000) >= 1024 else 1024
    seconds = (v["expires"] - h) * 6
    hours = _tdiv(_tdiv(seconds, 60), 60)
    return storage_cost_kbs(pre["params"]["pricePerTbPerMonth"], kbs, hours, v["jklPrice"])


def gov_params(rec, prop, keys):
    """a governance parameter change (by key) must leave exactly the parameters governance asked for"""
    if rec.get("mod") != "storage" or not isinstance(rec.get("op"), dict) or "setParams" not in rec["op"] or not rec["ok"]:
        return []
    want, got = rec["op"]["setParams"], rec["post"]["params"]
    bad = [k for k in keys if want.get(k) != got.get(k)]
    if bad:
        return [V(prop, "governance-parameter-misapplied", f"governance set {', '.join(f'{k}={want[k]}' for k in bad)} by key; the module now reads {', '.join(f'{k}={got[k]}' for k in bad)}")]
    return []


# ---------------------------------------------------------------- C05 (panics are reported by bin/check itself)

def c05(rec):
    return []


# ---------------------------------------------------------------- C07

def c07(rec):
    # records of the contract route (mod "wasm") are MsgPostFile deliveries too: the same accounting must hold after them
    if rec.get("mod") not in ("storage", "wasm") or (rec.get("mod") == "wasm" and not isinstance(rec.get("op"), dict)):
        return []
    out = unchanged_if_failed(rec, "C07") if opk(rec)[0] == "postFile" else []
    k, v = opk(rec)
    post = rec["post"]
    used = {}
    for key, f in files(post).items():
        if f["expires"] <= 0:
            used[f["owner"]] = used.get(f["owner"], 0) + f["fileSize"] * f["maxProofs"]
    for a, pi in post["payinfo"]:
        u = used.get(a, 0)
        if pi["spaceUsed"] != u:
            out.append(V("C07", "space-used-differs-from-files", f"after {k}: plan of {a} reports {pi['spaceUsed']} used, its live plan-paid files occupy {u}", op=k))
        if pi["spaceUsed"] < 0:
            out.append(V("C07", "space-used-negative", f"after {k}: plan of {a} reports {pi['spaceUsed']} used", op=k))
        if pi["spaceUsed"] > pi["spaceAvailable"]:
            out.append(V("C07", "space-used-above-purchased", f"after {k}: plan of {a} uses {pi['spaceUsed']} of {pi['spaceAvailable']}", op=k))
    for a, u in used.items():
        if a not in dict(post["payinfo"]) and u != 0:
            out.append(V("C07", "plan-paid-file-without-plan", f"after {k}: {a} holds plan-paid files but has no plan", op=k))
    return out


# ---------------------------------------------------------------- C12

class C12:
    """deposits are observed, not read from the record: every increase of a gauge account's balance
    during a message is a deposit into that gauge"""
    def __init__(self):
        self.hist = None
        self.dep = {}    # (account, denom) -> deposited so far
        self.last = {}   # (account, denom) -> last cumulative release

    def __call__(self, rec):
        if rec.get("mod") != "storage":
            return []
        fresh = rec["hist"] != self.hist
        if fresh:
            self.hist, self.dep, self.last = rec["hist"], {}, {}
        out = []
        pre, post = rec["pre"], rec["post"]
        if fresh:
            # gauges the chain started with (seeded through genesis): their deposits were not observed — what the
            # record says was deposited is taken as such
            for _, g in pre["gauges"]:
                for d, a in g["coins"]:
                    self.dep[(g["account"], d)] = self.dep.get((g["account"], d), 0) + a
        b0, b1 = bank(pre), bank(post)
        g0, g1 = dict(pre["gauges"]), dict(post["gauges"])
        accs = {g["account"]: g for g in list(g0.values()) + list(g1.values())}
        if rec["op"] != "block":
            for gid in set(g0) & set(g1):
                if (g0[gid]["startT"], g0[gid]["endT"]) != (g1[gid]["startT"], g1[gid]["endT"]):
                    out.append(V("C12", "gauge-interval-changed", f"a message moved gauge {gid[:8]} from [{g0[gid]['startT']},{g0[gid]['endT']}] to [{g1[gid]['startT']},{g1[gid]['endT']}]: what was deposited before is no longer streamed over its own duration"))
            for acc in accs:
                for (a, d) in set(b0) | set(b1):
                    if a != acc:
                        continue
                    x = bal(b1, a, d) - bal(b0, a, d)
                    if x > 0:
                        self.dep[(a, d)] = self.dep.get((a, d), 0) + x
                    elif x < 0:
                        out.append(V("C12", "released-outside-reward-block", f"gauge account {a[:12]} lost {-x}{d} during a message"))
            return out
        now = rec["now"]
        reward = is_reward(rec)
        for gid, g in g0.items():
            acc = g["account"]
            long_ = g["endT"] - g["startT"] >= 2 ** 63
            for d in {dd for dd, _ in g["coins"]} | {dd for (a, dd) in b0 if a == acc}:
                A = self.dep.get((acc, d), 0)
                before, after = bal(b0, acc, d), bal(b1, acc, d)
                rel = before - after
                if rel < 0:
                    continue
                if not reward and rel != 0:
                    out.append(V("C12", "released-outside-reward-block", f"gauge {gid[:8]} released {rel} at height {rec['h']} which is not a reward block"))
                    continue
                if rel != 0 and not (g["startT"] <= now <= g["endT"]):
                    out.append(V("C12", "released-outside-interval", f"gauge {gid[:8]} released {rel}{d} at a time outside its start-end interval"))
                cum = A - after
                if cum > A or after < 0:
                    out.append(V("C12", "released-more-than-deposit", f"gauge {gid[:8]}: {cum}{d} released in total, {A}{d} deposited"))
                if reward and g["startT"] <= now <= g["endT"] and g["endT"] > g["startT"] and before > 0:
                    tot = (g["endT"] - g["startT"]) // 1000
                    el = tot - (g["endT"] - now) // 1000
                    if tot > 0:
                        exp = el * A // tot
                        if abs(cum - exp) > 1:
                            out.append(V("C12", "not-linear", f"gauge {gid[:8]}: cumulative release {cum}{d} of {A}{d} deposited at elapsed {el}/{tot} us; the linear schedule gives {exp}", long=long_))
                last = self.last.get((acc, d))
                if last is not None and cum < last:
                    out.append(V("C12", "cumulative-decreased", f"gauge {gid[:8]}: cumulative release fell from {last} to {cum}"))
                self.last[(acc, d)] = cum
        return out


# ---------------------------------------------------------------- C14

def c14(rec):
    if rec.get("mod") != "storage":
        return []
    k, v = opk(rec)
    if k == "setParams":
        # the quorum is "the configured minimum": what governance set by key must be what the module reads
        return gov_params(rec, "C14", ["attestMinToPass", "attestFormSize"])
    out = []
    pre, post = rec["pre"], rec["post"]
    if k in ("attest", "report"):
        forms0 = {pk(kk): f for kk, f in pre["attests" if k == "attest" else "reports"]}
        forms1 = {pk(kk): f for kk, f in post["attests" if k == "attest" else "reports"]}
        key = (v["prover"], v["merkle"], v["owner"], v["start"])
        form = forms0.get(key)
        p0, p1 = proofs(pre), proofs(post)
        f0, f1 = files(pre), files(post)
        fkey = key[1:]
        refreshed = key in p0 and key in p1 and p0[key]["lastProven"] != p1[key]["lastProven"]
        removed = fkey in f0 and fkey in f1 and any(pk(x) == key for x in f0[fkey]["proofs"]) and not any(pk(x) == key for x in f1[fkey]["proofs"])
        effect = refreshed if k == "attest" else removed
        named = form is not None and any(a == v["creator"] for a, _ in form["attestations"])
        if form is None or not named:
            if pre != post:
                out.append(V("C14", "foreign-signature-had-effect", f"{k} by {v['creator']} who is not named on the form (or no form exists) changed the state", op=k))
            return out
        names = [a for a, _ in form["attestations"]]
        if len(set(names)) != len(names):
            out.append(V("C14", "form-names-duplicate", "form names a provider twice"))
        done = {a for a, c in form["attestations"] if c} | {v["creator"]}
        minp = pre["params"]["attestMinToPass"]
        if effect and len(done) < minp:
            out.append(V("C14", "effect-without-quorum", f"{k}: effect after {len(done)} distinct signatures, minimum is {minp}", op=k))
        if key not in forms1 and len(done) < minp:
            # a form is consumed by the quorum and by nothing else (a consumed form can no longer be
            # signed: consuming it early cuts the prover's attestation / the reporters' case short)
            out.append(V("C14", "form-consumed-without-quorum", f"{k}: the form was consumed after {len(done)} distinct signatures, minimum is {minp}", op=k))
        if key in forms1:
            for (a, c0), (a1, c1) in zip(form["attestations"], forms1[key]["attestations"]):
                if a != a1 or (c1 and not c0 and a != v["creator"]) or (c0 and not c1):
                    out.append(V("C14", "foreign-entry-flipped", f"{k}: entry of {a} changed although {v['creator']} signed", op=k))
        # nothing but this form / this proof / this file may change
        other_p = {x for x in set(p0) | set(p1) if x != key and p0.get(x) != p1.get(x)}
        if other_p:
            out.append(V("C14", "other-proof-touched", f"{k}: proof records of others changed", op=k))
    if k in ("requestAttest", "requestReport") and rec.get("success"):
        forms1 = {pk(kk): f for kk, f in post["attests" if k == "requestAttest" else "reports"]}
        prover = v["creator"] if k == "requestAttest" else v["prover"]
        key = (prover, v["merkle"], v["owner"], v["start"])
        form = forms1.get(key)
        if form is None:
            out.append(V("C14", "form-missing-after-success", "request succeeded but no form"))
            return out
        names = [a for a, _ in form["attestations"]]
        provs = dict(pre["providers"])
        have_proof = {x[0] for x in proofs(pre)}
        if len(names) != pre["params"]["attestFormSize"] or len(set(names)) != len(names):
            out.append(V("C14", "form-size-or-duplicates", f"form names {len(names)} providers ({len(set(names))} distinct), size parameter {pre['params']['attestFormSize']}"))
        for a in names:
            if a == prover:
                out.append(V("C14", "form-names-its-prover", f"form for prover {prover} names the prover itself"))
            if a not in provs:
                out.append(V("C14", "form-names-unregistered", f"form names {a} which is not a registered provider"))
            if a not in have_proof:
                out.append(V("C14", "form-names-inactive", f"form names {a} which holds no proofs"))
        if any(c for _, c in form["attestations"]):
            out.append(V("C14", "form-born-complete", "new form has completed entries"))
    return out


# ---------------------------------------------------------------- C15

def c15(rec):
    if rec.get("mod") != "storage":
        return []
    out = gov_params(rec, "C15", ["collateralPrice"])
    k, v = opk(rec)
    pre, post = rec["pre"], rec["post"]
    b0, b1 = bank(pre), bank(post)
    esc = post["collateralAcc"]
    total = sum(a for _, a in post["collateral"])
    if bal(b1, esc) != total:
        out.append(V("C15", "escrow-differs-from-records", f"after {k}: collateral escrow holds {bal(b1, esc)}, records sum to {total}", op=k))
    # records are keyed by the signer string as sent, tokens move to/from the account it denotes
    acc = dict(pre.get("canon") or []).get
    if k == "initProvider" and rec["ok"]:
        c = v["creator"]
        a = acc(c, c)
        price = pre["params"]["collateralPrice"]
        if bal(b0, a) - bal(b1, a) != price or dict(post["collateral"]).get(c) != price:
            out.append(V("C15", "init-did-not-lock-price", f"initProvider debited {bal(b0, a) - bal(b1, a)}, recorded {dict(post['collateral']).get(c)}, price {price}"))
    if k == "shutdownProvider" and rec["ok"]:
        c = v["creator"]
        a = acc(c, c)
        rec_amt = dict(pre["collateral"]).get(c)
        if bal(b1, a) - bal(b0, a) != (rec_amt or 0):
            out.append(V("C15", "shutdown-returned-other-amount", f"shutdown of {c} returned {bal(b1, a) - bal(b0, a)}, recorded for it {rec_amt}"))
        if c in dict(post["collateral"]) or c in dict(post["providers"]):
            out.append(V("C15", "shutdown-left-record", "record or provider still present after shutdown"))
        for other, amt in pre["collateral"]:
            if other != c and dict(post["collateral"]).get(other) != amt:
                out.append(V("C15", "shutdown-touched-other-record", f"shutdown of {c} changed the collateral record of {other}"))
    if k not in ("initProvider", "shutdownProvider", "block"):
        if pre["collateral"] != post["collateral"] or bal(b0, esc) != bal(b1, esc):
            out.append(V("C15", "collateral-touched-by-other-message", f"{k} changed collateral records or escrow", op=k))
    for (a, d), x in b1.items():
        if a != esc and k == "shutdownProvider" and rec["ok"] and a != acc(v["creator"], v["creator"]) and b0.get((a, d), 0) != x:
            out.append(V("C15", "foreign-claim", f"shutdown by {v['creator']} changed the balance of {a}"))
    return out + (unchanged_if_failed(rec, "C15") if k in ("initProvider", "shutdownProvider") else [])


# ---------------------------------------------------------------- C17

def c17(rec):
    if rec.get("mod") != "storage":
        return []
    out = []
    k, _ = opk(rec)
    post = rec["post"]
    if rec.get("badKeys"):
        out.append(V("C17", "malformed-store-key", f"after {k}: {rec['badKeys'][:2]}", op=k))
    a, b = files(post, "files"), files(post, "files2")
    if a != b:
        only = [x for x in set(a) | set(b) if a.get(x) != b.get(x)]
        out.append(V("C17", "indexes-differ", f"after {k}: by-content and by-owner listings differ on {len(only)} files", op=k))
    p = proofs(post)
    for key, f in a.items():
        lst = [pk(x) for x in f["proofs"]]
        if len(set(lst)) != len(lst):
            out.append(V("C17", "duplicate-prover", f"after {k}: a file lists a prover twice", op=k))
        if len(lst) > f["maxProofs"]:
            out.append(V("C17", "above-replication-limit", f"after {k}: {len(lst)} provers, limit {f['maxProofs']}", op=k))
        for x in lst:
            r = p.get(x)
            if x[1:] != key or r is None or (r["prover"], r["merkle"], r["owner"], r["start"]) != x:
                out.append(V("C17", "listed-prover-without-record", f"after {k}: listed prover {x[0]} has no proof record referring back to the file", op=k))
    return out
