"""Model-free oracle of C11 over the msgs profile records."""


def c11(rec):
    out = []
    m = rec.get("mod")
    if m == "msgtable":
        url = rec.get("url")
        if rec.get("error"):
            return [{"sig": {"prop": "C11", "kind": "message-not-instantiable", "url": url}, "what": f"{url}: {rec['error']}"}]
        if rec["nSigners"] != 1 or rec["signerFields"] != ["Creator"]:
            out.append({"sig": {"prop": "C11", "kind": "signers-not-creator", "url": url},
                        "what": f"{url}: GetSigners returns {rec['nSigners']} signer(s) taken from field(s) {rec['signerFields']} (with every address field set to a distinct address); expected exactly the Creator"})
        if not rec["routable"]:
            out.append({"sig": {"prop": "C11", "kind": "not-routable", "url": url}, "what": f"{url}: no handler registered in the message service router"})
        a, b = rec.get("signedByCreator"), rec.get("signedByOther")
        if a and a.get("sigError"):
            out.append({"sig": {"prop": "C11", "kind": "creator-signature-rejected", "url": url}, "what": f"{url}: a transaction signed by the creator's key failed signature verification"})
        if b and not b.get("sigError"):
            out.append({"sig": {"prop": "C11", "kind": "foreign-signature-accepted", "url": url}, "what": f"{url}: a transaction signed by another account's key passed signature verification (code {b.get('code')})"})
    elif m == "oracle":
        (k, v), = (rec["op"].items() if isinstance(rec["op"], dict) else [(rec["op"], {})])
        pre = dict(rec["pre"]["feeds"])
        post = dict(rec["post"]["feeds"])
        if not rec["ok"] and rec["pre"] != rec["post"]:
            out.append({"sig": {"prop": "C11", "kind": "failed-message-changed-state", "op": k}, "what": f"failed {k} changed state"})
        for name in set(pre) | set(post):
            if pre.get(name) != post.get(name):
                if name != v["name"]:
                    out.append({"sig": {"prop": "C11", "kind": "other-feed-touched", "op": k}, "what": f"{k} on {v['name']!r} changed feed {name!r}"})
                elif name in pre and pre[name]["owner"] != v["creator"]:
                    out.append({"sig": {"prop": "C11", "kind": "feed-changed-by-non-owner", "op": k}, "what": f"{k} by {v['creator']} changed feed {name!r} owned by {pre[name]['owner']}"})
                elif name in pre and name in post and post[name]["owner"] != pre[name]["owner"]:
                    out.append({"sig": {"prop": "C11", "kind": "feed-owner-changed", "op": k}, "what": f"feed {name!r} changed owner"})
    elif m == "wasm":
        creator = rec["op"]["postFile"]["creator"]
        if rec["ok"] and creator != rec["contract"]:
            out.append({"sig": {"prop": "C11", "kind": "contract-posted-in-foreign-name"}, "what": f"contract {rec['contract']} posted a storage file as {creator}"})
        if not rec["ok"] and rec["pre"] != rec["post"]:
            out.append({"sig": {"prop": "C11", "kind": "failed-message-changed-state", "op": "wasmPostFile"}, "what": "failed contract post changed state"})
    elif m == "storage" and rec["op"] != "block":
        (k, v), = (rec["op"].items() if isinstance(rec["op"], dict) else [(rec["op"], {})])
        if k in ("initProvider", "shutdownProvider", "setProviderIP", "setProviderKeybase", "setProviderTotalSpace", "addClaimer", "removeClaimer"):
            p0, p1 = dict(rec["pre"]["providers"]), dict(rec["post"]["providers"])
            for a in set(p0) | set(p1):
                if a != v["creator"] and p0.get(a) != p1.get(a):
                    out.append({"sig": {"prop": "C11", "kind": "foreign-provider-record-touched", "op": k}, "what": f"{k} by {v['creator']} changed the provider record of {a}"})
        if k == "deleteFile":
            f0 = {tuple([x[0], x[1][0], x[1][1]]): f for x, f in rec["pre"]["files"]}
            f1 = {tuple([x[0], x[1][0], x[1][1]]): f for x, f in rec["post"]["files"]}
            for key in f0:
                if key not in f1 and key[1] != v["creator"]:
                    out.append({"sig": {"prop": "C11", "kind": "foreign-file-deleted"}, "what": f"deleteFile by {v['creator']} removed a file owned by {key[1]}"})
    elif m == "rns":
        # a primary-name record is a resource of its account: only that account's own message moves it
        (k, v), = (rec["op"].items() if isinstance(rec["op"], dict) else [(rec["op"], {})])
        canon = dict(rec["pre"].get("canon") or [])
        p0, p1 = dict(rec["pre"]["primary"]), dict(rec["post"]["primary"])
        signer = v["creator"]
        for a in set(p0) | set(p1):
            if p0.get(a) != p1.get(a) and canon.get(a, a) != canon.get(signer, signer):
                out.append({"sig": {"prop": "C11", "kind": "foreign-primary-name-touched", "op": k},
                            "what": f"{k} signed by {signer} changed the primary name of {a}: {p0.get(a)} -> {p1.get(a)}"})
    elif m == "notif":
        (k, v), = (rec["op"].items() if isinstance(rec["op"], dict) else [(rec["op"], {})])
        if k == "delete":
            import json as _j
            signer = v["creator"].lower()
            s0 = {_j.dumps(x): (x, y) for x, y in rec["pre"]["store"]}
            s1 = {_j.dumps(x): (x, y) for x, y in rec["post"]["store"]}
            for kk in set(s0) | set(s1):
                a, b = s0.get(kk), s1.get(kk)
                key = (a or b)[0]
                own = key[0].get("s", {}).get("v", "") if key and isinstance(key[0], dict) else ""
                if (a and a[1]) != (b and b[1]) and own.lower() != signer:
                    out.append({"sig": {"prop": "C11", "kind": "foreign-inbox-touched"}, "what": f"deleteNotification signed by {v['creator']} changed an entry outside its own inbox: {kk[:120]}"})
        if k == "block":
            import json as _j
            signer = v["creator"]

            def owner(key):
                return key[0].get("s", {}).get("v", "") if key and isinstance(key[0], dict) else ""
            s0 = {_j.dumps(x): (x, y) for x, y in rec["pre"]["store"]}
            s1 = {_j.dumps(x): (x, y) for x, y in rec["post"]["store"]}
            for kk in set(s0) | set(s1):
                a, b = s0.get(kk), s1.get(kk)
                if (a and a[1]) != (b and b[1]) and owner((a or b)[0]) != signer:
                    out.append({"sig": {"prop": "C11", "kind": "foreign-block-list-touched"}, "what": f"blockSenders by {signer} changed an entry outside its own list: {kk[:90]}"})
    return out
