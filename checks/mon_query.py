"""Model-free oracle over query records: what the gRPC query server answered, checked directly
against the raw state the record carries (Python, no model).  Covers the answers whose meaning is
plain — single-record reads and unpaged / fully covering listings; the paging arithmetic itself is
the Lean model's business (Canine/Query/Page.lean) and is compared by the driver."""


def fk(k):
    return (k[0], k[1][0], k[1][1])


def full(page, n):
    """does this page request cover a listing of n entries completely, in forward order?"""
    if page is None:
        return n <= 100
    if page.get("key") is not None or page.get("offset", 0) != 0 or page.get("reverse"):
        return False
    lim = page.get("limit", 0)
    return n <= (100 if lim == 0 else lim)


def V(kind, what, op):
    return {"sig": {"kind": kind, "query": op}, "what": what}


def check(rec):
    out = []
    sub = rec.get("sub")
    (k, v), = rec["q"].items()
    op = f"{sub}.{k}"
    st = rec["state"]
    resp = rec["resp"]
    if isinstance(resp, dict) and "malformed" in resp:
        return [V("malformed-record-in-answer", f"{op}: {resp['malformed']}", op)]
    err = resp == "err"
    body = None if err else list(resp.values())[0]
    if sub == "storage":
        files = {fk(x): f for x, f in st["files"]}
        files2 = {fk(x): f for x, f in st["files2"]}
        if k == "file":
            want = files.get((v["merkle"], v["owner"], v["start"]))
            if (want is None) != err or (want is not None and body["f"] != want):
                out.append(V("file-query-wrong", f"File({v['merkle'][:8]}…, {v['owner']}, {v['start']}) answered {'not found' if err else 'a file'}, the by-content index holds {'nothing' if want is None else 'the file'}" + ("" if err or want is None else " with other contents"), op))
        if k in ("allFiles", "allFilesByOwner", "allFilesByMerkle") and not err:
            if k == "allFiles":
                want = list(files.values())
            elif k == "allFilesByOwner":
                want = [f for kk, f in files2.items() if kk[1].startswith(v["owner"])]
            else:
                want = [f for kk, f in files.items() if kk[0].startswith(v["merkle"])]
            got = body["items"]
            for g in got:
                if g not in want:
                    out.append(V("listing-has-foreign-entry", f"{op} lists a file that the index does not hold under that route", op))
                    break
            if full(v.get("page"), len(want)) and sorted(map(str, got)) != sorted(map(str, want)):
                out.append(V("listing-incomplete", f"{op} (one page covering everything) lists {len(got)} files, the index holds {len(want)} under that route", op))
        if k == "storeCount" and not err:
            want = sum(1 for pk, _ in st["proofs"] if pk[0].startswith(v["address"]))
            if body["v"] != want:
                out.append(V("store-count-wrong", f"StoreCount({v['address']}) answers {body['v']}, the proof store holds {want} records under that prover prefix", op))
        if k == "networkSize" and not err:
            want = sum((f["fileSize"] * f["maxProofs"]) % (1 << 64) for f in files.values()) % (1 << 64)
            if body["v"] != want:
                out.append(V("network-size-wrong", f"NetworkSize answers {body['v']}, the files held add up to {want}", op))
        if k == "activeProviders" and not err:
            provs = [p["address"] for _, p in st["providers"]]
            want = sorted(a for a in provs if any(pk[0].startswith(a) for pk, _ in st["proofs"]))
            if sorted(body["l"]) != want:
                out.append(V("active-providers-wrong", f"ActiveProviders lists {len(body['l'])} providers, {len(want)} registered providers hold proof records", op))
        if k == "payInfo":
            want = dict(st["payinfo"]).get(v["address"])
            if (want is None) != err or (want is not None and body["p"] != want):
                out.append(V("payinfo-query-wrong", f"StoragePaymentInfo({v['address']}) does not return the stored plan record", op))
        if k == "clientFreeSpace" and not err:
            want = dict(st["payinfo"]).get(v["address"])
            exp = 0 if want is None else want["spaceAvailable"] - want["spaceUsed"]
            if -2**63 <= exp < 2**63 and body["v"] != exp:
                out.append(V("free-space-wrong", f"GetClientFreeSpace({v['address']}) reports {body['v']}, the plan has {exp} free", op))
        if k == "proof":
            proofs = {(x[0],) + fk(x[1]): p for x, p in st["proofs"]}
            want = proofs.get((v["prover"], v["merkle"], v["owner"], v["start"]))
            if (want is None) != err or (want is not None and body["p"] != want):
                out.append(V("proof-query-wrong", f"Proof({v['prover']}, …) does not return the stored proof record", op))
    elif sub == "rns":
        if k == "bid":
            want = dict(st["bids"]).get(v["index"])
            if (want is None) != err or (want is not None and body["b"] != want):
                out.append(V("bid-query-wrong", f"Bid({v['index']}) does not return the stored bid", op))
        if k == "allBids" and not err:
            want = [b for _, b in st["bids"]]
            if any(g not in want for g in body["items"]) or (full(v.get("page"), len(want)) and len(body["items"]) != len(want)):
                out.append(V("bids-listing-wrong", f"AllBids lists {len(body['items'])} bids, {len(want)} are open", op))
        if k == "forSale":
            want = dict(st["forsale"]).get(v["name"])
            if (want is None) != err or (want is not None and body["l"] != want):
                out.append(V("forsale-query-wrong", f"ForSale({v['name']}) does not return the stored listing", op))
        if k == "name" and not err:
            names = dict(st["names"])
            ln = v["lname"]
            # a plain "label.tld": the record under that key must be what is returned
            if ln.count(".") == 1 and ln in names and body["n"] != names[ln]:
                out.append(V("name-query-wrong", f"Name({v['name']}) returns a record other than the stored one (owner {body['n'].get('value')} / stored {names[ln].get('value')})", op))
        if k == "resolve":
            names = dict(st["names"])
            canon = dict(st.get("canon") or [])
            raw, ln = v["name"], v["lname"]
            if raw in canon:
                want = canon[raw]
            elif len(raw) > 4 and raw[-3:] in ("ibc", "jkl") and (ln[:-4] + "." + ln[-3:]) in names:
                want = canon.get(names[ln[:-4] + "." + ln[-3:]]["value"])
            else:
                want = None
            got = None if err else body["a"]
            if want != got:
                out.append(V("resolve-wrong", f"Resolve({raw!r}) answers {got}, the name record registered under exactly that name says {want}", op))
    elif sub == "notif":
        if k == "byAddress" and not err and v.get("page") is None:
            to = v["to"]
            want = []
            for key, e in st["store"]:
                if "notif" in e and len(key) >= 3 and key[0].get("s", {}).get("v") == to:
                    n = e["notif"]["n"]
                    want.append((n["to"], n["sender"], n["time"], n["contents"], n["priv"]))
            got = [(n["to"], n["sender"], n["time"], n["contents"], n["priv"]) for n in body["items"]]
            if len(want) <= 100 and sorted(got) != sorted(want):
                out.append(V("inbox-query-wrong", f"AllNotificationsByAddress({to}) lists {len(got)} entries, the inbox holds {len(want)}", op))
    return out
