"""Model-free oracle of C19 over genesis round-trip records: every record kind present before the
export must be present, unchanged, after the import; the second export must equal the first."""


# record kinds no getter or query ever reads: storage's legacy ActiveProviders index is written by
# InitGenesis only (from a list ExportGenesis recomputes out of providers and proof records) and
# read by nothing, so what it holds is not state "readable through the modules' queries"
DERIVED = {("storage", "ActiveProviders")}


def c19(rec):
    if rec.get("mod") != "genesis":
        return []
    out = []
    m = rec.get("module")
    if rec.get("initPanic"):
        return [{"sig": {"prop": "C19", "kind": "import-panicked"}, "what": f"InitGenesis from the exported genesis panicked: {rec['initPanic']}"}]
    if rec.get("validateErr"):
        out.append({"sig": {"prop": "C19", "kind": "export-fails-validation", "module": m}, "what": f"{m}: exported genesis fails ValidateGenesis: {rec['validateErr']}"})
    for kind, e in rec.get("kinds", []):
        if (m, kind) in DERIVED:
            continue
        if e["lost"] or e["changed"]:
            out.append({"sig": {"prop": "C19", "kind": "record-kind-lost", "module": m, "record": kind},
                        "what": f"{m}: {e['lost']} of {e['before']} {kind} records are missing and {e['changed']} differ after export -> import (e.g. {(e.get('lostSample') or e.get('changedSample') or ['?'])[0]!r})"})
        if e["extra"]:
            out.append({"sig": {"prop": "C19", "kind": "record-appeared", "module": m, "record": kind},
                        "what": f"{m}: {e['extra']} {kind} records exist after the import that were not there before"})
    if not rec.get("reexportEqual", True):
        for f in rec.get("reexportDiff", ["?"]):
            out.append({"sig": {"prop": "C19", "kind": "reexport-differs", "module": m, "field": f},
                        "what": f"{m}: exporting the re-imported state gives a different {f}"})
    return out
