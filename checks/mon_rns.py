"""Model-free oracles of the name-service properties (C08, C09, C16) over step records of the
real app.  Each returns a list of violations: dicts with a structured `sig` (for known-findings
matching) and a human-readable `what`."""

YEAR = 5484530
TLD_COST = {"ibc": 50_000_000, "jkl": 10_000_000}
TIER = {1: 24, 2: 12, 3: 6, 4: 3}


def d(pairs):
    return {k if isinstance(k, str) else tuple(k): v for k, v in pairs}


def bal(bank, a, den="ujkl"):
    return bank.get((a, den), 0)


def name_and_tld(s):
    if len(s) <= 4:
        return None
    for t in ("ibc", "jkl"):
        if s.endswith(t):
            return s[:-4], t
    return None


def canon_of(st):
    """the chain's own canonicalisation of every address string in play (recorded by the harness:
    sdk.AccAddressFromBech32(x).String()); the properties speak about accounts, not spellings"""
    tab = d(st.get("canon") or [])
    return lambda x: tab.get(x, x)


def opk(rec):
    (k, v), = (rec["op"].items() if isinstance(rec["op"], dict) else [(rec["op"], {})])
    return k, v


def unchanged_if_failed(rec, prop):
    if not rec["ok"] and rec["pre"] != rec["post"]:
        k, v = opk(rec)
        return [{"sig": {"prop": prop, "kind": "failed-message-changed-state", "op": k},
                 "what": f"failed {k} changed state"}]
    return []


def c09(rec):
    out = []
    for side in ("post",):
        st = rec[side]
        bank = d(st["bank"])
        mod = st["moduleAcc"]
        sums = {}
        for _, b in st["bids"]:
            for den, amt in (b["price"] or []):
                sums[den] = sums.get(den, 0) + amt
        denoms = set(sums) | {den for (a, den) in bank if a == mod}
        for den in denoms:
            if bal(bank, mod, den) != sums.get(den, 0):
                k, v = opk(rec)
                out.append({"sig": {"prop": "C09", "kind": "escrow-mismatch", "op": k},
                            "what": f"after {k}: rns module holds {bal(bank, mod, den)}{den}, open bids sum to {sums.get(den, 0)}{den}"})
    k, v = opk(rec)
    if rec["ok"] and k in ("cancelBid", "acceptBid"):
        pre, post = rec["pre"], rec["post"]
        acc = canon_of(pre)
        signer = acc(v["creator"])
        bidder = signer if k == "cancelBid" else acc(v["bidder"])
        bids = d(pre["bids"])
        # the open bid of that account on that name, whatever spelling the message used
        hit = [ix for ix, b in bids.items() if acc(b["bidder"]) == bidder and b["name"] == v["lname"]]
        if not hit:
            out.append({"sig": {"prop": "C09", "kind": "no-such-bid", "op": k}, "what": f"{k} succeeded without an open bid of {bidder} on {v['lname']}"})
        for idx in hit:
            b0, b1 = d(pre["bank"]), d(post["bank"])
            for den, amt in (bids[idx]["price"] or []):
                if bal(b1, signer, den) - bal(b0, signer, den) != amt:
                    out.append({"sig": {"prop": "C09", "kind": "payout-not-exact", "op": k},
                                "what": f"{k}: signer received {bal(b1, signer, den) - bal(b0, signer, den)}{den}, bid held {amt}{den}"})
            if idx in d(post["bids"]):
                out.append({"sig": {"prop": "C09", "kind": "bid-not-removed", "op": k}, "what": f"{k}: bid still present"})
    return out + unchanged_if_failed(rec, "C09")


def c08(rec):
    out = []
    k, v = opk(rec)
    pre, post = rec["pre"], rec["post"]
    h = rec["h"]
    n0, n1 = d(pre["names"]), d(post["names"])
    acc = canon_of(pre)
    creator = v["creator"]
    # a sale listing is its creator's: it comes into being by a List message of the account it names,
    # and no message rewrites whose listing it is
    s0, s1 = d(pre["forsale"]), d(post["forsale"])
    for key, l1 in s1.items():
        l0 = s0.get(key)
        if l0 is None:
            if not (k == "list" and acc(l1["owner"]) == acc(creator)):
                out.append({"sig": {"prop": "C08", "kind": "listing-not-created-by-its-owner", "op": k},
                            "what": f"{k} signed by {creator} created a sale listing of {key} in the name of {l1['owner']}"})
        elif acc(l0["owner"]) != acc(l1["owner"]) and not (k == "list" and acc(l1["owner"]) == acc(creator)):
            out.append({"sig": {"prop": "C08", "kind": "listing-owner-rewritten", "op": k},
                        "what": f"{k} signed by {creator} turned the sale listing of {key} made by {l0['owner']} into a listing of {l1['owner']}, who never listed the name"})
    for key, w in n0.items():
        if h > w["expires"]:
            continue  # not live
        w1 = n1.get(key)
        if w1 is None:
            out.append({"sig": {"prop": "C08", "kind": "live-name-deleted", "op": k}, "what": f"{k} removed live name {key}"})
            continue
        if w1 == w:
            continue
        owner = w["value"]
        if acc(creator) == acc(owner):
            if acc(w1["value"]) != acc(owner) and k not in ("transfer", "acceptBid"):
                out.append({"sig": {"prop": "C08", "kind": "owner-moved-by-unexpected-op", "op": k},
                            "what": f"{k} by the owner changed the owner of {key}"})
            continue
        # signer is not the owner: only a purchase through the owner's listing may touch the record
        ok_buy = False
        if k == "buy":
            sale = d(pre["forsale"]).get(v["lname"])
            nt = name_and_tld(v["lname"])
            if sale and nt and nt[0] + "." + nt[1] == key and sale["owner"] == owner:
                ok_buy = True
                price = sale["price"]
                b0, b1 = d(pre["bank"]), d(post["bank"])
                if price and price[1] > 0:
                    den, amt = price
                    if bal(b1, acc(owner), den) - bal(b0, acc(owner), den) != amt:
                        out.append({"sig": {"prop": "C08", "kind": "seller-not-paid", "op": k},
                                    "what": f"buy of {key}: previous owner received {bal(b1, acc(owner), den) - bal(b0, acc(owner), den)}{den}, price {amt}{den}"})
                    if bal(b0, acc(creator), den) - bal(b1, acc(creator), den) != amt:
                        out.append({"sig": {"prop": "C08", "kind": "buyer-not-debited", "op": k},
                                    "what": f"buy of {key}: buyer paid {bal(b0, acc(creator), den) - bal(b1, acc(creator), den)}{den}, price {amt}{den}"})
                if {**w, "value": creator, "data": "{}"} != w1:
                    out.append({"sig": {"prop": "C08", "kind": "buy-changed-more-than-owner", "op": k}, "what": f"buy altered {key} beyond owner/data"})
        if not ok_buy:
            what = "owner" if w1["value"] != owner else "data/records"
            out.append({"sig": {"prop": "C08", "kind": "non-owner-changed-live-name", "op": k, "field": what},
                        "what": f"{k} signed by a non-owner changed the {what} of live name {key}"})
    # a successful delist takes the listing off the market (a listing left behind keeps the owner's
    # consent to sell alive after they withdrew it)
    if rec["ok"] and k == "delist" and v["lname"] in d(post["forsale"]):
        out.append({"sig": {"prop": "C08", "kind": "delist-left-listing", "op": k},
                    "what": f"delist of {v['lname']} succeeded but the listing is still on the market"})
    return out + unchanged_if_failed(rec, "C08")


def c16(rec):
    out = []
    k, v = opk(rec)
    if k == "init" and rec["ok"]:
        # the free name handed out by Init is a registration too: it must not land on a live name
        pre, post = rec["pre"], rec["post"]
        acc = canon_of(pre)
        for key, w in d(pre["names"]).items():
            w1 = d(post["names"]).get(key)
            if rec["h"] <= w["expires"] and w1 is not None and acc(w1["value"]) != acc(w["value"]):
                out.append({"sig": {"prop": "C16", "kind": "live-name-taken-by-init"},
                            "what": f"init by {v['creator']} took over the live name {key} (owner {w['value']}, expires {w['expires']}, h={rec['h']})"})
        return out
    if k != "register":
        return out
    pre, post = rec["pre"], rec["post"]
    h = rec["h"]
    nt = name_and_tld(v["lname"])
    n0, n1 = d(pre["names"]), d(post["names"])
    creator, years = canon_of(pre)(v["creator"]), v["years"]
    if not rec["ok"]:
        return unchanged_if_failed(rec, "C16")
    if nt is None or len(nt[0]) == 0:
        return [{"sig": {"prop": "C16", "kind": "registered-unparsable-name"}, "what": f"register of {v['lname']} succeeded"}]
    name, tld = nt
    key = name + "." + tld
    cost = TLD_COST[tld] * TIER.get(len(name), 1)
    b0, b1 = d(pre["bank"]), d(post["bank"])
    pol = pre["polAcc"]
    debit = bal(b0, creator) - bal(b1, creator)
    if debit != cost * years:
        out.append({"sig": {"prop": "C16", "kind": "wrong-debit"}, "what": f"register {key} for {years}y debited {debit}, price {cost}*{years}"})
    if bal(b1, pol) - bal(b0, pol) != cost * years:
        out.append({"sig": {"prop": "C16", "kind": "pol-not-credited"}, "what": f"register {key}: POL received {bal(b1, pol) - bal(b0, pol)} of {cost * years}"})
    for (a, den), amt in b1.items():
        if (a, den) not in ((creator, "ujkl"), (pol, "ujkl")) and b0.get((a, den), 0) != amt:
            out.append({"sig": {"prop": "C16", "kind": "other-balance-moved"}, "what": f"register {key}: balance of {a} {den} moved"})
    if "resolvesTo" in rec and (rec["resolvesTo"] is None or canon_of(pre)(rec["resolvesTo"]) != creator):
        out.append({"sig": {"prop": "C16", "kind": "registered-name-resolves-elsewhere"},
                    "what": f"register {v.get('rawName')} by {creator} succeeded; the Name query for it answers {rec['resolvesTo']}"})
    w1 = n1.get(key)
    w0 = n0.get(key)
    if w1 is None or w1["value"] != creator:
        out.append({"sig": {"prop": "C16", "kind": "not-owned-by-registrant"}, "what": f"register {key}: record owner is {w1 and w1['value']}"})
        return out
    if w0 is not None and h <= w0["expires"]:
        if w0["value"] != creator:
            out.append({"sig": {"prop": "C16", "kind": "live-name-registered-by-other"}, "what": f"{key} live (expires {w0['expires']}, h={h}) taken by another account"})
        elif w1["expires"] != w0["expires"] + years * YEAR:
            out.append({"sig": {"prop": "C16", "kind": "renewal-term-wrong"}, "what": f"renewal of {key}: {w0['expires']} -> {w1['expires']} for {years}y"})
    if w1["expires"] < h + years * YEAR:
        out.append({"sig": {"prop": "C16", "kind": "term-too-short"}, "what": f"register {key} at h={h} for {years}y expires at {w1['expires']} < {h + years * YEAR}"})
    return out
