package main

// Genesis round trip (C19): export the six custom modules' genesis from a populated chain, validate
// it, initialise a fresh chain from it and compare the raw module stores record kind by record
// kind; then export again and compare the two exports.

import (
	"bytes"
	"encoding/json"
	"fmt"
	"sort"
	"strings"

	"github.com/jackalLabs/canine-chain/v4/app"
)

var customModules = []string{"storage", "rns", "filetree", "oracle", "notification", "jklmint"}

func recordKind(module string, key []byte) string {
	k := string(key)
	if i := strings.Index(k, "/value/"); i >= 0 {
		return k[:i]
	}
	if strings.HasPrefix(k, "Notification/") {
		if strings.Count(strings.TrimPrefix(k, "Notification/"), "/") >= 2 {
			return "Notification"
		}
		return "Block"
	}
	if strings.HasPrefix(k, "last_block_minted") {
		return "MintedBlock"
	}
	if i := strings.Index(k, "/"); i >= 0 {
		return k[:i]
	}
	return k
}

func (c *Chain) dumpModule(name string) map[string][]byte {
	out := map[string][]byte{}
	for _, kv := range c.RawStore(name, "") {
		out[string(kv[0])] = kv[1]
	}
	// the module's parameters live in the params store under "<subspace>/<key>": record kind "Params"
	for _, kv := range c.RawStore("params", name+"/") {
		out["Params/"+string(kv[0])] = kv[1]
	}
	return out
}

// govTouchParams moves every parameter of the custom modules away from its compiled-in default, key by
// key, the way passed parameter-change proposals do (changes a validator refuses are skipped): a
// genesis that carried defaults instead of the live values would otherwise look complete.
func (c *Chain) govTouchParams(variant int) {
	for _, m := range customModules {
		ss, ok := c.A.VerifSubspace(m)
		if !ok {
			continue
		}
		for _, kv := range c.RawStore("params", m+"/") {
			key, val := string(kv[0]), string(kv[1])
			var nv string
			var n int64
			var str string
			if _, err := fmt.Sscanf(val, "\"%d\"", &n); err == nil && json.Unmarshal(kv[1], &str) == nil && fmt.Sprint(n) == str {
				nv = fmt.Sprintf("\"%d\"", n+1)
				if variant == 2 {
					// every key has its own validator and a proposal changes one key: combinations that no single
					// validator sees (a form size below the minimum, a ratio of zero next to a large one) are legitimate
					// states, and a genesis must carry them too
					nv = []string{"\"1\"", "\"2\"", fmt.Sprintf("\"%d\"", n*2+3), "\"0\""}[(len(key)+int(n))%4]
				}
			} else if json.Unmarshal(kv[1], &str) == nil {
				switch {
				case strings.Contains(key, "Deposit") || strings.Contains(key, "Stipend"):
					nv = fmt.Sprintf("%q", c.Users[len(c.Users)-1].String())
				case strings.Contains(key, "Feed"):
					nv = fmt.Sprintf("%q", str+"2")
				default:
					continue
				}
			} else {
				continue
			}
			cctx, write := c.Ctx().CacheContext()
			func() {
				defer func() { recover() }()
				if err := ss.Update(cctx, kv[0], []byte(nv)); err == nil {
					write()
				}
			}()
		}
	}
}

func (c *Chain) exportCustom() (map[string]json.RawMessage, map[string]string) {
	mm := c.A.VerifModuleManager()
	cdc := c.A.AppCodec()
	out := map[string]json.RawMessage{}
	errs := map[string]string{}
	for _, name := range customModules {
		func() {
			defer func() {
				if r := recover(); r != nil {
					errs[name] = fmt.Sprint("export panic: ", r)
				}
			}()
			bz := mm.Modules[name].ExportGenesis(c.Ctx(), cdc)
			out[name] = bz
			if err := mm.Modules[name].ValidateGenesis(cdc, app.MakeEncodingConfig().TxConfig, bz); err != nil {
				errs[name] = "validate: " + err.Error()
			}
		}()
	}
	return out, errs
}

func genesisRoundTrip(c *Chain, hist int, profile string, out *Emitter) {
	if c.InBlk {
		c.End()
	}
	if hist%3 != 0 {
		c.govTouchParams(hist % 3)
	}
	exported, errs := c.exportCustom()
	before := map[string]map[string][]byte{}
	for _, m := range customModules {
		before[m] = c.dumpModule(m)
	}
	// the chain's own restart path: whole-application export, fresh application, InitChain at the next height
	fresh := c
	if e := c.RestartInit(); e != "" {
		out.Emit(map[string]interface{}{"mod": "genesis", "hist": hist, "i": 0, "profile": profile, "module": "*", "initPanic": e, "op": "roundtrip", "ok": false})
		return
	}
	exported2, _ := fresh.exportCustom()
	for _, m := range customModules {
		after := fresh.dumpModule(m)
		kinds := map[string]map[string]interface{}{}
		get := func(k string) map[string]interface{} {
			if kinds[k] == nil {
				kinds[k] = map[string]interface{}{"before": 0, "after": 0, "lost": []string{}, "changed": []string{}, "extra": []string{}}
			}
			return kinds[k]
		}
		for k, v := range before[m] {
			e := get(recordKind(m, []byte(k)))
			e["before"] = e["before"].(int) + 1
			w, ok := after[k]
			if !ok {
				e["lost"] = append(e["lost"].([]string), k)
			} else if !bytes.Equal(v, w) {
				e["changed"] = append(e["changed"].([]string), k)
			}
		}
		for k := range after {
			e := get(recordKind(m, []byte(k)))
			e["after"] = e["after"].(int) + 1
			if _, ok := before[m][k]; !ok {
				e["extra"] = append(e["extra"].([]string), k)
			}
		}
		kl := []Pair{}
		names := []string{}
		for k := range kinds {
			names = append(names, k)
		}
		sort.Strings(names)
		for _, k := range names {
			e := kinds[k]
			for _, f := range []string{"lost", "changed", "extra"} {
				l := e[f].([]string)
				sort.Strings(l)
				if len(l) > 3 {
					l = l[:3]
				}
				e[f+"Sample"] = l
				e[f] = len(e[f].([]string))
			}
			kl = append(kl, Pair{k, e})
		}
		var j1, j2 interface{}
		json.Unmarshal(exported[m], &j1)
		json.Unmarshal(exported2[m], &j2)
		b1, _ := json.Marshal(j1)
		b2, _ := json.Marshal(j2)
		diffFields := []string{}
		if m1, ok := j1.(map[string]interface{}); ok {
			m2, _ := j2.(map[string]interface{})
			for f, v1 := range m1 {
				x1, _ := json.Marshal(v1)
				x2, _ := json.Marshal(m2[f])
				if !bytes.Equal(x1, x2) {
					diffFields = append(diffFields, f)
				}
			}
			sort.Strings(diffFields)
		}
		out.Emit(map[string]interface{}{"mod": "genesis", "hist": hist, "i": 0, "profile": profile, "module": m, "kinds": kl, "validateErr": errs[m],
			"reexportEqual": bytes.Equal(b1, b2), "reexportDiff": diffFields, "op": "roundtrip", "ok": true})
		out.Count("genesis."+m, true)
	}
}
