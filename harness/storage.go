package main

// Profile "storage": plans, files (plan-paid and pay-once), honest and dishonest proofs, providers,
// collateral, attestation/report forms and reward blocks on the assembled app, with short proof /
// check windows (genesis params) and jumping block times so that gauges stream and end.
// Sub-profiles bias the op mix (see storageMix).

import (
	"bytes"
	"crypto/sha256"
	"encoding/hex"
	"encoding/json"
	"fmt"
	"math/big"
	"math/rand"
	"sort"
	"strconv"
	"strings"
	"time"

	sdk "github.com/cosmos/cosmos-sdk/types"
	authtypes "github.com/cosmos/cosmos-sdk/x/auth/types"
	banktypes "github.com/cosmos/cosmos-sdk/x/bank/types"
	distrtypes "github.com/cosmos/cosmos-sdk/x/distribution/types"
	"github.com/jackalLabs/canine-chain/v4/app"
	alltypes "github.com/jackalLabs/canine-chain/v4/types"
	minttypes "github.com/jackalLabs/canine-chain/v4/x/jklmint/types"
	oracletypes "github.com/jackalLabs/canine-chain/v4/x/oracle/types"
	rnstypes "github.com/jackalLabs/canine-chain/v4/x/rns/types"
	sttypes "github.com/jackalLabs/canine-chain/v4/x/storage/types"
	"github.com/wealdtech/go-merkletree/v2"
	"github.com/wealdtech/go-merkletree/v2/sha3"
)

const stakersAcc = "stakers" // pseudo-account: fee collector + distribution module, observed together

type stFile struct {
	Merkle        string          `json:"merkle"`
	Owner         string          `json:"owner"`
	Start         int64           `json:"start"`
	Expires       int64           `json:"expires"`
	FileSize      int64           `json:"fileSize"`
	ProofInterval int64           `json:"proofInterval"`
	ProofType     int64           `json:"proofType"`
	Proofs        [][]interface{} `json:"proofs"`
	MaxProofs     int64           `json:"maxProofs"`
	Note          string          `json:"note"`
}

func fkeyJ(merkle []byte, owner string, start int64) []interface{} {
	return []interface{}{hex.EncodeToString(merkle), []interface{}{owner, start}}
}

func fkeyS(m string, owner string, start int64) []interface{} {
	return []interface{}{m, []interface{}{owner, start}}
}

// parseProofKey "prover/owner/merklehex/start/" -> [prover,[merkle,[owner,start]]]
func parseProofKey(k string) ([]interface{}, bool) {
	p := strings.Split(k, "/")
	if len(p) != 5 || p[4] != "" {
		return []interface{}{k, fkeyS("", "", 0)}, false
	}
	st, err := strconv.ParseInt(p[3], 10, 64)
	if err != nil {
		return []interface{}{k, fkeyS("", "", 0)}, false
	}
	return []interface{}{p[0], fkeyS(p[2], p[1], st)}, true
}

func fileJ(f sttypes.UnifiedFile, bad *[]string) stFile {
	ps := [][]interface{}{}
	for _, pk := range f.Proofs {
		j, ok := parseProofKey(pk)
		if !ok {
			*bad = append(*bad, "proofkey:"+pk)
		}
		ps = append(ps, j)
	}
	return stFile{hex.EncodeToString(f.Merkle), f.Owner, f.Start, f.Expires, f.FileSize, f.ProofInterval, f.ProofType, ps, f.MaxProofs, f.Note}
}

// unixNanoJ is t.UnixNano() without the int64 overflow beyond the year 2262
func unixNanoJ(t time.Time) BigNum {
	b := new(big.Int).Mul(big.NewInt(t.Unix()), big.NewInt(1_000_000_000))
	return BigNum{b.Add(b, big.NewInt(int64(t.Nanosecond())))}
}

func coinsJ(cs sdk.Coins) []interface{} {
	out := []interface{}{}
	for _, c := range cs {
		out = append(out, []interface{}{c.Denom, Num(c.Amount)})
	}
	return out
}

func proofJ(p sttypes.FileProof) map[string]interface{} {
	return map[string]interface{}{"prover": p.Prover, "merkle": hex.EncodeToString(p.Merkle), "owner": p.Owner, "start": p.Start, "lastProven": p.LastProven, "chunkToProve": p.ChunkToProve}
}

func providerJ(p sttypes.Providers) map[string]interface{} {
	var burned interface{}
	if b, err := strconv.ParseInt(p.BurnedContracts, 10, 64); err == nil {
		burned = b
	}
	cl := p.AuthClaimers
	if cl == nil {
		cl = []string{}
	}
	return map[string]interface{}{"address": p.Address, "ip": p.Ip, "totalspace": p.Totalspace, "burned": burned, "creator": p.Creator, "keybase": p.KeybaseIdentity, "claimers": cl}
}

func payinfoJ(p sttypes.StoragePaymentInfo) map[string]interface{} {
	return map[string]interface{}{"startT": unixNanoJ(p.Start), "endT": unixNanoJ(p.End), "spaceAvailable": p.SpaceAvailable, "spaceUsed": p.SpaceUsed, "address": p.Address}
}

func gaugeJ(g sttypes.PaymentGauge) map[string]interface{} {
	acc, _ := sttypes.GetGaugeAccount(g)
	id := hex.EncodeToString(g.Id)
	return map[string]interface{}{"id": id, "startT": unixNanoJ(g.Start), "endT": unixNanoJ(g.End), "coins": coinsJ(g.Coins), "account": acc.String()}
}

type stState struct {
	Files         []Pair                 `json:"files"`
	Files2        []Pair                 `json:"files2"`
	Proofs        []Pair                 `json:"proofs"`
	Providers     []Pair                 `json:"providers"`
	Payinfo       []Pair                 `json:"payinfo"`
	Collateral    []Pair                 `json:"collateral"`
	Gauges        []Pair                 `json:"gauges"`
	Attests       []Pair                 `json:"attests"`
	Reports       []Pair                 `json:"reports"`
	Bank          []Pair                 `json:"bank"`
	Params        map[string]interface{} `json:"params"`
	ModuleAcc     string                 `json:"moduleAcc"`
	CollateralAcc string                 `json:"collateralAcc"`
	PolAcc        string                 `json:"polAcc"`
	FeeAcc        string                 `json:"feeAcc"`
	Blocked       []string               `json:"blocked"`
	Canon         []Pair                 `json:"canon"`
}

func formJ(prover string, merkle []byte, owner string, start int64, atts []*sttypes.Attestation) map[string]interface{} {
	al := []interface{}{}
	for _, a := range atts {
		al = append(al, []interface{}{a.Provider, a.Complete})
	}
	return map[string]interface{}{"prover": prover, "merkle": hex.EncodeToString(merkle), "owner": owner, "start": start, "attestations": al}
}

// storageAbs reads every storage store raw. bad collects keys that are not of the expected shape.
func (c *Chain) storageAbs(users []string) (stState, []string) {
	canon := []Pair{} // the chain's canonicalisation of every spelling of a user address the generator sends
	for _, u := range users {
		for _, sp := range []string{u, strings.ToUpper(u)} {
			if a, err := sdk.AccAddressFromBech32(sp); err == nil {
				canon = append(canon, Pair{sp, a.String()})
			}
		}
	}
	users = append(append([]string{}, users...), seenGaugeAccs...)
	cdc := c.A.AppCodec()
	bad := []string{}
	st := stState{Files: []Pair{}, Files2: []Pair{}, Proofs: []Pair{}, Providers: []Pair{}, Payinfo: []Pair{}, Collateral: []Pair{}, Gauges: []Pair{}, Attests: []Pair{}, Reports: []Pair{}}
	for _, kv := range c.RawStore(sttypes.StoreKey, sttypes.FilePrimaryKeyPrefix) {
		var f sttypes.UnifiedFile
		cdc.MustUnmarshal(kv[1], &f)
		if string(kv[0]) != string(sttypes.FilesPrimaryKey(f.Merkle, f.Owner, f.Start)) {
			bad = append(bad, "primary:"+string(kv[0]))
		}
		st.Files = append(st.Files, Pair{fkeyJ(f.Merkle, f.Owner, f.Start), fileJ(f, &bad)})
	}
	for _, kv := range c.RawStore(sttypes.StoreKey, sttypes.FileSecondaryKeyPrefix) {
		var f sttypes.UnifiedFile
		cdc.MustUnmarshal(kv[1], &f)
		if string(kv[0]) != string(sttypes.FilesSecondaryKey(f.Merkle, f.Owner, f.Start)) {
			bad = append(bad, "secondary:"+string(kv[0]))
		}
		st.Files2 = append(st.Files2, Pair{fkeyJ(f.Merkle, f.Owner, f.Start), fileJ(f, &bad)})
	}
	for _, kv := range c.RawStore(sttypes.StoreKey, sttypes.ProofKeyPrefix) {
		var p sttypes.FileProof
		cdc.MustUnmarshal(kv[1], &p)
		kj, ok := parseProofKey(string(kv[0]))
		if !ok {
			bad = append(bad, "proof:"+string(kv[0]))
		}
		st.Proofs = append(st.Proofs, Pair{kj, proofJ(p)})
	}
	for _, kv := range c.RawStore(sttypes.StoreKey, sttypes.ProvidersKeyPrefix) {
		var p sttypes.Providers
		cdc.MustUnmarshal(kv[1], &p)
		st.Providers = append(st.Providers, Pair{strings.TrimSuffix(string(kv[0]), "/"), providerJ(p)})
	}
	for _, kv := range c.RawStore(sttypes.StoreKey, sttypes.StoragePaymentInfoKeyPrefix) {
		var p sttypes.StoragePaymentInfo
		cdc.MustUnmarshal(kv[1], &p)
		st.Payinfo = append(st.Payinfo, Pair{strings.TrimSuffix(string(kv[0]), "/"), payinfoJ(p)})
	}
	for _, kv := range c.RawStore(sttypes.StoreKey, sttypes.CollateralKeyPrefix) {
		var p sttypes.Collateral
		cdc.MustUnmarshal(kv[1], &p)
		st.Collateral = append(st.Collateral, Pair{strings.TrimSuffix(string(kv[0]), "/"), p.Amount})
	}
	tracked := append([]string{}, users...)
	for _, kv := range c.RawStore(sttypes.StoreKey, sttypes.PaymentGaugeKeyPrefix) {
		var g sttypes.PaymentGauge
		cdc.MustUnmarshal(kv[1], &g)
		acc, _ := sttypes.GetGaugeAccount(g)
		id := hex.EncodeToString(g.Id)
		st.Gauges = append(st.Gauges, Pair{id, gaugeJ(g)})
		tracked = append(tracked, acc.String())
		noteGaugeAcc(acc.String())
	}
	for _, kv := range c.RawStore(sttypes.StoreKey, sttypes.AttestationKeyPrefix) {
		var f sttypes.AttestationForm
		cdc.MustUnmarshal(kv[1], &f)
		if string(kv[0]) != string(sttypes.AttestationKey(f.Prover, f.Merkle, f.Owner, f.Start)) {
			bad = append(bad, "attest:"+string(kv[0]))
		}
		st.Attests = append(st.Attests, Pair{[]interface{}{f.Prover, fkeyJ(f.Merkle, f.Owner, f.Start)}, formJ(f.Prover, f.Merkle, f.Owner, f.Start, f.Attestations)})
	}
	for _, kv := range c.RawStore(sttypes.StoreKey, sttypes.ReportKeyPrefix) {
		var f sttypes.ReportForm
		cdc.MustUnmarshal(kv[1], &f)
		if string(kv[0]) != string(sttypes.ReportKey(f.Prover, f.Merkle, f.Owner, f.Start)) {
			bad = append(bad, "report:"+string(kv[0]))
		}
		st.Reports = append(st.Reports, Pair{[]interface{}{f.Prover, fkeyJ(f.Merkle, f.Owner, f.Start)}, formJ(f.Prover, f.Merkle, f.Owner, f.Start, f.Attestations)})
	}
	p := c.A.StorageKeeper.GetParams(c.Ctx())
	st.Params = map[string]interface{}{"proofWindow": p.ProofWindow, "checkWindow": p.CheckWindow, "chunkSize": p.ChunkSize, "pricePerTbPerMonth": p.PricePerTbPerMonth,
		"collateralPrice": p.CollateralPrice, "attestFormSize": p.AttestFormSize, "attestMinToPass": p.AttestMinToPass, "referralCommission": p.ReferralCommission, "polRatio": p.PolRatio}
	st.ModuleAcc = c.ModuleAddr(sttypes.ModuleName)
	st.CollateralAcc = c.ModuleAddr(sttypes.CollateralCollectorName)
	pol, _ := alltypes.GetPOLAccount()
	st.PolAcc = pol.String()
	st.FeeAcc = stakersAcc
	tracked = append(tracked, st.ModuleAcc, st.CollateralAcc, st.PolAcc)
	st.Bank = c.BankAbs(tracked)
	// the stakers' pool: fee collector + distribution module
	ctx := c.Ctx()
	sum := c.A.BankKeeper.GetAllBalances(ctx, authtypes.NewModuleAddress(authtypes.FeeCollectorName)).Add(c.A.BankKeeper.GetAllBalances(ctx, authtypes.NewModuleAddress(distrtypes.ModuleName))...)
	for _, coin := range sum {
		st.Bank = append(st.Bank, Pair{[]string{stakersAcc, coin.Denom}, Num(coin.Amount)})
	}
	st.Blocked = c.BlockedAddrs()
	st.Canon = canon
	return st, bad
}

// gauge escrow accounts seen so far in this history: they stay tracked after the gauge record is
// deleted (what was not released stays in the account)
var seenGaugeAccs []string

// escrow accounts of gauges seeded through genesis (tracked from the first record on)
var seededGaugeAccs []string

func noteGaugeAcc(a string) {
	for _, x := range seenGaugeAccs {
		if x == a {
			return
		}
	}
	seenGaugeAccs = append(seenGaugeAccs, a)
}

// ---- files with real content, so that honest proofs can be built

type dataFile struct {
	data   []byte
	chunks [][]byte
	root   []byte
	tree   *merkletree.MerkleTree
}

func chainLeaf(i int, chunk []byte) []byte {
	h := sha256.Sum256([]byte(fmt.Sprintf("%d%x", i, chunk)))
	return h[:]
}

func mkDataFile(data []byte, chunkSize int64) *dataFile {
	var chunks [][]byte
	for off := 0; off < len(data); off += int(chunkSize) {
		end := off + int(chunkSize)
		if end > len(data) {
			end = len(data)
		}
		chunks = append(chunks, data[off:end])
	}
	var leaves [][]byte
	for i, ch := range chunks {
		leaves = append(leaves, chainLeaf(i, ch))
	}
	t, err := merkletree.NewUsing(leaves, sha3.New512(), false)
	if err != nil {
		panic(err)
	}
	return &dataFile{data, chunks, t.Root(), t}
}

func (f *dataFile) proof(i int) (item []byte, hashList []byte) {
	p, err := f.tree.GenerateProof(chainLeaf(i, f.chunks[i]), 0)
	if err != nil {
		panic(err)
	}
	b, _ := json.Marshal(*p)
	return f.chunks[i], b
}

func decodedProofJ(hashList []byte) interface{} {
	var p merkletree.Proof
	if err := json.Unmarshal(hashList, &p); err != nil {
		return nil
	}
	hs := []string{}
	for _, h := range p.Hashes {
		hs = append(hs, hex.EncodeToString(h))
	}
	return map[string]interface{}{"index": p.Index, "hashes": hs}
}

type storageMix struct {
	name                                              string
	buy, post, del, proof, prov, forms, sign, setters int
	users                                             int
	proofWindow, checkWindow, chunk                   int64
}

var storageMixes = map[string]storageMix{
	"storage":    {"storage", 10, 18, 5, 30, 10, 7, 12, 4, 7, 7, 10, 32},
	"proofs":     {"proofs", 5, 14, 3, 55, 8, 3, 6, 2, 7, 6, 9, 16},
	"payments":   {"payments", 40, 25, 8, 10, 5, 2, 4, 2, 6, 6, 9, 1024},
	"plans":      {"plans", 22, 38, 22, 8, 4, 1, 2, 1, 5, 4, 6, 32},
	"forms":      {"forms", 8, 14, 2, 30, 12, 16, 22, 2, 8, 8, 12, 32},
	"collateral": {"collateral", 2, 3, 1, 4, 70, 2, 4, 14, 6, 8, 12, 32},
}

type storageGen struct {
	c         *Chain
	r         *rand.Rand
	users     []string
	data      map[string]*dataFile // merkle hex -> content
	mix       storageMix
	ips       []string
	blocks    int
	lastBuy   *sttypes.MsgBuyStorage
	signSoon  int      // forms profile: the next few operations are signatures on open forms (after the quorum parameters moved)
	out       *Emitter // for side records (name resolutions put to the rns model)
	hi        int
	lastPost  *sttypes.MsgPostFile // the last pay-once posting and the height it was sent at
	lastPostH int64
	burst     int        // how many more equal purchases follow at once (three and more deposits into one gauge id)
	noBlock   int        // steps during which no block boundary is taken (so that a burst stays in one block)
	pg        *pager     // page requests of the query records
	qr        *rand.Rand // a generator of its own for the query records: the message histories of a seed do not depend on them
	noGauges  bool       // a history without any payment gauge: plans come from genesis, nothing is bought or paid once
}

func (g *storageGen) user() string { return g.users[g.r.Intn(len(g.users))] }

func (g *storageGen) allFiles() []sttypes.UnifiedFile {
	return g.c.A.StorageKeeper.GetAllFileByMerkle(g.c.Ctx())
}

// expectedJklPrice: the harness's own reading of what the JKL price is — the `price` string of the feed named by the
// PriceFeed parameter when the feed exists, its data is a JSON object and that string parses as a decimal; 0.20 otherwise.
// Fields of other types next to the price do not matter.  (Independent of Keeper.GetJklPrice, which the model takes as input.)
func (g *storageGen) expectedJklPrice() BigNum {
	def := sdk.MustNewDecFromStr("0.20")
	c := g.c
	f, found := c.A.OracleKeeper.GetFeed(c.Ctx(), c.A.StorageKeeper.GetParams(c.Ctx()).PriceFeed)
	if !found {
		return BigNum{def.BigInt()}
	}
	var m map[string]interface{}
	if json.Unmarshal([]byte(f.Data), &m) != nil {
		return BigNum{def.BigInt()}
	}
	if ps, ok := m["price"].(string); ok {
		if d, err := sdk.NewDecFromStr(ps); err == nil {
			return BigNum{d.BigInt()}
		}
	}
	return BigNum{def.BigInt()}
}

func (g *storageGen) jklPriceRaw() BigNum {
	p := g.c.A.StorageKeeper.GetJklPrice(g.c.Ctx())
	return BigNum{p.BigInt()}
}

// after-the-fact oracle: which gauge was created or grew in this step (id and escrow account are
// derived by the chain from height, end time and coins).  When a deposit leaves the record
// byte-identical (e.g. an empty coin list into an existing id) the gauge started at this block
// time with the expected end is taken.
func gaugeDelta(pre, post stState, now *big.Int, wantEnd *big.Int) (string, string) {
	m := map[string]string{}
	for _, p := range pre.Gauges {
		b, _ := json.Marshal(p[1])
		m[p[0].(string)] = string(b)
	}
	for _, p := range post.Gauges {
		b, _ := json.Marshal(p[1])
		if m[p[0].(string)] != string(b) {
			return p[0].(string), p[1].(map[string]interface{})["account"].(string)
		}
	}
	for _, p := range post.Gauges {
		g := p[1].(map[string]interface{})
		if g["startT"].(BigNum).Int.Cmp(now) == 0 && g["endT"].(BigNum).Int.Cmp(wantEnd) == 0 {
			return p[0].(string), g["account"].(string)
		}
	}
	return "", ""
}

func (g *storageGen) next() (sdk.Msg, map[string]interface{}, func(pre, post stState, op map[string]interface{})) {
	r := g.r
	c := g.c
	m := g.mix
	tot := m.buy + m.post + m.del + m.proof + m.prov + m.forms + m.sign + m.setters
	k := r.Intn(tot)
	if g.noGauges && k < m.buy {
		k = m.buy // a posting instead of a purchase
	}
	if g.burst > 0 && g.lastBuy != nil {
		k = 0 // the buy branch, repeating the last purchase
	}
	if g.signSoon > 0 {
		g.signSoon--
		k = m.buy + m.post + m.del + m.proof + m.prov + m.forms // the signature branch
	}
	params := c.A.StorageKeeper.GetParams(c.Ctx())
	if f, found := c.A.OracleKeeper.GetFeed(c.Ctx(), params.PriceFeed); found && r.Intn(12) == 0 {
		// the feed owner publishes a new quote (an oracle message; the storage model reads the price as an input):
		// well-formed, with fields of another type next to the price, without a price, not JSON, zero, negative, huge
		data := []string{`{"price":"0.30","24h_change":"0"}`, `{"price":"0.30","24h_change":1.5}`, `{"price":"1.5","24h_change":null,"x":[1]}`,
			`{"24h_change":"0"}`, `{"price":0.3}`, `not json`, `{"price":"0"}`, `{"price":"-1"}`, `{"price":"1000000"}`, `{"price":"0.000001"}`, `[]`, `{"price":"abc"}`}[r.Intn(12)]
		c.Deliver(&oracletypes.MsgUpdateFeed{Creator: f.Owner, Name: params.PriceFeed, Data: data})
	}
	files := g.allFiles()
	bigEnd := func(days int64) *big.Int { // now + days·24h without wrap-around, as the chain's time arithmetic gives it
		e := new(big.Int).Mul(big.NewInt(days), big.NewInt(86400_000_000_000))
		return e.Add(e, unixNanoJ(c.T).Int)
	}
	fillGauge := func(key string, wantEnd *big.Int) func(pre, post stState, op map[string]interface{}) {
		return func(pre, post stState, op map[string]interface{}) {
			id, acc := gaugeDelta(pre, post, unixNanoJ(c.T).Int, wantEnd)
			o := op[key].(map[string]interface{})
			o["gaugeId"], o["gaugeAcc"] = id, acc
		}
	}
	switch {
	case k < m.buy:
		creator := g.user()
		forAddr := creator
		if r.Intn(4) == 0 {
			forAddr = g.user()
		}
		if r.Intn(12) == 0 { // a beneficiary the chain has never seen (its account is created on the fly)
			forAddr = sdk.AccAddress([]byte(fmt.Sprintf("fresh-beneficiary-%03d", r.Intn(1000)))).String()
		}
		if r.Intn(25) == 0 { // a module account as beneficiary (block processing fetches these as module accounts)
			ma := c.ModuleAddr([]string{"fee_collector", "distribution", minttypes.ModuleName, sttypes.ModuleName, "bonded_tokens_pool"}[r.Intn(5)])
			// only module accounts that already exist: BuyStorage creates a plain account at an unseen
			// beneficiary address, and for the storage module's own, not yet created address the purchase
			// then fails on its first transfer ("account is not a module account") — a quirk of the
			// unchanged code that is outside the model (DESIGN.md section 8)
			if a, err := sdk.AccAddressFromBech32(ma); err == nil && c.A.AccountKeeper.HasAccount(c.Ctx(), a) {
				forAddr = ma
			}
		}
		days := []int64{30, 30, 31, 60, 365, 366, 400, 1000, 29, 1, 0, -5, 106752, 1 << 40}[r.Intn(14)]
		if r.Intn(3) > 0 {
			days = int64(30 + r.Intn(700))
		}
		byts := []int64{1_000_000_000, 3_000_000_000, 5_000_000_000_000, 20_000_000_000_000, 999_999_999, 0, -1, 4_999_000_000_000, 1 << 62}[r.Intn(9)]
		if r.Intn(3) > 0 {
			byts = int64(1+r.Intn(40)) * 1_000_000_000
		}
		denom := "ujkl"
		if r.Intn(15) == 0 {
			denom = "utest"
		}
		ref := []string{"", "", creator, g.user(), "alice.jkl", "nobody.jkl", "garbage"}[r.Intn(7)]
		upperCreator := r.Intn(6) == 0
		if upperCreator && r.Intn(2) == 0 {
			ref = creator // one's own address as referrer, under another spelling than the signer string
		}
		var refJ interface{}
		if a, err := c.A.RnsKeeper.Resolve(c.Ctx(), ref); err == nil {
			refJ = a.String()
		}
		if g.lastBuy != nil && (g.burst > 0 || r.Intn(6) == 0) { // an equal purchase by another account, often in the same block (same gauge id)
			if g.burst > 0 {
				g.burst--
			} else if r.Intn(2) == 0 {
				g.burst, g.noBlock = 1+r.Intn(3), 5
			}
			days, byts, denom, ref = g.lastBuy.DurationDays, g.lastBuy.Bytes, g.lastBuy.PaymentDenom, g.lastBuy.Referral
			if r.Intn(3) == 0 && days >= 60 && days%2 == 0 && byts > 0 && byts < 1<<40 {
				days, byts = days/2, byts*2 // the same price over half the time: equal coins, another end — another gauge
			} else if r.Intn(4) == 0 && days >= 30 && days < 50000 && byts >= 2_000_000_000 && byts%2_000_000_000 == 0 {
				days, byts = days*2, byts/2
			}
			if a, err := c.A.RnsKeeper.Resolve(c.Ctx(), ref); err == nil {
				refJ = a.String()
			} else {
				refJ = nil
			}
		}
		// address spellings: an all-upper-case bech32 string is the same account (accepted by
		// AccAddressFromBech32 and by signature verification); the op records the *accounts*
		// (canonical strings), the message carries the spelling
		rawCreator, rawFor := creator, forAddr
		if upperCreator {
			rawCreator = strings.ToUpper(creator)
		}
		if r.Intn(10) == 0 {
			rawFor = strings.ToUpper(forAddr)
		}
		msg := &sttypes.MsgBuyStorage{Creator: rawCreator, ForAddress: rawFor, DurationDays: days, Bytes: byts, PaymentDenom: denom, Referral: ref}
		g.lastBuy = msg
		if g.out != nil && ref != "" {
			c.emitResolve(g.out, g.hi, g.blocks, ref, g.users)
		}
		op := map[string]interface{}{"buyStorage": map[string]interface{}{"creator": creator, "forAddress": forAddr, "durationDays": days, "bytes": byts, "denom": denom, "referral": refJ, "jklPrice": g.jklPriceRaw(), "jklPriceExpected": g.expectedJklPrice(), "gaugeId": "", "gaugeAcc": "", "creatorRaw": rawCreator, "forAddressRaw": rawFor}}
		return msg, op, fillGauge("buyStorage", new(big.Int).Add(unixNanoJ(c.T).Int, big.NewInt(days*86400_000_000_000))) // time.Duration(days)*24h wraps in int64
	case k < m.buy+m.post:
		creator := g.user()
		// real content, a few chunks
		n := 1 + r.Intn(int(5*params.ChunkSize))
		if r.Intn(5) == 0 {
			n = int(params.ChunkSize) * (1 + r.Intn(4)) // exact multiple
		}
		data := make([]byte, n)
		r.Read(data)
		df := mkDataFile(data, params.ChunkSize)
		g.data[hex.EncodeToString(df.root)] = df
		size := int64(n)
		maxProofs := int64(1 + r.Intn(3))
		if r.Intn(7) == 0 {
			size = []int64{0, -5, 1, 1 << 62, 9223372036854775807, 10}[r.Intn(6)]
		}
		if r.Intn(6) == 0 { // declared sizes of the order of a plan: the remaining space runs out
			size = []int64{300_000_000, 499_999_999, 500_000_000, 999_999_999, 1_000_000_000, 1_000_000_001, 2_500_000_000, 19_000_000_000}[r.Intn(8)]
		}
		if r.Intn(9) == 0 {
			maxProofs = []int64{0, -1, 1 << 40, 3, 9223372036854775807}[r.Intn(5)]
		}
		var expires int64
		if r.Intn(3) == 0 {
			expires = c.H + []int64{14400, 14399, 20000, 500000, 1, 5256000, 100}[r.Intn(7)]
			if r.Intn(12) == 0 {
				expires = c.H + 400*365*14400 // four centuries: End - Start exceeds time.Duration
			}
			if r.Intn(14) == 0 {
				// around 10000-01-01, past which a timestamp cannot be stored (the codec panics, the
				// transaction fails), and far beyond it
				expires = c.H + []int64{7900, 7960, 7970, 7975, 7980, 8100, 300_000, 1_000_000}[r.Intn(8)]*365*14400 + int64(r.Intn(14400*300))
			}
			if r.Intn(8) == 0 { // a positive Expires that is not in the future: pay-once for less than a day, refused
				expires = []int64{1, 2, c.H, c.H - 1, c.H/2 + 1}[r.Intn(5)]
			}
		} else if r.Intn(8) == 0 {
			expires = -int64(1 + r.Intn(5)) // non-positive Expires is plan-paid
		}
		if g.noGauges && expires > 0 {
			expires = 0
		}
		note := `{"n":1}`
		if r.Intn(20) == 0 {
			note = "nope"
		}
		merkle := df.root
		if len(files) > 0 && r.Intn(6) == 0 { // re-post an existing merkle (same-block re-post when heights match)
			f := files[r.Intn(len(files))]
			merkle = f.Merkle
			if r.Intn(3) > 0 {
				creator = f.Owner
			}
			if r.Intn(2) == 0 { // the second copy agrees with the first in everything but its start height
				expires, size, maxProofs = f.Expires, f.FileSize, f.MaxProofs
			}
		}
		if g.lastPost != nil && g.lastPostH == c.H && r.Intn(2) == 0 {
			// another account pays once for a file of the same size and term in the same block: the same
			// provider share until the same end — one gauge id, several deposits
			size, maxProofs, expires = g.lastPost.FileSize, g.lastPost.MaxProofs, g.lastPost.Expires
		} else if expires > 0 && size > 0 && r.Intn(3) == 0 {
			g.noBlock = 4
		}
		msg := &sttypes.MsgPostFile{Creator: creator, Merkle: merkle, FileSize: size, ProofType: 0, MaxProofs: maxProofs, Expires: expires, Note: note}
		if g.qr != nil && g.qr.Intn(3) == 0 {
			// the message carries a proof interval of the poster's choosing; the chain commits its own parameter
			msg.ProofInterval = []int64{-1, 1, 2, 1000, 1 << 40, 1<<63 - 1}[g.qr.Intn(6)]
		}
		if expires > c.H {
			g.lastPost, g.lastPostH = msg, c.H
		}
		op := map[string]interface{}{"postFile": map[string]interface{}{"creator": creator, "merkle": hex.EncodeToString(merkle), "fileSize": size, "maxProofs": maxProofs, "expires": expires, "proofType": 0,
			"note": note, "noteValid": jsonValid(note), "jklPrice": g.jklPriceRaw(), "jklPriceExpected": g.expectedJklPrice(), "gaugeId": "", "gaugeAcc": ""}}
		payDays := (expires - c.H) * 6 / 60 / 60 / 24
		return msg, op, fillGauge("postFile", bigEnd(payDays))
	case k < m.buy+m.post+m.del:
		creator := g.user()
		merkle, start := []byte{1, 2}, c.H
		if len(files) > 0 {
			f := files[r.Intn(len(files))]
			merkle, start = f.Merkle, f.Start
			if r.Intn(3) > 0 {
				creator = f.Owner
			}
		}
		if g.qr != nil {
			switch g.qr.Intn(12) {
			case 0: // no file starts at height 0
				start = 0
			case 1:
				start, creator = 0, g.user()
			case 2: // a shorter merkle: a prefix of the stored one
				if len(merkle) > 1 {
					merkle = merkle[:len(merkle)/2]
				}
			case 3:
				merkle = []byte{}
				start = 0
			}
		}
		msg := &sttypes.MsgDeleteFile{Creator: creator, Merkle: merkle, Start: start}
		return msg, map[string]interface{}{"deleteFile": map[string]interface{}{"creator": creator, "merkle": hex.EncodeToString(merkle), "start": start}}, nil
	case k < m.buy+m.post+m.del+m.proof:
		creator := g.user()
		if len(files) == 0 {
			msg := &sttypes.MsgPostProof{Creator: creator, Item: []byte("x"), HashList: []byte("{}"), Merkle: []byte{9}, Owner: creator, Start: 1, ToProve: 0}
			return msg, map[string]interface{}{"postProof": map[string]interface{}{"creator": creator, "merkle": "09", "owner": creator, "start": 1, "toProve": 0, "verified": false, "nextChallenge": 0, "proof": nil, "item": "78", "root": "", "challenge": 0}}, nil
		}
		f := files[r.Intn(len(files))]
		// prefer provers already listed (so that windows are kept), else any user
		if len(f.Proofs) > 0 && r.Intn(3) > 0 {
			pk := f.Proofs[r.Intn(len(f.Proofs))]
			creator = strings.Split(pk, "/")[0]
		}
		if r.Intn(9) == 0 && strings.HasPrefix(creator, "jkl1") {
			// a prover is identified by the signer string as sent: the upper-case spelling is a second
			// prover identity of the same account (listed, challenged and counted separately, paid together)
			creator = strings.ToUpper(creator)
		}
		var challenge int64
		if p, found := c.A.StorageKeeper.GetProof(c.Ctx(), creator, f.Merkle, f.Owner, f.Start); found {
			challenge = p.ChunkToProve
		}
		toProve := challenge
		item, hl := []byte("garbage"), []byte("{}")
		df := g.data[hex.EncodeToString(f.Merkle)]
		mode := r.Intn(100)
		if df != nil && int(challenge) < len(df.chunks) && challenge >= 0 {
			item, hl = df.proof(int(challenge))
			switch {
			case mode < 70: // honest
			case mode < 75: // proof for another chunk
				o := r.Intn(len(df.chunks))
				item, hl = df.proof(o)
			case mode < 80: // right path, wrong item
				item = append([]byte{0x23}, item...)
			case mode < 82: // wrong ToProve
				toProve = challenge + 1
			case mode < 84: // a genuine proof of another chunk, announced as such (ToProve names that chunk)
				o := r.Intn(len(df.chunks))
				item, hl = df.proof(o)
				toProve = int64(o)
			case mode < 88: // truncated json
				hl = hl[:len(hl)/2]
			case mode < 92: // item of another chunk with this path
				item = df.chunks[r.Intn(len(df.chunks))]
			case mode < 95: // proof with index changed
				var p merkletree.Proof
				json.Unmarshal(hl, &p)
				p.Index = p.Index + 1
				hl, _ = json.Marshal(p)
			default: // dropped last hash
				var p merkletree.Proof
				json.Unmarshal(hl, &p)
				if len(p.Hashes) > 0 {
					p.Hashes = p.Hashes[:len(p.Hashes)-1]
				}
				hl, _ = json.Marshal(p)
			}
		}
		verified := f.VerifyProof(hl, challenge, item)
		msg := &sttypes.MsgPostProof{Creator: creator, Item: item, HashList: hl, Merkle: f.Merkle, Owner: f.Owner, Start: f.Start, ToProve: toProve}
		op := map[string]interface{}{"postProof": map[string]interface{}{"creator": creator, "merkle": hex.EncodeToString(f.Merkle), "owner": f.Owner, "start": f.Start, "toProve": toProve,
			"verified": verified, "nextChallenge": 0, "proof": decodedProofJ(hl), "item": hex.EncodeToString(item), "root": hex.EncodeToString(f.Merkle), "challenge": challenge}}
		merkle, owner, start := f.Merkle, f.Owner, f.Start
		return msg, op, func(pre, post stState, op map[string]interface{}) {
			if p, found := c.A.StorageKeeper.GetProof(c.Ctx(), creator, merkle, owner, start); found {
				op["postProof"].(map[string]interface{})["nextChallenge"] = p.ChunkToProve
			}
		}
	case k < m.buy+m.post+m.del+m.proof+m.prov:
		creator := g.user()
		if m.name != "forms" && r.Intn(5) == 0 {
			// provider and collateral records are keyed by the signer string as sent: the upper-case
			// spelling of an address is a second registration of the same account
			creator = strings.ToUpper(creator)
		}
		if m.name == "collateral" && r.Intn(6) == 0 {
			if provs := c.A.StorageKeeper.GetAllProviders(c.Ctx()); len(provs) > 0 { // any registered provider, also one that came with the genesis
				creator = provs[r.Intn(len(provs))].Address
				return &sttypes.MsgShutdownProvider{Creator: creator}, map[string]interface{}{"shutdownProvider": map[string]interface{}{"creator": creator}}, nil
			}
		}
		if _, found := c.A.StorageKeeper.GetProviders(c.Ctx(), creator); found && r.Intn(map[bool]int{true: 9, false: 3}[m.name == "forms"]) == 0 {
			return &sttypes.MsgShutdownProvider{Creator: creator}, map[string]interface{}{"shutdownProvider": map[string]interface{}{"creator": creator}}, nil
		}
		if r.Intn(map[bool]int{true: 25, false: 8}[m.name == "forms"]) == 0 {
			return &sttypes.MsgShutdownProvider{Creator: creator}, map[string]interface{}{"shutdownProvider": map[string]interface{}{"creator": creator}}, nil
		}
		ip := g.ips[r.Intn(len(g.ips))]
		msg := &sttypes.MsgInitProvider{Creator: creator, Ip: ip, Keybase: "kb", TotalSpace: int64(r.Intn(1000))}
		return msg, map[string]interface{}{"initProvider": map[string]interface{}{"creator": creator, "ip": ip, "keybase": "kb", "totalSpace": msg.TotalSpace, "ipValid": msg.ValidateBasic() == nil}}, nil
	case k < m.buy+m.post+m.del+m.proof+m.prov+m.forms:
		creator := g.user()
		merkle, owner, start := []byte{7}, creator, int64(1)
		prover := creator
		if len(files) > 0 {
			f := files[r.Intn(len(files))]
			for try := 0; try < 6 && len(f.Proofs) == 0; try++ { // forms are about files somebody claims to store
				f = files[r.Intn(len(files))]
			}
			merkle, owner, start = f.Merkle, f.Owner, f.Start
			if len(f.Proofs) > 0 && r.Intn(4) > 0 {
				prover = strings.Split(f.Proofs[r.Intn(len(f.Proofs))], "/")[0]
				creator = prover
			}
		}
		isReport := r.Intn(2) == 0
		if m.name == "forms" && r.Intn(6) > 0 {
			// state-directed: a listed prover that is a registered provider (a form can only be opened about one)
			type cand struct {
				f sttypes.UnifiedFile
				p string
			}
			var cands []cand
			for _, f := range files {
				for _, pk := range f.Proofs {
					pr := strings.Split(pk, "/")[0]
					if _, found := c.A.StorageKeeper.GetProviders(c.Ctx(), pr); found {
						cands = append(cands, cand{f, pr})
					}
				}
			}
			if len(cands) > 0 {
				cd := cands[r.Intn(len(cands))]
				merkle, owner, start = cd.f.Merkle, cd.f.Owner, cd.f.Start
				prover, creator = cd.p, cd.p
			}
		}
		subject := creator
		if isReport {
			subject = prover
			creator = g.user()
		}
		var chosen []string
		eligible := 0
		if prov, found := c.A.StorageKeeper.GetProviders(c.Ctx(), subject); found {
			act := c.A.StorageKeeper.GetActiveProviders(c.Ctx(), prov.Ip)
			eligible = len(act)
			for i := 0; i < int(params.AttestFormSize) && i < len(act); i++ {
				chosen = append(chosen, act[i].Address)
			}
		}
		if chosen == nil {
			chosen = []string{}
		}
		base := map[string]interface{}{"creator": creator, "merkle": hex.EncodeToString(merkle), "owner": owner, "start": start, "eligibleCount": eligible, "chosen": chosen}
		if isReport {
			base["prover"] = subject
			return &sttypes.MsgRequestReportForm{Creator: creator, Prover: subject, Merkle: merkle, Owner: owner, Start: start}, map[string]interface{}{"requestReport": base}, nil
		}
		return &sttypes.MsgRequestAttestationForm{Creator: creator, Merkle: merkle, Owner: owner, Start: start}, map[string]interface{}{"requestAttest": base}, nil
	case k < m.buy+m.post+m.del+m.proof+m.prov+m.forms+m.sign:
		creator := g.user()
		atts := c.A.StorageKeeper.GetAllAttestation(c.Ctx())
		reps := c.A.StorageKeeper.GetAllReport(c.Ctx())
		// a form that already carries the current minimum of signatures (the minimum was lowered, or is
		// zero): the next signature decides, so it comes from an outsider more often — or from the prover
		quorate := func(as []*sttypes.Attestation) bool {
			n := int64(0)
			for _, a := range as {
				if a.Complete {
					n++
				}
			}
			return n >= params.AttestMinToPass
		}
		outsider := func(as []*sttypes.Attestation, prover string) (string, bool) {
			if !quorate(as) || r.Intn(2) == 0 {
				return "", false
			}
			if r.Intn(3) == 0 {
				return prover, true
			}
			return g.user(), true
		}
		if r.Intn(2) == 0 && len(atts) > 0 {
			f := atts[r.Intn(len(atts))]
			if o, ok := outsider(f.Attestations, f.Prover); ok {
				creator = o
			} else if len(f.Attestations) > 0 && r.Intn(5) > 0 {
				creator = f.Attestations[r.Intn(len(f.Attestations))].Provider
				if r.Intn(3) == 0 { // somebody who has signed already signs again
					for _, a := range f.Attestations {
						if a.Complete {
							creator = a.Provider
						}
					}
				}
			}
			return &sttypes.MsgAttest{Creator: creator, Prover: f.Prover, Merkle: f.Merkle, Owner: f.Owner, Start: f.Start},
				map[string]interface{}{"attest": map[string]interface{}{"creator": creator, "prover": f.Prover, "merkle": hex.EncodeToString(f.Merkle), "owner": f.Owner, "start": f.Start}}, nil
		}
		if len(reps) > 0 {
			f := reps[r.Intn(len(reps))]
			if o, ok := outsider(f.Attestations, f.Prover); ok {
				creator = o
			} else if len(f.Attestations) > 0 && r.Intn(5) > 0 {
				creator = f.Attestations[r.Intn(len(f.Attestations))].Provider
				if r.Intn(3) == 0 { // somebody who has signed already signs again
					for _, a := range f.Attestations {
						if a.Complete {
							creator = a.Provider
						}
					}
				}
			}
			return &sttypes.MsgReport{Creator: creator, Prover: f.Prover, Merkle: f.Merkle, Owner: f.Owner, Start: f.Start},
				map[string]interface{}{"report": map[string]interface{}{"creator": creator, "prover": f.Prover, "merkle": hex.EncodeToString(f.Merkle), "owner": f.Owner, "start": f.Start}}, nil
		}
		other := g.user()
		return &sttypes.MsgAttest{Creator: creator, Prover: other, Merkle: []byte{5}, Owner: other, Start: 3},
			map[string]interface{}{"attest": map[string]interface{}{"creator": creator, "prover": other, "merkle": "05", "owner": other, "start": 3}}, nil
	default:
		creator := g.user()
		provs := c.A.StorageKeeper.GetAllProviders(c.Ctx())
		var prov *sttypes.Providers
		if len(provs) > 0 && r.Intn(4) > 0 { // mostly a registered provider managing its own record
			prov = &provs[r.Intn(len(provs))]
			creator = prov.Address
		}
		switch r.Intn(5) {
		case 0:
			ip := g.ips[r.Intn(len(g.ips))]
			msg := &sttypes.MsgSetProviderIP{Creator: creator, Ip: ip}
			return msg, map[string]interface{}{"setProviderIP": map[string]interface{}{"creator": creator, "ip": ip, "ipValid": msg.ValidateBasic() == nil}}, nil
		case 1:
			return &sttypes.MsgSetProviderKeybase{Creator: creator, Keybase: "kb2"}, map[string]interface{}{"setProviderKeybase": map[string]interface{}{"creator": creator, "keybase": "kb2"}}, nil
		case 2:
			sp := int64(r.Intn(5000)) - 100
			return &sttypes.MsgSetProviderTotalSpace{Creator: creator, Space: sp}, map[string]interface{}{"setProviderTotalSpace": map[string]interface{}{"creator": creator, "space": sp}}, nil
		case 3:
			cl := g.user()
			return &sttypes.MsgAddClaimer{Creator: creator, ClaimAddress: cl}, map[string]interface{}{"addClaimer": map[string]interface{}{"creator": creator, "claimer": cl}}, nil
		default:
			cl := g.user()
			if prov != nil && len(prov.AuthClaimers) > 0 && r.Intn(4) > 0 {
				cl = prov.AuthClaimers[r.Intn(len(prov.AuthClaimers))]
			}
			return &sttypes.MsgRemoveClaimer{Creator: creator, ClaimAddress: cl}, map[string]interface{}{"removeClaimer": map[string]interface{}{"creator": creator, "claimer": cl}}, nil
		}
	}
}

func runStorage(profile string, seed int64, histories, steps int, out *Emitter) {
	mix := storageMixes[profile]
	for hi := 0; hi < histories; hi++ {
		r := rand.New(rand.NewSource(seed*1000003 + int64(hi)))
		polRatios := [][2]int64{{40, 25}, {40, 25}, {30, 20}, {10, 5}, {60, 40}, {0, 0}, {5, 25}, {50, 50}}
		pr := polRatios[r.Intn(len(polRatios))]
		var seeded map[string]*dataFile
		noGauges := profile == "proofs" && hi%4 == 1
		chunk := mix.chunk
		if hi%5 == 3 && (profile == "proofs" || profile == "storage") {
			chunk = 2048 // larger than the compiled-in default (1024): nothing may take the default for the chain's value
		}
		mut := func(a *app.JackalApp, gs app.GenesisState, users []sdk.AccAddress) {
			cdc := a.AppCodec()
			sg := sttypes.DefaultGenesis()
			sg.Params.ProofWindow = mix.proofWindow + int64(r.Intn(4))
			sg.Params.CheckWindow = mix.checkWindow + int64(r.Intn(5))
			sg.Params.ChunkSize = chunk
			sg.Params.PolRatio, sg.Params.ReferralCommission = pr[0], pr[1]
			sg.Params.AttestFormSize = []int64{1, 1, 2, 2, 3, 4}[r.Intn(6)]
			sg.Params.AttestMinToPass = int64(r.Intn(int(sg.Params.AttestFormSize) + 1))
			sg.Params.CollateralPrice = []int64{2, 1000, 10_000_000_000}[r.Intn(3)]
			if r.Intn(3) == 0 {
				sg.Params.PricePerTbPerMonth = []int64{0, 1, 8, 15, 100}[r.Intn(5)]
			}
			seeded = map[string]*dataFile{}
			if r2 := rand.New(rand.NewSource(seed*31337 + int64(hi))); r2.Intn(3) == 0 {
				// files paid once whose term ran out long ago (as an exported genesis of an old chain carries
				// them): nothing removes them, providers may go on proving them
				for n := 1 + r2.Intn(2); n > 0; n-- {
					data := make([]byte, 1+r2.Intn(int(3*chunk)))
					r2.Read(data)
					df := mkDataFile(data, chunk)
					seeded[hex.EncodeToString(df.root)] = df
					sg.FileList = append(sg.FileList, sttypes.UnifiedFile{Merkle: df.root, Owner: users[r2.Intn(len(users))].String(), Start: 0,
						Expires: []int64{1, 3, 20, 60}[r2.Intn(4)], FileSize: int64(len(data)), ProofInterval: sg.Params.ProofWindow, ProofType: 0,
						Proofs: []string{}, MaxProofs: int64(1 + r2.Intn(3)), Note: `{"seeded":1}`})
				}
			}
			if profile == "collateral" && hi%2 == 1 {
				// more registered providers than one listing page holds, each with its collateral record,
				// the escrow account funded accordingly (a genesis exported from a grown network)
				var bg banktypes.GenesisState
				cdc.MustUnmarshalJSON(gs[banktypes.ModuleName], &bg)
				esc := authtypes.NewModuleAddress(sttypes.CollateralCollectorName).String()
				total := int64(0)
				for n := 0; n < 103; n++ {
					addr := sdk.AccAddress([]byte(fmt.Sprintf("seeded-provider-%04d", n))).String()
					amt := int64(1000 + n)
					total += amt
					seededGaugeAccs = append(seededGaugeAccs, addr) // tracked in the ledger abstraction from the first record on
					creatorField := addr
					if n%10 == 7 {
						creatorField = users[n%len(users)].String() // a record whose creator field names another account (a migrated genesis): the address it is stored under is the provider
					}
					sg.ProvidersList = append(sg.ProvidersList, sttypes.Providers{Address: addr, Ip: fmt.Sprintf("https://p%d.seeded.net", n), Totalspace: "1000000000", BurnedContracts: "0", Creator: creatorField, KeybaseIdentity: "", AuthClaimers: []string{}})
					sg.CollateralList = append(sg.CollateralList, sttypes.Collateral{Address: addr, Amount: amt})
				}
				bg.Balances = append(bg.Balances, banktypes.Balance{Address: esc, Coins: sdk.NewCoins(sdk.NewInt64Coin("ujkl", total))})
				bg.Supply = bg.Supply.Add(sdk.NewInt64Coin("ujkl", total))
				gs[banktypes.ModuleName] = cdc.MustMarshalJSON(&bg)
			}
			if (profile == "proofs" || profile == "storage") && hi%4 == 2 {
				// a few live gauges in another denomination next to the ujkl ones the messages open (only a genesis or an
				// upgrade can create them): reward blocks then release two denominations, and a small prover's share of
				// the scarce one rounds down to nothing
				var bg banktypes.GenesisState
				cdc.MustUnmarshalJSON(gs[banktypes.ModuleName], &bg)
				for n := 0; n < 5; n++ {
					id := sha256.Sum256([]byte(fmt.Sprintf("seeded-utest-gauge-%d", n)))
					pg := sttypes.PaymentGauge{Id: id[:], Start: time.Unix(genesisUnix, 0).UTC(), End: time.Unix(genesisUnix, 0).UTC().Add(time.Duration(1500+700*n) * 24 * time.Hour),
						Coins: sdk.NewCoins(sdk.NewInt64Coin("utest", int64(3+11*n)))}
					sg.PaymentGauges = append(sg.PaymentGauges, pg)
					acc, _ := sttypes.GetGaugeAccount(pg)
					seededGaugeAccs = append(seededGaugeAccs, acc.String())
					bg.Balances = append(bg.Balances, banktypes.Balance{Address: acc.String(), Coins: pg.Coins})
					bg.Supply = bg.Supply.Add(pg.Coins...)
				}
				gs[banktypes.ModuleName] = cdc.MustMarshalJSON(&bg)
			}
			if profile == "payments" && hi%4 == 3 {
				// more live payment gauges than one listing page holds, each escrow account funded with what its gauge
				// records (a genesis exported from a grown network right after the deposits)
				var bg banktypes.GenesisState
				cdc.MustUnmarshalJSON(gs[banktypes.ModuleName], &bg)
				for n := 0; n < 104; n++ {
					id := sha256.Sum256([]byte(fmt.Sprintf("seeded-gauge-%04d", n)))
					amt := int64(50_000 + 137*n)
					pg := sttypes.PaymentGauge{Id: id[:], Start: time.Unix(genesisUnix, 0).UTC(), End: time.Unix(genesisUnix, 0).UTC().Add(time.Duration(30+n) * 24 * time.Hour),
						Coins: sdk.NewCoins(sdk.NewInt64Coin("ujkl", amt))}
					if n%8 == 5 {
						// a gauge of two denominations (only a genesis or an upgrade can create one): a dust amount of the
						// denomination that sorts first next to a real amount of the other
						pg.Coins = sdk.NewCoins(sdk.NewInt64Coin("ujkl", 1), sdk.NewInt64Coin("utest", amt))
					}
					sg.PaymentGauges = append(sg.PaymentGauges, pg)
					acc, _ := sttypes.GetGaugeAccount(pg)
					seededGaugeAccs = append(seededGaugeAccs, acc.String())
					bg.Balances = append(bg.Balances, banktypes.Balance{Address: acc.String(), Coins: pg.Coins})
					bg.Supply = bg.Supply.Add(pg.Coins...)
				}
				gs[banktypes.ModuleName] = cdc.MustMarshalJSON(&bg)
			}
			if noGauges {
				// everybody holds a plan from genesis: files are posted against plans, no gauge ever exists
				for _, u := range users {
					sg.PaymentInfoList = append(sg.PaymentInfoList, sttypes.StoragePaymentInfo{Start: time.Unix(genesisUnix, 0).UTC(), End: time.Unix(genesisUnix, 0).UTC().AddDate(50, 0, 0),
						SpaceAvailable: 1 << 50, SpaceUsed: 0, Address: u.String()})
				}
			}
			gs[sttypes.ModuleName] = cdc.MustMarshalJSON(sg)
			mg := minttypes.DefaultGenesis()
			mg.Params.TokensPerBlock = 0 // no emission: the stakers' pool then only moves through storage purchases
			gs[minttypes.ModuleName] = cdc.MustMarshalJSON(mg)
			rg := rnstypes.DefaultGenesis()
			rg.NamesList = []rnstypes.Names{{Name: "alice", Tld: "jkl", Expires: 1 << 40, Value: users[1].String(), Data: "{}", Subdomains: []*rnstypes.Names{}}}
			if hi%2 == 0 && (profile == "payments" || profile == "storage") {
				// the price feed exists (owned by the first user): what a purchase costs then depends on what the feed says
				og := oracletypes.DefaultGenesis()
				og.FeedList = []oracletypes.Feed{{Owner: users[0].String(), Data: `{"price":"0.25","24h_change":"0"}`, LastUpdate: time.Unix(genesisUnix, 0).UTC(), Name: sg.Params.PriceFeed}}
				gs[oracletypes.ModuleName] = cdc.MustMarshalJSON(og)
			}
			gs[rnstypes.ModuleName] = cdc.MustMarshalJSON(rg)
		}
		if hi%2 == 1 {
			genesisPoorUsers = 1 // an account that can afford small prices only: transfers that fail half-way through a handler
		}
		seededGaugeAccs = nil
		if (profile == "plans" && hi%4 == 3) || (profile == "payments" && hi%4 == 2) {
			genesisUnix = 9214646400 // 2262-01-01: the chain's clock passes the last instant an int64 of nanoseconds can hold (2262-04-11)
		}
		c := NewChain(mix.users, []string{"ujkl", "utest"}, mut)
		genesisUnix = genesisUnixDefault
		seenGaugeAccs = append([]string{}, seededGaugeAccs...)
		g := &storageGen{c: c, r: r, data: map[string]*dataFile{}, mix: mix, qr: rand.New(rand.NewSource(seed*7919 + int64(hi) + 17)), noGauges: noGauges, out: out, hi: hi}
		for _, u := range c.Users {
			g.users = append(g.users, u.String())
		}
		for k, df := range seeded {
			g.data[k] = df
		}
		sort.Strings(g.users)
		g.ips = []string{"https://a.example.com", "https://b.example.com", "https://node.other.org", "http://10.0.0.1:3333", "https://x.jackal.io", "localhost", "https://single", "not a url", "https://c.example.com:443/path",
			"https://s1.alpha.net", "https://s2.beta.org", "https://gamma.io", "https://store.delta.dev", "https://eps.xyz:8080"}
		c.Begin(6 * time.Second)
		for i := 0; i < steps; i++ {
			if g.noBlock > 0 {
				g.noBlock--
			}
			restartNow := false
			if restartsOn && g.noBlock == 0 && g.qr.Intn(150) == 0 {
				// the network restarts from its own exported genesis: nothing the modules hold may change
				pre, _ := c.storageAbs(g.users)
				e := c.RestartInit()
				if e != "" {
					out.Emit(map[string]interface{}{"mod": "panic", "where": "restart", "hist": hi, "i": i, "h": c.H, "panic": e})
					out.Count(profile+".restart", false)
					break
				}
				post, bad := c.storageAbs(g.users)
				out.Emit(map[string]interface{}{"mod": "storage", "hist": hi, "i": i, "h": c.H, "now": unixNanoJ(c.T), "pre": pre, "op": "restart", "ok": true, "post": post, "badKeys": bad, "users": g.users,
					"genesis": c.storageGenesisJ()})
				out.Count(profile+".restart", true)
				restartNow = true // its first block follows at once
			}
			if restartNow || (g.noBlock == 0 && r.Intn(4) == 0) { // block boundary: one step record for the storage BeginBlocker
				dt := []time.Duration{6 * time.Second, 6 * time.Second, time.Hour, 24 * time.Hour, 10 * 24 * time.Hour, 40 * 24 * time.Hour, 400 * 24 * time.Hour}[r.Intn(7)]
				if r.Intn(3) > 0 {
					dt = 6 * time.Second
				}
				if r.Intn(3) == 0 { // real block times are not whole seconds apart
					dt += time.Duration(r.Intn(1000)) * time.Millisecond
				}
				nextIsReward := (c.H+1)%c.A.StorageKeeper.GetParams(c.Ctx()).CheckWindow == 0
				if r.Intn(8) == 0 || (nextIsReward && r.Intn(3) == 0) { // the next block lands right at / just after the end of some gauge
					gs := c.A.StorageKeeper.GetAllPaymentGauges(c.Ctx())
					if len(gs) > 0 {
						if d := gs[r.Intn(len(gs))].End.Sub(c.T); d > 0 && d < 500*24*time.Hour {
							dt = d + []time.Duration{0, time.Microsecond, 300 * time.Millisecond, 999 * time.Millisecond, -time.Microsecond, 2 * time.Second}[r.Intn(6)]
							if dt <= 0 {
								dt = time.Microsecond
							}
						}
					}
				}
				if c.InBlk {
					if p, _ := c.End(); p != nil {
						out.Emit(map[string]interface{}{"mod": "panic", "where": "EndBlock", "h": c.H, "panic": fmt.Sprint(p)})
						break
					}
				}
				pre, _ := c.storageAbs(g.users)
				if p := c.Begin(dt); p != nil {
					out.Emit(map[string]interface{}{"mod": "panic", "where": "BeginBlock", "hist": hi, "i": i, "h": c.H, "panic": fmt.Sprint(p)})
					out.Count(profile+".block-panic", false)
					break
				}
				post, bad := c.storageAbs(g.users)
				out.Emit(map[string]interface{}{"mod": "storage", "hist": hi, "i": i, "h": c.H, "now": unixNanoJ(c.T), "pre": pre, "op": "block", "ok": true, "post": post, "badKeys": bad, "users": g.users})
				reward := c.H%c.A.StorageKeeper.GetParams(c.Ctx()).CheckWindow == 0
				if reward {
					out.Count(profile+".rewardBlock", true)
				} else {
					out.Count(profile+".block", true)
				}
				continue
			}
			govEvery := 45
			if profile == "collateral" {
				govEvery = 9
			} else if profile == "forms" {
				govEvery = 14 // forms are short-lived: the quorum parameters must move while some are open
			}
			if r.Intn(govEvery) == 0 {
				// a governance parameter change between two messages (the params subspace is written
				// the way a passed param-change proposal writes it: SetParamSet with the validators)
				pre, _ := c.storageAbs(g.users)
				np := c.A.StorageKeeper.GetParams(c.Ctx())
				nCases := 4
				if mix.forms+mix.sign > 0 {
					nCases = 9
				}
				gcase := r.Intn(nCases)
				if g.qr.Intn(5) == 0 {
					gcase = 7 // the proof window moves: files keep the interval they were posted with
				}
				switch gcase {
				case 7:
					np.ProofWindow = []int64{np.ProofWindow * 3, np.ProofWindow + 40, np.ProofWindow / 2, 2, 500}[g.qr.Intn(5)]
					if np.ProofWindow < 2 {
						np.ProofWindow = 2
					}
				case 4, 5: // the quorum moves while forms are collecting signatures
					np.AttestMinToPass = int64(r.Intn(int(np.AttestFormSize) + 1))
					if r.Intn(2) == 0 && np.AttestMinToPass > 0 {
						np.AttestMinToPass--
					}
					if profile == "forms" {
						g.signSoon = 1 + r.Intn(3)
					}
				case 6, 8: // the form size moves while forms of the old size are open
					np.AttestFormSize = []int64{1, 2, 2, 3, 3, 4}[r.Intn(6)]
					if np.AttestMinToPass > np.AttestFormSize && r.Intn(3) > 0 {
						// (not always: each key has its own validator, a proposal may leave the minimum above the size)
						np.AttestMinToPass = np.AttestFormSize
					}
					if profile == "forms" {
						// forms opened under the old size are still collecting signatures: the size grows past
						// the largest open form while the minimum stays at two or more, and signatures follow
						open_ := 0
						for _, f := range c.A.StorageKeeper.GetAllReport(c.Ctx()) {
							if len(f.Attestations) > open_ {
								open_ = len(f.Attestations)
							}
						}
						for _, f := range c.A.StorageKeeper.GetAllAttestation(c.Ctx()) {
							if len(f.Attestations) > open_ {
								open_ = len(f.Attestations)
							}
						}
						if open_ > 0 && r.Intn(2) == 0 {
							np.AttestFormSize = int64(open_ + 1 + r.Intn(2))
							np.AttestMinToPass = int64(2 + r.Intn(open_))
							if np.AttestMinToPass > np.AttestFormSize {
								np.AttestMinToPass = np.AttestFormSize
							}
						}
						g.signSoon = 2 + r.Intn(3)
					}
				case 0, 1:
					np.CollateralPrice = []int64{0, 1, 2, 3, 1000, 5000, 10_000_000_000, np.CollateralPrice * 2, np.CollateralPrice / 2}[r.Intn(9)]
				case 2:
					np.PricePerTbPerMonth = []int64{0, 1, 8, 15, 100}[r.Intn(5)]
				case 3:
					pr := polRatios[r.Intn(len(polRatios))]
					np.PolRatio, np.ReferralCommission = pr[0], pr[1]
				}
				ok := true
				func() {
					defer func() {
						if recover() != nil {
							ok = false
						}
					}()
					old := c.A.StorageKeeper.GetParams(c.Ctx())
					ch := map[string]int64{}
					if np.CollateralPrice != old.CollateralPrice {
						ch["CollateralPrice"] = np.CollateralPrice
					}
					if np.PricePerTbPerMonth != old.PricePerTbPerMonth {
						ch["PricePerTbPerMonth"] = np.PricePerTbPerMonth
					}
					if np.PolRatio != old.PolRatio {
						ch["POLRatio"] = np.PolRatio
					}
					if np.ReferralCommission != old.ReferralCommission {
						ch["Referrals"] = np.ReferralCommission
					}
					if np.AttestMinToPass != old.AttestMinToPass {
						ch["AttestMinToPass"] = np.AttestMinToPass
					}
					if np.AttestFormSize != old.AttestFormSize {
						ch["AttestFormSize"] = np.AttestFormSize
					}
					if np.ProofWindow != old.ProofWindow {
						ch["ProofWindow"] = np.ProofWindow
					}
					// like a proposal: all changes or none
					cctx, write := c.Ctx().CacheContext()
					if err := c.GovSetParams(cctx, sttypes.ModuleName, ch); err != nil {
						ok = false
					} else {
						write()
					}
				}()
				post, bad := c.storageAbs(g.users)
				// the op names the parameters governance *asked for*, not what ended up in the store
				want := map[string]interface{}{}
				for k, v := range pre.Params {
					want[k] = v
				}
				want["collateralPrice"], want["pricePerTbPerMonth"], want["polRatio"], want["referralCommission"] = np.CollateralPrice, np.PricePerTbPerMonth, np.PolRatio, np.ReferralCommission
				want["attestMinToPass"], want["attestFormSize"] = np.AttestMinToPass, np.AttestFormSize
				want["proofWindow"] = np.ProofWindow
				out.Emit(map[string]interface{}{"mod": "storage", "hist": hi, "i": i, "h": c.H, "now": unixNanoJ(c.T), "pre": pre, "op": map[string]interface{}{"setParams": want}, "ok": ok, "post": post, "badKeys": bad, "users": g.users})
				out.Count(profile+".setParams", ok)
				continue
			}
			if queriesOn && g.qr.Intn(4) == 0 { // a query record: the query server answers on the current state
				qst, _ := c.storageAbs(g.users)
				save := g.r
				g.r = g.qr
				q, resp, kind := g.queryStep()
				g.r = save
				out.Emit(map[string]interface{}{"mod": "query", "sub": "storage", "hist": hi, "i": i, "h": c.H, "now": unixNanoJ(c.T), "state": qst, "q": q, "resp": resp})
				out.Count("query.storage."+kind, resp != "err")
			}
			msg, op, fill := g.next()
			pre, _ := c.storageAbs(g.users)
			res := c.Deliver(msg)
			post, bad := c.storageAbs(g.users)
			if fill != nil {
				fill(pre, post, op)
			}
			success := interface{}(nil)
			if res.OK {
				switch msg.(type) {
				case *sttypes.MsgPostProof:
					var rr sttypes.MsgPostProofResponse
					if rr.Unmarshal(res.Data) == nil {
						success = rr.Success
					}
				case *sttypes.MsgRequestAttestationForm:
					var rr sttypes.MsgRequestAttestationFormResponse
					if rr.Unmarshal(res.Data) == nil {
						success = rr.Success
						res.Err = rr.Error
					}
				case *sttypes.MsgRequestReportForm:
					var rr sttypes.MsgRequestReportFormResponse
					if rr.Unmarshal(res.Data) == nil {
						success = rr.Success
						res.Err = rr.Error
					}
				}
			}
			out.Emit(map[string]interface{}{"mod": "storage", "hist": hi, "i": i, "h": c.H, "now": unixNanoJ(c.T), "pre": pre, "op": op, "ok": res.OK, "err": res.Err, "success": success, "post": post, "badKeys": bad, "users": g.users})
			okc := res.OK
			if s, isB := success.(bool); isB {
				okc = s
			}
			out.Count(profile+"."+opKind(op), okc)
		}
		if withGenesis {
			genesisRoundTrip(c, hi, profile, out)
		}
		c.Close()
	}
}

var _ = bytes.Equal

// storageGenesisJ decodes the storage part of the last exported application state into the records the model
// speaks about, list by list and in the exported order (the Lean model's `Genesis.Storage.exportGenesis` must
// produce exactly these lists from the state before the restart, and its `initGenesis` the state after it).
func (c *Chain) storageGenesisJ() interface{} {
	var app map[string]json.RawMessage
	if json.Unmarshal(c.LastExport, &app) != nil {
		return nil
	}
	var gs sttypes.GenesisState
	if err := c.A.AppCodec().UnmarshalJSON(app[sttypes.ModuleName], &gs); err != nil {
		return map[string]interface{}{"error": err.Error()}
	}
	var bad []string
	files, provs, pays, colls, act, reps, atts, gauges, proofs := []interface{}{}, []interface{}{}, []interface{}{}, []interface{}{}, []string{}, []interface{}{}, []interface{}{}, []interface{}{}, []interface{}{}
	for _, f := range gs.FileList {
		files = append(files, fileJ(f, &bad))
	}
	for _, p := range gs.ProvidersList {
		provs = append(provs, providerJ(p))
	}
	for _, p := range gs.PaymentInfoList {
		pays = append(pays, payinfoJ(p))
	}
	for _, x := range gs.CollateralList {
		colls = append(colls, map[string]interface{}{"address": x.Address, "amount": x.Amount})
	}
	for _, a := range gs.ActiveProvidersList {
		act = append(act, a.Address)
	}
	for _, f := range gs.ReportForms {
		reps = append(reps, formJ(f.Prover, f.Merkle, f.Owner, f.Start, f.Attestations))
	}
	for _, f := range gs.AttestForms {
		atts = append(atts, formJ(f.Prover, f.Merkle, f.Owner, f.Start, f.Attestations))
	}
	for _, g := range gs.PaymentGauges {
		gauges = append(gauges, gaugeJ(g))
	}
	for _, p := range gs.ProofList {
		proofs = append(proofs, proofJ(p))
	}
	p := gs.Params
	return map[string]interface{}{
		"params": map[string]interface{}{"proofWindow": p.ProofWindow, "checkWindow": p.CheckWindow, "chunkSize": p.ChunkSize, "pricePerTbPerMonth": p.PricePerTbPerMonth,
			"collateralPrice": p.CollateralPrice, "attestFormSize": p.AttestFormSize, "attestMinToPass": p.AttestMinToPass, "referralCommission": p.ReferralCommission, "polRatio": p.PolRatio},
		"fileList": files, "providersList": provs, "paymentInfoList": pays, "collateralList": colls, "activeProvidersList": act,
		"reportForms": reps, "attestForms": atts, "paymentGauges": gauges, "proofList": proofs, "validateOk": gs.Validate() == nil}
}
