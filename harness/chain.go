package main

// Chain drives the assembled JackalApp (real bank/auth/params keepers, in-memory DB) the way
// baseapp does: BeginBlock / messages on a cache-wrapped context committed iff the handler
// returned a nil error / EndBlock / Commit.  Panics inside a message are a failed message
// (runTx recovers them); panics inside BeginBlock/EndBlock are reported, never swallowed.

import (
	"encoding/json"
	"fmt"
	"io"
	"math/big"
	"os"
	"sort"
	"time"

	"github.com/CosmWasm/wasmd/x/wasm"
	codectypes "github.com/cosmos/cosmos-sdk/codec/types"
	cryptocodec "github.com/cosmos/cosmos-sdk/crypto/codec"
	"github.com/cosmos/cosmos-sdk/crypto/keys/secp256k1"
	"github.com/cosmos/cosmos-sdk/store/prefix"
	sdk "github.com/cosmos/cosmos-sdk/types"
	authtypes "github.com/cosmos/cosmos-sdk/x/auth/types"
	banktypes "github.com/cosmos/cosmos-sdk/x/bank/types"
	stakingtypes "github.com/cosmos/cosmos-sdk/x/staking/types"
	"github.com/jackalLabs/canine-chain/v4/app"
	abci "github.com/tendermint/tendermint/abci/types"
	tmed "github.com/tendermint/tendermint/crypto/ed25519"
	tmenc "github.com/tendermint/tendermint/crypto/encoding"
	"github.com/tendermint/tendermint/libs/log"
	tmproto "github.com/tendermint/tendermint/proto/tendermint/types"
	tmtypes "github.com/tendermint/tendermint/types"
	dbm "github.com/tendermint/tm-db"
)

type Chain struct {
	A      *app.JackalApp
	H      int64
	T      time.Time
	valSet *tmtypes.ValidatorSet
	Users  []sdk.AccAddress
	Privs  []*secp256k1.PrivKey
	InBlk  bool
	home   string
	db     dbm.DB
	// restarted: InitChain ran on a fresh application and its first block has not begun yet
	restarted bool
	// LastExport: the application state the last RestartInit exported (raw genesis JSON)
	LastExport json.RawMessage
}

// GenesisMutator lets a profile adjust the default genesis (params, seeded records).
type GenesisMutator func(cdcApp *app.JackalApp, gs app.GenesisState, users []sdk.AccAddress)

var bech32Done = false

func setBech32() {
	if bech32Done {
		return
	}
	cfg := sdk.GetConfig()
	cfg.SetBech32PrefixForAccount("jkl", "jklpub")
	bech32Done = true
}

// genesisUnix: the block time the next NewChain starts at (reset to the default after use)
var genesisUnix int64 = genesisUnixDefault

const genesisUnixDefault = 1700000000

// genesisInitialHeight: the height the next NewChain starts at (genesis.json initial_height); reset to 1 after use
var genesisInitialHeight int64 = 1

// genesisPoorUsers: the last k users of the next NewChain hold a few thousand base units only (they can pay
// small prices and fail on larger ones); reset to 0 after use
var genesisPoorUsers int

// traceW: when VERIF_TRACE names a file, every store operation of every application object is traced into it
var traceW *os.File

func tracer() *os.File {
	if traceW == nil && os.Getenv("VERIF_TRACE") != "" {
		traceW, _ = os.Create(os.Getenv("VERIF_TRACE"))
	}
	return traceW
}

func NewChain(n int, denoms []string, mut GenesisMutator) *Chain {
	setBech32()
	home, _ := os.MkdirTemp("", "verifharness")
	db := dbm.NewMemDB()
	var tw io.Writer
	if t := tracer(); t != nil {
		tw = t
	}
	a := app.NewJackalApp(log.NewNopLogger(), db, tw, true, map[int64]bool{}, home, 0, app.MakeEncodingConfig(), wasm.EnableAllProposals, app.EmptyBaseAppOptions{}, nil)
	gs := app.NewDefaultGenesisState()
	cdc := a.AppCodec()
	// deterministic validator key
	valPriv := tmed.GenPrivKeyFromSecret([]byte("verif-validator"))
	validator := tmtypes.NewValidator(valPriv.PubKey(), 1)
	valSet := tmtypes.NewValidatorSet([]*tmtypes.Validator{validator})
	var genAccs []authtypes.GenesisAccount
	var balances []banktypes.Balance
	var users []sdk.AccAddress
	var privs []*secp256k1.PrivKey
	for i := 0; i < n; i++ {
		pk := secp256k1.GenPrivKeyFromSecret([]byte(fmt.Sprintf("user%d", i)))
		acc := authtypes.NewBaseAccount(pk.PubKey().Address().Bytes(), pk.PubKey(), uint64(i), 0)
		genAccs = append(genAccs, acc)
		u := sdk.AccAddress(pk.PubKey().Address())
		users = append(users, u)
		privs = append(privs, pk)
		coins := sdk.NewCoins()
		for _, d := range denoms {
			if i >= n-genesisPoorUsers {
				coins = coins.Add(sdk.NewInt64Coin(d, 3000))
			} else {
				coins = coins.Add(sdk.NewInt64Coin(d, 1e15))
			}
		}
		balances = append(balances, banktypes.Balance{Address: u.String(), Coins: coins})
	}
	gs[authtypes.ModuleName] = cdc.MustMarshalJSON(authtypes.NewGenesisState(authtypes.DefaultParams(), genAccs))
	bondAmt := sdk.NewInt(1000000)
	var validators []stakingtypes.Validator
	var delegations []stakingtypes.Delegation
	for _, val := range valSet.Validators {
		pk, _ := cryptocodec.FromTmPubKeyInterface(val.PubKey)
		pkAny, _ := codectypes.NewAnyWithValue(pk)
		validators = append(validators, stakingtypes.Validator{
			OperatorAddress: sdk.ValAddress(val.Address).String(), ConsensusPubkey: pkAny, Status: stakingtypes.Bonded,
			Tokens: bondAmt, DelegatorShares: sdk.OneDec(), UnbondingTime: time.Unix(0, 0).UTC(),
			Commission: stakingtypes.NewCommission(sdk.ZeroDec(), sdk.ZeroDec(), sdk.ZeroDec()), MinSelfDelegation: sdk.ZeroInt(),
		})
		delegations = append(delegations, stakingtypes.NewDelegation(genAccs[0].GetAddress(), val.Address.Bytes(), sdk.OneDec()))
	}
	gs[stakingtypes.ModuleName] = cdc.MustMarshalJSON(stakingtypes.NewGenesisState(stakingtypes.DefaultParams(), validators, delegations))
	total := sdk.NewCoins()
	for _, b := range balances {
		total = total.Add(b.Coins...)
	}
	total = total.Add(sdk.NewCoin(sdk.DefaultBondDenom, bondAmt))
	balances = append(balances, banktypes.Balance{Address: authtypes.NewModuleAddress(stakingtypes.BondedPoolName).String(), Coins: sdk.Coins{sdk.NewCoin(sdk.DefaultBondDenom, bondAmt)}})
	gs[banktypes.ModuleName] = cdc.MustMarshalJSON(banktypes.NewGenesisState(banktypes.DefaultGenesisState().Params, balances, total, nil))
	if mut != nil {
		mut(a, gs, users)
	}
	stateBytes, err := json.Marshal(gs)
	if err != nil {
		panic(err)
	}
	c := &Chain{A: a, H: genesisInitialHeight, T: time.Unix(genesisUnix, 0).UTC(), valSet: valSet, Users: users, Privs: privs, home: home, db: db}
	a.InitChain(abci.RequestInitChain{ConsensusParams: app.DefaultConsensusParams, AppStateBytes: stateBytes, Time: c.T, ChainId: "verif-1", InitialHeight: genesisInitialHeight})
	a.Commit()
	genesisInitialHeight = 1
	genesisPoorUsers = 0
	return c
}

func (c *Chain) Close() { os.RemoveAll(c.home) }

func (c *Chain) hdr() tmproto.Header {
	return tmproto.Header{ChainID: "verif-1", Height: c.H, Time: c.T, ValidatorsHash: c.valSet.Hash(), NextValidatorsHash: c.valSet.Hash(), ProposerAddress: c.valSet.Validators[0].Address}
}

// Begin starts block H+1 at time T+dt; returns the panic value if BeginBlock panicked.
func (c *Chain) Begin(dt time.Duration) (p interface{}) {
	c.H++
	c.T = c.T.Add(dt)
	defer func() {
		if r := recover(); r != nil {
			p = r
		}
	}()
	c.restarted = false
	c.A.BeginBlock(abci.RequestBeginBlock{Header: c.hdr()})
	c.InBlk = true
	return nil
}

// End finishes the block; returns the panic value if EndBlock panicked.
func (c *Chain) End() (p interface{}, appHash []byte) {
	if c.restarted { // nothing to end: the first block of the restarted application has not begun
		return nil, nil
	}
	defer func() {
		if r := recover(); r != nil {
			p = r
		}
	}()
	c.A.EndBlock(abci.RequestEndBlock{Height: c.H})
	res := c.A.Commit()
	c.InBlk = false
	return nil, res.Data
}

// NextBlock = End (if inside a block) + Begin.
func (c *Chain) NextBlock(dt time.Duration) (p interface{}) {
	if c.InBlk && !c.restarted {
		if p, _ := c.End(); p != nil {
			return p
		}
	}
	return c.Begin(dt)
}

// Ctx reads the deliver state inside a block and the last committed state between blocks.
func (c *Chain) Ctx() sdk.Context { return c.A.NewContext(!c.InBlk, c.hdr()) }

type DeliverResult struct {
	OK     bool
	Err    string
	Panic  bool
	Data   []byte
	Events sdk.Events
}

// Deliver = ValidateBasic + handler on a cache context, written iff err == nil (runMsgs).
func (c *Chain) Deliver(msg sdk.Msg) (r DeliverResult) {
	defer func() {
		if rec := recover(); rec != nil {
			r = DeliverResult{OK: false, Err: fmt.Sprintf("PANIC: %v", rec), Panic: true}
		}
	}()
	if err := msg.ValidateBasic(); err != nil {
		return DeliverResult{OK: false, Err: "validatebasic: " + err.Error()}
	}
	handler := c.A.MsgServiceRouter().Handler(msg)
	if handler == nil {
		return DeliverResult{OK: false, Err: "no handler"}
	}
	cctx, write := c.Ctx().CacheContext()
	res, err := handler(cctx, msg)
	if err != nil {
		return DeliverResult{OK: false, Err: err.Error()}
	}
	write()
	out := DeliverResult{OK: true}
	if res != nil {
		out.Data = res.Data
		out.Events = res.GetEvents()
	}
	return out
}

// RawStore iterates a module store under a prefix and returns key (without prefix) → value.
func (c *Chain) RawStore(storeName string, pfx string) [][2][]byte {
	key := c.A.VerifStoreKey(storeName)
	st := prefix.NewStore(c.Ctx().KVStore(key), []byte(pfx))
	it := st.Iterator(nil, nil)
	defer it.Close()
	var out [][2][]byte
	for ; it.Valid(); it.Next() {
		k := append([]byte{}, it.Key()...)
		v := append([]byte{}, it.Value()...)
		out = append(out, [2][]byte{k, v})
	}
	return out
}

// ---- JSON helpers: maps are arrays of [key, value] pairs sorted by key; big ints are bare numbers.

type Pair [2]interface{}

type BigNum struct{ *big.Int }

func (b BigNum) MarshalJSON() ([]byte, error) { return []byte(b.String()), nil }

func Num(i sdk.Int) BigNum { return BigNum{i.BigInt()} }

// BankAbs lists every (address, denom) balance of the tracked accounts.
func (c *Chain) BankAbs(tracked []string) []Pair {
	out := []Pair{}
	ctx := c.Ctx()
	sorted := append([]string{}, tracked...)
	sort.Strings(sorted)
	seen := map[string]bool{}
	for _, a := range sorted {
		if seen[a] {
			continue
		}
		seen[a] = true
		addr, err := sdk.AccAddressFromBech32(a)
		if err != nil {
			continue
		}
		for _, coin := range c.A.BankKeeper.GetAllBalances(ctx, addr) {
			out = append(out, Pair{[]string{a, coin.Denom}, Num(coin.Amount)})
		}
	}
	return out
}

func (c *Chain) ModuleAddr(name string) string {
	return c.A.AccountKeeper.GetModuleAddress(name).String()
}

func (c *Chain) BlockedAddrs() []string {
	out := []string{}
	for a := range c.A.ModuleAccountAddrs() {
		if c.A.BankKeeper.BlockedAddr(sdk.MustAccAddressFromBech32(a)) {
			out = append(out, a)
		}
	}
	sort.Strings(out)
	return out
}

// GovSetParams changes single parameters of a module by key, the way a passed parameter-change
// proposal does (x/params Subspace.Update: amino-JSON value, the pair's validator, the store key of
// the pair) — not through the keeper's whole-struct SetParams, to which a mix-up of keys is invisible.
// `changes` maps the store key to the new int64 value.  Applied in order of the sorted keys.
func (c *Chain) GovSetParams(ctx sdk.Context, subspace string, changes map[string]int64) error {
	ss, ok := c.A.VerifSubspace(subspace)
	if !ok {
		return fmt.Errorf("no subspace %s", subspace)
	}
	keys := make([]string, 0, len(changes))
	for k := range changes {
		keys = append(keys, k)
	}
	sort.Strings(keys)
	for _, k := range keys {
		if err := ss.Update(ctx, []byte(k), []byte(fmt.Sprintf("\"%d\"", changes[k]))); err != nil {
			return err
		}
	}
	return nil
}

// RestartInit does what a hard-fork restart of the network does, up to the first block: export the
// whole application state (every module's ExportGenesis at the last committed height), start a
// fresh application on an empty database and InitChain it from that export at the next height.
// Afterwards the chain is "inside" the not yet begun first block: the imported state is readable
// through Ctx() and Begin() starts the block that follows the last block of the old application.
// Returns an error text when the chain's own export / import refuses.
func (c *Chain) RestartInit() (errText string) {
	defer func() {
		if r := recover(); r != nil {
			errText = fmt.Sprint("restart panic: ", r)
		}
	}()
	if c.InBlk {
		if p, _ := c.End(); p != nil {
			return fmt.Sprint("EndBlock panic: ", p)
		}
	}
	exp, err := c.A.ExportAppStateAndValidators(false, nil)
	if err != nil {
		return "export: " + err.Error()
	}
	if exp.Height != c.H+1 {
		return fmt.Sprintf("export height %d, expected %d", exp.Height, c.H+1)
	}
	c.LastExport = exp.AppState
	home, _ := os.MkdirTemp("", "verifharness")
	ndb := dbm.NewMemDB()
	a := app.NewJackalApp(log.NewNopLogger(), ndb, nil, true, map[int64]bool{}, home, 0, app.MakeEncodingConfig(), wasm.EnableAllProposals, app.EmptyBaseAppOptions{}, nil)
	var vals []abci.ValidatorUpdate
	for _, v := range exp.Validators {
		pk, err := tmenc.PubKeyToProto(v.PubKey)
		if err != nil {
			return "validator key: " + err.Error()
		}
		vals = append(vals, abci.ValidatorUpdate{PubKey: pk, Power: v.Power})
	}
	a.InitChain(abci.RequestInitChain{ConsensusParams: exp.ConsensusParams, AppStateBytes: exp.AppState, Time: c.T, ChainId: "verif-1", InitialHeight: exp.Height, Validators: vals})
	os.RemoveAll(c.home)
	c.A, c.home, c.db = a, home, ndb
	c.InBlk = true // the InitChain state lives in the deliver state until the first block commits
	c.restarted = true
	return ""
}

// Restart = RestartInit + the first block of the new application.
func (c *Chain) Restart(dt time.Duration) (errText string, p interface{}) {
	if e := c.RestartInit(); e != "" {
		return e, nil
	}
	return "", c.Begin(dt)
}

// Reopen is a restart of the node *process*: a new application object (fresh keepers, nothing kept
// in memory) over the same database, loading the last committed state.  Between blocks only.
func (c *Chain) Reopen() {
	if c.InBlk {
		panic("Reopen inside a block")
	}
	home, _ := os.MkdirTemp("", "verifharness")
	var tw io.Writer
	if t := tracer(); t != nil {
		tw = t
	}
	a := app.NewJackalApp(log.NewNopLogger(), c.db, tw, true, map[int64]bool{}, home, 0, app.MakeEncodingConfig(), wasm.EnableAllProposals, app.EmptyBaseAppOptions{}, nil)
	os.RemoveAll(c.home)
	c.A, c.home = a, home
}
