package main

// Profile "filetree": owners, editors, viewers and strangers over a small tree of hashed paths;
// path/account/id strings from a crafted alphabet ('/', empty, look-alikes of stored
// "address/owner" pairs); ownership moved and the old owner acting; editors re-posting.
// Also emits pure "path" records: MerklePath / AddToMerkle of generated path strings (C20).

import (
	"crypto/sha256"
	"encoding/json"
	"fmt"
	"math/rand"
	"sort"
	"strings"
	"time"

	sdk "github.com/cosmos/cosmos-sdk/types"
	ftkeeper "github.com/jackalLabs/canine-chain/v4/x/filetree/keeper"
	fttypes "github.com/jackalLabs/canine-chain/v4/x/filetree/types"
)

func hexHash(s string) string { return fmt.Sprintf("%x", sha256.Sum256([]byte(s))) }

func aclJ(raw string) interface{} {
	m := make(map[string]string)
	if err := json.Unmarshal([]byte(raw), &m); err != nil {
		return map[string]interface{}{"raw": map[string]interface{}{"s": raw}}
	}
	if m == nil { // the JSON text null: reads work, assignment panics
		return "null"
	}
	keys := []string{}
	for k := range m {
		keys = append(keys, k)
	}
	sort.Strings(keys)
	ps := []interface{}{}
	for _, k := range keys {
		ps = append(ps, []interface{}{k, m[k]})
	}
	return map[string]interface{}{"map": map[string]interface{}{"m": ps}}
}

type ftState struct {
	Files   []Pair `json:"files"`
	Pubkeys []Pair `json:"pubkeys"`
}

func (c *Chain) ftAbs() (ftState, []string) {
	cdc := c.A.AppCodec()
	st := ftState{Files: []Pair{}, Pubkeys: []Pair{}}
	bad := []string{}
	for _, kv := range c.RawStore(fttypes.StoreKey, fttypes.FilesKeyPrefix) {
		var f fttypes.Files
		cdc.MustUnmarshal(kv[1], &f)
		parts := strings.Split(string(kv[0]), "/")
		var a, o string
		if len(parts) == 3 && parts[2] == "" {
			a, o = parts[0], parts[1]
		} else {
			bad = append(bad, string(kv[0]))
			a, o = string(kv[0]), ""
		}
		st.Files = append(st.Files, Pair{[]string{a, o}, map[string]interface{}{
			"address": f.Address, "owner": f.Owner, "contents": f.Contents, "viewers": aclJ(f.ViewingAccess), "editors": aclJ(f.EditAccess), "tracking": f.TrackingNumber}})
	}
	for _, kv := range c.RawStore(fttypes.StoreKey, fttypes.PubkeyKeyPrefix) {
		var p fttypes.Pubkey
		cdc.MustUnmarshal(kv[1], &p)
		st.Pubkeys = append(st.Pubkeys, Pair{strings.TrimSuffix(string(kv[0]), "/"), p.Key})
	}
	return st, bad
}

var ftSegs = []string{"home", "docs", "pics", "a", "b", "日本", "x y", "", "s", "50% off", "100%", "a%%b", "%s", "%5d", "tab\there", "quote\"q", "é",
	"cafe\u0301.txt", "caf\u00e9.txt", "\u212b", "\ufb01le", ".", "..",
	// white space at the edges of a segment is part of the name (a client that trims it posts elsewhere)
	"notes.txt ", " lead", " ", "tab\t", "\u30e1\u30e2\u3000", "\n"}

// clientJ: what the client-side message builder puts into MsgPostFile for a plain path
func clientJ(path string) []string {
	m, err := fttypes.CreateMsgPostFile("jkl1xxxxxxxxxxxxxxxxxxxxxxxxxxxxxxxxxxxxxx", path, []byte("{}"), "t")
	if err != nil || m == nil {
		return []string{"error", "error"}
	}
	return []string{m.HashParent, m.HashChild}
}

func helperJ(path string) []string {
	a, b := fttypes.MerkleHelper(path)
	return []string{a, b}
}

func randPath(r *rand.Rand) string {
	n := 1 + r.Intn(4)
	segs := []string{"s"}
	for i := 0; i < n; i++ {
		segs = append(segs, ftSegs[r.Intn(len(ftSegs))])
	}
	p := strings.Join(segs, "/")
	if r.Intn(6) == 0 {
		p += "/"
	}
	return p
}

func runFiletree(seed int64, histories, steps int, out *Emitter) {
	for hi := 0; hi < histories; hi++ {
		r := rand.New(rand.NewSource(seed*1000003 + int64(hi)))
		c := NewChain(4, []string{"ujkl"}, nil)
		actors := []string{}
		for _, u := range c.Users {
			actors = append(actors, u.String())
		}
		// one account also signs under the all-upper-case spelling of its address (valid bech32, same
		// signer): identities in the file tree are hashes of the signer string as sent
		actors = append(actors, strings.ToUpper(actors[1]))
		c.Begin(6 * time.Second)
		tracking := func() string { return fmt.Sprintf("t%d", r.Intn(4)) }
		mkAcl := func(kind string, tr string, who []string) string {
			m := map[string]string{}
			for _, w := range who {
				if kind == "e" {
					m[ftkeeper.MakeEditorAddress(tr, w)] = "k" + w[len(w)-3:]
				} else {
					m[ftkeeper.MakeViewerAddress(tr, w)] = "k" + w[len(w)-3:]
				}
			}
			b, _ := json.Marshal(m)
			return string(b)
		}
		crafted := func() string {
			files := c.A.FileTreeKeeper.GetAllFiles(c.Ctx())
			opts := []string{"", "/", "x/y", "abc", strings.Repeat("f", 64), "a//"}
			if len(files) > 0 {
				f := files[r.Intn(len(files))]
				opts = append(opts, f.Address+"/"+f.Owner, f.Address+"/", "/"+f.Owner, f.Address, f.Owner)
			}
			return opts[r.Intn(len(opts))]
		}
		qr := rand.New(rand.NewSource(seed*7919 + int64(hi) + 37))
		var pgr *pager
		for i := 0; i < steps; i++ {
			if restartsOn && qr.Intn(150) == 0 {
				// the network restarts from its own exported genesis (and runs its first block)
				pre, _ := c.ftAbs()
				e, p := c.Restart(6 * time.Second)
				if e != "" || p != nil {
					out.Emit(map[string]interface{}{"mod": "panic", "where": "restart", "hist": hi, "i": i, "h": c.H, "panic": fmt.Sprint(e, p)})
					break
				}
				post, bad := c.ftAbs()
				out.Emit(map[string]interface{}{"mod": "filetree", "hist": hi, "i": i, "h": c.H, "pre": pre, "op": "restart", "ok": true, "post": post,
					"badKeys": bad, "respPath": "", "actors": actors, "genesis": c.ftGenesisJ()})
				out.Count("filetree.restart", true)
			}
			if r.Intn(10) == 0 {
				c.NextBlock(6 * time.Second)
			}
			if queriesOn && qr.Intn(4) == 0 { // a query record: the query server answers on the current state
				if pgr == nil {
					pgr = newPager(qr)
				}
				qst, _ := c.ftAbs()
				q, resp, kind := ftQueryStep(c, qr, pgr, crafted)
				out.Emit(map[string]interface{}{"mod": "query", "sub": "filetree", "hist": hi, "i": i, "h": c.H, "state": qst, "q": q, "resp": resp})
				out.Count("query.filetree."+kind, resp != "err")
			}
			// a pure path record every few steps (C20)
			if r.Intn(4) == 0 {
				p := randPath(r)
				child := ftSegs[r.Intn(len(ftSegs))]
				out.Emit(map[string]interface{}{"mod": "path", "hist": hi, "i": i, "path": p, "child": child,
					"merklePath": fttypes.MerklePath(p), "childHash": hexHash(child),
					"added":  fttypes.AddToMerkle(fttypes.MerklePath(p), hexHash(child)),
					"joined": fttypes.MerklePath(p + "/" + child), "trailing": fttypes.MerklePath(p + "/"),
					"helpers": [][]string{helperJ(p), helperJ(p + "/" + child), helperJ(p + "/")},
					"client":  [][]string{clientJ(p), clientJ(p + "/" + child), clientJ(p + "/")}, "op": "path", "ok": true})
				out.Count("path.merklePath", true)
			}
			files := c.A.FileTreeKeeper.GetAllFiles(c.Ctx())
			var msg sdk.Msg
			var op map[string]interface{}
			creator := actors[r.Intn(len(actors))]
			pickFile := func() (fttypes.Files, bool) {
				if len(files) == 0 {
					return fttypes.Files{}, false
				}
				return files[r.Intn(len(files))], true
			}
			// which actor owns file f (by account hash)?
			ownerOf := func(f fttypes.Files) string {
				for _, a := range actors {
					if ftkeeper.IsOwner(f, a) {
						return a
					}
				}
				return ""
			}
			k := r.Intn(100)
			f, have := pickFile()
			if have && r.Intn(100) < 70 {
				if o := ownerOf(f); o != "" {
					creator = o
				}
			}
			switch {
			case k < 10 || !have:
				tr := tracking()
				who := []string{creator}
				if r.Intn(2) == 0 {
					who = append(who, actors[r.Intn(len(actors))])
				}
				v, e := mkAcl("v", tr, who), mkAcl("e", tr, who)
				if r.Intn(12) == 0 {
					e = []string{"not json", "null", "[]", `{"a":1}`, ""}[r.Intn(5)]
				}
				msg = &fttypes.MsgProvisionFileTree{Creator: creator, Viewers: v, Editors: e, TrackingNumber: tr}
				op = map[string]interface{}{"provision": map[string]interface{}{"creator": creator, "viewers": aclJ(v), "editors": aclJ(e), "viewersRaw": v, "editorsRaw": e, "tracking": tr}}
			case k < 40:
				// post under an existing entry: the account is the account hash of some actor
				acct := hexHash(actors[r.Intn(len(actors))])
				parent := f.Address
				if o := ownerOf(f); o != "" && r.Intn(5) > 0 {
					acct = hexHash(o)
				}
				if r.Intn(2) == 0 { // editors (or strangers) post too
					creator = actors[r.Intn(len(actors))]
				}
				child := hexHash(ftSegs[r.Intn(len(ftSegs))])
				if r.Intn(12) == 0 {
					parent = crafted()
				}
				if r.Intn(15) == 0 {
					acct = crafted()
				}
				tr := tracking()
				who := []string{creator}
				if r.Intn(2) == 0 {
					who = append(who, actors[r.Intn(len(actors))])
				}
				v, e := mkAcl("v", tr, who), mkAcl("e", tr, who)
				if r.Intn(15) == 0 {
					v = []string{"not json", "null", "{}"}[r.Intn(3)]
				}
				if qr.Intn(8) == 0 {
					// a child string that is not a single hash: two hashes joined by '/', a crafted string
					child = []string{child + "/" + hexHash(ftSegs[qr.Intn(len(ftSegs))]), crafted(), child + "/", "/" + child}[qr.Intn(4)]
					if child == "" {
						child = "/"
					}
				}
				contents := fmt.Sprintf("c%d", r.Intn(100))
				msg = &fttypes.MsgPostFile{Creator: creator, Account: acct, HashParent: parent, HashChild: child, Contents: contents, Viewers: v, Editors: e, TrackingNumber: tr}
				op = map[string]interface{}{"postFile": map[string]interface{}{"creator": creator, "account": acct, "hashParent": parent, "hashChild": child, "contents": contents,
					"viewers": aclJ(v), "editors": aclJ(e), "viewersRaw": v, "editorsRaw": e, "tracking": tr}}
			case k < 50:
				acct := hexHash(creator)
				path := f.Address
				if r.Intn(4) == 0 {
					acct = hexHash(actors[r.Intn(len(actors))])
				}
				if r.Intn(10) == 0 {
					path = crafted()
				}
				if r.Intn(10) == 0 {
					acct = crafted()
				}
				if o := ownerOf(f); o != "" && r.Intn(3) == 0 {
					// someone else with (or without) rights on the entry itself names the owner's account
					acct, path = hexHash(o), f.Address
					var eds []string
					for _, a := range actors {
						if ok, _ := ftkeeper.HasEditAccess(f, a); ok && a != o {
							eds = append(eds, a)
						}
					}
					if len(eds) > 0 && r.Intn(4) > 0 {
						creator = eds[r.Intn(len(eds))]
					} else {
						creator = actors[r.Intn(len(actors))]
					}
				}
				msg = &fttypes.MsgDeleteFile{Creator: creator, HashPath: path, Account: acct}
				op = map[string]interface{}{"deleteFile": map[string]interface{}{"creator": creator, "hashPath": path, "account": acct}}
			case k < 60:
				fo := hexHash(creator)
				if r.Intn(4) == 0 {
					fo = hexHash(actors[r.Intn(len(actors))])
				}
				no := hexHash(actors[r.Intn(len(actors))])
				addr := f.Address
				if r.Intn(10) == 0 {
					addr = crafted()
				}
				if r.Intn(12) == 0 {
					no = crafted()
				}
				msg = &fttypes.MsgChangeOwner{Creator: creator, Address: addr, FileOwner: fo, NewOwner: no}
				op = map[string]interface{}{"changeOwner": map[string]interface{}{"creator": creator, "address": addr, "fileOwner": fo, "newOwner": no}}
			default:
				addr, fo := f.Address, f.Owner
				if r.Intn(10) == 0 {
					addr = crafted()
				}
				if r.Intn(10) == 0 {
					fo = crafted()
				}
				n := 1 + r.Intn(3)
				ids, keys := []string{}, []string{}
				for j := 0; j < n; j++ {
					w := actors[r.Intn(len(actors))]
					if r.Intn(2) == 0 {
						ids = append(ids, ftkeeper.MakeViewerAddress(f.TrackingNumber, w))
					} else {
						ids = append(ids, ftkeeper.MakeEditorAddress(f.TrackingNumber, w))
					}
					keys = append(keys, fmt.Sprintf("key%d", r.Intn(50)))
				}
				if r.Intn(10) == 0 {
					keys = keys[:len(keys)-1]
				}
				if r.Intn(15) == 0 {
					ids = append(ids, "dup", "dup")
					keys = append(keys, "1", "2")
				}
				idS, keyS := strings.Join(ids, ","), strings.Join(keys, ",")
				base := map[string]interface{}{"creator": creator, "address": addr, "fileOwner": fo}
				with := func(extra map[string]interface{}) map[string]interface{} {
					m := map[string]interface{}{}
					for kk, vv := range base {
						m[kk] = vv
					}
					for kk, vv := range extra {
						m[kk] = vv
					}
					return m
				}
				switch (k - 60) / 7 {
				case 0:
					msg = &fttypes.MsgAddViewers{Creator: creator, ViewerIds: idS, ViewerKeys: keyS, Address: addr, FileOwner: fo}
					op = map[string]interface{}{"addViewers": with(map[string]interface{}{"ids": strings.Split(idS, ","), "keys": strings.Split(keyS, ",")})}
				case 1:
					msg = &fttypes.MsgRemoveViewers{Creator: creator, ViewerIds: idS, Address: addr, FileOwner: fo}
					op = map[string]interface{}{"removeViewers": with(map[string]interface{}{"ids": strings.Split(idS, ",")})}
				case 2:
					msg = &fttypes.MsgResetViewers{Creator: creator, Address: addr, FileOwner: fo}
					op = map[string]interface{}{"resetViewers": base}
				case 3:
					msg = &fttypes.MsgAddEditors{Creator: creator, EditorIds: idS, EditorKeys: keyS, Address: addr, FileOwner: fo}
					op = map[string]interface{}{"addEditors": with(map[string]interface{}{"ids": strings.Split(idS, ","), "keys": strings.Split(keyS, ",")})}
				case 4:
					msg = &fttypes.MsgRemoveEditors{Creator: creator, EditorIds: idS, Address: addr, FileOwner: fo}
					op = map[string]interface{}{"removeEditors": with(map[string]interface{}{"ids": strings.Split(idS, ",")})}
				default:
					if r.Intn(3) == 0 {
						key := fmt.Sprintf("pk%d", r.Intn(9))
						msg = &fttypes.MsgPostKey{Creator: creator, Key: key}
						op = map[string]interface{}{"postKey": map[string]interface{}{"creator": creator, "key": key}}
					} else {
						msg = &fttypes.MsgResetEditors{Creator: creator, Address: addr, FileOwner: fo}
						op = map[string]interface{}{"resetEditors": base}
					}
				}
			}
			pre, _ := c.ftAbs()
			res := c.Deliver(msg)
			post, bad := c.ftAbs()
			resp := ""
			if res.OK {
				if pf, ok := msg.(*fttypes.MsgPostFile); ok {
					_ = pf
					var r fttypes.MsgPostFileResponse
					// response bytes are the proto-encoded MsgPostFileResponse inside sdk.Result.Data (MsgData wrapper not used here)
					if err := r.Unmarshal(res.Data); err == nil {
						resp = r.Path
					}
				}
			}
			out.Emit(map[string]interface{}{"mod": "filetree", "hist": hi, "i": i, "h": c.H, "pre": pre, "op": op, "ok": res.OK, "err": res.Err, "post": post,
				"badKeys": bad, "respPath": resp, "actors": actors})
			out.Count("filetree."+opKind(op), res.OK)
		}
		if withGenesis {
			genesisRoundTrip(c, hi, "filetree", out)
		}
		c.Close()
	}
}

// ftGenesisJ decodes the filetree part of the last exported application state in the exported order.
func (c *Chain) ftGenesisJ() interface{} {
	var app map[string]json.RawMessage
	if json.Unmarshal(c.LastExport, &app) != nil {
		return nil
	}
	var gs fttypes.GenesisState
	if err := c.A.AppCodec().UnmarshalJSON(app[fttypes.ModuleName], &gs); err != nil {
		return map[string]interface{}{"error": err.Error()}
	}
	fs, ks := []interface{}{}, []interface{}{}
	for _, f := range gs.FilesList {
		fs = append(fs, ftEntryJ(f))
	}
	for _, k := range gs.PubKeyList {
		ks = append(ks, map[string]interface{}{"address": k.Address, "key": k.Key})
	}
	return map[string]interface{}{"filesList": fs, "pubKeyList": ks, "validateOk": gs.Validate() == nil}
}
