module verifharness

go 1.22.2

require (
	github.com/CosmWasm/wasmd v0.32.0
	github.com/CosmWasm/wasmvm v1.2.6
	github.com/cosmos/cosmos-sdk v0.45.17
	github.com/jackalLabs/canine-chain/v4 v4.0.0
	github.com/tendermint/tendermint v0.34.27
	github.com/tendermint/tm-db v0.6.7
	github.com/wealdtech/go-merkletree/v2 v2.5.1-0.20231106114422-6769f4468d71
)

require (
	cosmossdk.io/api v0.2.6 // indirect
	cosmossdk.io/core v0.5.1 // indirect
	cosmossdk.io/depinject v1.0.0-alpha.3 // indirect
	filippo.io/edwards25519 v1.0.0-rc.1 // indirect
	github.com/99designs/keyring v1.2.1 // indirect
	github.com/ChainSafe/go-schnorrkel v0.0.0-20200405005733-88cbf1b4c40d // indirect
	github.com/Workiva/go-datastructures v1.0.53 // indirect
	github.com/armon/go-metrics v0.4.1 // indirect
	github.com/beorn7/perks v1.0.1 // indirect
	github.com/bgentry/speakeasy v0.1.1-0.20220910012023-760eaf8b6816 // indirect
	github.com/btcsuite/btcd/btcec/v2 v2.3.2 // indirect
	github.com/cespare/xxhash/v2 v2.2.0 // indirect
	github.com/coinbase/rosetta-sdk-go v0.7.9 // indirect
	github.com/cometbft/cometbft-db v0.7.0 // indirect
	github.com/confio/ics23/go v0.9.1 // indirect
	github.com/cosmos/btcutil v1.0.4 // indirect
	github.com/cosmos/cosmos-db v0.0.0-20221226095112-f3c38ecb5e32 // indirect
	github.com/cosmos/cosmos-proto v1.0.0-beta.3 // indirect
	github.com/cosmos/go-bip39 v1.0.0 // indirect
	github.com/cosmos/gogoproto v1.4.10 // indirect
	github.com/cosmos/iavl v0.19.5 // indirect
	github.com/cosmos/ibc-go/v4 v4.6.0 // indirect
	github.com/cosmos/interchain-accounts v0.2.6 // indirect
	github.com/creachadair/taskgroup v0.3.2 // indirect
	github.com/davecgh/go-spew v1.1.1 // indirect
	github.com/decred/dcrd/dcrec/secp256k1/v4 v4.2.0 // indirect
	github.com/desertbit/timer v0.0.0-20180107155436-c41aec40b27f // indirect
	github.com/docker/distribution v2.8.1+incompatible // indirect
	github.com/dvsekhvalnov/jose2go v1.5.0 // indirect
	github.com/ecies/go/v2 v2.0.6 // indirect
	github.com/ethereum/go-ethereum v1.11.5 // indirect
	github.com/felixge/httpsnoop v1.0.2 // indirect
	github.com/fsnotify/fsnotify v1.6.0 // indirect
	github.com/go-kit/kit v0.12.0 // indirect
	github.com/go-kit/log v0.2.1 // indirect
	github.com/go-logfmt/logfmt v0.5.1 // indirect
	github.com/godbus/dbus v0.0.0-20190726142602-4481cbc300e2 // indirect
	github.com/gogo/gateway v1.1.0 // indirect
	github.com/gogo/protobuf v1.3.3 // indirect
	github.com/golang/protobuf v1.5.3 // indirect
	github.com/golang/snappy v0.0.4 // indirect
	github.com/google/btree v1.1.2 // indirect
	github.com/google/go-cmp v0.5.9 // indirect
	github.com/google/gofuzz v1.2.0 // indirect
	github.com/google/orderedcode v0.0.1 // indirect
	github.com/google/uuid v1.3.0 // indirect
	github.com/gorilla/handlers v1.5.1 // indirect
	github.com/gorilla/mux v1.8.0 // indirect
	github.com/gorilla/websocket v1.5.0 // indirect
	github.com/grpc-ecosystem/go-grpc-middleware v1.3.0 // indirect
	github.com/grpc-ecosystem/grpc-gateway v1.16.0 // indirect
	github.com/gsterjov/go-libsecret v0.0.0-20161001094733-a6f4afe4910c // indirect
	github.com/gtank/merlin v0.1.1 // indirect
	github.com/gtank/ristretto255 v0.1.2 // indirect
	github.com/hashicorp/go-immutable-radix v1.3.1 // indirect
	github.com/hashicorp/golang-lru v0.5.5-0.20210104140557-80c98217689d // indirect
	github.com/hashicorp/hcl v1.0.0 // indirect
	github.com/hdevalence/ed25519consensus v0.0.0-20220222234857-c00d1f31bab3 // indirect
	github.com/improbable-eng/grpc-web v0.14.1 // indirect
	github.com/klauspost/compress v1.16.3 // indirect
	github.com/lib/pq v1.10.7 // indirect
	github.com/libp2p/go-buffer-pool v0.1.0 // indirect
	github.com/magiconair/properties v1.8.6 // indirect
	github.com/mattn/go-colorable v0.1.13 // indirect
	github.com/mattn/go-isatty v0.0.16 // indirect
	github.com/matttproud/golang_protobuf_extensions v1.0.4 // indirect
	github.com/mimoo/StrobeGo v0.0.0-20210601165009-122bf33a46e0 // indirect
	github.com/minio/highwayhash v1.0.2 // indirect
	github.com/mitchellh/mapstructure v1.5.0 // indirect
	github.com/mtibben/percent v0.2.1 // indirect
	github.com/opencontainers/go-digest v1.0.0 // indirect
	github.com/pelletier/go-toml/v2 v2.0.5 // indirect
	github.com/pkg/errors v0.9.1 // indirect
	github.com/pmezard/go-difflib v1.0.0 // indirect
	github.com/prometheus/client_golang v1.16.0 // indirect
	github.com/prometheus/client_model v0.3.0 // indirect
	github.com/prometheus/common v0.42.0 // indirect
	github.com/prometheus/procfs v0.10.1 // indirect
	github.com/rakyll/statik v0.1.7 // indirect
	github.com/rcrowley/go-metrics v0.0.0-20201227073835-cf1acfcdf475 // indirect
	github.com/regen-network/cosmos-proto v0.3.1 // indirect
	github.com/rs/cors v1.8.2 // indirect
	github.com/rs/zerolog v1.27.0 // indirect
	github.com/spf13/afero v1.9.2 // indirect
	github.com/spf13/cast v1.5.1 // indirect
	github.com/spf13/cobra v1.7.0 // indirect
	github.com/spf13/jwalterweatherman v1.1.0 // indirect
	github.com/spf13/pflag v1.0.5 // indirect
	github.com/spf13/viper v1.14.0 // indirect
	github.com/stretchr/testify v1.8.4 // indirect
	github.com/subosito/gotenv v1.4.1 // indirect
	github.com/syndtr/goleveldb v1.0.1-0.20210819022825-2ae1ddf74ef7 // indirect
	github.com/tendermint/go-amino v0.16.0 // indirect
	github.com/tidwall/btree v1.5.0 // indirect
	golang.org/x/crypto v0.8.0 // indirect
	golang.org/x/exp v0.0.0-20230321023759-10a507213a29 // indirect
	golang.org/x/net v0.9.0 // indirect
	golang.org/x/sys v0.8.0 // indirect
	golang.org/x/term v0.7.0 // indirect
	golang.org/x/text v0.9.0 // indirect
	google.golang.org/genproto v0.0.0-20230320184635-7606e756e683 // indirect
	google.golang.org/grpc v1.55.0 // indirect
	google.golang.org/protobuf v1.30.0 // indirect
	gopkg.in/ini.v1 v1.67.0 // indirect
	gopkg.in/yaml.v2 v2.4.0 // indirect
	gopkg.in/yaml.v3 v3.0.1 // indirect
	nhooyr.io/websocket v1.8.6 // indirect
)

replace (
	// use cosmos keyring
	github.com/99designs/keyring => github.com/cosmos/keyring v1.2.0

	// dragonberry ics23 patch
	github.com/confio/ics23/go => github.com/cosmos/cosmos-sdk/ics23/go v0.8.0

	// using jackal labs free post proof ante handler - better way to do this in the future.
	github.com/cosmos/cosmos-sdk => github.com/JackalLabs/cosmos-sdk-new v0.45.17-0.20241017203511-c9e1d384026b

	//github.com/cosmos/cosmos-sdk => ../cosmos-sdk

	// Fix upstream GHSA-h395-qcrw-5vmq vulnerability.
	// TODO Remove it: https://github.com/cosmos/cosmos-sdk/issues/10409
	github.com/gin-gonic/gin => github.com/gin-gonic/gin v1.8.1

	// use cosmos-flavored protobufs
	github.com/gogo/protobuf => github.com/regen-network/protobuf v1.3.3-alpha.regen.1

	github.com/tendermint/tendermint => github.com/cometbft/cometbft v0.34.27

	// use grpc compatible with cosmos-flavored protobufs
	google.golang.org/grpc => google.golang.org/grpc v1.33.2
)

replace github.com/jackalLabs/canine-chain/v4 => /repo
