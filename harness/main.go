package main

import (
	"bufio"
	"encoding/json"
	"flag"
	"fmt"
	"os"
	"sort"
)

// Emitter writes one JSON object per line and keeps the per-op outcome histogram.
type Emitter struct {
	w     *bufio.Writer
	f     *os.File
	n     int
	stats map[string][2]int
}

func NewEmitter(path string) *Emitter {
	f := os.Stdout
	if path != "" && path != "-" {
		var err error
		f, err = os.Create(path)
		if err != nil {
			panic(err)
		}
	}
	return &Emitter{w: bufio.NewWriterSize(f, 1<<20), f: f, stats: map[string][2]int{}}
}

func (e *Emitter) Emit(v interface{}) {
	b, err := json.Marshal(v)
	if err != nil {
		panic(err)
	}
	e.w.Write(b)
	e.w.WriteByte('\n')
	e.n++
}

func (e *Emitter) Count(kind string, ok bool) {
	s := e.stats[kind]
	if ok {
		s[0]++
	} else {
		s[1]++
	}
	e.stats[kind] = s
}

func (e *Emitter) Close(statsPath string) {
	e.w.Flush()
	if e.f != os.Stdout {
		e.f.Close()
	}
	if statsPath != "" {
		keys := []string{}
		for k := range e.stats {
			keys = append(keys, k)
		}
		sort.Strings(keys)
		out := map[string]interface{}{"records": e.n}
		hist := map[string]map[string]int{}
		for _, k := range keys {
			hist[k] = map[string]int{"ok": e.stats[k][0], "failed": e.stats[k][1]}
		}
		out["ops"] = hist
		b, _ := json.MarshalIndent(out, "", " ")
		os.WriteFile(statsPath, b, 0o644)
	}
}

var withGenesis bool
var queriesOn = true
var restartsOn = true

func jsonValid(s string) bool { return json.Valid([]byte(s)) }

func main() {
	if len(os.Args) < 2 {
		fmt.Fprintln(os.Stderr, "usage: harness <profile> [flags]")
		os.Exit(2)
	}
	profile := os.Args[1]
	if profile == "probe" {
		runProbe(os.Args[2])
		return
	}
	fs := flag.NewFlagSet(profile, flag.ExitOnError)
	seed := fs.Int64("seed", 1, "PRNG seed")
	hist := fs.Int("hist", 4, "histories")
	steps := fs.Int("steps", 200, "ops per history")
	outPath := fs.String("out", "-", "trace output")
	statsPath := fs.String("stats", "", "stats output")
	fs.BoolVar(&withSigned, "signed", false, "msgs profile: also send real signed transactions through DeliverTx")
	fs.BoolVar(&queriesOn, "queries", true, "interleave query records (the gRPC query servers answering on the current state)")
	fs.BoolVar(&restartsOn, "restarts", true, "restart the chain from its own exported genesis now and then (whole-application export, fresh application, InitChain)")
	fs.BoolVar(&withGenesis, "genesis", false, "round-trip the custom modules' genesis at the end of every history")
	fs.Parse(os.Args[2:])
	out := NewEmitter(*outPath)
	switch profile {
	case "rns":
		runRns(*seed, *hist, *steps, out)
	case "mint":
		runMint(*seed, *hist, *steps, out)
	case "filetree":
		runFiletree(*seed, *hist, *steps, out)
	case "storage", "proofs", "payments", "plans", "forms", "collateral":
		runStorage(profile, *seed, *hist, *steps, out)
	case "det":
		runDet(*seed, *hist, *steps, out)
	case "msgs":
		runMsgs(*seed, *hist, *steps, out)
	case "notif":
		runNotif(*seed, *hist, *steps, out)
	default:
		fmt.Fprintln(os.Stderr, "unknown profile", profile)
		os.Exit(2)
	}
	out.Close(*statsPath)
}
