package main

// Profile "mint": runs of consecutive blocks under parameter sets chosen at genesis and changed
// between blocks (ratios summing to at most 100; TokensPerBlock 0..3 and large; MintDecrease 0, 6,
// around and far above blocks-per-year).  One step record per block: the ledger of the five
// accounts BlockMint touches plus the MintedBlock record, before and after the whole BeginBlock.

import (
	"fmt"
	"math/rand"
	"time"

	sdk "github.com/cosmos/cosmos-sdk/types"
	authtypes "github.com/cosmos/cosmos-sdk/x/auth/types"
	distrtypes "github.com/cosmos/cosmos-sdk/x/distribution/types"
	"github.com/jackalLabs/canine-chain/v4/app"
	mintkeeper "github.com/jackalLabs/canine-chain/v4/x/jklmint/keeper"
	minttypes "github.com/jackalLabs/canine-chain/v4/x/jklmint/types"
)

type mintState struct {
	Last    interface{} `json:"last"`
	Supply  BigNum      `json:"supply"`
	Stakers BigNum      `json:"stakers"`
	Dev     BigNum      `json:"dev"`
	Stipend BigNum      `json:"stipend"`
	ModBal  BigNum      `json:"modBal"`
}

func (c *Chain) mintAbs(lastHeight int64) mintState {
	ctx := c.Ctx()
	p := c.A.MintKeeper.GetParams(ctx)
	denom := p.MintDenom
	bal := func(a sdk.AccAddress) sdk.Int { return c.A.BankKeeper.GetBalance(ctx, a, denom).Amount }
	dev, _ := mintkeeper.GetDevGrantsAccount()
	stip, _ := sdk.AccAddressFromBech32(p.StorageStipendAddress)
	st := mintState{
		Supply:  Num(c.A.BankKeeper.GetSupply(ctx, denom).Amount),
		Stakers: Num(bal(authtypes.NewModuleAddress(authtypes.FeeCollectorName)).Add(bal(authtypes.NewModuleAddress(distrtypes.ModuleName)))),
		Dev:     Num(bal(dev)),
		Stipend: Num(bal(stip)),
		ModBal:  Num(bal(authtypes.NewModuleAddress(minttypes.ModuleName))),
	}
	if mb, found := c.A.MintKeeper.GetMintedBlock(ctx, lastHeight); found {
		st.Last = mb.Minted
	}
	return st
}

// the denomination this history mints (a governance parameter; the emission records carry a denom of their own)
var mintDenom = "ujkl"

func randMintParams(r *rand.Rand, stipend string) minttypes.Params {
	tpb := []int64{0, 1, 2, 3, 7, 100, 4_200_000, 10_000_000_000, 1_000_000_000_000_000_000, 2_000_000_000_000_000_000, 92_233_720_368_547_759, 9_223_372_036_854_775_807}[r.Intn(12)]
	dec := []int64{0, 6, 5_255_999, 5_256_000, 5_256_001, 52_560_000, 3_000_000, 1_000_000_000}[r.Intn(8)]
	// ratios with sum <= 100
	a := int64(r.Intn(101))
	b := int64(r.Intn(int(101 - a)))
	cc := int64(r.Intn(int(101 - a - b)))
	if r.Intn(3) == 0 {
		cc = 100 - a - b
	}
	if r.Intn(4) == 0 {
		a, b, cc = 80, 8, 12
	}
	return minttypes.NewParams(mintDenom, b, tpb, a, dec, stipend, cc)
}

func paramsJ(p minttypes.Params) map[string]interface{} {
	return map[string]interface{}{"tokensPerBlock": p.TokensPerBlock, "mintDecrease": p.MintDecrease, "stakerRatio": p.StakerRatio,
		"devGrantsRatio": p.DevGrantsRatio, "providerRatio": p.StorageProviderRatio}
}

func runMint(seed int64, histories, steps int, out *Emitter) {
	for hi := 0; hi < histories; hi++ {
		r := rand.New(rand.NewSource(seed*1000003 + int64(hi)))
		var stipend string
		mut := func(a *app.JackalApp, gs app.GenesisState, users []sdk.AccAddress) {
			stipend = users[3].String()
			g := minttypes.DefaultGenesis()
			g.Params = randMintParams(r, stipend)
			gs[minttypes.ModuleName] = a.AppCodec().MustMarshalJSON(g)
		}
		// users hold a second denomination only, so that user 3 (the stipend account) starts at 0 ujkl
		// (a chain restarted from an exported genesis starts at the height it was exported at: heights
		// around a change in the number of decimal digits, and past a day's worth of blocks)
		mintDenom = []string{"ujkl", "ujkl", "ujwl", "umint"}[rand.New(rand.NewSource(seed*7919+int64(hi)+47)).Intn(4)]
		genesisInitialHeight = []int64{1, 1, 1, 9_980, 99_900, 14_300, 999_950, 28_700}[rand.New(rand.NewSource(seed*7919+int64(hi)+43)).Intn(8)]
		c := NewChain(4, []string{"utest"}, mut)
		// the parameters as governance set them (by key) — what the blocks are judged against, whatever
		// the keeper hands back
		want := c.A.MintKeeper.GetParams(c.Ctx())
		qr := rand.New(rand.NewSource(seed*7919 + int64(hi) + 41))
		for i := 0; i < steps; i++ {
			pre := c.mintAbs(c.H)
			if c.InBlk {
				if r.Intn(12) == 0 { // governance changes the parameters between blocks
					np, old := randMintParams(r, stipend), c.A.MintKeeper.GetParams(c.Ctx())
					ch := map[string]int64{}
					for k, v := range map[string][2]int64{"TokensPerBlock": {np.TokensPerBlock, old.TokensPerBlock}, "DevGrants": {np.DevGrantsRatio, old.DevGrantsRatio},
						"MintIncrease": {np.MintDecrease, old.MintDecrease}, "StakerRatio": {np.StakerRatio, old.StakerRatio}, "ProviderRatio": {np.StorageProviderRatio, old.StorageProviderRatio}} {
						if v[0] != v[1] {
							ch[k] = v[0]
						}
					}
					if err := c.GovSetParams(c.Ctx(), minttypes.ModuleName, ch); err != nil {
						panic(err)
					}
					want.TokensPerBlock, want.DevGrantsRatio, want.MintDecrease, want.StakerRatio, want.StorageProviderRatio = np.TokensPerBlock, np.DevGrantsRatio, np.MintDecrease, np.StakerRatio, np.StorageProviderRatio
				}
				if p, _ := c.End(); p != nil {
					out.Emit(map[string]interface{}{"mod": "panic", "where": "EndBlock", "h": c.H, "panic": fmt.Sprint(p)})
					break
				}
				pre = c.mintAbs(c.H)
			}
			params := want
			if restartsOn && c.H > 2 && qr.Intn(120) == 0 {
				// the network restarts from its own exported genesis: this block is the first of the new
				// application and must continue the emission where the old one stopped
				if e := c.RestartInit(); e != "" {
					out.Emit(map[string]interface{}{"mod": "panic", "where": "restart", "hist": hi, "i": i, "h": c.H, "panic": e})
					break
				}
				out.Count("mint.restart", true)
			}
			if p := c.Begin(6 * time.Second); p != nil {
				out.Emit(map[string]interface{}{"mod": "panic", "where": "BeginBlock", "h": c.H, "panic": fmt.Sprint(p), "params": paramsJ(params)})
				break
			}
			post := c.mintAbs(c.H)
			rec := map[string]interface{}{"mod": "mint", "hist": hi, "i": i, "h": c.H, "pre": pre, "params": paramsJ(params), "op": "block", "ok": true, "post": post}
			if qr.Intn(3) == 0 {
				// the query server, asked inside this block: Inflation and the emission records of this and the previous height
				w := sdk.WrapSDKContext(c.Ctx())
				qs := map[string]interface{}{}
				func() {
					defer func() { recover() }()
					if res, err := c.A.MintKeeper.Inflation(w, &minttypes.QueryInflation{}); err == nil {
						qs["inflation"] = BigNum{res.Inflation.BigInt()}
					}
				}()
				if res, err := c.A.MintKeeper.MintedTokens(w, &minttypes.QueryMintedTokens{Block: c.H}); err == nil {
					qs["mintedAtH"] = res.Tokens
				}
				if res, err := c.A.MintKeeper.MintedTokens(w, &minttypes.QueryMintedTokens{Block: c.H - 1}); err == nil {
					qs["mintedPrev"] = res.Tokens
				}
				rec["queries"] = qs
				out.Count("query.mint", true)
			}
			out.Emit(rec)
			out.Count("mint.block", true)
		}
		if withGenesis {
			genesisRoundTrip(c, hi, "mint", out)
		}
		c.Close()
	}
}
