package main

// Hand-written witness histories for defects found on the pinned tree ("harness probe <name>").
// Each drives the assembled app exactly like the generated histories do and prints what happened,
// so that a repaired defect can be re-demonstrated on a tree where its fix is reverted.

import (
	"fmt"
	"math"
	"strings"
	"time"

	sdk "github.com/cosmos/cosmos-sdk/types"
	nttypes "github.com/jackalLabs/canine-chain/v4/x/notifications/types"
	sttypes "github.com/jackalLabs/canine-chain/v4/x/storage/types"
)

func runProbe(name string) {
	switch name {
	case "restart":
		probeRestart()
	case "reward-total-overflow":
		// C05: Σ FileSize·provers wraps int64 → negative share → negative coin amount panic in BeginBlock
		c := NewChain(4, []string{"ujkl"}, nil)
		U := c.Users
		c.Begin(6 * time.Second)
		params := c.A.StorageKeeper.GetParams(c.Ctx())
		fmt.Println("params: proofWindow", params.ProofWindow, "checkWindow", params.CheckWindow, "price/TB/month", params.PricePerTbPerMonth)
		big := mkDataFile([]byte("big file, size field lies"), params.ChunkSize)
		small := mkDataFile([]byte("small"), params.ChunkSize)
		r1 := c.Deliver(&sttypes.MsgPostFile{Creator: U[0].String(), Merkle: big.root, FileSize: math.MaxInt64, MaxProofs: 1, Expires: c.H + 14400*2, Note: "{}"})
		fmt.Println("post pay-once file with FileSize = MaxInt64:", r1.OK, r1.Err)
		r2 := c.Deliver(&sttypes.MsgBuyStorage{Creator: U[1].String(), ForAddress: U[1].String(), DurationDays: 30, Bytes: 40_000_000_000_000, PaymentDenom: "ujkl"})
		fmt.Println("buy 40 TB plan:", r2.OK, r2.Err)
		r3 := c.Deliver(&sttypes.MsgPostFile{Creator: U[1].String(), Merkle: small.root, FileSize: 1_000_000_000, MaxProofs: 1, Note: "{}"})
		fmt.Println("post 1 GB plan file:", r3.OK, r3.Err)
		start := c.H
		it, hl := big.proof(0)
		fmt.Println("prover 2 proves big file:", c.Deliver(&sttypes.MsgPostProof{Creator: U[2].String(), Item: it, HashList: hl, Merkle: big.root, Owner: U[0].String(), Start: start, ToProve: 0}).OK)
		it, hl = small.proof(0)
		fmt.Println("prover 3 proves small file:", c.Deliver(&sttypes.MsgPostProof{Creator: U[3].String(), Item: it, HashList: hl, Merkle: small.root, Owner: U[1].String(), Start: start, ToProve: 0}).OK)
		for c.H < params.CheckWindow {
			dt := 6 * time.Second
			if c.H == params.CheckWindow-1 {
				dt = 5 * 24 * time.Hour // let the gauges accrue before the reward block
			}
			if p := c.NextBlock(dt); p != nil {
				fmt.Println("BeginBlock PANIC at height", c.H, ":", p)
				return
			}
		}
		fmt.Println("reward block", c.H, "processed without panic; prover 3 balance", c.A.BankKeeper.GetBalance(c.Ctx(), U[3], "ujkl"))
		_ = sdk.Coin{}
	case "self-referral-spelling":
		// C04: the self-referral test compares the resolved referrer's canonical address with the raw
		// creator string; an upper-case spelling of one's own address passes as a distinct referrer
		c := NewChain(3, []string{"ujkl"}, nil)
		U := c.Users
		c.Begin(6 * time.Second)
		fee := c.A.AccountKeeper.GetModuleAddress("fee_collector")
		bal := func(a sdk.AccAddress) sdk.Int { return c.A.BankKeeper.GetBalance(c.Ctx(), a, "ujkl").Amount }
		for _, who := range []struct{ label, creator, ref string }{
			{"no referral", U[0].String(), ""},
			{"self referral, same spelling", U[0].String(), U[0].String()},
			{"self referral, creator in upper case", strings.ToUpper(U[0].String()), U[0].String()},
		} {
			b0, f0 := bal(U[0]), bal(fee)
			r := c.Deliver(&sttypes.MsgBuyStorage{Creator: who.creator, ForAddress: U[1].String(), DurationDays: 30, Bytes: 3_000_000_000_000, PaymentDenom: "ujkl", Referral: who.ref})
			fmt.Printf("%-40s ok=%v net cost to buyer %s, stakers pool +%s %s\n", who.label, r.OK, b0.Sub(bal(U[0])), bal(fee).Sub(f0), r.Err)
			c.NextBlock(40 * 24 * time.Hour) // let the plan lapse so that every purchase is a fresh one
		}
	case "block-bypass-spelling":
		// C18: the block list is consulted with the raw signer string
		c := NewChain(3, []string{"ujkl"}, nil)
		U := c.Users
		c.Begin(6 * time.Second)
		rcpt, spammer := U[0].String(), U[1].String()
		inbox := func() int {
			n := 0
			for _, x := range c.A.NotificationsKeeper.GetAllNotifications(c.Ctx()) {
				if x.To == rcpt {
					n++
				}
			}
			return n
		}
		fmt.Println("recipient blocks the sender:", c.Deliver(&nttypes.MsgBlockSenders{Creator: rcpt, ToBlock: []string{spammer}}).OK)
		r1 := c.Deliver(&nttypes.MsgCreateNotification{Creator: spammer, To: rcpt, Contents: "{}"})
		fmt.Println("blocked sender, canonical spelling: delivered =", r1.OK, " inbox size", inbox())
		c.NextBlock(6 * time.Second)
		r2 := c.Deliver(&nttypes.MsgCreateNotification{Creator: strings.ToUpper(spammer), To: rcpt, Contents: "{}"})
		fmt.Println("blocked sender, upper-case spelling: delivered =", r2.OK, " inbox size", inbox())
		// and a block signed under the upper-case spelling never matches the recipient's inbox address
		c.NextBlock(6 * time.Second)
		fmt.Println("user 2 blocks the sender, signing in upper case:", c.Deliver(&nttypes.MsgBlockSenders{Creator: strings.ToUpper(U[2].String()), ToBlock: []string{spammer}}).OK)
		r3 := c.Deliver(&nttypes.MsgCreateNotification{Creator: spammer, To: U[2].String(), Contents: "{}"})
		fmt.Println("sender blocked that way still delivers to user 2:", r3.OK)
	case "gauge-end-beyond-unixmicro":
		// C05/C12: a pay-once file whose gauge ends beyond the range of Time.UnixMicro (year ~294 000)
		c := NewChain(3, []string{"ujkl"}, nil)
		U := c.Users
		c.Begin(6 * time.Second)
		params := c.A.StorageKeeper.GetParams(c.Ctx())
		df := mkDataFile([]byte("far future"), params.ChunkSize)
		years := int64(300_000)
		b0 := c.A.BankKeeper.GetBalance(c.Ctx(), U[0], "ujkl").Amount
		r1 := c.Deliver(&sttypes.MsgPostFile{Creator: U[0].String(), Merkle: df.root, FileSize: 10, MaxProofs: 1, Expires: c.H + years*365*14400, Note: "{}"})
		fmt.Println("post pay-once file expiring in", years, "years:", r1.OK, r1.Err, " cost", b0.Sub(c.A.BankKeeper.GetBalance(c.Ctx(), U[0], "ujkl").Amount))
		for _, g := range c.A.StorageKeeper.GetAllPaymentGauges(c.Ctx()) {
			fmt.Println("gauge start", g.Start, "end", g.End, "end.UnixMicro", g.End.UnixMicro(), "coins", g.Coins)
		}
		start := c.H
		it, hl := df.proof(0)
		fmt.Println("prover proves:", c.Deliver(&sttypes.MsgPostProof{Creator: U[1].String(), Item: it, HashList: hl, Merkle: df.root, Owner: U[0].String(), Start: start, ToProve: 0}).OK)
		for c.H < 3*params.CheckWindow {
			if p := c.NextBlock(24 * time.Hour); p != nil {
				fmt.Println("BeginBlock PANIC at height", c.H, ":", p)
				return
			}
		}
		fmt.Println("three reward blocks processed without panic; prover balance", c.A.BankKeeper.GetBalance(c.Ctx(), U[1], "ujkl"))
	default:
		fmt.Println("unknown probe", name)
	}
}

func probeRestart() {
	c := NewChain(4, []string{"ujkl", "utest"}, nil)
	c.Begin(6 * time.Second)
	for i := 0; i < 5; i++ {
		c.NextBlock(6 * time.Second)
	}
	fmt.Println("height before", c.H, "supply", c.A.BankKeeper.GetSupply(c.Ctx(), "ujkl"))
	if e, p := c.Restart(6 * time.Second); e != "" || p != nil {
		fmt.Println("RESTART FAILED:", e, p)
		return
	}
	fmt.Println("restarted at", c.H, "supply", c.A.BankKeeper.GetSupply(c.Ctx(), "ujkl"))
	for i := 0; i < 5; i++ {
		if p := c.NextBlock(6 * time.Second); p != nil {
			fmt.Println("panic after restart:", p)
			return
		}
	}
	fmt.Println("height after", c.H, "supply", c.A.BankKeeper.GetSupply(c.Ctx(), "ujkl"))
}
