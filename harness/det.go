package main

// Profile "det" (C06): one generated history (storage purchases, files, proofs by several provers,
// forms, provider churn, reward blocks; file-tree access lists with several ids) executed with REAL
// signed transactions through DeliverTx.  Per transaction: code, gas used, digest of the ordered
// events; per block: digest of the BeginBlock/EndBlock events and the AppHash from Commit.
// bin/check runs the same history in independent OS processes and compares the outputs byte for byte.

import (
	"crypto/sha256"
	"encoding/hex"
	"encoding/json"
	"fmt"
	"math/rand"
	"os"
	"sort"
	"strings"
	"time"

	"github.com/cosmos/cosmos-sdk/client/tx"
	sdk "github.com/cosmos/cosmos-sdk/types"
	"github.com/cosmos/cosmos-sdk/types/tx/signing"
	authsigning "github.com/cosmos/cosmos-sdk/x/auth/signing"
	"github.com/jackalLabs/canine-chain/v4/app"
	ftkeeper "github.com/jackalLabs/canine-chain/v4/x/filetree/keeper"
	fttypes "github.com/jackalLabs/canine-chain/v4/x/filetree/types"
	minttypes "github.com/jackalLabs/canine-chain/v4/x/jklmint/types"
	notiftypes "github.com/jackalLabs/canine-chain/v4/x/notifications/types"
	rnstypes "github.com/jackalLabs/canine-chain/v4/x/rns/types"
	sttypes "github.com/jackalLabs/canine-chain/v4/x/storage/types"
	abci "github.com/tendermint/tendermint/abci/types"
)

func eventsDigest(evs []abci.Event) string {
	h := sha256.New()
	for _, e := range evs {
		h.Write([]byte(e.Type))
		h.Write([]byte{0})
		for _, a := range e.Attributes {
			h.Write(a.Key)
			h.Write([]byte{1})
			h.Write(a.Value)
			h.Write([]byte{2})
		}
	}
	return hex.EncodeToString(h.Sum(nil))[:24]
}

func (c *Chain) deliverSigned(msg sdk.Msg, signer int) abci.ResponseDeliverTx {
	return c.deliverSignedTx([]sdk.Msg{msg}, signer)
}

// deliverSignedTx: one transaction of several messages, all signed by the same account
func (c *Chain) deliverSignedTx(msgs []sdk.Msg, signer int) abci.ResponseDeliverTx {
	txCfg := app.MakeEncodingConfig().TxConfig
	b := txCfg.NewTxBuilder()
	b.SetMsgs(msgs...)
	b.SetGasLimit(20_000_000)
	b.SetFeeAmount(sdk.NewCoins(sdk.NewInt64Coin("ujkl", 50_000)))
	priv := c.Privs[signer]
	acc := c.A.AccountKeeper.GetAccount(c.Ctx(), c.Users[signer])
	sigV2 := signing.SignatureV2{PubKey: priv.PubKey(), Data: &signing.SingleSignatureData{SignMode: txCfg.SignModeHandler().DefaultMode()}, Sequence: acc.GetSequence()}
	b.SetSignatures(sigV2)
	sd := authsigning.SignerData{ChainID: "verif-1", AccountNumber: acc.GetAccountNumber(), Sequence: acc.GetSequence()}
	sig, err := tx.SignWithPrivKey(txCfg.SignModeHandler().DefaultMode(), sd, b, priv, txCfg, acc.GetSequence())
	if err != nil {
		panic(err)
	}
	b.SetSignatures(sig)
	bz, err := txCfg.TxEncoder()(b.GetTx())
	if err != nil {
		panic(err)
	}
	return c.A.DeliverTx(abci.RequestDeliverTx{Tx: bz})
}

func runDet(seed int64, histories, steps int, out *Emitter) {
	mix := storageMixes["storage"]
	for hi := 0; hi < histories; hi++ {
		r := rand.New(rand.NewSource(seed*1000003 + int64(hi)))
		c := NewChain(8, []string{"ujkl", "utest"}, func(a *app.JackalApp, gs app.GenesisState, users []sdk.AccAddress) {
			cdc := a.AppCodec()
			sg := sttypes.DefaultGenesis()
			sg.Params.ProofWindow, sg.Params.CheckWindow, sg.Params.ChunkSize = 6, 9, 32
			sg.Params.AttestFormSize, sg.Params.AttestMinToPass = 2, 1
			sg.Params.CollateralPrice = 1000
			gs[sttypes.ModuleName] = cdc.MustMarshalJSON(sg)
			mg := minttypes.DefaultGenesis()
			gs[minttypes.ModuleName] = cdc.MustMarshalJSON(mg)
		})
		seenGaugeAccs = nil
		g := &storageGen{c: c, r: r, data: map[string]*dataFile{}, mix: mix}
		idx := map[string]int{}
		for i, u := range c.Users {
			g.users = append(g.users, u.String())
			idx[u.String()] = i
		}
		sort.Strings(g.users)
		g.ips = []string{"https://a.example.com", "https://b.example.org", "https://c.example.net", "https://d.jackal.io", "https://e.other.io"}
		emitBlock := func(kind string, evs []abci.Event, apphash []byte) {
			out.Emit(map[string]interface{}{"mod": "det", "hist": hi, "kind": kind, "h": c.H, "events": eventsDigest(evs), "apphash": hex.EncodeToString(apphash)})
		}
		begin := func(dt time.Duration) {
			c.H++
			c.T = c.T.Add(dt)
			res := c.A.BeginBlock(abci.RequestBeginBlock{Header: c.hdr()})
			c.InBlk = true
			emitBlock("begin", res.Events, nil)
		}
		end := func() {
			res := c.A.EndBlock(abci.RequestEndBlock{Height: c.H})
			cm := c.A.Commit()
			c.InBlk = false
			emitBlock("end", res.Events, cm.Data)
		}
		begin(6 * time.Second)
		blocks := 0
		nodeRestarts := os.Getenv("VERIF_NODE_RESTART") != ""
		for i := 0; i < steps; i++ {
			if r.Intn(4) == 0 {
				end()
				blocks++
				if nodeRestarts && blocks%5 == 3 {
					// this replica's node process is restarted here (a new application object over the same
					// database): whatever a node keeps in memory only must not matter
					c.Reopen()
				}
				dt := []time.Duration{6 * time.Second, 6 * time.Second, time.Hour, 24 * time.Hour, 20 * 24 * time.Hour}[r.Intn(5)]
				begin(dt)
				if r.Intn(6) == 0 {
					// a passed parameter-change proposal takes effect in this block (written key by key
					// through the params subspace, as x/params' proposal handler does)
					ch := []map[string]int64{{"CollateralPrice": int64(500 + r.Intn(5000))}, {"PricePerTbPerMonth": int64(1 + r.Intn(20))},
						{"AttestMinToPass": int64(r.Intn(3))}, {"POLRatio": int64(10 + r.Intn(40))}}[r.Intn(4)]
					err := c.GovSetParams(c.Ctx(), sttypes.ModuleName, ch)
					out.Emit(map[string]interface{}{"mod": "det", "hist": hi, "kind": "gov", "h": c.H, "change": fmt.Sprint(ch), "err": fmt.Sprint(err)})
				}
				continue
			}
			if r.Intn(7) == 0 {
				// names and the modules that resolve them (notifications, storage referrals), in transactions of several
				// messages — some of which fail as a whole after a name was written and resolved inside them: what such a
				// transaction leaves behind in a node's memory must not matter later, nor after that node restarts
				owner := g.user()
				other := g.user()
				si := idx[owner]
				name := []string{"demo.jkl", "carl.jkl", "shop.jkl"}[r.Intn(3)]
				var msgs []sdk.Msg
				switch r.Intn(5) {
				case 0:
					msgs = []sdk.Msg{&rnstypes.MsgRegisterName{Creator: owner, Name: name, Years: 1, Data: "{}", SetPrimary: false}}
				case 1:
					msgs = []sdk.Msg{&rnstypes.MsgTransfer{Creator: owner, Name: name, Receiver: other},
						&notiftypes.MsgCreateNotification{Creator: owner, To: name, Contents: fmt.Sprintf("{\"n\":%d}", i), PrivateContents: []byte{}},
						&rnstypes.MsgDelist{Creator: owner, Name: "nosuchlisting.jkl"}} // fails: the whole transaction is rolled back
				case 2:
					msgs = []sdk.Msg{&rnstypes.MsgTransfer{Creator: owner, Name: name, Receiver: other},
						&notiftypes.MsgCreateNotification{Creator: owner, To: name, Contents: fmt.Sprintf("{\"n\":%d}", i), PrivateContents: []byte{}}}
				case 3:
					msgs = []sdk.Msg{&notiftypes.MsgCreateNotification{Creator: owner, To: name, Contents: fmt.Sprintf("{\"m\":%d}", i), PrivateContents: []byte{}}}
				default:
					msgs = []sdk.Msg{&sttypes.MsgBuyStorage{Creator: owner, ForAddress: owner, DurationDays: 30, Bytes: 3_000_000_000, PaymentDenom: "ujkl", Referral: name}}
				}
				res := c.deliverSignedTx(msgs, si)
				out.Emit(map[string]interface{}{"mod": "det", "hist": hi, "kind": "tx", "i": i, "h": c.H, "msg": fmt.Sprintf("names/%d msgs", len(msgs)), "code": res.Code, "gasUsed": res.GasUsed, "gasWanted": res.GasWanted,
					"events": eventsDigest(res.Events), "data": hex.EncodeToString(res.Data)})
				out.Count("det.names", res.Code == 0)
				continue
			}
			var msg sdk.Msg
			if r.Intn(6) == 0 { // file-tree access lists with several ids (map rendering order)
				creator := g.user()
				tr := fmt.Sprintf("t%d", r.Intn(3))
				m := map[string]string{}
				for j := 0; j < 5; j++ {
					m[ftkeeper.MakeViewerAddress(tr, g.user())] = fmt.Sprintf("k%d", j)
				}
				b, _ := json.Marshal(m)
				if r.Intn(2) == 0 {
					msg = &fttypes.MsgProvisionFileTree{Creator: creator, Viewers: string(b), Editors: string(b), TrackingNumber: tr}
				} else {
					files := c.A.FileTreeKeeper.GetAllFiles(c.Ctx())
					if len(files) == 0 {
						continue
					}
					f := files[r.Intn(len(files))]
					ids, keys := []string{}, []string{}
					for j := 0; j < 4; j++ {
						ids = append(ids, ftkeeper.MakeViewerAddress(f.TrackingNumber, g.user()))
						keys = append(keys, fmt.Sprintf("key%d", j))
					}
					for _, u := range g.users {
						if ftkeeper.IsOwner(f, u) {
							creator = u
						}
					}
					msg = &fttypes.MsgAddViewers{Creator: creator, ViewerIds: strings.Join(ids, ","), ViewerKeys: strings.Join(keys, ","), Address: f.Address, FileOwner: f.Owner}
				}
			} else {
				msg, _, _ = g.next()
			}
			signers := msg.GetSigners()
			si, ok := idx[signers[0].String()]
			if !ok {
				continue
			}
			res := c.deliverSigned(msg, si)
			out.Emit(map[string]interface{}{"mod": "det", "hist": hi, "kind": "tx", "i": i, "h": c.H, "msg": sdk.MsgTypeURL(msg), "code": res.Code, "gasUsed": res.GasUsed, "gasWanted": res.GasWanted,
				"events": eventsDigest(res.Events), "data": hex.EncodeToString(res.Data)})
			out.Count("det."+strings.TrimPrefix(sdk.MsgTypeURL(msg), "/canine_chain."), res.Code == 0)
		}
		end()
		c.Close()
	}
}
