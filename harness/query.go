package main

// Query records: the module's gRPC query server (the keeper's QueryServer methods, called in
// process on the block's context) is asked a generated request; the record carries the abstract
// state the request was answered on, the request and the canonicalised response, and the Lean
// driver recomputes the response from the state with the query model (Canine/Query/*.lean).
// Listings are paged the way clients page them: random offset/limit windows, key walks that
// continue from the NextKey of an earlier response, reverse order, count_total, limit 0 (default
// limit), and the malformed combinations (offset together with key; a key past the end).

import (
	"encoding/hex"
	"fmt"
	"math/rand"
	"sort"
	"strings"
	"unicode/utf8"

	sdk "github.com/cosmos/cosmos-sdk/types"
	"github.com/cosmos/cosmos-sdk/types/query"
	fttypes "github.com/jackalLabs/canine-chain/v4/x/filetree/types"
	notiftypes "github.com/jackalLabs/canine-chain/v4/x/notifications/types"
	rnstypes "github.com/jackalLabs/canine-chain/v4/x/rns/types"
	sttypes "github.com/jackalLabs/canine-chain/v4/x/storage/types"
)

// pager produces page requests; next keys handed back by the chain are kept per listing and reused
type pager struct {
	r    *rand.Rand
	next map[string][]byte
	hexK map[string]bool // listings whose raw keys are binary: transported in hex
}

func newPager(r *rand.Rand) *pager {
	return &pager{r: r, next: map[string][]byte{}, hexK: map[string]bool{}}
}

func (p *pager) keyJ(kind string, k []byte) interface{} {
	if len(k) == 0 {
		return nil
	}
	if p.hexK[kind] {
		return hex.EncodeToString(k)
	}
	if !utf8.Valid(k) {
		return "�non-utf8:" + hex.EncodeToString(k)
	}
	return string(k)
}

// page returns the request (nil = no pagination given) and its record form; someKeys are raw keys
// of the listed store (within the prefix) that the generator may aim at
func (p *pager) page(kind string, someKeys [][]byte) (*query.PageRequest, map[string]interface{}) {
	r := p.r
	req := &query.PageRequest{}
	switch c := r.Intn(20); {
	case c < 2:
		req = nil
	case c < 9:
		req.Limit = uint64(1 + r.Intn(4))
		req.Offset = uint64(r.Intn(4))
		req.CountTotal = r.Intn(2) == 0
		req.Reverse = r.Intn(3) == 0
	case c < 14: // continue a walk
		req.Limit = uint64(1 + r.Intn(3))
		req.Reverse = r.Intn(4) == 0
		if k, ok := p.next[kind]; ok && len(k) > 0 {
			req.Key = k
		}
	case c < 17: // aim at an existing key (the last key with reverse is the iterator panic), or at none
		req.Limit = uint64(r.Intn(4))
		req.Reverse = r.Intn(2) == 0
		if len(someKeys) > 0 {
			k := someKeys[r.Intn(len(someKeys))]
			if r.Intn(3) == 0 {
				k = someKeys[len(someKeys)-1]
			}
			req.Key = append([]byte{}, k...)
			if r.Intn(5) == 0 && len(req.Key) > 1 {
				req.Key = req.Key[:len(req.Key)-1]
			}
			if r.Intn(8) == 0 {
				req.Key = append(req.Key, 'z')
			}
		}
	case c < 18: // default limit, everything counted
		req.Reverse = r.Intn(2) == 0
	case c < 19:
		req.Limit = uint64(1 + r.Intn(3))
		req.Offset = uint64(1 + r.Intn(3))
		if len(someKeys) > 0 {
			req.Key = append([]byte{}, someKeys[r.Intn(len(someKeys))]...)
		}
	default:
		req.Limit = uint64(50 + r.Intn(100))
		req.CountTotal = true
	}
	if req == nil {
		return nil, nil
	}
	return req, map[string]interface{}{"key": p.keyJ(kind, req.Key), "offset": req.Offset, "limit": req.Limit, "countTotal": req.CountTotal, "reverse": req.Reverse}
}

// pageOrDefault: for listings where "no pagination" means the zero request
func pageOrDefault(j map[string]interface{}) map[string]interface{} {
	if j == nil {
		return map[string]interface{}{"key": nil, "offset": 0, "limit": 0, "countTotal": false, "reverse": false}
	}
	return j
}

func (p *pager) note(kind string, res *query.PageResponse) (interface{}, uint64) {
	if res == nil {
		return nil, 0
	}
	if len(res.NextKey) > 0 {
		p.next[kind] = append([]byte{}, res.NextKey...)
	} else {
		delete(p.next, kind)
	}
	return p.keyJ(kind, res.NextKey), res.Total
}

// safely runs a query: an error or a panic (recovered, as the gRPC layer does) is "err"
func safely(f func() (interface{}, error)) (resp interface{}) {
	defer func() {
		if p := recover(); p != nil {
			resp = "err"
		}
	}()
	v, err := f()
	if err != nil {
		return "err"
	}
	return v
}

func listed(tag string, items []interface{}, next interface{}, total uint64) interface{} {
	if items == nil {
		items = []interface{}{}
	}
	return map[string]interface{}{tag: map[string]interface{}{"items": items, "nextKey": next, "total": total}}
}

// rawKeys lists the raw keys (prefix stripped) of a store prefix
func (c *Chain) rawKeys(store, pfx string) [][]byte {
	out := [][]byte{}
	for _, kv := range c.RawStore(store, pfx) {
		out = append(out, kv[0])
	}
	return out
}

// ---------------------------------------------------------------- storage

func (g *storageGen) queryStep() (map[string]interface{}, interface{}, string) {
	r := g.r
	c := g.c
	k := c.A.StorageKeeper
	ctx := c.Ctx()
	w := sdk.WrapSDKContext(ctx)
	if g.pg == nil {
		g.pg = newPager(r)
		g.pg.hexK["gauges"] = true
	}
	pg := g.pg
	files := g.allFiles()
	var bad []string
	anyFile := func() (m []byte, owner string, start int64) {
		if len(files) > 0 && r.Intn(6) > 0 {
			f := files[r.Intn(len(files))]
			m, owner, start = f.Merkle, f.Owner, f.Start
			if r.Intn(10) == 0 {
				start++
			}
			if r.Intn(10) == 0 && len(m) > 1 {
				m = m[:len(m)-1] // a shorter merkle: a prefix of a stored one
			}
			return
		}
		return []byte{byte(r.Intn(256))}, g.user(), int64(r.Intn(50))
	}
	anyProver := func() string {
		ps := k.GetAllProofs(ctx)
		if len(ps) > 0 && r.Intn(5) > 0 {
			p := ps[r.Intn(len(ps))].Prover
			if r.Intn(10) == 0 && len(p) > 3 {
				p = p[:len(p)-2]
			}
			return p
		}
		return g.user()
	}
	anyAddr := func() string {
		u := g.user()
		if r.Intn(8) == 0 {
			return u[:len(u)-1]
		}
		return u
	}
	filesJ := func(fs []sttypes.UnifiedFile) []interface{} {
		out := []interface{}{}
		for _, f := range fs {
			out = append(out, fileJ(f, &bad))
		}
		return out
	}
	formsA := func(fs []sttypes.AttestationForm) []interface{} {
		out := []interface{}{}
		for _, f := range fs {
			out = append(out, formJ(f.Prover, f.Merkle, f.Owner, f.Start, f.Attestations))
		}
		return out
	}
	formsR := func(fs []sttypes.ReportForm) []interface{} {
		out := []interface{}{}
		for _, f := range fs {
			out = append(out, formJ(f.Prover, f.Merkle, f.Owner, f.Start, f.Attestations))
		}
		return out
	}
	var q map[string]interface{}
	var resp interface{}
	kind := ""
	switch n := r.Intn(31); {
	case n < 2:
		kind = "file"
		m, o, st := anyFile()
		q = map[string]interface{}{"file": map[string]interface{}{"merkle": hex.EncodeToString(m), "owner": o, "start": st}}
		resp = safely(func() (interface{}, error) {
			res, err := k.File(w, &sttypes.QueryFile{Merkle: m, Owner: o, Start: st})
			if err != nil {
				return nil, err
			}
			return map[string]interface{}{"file": map[string]interface{}{"f": fileJ(res.File, &bad)}}, nil
		})
	case n < 5:
		kind = "allFiles"
		req, pj := pg.page(kind, c.rawKeys(sttypes.StoreKey, sttypes.FilePrimaryKeyPrefix))
		q = map[string]interface{}{"allFiles": map[string]interface{}{"page": pageOrDefault(pj)}}
		resp = safely(func() (interface{}, error) {
			res, err := k.AllFiles(w, &sttypes.QueryAllFiles{Pagination: req})
			if err != nil {
				return nil, err
			}
			nk, tot := pg.note(kind, res.Pagination)
			return listed("files", filesJ(res.Files), nk, tot), nil
		})
	case n < 8:
		kind = "allFilesByMerkle"
		m, _, _ := anyFile()
		pfx := string(sttypes.FilesMerklePrefix(m))
		req, pj := pg.page(kind+hex.EncodeToString(m), c.rawKeys(sttypes.StoreKey, pfx))
		q = map[string]interface{}{"allFilesByMerkle": map[string]interface{}{"merkle": hex.EncodeToString(m), "page": pageOrDefault(pj)}}
		resp = safely(func() (interface{}, error) {
			res, err := k.AllFilesByMerkle(w, &sttypes.QueryAllFilesByMerkle{Merkle: m, Pagination: req})
			if err != nil {
				return nil, err
			}
			nk, tot := pg.note(kind+hex.EncodeToString(m), res.Pagination)
			return listed("files", filesJ(res.Files), nk, tot), nil
		})
	case n < 11:
		kind = "allFilesByOwner"
		_, o, _ := anyFile()
		if r.Intn(10) == 0 {
			o = anyAddr()
		}
		pfx := string(sttypes.FilesOwnerPrefix(o))
		req, pj := pg.page(kind+o, c.rawKeys(sttypes.StoreKey, pfx))
		q = map[string]interface{}{"allFilesByOwner": map[string]interface{}{"owner": o, "page": pageOrDefault(pj)}}
		resp = safely(func() (interface{}, error) {
			res, err := k.AllFilesByOwner(w, &sttypes.QueryAllFilesByOwner{Owner: o, Pagination: req})
			if err != nil {
				return nil, err
			}
			nk, tot := pg.note(kind+o, res.Pagination)
			return listed("files", filesJ(res.Files), nk, tot), nil
		})
	case n < 12:
		kind = "openFiles"
		pr := anyProver()
		req, pj := pg.page(kind, nil)
		var pjv interface{}
		if pj != nil {
			pjv = pj
		}
		q = map[string]interface{}{"openFiles": map[string]interface{}{"provider": pr, "page": pjv}}
		resp = safely(func() (interface{}, error) {
			res, err := k.OpenFiles(w, &sttypes.QueryOpenFiles{ProviderAddress: pr, Pagination: req})
			if err != nil {
				return nil, err
			}
			return listed("files", filesJ(res.Files), nil, res.Pagination.Total), nil
		})
	case n < 13:
		kind = "proof"
		m, o, st := anyFile()
		pr := anyProver()
		q = map[string]interface{}{"proof": map[string]interface{}{"prover": pr, "merkle": hex.EncodeToString(m), "owner": o, "start": st}}
		resp = safely(func() (interface{}, error) {
			res, err := k.Proof(w, &sttypes.QueryProof{ProviderAddress: pr, Merkle: m, Owner: o, Start: st})
			if err != nil {
				return nil, err
			}
			return map[string]interface{}{"proof": map[string]interface{}{"p": proofJ(res.Proof)}}, nil
		})
	case n < 15:
		kind = "allProofs"
		req, pj := pg.page(kind, c.rawKeys(sttypes.StoreKey, sttypes.ProofKeyPrefix))
		q = map[string]interface{}{"allProofs": map[string]interface{}{"page": pageOrDefault(pj)}}
		resp = safely(func() (interface{}, error) {
			res, err := k.AllProofs(w, &sttypes.QueryAllProofs{Pagination: req})
			if err != nil {
				return nil, err
			}
			items := []interface{}{}
			for _, p := range res.Proofs {
				items = append(items, proofJ(p))
			}
			nk, tot := pg.note(kind, res.Pagination)
			return listed("proofs", items, nk, tot), nil
		})
	case n < 17:
		kind = "proofsByAddress"
		pr := anyProver()
		req, pj := pg.page(kind+pr, c.rawKeys(sttypes.StoreKey, string(sttypes.ProofPrefix(pr))))
		q = map[string]interface{}{"proofsByAddress": map[string]interface{}{"prover": pr, "page": pageOrDefault(pj)}}
		resp = safely(func() (interface{}, error) {
			res, err := k.ProofsByAddress(w, &sttypes.QueryProofsByAddress{ProviderAddress: pr, Pagination: req})
			if err != nil {
				return nil, err
			}
			items := []interface{}{}
			for _, p := range res.Proofs {
				items = append(items, proofJ(p))
			}
			nk, tot := pg.note(kind+pr, res.Pagination)
			return listed("proofs", items, nk, tot), nil
		})
	case n < 18:
		kind = "payInfo"
		a := anyAddr()
		q = map[string]interface{}{"payInfo": map[string]interface{}{"address": a}}
		resp = safely(func() (interface{}, error) {
			res, err := k.StoragePaymentInfo(w, &sttypes.QueryStoragePaymentInfo{Address: a})
			if err != nil {
				return nil, err
			}
			return map[string]interface{}{"payInfo": map[string]interface{}{"p": payinfoJ(res.StoragePaymentInfo)}}, nil
		})
	case n < 19:
		kind = "allPayInfo"
		req, pj := pg.page(kind, c.rawKeys(sttypes.StoreKey, sttypes.StoragePaymentInfoKeyPrefix))
		q = map[string]interface{}{"allPayInfo": map[string]interface{}{"page": pageOrDefault(pj)}}
		resp = safely(func() (interface{}, error) {
			res, err := k.AllStoragePaymentInfo(w, &sttypes.QueryAllStoragePaymentInfo{Pagination: req})
			if err != nil {
				return nil, err
			}
			items := []interface{}{}
			for _, p := range res.StoragePaymentInfo {
				items = append(items, payinfoJ(p))
			}
			nk, tot := pg.note(kind, res.Pagination)
			return listed("payInfos", items, nk, tot), nil
		})
	case n < 20:
		a := anyAddr()
		switch r.Intn(3) {
		case 0:
			kind = "payData"
			q = map[string]interface{}{"payData": map[string]interface{}{"address": a}}
			resp = safely(func() (interface{}, error) {
				res, err := k.GetPayData(w, &sttypes.QueryPayData{Address: a})
				if err != nil {
					return nil, err
				}
				return map[string]interface{}{"payData": map[string]interface{}{"timeRemaining": res.TimeRemaining, "bytes": res.Bytes}}, nil
			})
		case 1:
			kind = "clientFreeSpace"
			q = map[string]interface{}{"clientFreeSpace": map[string]interface{}{"address": a}}
			resp = safely(func() (interface{}, error) {
				res, err := k.GetClientFreeSpace(w, &sttypes.QueryClientFreeSpace{Address: a})
				if err != nil {
					return nil, err
				}
				return map[string]interface{}{"num": map[string]interface{}{"v": res.BytesFree}}, nil
			})
		default:
			kind = "fileUploadCheck"
			b := []int64{-1, 0, 1, 1000, 1 << 40, 1<<63 - 1}[r.Intn(6)]
			q = map[string]interface{}{"fileUploadCheck": map[string]interface{}{"address": a, "bytes": b}}
			resp = safely(func() (interface{}, error) {
				res, err := k.FileUploadCheck(w, &sttypes.QueryFileUploadCheck{Address: a, Bytes: b})
				if err != nil {
					return nil, err
				}
				return map[string]interface{}{"flag": map[string]interface{}{"b": res.Valid}}, nil
			})
		}
	case n < 21:
		kind = "provider"
		a := anyProver()
		q = map[string]interface{}{"provider": map[string]interface{}{"address": a}}
		resp = safely(func() (interface{}, error) {
			res, err := k.Provider(w, &sttypes.QueryProvider{Address: a})
			if err != nil {
				return nil, err
			}
			return map[string]interface{}{"provider": map[string]interface{}{"p": providerJ(res.Provider)}}, nil
		})
	case n < 22:
		kind = "allProviders"
		req, pj := pg.page(kind, c.rawKeys(sttypes.StoreKey, sttypes.ProvidersKeyPrefix))
		q = map[string]interface{}{"allProviders": map[string]interface{}{"page": pageOrDefault(pj)}}
		resp = safely(func() (interface{}, error) {
			res, err := k.AllProviders(w, &sttypes.QueryAllProviders{Pagination: req})
			if err != nil {
				return nil, err
			}
			items := []interface{}{}
			for _, p := range res.Providers {
				items = append(items, providerJ(p))
			}
			nk, tot := pg.note(kind, res.Pagination)
			return listed("providers", items, nk, tot), nil
		})
	case n < 23:
		kind = "gauges"
		req, pj := pg.page(kind, c.rawKeys(sttypes.StoreKey, sttypes.PaymentGaugeKeyPrefix))
		q = map[string]interface{}{"gauges": map[string]interface{}{"page": pageOrDefault(pj)}}
		resp = safely(func() (interface{}, error) {
			res, err := k.Gauges(w, &sttypes.QueryAllGauges{Pagination: req})
			if err != nil {
				return nil, err
			}
			items := []interface{}{}
			for _, p := range res.Gauges {
				items = append(items, gaugeJ(p))
			}
			nk, tot := pg.note(kind, res.Pagination)
			return listed("gauges", items, nk, tot), nil
		})
	case n < 24:
		kind = "findFile"
		m, _, _ := anyFile()
		q = map[string]interface{}{"findFile": map[string]interface{}{"merkle": hex.EncodeToString(m)}}
		resp = safely(func() (interface{}, error) {
			res, err := k.FindFile(w, &sttypes.QueryFindFile{Merkle: m})
			if err != nil {
				return nil, err
			}
			ips := res.ProviderIps
			if ips == nil {
				ips = []string{}
			}
			return map[string]interface{}{"strs": map[string]interface{}{"l": ips}}, nil
		})
	case n < 25:
		forms := k.GetAllAttestation(ctx)
		m, o, st := anyFile()
		pr := anyProver()
		if len(forms) > 0 && r.Intn(4) > 0 {
			f := forms[r.Intn(len(forms))]
			m, o, st, pr = f.Merkle, f.Owner, f.Start, f.Prover
		}
		if r.Intn(2) == 0 {
			kind = "attestation"
			q = map[string]interface{}{"attestation": map[string]interface{}{"prover": pr, "merkle": hex.EncodeToString(m), "owner": o, "start": st}}
			resp = safely(func() (interface{}, error) {
				res, err := k.Attestation(w, &sttypes.QueryAttestation{Prover: pr, Merkle: m, Owner: o, Start: st})
				if err != nil {
					return nil, err
				}
				f := res.Attestation
				return map[string]interface{}{"form": map[string]interface{}{"f": formJ(f.Prover, f.Merkle, f.Owner, f.Start, f.Attestations)}}, nil
			})
		} else {
			kind = "allAttestations"
			req, pj := pg.page(kind, c.rawKeys(sttypes.StoreKey, sttypes.AttestationKeyPrefix))
			q = map[string]interface{}{"allAttestations": map[string]interface{}{"page": pageOrDefault(pj)}}
			resp = safely(func() (interface{}, error) {
				res, err := k.AllAttestations(w, &sttypes.QueryAllAttestations{Pagination: req})
				if err != nil {
					return nil, err
				}
				nk, tot := pg.note(kind, res.Pagination)
				return listed("forms", formsA(res.Attestations), nk, tot), nil
			})
		}
	case n == 26:
		a := anyProver()
		if r.Intn(2) == 0 {
			kind = "freeSpace"
			q = map[string]interface{}{"freeSpace": map[string]interface{}{"address": a}}
			resp = safely(func() (interface{}, error) {
				res, err := k.FreeSpace(w, &sttypes.QueryFreeSpace{Address: a})
				if err != nil {
					return nil, err
				}
				return map[string]interface{}{"num": map[string]interface{}{"v": res.Space}}, nil
			})
		} else {
			kind = "storeCount"
			q = map[string]interface{}{"storeCount": map[string]interface{}{"address": a}}
			resp = safely(func() (interface{}, error) {
				res, err := k.StoreCount(w, &sttypes.QueryStoreCount{Address: a})
				if err != nil {
					return nil, err
				}
				return map[string]interface{}{"num": map[string]interface{}{"v": res.Count}}, nil
			})
		}
	case n == 27:
		kind = "priceCheck"
		d := []int64{-1, 0, 1, 29, 30, 31, 59, 60, 365, 366, 730, 36500, 106751, 106752, 213503, 1 << 40, 1<<63 - 1}[r.Intn(17)]
		b := []int64{-5, 0, 1, 999999, 1000000, 1500000, 1 << 30, 3 << 40, 1 << 50, 9223372036854775, 9223372036854776, 1<<63 - 1}[r.Intn(12)]
		if r.Intn(3) == 0 {
			d = int64(30 + r.Intn(4000))
			b = r.Int63n(1 << 45)
		}
		q = map[string]interface{}{"priceCheck": map[string]interface{}{"duration": d, "bytes": b, "jklPrice": g.jklPriceRaw()}}
		resp = safely(func() (interface{}, error) {
			res, err := k.PriceCheck(w, &sttypes.QueryPriceCheck{Duration: d, Bytes: b})
			if err != nil {
				return nil, err
			}
			return map[string]interface{}{"num": map[string]interface{}{"v": res.Price}}, nil
		})
	case n == 28 || n == 29:
		switch r.Intn(3) {
		case 0:
			kind = "activeProviders"
			q = map[string]interface{}{"activeProviders": map[string]interface{}{}}
			resp = safely(func() (interface{}, error) {
				res, err := k.ActiveProviders(w, &sttypes.QueryActiveProviders{})
				if err != nil {
					return nil, err
				}
				l := []string{}
				for _, p := range res.Providers {
					l = append(l, p.Address)
				}
				return map[string]interface{}{"strs": map[string]interface{}{"l": l}}, nil
			})
		case 1:
			kind = "networkSize"
			q = map[string]interface{}{"networkSize": map[string]interface{}{}}
			resp = safely(func() (interface{}, error) {
				res, err := k.NetworkSize(w, &sttypes.QueryNetworkSize{})
				if err != nil {
					return nil, err
				}
				return map[string]interface{}{"num": map[string]interface{}{"v": res.Size_}}, nil
			})
		default:
			kind = "availableSpace"
			q = map[string]interface{}{"availableSpace": map[string]interface{}{}}
			resp = safely(func() (interface{}, error) {
				res, err := k.AvailableSpace(w, &sttypes.QueryAvailableSpace{})
				if err != nil {
					return nil, err
				}
				return map[string]interface{}{"num": map[string]interface{}{"v": res.Size_}}, nil
			})
		}
	case n == 30:
		kind = "storageStats"
		q = map[string]interface{}{"storageStats": map[string]interface{}{}}
		resp = safely(func() (interface{}, error) {
			res, err := k.StorageStats(w, &sttypes.QueryStorageStats{})
			if err != nil {
				return nil, err
			}
			plans := [][2]int64{}
			for pk, pn := range res.UsersByPlan {
				plans = append(plans, [2]int64{pk, pn})
			}
			sort.Slice(plans, func(i, j int) bool { return plans[i][0] < plans[j][0] })
			return map[string]interface{}{"stats": map[string]interface{}{"purchased": res.Purchased, "used": res.Used,
				"usedRatio": BigNum{res.UsedRatio.BigInt()}, "activeUsers": res.ActiveUsers, "uniqueUsers": res.UniqueUsers, "usersByPlan": plans}}, nil
		})
	default:
		forms := k.GetAllReport(ctx)
		m, o, st := anyFile()
		pr := anyProver()
		if len(forms) > 0 && r.Intn(4) > 0 {
			f := forms[r.Intn(len(forms))]
			m, o, st, pr = f.Merkle, f.Owner, f.Start, f.Prover
		}
		if r.Intn(2) == 0 {
			kind = "report"
			q = map[string]interface{}{"report": map[string]interface{}{"prover": pr, "merkle": hex.EncodeToString(m), "owner": o, "start": st}}
			resp = safely(func() (interface{}, error) {
				res, err := k.Report(w, &sttypes.QueryReport{Prover: pr, Merkle: m, Owner: o, Start: st})
				if err != nil {
					return nil, err
				}
				f := res.Report
				return map[string]interface{}{"form": map[string]interface{}{"f": formJ(f.Prover, f.Merkle, f.Owner, f.Start, f.Attestations)}}, nil
			})
		} else {
			kind = "allReports"
			req, pj := pg.page(kind, c.rawKeys(sttypes.StoreKey, sttypes.ReportKeyPrefix))
			q = map[string]interface{}{"allReports": map[string]interface{}{"page": pageOrDefault(pj)}}
			resp = safely(func() (interface{}, error) {
				res, err := k.AllReports(w, &sttypes.QueryAllReports{Pagination: req})
				if err != nil {
					return nil, err
				}
				nk, tot := pg.note(kind, res.Pagination)
				return listed("forms", formsR(res.Reports), nk, tot), nil
			})
		}
	}
	if len(bad) > 0 {
		resp = map[string]interface{}{"malformed": fmt.Sprint(bad)}
	}
	return q, resp, kind
}

// ---------------------------------------------------------------- rns

func rnsNameJ(n rnstypes.Names) rnsName {
	subs := []rnsSub{}
	for _, s := range n.Subdomains {
		subs = append(subs, rnsSub{s.Name, s.Value, s.Data, s.Tld, s.Expires})
	}
	return rnsName{n.Name, n.Tld, n.Expires, n.Value, n.Data, n.Locked, subs}
}

// rnsQueryStep asks the rns query server one generated question about the current state
func rnsQueryStep(c *Chain, r *rand.Rand, pg *pager, actors []string) (map[string]interface{}, interface{}, string) {
	k := c.A.RnsKeeper
	ctx := c.Ctx()
	w := sdk.WrapSDKContext(ctx)
	names := k.GetAllNames(ctx)
	anyName := func() string {
		if len(names) > 0 && r.Intn(4) > 0 {
			n := names[r.Intn(len(names))]
			s := n.Name + "." + n.Tld
			if len(n.Subdomains) > 0 && r.Intn(2) == 0 {
				s = n.Subdomains[r.Intn(len(n.Subdomains))].Name + "." + s
			}
			switch r.Intn(8) {
			case 0:
				s = strings.ToUpper(s[:1]) + s[1:]
			case 1:
				s = "nosuch." + s
			case 2:
				s = strings.ToUpper(s)
			}
			return s
		}
		return rnsNamePool[r.Intn(len(rnsNamePool))]
	}
	anyAddr := func() string {
		a := actors[r.Intn(len(actors))]
		switch r.Intn(8) {
		case 0:
			return strings.ToUpper(a)
		case 1:
			return a[:len(a)-1]
		}
		return a
	}
	var q map[string]interface{}
	var resp interface{}
	kind := ""
	switch n := r.Intn(16); {
	case n >= 13:
		kind = "resolve"
		nm := anyName()
		if r.Intn(4) == 0 {
			nm = anyAddr()
		}
		extraAddrs = append(extraAddrs, nm)
		q = map[string]interface{}{"resolve": map[string]interface{}{"name": nm, "lname": strings.ToLower(nm)}}
		resp = safely(func() (interface{}, error) {
			a, err := k.Resolve(ctx, nm)
			if err != nil {
				return nil, err
			}
			return map[string]interface{}{"addr": map[string]interface{}{"a": a.String()}}, nil
		})
	case n < 3:
		kind = "name"
		nm := anyName()
		q = map[string]interface{}{"name": map[string]interface{}{"name": nm, "lname": strings.ToLower(nm)}}
		resp = safely(func() (interface{}, error) {
			res, err := k.Name(w, &rnstypes.QueryName{Name: nm})
			if err != nil {
				return nil, err
			}
			return map[string]interface{}{"name": map[string]interface{}{"n": rnsNameJ(res.Name)}}, nil
		})
	case n < 4:
		kind = "primaryName"
		a := anyAddr()
		q = map[string]interface{}{"primaryName": map[string]interface{}{"owner": a}}
		resp = safely(func() (interface{}, error) {
			res, err := k.PrimaryName(w, &rnstypes.QueryPrimaryName{Owner: a})
			if err != nil {
				return nil, err
			}
			return map[string]interface{}{"name": map[string]interface{}{"n": rnsNameJ(res.Name)}}, nil
		})
	case n < 6:
		kind = "listOwnedNames"
		a := anyAddr()
		req, pj := pg.page(kind, nil)
		var pjv interface{}
		if pj != nil {
			pjv = pj
		}
		q = map[string]interface{}{"listOwnedNames": map[string]interface{}{"address": a, "page": pjv}}
		resp = safely(func() (interface{}, error) {
			res, err := k.ListOwnedNames(w, &rnstypes.QueryListOwnedNames{Address: a, Pagination: req})
			if err != nil {
				return nil, err
			}
			items := []interface{}{}
			for _, x := range res.Names {
				items = append(items, rnsNameJ(x))
			}
			return listed("names", items, nil, res.Pagination.Total), nil
		})
	case n < 8:
		kind = "allNames"
		req, pj := pg.page(kind, c.rawKeys(rnstypes.StoreKey, rnstypes.NamesKeyPrefix))
		q = map[string]interface{}{"allNames": map[string]interface{}{"page": pageOrDefault(pj)}}
		resp = safely(func() (interface{}, error) {
			res, err := k.AllNames(w, &rnstypes.QueryAllNames{Pagination: req})
			if err != nil {
				return nil, err
			}
			items := []interface{}{}
			for _, x := range res.Name {
				items = append(items, rnsNameJ(x))
			}
			nk, tot := pg.note(kind, res.Pagination)
			return listed("names", items, nk, tot), nil
		})
	case n < 9:
		kind = "bid"
		bids := k.GetAllBids(ctx)
		ix := anyAddr() + anyName()
		if len(bids) > 0 && r.Intn(4) > 0 {
			ix = bids[r.Intn(len(bids))].Index
			if r.Intn(6) == 0 {
				ix = strings.ToUpper(ix)
			}
		}
		q = map[string]interface{}{"bid": map[string]interface{}{"index": ix}}
		resp = safely(func() (interface{}, error) {
			res, err := k.Bid(w, &rnstypes.QueryBid{Name: ix})
			if err != nil {
				return nil, err
			}
			b := res.Bids
			return map[string]interface{}{"bid": map[string]interface{}{"b": rnsBid{b.Index, b.Name, b.Bidder, b.Price, parseCoinsJ(b.Price)}}}, nil
		})
	case n < 10:
		kind = "allBids"
		req, pj := pg.page(kind, c.rawKeys(rnstypes.StoreKey, rnstypes.BidsKeyPrefix))
		q = map[string]interface{}{"allBids": map[string]interface{}{"page": pageOrDefault(pj)}}
		resp = safely(func() (interface{}, error) {
			res, err := k.AllBids(w, &rnstypes.QueryAllBids{Pagination: req})
			if err != nil {
				return nil, err
			}
			items := []interface{}{}
			for _, b := range res.Bids {
				items = append(items, rnsBid{b.Index, b.Name, b.Bidder, b.Price, parseCoinsJ(b.Price)})
			}
			nk, tot := pg.note(kind, res.Pagination)
			return listed("bids", items, nk, tot), nil
		})
	case n < 11:
		kind = "forSale"
		nm := strings.ToLower(anyName())
		if sales := k.GetAllForsale(ctx); len(sales) > 0 && r.Intn(4) > 0 {
			nm = sales[r.Intn(len(sales))].Name
		}
		if r.Intn(5) == 0 {
			nm = anyName()
		}
		q = map[string]interface{}{"forSale": map[string]interface{}{"name": nm}}
		resp = safely(func() (interface{}, error) {
			res, err := k.ForSale(w, &rnstypes.QueryForSale{Name: nm})
			if err != nil {
				return nil, err
			}
			f := res.ForSale
			return map[string]interface{}{"listing": map[string]interface{}{"l": rnsListing{f.Name, f.Owner, f.Price, parseCoinJ(f.Price)}}}, nil
		})
	case n < 12:
		kind = "allForSale"
		req, pj := pg.page(kind, c.rawKeys(rnstypes.StoreKey, rnstypes.ForsaleKeyPrefix))
		q = map[string]interface{}{"allForSale": map[string]interface{}{"page": pageOrDefault(pj)}}
		resp = safely(func() (interface{}, error) {
			res, err := k.AllForSale(w, &rnstypes.QueryAllForSale{Pagination: req})
			if err != nil {
				return nil, err
			}
			items := []interface{}{}
			for _, f := range res.ForSale {
				items = append(items, rnsListing{f.Name, f.Owner, f.Price, parseCoinJ(f.Price)})
			}
			nk, tot := pg.note(kind, res.Pagination)
			return listed("listings", items, nk, tot), nil
		})
	default:
		if r.Intn(2) == 0 {
			kind = "init"
			a := anyAddr()
			q = map[string]interface{}{"init": map[string]interface{}{"address": a}}
			resp = safely(func() (interface{}, error) {
				res, err := k.Init(w, &rnstypes.QueryInit{Address: a})
				if err != nil {
					return nil, err
				}
				return map[string]interface{}{"flag": map[string]interface{}{"b": res.Init}}, nil
			})
		} else {
			kind = "allInits"
			req, pj := pg.page(kind, c.rawKeys(rnstypes.StoreKey, rnstypes.InitKeyPrefix))
			q = map[string]interface{}{"allInits": map[string]interface{}{"page": pageOrDefault(pj)}}
			resp = safely(func() (interface{}, error) {
				res, err := k.AllInits(w, &rnstypes.QueryAllInits{Pagination: req})
				if err != nil {
					return nil, err
				}
				items := []interface{}{}
				for _, x := range res.Init {
					items = append(items, x.Complete)
				}
				nk, tot := pg.note(kind, res.Pagination)
				return listed("flags", items, nk, tot), nil
			})
		}
	}
	return q, resp, kind
}

// ---------------------------------------------------------------- notifications

func notifQueryStep(c *Chain, r *rand.Rand, pg *pager, actors []string) (map[string]interface{}, interface{}, string) {
	k := c.A.NotificationsKeeper
	ctx := c.Ctx()
	w := sdk.WrapSDKContext(ctx)
	all := k.GetAllNotifications(ctx)
	var q map[string]interface{}
	var resp interface{}
	kind := ""
	addr := func() string {
		a := actors[r.Intn(len(actors))]
		if r.Intn(10) == 0 {
			return a[:len(a)-2]
		}
		return a
	}
	switch n := r.Intn(6); {
	case n < 1:
		kind = "notification"
		to, from, t := addr(), addr(), int64(r.Intn(1000))
		if len(all) > 0 && r.Intn(4) > 0 {
			x := all[r.Intn(len(all))]
			to, from, t = x.To, x.From, x.Time
			if r.Intn(8) == 0 {
				t++
			}
		}
		q = map[string]interface{}{"notification": map[string]interface{}{"to": to, "sender": from, "time": t}}
		resp = safely(func() (interface{}, error) {
			res, err := k.Notification(w, &notiftypes.QueryNotification{To: to, From: from, Time: t})
			if err != nil {
				return nil, err
			}
			return map[string]interface{}{"notif": map[string]interface{}{"n": notifJ(res.Notification)}}, nil
		})
	case n < 3:
		kind = "allNotifications"
		req, pj := pg.page(kind, c.rawKeys(notiftypes.StoreKey, notiftypes.NotificationsKeyPrefix))
		q = map[string]interface{}{"allNotifications": map[string]interface{}{"page": pageOrDefault(pj)}}
		resp = safely(func() (interface{}, error) {
			res, err := k.AllNotifications(w, &notiftypes.QueryAllNotifications{Pagination: req})
			if err != nil {
				return nil, err
			}
			items := []interface{}{}
			for _, x := range res.Notifications {
				items = append(items, notifJ(x))
			}
			nk, tot := pg.note(kind, res.Pagination)
			return listed("notifs", items, nk, tot), nil
		})
	default:
		kind = "byAddress"
		to := addr()
		req, pj := pg.page(kind, nil)
		var pjv interface{}
		if pj != nil {
			pjv = pj
		}
		q = map[string]interface{}{"byAddress": map[string]interface{}{"to": to, "page": pjv}}
		resp = safely(func() (interface{}, error) {
			res, err := k.AllNotificationsByAddress(w, &notiftypes.QueryAllNotificationsByAddress{To: to, Pagination: req})
			if err != nil {
				return nil, err
			}
			items := []interface{}{}
			for _, x := range res.Notifications {
				items = append(items, notifJ(x))
			}
			return listed("notifs", items, nil, res.Pagination.Total), nil
		})
	}
	return q, resp, kind
}

// ---------------------------------------------------------------- filetree

func ftEntryJ(f fttypes.Files) map[string]interface{} {
	return map[string]interface{}{"address": f.Address, "owner": f.Owner, "contents": f.Contents, "viewers": aclJ(f.ViewingAccess), "editors": aclJ(f.EditAccess), "tracking": f.TrackingNumber}
}

func ftQueryStep(c *Chain, r *rand.Rand, pg *pager, crafted func() string) (map[string]interface{}, interface{}, string) {
	k := c.A.FileTreeKeeper
	ctx := c.Ctx()
	w := sdk.WrapSDKContext(ctx)
	files := k.GetAllFiles(ctx)
	var q map[string]interface{}
	var resp interface{}
	kind := ""
	switch n := r.Intn(6); {
	case n == 5:
		kind = "allPubKeys"
		req, pj := pg.page(kind, c.rawKeys(fttypes.StoreKey, fttypes.PubkeyKeyPrefix))
		q = map[string]interface{}{"allPubKeys": map[string]interface{}{"page": pageOrDefault(pj)}}
		resp = safely(func() (interface{}, error) {
			res, err := k.AllPubKeys(w, &fttypes.QueryAllPubKeys{Pagination: req})
			if err != nil {
				return nil, err
			}
			items := []interface{}{}
			for _, p := range res.PubKey {
				items = append(items, []string{p.Address, p.Key})
			}
			nk, tot := pg.note(kind, res.Pagination)
			return listed("keys", items, nk, tot), nil
		})
	case n < 2:
		kind = "file"
		a, o := crafted(), crafted()
		if len(files) > 0 && r.Intn(5) > 0 {
			f := files[r.Intn(len(files))]
			a, o = f.Address, f.Owner
			switch r.Intn(8) {
			case 0:
				o = crafted()
			case 1: // the same raw key, cut elsewhere
				if i := strings.Index(a, "/"); i >= 0 {
					a, o = a[:i], a[i+1:]+"/"+o
				}
			}
		}
		q = map[string]interface{}{"file": map[string]interface{}{"address": a, "owner": o}}
		resp = safely(func() (interface{}, error) {
			res, err := k.File(w, &fttypes.QueryFile{Address: a, OwnerAddress: o})
			if err != nil {
				return nil, err
			}
			return map[string]interface{}{"file": map[string]interface{}{"f": ftEntryJ(res.File)}}, nil
		})
	case n < 4:
		kind = "allFiles"
		req, pj := pg.page(kind, c.rawKeys(fttypes.StoreKey, fttypes.FilesKeyPrefix))
		q = map[string]interface{}{"allFiles": map[string]interface{}{"page": pageOrDefault(pj)}}
		resp = safely(func() (interface{}, error) {
			res, err := k.AllFiles(w, &fttypes.QueryAllFiles{Pagination: req})
			if err != nil {
				return nil, err
			}
			items := []interface{}{}
			for _, f := range res.Files {
				items = append(items, ftEntryJ(f))
			}
			nk, tot := pg.note(kind, res.Pagination)
			return listed("files", items, nk, tot), nil
		})
	default:
		kind = "pubKey"
		a := crafted()
		if keys := k.GetAllPubkey(ctx); len(keys) > 0 && r.Intn(3) > 0 {
			a = keys[r.Intn(len(keys))].Address
		}
		q = map[string]interface{}{"pubKey": map[string]interface{}{"address": a}}
		resp = safely(func() (interface{}, error) {
			res, err := k.PubKey(w, &fttypes.QueryPubKey{Address: a})
			if err != nil {
				return nil, err
			}
			return map[string]interface{}{"key": map[string]interface{}{"k": res.PubKey.Key}}, nil
		})
	}
	return q, resp, kind
}
