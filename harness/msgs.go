package main

// Profile "msgs" (C11): (a) the table of every registered message type of the custom modules,
// read from the live interface registry: which field GetSigners returns, how many signers,
// whether the message routes to a handler; (b) histories of oracle feed messages by several
// accounts; (c) the wasm binding's PerformPostFile guard; (d) with -signed, real signed
// transactions through DeliverTx for every message type, signed by the creator and by another key.

import (
	"encoding/hex"
	"encoding/json"
	"fmt"
	wasmvmtypes "github.com/CosmWasm/wasmvm/types"
	"math/big"
	"math/rand"
	"reflect"
	"sort"
	"strings"
	"time"

	"github.com/cosmos/cosmos-sdk/client/tx"
	"github.com/cosmos/cosmos-sdk/crypto/keys/secp256k1"
	sdk "github.com/cosmos/cosmos-sdk/types"
	"github.com/cosmos/cosmos-sdk/types/tx/signing"
	authsigning "github.com/cosmos/cosmos-sdk/x/auth/signing"
	"github.com/jackalLabs/canine-chain/v4/app"
	"github.com/jackalLabs/canine-chain/v4/wasmbinding"
	oracletypes "github.com/jackalLabs/canine-chain/v4/x/oracle/types"
	sttypes "github.com/jackalLabs/canine-chain/v4/x/storage/types"
	abci "github.com/tendermint/tendermint/abci/types"
)

var withSigned bool

func customMsgURLs(c *Chain) []string {
	reg := app.MakeEncodingConfig().InterfaceRegistry
	urls := reg.ListImplementations(sdk.MsgInterfaceProtoName)
	out := []string{}
	for _, u := range urls {
		if strings.HasPrefix(u, "/canine_chain.") {
			out = append(out, u)
		}
	}
	sort.Strings(out)
	return out
}

// newMsg instantiates the message type and fills every string field with a distinct valid address
func newMsg(c *Chain, url string, addrs []string) (sdk.Msg, map[string]string, error) {
	reg := app.MakeEncodingConfig().InterfaceRegistry
	pm, err := reg.Resolve(url)
	if err != nil {
		return nil, nil, err
	}
	msg, ok := pm.(sdk.Msg)
	if !ok {
		return nil, nil, fmt.Errorf("not an sdk.Msg")
	}
	v := reflect.ValueOf(msg).Elem()
	t := v.Type()
	fields := map[string]string{}
	k := 0
	for i := 0; i < v.NumField(); i++ {
		f := v.Field(i)
		if f.Kind() == reflect.String && f.CanSet() {
			a := addrs[0] // the creator is a funded account with a key; every other string field gets its own synthetic address
			if t.Field(i).Name != "Creator" {
				a = sdk.AccAddress([]byte(fmt.Sprintf("verif-field-addr-%03d", k))).String()
			}
			f.SetString(a)
			fields[t.Field(i).Name] = a
			k++
		}
		if f.Kind() == reflect.Int64 && f.CanSet() {
			f.SetInt(30)
		}
	}
	return msg, fields, nil
}

// plausible makes the non-address fields pass ValidateBasic where a simple value does (names,
// URLs, JSON), so that the signed-transaction check reaches the ante handler
func plausible(msg sdk.Msg) {
	v := reflect.ValueOf(msg).Elem()
	t := v.Type()
	for i := 0; i < v.NumField(); i++ {
		f := v.Field(i)
		if f.Kind() != reflect.String || !f.CanSet() {
			continue
		}
		switch t.Field(i).Name {
		case "Name":
			f.SetString("verifname.jkl")
		case "Ip":
			f.SetString("https://host.example.com")
		case "Contents", "Note", "Data", "Viewers", "Editors":
			f.SetString("{}")
		case "PaymentDenom":
			f.SetString("ujkl")
		}
	}
}

func safeSigners(m sdk.Msg) (out []string, perr string) {
	defer func() {
		if r := recover(); r != nil {
			perr = fmt.Sprint(r)
		}
	}()
	for _, a := range m.GetSigners() {
		out = append(out, a.String())
	}
	return
}

func (c *Chain) signedDeliver(msg sdk.Msg, signer int) (uint32, string) {
	txCfg := app.MakeEncodingConfig().TxConfig
	b := txCfg.NewTxBuilder()
	if err := b.SetMsgs(msg); err != nil {
		return 999, err.Error()
	}
	b.SetGasLimit(5_000_000)
	b.SetFeeAmount(sdk.NewCoins(sdk.NewInt64Coin("ujkl", 50_000)))
	priv := c.Privs[signer]
	acc := c.A.AccountKeeper.GetAccount(c.Ctx(), c.Users[signer])
	sigV2 := signing.SignatureV2{PubKey: priv.PubKey(), Data: &signing.SingleSignatureData{SignMode: txCfg.SignModeHandler().DefaultMode()}, Sequence: acc.GetSequence()}
	if err := b.SetSignatures(sigV2); err != nil {
		return 999, err.Error()
	}
	sd := authsigning.SignerData{ChainID: "verif-1", AccountNumber: acc.GetAccountNumber(), Sequence: acc.GetSequence()}
	sig, err := tx.SignWithPrivKey(txCfg.SignModeHandler().DefaultMode(), sd, b, priv, txCfg, acc.GetSequence())
	if err != nil {
		return 999, err.Error()
	}
	if err := b.SetSignatures(sig); err != nil {
		return 999, err.Error()
	}
	bz, err := txCfg.TxEncoder()(b.GetTx())
	if err != nil {
		return 999, err.Error()
	}
	res := c.A.DeliverTx(abci.RequestDeliverTx{Tx: bz})
	return res.Code, res.Log
}

var _ = secp256k1.PrivKey{}

type oracleState struct {
	Feeds     []Pair      `json:"feeds"`
	Bank      []Pair      `json:"bank"`
	ModuleAcc string      `json:"moduleAcc"`
	Deposit   interface{} `json:"deposit"`
	Blocked   []string    `json:"blocked"`
}

func (c *Chain) oracleAbs(users []string) oracleState {
	cdc := c.A.AppCodec()
	st := oracleState{Feeds: []Pair{}}
	for _, kv := range c.RawStore(oracletypes.StoreKey, oracletypes.FeedKeyPrefix) {
		var f oracletypes.Feed
		cdc.MustUnmarshal(kv[1], &f)
		st.Feeds = append(st.Feeds, Pair{strings.TrimSuffix(string(kv[0]), "/"), map[string]interface{}{"owner": f.Owner, "data": f.Data, "lastUpdate": f.LastUpdate.UnixNano(), "name": f.Name}})
	}
	st.ModuleAcc = c.ModuleAddr(oracletypes.ModuleName)
	dep := c.A.OracleKeeper.GetParams(c.Ctx()).Deposit
	tracked := append([]string{}, users...)
	tracked = append(tracked, st.ModuleAcc)
	if _, err := sdk.AccAddressFromBech32(dep); err == nil {
		st.Deposit = dep
		tracked = append(tracked, dep)
	}
	st.Bank = c.BankAbs(tracked)
	st.Blocked = c.BlockedAddrs()
	return st
}

var oraclePg *pager

func feedJ(f oracletypes.Feed) map[string]interface{} {
	return map[string]interface{}{"owner": f.Owner, "data": f.Data, "lastUpdate": f.LastUpdate.UnixNano(), "name": f.Name}
}

func oracleQueryStep(c *Chain, pg *pager, names []string) (map[string]interface{}, interface{}, string) {
	k := c.A.OracleKeeper
	w := sdk.WrapSDKContext(c.Ctx())
	r := pg.r
	if r.Intn(2) == 0 {
		name := names[r.Intn(len(names))]
		if r.Intn(6) == 0 {
			name += "x"
		}
		q := map[string]interface{}{"feed": map[string]interface{}{"name": name}}
		return q, safely(func() (interface{}, error) {
			res, err := k.Feed(w, &oracletypes.QueryFeed{Name: name})
			if err != nil {
				return nil, err
			}
			return map[string]interface{}{"feed": map[string]interface{}{"f": feedJ(res.Feed)}}, nil
		}), "feed"
	}
	req, pj := pg.page("allFeeds", c.rawKeys(oracletypes.StoreKey, oracletypes.FeedKeyPrefix))
	q := map[string]interface{}{"allFeeds": map[string]interface{}{"page": pageOrDefault(pj)}}
	return q, safely(func() (interface{}, error) {
		res, err := k.AllFeeds(w, &oracletypes.QueryAllFeeds{Pagination: req})
		if err != nil {
			return nil, err
		}
		items := []interface{}{}
		for _, f := range res.Feed {
			items = append(items, feedJ(f))
		}
		nk, tot := pg.note("allFeeds", res.Pagination)
		return listed("feeds", items, nk, tot), nil
	}), "allFeeds"
}

func runMsgs(seed int64, histories, steps int, out *Emitter) {
	for hi := 0; hi < histories; hi++ {
		r := rand.New(rand.NewSource(seed*1000003 + int64(hi)))
		var depositAddr string
		c := NewChain(5, []string{"ujkl"}, func(a *app.JackalApp, gs app.GenesisState, users []sdk.AccAddress) {
			g := oracletypes.DefaultGenesis()
			if hi%3 != 2 {
				depositAddr = users[4].String()
				g.Params.Deposit = depositAddr
			}
			gs[oracletypes.ModuleName] = a.AppCodec().MustMarshalJSON(g)
		})
		users := []string{}
		for _, u := range c.Users {
			users = append(users, u.String())
		}
		c.Begin(6 * time.Second)
		// (a) the message table
		urls := customMsgURLs(c)
		for ui, url := range urls {
			// rotate the address assignment so that "Creator" is not always the first address
			addrs := append([]string{}, users[ui%len(users):]...)
			addrs = append(addrs, users[:ui%len(users)]...)
			msg, fields, err := newMsg(c, url, addrs)
			if err != nil {
				out.Emit(map[string]interface{}{"mod": "msgtable", "hist": hi, "i": ui, "url": url, "error": err.Error(), "op": "table", "ok": false})
				continue
			}
			signers, perr := safeSigners(msg)
			signerFields := []string{}
			for _, s := range signers {
				names := []string{}
				for fn, fv := range fields {
					if fv == s {
						names = append(names, fn)
					}
				}
				sort.Strings(names)
				signerFields = append(signerFields, strings.Join(names, "|"))
			}
			routable := c.A.MsgServiceRouter().Handler(msg) != nil
			fnames := []string{}
			for fn := range fields {
				fnames = append(fnames, fn)
			}
			sort.Strings(fnames)
			rec := map[string]interface{}{"mod": "msgtable", "hist": hi, "i": ui, "url": url, "stringFields": fnames, "nSigners": len(signers), "signerFields": signerFields,
				"signersPanic": perr, "routable": routable, "op": "table", "ok": true}
			if withSigned && hi == 0 {
				// signed by the creator: the ante handler accepts the signature (the handler may still fail);
				// signed by another key: rejected before the handler
				creatorIdx := -1
				for i, u := range users {
					if fields["Creator"] == u {
						creatorIdx = i
					}
				}
				plausible(msg)
				rec["validateBasicOk"] = msg.ValidateBasic() == nil
				if creatorIdx >= 0 && msg.ValidateBasic() == nil {
					code1, log1 := c.signedDeliver(msg, creatorIdx)
					code2, log2 := c.signedDeliver(msg, (creatorIdx+1)%len(users))
					rec["signedByCreator"] = map[string]interface{}{"code": code1, "sigError": strings.Contains(log1, "signature verification failed") || strings.Contains(log1, "pubKey does not match")}
					rec["signedByOther"] = map[string]interface{}{"code": code2, "sigError": strings.Contains(log2, "signature verification failed") || strings.Contains(log2, "pubKey does not match"), "log": firstN(log2, 120)}
				}
			}
			out.Emit(rec)
			out.Count("msgs.table", routable)
		}
		// (b) oracle feeds
		names := []string{"jklprice", "feed-a", "feed-b", "", "x/y", " jklprice", "jklprice ", "JKLPRICE", "feed-a\t", "\nfeed-b"}
		for i := 0; i < steps; i++ {
			if r.Intn(8) == 0 {
				c.NextBlock(6 * time.Second)
			}
			creator := users[r.Intn(4)]
			name := names[r.Intn(len(names))]
			var msg sdk.Msg
			var op map[string]interface{}
			if r.Intn(3) == 0 {
				msg = &oracletypes.MsgCreateFeed{Creator: creator, Name: name}
				op = map[string]interface{}{"createFeed": map[string]interface{}{"creator": creator, "name": name}}
			} else {
				if f, found := c.A.OracleKeeper.GetFeed(c.Ctx(), name); found && r.Intn(2) == 0 {
					creator = f.Owner
				}
				data := fmt.Sprintf(`{"price":"0.%d","24h_change":"0"}`, 1+r.Intn(98))
				if f, found := c.A.OracleKeeper.GetFeed(c.Ctx(), name); found && r.Intn(4) == 0 {
					// the very data the feed carries already, sent by anybody (a replay of the owner's last update)
					data = f.Data
					creator = users[r.Intn(4)]
				}
				msg = &oracletypes.MsgUpdateFeed{Creator: creator, Name: name, Data: data}
				op = map[string]interface{}{"updateFeed": map[string]interface{}{"creator": creator, "name": name, "data": data}}
			}
			pre := c.oracleAbs(users)
			res := c.Deliver(msg)
			post := c.oracleAbs(users)
			out.Emit(map[string]interface{}{"mod": "oracle", "hist": hi, "i": i, "h": c.H, "now": c.T.UnixNano(), "pre": pre, "op": op, "ok": res.OK, "err": res.Err, "post": post})
			out.Count("oracle."+opKind(op), res.OK)
			if queriesOn && r.Intn(3) == 0 { // what the feed queries answer on this state
				if oraclePg == nil {
					oraclePg = newPager(rand.New(rand.NewSource(seed + 53)))
				}
				q, resp, kind := oracleQueryStep(c, oraclePg, names)
				out.Emit(map[string]interface{}{"mod": "query", "sub": "oracle", "hist": hi, "i": i, "h": c.H, "state": post, "q": q, "resp": resp})
				out.Count("query.oracle."+kind, resp != "err")
			}
		}
		// (b') the network restarts from its own exported genesis: the feeds and the deposit parameter must come back
		// as they were, and the oracle genesis model must export what the chain exported
		{
			pre := c.oracleAbs(users)
			if e, p := c.Restart(6 * time.Second); e != "" || p != nil {
				out.Emit(map[string]interface{}{"mod": "panic", "where": "restart", "hist": hi, "i": steps, "h": c.H, "panic": fmt.Sprint(e, p)})
			} else {
				post := c.oracleAbs(users)
				var gj interface{}
				var app map[string]json.RawMessage
				if json.Unmarshal(c.LastExport, &app) == nil {
					var gs oracletypes.GenesisState
					if err := c.A.AppCodec().UnmarshalJSON(app[oracletypes.ModuleName], &gs); err == nil {
						feeds := []interface{}{}
						for _, f := range gs.FeedList {
							feeds = append(feeds, map[string]interface{}{"owner": f.Owner, "data": f.Data, "lastUpdate": f.LastUpdate.UnixNano(), "name": f.Name})
						}
						var dep interface{}
						if _, err := sdk.AccAddressFromBech32(gs.Params.Deposit); err == nil {
							dep = gs.Params.Deposit
						}
						gj = map[string]interface{}{"params": map[string]interface{}{"deposit": dep}, "feedList": feeds, "validateOk": gs.Validate() == nil}
					}
				}
				out.Emit(map[string]interface{}{"mod": "oracle", "hist": hi, "i": steps, "h": c.H, "now": c.T.UnixNano(), "pre": pre, "op": "restart", "ok": true, "post": post, "genesis": gj})
				out.Count("oracle.restart", true)
			}
		}
		// (c) the wasm route into the storage message server: a contract may post storage files only in its own
		// name, and what it posts is handled exactly like the same MsgPostFile delivered directly (paid once when
		// Expires > 0, against the contract's plan otherwise).  Two of the four callers hold a plan, so that both
		// kinds of posting can succeed; the plans' gauges give escrow accounts somebody could try to post for.
		for k := 0; k < 2; k++ {
			c.Deliver(&sttypes.MsgBuyStorage{Creator: users[k], ForAddress: users[k], DurationDays: 30, Bytes: 3_000_000_000, PaymentDenom: "ujkl"})
		}
		var gaugeAccs []string
		for _, g := range c.A.StorageKeeper.GetAllPaymentGauges(c.Ctx()) {
			if a, err := sttypes.GetGaugeAccount(g); err == nil {
				gaugeAccs = append(gaugeAccs, a.String())
				seenGaugeAccs = append(seenGaugeAccs, a.String())
			}
		}
		for i := 0; i < 16; i++ {
			contract := c.Users[r.Intn(4)]
			creator := contract.String()
			switch r.Intn(4) {
			case 0:
				creator = users[r.Intn(4)]
			case 1:
				if len(gaugeAccs) > 0 { // an escrow account nobody holds a key of
					creator = gaugeAccs[r.Intn(len(gaugeAccs))]
				}
			}
			merkle := []byte{byte(i), 7}
			expires := c.H + 14400*3
			if r.Intn(2) == 0 {
				expires = 0 // against the plan
			}
			pf := &sttypes.MsgPostFile{Creator: creator, Merkle: merkle, FileSize: int64(1 + r.Intn(50)), MaxProofs: 3, Expires: expires, Note: "{}"}
			for _, ga := range gaugeAccs {
				if creator == ga { // a posting priced to take a good part of what the escrow holds
					pf.FileSize = []int64{1e12, 1e11, 1e10, 1e9, 1e8}[r.Intn(5)]
					pf.Expires = c.H + 14400*int64(30+r.Intn(300))
				}
			}
			pre, _ := c.storageAbs(users)
			okc := true
			errs := ""
			func() {
				defer func() {
					if rec := recover(); rec != nil {
						okc, errs = false, fmt.Sprint("PANIC: ", rec)
					}
				}()
				cctx, write := c.Ctx().CacheContext()
				// the real entry point: the custom messenger decodes the contract's JSON message and dispatches it
				// (the wasm module commits what a dispatch that returns no error wrote)
				custom, _ := json.Marshal(map[string]interface{}{"post_file": pf})
				messenger := wasmbinding.CustomMessageDecorator(&c.A.FileTreeKeeper, &c.A.StorageKeeper)(nil)
				if _, _, err := messenger.DispatchMsg(cctx, contract, "", wasmvmtypes.CosmosMsg{Custom: custom}); err != nil {
					okc, errs = false, err.Error()
				} else {
					write()
				}
			}()
			post, bad := c.storageAbs(users)
			gid, gacc := gaugeDelta(pre, post, big.NewInt(c.T.UnixNano()), new(big.Int).Add(big.NewInt(c.T.UnixNano()), new(big.Int).Mul(big.NewInt((pf.Expires-c.H)*6/60/60/24), big.NewInt(86400_000_000_000))))
			inner := map[string]interface{}{"creator": creator, "merkle": hex.EncodeToString(merkle), "fileSize": pf.FileSize, "maxProofs": pf.MaxProofs, "expires": pf.Expires, "proofType": 0,
				"note": "{}", "noteValid": true, "jklPrice": BigNum{c.A.StorageKeeper.GetJklPrice(c.Ctx()).BigInt()}, "gaugeId": gid, "gaugeAcc": gacc}
			out.Emit(map[string]interface{}{"mod": "wasm", "hist": hi, "i": i, "h": c.H, "now": c.T.UnixNano(), "pre": pre, "contract": contract.String(),
				"op": map[string]interface{}{"postFile": inner}, "ok": okc, "err": errs, "post": post, "badKeys": bad})
			out.Count("wasm.postFile", okc)
		}
		// on to the next reward block: whatever the contract route let through must not halt the chain
		cw := c.A.StorageKeeper.GetParams(c.Ctx()).CheckWindow
		for n := int64(0); n <= cw && cw > 0 && cw <= 400; n++ {
			if p := c.NextBlock(6 * time.Second); p != nil {
				out.Emit(map[string]interface{}{"mod": "panic", "where": "BeginBlock after contract posts", "hist": hi, "i": 1000 + int(n), "h": c.H, "panic": fmt.Sprint(p)})
				break
			}
			if c.H%cw == 0 {
				out.Count("wasm.rewardBlock", true)
				break
			}
		}
		c.Close()
	}
}

func firstN(s string, n int) string {
	if len(s) > n {
		return s[:n]
	}
	return s
}
