package main

// Profile "notif": create / delete / block-senders among 4 accounts, with address and name targets
// (names seeded through the rns genesis), same-block repeats, blocked senders, foreign deletes and
// crafted From strings.  The raw store under "Notification/" is read key by key (both record kinds).

import (
	"encoding/json"
	"fmt"
	"math/rand"
	"strconv"
	"strings"
	"time"

	sdk "github.com/cosmos/cosmos-sdk/types"
	"github.com/jackalLabs/canine-chain/v4/app"
	notiftypes "github.com/jackalLabs/canine-chain/v4/x/notifications/types"
	rnstypes "github.com/jackalLabs/canine-chain/v4/x/rns/types"
)

func segS(v string) map[string]interface{} {
	return map[string]interface{}{"s": map[string]interface{}{"v": v}}
}
func segN(v int64) map[string]interface{} {
	return map[string]interface{}{"n": map[string]interface{}{"v": v}}
}

func notifJ(n notiftypes.Notification) map[string]interface{} {
	return map[string]interface{}{"to": n.To, "sender": n.From, "time": n.Time, "contents": n.Contents, "priv": string(n.PrivateContents)}
}

type notifState struct {
	Store []Pair `json:"store"`
}

func (c *Chain) notifAbs() notifState {
	cdc := c.A.AppCodec()
	st := notifState{Store: []Pair{}}
	for _, kv := range c.RawStore(notiftypes.StoreKey, notiftypes.NotificationsKeyPrefix) {
		parts := strings.Split(string(kv[0]), "/")
		key := []interface{}{}
		for i, p := range parts {
			if i == len(parts)-1 && len(parts) >= 3 {
				if v, err := strconv.ParseInt(p, 10, 64); err == nil {
					key = append(key, segN(v))
					continue
				}
			}
			key = append(key, segS(p))
		}
		var entry interface{}
		if len(parts) >= 3 {
			var n notiftypes.Notification
			if err := cdc.Unmarshal(kv[1], &n); err == nil {
				entry = map[string]interface{}{"notif": map[string]interface{}{"n": notifJ(n)}}
			}
		} else if len(parts) == 2 {
			var b notiftypes.Block
			if err := cdc.Unmarshal(kv[1], &b); err == nil {
				entry = map[string]interface{}{"block": map[string]interface{}{"owner": b.Address, "blocked": b.BlockedAddress}}
			}
		}
		if entry == nil {
			entry = map[string]interface{}{"other": map[string]interface{}{"raw": fmt.Sprintf("%x", kv[1])}}
		}
		st.Store = append(st.Store, Pair{key, entry})
	}
	return st
}

// emitResolve: the names the other modules hand to rns.Resolve are taken from the chain as oracle inputs of their
// models; each such resolution is also put to the rns model (Canine/Query/Rns.lean: resolve) as a query record of
// its own, on the rns state of that moment, so that the oracle is checked on exactly the names in use.
func (c *Chain) emitResolve(out *Emitter, hi, i int, name string, tracked []string) {
	extraAddrs = []string{name}
	var resp interface{} = "err"
	if a, err := c.A.RnsKeeper.Resolve(c.Ctx(), name); err == nil {
		resp = map[string]interface{}{"addr": map[string]interface{}{"a": a.String()}}
	}
	st := c.rnsAbs(tracked)
	extraAddrs = nil
	out.Emit(map[string]interface{}{"mod": "query", "sub": "rns", "hist": hi, "i": i, "h": c.H, "state": st,
		"q": map[string]interface{}{"resolve": map[string]interface{}{"name": name, "lname": strings.ToLower(name)}}, "resp": resp})
	out.Count("query.rns.resolve", resp != "err")
}

func (c *Chain) resolveJ(s string) interface{} {
	a, err := c.A.RnsKeeper.Resolve(c.Ctx(), s)
	if err != nil {
		return nil
	}
	return a.String()
}

func (c *Chain) inboxesJ(addrs []string) []Pair {
	out := []Pair{}
	for _, a := range addrs {
		l := []interface{}{}
		for _, n := range c.A.NotificationsKeeper.GetAllNotificationsByAddress(c.Ctx(), a) {
			l = append(l, notifJ(n))
		}
		out = append(out, Pair{a, l})
	}
	return out
}

func (c *Chain) allNotifsJ() []interface{} {
	l := []interface{}{}
	for _, n := range c.A.NotificationsKeeper.GetAllNotifications(c.Ctx()) {
		l = append(l, notifJ(n))
	}
	return l
}

func runNotif(seed int64, histories, steps int, out *Emitter) {
	for hi := 0; hi < histories; hi++ {
		r := rand.New(rand.NewSource(seed*1000003 + int64(hi)))
		mut := func(a *app.JackalApp, gs app.GenesisState, users []sdk.AccAddress) {
			g := rnstypes.DefaultGenesis()
			g.NamesList = []rnstypes.Names{
				{Name: "alice", Tld: "jkl", Expires: 1 << 40, Value: users[0].String(), Data: "{}", Subdomains: []*rnstypes.Names{}},
				{Name: "bobby", Tld: "jkl", Expires: 1 << 40, Value: users[1].String(), Data: "{}", Subdomains: []*rnstypes.Names{}},
				{Name: "broken", Tld: "jkl", Expires: 1 << 40, Value: "not-an-address", Data: "{}", Subdomains: []*rnstypes.Names{}},
				// a label that ends in letters of its TLD, next to the label without them
				{Name: "carl", Tld: "jkl", Expires: 1 << 40, Value: users[2].String(), Data: "{}", Subdomains: []*rnstypes.Names{}},
				{Name: "car", Tld: "jkl", Expires: 1 << 40, Value: users[3].String(), Data: "{}", Subdomains: []*rnstypes.Names{}},
			}
			gs[rnstypes.ModuleName] = a.AppCodec().MustMarshalJSON(g)
			if hi%3 == 2 {
				// more notifications (and a few block entries) than one listing page holds
				ng := notiftypes.DefaultGenesis()
				for n := 0; n < 118; n++ {
					ng.Notifications = append(ng.Notifications, notiftypes.Notification{To: users[n%3].String(), From: users[3].String(), Time: int64(1_600_000_000_000_000 + n), Contents: fmt.Sprintf("{\"seeded\":%d}", n)})
				}
				ng.Blocks = append(ng.Blocks, notiftypes.Block{Address: users[2].String(), BlockedAddress: users[3].String()})
				gs[notiftypes.ModuleName] = a.AppCodec().MustMarshalJSON(ng)
			}
		}
		c := NewChain(4, []string{"ujkl"}, mut)
		actors := []string{}
		for _, u := range c.Users {
			actors = append(actors, u.String())
		}
		targets := append(append([]string{}, actors...), "alice.jkl", "bobby.jkl", "broken.jkl", "nobody.jkl", "", "garbage", "carl.jkl", "car.jkl")
		c.Begin(6 * time.Second)
		type sent struct {
			to, from string
			t        int64
		}
		var log []sent
		qr := rand.New(rand.NewSource(seed*7919 + int64(hi) + 31))
		var pgr *pager
		for i := 0; i < steps; i++ {
			if restartsOn && qr.Intn(150) == 0 {
				// the network restarts from its own exported genesis (and runs its first block)
				pre := c.notifAbs()
				e, p := c.Restart(6 * time.Second)
				if e != "" || p != nil {
					out.Emit(map[string]interface{}{"mod": "panic", "where": "restart", "hist": hi, "i": i, "h": c.H, "panic": fmt.Sprint(e, p)})
					break
				}
				post := c.notifAbs()
				out.Emit(map[string]interface{}{"mod": "notif", "hist": hi, "i": i, "h": c.H, "now": c.T.UnixMicro(), "pre": pre, "op": "restart", "ok": true, "post": post, "genesis": c.notifGenesisJ(),
					"inboxes": c.inboxesJ(actors), "all": c.allNotifsJ(), "actors": actors})
				out.Count("notif.restart", true)
			}
			if r.Intn(4) == 0 {
				dt := []time.Duration{time.Microsecond, time.Millisecond, 6 * time.Second, 6 * time.Second}[r.Intn(4)]
				if p := c.NextBlock(dt); p != nil {
					out.Emit(map[string]interface{}{"mod": "panic", "where": "block", "h": c.H, "panic": fmt.Sprint(p)})
					break
				}
			}
			if queriesOn && qr.Intn(4) == 0 { // a query record: the query server answers on the current state
				if pgr == nil {
					pgr = newPager(qr)
				}
				qst := c.notifAbs()
				q, resp, kind := notifQueryStep(c, qr, pgr, actors)
				out.Emit(map[string]interface{}{"mod": "query", "sub": "notif", "hist": hi, "i": i, "h": c.H, "state": qst, "q": q, "resp": resp})
				out.Count("query.notif."+kind, resp != "err")
			}
			var msg sdk.Msg
			var op map[string]interface{}
			now := c.T.UnixMicro()
			// the message carries a spelling of the signer's address (all-upper-case bech32 is the same
			// account for AccAddressFromBech32 and for signature verification), the op names the account
			spell := func(a string) string {
				if r.Intn(6) == 0 {
					return strings.ToUpper(a)
				}
				return a
			}
			switch k := r.Intn(100); {
			case k < 62:
				creator := actors[r.Intn(len(actors))]
				to := targets[r.Intn(len(targets))]
				if r.Intn(3) > 0 {
					to = targets[r.Intn(6)]
				}
				contents := fmt.Sprintf(`{"m":%d}`, r.Intn(1000))
				if r.Intn(15) == 0 {
					contents = "not json"
				}
				priv := fmt.Sprintf("p%d", r.Intn(10))
				if r.Intn(12) == 0 && len(to) > 20 {
					to = strings.ToUpper(to)
				}
				msg = &notiftypes.MsgCreateNotification{Creator: spell(creator), To: to, Contents: contents, PrivateContents: []byte(priv)}
				op = map[string]interface{}{"create": map[string]interface{}{"creator": creator, "toRaw": to, "resolved": c.resolveJ(to), "contents": contents, "priv": priv, "jsonOk": jsonValid(contents)}}
				c.emitResolve(out, hi, i, to, actors)
				if a, err := c.A.RnsKeeper.Resolve(c.Ctx(), to); err == nil {
					log = append(log, sent{a.String(), creator, now})
				}
			case k < 95:
				creator := actors[r.Intn(len(actors))]
				from := actors[r.Intn(len(actors))]
				t := now
				if len(log) > 0 && r.Intn(5) > 0 {
					s := log[r.Intn(len(log))]
					from, t = s.from, s.t
					if r.Intn(4) > 0 {
						creator = s.to
					}
				}
				if r.Intn(12) == 0 {
					from = []string{"", "a/b", actors[0] + "/" + actors[1], "x/", "../" + actors[0] + "/" + actors[1], "./" + from, from + "/.", "/../" + actors[1] + "/" + actors[2]}[r.Intn(8)]
				}
				if len(log) > 0 && r.Intn(10) == 0 {
					// somebody else's entry addressed by a path: "../<recipient>/<sender>" at its very time
					s := log[r.Intn(len(log))]
					creator = actors[r.Intn(len(actors))]
					from, t = []string{"../", "./../", "x/../../"}[r.Intn(3)]+s.to+"/"+s.from, s.t
				}
				if r.Intn(15) == 0 {
					t = 0
				}
				msg = &notiftypes.MsgDeleteNotification{Creator: spell(creator), From: from, Time: t}
				op = map[string]interface{}{"delete": map[string]interface{}{"creator": creator, "senderSegs": strings.Split(from, "/"), "time": t}}
			default:
				creator := actors[r.Intn(len(actors))]
				n := 1 + r.Intn(3)
				tb := []string{}
				tj := []interface{}{}
				for j := 0; j < n; j++ {
					t := targets[r.Intn(len(targets))]
					if r.Intn(4) > 0 {
						t = targets[r.Intn(6)]
					}
					tb = append(tb, t)
					tj = append(tj, []interface{}{t, c.resolveJ(t)})
					c.emitResolve(out, hi, i, t, actors)
				}
				msg = &notiftypes.MsgBlockSenders{Creator: spell(creator), ToBlock: tb}
				op = map[string]interface{}{"block": map[string]interface{}{"creator": creator, "targets": tj}}
			}
			pre := c.notifAbs()
			res := c.Deliver(msg)
			post := c.notifAbs()
			out.Emit(map[string]interface{}{"mod": "notif", "hist": hi, "i": i, "h": c.H, "now": now, "pre": pre, "op": op, "ok": res.OK, "err": res.Err, "post": post,
				"inboxes": c.inboxesJ(actors), "all": c.allNotifsJ(), "actors": actors})
			out.Count("notif."+opKind(op), res.OK)
		}
		if withGenesis {
			genesisRoundTrip(c, hi, "notif", out)
		}
		c.Close()
	}
}

// notifGenesisJ decodes the notifications part of the last exported application state in the exported order.
func (c *Chain) notifGenesisJ() interface{} {
	var app map[string]json.RawMessage
	if json.Unmarshal(c.LastExport, &app) != nil {
		return nil
	}
	var gs notiftypes.GenesisState
	if err := c.A.AppCodec().UnmarshalJSON(app[notiftypes.ModuleName], &gs); err != nil {
		return map[string]interface{}{"error": err.Error()}
	}
	ns, bs := []interface{}{}, []interface{}{}
	for _, n := range gs.Notifications {
		ns = append(ns, notifJ(n))
	}
	for _, b := range gs.Blocks {
		bs = append(bs, map[string]interface{}{"address": b.Address, "blockedAddress": b.BlockedAddress})
	}
	return map[string]interface{}{"notifications": ns, "blocks": bs, "validateOk": gs.Validate() == nil}
}
